"""Front half: sugar AST export, canonical text of desugared trees, DESUGAR / DENOTE correspondence."""
from __future__ import annotations

from fractions import Fraction

from .core import Atom, sx


def q(x) -> list:
    f = Fraction(x)
    return [Atom("q"), f.numerator, f.denominator]


def export_sugar(e):
    from tensora.expression import ast as s

    if isinstance(e, s.Integer):
        return [Atom("Integer"), e.value]
    if isinstance(e, s.Float):
        return [Atom("Float"), q(e.value)]
    if isinstance(e, s.Tensor):
        return [Atom("Tensor"), e.name, [Atom("list")] + list(e.indexes)]
    for cls, name in ((s.Add, "Add"), (s.Subtract, "Subtract"), (s.Multiply, "Multiply")):
        if isinstance(e, cls):
            return [Atom(name), export_sugar(e.left), export_sugar(e.right)]
    raise TypeError(f"unknown sugar node {type(e).__name__}")


def export_assignment(a):
    return [Atom("Assignment"), export_sugar(a.target), export_sugar(a.expression)]


def canon_desugared(e):
    """canonical text shared with the Lean printer `dexprToSexp`"""
    from tensora.desugar import ast as d

    if isinstance(e, d.Integer):
        return [Atom("int"), e.value]
    if isinstance(e, d.Float):
        f = Fraction(e.value)
        return [Atom("flt"), f.numerator, f.denominator]
    if isinstance(e, d.Tensor):
        return [Atom("tensor"), e.id, e.name, list(e.indexes)]
    if isinstance(e, d.Add):
        return [Atom("add"), canon_desugared(e.left), canon_desugared(e.right)]
    if isinstance(e, d.Multiply):
        return [Atom("mul"), canon_desugared(e.left), canon_desugared(e.right)]
    if isinstance(e, d.Contract):
        idx = []
        while isinstance(e, d.Contract):
            idx.append(e.index)
            e = e.expression
        return [Atom("contract"), sorted(idx), canon_desugared(e)]
    raise TypeError(f"unknown desugared node {type(e).__name__}")


def inputs_sx(inputs: dict):
    return [[name, [[list(c), q(v)] for c, v in cv.items()]] for name, cv in inputs.items()]


def sizes_sx(sizes: dict):
    return [[i, n] for i, n in sizes.items()]


def parse_q(s):
    return Fraction(int(s[1]), int(s[2]))
