"""Shared machinery of every check: build, audit, driver, evidence, findings, verdict.

Run with /venv/bin/python (tensora importable from /repo/src).
"""
from __future__ import annotations

import hashlib
import json
import os
import random
import re
import subprocess
import sys
import time
from pathlib import Path

VERIF = Path(__file__).resolve().parent.parent
LEAN = VERIF / "lean"
DRIVER = LEAN / ".lake" / "build" / "bin" / "tvdriver"
REPO = Path(os.environ.get("TENSORA_REPO", "/repo"))
# where evidence/ and replays/ are written: /verif for every registered command; experiments against scratch
# checkouts (seeded changes, mutation sweeps: TENSORA_REPO=<worktree>) redirect it so that they never touch
# the evidence of the real tree
OUT = Path(os.environ.get("VERIF_OUT", str(VERIF)))
# experiment mode (never set by a registered command): no rebuild/audit of the Lean project, stop at the
# first violation
SWEEP = os.environ.get("VERIF_SWEEP") == "1"


class FirstViolation(BaseException):
    """raised in experiment mode to end the run at the first reported violation"""
ALLOWED_AXIOMS = {"propext", "Classical.choice", "Quot.sound"}

TRUSTED_BASE = [
    "Lean 4.33.0 kernel; axioms allowed: propext, Classical.choice, Quot.sound (audited by #print axioms each run)",
    "Lean compiler/runtime for the native driver that executes the model definitions",
    "hand-written Lean model tied to /repo only by this correspondence run (generator quality bounds it)",
    "CPython, cffi, llvmlite/LLVM, gcc, glibc are modelled or used as oracles, not verified",
    "the Python harness (exporter, generators, canonicalisation)",
]


# ----------------------------------------------------------------------------------------------
# S-expressions
# ----------------------------------------------------------------------------------------------
class Atom(str):
    """A bare atom (as opposed to a quoted string)."""

    __slots__ = ()


def sx(obj) -> str:
    """Serialise nested python lists/tuples/Atoms/str/int/bool to one-line S-expression text."""
    if isinstance(obj, Atom):
        return str(obj)
    if isinstance(obj, bool):
        return "true" if obj else "false"
    if isinstance(obj, int):
        return str(obj)
    if isinstance(obj, str):
        out = []
        for ch in obj:
            o = ord(ch)
            if ch in '"\\' or o < 32 or o > 126:
                if o < 256:
                    out.append("\\x%02x" % o)
                else:
                    out.append("\\u%x;" % o)
            else:
                out.append(ch)
        return '"' + "".join(out) + '"'
    if isinstance(obj, (list, tuple)):
        return "(" + " ".join(sx(x) for x in obj) + ")"
    if obj is None:
        return "nil"
    raise TypeError(f"cannot serialise {type(obj)}: {obj!r}")


_TOKEN = re.compile(r'\s*(?:(\()|(\))|"((?:[^"\\]|\\x[0-9a-fA-F]{2}|\\u[0-9a-fA-F]+;)*)"|([^\s()"]+))')


def _unescape(s: str) -> str:
    def rep(m):
        if m.group(1) is not None:
            return chr(int(m.group(1), 16))
        return chr(int(m.group(2), 16))

    return re.sub(r"\\x([0-9a-fA-F]{2})|\\u([0-9a-fA-F]+);", rep, s)


def parse_sx(text: str):
    """Parse one S-expression; atoms become Atom (ints stay Atom text; use int()), strings str."""
    pos = 0
    stack = [[]]
    n = len(text)
    while pos < n:
        m = _TOKEN.match(text, pos)
        if not m:
            if text[pos:].strip() == "":
                break
            raise ValueError(f"bad sexp at {pos}: {text[pos:pos+40]!r}")
        pos = m.end()
        if m.group(1):
            stack.append([])
        elif m.group(2):
            top = stack.pop()
            stack[-1].append(top)
        elif m.group(3) is not None:
            stack[-1].append(_unescape(m.group(3)))
        else:
            stack[-1].append(Atom(m.group(4)))
    if len(stack) != 1:
        raise ValueError("unbalanced sexp")
    if len(stack[0]) == 1:
        return stack[0][0]
    return stack[0]


# ----------------------------------------------------------------------------------------------
# Build + audit
# ----------------------------------------------------------------------------------------------
class MachineryError(Exception):
    """Tooling failure: exit 2, never a violation."""


def build_lean(quiet=True):
    t0 = time.time()
    r = subprocess.run(["lake", "build"], cwd=LEAN, capture_output=True, text=True)
    if r.returncode != 0 or not DRIVER.exists():
        sys.stderr.write(r.stdout[-4000:] + r.stderr[-4000:])
        raise MachineryError("lake build failed")
    return time.time() - t0


_FORBIDDEN = re.compile(
    r"\bsorry\b|\badmit\b|^\s*axiom\s|native_decide|bv_decide|implemented_by|\bunsafe\s|maxHeartbeats\s+0\b"
)


def _strip_comments(src: str) -> str:
    # remove /- … -/ (nested) and -- … comments
    out = []
    i, depth, n = 0, 0, len(src)
    while i < n:
        if src.startswith("/-", i):
            depth += 1
            i += 2
        elif depth and src.startswith("-/", i):
            depth -= 1
            i += 2
        elif depth:
            i += 1
        elif src.startswith("--", i):
            j = src.find("\n", i)
            i = n if j < 0 else j
        else:
            out.append(src[i])
            i += 1
    return "".join(out)


def grep_forbidden() -> list[str]:
    hits = []
    for p in sorted(LEAN.rglob("*.lean")):
        if ".lake" in p.parts or p.name.startswith(".audit_"):
            continue  # (.audit_* are the short-lived `#print axioms` files of checks running at the same time)
        try:
            body = _strip_comments(p.read_text())
        except FileNotFoundError:
            continue
        # string literals may legitimately contain words; only the driver has such strings
        for ln, line in enumerate(body.splitlines(), 1):
            if _FORBIDDEN.search(line):
                hits.append(f"{p.relative_to(VERIF)}:{ln}: {line.strip()[:100]}")
    return hits


def theorems_for(prop: str) -> dict:
    data = json.loads((LEAN / "theorems.json").read_text())
    return data.get(prop, {"modules": [], "theorems": []})


def audit(prop: str) -> dict:
    """#print axioms for every theorem registered for `prop`; returns obligations/discharged."""
    spec = theorems_for(prop)
    thms = spec["theorems"]
    hits = grep_forbidden()
    if hits:
        raise MachineryError("forbidden constructs in Lean sources: " + "; ".join(hits[:5]))
    if not thms:
        return {"obligations": 0, "discharged": 0, "theorems": [], "axioms": {}}
    tmp = LEAN / f".audit_{prop}_{os.getpid()}.lean"
    src = "".join(f"import {m}\n" for m in spec["modules"])
    src += "".join(f"#print axioms {t}\n" for t in thms)
    tmp.write_text(src)
    try:
        r = subprocess.run(["lake", "env", "lean", tmp.name], cwd=LEAN, capture_output=True, text=True)
    finally:
        tmp.unlink(missing_ok=True)
    out = r.stdout + r.stderr
    if r.returncode != 0:
        sys.stderr.write(out[-3000:])
        raise MachineryError(f"audit of {prop} failed to compile")
    axioms = {}
    # "'name' depends on axioms: [a, b]" possibly over several lines, or "'name' does not depend on any axioms"
    flat = re.sub(r"\s+", " ", out)
    for m in re.finditer(r"'([^']+)' depends on axioms: \[([^\]]*)\]", flat):
        axioms[m.group(1)] = [a.strip() for a in m.group(2).split(",") if a.strip()]
    for m in re.finditer(r"'([^']+)' does not depend on any axioms", flat):
        axioms[m.group(1)] = []
    bad = {t: a for t, a in axioms.items() if not set(a) <= ALLOWED_AXIOMS}
    missing = [t for t in thms if t not in axioms and t.split(".")[-1] not in {k.split(".")[-1] for k in axioms}]
    if bad or missing:
        raise MachineryError(f"axiom audit failed: bad={bad} missing={missing}")
    return {"obligations": len(thms), "discharged": len(axioms), "theorems": thms, "axioms": axioms}


# ----------------------------------------------------------------------------------------------
# Driver
# ----------------------------------------------------------------------------------------------
class Driver:
    """Persistent line-protocol connection to the Lean model driver."""

    def __init__(self):
        if not DRIVER.exists():
            raise MachineryError("driver not built")
        self.p = subprocess.Popen([str(DRIVER)], stdin=subprocess.PIPE, stdout=subprocess.PIPE, text=True, bufsize=1)
        self.requests = 0

    def ask(self, cmd: str, *args) -> object:
        line = cmd + " " + " ".join(sx(a) for a in args)
        return self.ask_raw(line)

    def ask_raw(self, line: str):
        assert "\n" not in line
        self.p.stdin.write(line + "\n")
        self.p.stdin.flush()
        out = self.p.stdout.readline()
        if not out:
            raise MachineryError(f"driver died on: {line[:200]}")
        self.requests += 1
        return parse_sx(out)

    def batch(self, lines: list[str]) -> list:
        """Send many requests at once (much faster than ask in a loop)."""
        if not lines:
            return []
        r = subprocess.run([str(DRIVER)], input="\n".join(lines) + "\n", capture_output=True, text=True)
        outs = r.stdout.splitlines()
        if len(outs) != len(lines):
            raise MachineryError(f"driver answered {len(outs)} of {len(lines)} requests: {r.stderr[-500:]}")
        self.requests += len(lines)
        return [parse_sx(o) for o in outs]

    def close(self):
        try:
            self.p.stdin.close()
            self.p.wait(timeout=5)
        except Exception:
            self.p.kill()


# ----------------------------------------------------------------------------------------------
# Findings, replays, evidence, verdict
# ----------------------------------------------------------------------------------------------
def load_findings() -> list[dict]:
    p = VERIF / "KNOWN_FINDINGS.json"
    if not p.exists():
        return []
    return json.loads(p.read_text()).get("findings", [])


class Check:
    """One run of one property's check."""

    def __init__(self, prop: str, tier: str, seed: int):
        self.prop, self.tier, self.seed = prop, tier, seed
        self.rng = random.Random(f"{prop}:{seed}")
        self.t0 = time.time()
        self.cov: dict = {
            "evaluations": 0,
            "distinct_nontrivial": 0,
            "samples": [],
            "rule": "",
            "exhaustive": False,
            "correspondence": {},
            "distribution": {},
            "known_findings_seen": [],
        }
        self._distinct: set = set()
        self.violations: list[dict] = []
        self.unproved: list[dict] = []
        self.known_seen: dict[str, str] = {}
        self.findings = [f for f in load_findings() if f.get("property") == prop]
        self.assumptions: list[str] = []
        self.audit_info: dict = {}
        self.extra_obligations = 0
        self.extra_discharged = 0

    # --- bookkeeping --------------------------------------------------------------------------
    def count(self, key: str, n: int = 1):
        d = self.cov["distribution"]
        d[key] = d.get(key, 0) + n

    def case(self, nontrivial_key=None, sample=None):
        self.cov["evaluations"] += 1
        if nontrivial_key is not None:
            self._distinct.add(nontrivial_key)
        if sample is not None and len(self.cov["samples"]) < 8:
            self.cov["samples"].append(sample)

    def corr(self, name: str, n: int = 1, mismatches: int = 0):
        c = self.cov["correspondence"].setdefault(name, {"cases": 0, "mismatches": 0})
        c["cases"] += n
        c["mismatches"] += mismatches

    def mark(self, case):
        """record the case about to be run against the real code (read back if the process crashes)"""
        path = os.environ.get("VERIF_MARK_FILE")
        if path:
            try:
                with open(path, "w") as f:
                    json.dump(case, f, default=str)
            except OSError:
                pass
        if os.environ.get("VERIF_SELFTEST_CRASH") == self.prop:  # self-test of the crash path only
            os.kill(os.getpid(), 11)

    # --- outcomes -----------------------------------------------------------------------------
    def known(self, fid: str, what: str):
        """The unchanged code violates the property on a case listed in KNOWN_FINDINGS.json."""
        if fid not in self.known_seen:
            self.known_seen[fid] = what

    def match_known(self, predicate) -> dict | None:
        for f in self.findings:
            if f.get("status") == "known" and predicate(f):
                return f
        return None

    def violation(self, what: str, case: dict, expected=None, got=None):
        self.violations.append(
            {"kind": "counterexample", "what": what, "case": case, "expected": expected, "got": got}
        )
        if SWEEP:
            raise FirstViolation()

    def unproved_obligation(self, obligation: str, what: str, case: dict | None = None):
        self.unproved.append({"kind": "unproved-obligation", "obligation": obligation, "what": what, "case": case})
        if SWEEP:
            raise FirstViolation()

    # --- finish -------------------------------------------------------------------------------
    def finish(self) -> int:
        wall = time.time() - self.t0
        self.cov["distinct_nontrivial"] = len(self._distinct)
        self.cov["known_findings_seen"] = sorted(self.known_seen)
        a = self.audit_info
        self.cov["obligations"] = a.get("obligations", 0) + self.extra_obligations
        self.cov["discharged"] = a.get("discharged", 0) + self.extra_discharged
        self.cov["theorems"] = a.get("theorems", [])
        self.cov["checker_cmd"] = (
            "cd /verif/lean && lake build && lake env lean <generated #print axioms file> "
            f"(theorems listed in lean/theorems.json[{self.prop}]); then ./check {self.prop} --tier {self.tier}"
        )
        self.cov["trusted_base"] = TRUSTED_BASE
        try:
            from . import linecov

            lc = linecov.report(self.prop, VERIF, str(REPO / "src"))
            if lc:
                self.cov["anchor_lines_executed"] = lc
                self.cov["anchor_lines_note"] = (
                    "lines inside functions of the files this property is anchored in that were executed IN THE CHECK PROCESS "
                    "(sys.monitoring); worker subprocesses are not traced; not_executed lists the places no execution-based part "
                    "of this run could observe")
        except Exception as e:  # noqa: BLE001 - a measurement, never a reason to fail the check
            self.cov["anchor_lines_note"] = f"line measurement failed: {e}"
        rc = 0
        lines = []
        for fid, what in sorted(self.known_seen.items()):
            lines.append(f"KNOWN-FINDING: property={self.prop} {fid} {what}")
        replay_dir = OUT / "replays"
        if self.violations or self.unproved:
            replay_dir.mkdir(exist_ok=True)
        for v in self.violations[:5]:
            h = hashlib.sha1(json.dumps(v, sort_keys=True, default=str).encode()).hexdigest()[:10]
            path = replay_dir / f"{self.prop}-{h}.json"
            v = dict(v, property=self.prop, seed=self.seed, tier=self.tier, how=f"./check {self.prop} --replay {path}")
            path.write_text(json.dumps(v, indent=1, default=str))
            lines.append(f"VIOLATION property={self.prop} replay={path}")
            rc = 1
        if not self.violations:
            for u in self.unproved[:5]:
                h = hashlib.sha1(json.dumps(u, sort_keys=True, default=str).encode()).hexdigest()[:10]
                path = replay_dir / f"{self.prop}-{h}.json"
                u = dict(u, property=self.prop, seed=self.seed, tier=self.tier)
                path.write_text(json.dumps(u, indent=1, default=str))
                lines.append(f"VIOLATION property={self.prop} replay={path} no-failing-input-found")
                rc = 1
        ev = {
            "property_id": self.prop,
            "tier": self.tier,
            "seed": self.seed,
            "level": "proof",
            "coverage": self.cov,
            "assumptions": self.assumptions,
            "wall_s": round(wall, 2),
            "violations": len(self.violations) + (len(self.unproved) if not self.violations else 0),
        }
        (OUT / "evidence").mkdir(parents=True, exist_ok=True)
        (OUT / "evidence" / f"{self.prop}.json").write_text(json.dumps(ev, indent=1, default=str))
        for line in lines:
            print(line)
        print(
            f"[{self.prop}] tier={self.tier} seed={self.seed} evaluations={self.cov['evaluations']} "
            f"distinct={self.cov['distinct_nontrivial']} theorems={self.cov['discharged']}/{self.cov['obligations']} "
            f"violations={ev['violations']} wall={wall:.1f}s"
        )
        return rc
