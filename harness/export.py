"""Generic, reflection-based exporter of tensora dataclasses to the S-expression wire format.

(ClassName field1 ... fieldn) in dataclass field order; list/tuple -> (list ...); str -> "..";
bool/int -> atoms; float -> (f <u64 bits>); None -> nil; Enum -> (EnumClass member).
A class or field the Lean reader does not know is a correspondence break by design.
"""
from __future__ import annotations

import dataclasses
import enum
import struct

from .core import Atom


def fbits(x: float) -> int:
    return struct.unpack("<Q", struct.pack("<d", float(x)))[0]


def bits_to_float(n: int) -> float:
    return struct.unpack("<d", struct.pack("<Q", int(n)))[0]


def export(obj):
    if obj is None:
        return Atom("nil")
    if isinstance(obj, bool):
        return obj
    if isinstance(obj, int):
        return obj
    if isinstance(obj, float):
        return [Atom("f"), fbits(obj)]
    if isinstance(obj, str):
        return obj
    if isinstance(obj, enum.Enum):
        return [Atom(type(obj).__name__), Atom(obj.name)]
    if dataclasses.is_dataclass(obj) and not isinstance(obj, type):
        return [Atom(type(obj).__name__)] + [export(getattr(obj, f.name)) for f in dataclasses.fields(obj)]
    if isinstance(obj, (list, tuple)):
        return [Atom("list")] + [export(x) for x in obj]
    if isinstance(obj, (set, frozenset)):
        return [Atom("set")] + sorted((export(x) for x in obj), key=repr)
    if isinstance(obj, dict):
        return [Atom("dict")] + [[export(k), export(v)] for k, v in obj.items()]
    # StableFrozenSet etc.
    if hasattr(obj, "__iter__"):
        return [Atom(type(obj).__name__)] + [export(x) for x in obj]
    raise TypeError(f"cannot export {type(obj)}: {obj!r}")
