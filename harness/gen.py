"""Seeded generators shared by the checks (formats, assignments, inputs)."""
from __future__ import annotations

import itertools
import re


def all_formats(order: int) -> list[tuple[tuple[str, ...], tuple[int, ...]]]:
    out = []
    for modes in itertools.product("ds", repeat=order):
        for ordering in itertools.permutations(range(order)):
            out.append((tuple(modes), tuple(ordering)))
    return out


def fmt_str(modes, ordering) -> str:
    if tuple(ordering) == tuple(range(len(modes))):
        return "".join(modes)
    return "".join(f"{m}{o}" for m, o in zip(modes, ordering))


def parse_fmt(s: str):
    parts = re.findall(r"([ds])(\d*)", s)
    modes = tuple(m for m, _ in parts)
    if parts and parts[0][1] != "":
        ordering = tuple(int(o) for _, o in parts)
    else:
        ordering = tuple(range(len(modes)))
    return modes, ordering
