"""Correspondence of the identifiable-expression algebra: exhaust_tensor / extract_context (Python)
vs Graph.exhaust / Graph.extractContext (Lean)."""
from __future__ import annotations

import itertools
from fractions import Fraction

from .core import Atom, sx


def export_id(e):
    from tensora.iteration_graph.identifiable_expression import ast as ia

    if isinstance(e, ia.Integer):
        return [Atom("Integer"), e.value]
    if isinstance(e, ia.Float):
        f = Fraction(e.value)
        return [Atom("Float"), [Atom("q"), f.numerator, f.denominator]]
    if isinstance(e, ia.Tensor):
        return [Atom("Tensor"), e.id, e.name, [Atom("list")] + list(e.indexes),
                [Atom("list")] + [[Atom("Mode"), Atom(m.name)] for m in e.modes]]
    if isinstance(e, ia.Add):
        return [Atom("Add"), export_id(e.left), export_id(e.right)]
    if isinstance(e, ia.Multiply):
        return [Atom("Multiply"), export_id(e.left), export_id(e.right)]
    raise TypeError(f"unknown identifiable node {type(e).__name__}")


def random_id_expr(rng, n_leaves):
    from tensora.format import Mode
    from tensora.iteration_graph.identifiable_expression import ast as ia

    counter = itertools.count()

    def leaf():
        r = rng.random()
        if r < 0.15:
            return rng.choice([ia.Integer(0), ia.Integer(1), ia.Integer(2), ia.Integer(-1), ia.Float(0.0), ia.Float(2.5), ia.Float(-0.0)])
        k = next(counter)
        name = rng.choice("bcd")
        order = rng.choice([1, 1, 2])
        idx = tuple(rng.sample(["i", "j", "k"], order))
        modes = tuple(rng.choice([Mode.dense, Mode.compressed]) for _ in range(order))
        return ia.Tensor(f"{k}_{name}", name, idx, modes)

    def tree(n):
        if n == 1:
            return leaf()
        k = rng.randint(1, n - 1)
        return rng.choice([ia.Add, ia.Multiply])(tree(k), tree(n - k))

    return tree(n_leaves)


def ids_of(e):
    from tensora.iteration_graph.identifiable_expression import ast as ia

    if isinstance(e, ia.Tensor):
        return [e.id]
    if isinstance(e, (ia.Add, ia.Multiply)):
        return ids_of(e.left) + ids_of(e.right)
    return []


def run(chk, drv, n):
    from tensora.iteration_graph.identifiable_expression import exhaust_tensor, extract_context

    rng = chk.rng
    reqs, meta = [], []
    for _ in range(n):
        e = random_id_expr(rng, rng.randint(1, 5))
        ids = ids_of(e)
        refs = [i for i in ids if rng.random() < 0.5]
        rng.shuffle(refs)
        py = e
        for r in refs:
            py = exhaust_tensor(py, r)
        reqs.append("EXHAUST " + sx(export_id(e)) + " " + sx(refs))
        meta.append(("exhaust", e, refs, sx(export_id(py))))
        for ix in ("i", "j"):
            c = extract_context(e, ix)
            want = [Atom("Context"), c.is_sparse, [[l.tensor.id, l.layer] for l in c.sparse_leaves], [[l.tensor.id, l.layer] for l in c.dense_leaves]]
            reqs.append("CONTEXT " + sx(export_id(e)) + " " + sx(ix))
            meta.append(("context", e, ix, sx(want)))
    mism = {"exhaust": 0, "context": 0}
    cnt = {"exhaust": 0, "context": 0}
    for (kind, e, arg, want), rep in zip(meta, drv.batch(reqs)):
        cnt[kind] += 1
        if sx(rep) != want:
            mism[kind] += 1
            chk.unproved_obligation(f"correspondence:{kind}", f"python {want[:300]} vs lean {sx(rep)[:300]}",
                                    {"expression": sx(export_id(e)), "arg": arg})
    for kind in cnt:
        chk.corr(kind, cnt[kind], mism[kind])
