"""Correspondence of the identifiable-expression algebra: exhaust_tensor / extract_context (Python)
vs Graph.exhaust / Graph.extractContext (Lean)."""
from __future__ import annotations

import itertools
from fractions import Fraction

from .core import Atom, sx


def export_id(e):
    from tensora.iteration_graph.identifiable_expression import ast as ia

    if isinstance(e, ia.Integer):
        return [Atom("Integer"), e.value]
    if isinstance(e, ia.Float):
        f = Fraction(e.value)
        return [Atom("Float"), [Atom("q"), f.numerator, f.denominator]]
    if isinstance(e, ia.Tensor):
        return [Atom("Tensor"), e.id, e.name, [Atom("list")] + list(e.indexes),
                [Atom("list")] + [[Atom("Mode"), Atom(m.name)] for m in e.modes]]
    if isinstance(e, ia.Add):
        return [Atom("Add"), export_id(e.left), export_id(e.right)]
    if isinstance(e, ia.Multiply):
        return [Atom("Multiply"), export_id(e.left), export_id(e.right)]
    raise TypeError(f"unknown identifiable node {type(e).__name__}")


def random_id_expr(rng, n_leaves):
    from tensora.format import Mode
    from tensora.iteration_graph.identifiable_expression import ast as ia

    counter = itertools.count()

    def leaf():
        r = rng.random()
        if r < 0.15:
            return rng.choice([ia.Integer(0), ia.Integer(1), ia.Integer(2), ia.Integer(-1), ia.Float(0.0), ia.Float(2.5), ia.Float(-0.0)])
        k = next(counter)
        name = rng.choice("bcd")
        order = rng.choice([1, 1, 2])
        idx = tuple(rng.sample(["i", "j", "k"], order))
        modes = tuple(rng.choice([Mode.dense, Mode.compressed]) for _ in range(order))
        return ia.Tensor(f"{k}_{name}", name, idx, modes)

    def tree(n):
        if n == 1:
            return leaf()
        k = rng.randint(1, n - 1)
        return rng.choice([ia.Add, ia.Multiply])(tree(k), tree(n - k))

    return tree(n_leaves)


def ids_of(e):
    from tensora.iteration_graph.identifiable_expression import ast as ia

    if isinstance(e, ia.Tensor):
        return [e.id]
    if isinstance(e, (ia.Add, ia.Multiply)):
        return ids_of(e.left) + ids_of(e.right)
    return []


def run(chk, drv, n):
    from tensora.iteration_graph.identifiable_expression import exhaust_tensor, extract_context

    rng = chk.rng
    reqs, meta = [], []
    for _ in range(n):
        e = random_id_expr(rng, rng.randint(1, 5))
        ids = ids_of(e)
        refs = [i for i in ids if rng.random() < 0.5]
        rng.shuffle(refs)
        py = e
        for r in refs:
            py = exhaust_tensor(py, r)
        reqs.append("EXHAUST " + sx(export_id(e)) + " " + sx(refs))
        meta.append(("exhaust", e, refs, sx(export_id(py))))
        for ix in ("i", "j"):
            c = extract_context(e, ix)
            want = [Atom("Context"), c.is_sparse, [[l.tensor.id, l.layer] for l in c.sparse_leaves], [[l.tensor.id, l.layer] for l in c.dense_leaves]]
            reqs.append("CONTEXT " + sx(export_id(e)) + " " + sx(ix))
            meta.append(("context", e, ix, sx(want)))
    mism = {"exhaust": 0, "context": 0}
    cnt = {"exhaust": 0, "context": 0}
    for (kind, e, arg, want), rep in zip(meta, drv.batch(reqs)):
        cnt[kind] += 1
        if sx(rep) != want:
            mism[kind] += 1
            chk.unproved_obligation(f"correspondence:{kind}", f"python {want[:300]} vs lean {sx(rep)[:300]}",
                                    {"expression": sx(export_id(e)), "arg": arg})
    for kind in cnt:
        chk.corr(kind, cnt[kind], mism[kind])


def export_graph(g):
    """canonical text shared with Lean `graphToSexp`"""
    from tensora.iteration_graph.iteration_graph import IterationNode, SumNode, TerminalNode

    if isinstance(g, TerminalNode):
        return [Atom("T"), export_id(g.expression)]
    if isinstance(g, IterationNode):
        o = Atom("nil") if g.output is None else [g.output.tensor.id, g.output.layer]
        return [Atom("I"), g.index_variable, o, export_graph(g.next)]
    if isinstance(g, SumNode):
        return [Atom("S")] + [export_graph(t) for t in g.terms]
    raise TypeError(type(g).__name__)


def best_graph_request(pr):
    from . import algebra

    fs = [[n, "".join(pr.fmts[n][0]), list(pr.fmts[n][1])] for n in pr.problem.formats.keys()]
    return "GRAPH " + sx(algebra.export_assignment(pr.assignment)) + " " + sx(fs)


def real_outcome(pr):
    """('graph', text, lowerable) | ('diagonal',) | ('nokernel',) from the real front half + generate_ir"""
    from returns.result import Failure
    from tensora.desugar import DiagonalAccessError, NoKernelFoundError, best_algorithm, desugar_assignment, index_dimensions, to_identifiable
    from tensora.iteration_graph import Definition, generate_ir
    from tensora.kernel_type import KernelType

    d = desugar_assignment(pr.problem.assignment)
    r = best_algorithm(d, pr.problem.formats)
    if isinstance(r, Failure):
        return ("diagonal",) if isinstance(r.failure(), DiagonalAccessError) else ("nokernel",)
    g = r.unwrap()
    definition = Definition(to_identifiable(d.target, pr.problem.formats), pr.problem.formats, index_dimensions(d))
    try:
        generate_ir(definition, g, KernelType.evaluate)
        low = True
    except (NotImplementedError, RuntimeError):
        low = False
    return ("graph", sx(export_graph(g)), low)


def model_outcomes(drv, prepared):
    """pr.key() -> ('graph', lowerable) | ('diagonal',) | ('nokernel',) according to the Lean model"""
    out = {}
    for pr, rep in zip(prepared, drv.batch([best_graph_request(pr) for pr in prepared])):
        tag = rep[0] if isinstance(rep, list) else str(rep)
        out[pr.key()] = ("graph", rep[3] == "true") if tag == "graph" else (str(tag),)
    return out


def run_graphs(chk, drv, prepared):
    reqs = [best_graph_request(pr) for pr in prepared]
    mism = 0
    for pr, rep in zip(prepared, drv.batch(reqs)):
        real = real_outcome(pr)
        tag = rep[0] if isinstance(rep, list) else str(rep)
        chk.count("graph_outcome_" + real[0])
        if tag == "graph" and len(rep) >= 7:
            # hypotheses of `lowerable_iff_generateIr_ok` (properSums, noSkip) and of `generateIr_store_targets`
            # (outLeavesOf, proved for best_algorithm's graphs) on the graph the model chose
            chk.count("graph_properSums_" + str(rep[4]))
            chk.count("graph_noSkip_" + str(rep[5]))
            chk.count("graph_outLeavesOfOutput_" + str(rep[6]))
        if real[0] == "graph":
            good = tag == "graph" and sx(rep[1]) == real[1] and (rep[3] == "true") == real[2]
            if not real[2]:
                chk.count("graph_not_lowerable")
        else:
            good = tag == real[0]
        if not good:
            mism += 1
            chk.unproved_obligation("correspondence:best_algorithm", f"model {sx(rep)[:400]} vs code {str(real)[:400]}", pr.case())
    chk.corr("best_algorithm+lowerable", len(prepared), mism)


def lattice_order_check(chk, n_graphs, drv=None):
    """first-match property of generate_subgraphs (the order of the emitted loops and of the if/else-if
    chain): for every set P of present sparse tensors, the first subgraph whose sparse tensors are all in P
    must be the one that keeps every tensor of P (= the graph with exactly the absent tensors exhausted).
    A failure of this structural obligation is followed by a search for a concrete input on which the
    kernel of that expression is wrong (value, well-formedness, machine error)."""
    import itertools

    from tensora.format import Mode
    from tensora.iteration_graph._generate_ir import generate_subgraphs
    from tensora.iteration_graph.identifiable_expression import ast as ia
    from tensora.iteration_graph.iteration_graph import IterationNode, TerminalNode

    rng = chk.rng
    bad = 0
    for _ in range(n_graphs):
        n = rng.randint(2, 6)
        leaves = [ia.Tensor(f"{k}_t{k}", f"t{k}", ("i",), (Mode.compressed,)) for k in range(n)]
        rng.shuffle(leaves)

        def tree(ls):
            if len(ls) == 1:
                return ls[0]
            k = rng.randint(1, len(ls) - 1)
            return rng.choice([ia.Add, ia.Multiply])(tree(ls[:k]), tree(ls[k:]))

        expr = tree(leaves)
        node = IterationNode("i", None, TerminalNode(expr))
        subs = generate_subgraphs(node)
        keys = [set(g.compressed_dimensions()) for g in subs]
        ids = [t.id for t in leaves]
        chk.count("lattice_graphs")
        failed = None
        for r in range(len(ids) + 1):
            for present in itertools.combinations(ids, r):
                P = set(present)
                first = next((k for k in keys if k <= P), None)
                g = node
                for t in ids:
                    if t not in P:
                        g = g.exhaust_tensor(t)
                want = set(g.compressed_dimensions())
                if first != want and failed is None:
                    failed = (sorted(P), sorted(want), sorted(first) if first is not None else None)
        if failed is not None:
            bad += 1
            if bad <= 3:
                found = _search_lattice_input(chk, drv, expr) if drv is not None else None
                case = {"expression": sx(export_id(expr)), "present": failed[0], "first_match": failed[2], "should_be": failed[1]}
                if found is not None:
                    chk.violation("co-iteration order is wrong (a smaller subgraph precedes a larger one) and the kernel misbehaves: " + found[0],
                                  dict(case, **found[1]), expected=found[2], got=found[3])
                else:
                    chk.unproved_obligation("lemma:subgraphs_first_match", "the first loop/branch whose sparse tensors are all present is not the one that keeps every present tensor", case)
    chk.count("lattice_order_violations", bad)


def _id_text(e):
    from tensora.iteration_graph.identifiable_expression import ast as ia

    if isinstance(e, ia.Tensor):
        return f"{e.name}(i)"
    l, r = _id_text(e.left), _id_text(e.right)
    if isinstance(e, ia.Add):
        return f"{l} + {r}"
    if isinstance(e.left, ia.Add):
        l = f"({l})"
    if isinstance(e.right, (ia.Add, ia.Multiply)):
        r = f"({r})"
    return f"{l} * {r}"


def _search_lattice_input(chk, drv, expr):
    """run the evaluate kernel of `a(i) = expr` (all-sparse inputs, sparse and dense output) on random
    inputs; returns (what, case, expected, got) for the first wrong result"""
    from . import kernels, kruns, problems
    from .gen import parse_fmt

    rng = chk.rng
    text = "a(i) = " + _id_text(expr)
    for out_fmt in ("s", "d"):
        a = problems.parse(text)
        fm = {n: parse_fmt("s") for n in a.variable_orders()}
        fm["a"] = parse_fmt(out_fmt)
        pr = kruns.Prepared(text, fm)
        if pr.problem is None or not pr.generate():
            continue
        items = []
        for _ in range(60):
            sizes = {"i": rng.choice([4, 6, 8])}
            ins = {}
            for name, t in pr.tensors_of().items():
                ins[name] = (problems.random_input(rng, (sizes["i"],), rng.choice([0.2, 0.5, 0.8]), values=(1, 2, 3, -1)), (sizes["i"],))
            items.append((pr, sizes, ins))
        for (pr_, sizes, ins), r in zip(items, kruns.machine_runs(drv, items, kinds=("evaluate",))):
            case = pr_.case(sizes, ins)
            if r.problems:
                return (r.problems[0][1], {"kernel_case": case}, None, None)
            raw = r.raw_evaluate
            if raw is None:
                continue
            wf = kernels.wf_problems(raw)
            if wf:
                return ("result is not well-formed: " + "; ".join(wf), {"kernel_case": case}, None, raw.levels)
            exp = pr_.expected(sizes, ins)
            if not kruns.values_equal(raw.decode(), exp):
                return ("value differs from the assignment's meaning", {"kernel_case": case}, sorted((list(k), v) for k, v in exp.items() if v), sorted((list(k), v) for k, v in raw.decode().items()))
    return None
