"""Kernel generation, execution on the Lean IR machine and on the real back ends, and the
independent specification oracle (sum-of-products semantics) used by C01–C05, C16."""
from __future__ import annotations

import itertools
import os
import pickle
import signal
import struct
import traceback

from .core import Atom, sx
from .export import bits_to_float, export, fbits


# ----------------------------------------------------------------------------------------------
# IR generation (the same pipeline as generate_module_tensora, with and without peephole)
# ----------------------------------------------------------------------------------------------
class Refusal(Exception):
    def __init__(self, kind, error):
        super().__init__(kind)
        self.kind = kind
        self.error = error


def generate_ir_module(problem, kinds, optimise=True):
    """Returns ir.Module; raises Refusal('diagonal'|'nokernel') for documented refusals.
    Any other exception is an internal error of the compiler and propagates."""
    from returns.result import Failure
    from tensora.desugar import (
        DiagonalAccessError,
        NoKernelFoundError,
        best_algorithm,
        desugar_assignment,
        index_dimensions,
        to_identifiable,
    )
    from tensora.ir import peephole
    from tensora.ir.ast import Module
    from tensora.iteration_graph import Definition, generate_ir
    from tensora.kernel_type import KernelType

    formats = problem.formats
    desugar = desugar_assignment(problem.assignment)
    output_variable = to_identifiable(desugar.target, formats)
    definition = Definition(output_variable, formats, index_dimensions(desugar))
    r = best_algorithm(desugar, formats)
    if isinstance(r, Failure):
        e = r.failure()
        if isinstance(e, DiagonalAccessError):
            raise Refusal("diagonal", e)
        if isinstance(e, NoKernelFoundError):
            raise Refusal("nokernel", e)
        raise e
    graph = r.unwrap()
    functions = [generate_ir(definition, graph, KernelType[k]) for k in kinds]
    module = Module(functions)
    return peephole(module) if optimise else module


# ----------------------------------------------------------------------------------------------
# Tensors as raw structures
# ----------------------------------------------------------------------------------------------
class Raw:
    """dimension-order dims; per-level ('d',) or ('s', pos, crd); vals list of float"""

    def __init__(self, dims, modes, ordering, levels, vals):
        self.dims, self.modes, self.ordering, self.levels, self.vals = tuple(dims), tuple(modes), tuple(ordering), levels, vals

    @staticmethod
    def of_tensor(t):
        """read the raw arrays through the cffi struct itself (independent of Tensor.taco_indices /
        taco_vals / items, which are code under test)"""
        from tensora.compile import tensor_cdefs

        ct = t.cffi_tensor
        order = int(ct.order)
        dims = tuple(int(ct.dimensions[i]) for i in range(order))
        ordering = tuple(int(ct.mode_ordering[i]) for i in range(order))
        modes = tuple("d" if int(ct.mode_types[i]) == 0 else "s" for i in range(order))
        idx = tensor_cdefs.cast("int32_t***", ct.indices)
        levels = []
        npos = 1
        for l in range(order):
            if modes[l] == "d":
                levels.append(("d",))
                npos *= dims[ordering[l]]
            else:
                pos = [int(idx[l][0][k]) for k in range(npos + 1)]
                n = pos[-1] if pos else 0
                crd = [int(idx[l][1][k]) for k in range(max(n, 0))]
                levels.append(("s", pos, crd))
                npos = len(crd)
        vals = tensor_cdefs.cast("double*", ct.vals)
        return Raw(dims, modes, ordering, levels, [float(vals[k]) for k in range(npos)])

    def decode(self, explicit_zeros=True):
        """coordinate (dimension order) -> value, straight from the arrays."""
        order = len(self.dims)
        ldims = [self.dims[i] for i in self.ordering]
        out = {}

        def rec(l, pre, p):
            if l == order:
                coord = [0] * order
                for lv, c in enumerate(pre):
                    coord[self.ordering[lv]] = c
                v = self.vals[p]
                if tuple(coord) in out:
                    raise ValueError("duplicate coordinate in stored tensor")
                out[tuple(coord)] = v
                return
            lev = self.levels[l]
            if lev[0] == "d":
                for c in range(ldims[l]):
                    rec(l + 1, pre + [c], p * ldims[l] + c)
            else:
                pos, crd = lev[1], lev[2]
                for q in range(pos[p], pos[p + 1]):
                    rec(l + 1, pre + [crd[q]], q)

        rec(0, [], 0)
        if not explicit_zeros:
            out = {k: v for k, v in out.items() if v != 0.0}
        return out

    def stored_sx(self):
        levels = [[Atom("dense")] if lv[0] == "d" else [Atom("compressed"), list(lv[1]), list(lv[2])] for lv in self.levels]
        return [Atom("stored"), list(self.dims), list(self.ordering), levels, [0 for _ in self.vals]]

    def heap_sx(self, name, role="input"):
        levels = [[Atom("dense")] if lv[0] == "d" else [Atom("compressed"), list(lv[1]), list(lv[2])] for lv in self.levels]
        return [Atom("tensor"), name, list(self.dims), levels, [[Atom("f"), fbits(v)] for v in self.vals], Atom(role)]


def empty_output_sx(name, dims, modes):
    levels = [[Atom("dense")] if m == "d" else [Atom("compressed"), Atom("null"), Atom("null")] for m in modes]
    return [Atom("tensor"), name, list(dims), levels, Atom("null"), Atom("output")]


def make_tensor(coords_vals: dict, dims, modes, ordering):
    from tensora import Tensor
    from tensora.format import Format, Mode

    fmt = Format(tuple(Mode.dense if m == "d" else Mode.compressed for m in modes), tuple(ordering))
    return Tensor.from_aos(list(coords_vals.keys()), list(coords_vals.values()), dimensions=tuple(dims), format=fmt)


# ----------------------------------------------------------------------------------------------
# Lean machine execution
# ----------------------------------------------------------------------------------------------
class MachineResult:
    def __init__(self, reply):
        self.reply = reply
        self.ok = isinstance(reply, list) and len(reply) > 0 and reply[0] == "ok"
        self.err = None if self.ok else (str(reply[1]) if isinstance(reply, list) and len(reply) > 1 else str(reply))
        self.tensors = {}
        if self.ok:
            self.ret = reply[1][1]
            for t in reply[2]:
                self.tensors[t[1]] = (t[2], t[3])
            self.iters = int(reply[3][1])
            self.steps = int(reply[4][1])
            self.blocks = int(reply[5][1])

    @staticmethod
    def _blk(b):
        """-> (live, cells) with cells: list of int | float | None(uninit); or None for null"""
        if b == "null":
            return None
        if isinstance(b, list) and b[0] == "blk":
            cells = []
            for c in b[3]:
                if c == "u":
                    cells.append(None)
                elif isinstance(c, list) and c[0] == "f":
                    cells.append(bits_to_float(int(c[1])))
                else:
                    cells.append(int(c))
            return (b[2] == "true", cells)
        return ("weird", b)

    def output_blocks(self, name):
        levels, vals = self.tensors[name]
        out = []
        for lv in levels:
            if lv[0] == "dense":
                out.append(("d",))
            else:
                out.append(("s", self._blk(lv[1]), self._blk(lv[2])))
        return out, self._blk(vals)


def exec_request(func, tensors_sx, fuel=100000) -> str:
    return "EXEC " + str(fuel) + " " + sx(export(func)) + " " + sx(tensors_sx)


def extract_raw(mr: MachineResult, name, dims, modes, ordering):
    """Checks the C02/C05 hand-back conditions on the machine's final blocks and returns
    (Raw or None, list of problems)."""
    problems = []
    levels, vals = mr.output_blocks(name)
    ldims = [dims[i] for i in ordering]
    npos = 1
    raw_levels = []
    for l, lv in enumerate(levels):
        if lv[0] == "d":
            npos *= ldims[l]
            raw_levels.append(("d",))
            continue
        pb, cb = lv[1], lv[2]
        if pb is None or cb is None or pb[0] is not True or cb[0] is not True:
            problems.append(f"level {l}: pos/crd null or not live")
            return None, problems
        pos, crd = pb[1], cb[1]
        if len(pos) < npos + 1:
            problems.append(f"level {l}: pos block has {len(pos)} cells, needs {npos + 1}")
            return None, problems
        pos = pos[: npos + 1]
        if any(p is None for p in pos):
            problems.append(f"level {l}: uninitialised pos cell")
            return None, problems
        n = pos[-1]
        if n < 0 or len(crd) < n:
            problems.append(f"level {l}: crd block has {len(crd)} cells, needs {n}")
            return None, problems
        crd = crd[:n]
        if any(c is None for c in crd):
            problems.append(f"level {l}: uninitialised crd cell")
            return None, problems
        raw_levels.append(("s", pos, crd))
        npos = n
    if vals is None or vals[0] is not True:
        problems.append("vals null or not live")
        return None, problems
    if len(vals[1]) < npos:
        problems.append(f"vals block has {len(vals[1])} cells, needs {npos}")
        return None, problems
    v = vals[1][:npos]
    if any(x is None for x in v):
        problems.append("uninitialised vals cell among stored positions")
        return None, problems
    return Raw(dims, modes, ordering, raw_levels, v), problems


def wf_problems(raw: Raw):
    """The well-formedness predicate of C02, in Python (cross-checked against Lean wfCheck)."""
    out = []
    ldims = [raw.dims[i] for i in raw.ordering]
    npos = 1
    for l, lv in enumerate(raw.levels):
        if lv[0] == "d":
            npos *= ldims[l]
            continue
        pos, crd = lv[1], lv[2]
        if len(pos) != npos + 1:
            out.append(f"level {l}: |pos|={len(pos)} != parent positions+1={npos + 1}")
            return out
        if pos[0] != 0:
            out.append(f"level {l}: pos[0]={pos[0]}")
        if any(a > b for a, b in zip(pos, pos[1:])):
            out.append(f"level {l}: pos decreases: {pos}")
        if pos[-1] != len(crd):
            out.append(f"level {l}: pos[-1]={pos[-1]} != |crd|={len(crd)}")
            return out
        for k in range(npos):
            seg = crd[pos[k] : pos[k + 1]]
            if any(a >= b for a, b in zip(seg, seg[1:])):
                out.append(f"level {l}: segment {k} not strictly increasing: {seg}")
        if any(c < 0 or c >= ldims[l] for c in crd):
            out.append(f"level {l}: coordinate out of range: {crd} dim {ldims[l]}")
        npos = len(crd)
    if len(raw.vals) != npos:
        out.append(f"|vals|={len(raw.vals)} != positions={npos}")
    return out


# ----------------------------------------------------------------------------------------------
# Specification oracle (independent of tensora): sum of products
# ----------------------------------------------------------------------------------------------
def additive_terms(expr):
    """sugar AST -> list of (sign, [factor]) with factor = ('t', name, indexes) | ('c', number)."""
    from tensora.expression import ast as s

    if isinstance(expr, s.Integer) or isinstance(expr, s.Float):
        return [(1, [("c", expr.value)])]
    if isinstance(expr, s.Tensor):
        return [(1, [("t", expr.name, tuple(expr.indexes))])]
    if isinstance(expr, s.Add):
        return additive_terms(expr.left) + additive_terms(expr.right)
    if isinstance(expr, s.Subtract):
        return additive_terms(expr.left) + [(-sg, f) for sg, f in additive_terms(expr.right)]
    if isinstance(expr, s.Multiply):
        return [(sl * sr, fl + fr) for sl, fl in additive_terms(expr.left) for sr, fr in additive_terms(expr.right)]
    raise TypeError(type(expr))


def denote(assignment, inputs: dict, sizes: dict, exact: bool = False) -> dict:
    """inputs: name -> {coord: value}; sizes: index -> size. Returns {target coord: value} for
    every coordinate of the target box (zeros included). With `exact` the arithmetic is done in
    Fractions (every binary64 is a rational), which is what the Lean specification computes; without,
    in binary64 (exact as well whenever all values are small integers)."""
    from fractions import Fraction

    num = Fraction if exact else float
    target_idx = list(assignment.target.indexes)
    terms = additive_terms(assignment.expression)
    out = {}
    box = [range(sizes[i]) for i in target_idx]
    for coord in itertools.product(*box):
        env = dict(zip(target_idx, coord))
        total = num(0)
        for sign, factors in terms:
            own = []
            for f in factors:
                if f[0] == "t":
                    for ix in f[2]:
                        if ix not in env and ix not in own:
                            own.append(ix)
            acc = num(0)
            for vals in itertools.product(*[range(sizes[ix]) for ix in own]):
                e2 = dict(env)
                e2.update(zip(own, vals))
                prod = num(1)
                for f in factors:
                    if f[0] == "c":
                        prod *= num(f[1])
                    else:
                        prod *= num(inputs[f[1]].get(tuple(e2[ix] for ix in f[2]), 0.0))
                acc += prod
            total += sign * acc
        out[coord] = total
    return out


def support(assignment, stored: dict, sizes: dict) -> set:
    """Structural support of C03: tensors as stored coordinate sets, * -> intersection, + -> union,
    summation -> projection (per additive term, over the term's own non-target indexes), literals ->
    everywhere. `stored`: name -> collection of stored coordinates. Returns the set of target coords."""
    target_idx = list(assignment.target.indexes)
    terms = additive_terms(assignment.expression)
    out = set()
    for coord in itertools.product(*[range(sizes[i]) for i in target_idx]):
        env = dict(zip(target_idx, coord))
        for _sign, factors in terms:
            own = []
            for f in factors:
                if f[0] == "t":
                    for ix in f[2]:
                        if ix not in env and ix not in own:
                            own.append(ix)
            hit = False
            for vals in itertools.product(*[range(sizes[ix]) for ix in own]):
                e2 = dict(env)
                e2.update(zip(own, vals))
                if all(f[0] == "c" or tuple(e2[ix] for ix in f[2]) in stored[f[1]] for f in factors):
                    hit = True
                    break
            if hit:
                out.add(coord)
                break
    return out


# ----------------------------------------------------------------------------------------------
# Real back ends in a forked worker (a crash or hang must become a reported case)
# ----------------------------------------------------------------------------------------------
def in_fork(fn, timeout=20):
    """Run fn() in a forked child; returns ('ok', value) | ('exc', repr) | ('crash', signal) | ('timeout',)."""
    r, w = os.pipe()
    pid = os.fork()
    if pid == 0:
        os.close(r)
        try:
            try:
                val = ("ok", fn())
            except BaseException as e:  # noqa: BLE001
                val = ("exc", type(e).__name__, str(e)[:500], traceback.format_exc()[-1500:])
            with os.fdopen(w, "wb") as f:
                pickle.dump(val, f)
        finally:
            os._exit(0)
    os.close(w)
    import select

    data = b""
    deadline = timeout
    import time

    t0 = time.time()
    with os.fdopen(r, "rb") as f:
        while True:
            remaining = deadline - (time.time() - t0)
            if remaining <= 0:
                os.kill(pid, signal.SIGKILL)
                os.waitpid(pid, 0)
                return ("timeout",)
            rl, _, _ = select.select([f], [], [], remaining)
            if rl:
                chunk = f.read()
                data += chunk
                break
    _, status = os.waitpid(pid, 0)
    if os.WIFSIGNALED(status):
        return ("crash", os.WTERMSIG(status))
    if not data:
        return ("crash", -1)
    return pickle.loads(data)


def run_real(assignment_text: str, fmts: dict[str, str], inputs_list, backend="llvm", feedback=False):
    """Compile with tensor_method and run on each inputs dict (name -> (coords dict, dims)).
    Returns list of Raw (pickled fields) per input set. To be called inside in_fork."""
    from tensora import tensor_method
    from tensora.compile import BackendCompiler

    from .gen import parse_fmt

    tm = tensor_method(assignment_text, fmts, BackendCompiler[backend])
    outs = []
    for inputs in inputs_list:
        args = {}
        for name, (cv, dims) in inputs.items():
            modes, ordering = parse_fmt(fmts[name])
            args[name] = make_tensor(cv, dims, modes, ordering)
        try:
            res = tm(**args)
            raw = Raw.of_tensor(res)
            fb = feedback_ops(res) if feedback else []
            outs.append(("ok", raw.dims, raw.modes, raw.ordering, raw.levels, raw.vals, fb))
        except Exception as e:  # noqa: BLE001
            outs.append(("exc", type(e).__name__, str(e)[:300]))
    return outs


def feedback_ops(res):
    """C02's consequence clause on a real result: usable as input, convertible, comparable, picklable.
    Returns a list of failure descriptions."""
    import pickle
    import random

    from tensora import evaluate
    from tensora.format import Format, Mode

    bad = []
    ref = Raw.of_tensor(res).decode(explicit_zeros=False)
    order = res.order
    try:
        r2 = pickle.loads(pickle.dumps(res))
        if Raw.of_tensor(r2).decode(explicit_zeros=False) != ref or r2.format != res.format:
            bad.append("pickle round trip changed the tensor")
    except Exception as e:  # noqa: BLE001
        bad.append(f"pickle raised {type(e).__name__}: {e}")
    try:
        if not (res == res):
            bad.append("result does not compare equal to itself")
    except Exception as e:  # noqa: BLE001
        bad.append(f"== raised {type(e).__name__}: {e}")
    rng = random.Random(len(ref) * 7 + order)
    modes = tuple(rng.choice([Mode.dense, Mode.compressed]) for _ in range(order))
    ordering = list(range(order))
    rng.shuffle(ordering)
    try:
        r3 = res.to_format(Format(modes, tuple(ordering)))
        if Raw.of_tensor(r3).decode(explicit_zeros=False) != ref:
            bad.append("to_format changed the content")
    except Exception as e:  # noqa: BLE001
        bad.append(f"to_format raised {type(e).__name__}: {e}")
    try:
        idx = ",".join(f"i{k}" for k in range(order))
        r4 = evaluate(f"copy({idx}) = src({idx})", "d" * order, src=res)
        if Raw.of_tensor(r4).decode(explicit_zeros=False) != ref:
            bad.append("copy kernel reading the result as input produced different content")
    except Exception as e:  # noqa: BLE001
        bad.append(f"using the result as kernel input raised {type(e).__name__}: {e}")
    return bad


class RealWorker:
    """Persistent subprocess running the real back ends; a crash or hang becomes a reported case and
    the worker is restarted (forking the large parent process per problem was the bottleneck)."""

    def __init__(self):
        self.p = None

    def _start(self):
        import subprocess
        import sys
        from pathlib import Path

        self.p = subprocess.Popen([sys.executable, str(Path(__file__).resolve().parent / "real_worker.py")],
                                  stdin=subprocess.PIPE, stdout=subprocess.PIPE, text=True, bufsize=1)

    def run(self, text, fs, inputs_list, backend="llvm", feedback=False, capacity=None, timeout=120, stack=None):
        import json
        import select

        if self.p is None or self.p.poll() is not None:
            self._start()
        req = {"text": text, "fs": fs, "backend": backend, "feedback": feedback, "capacity": capacity, "stack": stack,
               "inputs_list": [{n: ([[list(c), v] for c, v in cv.items()], list(dims)) for n, (cv, dims) in ins.items()} for ins in inputs_list]}
        try:
            self.p.stdin.write(json.dumps(req) + "\n")
            self.p.stdin.flush()
        except BrokenPipeError:
            rc = self.p.wait()
            self.p = None
            return ("crash", -rc)
        rl, _, _ = select.select([self.p.stdout], [], [], timeout)
        if not rl:
            self.p.kill()
            self.p.wait()
            self.p = None
            return ("timeout",)
        line = self.p.stdout.readline()
        if not line:
            rc = self.p.wait()
            self.p = None
            return ("crash", -rc if rc < 0 else rc)
        res = json.loads(line)
        if res[0] == "ok":
            outs = []
            for o in res[1]:
                if o[0] == "ok":
                    levels = [tuple(lv) if lv[0] == "d" else ("s", lv[1], lv[2]) for lv in o[4]]
                    outs.append(("ok", tuple(o[1]), tuple(o[2]), tuple(o[3]), levels, o[5], o[6] if len(o) > 6 else []))
                else:
                    outs.append(tuple(o))
            return ("ok", outs)
        return tuple(res)

    def close(self):
        if self.p is not None:
            try:
                self.p.stdin.close()
                self.p.wait(timeout=5)
            except Exception:  # noqa: BLE001
                self.p.kill()
            self.p = None
