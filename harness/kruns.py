"""Shared pipeline for the kernel-level properties C01–C06, C16: enumerate problems, generate the
three kernels in one call (as the CLI does), execute them on the Lean IR machine under monitors,
compare with the specification oracle and with the real back ends."""
from __future__ import annotations

import contextlib
import json

from . import kernels, problems
from .core import Atom, Check, Driver, sx
from .export import fbits
from .gen import fmt_str


@contextlib.contextmanager
def initial_capacity(n: int | None):
    """Override default_array_size (a module global looked up at generation time)."""
    from tensora.ir.ast import IntegerLiteral
    import tensora.iteration_graph.outputs._append as ap
    from tensora.compile._porcelain import cachable_tensor_method

    old = ap.default_array_size
    if n is not None:
        ap.default_array_size = IntegerLiteral(n)
    cachable_tensor_method.cache_clear()
    try:
        yield
    finally:
        ap.default_array_size = old
        cachable_tensor_method.cache_clear()


class Prepared:
    def __init__(self, text, fmts):
        self.text, self.fmts = text, fmts
        self.fs = problems.fmt_dict_str(fmts)
        self.assignment = problems.parse(text)
        self.problem = None
        self.module = None
        self.status = "ok"
        self.detail = None
        if self.assignment is None:
            self.status = "parse-failure"
            return
        p = problems.make_problem(self.assignment, fmts)
        if isinstance(p, Exception):
            self.status = "problem-" + type(p).__name__
            return
        self.problem = p
        self.target = self.assignment.target.name
        self.broadcast = any(i not in self.assignment.expression.index_participants() for i in self.assignment.target.indexes)

    def generate(self, optimise=True):
        try:
            self.module = kernels.generate_ir_module(self.problem, ["evaluate", "assemble", "compute"], optimise=optimise)
        except kernels.Refusal as r:
            self.status = "refusal-" + r.kind
        except NotImplementedError as e:
            self.status = "internal-NotImplementedError"
            self.detail = str(e)[:200]
        except Exception as e:  # noqa: BLE001
            self.status = "internal-" + type(e).__name__
            self.detail = str(e)[:200]
        return self.status == "ok"

    def func(self, kind):
        for f in self.module.definitions:
            if f.name.name == kind:
                return f
        raise KeyError(kind)

    def key(self):
        return (self.text, json.dumps(self.fs, sort_keys=True))

    def tensors_of(self):
        out = {}
        for ts in self.assignment.expression.variables().values():
            for t in ts:
                out.setdefault(t.name, t)
        return out

    def gen_inputs(self, rng, sizes=None, choices=(0, 1, 2, 3)):
        """-> (sizes, {name: (coords->value, dims)})"""
        if sizes is None:
            if len(self.assignment.index_participants()) == 1 and rng.random() < 0.7:
                choices = (4, 6, 8)
            sizes = problems.index_sizes(self.assignment, rng, choices)
        ins = {}
        for name, t in self.tensors_of().items():
            dims = tuple(sizes[i] for i in t.indexes)
            ins[name] = (problems.random_input(rng, dims), dims)
        return sizes, ins

    def out_dims(self, sizes):
        return tuple(sizes[i] for i in self.assignment.target.indexes)

    def heap(self, sizes, ins, output_sx=None):
        ts = []
        for name in self.problem.formats.keys():
            modes, ordering = self.fmts[name]
            if name == self.target:
                ts.append(output_sx if output_sx is not None else kernels.empty_output_sx(name, self.out_dims(sizes), modes))
            else:
                cv, dims = ins[name]
                ts.append(kernels.Raw.of_tensor(kernels.make_tensor(cv, dims, modes, ordering)).heap_sx(name))
        return ts

    def expected(self, sizes, ins):
        return kernels.denote(self.assignment, {n: cv for n, (cv, _) in ins.items()}, sizes)

    def support(self, sizes, ins):
        """structural support; every tensor is read as the set of coordinates it *stores* in its
        format (a dense level stores every coordinate, explicit zeros are stored entries)"""
        stored = {}
        for n, (cv, dims) in ins.items():
            modes, ordering = self.fmts[n]
            raw = kernels.Raw.of_tensor(kernels.make_tensor(cv, dims, modes, ordering))
            stored[n] = raw.decode(explicit_zeros=True)
        return kernels.support(self.assignment, stored, sizes)

    def case(self, sizes=None, ins=None, **kw):
        c = {"assignment": self.text, "formats": self.fs}
        if sizes is not None:
            c["sizes"] = sizes
        if ins is not None:
            c["inputs"] = {n: [[list(k), v] for k, v in cv.items()] for n, (cv, _) in ins.items()}
        c.update(kw)
        return c


WITNESS_PROBLEMS = [
    # (assignment, formats) of recorded findings, replayed first on every run
    ("A(i,j,k) = B(j,i,k)", {"A": "dds", "B": "dss"}),                       # F3
    ("a(i) = (b(i) + c(i)) * d(i)", {"a": "d", "b": "d", "c": "s", "d": "s"}),  # F11 (fixed)
    ("a(i) = (b(i) + c(i)) * d(i)", {"a": "d", "b": "s", "c": "s", "d": "s"}),  # F11 (fixed)
    ("a(i) = b(i) * c(i) + d(i) + (e(i) + g(i)) * b(i)", {"a": "s", "b": "s", "c": "s", "d": "s", "e": "s", "g": "s"}),  # F11 (fixed)
    ("a() = b() + c(k) + d(k)", {"a": "", "b": "", "c": "d", "d": "s"}),      # F1 (fixed)
    ("a() = (b() + c(k)) * (d(k) + e())", {"a": "", "b": "", "c": "d", "d": "d", "e": ""}),  # F12
    ("a() = 100000 * 100000", {"a": ""}),                                     # F2 (fixed)
]


# instances of the classes for which an end-to-end theorem exists (`evaluate_correct_dense1`, …): the run shows
# that the kernels the real compiler emits for them are the ones the theorem is about (COMPILE correspondence)
# and executes them like every other problem
THEOREM_CLASS_PROBLEMS = [
    ("a(i) = b(i) * c(i) + 2 * d(i)", {"a": "d", "b": "d", "c": "d", "d": "d"}),
    ("a(i) = b(i) - 0.5 * (c(i) - 3)", {"a": "d", "b": "d", "c": "d"}),
    ("a(i) = b(i)", {"a": "d", "b": "d"}),
    ("a(i) = (b(i) + c(i)) * (b(i) - c(i))", {"a": "d", "b": "d", "c": "d"}),
    ("a(i) = 2", {"a": "d"}),
    # sparse1 (`sparse1_kernel_correct`): sparse vector copy / scale
    ("a(i) = b(i)", {"a": "s", "b": "s"}),
    ("a(i) = 2 * b(i)", {"a": "s", "b": "s"}),
    ("a(i) = b(i) * 2.5", {"a": "s", "b": "s"}),
    # dense2 (`dense2_kernel_correct`, `dense2_matvec_kernel_denote`): dense contraction over j
    ("a(i) = b(i,j) * c(j)", {"a": "d", "b": "dd", "c": "d"}),
    ("a(i) = b(i,j) * c(j) * d(i)", {"a": "d", "b": "dd", "c": "d", "d": "d"}),
    # spmv (`spmv_kernel_correct`, `spmv_kernel_denote`): CSR matrix times dense vector
    ("a(i) = b(i,j) * c(j)", {"a": "d", "b": "ds", "c": "d"}),
    # spmul (`spmul_kernel_correct`): product of two sparse vectors (intersection merge)
    ("a(i) = b(i) * c(i)", {"a": "s", "b": "s", "c": "s"}),
    # spadd (`spadd_kernel_correct`): sum of two sparse vectors (union merge: the whole lattice)
    ("a(i) = b(i) + c(i)", {"a": "s", "b": "s", "c": "s"}),
    # sparse2 (`sparse2_kernel_correct`): two-level compressed copy / scale
    ("a(i,j) = b(i,j)", {"a": "ss", "b": "ss"}),
    ("a(i,j) = 2 * b(i,j)", {"a": "ss", "b": "ss"}),
    # csr (`csr_kernel_correct`), spdot (`spdot_kernel_correct`), d2s (`d2s_kernel_correct`)
    ("a(i,j) = 2 * b(i,j)", {"a": "ds", "b": "ds"}),
    ("a() = b(i) * c(i)", {"a": "", "b": "s", "c": "s"}),
    ("a(i) = b(i)", {"a": "s", "b": "d"}),
    # denseTerm (`denseTerm_kernel_correct`): matrix product, dot product
    ("a(i,j) = b(i,k) * c(k,j)", {"a": "dd", "b": "dd", "c": "dd"}),
    ("a() = b(i) * c(i)", {"a": "", "b": "d", "c": "d"}),
    # denseN (`denseN_kernel_correct`): dense element-wise kernels of every order
    ("a(i,j) = b(i,j) + c(i,j)", {"a": "dd", "b": "dd", "c": "dd"}),
    ("a(i,j,k) = b(i,j,k) * c(i,j,k) + 1", {"a": "ddd", "b": "ddd", "c": "ddd"}),
]


def theorem_classes(chk, drv, prepared):
    """count the prepared problems that are instances of an end-to-end theorem (decided by the driver from the
    theorem's own hypotheses)"""
    from . import algebra

    reqs = []
    for pr in prepared:
        fs = [[nm, "".join(pr.fmts[nm][0]), list(pr.fmts[nm][1])] for nm in pr.problem.formats.keys()]
        reqs.append("CLASS " + sx(algebra.export_assignment(pr.assignment)) + " " + sx(fs))
    out = {}
    for pr, rep in zip(prepared, drv.batch(reqs)):
        cls = str(rep)
        chk.count("end_to_end_theorem_class_" + cls)
        out[pr.key()] = cls
    return out


def enumerate_problems(chk: Check, n_random: int, per_assignment: int, max_leaves=4, extra_texts=()):
    from .gen import parse_fmt

    for text, fs in WITNESS_PROBLEMS + THEOREM_CLASS_PROBLEMS:
        yield Prepared(text, {n: parse_fmt(f) for n, f in fs.items()})
    rng = chk.rng
    texts = list(problems.CURATED) + list(extra_texts)
    texts += [problems.random_assignment(rng, max_leaves) for _ in range(n_random)]
    seen = set()
    # co-iteration lattice stress: all-sparse vectors, sparse or dense output
    from .gen import parse_fmt as _pf

    for _ in range(max(4, n_random // 4)):
        text = problems.lattice_assignment(rng)
        a = problems.parse(text)
        if a is None:
            continue
        fm = {n: _pf(rng.choice(["s", "s", "s", "d"])) for n in a.variable_orders()}
        fm[a.target.name] = _pf(rng.choice(["s", "d"]))
        pr = Prepared(text, fm)
        if pr.key() not in seen:
            seen.add(pr.key())
            yield pr
    for text in texts:
        a = problems.parse(text)
        if a is None:
            chk.count("generated_unparseable_or_invalid")
            continue
        for fmts in problems.format_assignments(a, rng, per_assignment):
            pr = Prepared(text, fmts)
            if pr.key() in seen:
                continue
            seen.add(pr.key())
            yield pr


def output_from_blocks(name, dims, levels, vals):
    """heap description of an output tensor whose arrays are the given machine blocks
    (levels: [('d',) | ('s', (live, cells), (live, cells))], vals: (live, cells))"""

    def cells_int(b):
        return [Atom("u") if c is None else int(c) for c in b[1]]

    lv = []
    for l in levels:
        if l[0] == "d":
            lv.append([Atom("dense")])
        else:
            lv.append([Atom("compressed"), cells_int(l[1]), cells_int(l[2])])
    v = [Atom("u") if c is None else [Atom("f"), fbits(c)] for c in vals[1]]
    return [Atom("tensor"), name, list(dims), lv, v, Atom("output")]


def values_equal(got: dict, exp: dict):
    """compare a decoded stored tensor (explicit zeros allowed) with the full expected box"""
    for c, v in got.items():
        if c not in exp or exp[c] != v:
            return False
    for c, v in exp.items():
        if v != 0.0 and got.get(c, 0.0) != v:
            return False
    return True


def finding_for(chk: Check, pr: Prepared, kind: str):
    """look up a known finding whose signature matches this problem"""
    def match(f):
        sig = f.get("signature", {})
        if sig.get("kind") != "problem-predicate":
            return False
        pred = sig.get("predicate")
        if pred == "product-hoist-unsafe":
            return product_hoist_unsafe(pr.assignment)
        if pred == "integer-literal-arithmetic":
            return has_integer_literal_product(pr.assignment)
        return False

    return chk.match_known(match)


def product_hoist_unsafe(assignment) -> bool:
    """F12 signature: some Multiply node whose operands share a contraction index that neither
    operand mentions in every one of its additive terms."""
    from tensora.expression import ast as s

    target = set(assignment.target.indexes)

    def every(e):
        if isinstance(e, (s.Add, s.Subtract)):
            return every(e.left) & every(e.right)
        if isinstance(e, s.Multiply):
            return every(e.left) | every(e.right)
        if isinstance(e, s.Tensor):
            return set(e.indexes)
        return set()

    def idx(e):
        return set(e.index_participants().keys())

    def walk(e):
        if isinstance(e, s.Multiply):
            shared = (idx(e.left) & idx(e.right)) - target
            if shared - (every(e.left) | every(e.right)):
                return True
            return walk(e.left) or walk(e.right)
        if isinstance(e, (s.Add, s.Subtract)):
            return walk(e.left) or walk(e.right)
        return False

    return walk(assignment.expression)


def has_integer_literal_product(assignment) -> bool:
    from tensora.expression import ast as s

    def lits(e):
        if isinstance(e, s.Integer):
            return [e.value]
        if isinstance(e, (s.Add, s.Subtract, s.Multiply)):
            return lits(e.left) + lits(e.right)
        return []

    vs = lits(assignment.expression)
    return len(vs) >= 1 and any(abs(v) >= 2**31 for v in vs) or (len(vs) >= 2 and max(abs(v) for v in vs) ** 2 >= 2**31)


# ----------------------------------------------------------------------------------------------
# machine runs of the three kernel kinds
# ----------------------------------------------------------------------------------------------
class Run:
    """result of evaluate / assemble+compute of one (problem, inputs) on the IR machine"""

    def __init__(self):
        self.evaluate = None  # MachineResult
        self.assemble = None
        self.compute = None
        self.raw_evaluate = None
        self.raw_assemble = None
        self.raw_compute = None
        self.problems = []  # (kind, text)


def machine_runs(drv: Driver, items, kinds=("evaluate", "assemble", "compute"), fuel=100000):
    """items: list of (pr, sizes, ins). Returns list of Run (same order)."""
    runs = [Run() for _ in items]
    reqs, owner = [], []
    for k, (pr, sizes, ins) in enumerate(items):
        heap = pr.heap(sizes, ins)
        if "evaluate" in kinds:
            reqs.append(kernels.exec_request(pr.func("evaluate"), heap, fuel))
            owner.append((k, "evaluate"))
        if "assemble" in kinds:
            reqs.append(kernels.exec_request(pr.func("assemble"), heap, fuel))
            owner.append((k, "assemble"))
    replies = drv.batch(reqs)
    for (k, kind), rep in zip(owner, replies):
        setattr(runs[k], kind, kernels.MachineResult(rep))
    if "compute" in kinds:
        reqs, owner = [], []
        for k, (pr, sizes, ins) in enumerate(items):
            asm = runs[k].assemble
            if asm is None or not asm.ok:
                continue
            levels, vals = asm.output_blocks(pr.target)
            if vals is None or any(l[0] == "s" and (l[1] is None or l[2] is None) for l in levels):
                runs[k].problems.append(("assemble", "assemble left a null array in the output"))
                continue
            out_sx = output_from_blocks(pr.target, pr.out_dims(sizes), levels, vals)
            heap = pr.heap(sizes, ins, output_sx=out_sx)
            runs[k]._compute_heap_blocks = sum(_count_blocks(t) for t in heap)
            reqs.append(kernels.exec_request(pr.func("compute"), heap, fuel))
            owner.append(k)
        replies = drv.batch(reqs)
        for k, rep in zip(owner, replies):
            runs[k].compute = kernels.MachineResult(rep)
    for k, (pr, sizes, ins) in enumerate(items):
        modes, ordering = pr.fmts[pr.target]
        for kind in ("evaluate", "assemble", "compute"):
            mr = getattr(runs[k], kind)
            if mr is None:
                continue
            if not mr.ok:
                runs[k].problems.append((kind, "machine error: " + str(mr.err)))
                continue
            if mr.ret != "0":
                runs[k].problems.append((kind, f"returned {mr.ret}"))
            if kind == "assemble":
                # structure only: vals need not be initialised
                raw, probs = kernels.extract_raw(mr, pr.target, pr.out_dims(sizes), modes, ordering) if False else _extract_structure(mr, pr, sizes)
            else:
                raw, probs = kernels.extract_raw(mr, pr.target, pr.out_dims(sizes), modes, ordering)
            for p in probs:
                runs[k].problems.append((kind, p))
            setattr(runs[k], "raw_" + kind, raw)
    return runs


def _count_blocks(tsx):
    """number of machine blocks the heap description of one tensor creates (dims + arrays)"""
    n = 1
    for lv in tsx[3]:
        if lv[0] == "compressed":
            n += sum(1 for x in lv[1:3] if x != "null")
    if tsx[4] != "null":
        n += 1
    return n


def _extract_structure(mr, pr: Prepared, sizes):
    """like extract_raw but only requires the vals block to be long enough (assemble kernel)"""
    modes, ordering = pr.fmts[pr.target]
    levels, vals = mr.output_blocks(pr.target)
    if vals is None:
        return None, ["vals null after assemble"]
    fake = (vals[0], [0.0 if c is None else c for c in vals[1]])
    mr2 = mr
    # temporarily patch the vals block to be 'initialised' for the structural extraction
    saved = mr.tensors[pr.target]
    lv_sx, v_sx = saved
    patched = [Atom("blk"), v_sx[1], v_sx[2], [[Atom("f"), "0"] if c == "u" else c for c in v_sx[3]]] if isinstance(v_sx, list) else v_sx
    mr.tensors[pr.target] = (lv_sx, patched)
    try:
        return kernels.extract_raw(mr2, pr.target, pr.out_dims(sizes), modes, ordering)
    finally:
        mr.tensors[pr.target] = saved


def compile_corr(chk: Check, drv: Driver, prepared, cap=None, limit=None):
    """whole-compiler correspondence: Lean `desugar ∘ bestAlgorithm ∘ generateIr ∘ peephole` vs the module
    the Python compiler emits (generate_module_tensora), exact tree equality, for the three kinds"""
    from . import algebra
    from .export import export

    prs = [pr for pr in prepared if pr.problem is not None]
    if limit is not None:
        prs = prs[:limit]
    reqs, wants = [], []
    for pr in prs:
        fs = [[nm, "".join(pr.fmts[nm][0]), list(pr.fmts[nm][1])] for nm in pr.problem.formats.keys()]
        try:
            m = kernels.generate_ir_module(pr.problem, ["evaluate", "assemble", "compute"], optimise=True)
            want = sx([Atom("ok"), export(m)])
        except kernels.Refusal as r:
            want = "(" + r.kind + ")"
        except NotImplementedError:
            want = "(internal NotImplementedError)"
        except RuntimeError:
            want = "(internal RuntimeError)"
        except Exception as e:  # noqa: BLE001
            want = f"(python-raised {type(e).__name__})"
        reqs.append("COMPILE " + sx(algebra.export_assignment(pr.assignment)) + " " + sx(fs) + " (evaluate assemble compute) "
                    + ("default" if cap is None else str(cap)) + " true")
        wants.append(want)
    mism = 0
    for pr, want, rep in zip(prs, wants, drv.batch(reqs)):
        got = sx(rep)
        if got != want:
            mism += 1
            i = 0
            while i < min(len(got), len(want)) and got[i] == want[i]:
                i += 1
            chk.unproved_obligation("correspondence:compile(whole pipeline)", f"first difference at {i}: lean …{got[max(0, i - 80):i + 120]} vs python …{want[max(0, i - 80):i + 120]}",
                                    pr.case(capacity=cap))
    chk.corr("compile-whole-pipeline", len(prs), mism)


def store_certificates(chk, drv, prepared, kinds=("evaluate", "assemble", "compute")):
    """Store-target certificates of Props/C05Stores.lean evaluated on the IR the real compiler emitted
    (optimised module of each prepared problem): every store goes to a local variable, to an array of the
    OUTPUT tensor (`<out>_vals`, `<out>_<l>_pos/crd`, `bucket_*`) or hands an array to the output struct; a
    compute kernel stores only into locals, `<out>_vals[...]` and `bucket_*[...]`. The theorems
    `generateIr_store_targets_best` / `generateIr_compute_structure_untouched_peep` prove this for every
    kernel of the Lean port; here it is checked on what /repo produced (no trust in the port)."""
    from . import algebra
    from .export import export

    reqs, meta = [], []
    for pr in prepared:
        if pr.module is None:
            continue
        fs = [[nm, "".join(pr.fmts[nm][0]), list(pr.fmts[nm][1])] for nm in pr.problem.formats.keys()]
        reqs.append("CERT stores " + sx(algebra.export_assignment(pr.assignment)) + " " + sx(fs) + " " + sx(export(pr.module)))
        meta.append(pr)
    for pr, rep in zip(meta, drv.batch(reqs)):
        names = [f.name.name for f in pr.module.definitions]
        if not isinstance(rep, list) or len(rep) != len(names):
            chk.unproved_obligation("correspondence:ir-reader", "CERT stores failed: " + str(rep)[:200], pr.case())
            continue
        for nm, ok in zip(names, rep):
            if nm not in kinds:
                continue
            chk.count(f"store_certificate_{nm}_{ok}")
            if ok != "true":
                what = ("compute kernel stores into something other than a local, <out>_vals[...] or a bucket (structure arrays / tensor struct)"
                        if nm == "compute" else f"{nm} kernel stores into an array or struct that does not belong to the output tensor")
                chk.unproved_obligation("certificate:storeCert(" + nm + ")", what, pr.case(kernel=nm))
