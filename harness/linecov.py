"""Which lines of the anchored source files did this check actually execute?

A measured answer to "how much of the code does the correspondence / oracle run of this check
exercise": line events of CPython's `sys.monitoring` (each location reports once, then disables
itself, so the overhead is negligible) restricted to the tensora source tree. The evidence file lists,
for every file the property is anchored in (properties.jsonl `anchors.files`), the number of executable
lines inside functions, how many of them ran in the check process, and the ones that did not — those
are the places where a change cannot be seen by this check's execution-based parts.

Limits (stated in the evidence): worker subprocesses (real back-end worker, ownership-history worker,
hash-seed subprocesses) are not traced; module-level statements are ignored (they run at import).
"""
from __future__ import annotations

import json
import os
import sys
from pathlib import Path

_hits: dict[str, set[int]] = {}
_root = ""
_on = False


def start(src_root: str) -> None:
    global _root, _on
    mon = getattr(sys, "monitoring", None)
    if mon is None or _on:
        return
    _root = os.path.realpath(src_root)
    try:
        mon.use_tool_id(mon.COVERAGE_ID, "verif-linecov")
    except ValueError:
        return

    def on_line(code, line):
        fn = code.co_filename
        if fn.startswith(_root):
            _hits.setdefault(fn, set()).add(line)
        return mon.DISABLE

    mon.register_callback(mon.COVERAGE_ID, mon.events.LINE, on_line)
    mon.set_events(mon.COVERAGE_ID, mon.events.LINE)
    _on = True


def _function_lines(path: Path) -> set[int]:
    """line numbers that carry code inside a function / method / lambda / comprehension"""
    try:
        top = compile(path.read_text(), str(path), "exec")
    except (OSError, SyntaxError):
        return set()
    out: set[int] = set()

    def walk(code):
        # module and class bodies (not CO_OPTIMIZED) run at import time; everything else is a function
        if code.co_flags & 0x1:
            for _, _, ln in code.co_lines():
                if ln is not None and ln != code.co_firstlineno:
                    out.add(ln)
        for c in code.co_consts:
            if hasattr(c, "co_code"):
                walk(c)

    walk(top)
    return out


def report(prop: str, verif: Path, src_root: str) -> dict:
    """{file: {executable, executed, not_executed: [...]}} for the files the property is anchored in"""
    if not _on:
        return {}
    files: list[str] = []
    for line in (verif / "properties.jsonl").read_text().splitlines():
        d = json.loads(line)
        if d["id"] == prop:
            files = d["anchors"]["files"]
    out = {}
    tot_e = tot_x = 0
    base = Path(os.path.realpath(src_root)).parent  # .../src -> repo root
    for f in files:
        p = base / f
        ex = _function_lines(p)
        if not ex:
            continue
        hit = _hits.get(str(p), set()) & ex
        missed = sorted(ex - hit)
        out[f] = {"executable": len(ex), "executed": len(hit), "not_executed": missed[:80]}
        tot_e += len(ex)
        tot_x += len(hit)
    out["_total"] = {"executable": tot_e, "executed": tot_x, "percent": round(100.0 * tot_x / tot_e, 1) if tot_e else 0.0}
    return out
