"""./check dispatcher: build -> audit -> property run -> verdict (see DESIGN.md section 5)."""
from __future__ import annotations

import argparse
import importlib
import json
import os
import sys
import traceback

from . import core


def body(prop: str, args) -> int:
    chk = core.Check(prop, args.tier, args.seed)
    from . import linecov

    linecov.start(str(core.REPO / "src"))
    if not core.SWEEP:
        core.build_lean()
        chk.audit_info = core.audit(prop)
    mod = importlib.import_module(f"harness.props.{prop.lower()}")
    drv = core.Driver()
    try:
        if args.replay:
            mod.replay(chk, drv, args.replay)
        else:
            mod.run(chk, drv)
    except core.FirstViolation:
        pass
    finally:
        drv.close()
    return chk.finish()


def main() -> int:
    ap = argparse.ArgumentParser()
    ap.add_argument("prop")
    ap.add_argument("--tier", default=os.environ.get("VERIF_TIER", "quick"), choices=["quick", "thorough"])
    ap.add_argument("--replay", default=None)
    ap.add_argument("--seed", type=int, default=int(os.environ.get("VERIF_SEED", "0") or 0))
    args = ap.parse_args()
    prop = args.prop.upper()
    # the check body runs in a child process: real kernels are executed in-process by several checks, and
    # a crash of the interpreter (segfault in a generated kernel, double free, ...) must become a reported
    # violation, not the silent death of the check
    mark = core.OUT / "replays" / f".mark_{prop}_{os.getpid()}.json"
    mark.parent.mkdir(parents=True, exist_ok=True)
    os.environ["VERIF_MARK_FILE"] = str(mark)
    sys.stdout.flush()
    pid = os.fork()
    if pid == 0:
        rc = 2
        try:
            rc = body(prop, args)
        except core.MachineryError as e:
            print(f"MACHINERY-ERROR {prop}: {e}", file=sys.stderr)
        except Exception:
            traceback.print_exc()
            print(f"MACHINERY-ERROR {prop}: unexpected exception", file=sys.stderr)
        finally:
            sys.stdout.flush()
            sys.stderr.flush()
            os._exit(rc)
    _, status = os.waitpid(pid, 0)
    try:
        if os.WIFSIGNALED(status):
            sig = os.WTERMSIG(status)
            last = None
            if mark.exists():
                try:
                    last = json.loads(mark.read_text())
                except Exception:
                    last = None
            chk = core.Check(prop, args.tier, args.seed)
            chk.audit_info = {}
            chk.cov["rule"] = "the check process was killed by a signal while exercising the real code"
            chk.case(("crash",), sample=last)
            chk.violation(f"the process running the real code died with signal {sig} (crash in compiled code or in the runtime)",
                          last or {"note": "no case had been marked"})
            return chk.finish()
        return os.WEXITSTATUS(status)
    finally:
        mark.unlink(missing_ok=True)


if __name__ == "__main__":
    sys.exit(main())
