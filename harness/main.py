"""./check dispatcher: build -> audit -> property run -> verdict (see DESIGN.md section 5)."""
from __future__ import annotations

import argparse
import importlib
import os
import sys
import traceback

from . import core


def main() -> int:
    ap = argparse.ArgumentParser()
    ap.add_argument("prop")
    ap.add_argument("--tier", default=os.environ.get("VERIF_TIER", "quick"), choices=["quick", "thorough"])
    ap.add_argument("--replay", default=None)
    ap.add_argument("--seed", type=int, default=int(os.environ.get("VERIF_SEED", "0") or 0))
    args = ap.parse_args()
    prop = args.prop.upper()
    try:
        core.build_lean()
        chk = core.Check(prop, args.tier, args.seed)
        chk.audit_info = core.audit(prop)
        mod = importlib.import_module(f"harness.props.{prop.lower()}")
        drv = core.Driver()
        try:
            if args.replay:
                mod.replay(chk, drv, args.replay)
            else:
                mod.run(chk, drv)
        finally:
            drv.close()
        return chk.finish()
    except core.MachineryError as e:
        print(f"MACHINERY-ERROR {prop}: {e}", file=sys.stderr)
        return 2
    except Exception:
        traceback.print_exc()
        print(f"MACHINERY-ERROR {prop}: unexpected exception", file=sys.stderr)
        return 2


if __name__ == "__main__":
    sys.exit(main())
