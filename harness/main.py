"""./check dispatcher: build -> audit -> property run -> verdict (see DESIGN.md section 5)."""
from __future__ import annotations

import argparse
import importlib
import json
import os
import sys
import traceback

from . import core


def body(prop: str, args) -> int:
    chk = core.Check(prop, args.tier, args.seed)
    from . import linecov

    linecov.start(str(core.REPO / "src"))
    if not core.SWEEP:
        core.build_lean()
        chk.audit_info = core.audit(prop)
    mod = importlib.import_module(f"harness.props.{prop.lower()}")
    drv = core.Driver()
    try:
        if args.replay:
            mod.replay(chk, drv, args.replay)
        else:
            mod.run(chk, drv)
    except core.FirstViolation:
        pass
    finally:
        drv.close()
    return chk.finish()


def main() -> int:
    ap = argparse.ArgumentParser()
    ap.add_argument("prop")
    ap.add_argument("--tier", default=os.environ.get("VERIF_TIER", "quick"), choices=["quick", "thorough"])
    ap.add_argument("--replay", default=None)
    ap.add_argument("--seed", type=int, default=int(os.environ.get("VERIF_SEED", "0") or 0))
    args = ap.parse_args()
    prop = args.prop.upper()
    # the check body runs in a child process: real kernels are executed in-process by several checks, and
    # a crash of the interpreter (segfault in a generated kernel, double free, ...) must become a reported
    # violation, not the silent death of the check
    mark = core.OUT / "replays" / f".mark_{prop}_{os.getpid()}.json"
    mark.parent.mkdir(parents=True, exist_ok=True)
    os.environ["VERIF_MARK_FILE"] = str(mark)
    sys.stdout.flush()
    pid = os.fork()
    if pid == 0:
        os.setsid()  # own process group: the parent can take the whole body (workers, compilers) down with it
        rc = 2
        try:
            rc = body(prop, args)
        except core.MachineryError as e:
            print(f"MACHINERY-ERROR {prop}: {e}", file=sys.stderr)
        except Exception:
            traceback.print_exc()
            print(f"MACHINERY-ERROR {prop}: unexpected exception", file=sys.stderr)
        finally:
            sys.stdout.flush()
            sys.stderr.flush()
            os._exit(rc)
    # the body runs the real code in-process; if that hangs (an endless loop in the compiler, a dead lock) the check must
    # end with a tool failure (exit 2) and leave no process behind. Limits: 1 h (quick), 8 h (thorough); also when this
    # process itself is told to stop.
    import signal
    import time

    def _kill_body(*_a):
        try:
            os.killpg(pid, signal.SIGKILL)
        except OSError:
            pass

    def _on_term(signum, _frame):
        _kill_body()
        os._exit(2)

    signal.signal(signal.SIGTERM, _on_term)
    signal.signal(signal.SIGINT, _on_term)
    deadline = time.time() + float(os.environ.get("VERIF_CHECK_TIMEOUT", "3600" if args.tier == "quick" else "28800"))
    status = None
    while status is None:
        w, st = os.waitpid(pid, os.WNOHANG)
        if w == pid:
            status = st
            break
        if time.time() > deadline:
            _kill_body()
            os.waitpid(pid, 0)
            print(f"MACHINERY-ERROR {prop}: the check did not finish within its time limit (the code under test hangs, or the machine is overloaded)", file=sys.stderr)
            mark.unlink(missing_ok=True)
            return 2
        time.sleep(0.2)
    _kill_body()  # stragglers of a finished body (worker subprocesses)
    try:
        if os.WIFSIGNALED(status):
            sig = os.WTERMSIG(status)
            last = None
            if mark.exists():
                try:
                    last = json.loads(mark.read_text())
                except Exception:
                    last = None
            chk = core.Check(prop, args.tier, args.seed)
            chk.audit_info = {}
            chk.cov["rule"] = "the check process was killed by a signal while exercising the real code"
            chk.case(("crash",), sample=last)
            chk.violation(f"the process running the real code died with signal {sig} (crash in compiled code or in the runtime)",
                          last or {"note": "no case had been marked"})
            return chk.finish()
        return os.WEXITSTATUS(status)
    finally:
        mark.unlink(missing_ok=True)


if __name__ == "__main__":
    sys.exit(main())
