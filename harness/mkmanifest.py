"""Regenerates /verif/MANIFEST.json from the table below (run: /venv/bin/python -m harness.mkmanifest)."""
from __future__ import annotations

import json
from pathlib import Path

VERIF = Path(__file__).resolve().parent.parent

NOTE_COMMON = (
    "Trusted: Lean 4.33 kernel (axioms propext/Classical.choice/Quot.sound only, audited by #print axioms on every run; "
    "no sorry/native_decide/bv_decide/own axioms), the Lean compiler for the native model driver, the Python harness. "
    "The Lean model is hand-written and tied to /repo's working tree by the correspondence run of this check on every run; "
    "CPython, cffi, llvmlite/LLVM, gcc and glibc are modelled/used, not verified."
)

CHECKS: dict[str, dict] = {}
PENDING: dict[str, str] = {}


def claim(pid, text, technique, design_ref, note_extra="", engine="lean-model"):
    CHECKS[pid] = {
        "property_id": pid,
        "quick_cmd": f"./check {pid} --tier quick",
        "thorough_cmd": f"./check {pid} --tier thorough",
        "evidence_file": f"evidence/{pid}.json",
        "replay_cmd_template": f"./check {pid} --replay {{path}}",
        "engine": engine,
        "level_claimed": {"category": "proof", "text": text, "design_ref": design_ref},
        "level_note": NOTE_COMMON + (" " + note_extra if note_extra else ""),
        "technique": technique,
    }


claim(
    "C09",
    "Lean model of from_aos (encode) and items/to_dok (decode) for every format; theorems about the model "
    "(see lean/theorems.json) are kernel-checked; the model is tied to the code by an exhaustive small-scope "
    "correspondence on raw pos/crd/vals arrays plus an independent lossless oracle on the real code.",
    "Lean 4 theorems on a hand-written storage model + exhaustive small-scope correspondence with Tensor.from_*/items",
    "DESIGN.md section 6 C09",
)

claim(
    "C01",
    "PARTIAL. Theorems (Lean): the specification `denote` (sum of products) is invariant under commuting / reassociating / "
    "distributing operators and `a - b = a + (-1)*b`; the desugaring pass (ported, exact tree correspondence with the code on every "
    "run) preserves the specification for every assignment outside the signature of known finding F12 (`desugar_correct`), with a "
    "closed witness that the signature is real; stored content is format independent (C09 `decode_encode`); every candidate iteration "
    "graph denotes the assignment (`toIterationGraphs_denote_source`). The lowering pass is ported (exact IR correspondence each run) "
    "and proved correct on the machine piecewise: the terminal block for both output kinds (`toIr_sound`, `terminal_append_sound`, "
    "`terminal_bucket_sound`, exact over Rat), and END TO END for thirteen problem classes (besides those named here: two-level compressed copy `sparse2_kernel_correct`, CSR copy `csr_kernel_correct`, sparse dot product `spdot_kernel_correct`, dense-to-compressed conversion `d2s_kernel_correct`): dense element-wise vector kernels "
    "(`evaluate_correct_dense1`: from the source assignment through desugar, best_algorithm and generate_ir to the final machine state, "
    "output cells = `denote a` for all sizes and inputs), dense element-wise kernels of every order (`denseN_kernel_correct`), every "
    "all-dense single-term contraction with arbitrary loop nests incl. the matrix product (`denseTerm_kernel_correct`, `matmul_kernel_denote`), "
    "dense contractions a(i) = sum_j e (`evaluate_correct_dense2`), sparse vector copy/scale (`evaluate_correct_sparse1`, any initial "
    "capacity), CSR matrix-vector product (`spmv_kernel_denote`), product and sum of two sparse vectors with the full co-iteration "
    "lattice (`spmul_kernel_correct`, `spadd_kernel_correct`); each run counts the enumerated problems that "
    "are instances of these classes. For all other problems the IR the compiler actually emits is executed on the Lean IR machine and on the real LLVM back end "
    "for enumerated problems x formats x inputs and compared with the specification, decoding raw arrays.",
    "Lean 4 theorems on hand-written models (spec, desugar, iteration graphs, lowering pass; end-to-end kernel theorems for nine problem classes) tied by exact IR correspondence; emitted kernels executed on the Lean IR machine and LLVM vs the spec",
    "DESIGN.md section 6 C01",
    "Partial: outside the nine proved classes 'for all inputs of every emitted kernel' is small-scope execution, not a theorem. Values are small integers in binary64 there.",
)
claim(
    "C07",
    "Full proof at the model level: `peephole_stmt_sound`/`peephole_expr_sound` (every IR program, state and fuel: the optimised "
    "program yields the same final state and a numerically equal return value with no more iterations/steps, or stops with an int32 "
    "overflow - finding F8), `peephole_stmt_sound_stable` (no overflow alternative on the decidable retyping-free fragment) and "
    "`peephole_func_sound_typed` (exactly the same state and return value on the TYPED stable fragment, which contains every kernel "
    "function emitted in a run - evaluated per kernel; for eleven problem classes `<class>_kernel_noRetype` proves it for arbitrary names and "
    "`<class>_kernel_correct_optimised` carries the end-to-end theorem over to the optimised function). The "
    "Lean port of the optimiser is compared tree-for-tree with tensora.ir.peephole on exhaustive depth<=1 typed trees, sampled deeper "
    "trees, statement trees and every generated kernel; the Python-optimised programs are additionally executed against the "
    "originals on the Lean machine over small environments.",
    "Lean 4 soundness proof of the ported optimiser over a big-step IR machine + exact tree correspondence with the Python optimiser",
    "DESIGN.md section 6 C07",
    "Floats: theorems assume the `FloatLaws` hypotheses (binary64 without NaN modulo sign of zero; `Int` is a lawful instance); the driver runs Lean Float.",
)

MACHINE = ("The emitted IR is executed by the Lean IR machine (`exec`), the same definition the machine theorems are about; "
           "'for all inputs of every emitted kernel' is small-scope execution over enumerated problems x formats x inputs, not a theorem.")
claim(
    "C02",
    "PARTIAL. Theorems: a well-formed stored tensor (the predicate of the statement, `wfCheck`) passes the validation that "
    "unpickling/constructors perform (`wf_validate`), is read back without any out-of-range access and with pairwise distinct "
    "coordinates (`wf_decode`), and every constructor output is well-formed (`decode_encode`). Kernel outputs: evaluate and "
    "assemble+compute outputs of enumerated problems at initial capacities 1,2,3,default are checked with `wfCheck` on the final "
    "machine blocks (Hoare theorems on the machine for the fragments behind it: `appendCleanup_exact_sizes` - the final reallocs give "
    "pos/crd/vals exactly the sizes the structure describes, every format - and `merge_loop_increasing` - coordinates appended by a "
    "merge loop are strictly increasing) and on the real LLVM result's raw arrays, which is also pickled, compared, converted and fed to another kernel.",
    "Lean 4 theorems on the storage model + wfCheck applied to machine-executed and real kernel outputs",
    "DESIGN.md section 6 C02", MACHINE,
)
claim(
    "C03",
    "PARTIAL. Theorems on the ported exhaust/context algebra (exact correspondence with the code each run): the written flag is "
    "raised only at terminals whose exhausted expression is not the literal 0, and then the expression has structural support "
    "(`exhaust_nonzero_support`), with the exact converse characterisation (`exhaustAll_eq_zero_iff`); exhausting absent tensors "
    "preserves the value; on the machine: the written-flag branch the pass emits appends a coordinate iff the inner code raised the flag "
    "(`flag_branch_sound`), for one compressed output level iff the exhausted expression has structural support (`c03_one_level`), and the whole "
    "sparse copy kernel stores exactly its input's coordinates (`sparse1_kernel_correct`). Kernel outputs (evaluate and assemble, machine and real LLVM) are checked against the structural-support "
    "oracle level prefix by level prefix.",
    "Lean 4 theorems on the ported exhaust algebra + support oracle on machine-executed and real kernel outputs",
    "DESIGN.md section 6 C03", MACHINE,
)
claim(
    "C04",
    "PARTIAL. Theorem `noAlloc_sound`: a program passing the syntactic certificate `noAlloc` cannot allocate, reallocate, free or "
    "resize any block, for all states; the certificate is checked on the compute kernel of every enumerated problem (so 'compute "
    "never reallocates' holds for all inputs of each certified kernel). assemble;compute vs evaluate, structure preservation and "
    "re-computation with re-valued inputs are executed on the Lean machine for capacities 1,2,3,default. Universal over the "
    "ported lowering pass: `generateIr_compute_noAlloc` and `generateIr_compute_structure_untouched(_peep)` - the (optimised) compute "
    "kernel of EVERY problem neither allocates nor stores into a pos/crd array or a tensor struct; the same certificates are "
    "evaluated on the IR the real compiler emitted. End to end for seven classes (sparse vector copy/scale, dense element-wise kernels of every "
    "order, all dense single-term contractions, sparse product and sum, CSR copy, two-level compressed copy): `<class>_assemble_compute_eq_evaluate`, `sparse1_compute_preserves_structure`, "
    "`*_compute_rerun`.",
    "Lean 4 frame theorem + per-kernel certificate + histories executed on the Lean IR machine",
    "DESIGN.md section 6 C04", MACHINE,
)
claim(
    "C05",
    "PARTIAL. Theorems for all programs, states and fuel: a successful run leaves every input-owned block and tensor record "
    "unchanged, the heap only grows, dead blocks stay dead, more fuel never changes a run. The machine's semantics is the monitor "
    "(initialised in-bounds loads from live blocks, stores only into non-input blocks in bounds, int32-checked arithmetic, fuel): "
    "every emitted kernel (3 kinds) of the enumeration runs on it at capacities 1,2,3,default and must return 0 with live, "
    "long-enough arrays. Universal over the ported lowering pass: store-target theorems (`generateIr_store_targets_best/_peep`: every "
    "kernel stores only into locals and arrays of the output tensor) and Hoare lemmas for the growth fragments on the machine "
    "(`writeCrdAssembly_safe`, `writePosAllocation_*_safe`, `append_from_init_safe`: growth precedes every append from any initial capacity) "
    "and for the sparse merge-loop skeleton the pass emits (`lower_emits_mergeLoop`, `merge_loop_safe`: every crd load in bounds, "
    "termination within the sum of segment lengths, `writeSparseInit_safe`).",
    "Lean 4 frame theorems + monitored execution of every emitted kernel on the Lean IR machine",
    "DESIGN.md section 6 C05", MACHINE + " Allocation-size arithmetic >= 2^29 elements (F9) is not replayed.",
)
claim(
    "C10",
    "Full at the model level: `callCheck_ok_iff` (the kernel is entered iff the arguments are Consistent: exactly the declared "
    "parameters, each a tensor of the declared order/modes/ordering, all participants of every index of equal size), "
    "`callCheck_dims`, `callCheck_err_kind`. The model is compared with TensorMethod.__call__ through a spy on the compiled kernel "
    "pointer for every single-argument inconsistency of every enumerated problem; the spec oracle is applied to the real call too.",
    "Lean 4 iff-theorem on the ported validation + exact correspondence (exception class, kernel entered?) with a spy",
    "DESIGN.md section 6 C10",
)
claim(
    "C11",
    "PARTIAL. Theorems: the assignment synthesised for + - * (tensor/tensor, tensor/number, number/tensor) denotes element-wise "
    "arithmetic and for @ the dot / matrix-vector / vector-matrix / matrix product; rejection exactly on shape mismatch; output "
    "format rule for natural orderings. The synthesised (assignment, format) pair is compared with what the operators hand to "
    "evaluate (spy); results are decoded from raw arrays and compared with direct arithmetic.",
    "Lean 4 meaning theorems for the ported operator synthesis + spy correspondence + value oracle",
    "DESIGN.md section 6 C11", "The kernel behind each operator is C01's (partial).",
)
claim(
    "C15",
    "PARTIAL. Theorems: make_problem's result is independent of the order of the format mapping and of explicit all-dense "
    "entries, and lists the tensors in order of appearance (`makeProblem_perm`, `makeProblem_dense_default`, "
    "`makeProblem_ok_shape`). Text identity across PYTHONHASHSEEDs, request orders and CLI vs library, cache sharing iff equal "
    "problems and warm vs cold results are observed on the real code.",
    "Lean 4 theorems on the ported make_problem + byte-identity runs across hash seeds / orders / entry points",
    "DESIGN.md section 6 C15", "Hash seeds and request orders are sampled.",
)
claim(
    "C16",
    "PARTIAL. Theorems: `deadVar_frame` (a dead variable cannot influence the run: same iterations and steps from states that "
    "differ only in it, for all programs/states/fuel), `context_sparse_of_condition` (the property's condition makes the compiler "
    "classify the loop as sparse) and `context_sparse_sound`; universal over the ported lowering pass: `generateIr_deadDim` / "
    "`generateIr_dim_frame` (for every graph meeting the decidable condition `dimFree i`, every kernel kind, optimised or not, never reads "
    "<i>_dim and runs identically from states differing only in it), `merge_loop_single` (a single-leaf sparse loop iterates exactly once "
    "per stored entry). The certificate 'dimension variable <i>_dim is dead' is checked on the emitted evaluate kernel of every "
    "qualifying problem together with the theorem's hypotheses, and iterations/steps are measured under scalings x1, x10, x10^4.",
    "Lean 4 non-interference theorem + per-kernel dead-variable certificate + counter measurements on the Lean IR machine",
    "DESIGN.md section 6 C16", MACHINE,
)

claim(
    "C13",
    "PARTIAL. Theorems over the ownership state machine (names -> objects -> kernel-allocated arrays, reference counting), for "
    "every history: the invariant (no array freed twice, none freed while a name reaches its object, no unnamed live object) is "
    "preserved (`inv_run`), every array ever allocated is either owned by a named object or has been freed exactly once "
    "(`freed_exactly_once`), a call never frees arrays of a tensor that is still named (`step_keeps_named`). Correspondence: the same "
    "histories (all up to length 3/4 + random long ones) run under an LD_PRELOAD malloc/free interposer; the set of kernel arrays "
    "freed at each step, double frees and leaks are compared with the model.",
    "Lean 4 invariant proof over all histories of the ownership model + interposer-observed frees per step on the real runtime",
    "DESIGN.md section 6 C13",
    "CPython reference counting, WeakKeyDictionary, cffi ffi.gc and glibc are modelled, not verified; the property is decided for the model and observed for the runtime.",
)
claim(
    "C14",
    "PARTIAL. Theorems over the interleaving model (atomic steps: cache lookup, compile, insert, allocate+table insert, run, own), "
    "for arbitrary compile/exec functions and every schedule: a finished call returned what it returns alone "
    "(`interleaving_refines_sequential`), the cache only maps a key to its own kernel (`cache_memo_invariant`), table slots are "
    "distinct, every fair schedule finishes. Runtime: N in {2,4,16} threads over cached/uncached problems and both back ends with "
    "cache_clear() and a 1e-6 switch interval; results equal the sequential ones; recorded event traces conform to the model's step order.",
    "Lean 4 refinement proof over all interleavings of the model + sampled real thread schedules compared with sequential results",
    "DESIGN.md section 6 C14",
    "Schedules on the real runtime are sampled, not enumerated; GIL atomicity and llvmlite/LLVM/cffi thread safety are assumptions of the model.",
)

claim(
    "C12",
    "Full at the model level. Theorems: `parse_deparse` (every valid, well-spelled assignment tree prints to text that parses back to "
    "exactly that tree), `parseExpr_sound`/`parseExpr_complete`/`derives_unique` (the parser builds exactly the trees of the textbook "
    "grammar E -> E+T | E-T | T, T -> T*F | F, F -> tensor | number | (E): * binds tighter, equal precedence associates left, "
    "parentheses override), `validate_none_iff` (rejected exactly when the target recurs, a tensor has two orders, or a name is both "
    "tensor and index), `format_roundtrip`, `parseFormat_ok_perm`; for the second printer deparse_to_taco: `tacoToks_regroup`, "
    "`parse_deparseTaco`, `denote_tacoRegroup` (its text, read with the conventional grammar, is the left-regrouped tree, which has "
    "exactly the same sum of products; finding F14 fixed); parsing is a total function by construction. The Lean lexer/parser/"
    "printers are compared with parse_assignment / deparse / deparse_to_taco / parse_format / parse_named_format on grammar sentences, "
    "mutations, raw text (tabs, newlines, non-ASCII digits), a name-collision validation stream and all short format strings.",
    "Lean 4 round-trip + grammar soundness/completeness proofs on the ported lexer/parser/printer + exact correspondence with the parsita parser",
    "DESIGN.md section 6 C12",
    "int()/float()/str() of CPython convert literal lexemes (the model keeps lexemes); parsita's PEG semantics are modelled (lexer + recursive descent), tied by the correspondence.",
)

claim(
    "C06",
    "PARTIAL. Theorems on the ported C printer (string-for-string correspondence with ir_to_c_expression / ir_to_c_statement on every "
    "run): `cprint_tokens` (the printed string is the rendering of a token list), `cprint_parse` (for every Layered expression the "
    "tokens parse, under ISO C precedence, to `leftAssoc e`), `cprint_parse_exact` (Layered and LeftNested: to exactly `e`), "
    "`cparse_sound` (w.r.t. the textbook C grammar), witnesses that right-nested chains are re-associated (finding F10) and that "
    "ill-layered trees misparse; `scoped_eq_flat` (block-scoped C declarations vs the LLVM back end's hoisted function-level slots: for "
    "every function, state and fuel the two semantics give the same outcome whenever the certificates `scopeOK` and `hoistConsistent` "
    "hold, each clause shown necessary by a closed witness). Certificates Layered/LeftNested/hoistConsistent/scopeOK are evaluated on "
    "every emitted kernel; the printer correspondence covers expressions, typed statement trees and whole modules. Three-way "
    "runs: gcc (cffi), LLVM MCJIT and the Lean IR machine (Lean Float) must give bit-identical arrays on general finite doubles.",
    "Lean 4 print/parse theorem for the ported C printer + per-kernel certificates + bit-identity runs of C, LLVM and the IR machine",
    "DESIGN.md section 6 C06",
    "gcc, LLVM and the hardware are not modelled; their agreement is sampled. The LLVM lowering (ir_to_llvm) is not ported; it is compared by execution only.",
)
claim(
    "C08",
    "PARTIAL. The whole front and middle of the compiler is ported and compared exactly with the code on every run (parse, validate, "
    "make_problem, desugar, to_iteration_graphs/best_algorithm, the abstract interpretation `lowerable` of generate_ir, and generate_ir "
    "itself: `COMPILE` reproduces the emitted IR tree). All these Lean functions are total (accepted by the termination checker): the "
    "model cannot hang. Theorems: the diagonal refusal happens only for a repeated index and never otherwise "
    "(`bestAlgorithm_diagonal_only_if`, `bestAlgorithm_no_diagonal`), every candidate graph is well scoped and shadow-free, and denotes "
    "the assignment (`toIterationGraphs_denote_source`), `lowerable` is sound for the ported lowering pass and exact under two "
    "graph conditions evaluated each run (`generateIr_ok_of_lowerable`, `lowerable_iff_generateIr_ok`). On the real code every request must return code or a documented typed error "
    "within a wall limit; emitted C is compiled with gcc -fsyntax-only, emitted LLVM is verified; the CLI must exit 0/1 without traceback.",
    "Total Lean ports of the compiler stages with exact correspondence + refusal-classification theorems + toolchain acceptance runs",
    "DESIGN.md section 6 C08",
    "Toolchain acceptance (gcc, llvmlite verify) is an external oracle. Findings F3 (internal NotImplementedError) and F13 (reserved identifiers) are known.",
)

ALL = [f"C{n:02d}" for n in range(1, 17)]
for p in ALL:
    if p not in CHECKS:
        PENDING[p] = "check not yet built in this round (planned: see DESIGN.md section 6); not claimed until its check runs clean on the unchanged tree"


def main():
    hooks_commits = []
    hc = VERIF / "hooks_commits.txt"
    if hc.exists():
        hooks_commits = [x.strip() for x in hc.read_text().split() if x.strip()]
    manifest = {
        "version": 1,
        "setup_cmd": "cd lean && lake build 2>&1 | tail -3 && cd .. && make -s -C native 2>/dev/null || true",
        "hooks": {
            "guard": "TENSORA_VERIF",
            "enable": "export TENSORA_VERIF=1 (set by ./check); tensora is imported in-process from /repo/src, nothing to rebuild",
            "baseline_off_cmd": "cd /repo && env -u TENSORA_VERIF /venv/bin/python -m pytest -q -p no:cacheprovider --timeout=900 tests tests_cffi fuzz_tests/test_parsing.py",
            "source_commits": hooks_commits,
            "add_only": True,
        },
        "engines": [
            {"name": "lean-model", "path": "lean/", "serves_properties": sorted(CHECKS), "kind_free_text": "Lean 4 models + theorems (lake project, native line-protocol driver tvdriver)"},
            {"name": "harness", "path": "harness/", "serves_properties": sorted(CHECKS), "kind_free_text": "Python correspondence / oracle / failing-input search, runs the real tensora in-process"},
        ],
        "checks": [CHECKS[p] for p in sorted(CHECKS)],
        "not_applicable": [{"property_id": p, "reason": PENDING[p]} for p in sorted(PENDING)],
        "notes": "Technique family: machine-checked proof in Lean 4 with a checked model-code correspondence. See DESIGN.md.",
    }
    (VERIF / "MANIFEST.json").write_text(json.dumps(manifest, indent=1) + "\n")
    print("claimed:", sorted(CHECKS), "pending:", sorted(PENDING))


if __name__ == "__main__":
    main()
