"""Regenerates /verif/MANIFEST.json from the table below (run: /venv/bin/python -m harness.mkmanifest)."""
from __future__ import annotations

import json
from pathlib import Path

VERIF = Path(__file__).resolve().parent.parent

NOTE_COMMON = (
    "Trusted: Lean 4.33 kernel (axioms propext/Classical.choice/Quot.sound only, audited by #print axioms on every run; "
    "no sorry/native_decide/bv_decide/own axioms), the Lean compiler for the native model driver, the Python harness. "
    "The Lean model is hand-written and tied to /repo's working tree by the correspondence run of this check on every run; "
    "CPython, cffi, llvmlite/LLVM, gcc and glibc are modelled/used, not verified."
)

CHECKS: dict[str, dict] = {}
PENDING: dict[str, str] = {}


def claim(pid, text, technique, design_ref, note_extra="", engine="lean-model"):
    CHECKS[pid] = {
        "property_id": pid,
        "quick_cmd": f"./check {pid} --tier quick",
        "thorough_cmd": f"./check {pid} --tier thorough",
        "evidence_file": f"evidence/{pid}.json",
        "replay_cmd_template": f"./check {pid} --replay {{path}}",
        "engine": engine,
        "level_claimed": {"category": "proof", "text": text, "design_ref": design_ref},
        "level_note": NOTE_COMMON + (" " + note_extra if note_extra else ""),
        "technique": technique,
    }


claim(
    "C09",
    "Lean model of from_aos (encode) and items/to_dok (decode) for every format; theorems about the model "
    "(see lean/theorems.json) are kernel-checked; the model is tied to the code by an exhaustive small-scope "
    "correspondence on raw pos/crd/vals arrays plus an independent lossless oracle on the real code.",
    "Lean 4 theorems on a hand-written storage model + exhaustive small-scope correspondence with Tensor.from_*/items",
    "DESIGN.md section 6 C09",
)

claim(
    "C01",
    "PARTIAL. Theorems (Lean): the specification `denote` (sum of products) is invariant under commuting / reassociating / "
    "distributing operators and `a - b = a + (-1)*b`; the desugaring pass (ported, exact tree correspondence with the code on every "
    "run) preserves the specification for every assignment outside the signature of known finding F12 (`desugar_correct`), with a "
    "closed witness that the signature is real; stored content is format independent (C09 `decode_encode`). The back half "
    "(iteration graph -> IR) is not yet a Lean function: the IR the compiler actually emits is executed on the Lean IR machine and on "
    "the real LLVM back end for enumerated problems x formats x inputs and compared with the specification, decoding raw arrays.",
    "Lean 4 theorems on hand-written models of spec+desugar; emitted kernels executed on the Lean IR machine and LLVM vs the spec",
    "DESIGN.md section 6 C01",
    "Partial: 'for all inputs of every emitted kernel' is small-scope execution, not a theorem. Values are small integers in binary64.",
)
claim(
    "C07",
    "Full proof at the model level: `peephole_stmt_sound`/`peephole_expr_sound` (every IR program, state and fuel: the optimised "
    "program yields the same final state and a numerically equal return value with no more iterations/steps, or stops with an int32 "
    "overflow - finding F8) and `peephole_stmt_sound_stable` (no overflow alternative on the decidable retyping-free fragment). The "
    "Lean port of the optimiser is compared tree-for-tree with tensora.ir.peephole on exhaustive depth<=1 typed trees, sampled deeper "
    "trees, statement trees and every generated kernel; the Python-optimised programs are additionally executed against the "
    "originals on the Lean machine over small environments.",
    "Lean 4 soundness proof of the ported optimiser over a big-step IR machine + exact tree correspondence with the Python optimiser",
    "DESIGN.md section 6 C07",
    "Floats: theorems assume the `FloatLaws` hypotheses (binary64 without NaN modulo sign of zero; `Int` is a lawful instance); the driver runs Lean Float.",
)

ALL = [f"C{n:02d}" for n in range(1, 17)]
for p in ALL:
    if p not in CHECKS:
        PENDING[p] = "check not yet built in this round (planned: see DESIGN.md section 6); not claimed until its check runs clean on the unchanged tree"


def main():
    hooks_commits = []
    hc = VERIF / "hooks_commits.txt"
    if hc.exists():
        hooks_commits = [x.strip() for x in hc.read_text().split() if x.strip()]
    manifest = {
        "version": 1,
        "setup_cmd": "cd lean && lake build 2>&1 | tail -3 && cd .. && make -s -C native 2>/dev/null || true",
        "hooks": {
            "guard": "TENSORA_VERIF",
            "enable": "export TENSORA_VERIF=1 (set by ./check); tensora is imported in-process from /repo/src, nothing to rebuild",
            "baseline_off_cmd": "cd /repo && env -u TENSORA_VERIF /venv/bin/python -m pytest -q -p no:cacheprovider --timeout=900 tests tests_cffi fuzz_tests/test_parsing.py",
            "source_commits": hooks_commits,
            "add_only": True,
        },
        "engines": [
            {"name": "lean-model", "path": "lean/", "serves_properties": sorted(CHECKS), "kind_free_text": "Lean 4 models + theorems (lake project, native line-protocol driver tvdriver)"},
            {"name": "harness", "path": "harness/", "serves_properties": sorted(CHECKS), "kind_free_text": "Python correspondence / oracle / failing-input search, runs the real tensora in-process"},
        ],
        "checks": [CHECKS[p] for p in sorted(CHECKS)],
        "not_applicable": [{"property_id": p, "reason": PENDING[p]} for p in sorted(PENDING)],
        "notes": "Technique family: machine-checked proof in Lean 4 with a checked model-code correspondence. See DESIGN.md.",
    }
    (VERIF / "MANIFEST.json").write_text(json.dumps(manifest, indent=1) + "\n")
    print("claimed:", sorted(CHECKS), "pending:", sorted(PENDING))


if __name__ == "__main__":
    main()
