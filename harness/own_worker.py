"""Runs ownership histories under the LD_PRELOAD interposer (C13). Reads JSON histories from
argv[1], writes per history: per-step lists of array ids whose memory was freed, double-free flags,
and arrays never freed at the end. Array ids are assigned in allocation order: for a sparse output
pos, crd, vals; for dense/scalar outputs vals."""
import ctypes
import gc
import json
import pickle
import sys

lib = ctypes.CDLL(None)
lib.verif_watch.argtypes = [ctypes.c_void_p]
lib.verif_watch.restype = ctypes.c_int
lib.verif_state_idx.argtypes = [ctypes.c_int]
lib.verif_state_idx.restype = ctypes.c_int

from tensora import Tensor, evaluate  # noqa: E402
from tensora.compile import tensor_cdefs  # noqa: E402

SRC = Tensor.from_dok({(0,): 1.0, (2,): 3.0}, dimensions=(4,), format="s")
KIND = {"sparse": ("o(i) = b(i)", "s"), "dense": ("o(i) = b(i)", "d"), "scalar": ("o() = b(i)", "")}


def addresses(t, kind):
    ct = t.cffi_tensor
    out = []
    if kind == "sparse":
        lv = tensor_cdefs.cast("int32_t***", ct.indices)
        out.append(int(tensor_cdefs.cast("uintptr_t", lv[0][0])))
        out.append(int(tensor_cdefs.cast("uintptr_t", lv[0][1])))
    out.append(int(tensor_cdefs.cast("uintptr_t", ct.vals)))
    return out


def run_history(ops):
    names = {}
    watch = []  # model array id -> interposer index
    freed_seen = set()
    per_step = []
    double = []

    def new_tensor(kind, src):
        text, fmt = KIND[kind]
        t = evaluate(text, fmt, b=src)
        for a in addresses(t, kind):
            watch.append(lib.verif_watch(ctypes.c_void_p(a)))
        return t

    for op in ops:
        k = op[0]
        if k == "eval":
            t = new_tensor(op[2], SRC)
            names[op[1]] = t
            del t
        elif k == "alias":
            if op[2] in names:
                names[op[1]] = names[op[2]]
        elif k == "read":
            if op[1] in names:
                names[op[1]].to_dok()
        elif k == "pickle":
            if op[2] in names:
                t = pickle.loads(pickle.dumps(names[op[2]]))
                names[op[1]] = t
                del t
        elif k == "feed":
            if op[2] in names:
                src = names[op[2]]
                if src.order == 0:
                    src1 = Tensor.from_dok({(0,): float(src)}, dimensions=(4,), format="s")
                elif src.format.deparse() != "s":
                    src1 = src.to_format("s")
                else:
                    src1 = src
                # feed the named tensor itself when it already has the kernel's input format
                t = new_tensor(op[3], src1)
                del src, src1
                names[op[1]] = t
                del t
        elif k == "del":
            names.pop(op[1], None)
        elif k == "gc":
            gc.collect()
        now = []
        for aid, wi in enumerate(watch):
            st = lib.verif_state_idx(wi)
            if st in (2, 3, 4) and aid not in freed_seen:
                freed_seen.add(aid)
                now.append(aid)
            if st == 3 and aid not in double:
                double.append(aid)
        per_step.append(now)
    live_end = [aid for aid, wi in enumerate(watch) if lib.verif_state_idx(wi) == 1]
    names.clear()
    gc.collect()
    leaked = [aid for aid, wi in enumerate(watch) if lib.verif_state_idx(wi) == 1]
    for aid, wi in enumerate(watch):
        if lib.verif_state_idx(wi) == 3 and aid not in double:
            double.append(aid)
    return {"per_step": per_step, "double": double, "live_end": live_end, "leaked": leaked, "n_arrays": len(watch)}


def main():
    hs = json.load(open(sys.argv[1]))
    out = [run_history(h) for h in hs]
    json.dump(out, open(sys.argv[2], "w"))


main()
