"""Runs ownership histories under the LD_PRELOAD interposer (C13). Reads JSON histories from
argv[1], writes per history: per-step lists of array ids whose memory was freed, double-free flags,
and arrays never freed at the end. Array ids are assigned in allocation order: for a sparse output
pos, crd, vals; for dense/scalar outputs vals."""
import ctypes
import gc
import json
import pickle
import sys

lib = ctypes.CDLL(None)
lib.verif_watch.argtypes = [ctypes.c_void_p]
lib.verif_watch.restype = ctypes.c_int
lib.verif_state_idx.argtypes = [ctypes.c_int]
lib.verif_state_idx.restype = ctypes.c_int

from tensora import Tensor, evaluate  # noqa: E402
from tensora.compile import tensor_cdefs  # noqa: E402

SRC = Tensor.from_dok({(0,): 1.0, (2,): 3.0}, dimensions=(4,), format="s")
SRC2 = Tensor.from_dok({(0, 1): 1.0, (2, 3): 3.0}, dimensions=(4, 4), format="ss")
SRC2B = Tensor.from_dok({(1, 1): 1.0, (3, 0): 3.0}, dimensions=(4, 4), format="ss")  # disjoint from SRC2
# kind -> (assignment, output format, inputs)
KIND = {
    "sparse": ("o(i) = b(i)", "s", lambda: {"b": SRC}),
    "dense": ("o(i) = b(i)", "d", lambda: {"b": SRC}),
    "scalar": ("o() = b(i)", "", lambda: {"b": SRC}),
    "sparse2": ("o(i,j) = b(i,j)", "ss", lambda: {"b": SRC2}),
    "sparse2empty": ("o(i,j) = b(i,j) * c(i,j)", "ss", lambda: {"b": SRC2, "c": SRC2B}),
}


class Reader:
    """an open reader: the iterator returned by Tensor.items(), not yet consumed. It is a user of the tensor's
    arrays (it walks pos/crd/vals), so the model counts it as a reference to the tensor object; the worker keeps
    ONLY the iterator, never the tensor."""
    __slots__ = ("it",)

    def __init__(self, it):
        self.it = it


def python_built():
    return Tensor.from_dok({(0,): 1.0}, dimensions=(4,), format="s")


_TM = {}


def via_tensor_method(text, fmt, args):
    """the same evaluation through the lower-level public API: a hand-built Problem whose format table lists the
    inputs BEFORE the target (parameter order of the kernel), compiled once with TensorMethod"""
    from tensora.compile import TensorMethod
    from tensora.expression import parse_assignment
    from tensora.format import parse_format
    from tensora.problem import Problem

    key = (text, fmt)
    if key not in _TM:
        a = parse_assignment(text).unwrap()
        fmts = {n: t.format for n, t in args.items()}
        fmts[a.target.name] = parse_format(fmt).unwrap()
        _TM[key] = TensorMethod(Problem(a, fmts))
    return _TM[key](**args)


def addresses(t):
    """every non-NULL kernel-allocated array of the result, in level order: pos, crd per compressed level, then vals"""
    ct = t.cffi_tensor
    out = []
    lv = tensor_cdefs.cast("int32_t***", ct.indices)
    for l in range(int(ct.order)):
        if int(ct.mode_types[l]) == 1:
            for k in (0, 1):
                a = int(tensor_cdefs.cast("uintptr_t", lv[l][k]))
                if a:
                    out.append(a)
    a = int(tensor_cdefs.cast("uintptr_t", ct.vals))
    if a:
        out.append(a)
    return out


def run_history(ops):
    gc.collect()
    lib.verif_reset()
    names = {}
    n_made = [0]
    watch = []  # model array id -> interposer index
    freed_seen = set()
    per_step = []
    double = []

    def new_tensor(kind, src=None):
        text, fmt, mk = KIND[kind]
        args = mk()
        if src is not None:
            args = {"b": src}
        n_made[0] += 1
        t = evaluate(text, fmt, **args) if n_made[0] % 2 else via_tensor_method(text, fmt, args)
        for a in addresses(t):
            w = lib.verif_watch(ctypes.c_void_p(a))
            if w < 0:
                raise RuntimeError("interposer watch table full")
            watch.append(w)
        return t

    for op in ops:
        k = op[0]
        if k == "eval":
            t = new_tensor(op[2])
            names[op[1]] = t
            del t
        elif k == "alias":
            if op[2] in names:
                names[op[1]] = names[op[2]]
        elif k == "iter":
            if op[2] in names:
                src = names[op[2]]
                r = src if isinstance(src, Reader) else Reader(src.items())
                del src
                names[op[1]] = r
                del r
        elif k == "read":
            if op[1] in names and not isinstance(names[op[1]], Reader):
                names[op[1]].to_dok()
        elif k == "pickle":
            if op[2] in names:
                t = python_built() if isinstance(names[op[2]], Reader) else pickle.loads(pickle.dumps(names[op[2]]))
                names[op[1]] = t
                del t
        elif k == "feed" and op[2] in names and isinstance(names[op[2]], Reader):
            t = new_tensor(op[3])
            names[op[1]] = t
            del t
        elif k == "feed":
            if op[2] in names:
                src = names[op[2]]
                # feed the named tensor itself to a kernel (converted only when its order/format differ
                # from what the `sparse`/`dense` copy kernels take)
                if src.order == 0:
                    src1 = Tensor.from_dok({(0,): float(src)}, dimensions=(4,), format="s")
                elif src.order == 2:
                    # (an empty input would make the kernel hand back a NULL crd: keep one entry so that the
                    # result has the `sparse` kind's three arrays)
                    src1 = Tensor.from_dok({(0,): 1.0, **{(i,): v for (i, j), v in src.to_dok().items()}}, dimensions=(4,), format="s")
                elif src.format.deparse() != "s":
                    src1 = src.to_format("s")
                else:
                    src1 = src
                t = new_tensor(op[3], src1)
                del src, src1
                names[op[1]] = t
                del t
        elif k == "del":
            names.pop(op[1], None)
        elif k == "gc":
            gc.collect()
        now = []
        for aid, wi in enumerate(watch):
            st = lib.verif_state_idx(wi)
            if st in (2, 3, 4) and aid not in freed_seen:
                freed_seen.add(aid)
                now.append(aid)
            if st == 3 and aid not in double:
                double.append(aid)
        per_step.append(now)
    live_end = [aid for aid, wi in enumerate(watch) if lib.verif_state_idx(wi) == 1]
    names.clear()
    gc.collect()
    leaked = [aid for aid, wi in enumerate(watch) if lib.verif_state_idx(wi) == 1]
    for aid, wi in enumerate(watch):
        if lib.verif_state_idx(wi) == 3 and aid not in double:
            double.append(aid)
    return {"per_step": per_step, "double": double, "live_end": live_end, "leaked": leaked, "n_arrays": len(watch)}


def main():
    hs = json.load(open(sys.argv[1]))
    out = [run_history(h) for h in hs]
    json.dump(out, open(sys.argv[2], "w"))


main()
