"""Problem (assignment x formats) and input generators shared by C01–C08, C16.

Every random choice comes from the rng handed in, so a run replays from VERIF_SEED.
"""
from __future__ import annotations

import itertools
import random

from .gen import all_formats, fmt_str

# Curated assignment shapes: taken from the repository's tests, the documentation and the
# design-time experiments (they cover contraction, broadcasting of scalars, sums of products,
# repeated tensors, literals, subtraction, nested parentheses, order 0..3 targets).
CURATED = [
    "a() = b()",
    "a() = b(i)",
    "a() = b(i) * c(i)",
    "a() = b(i,j) * c(i,j)",
    "a(i) = b(i)",
    "a(i) = b(i) + c(i)",
    "a(i) = b(i) - c(i)",
    "a(i) = b(i) * c(i)",
    "a(i) = b(i) * c(i) * d(i)",
    "a(i) = b(i) + c(i) + d(i)",
    "a(i) = b(i) * c(i) + d(i)",
    "a(i) = (b(i) + c(i)) * d(i)",
    "a(i) = b(i) * (c(i) + d(i))",
    "a(i) = b(i) * (c(i) + 1)",
    "a(i) = (c(i) + 1) * (d(i) + 1)",
    "a(i) = 2 * b(i)",
    "a(i) = 2.5 * b(i)",
    "a(i) = b(i) * 2.0",
    "a(i) = b(i) + 1",
    "a(i) = b(i) * s()",
    "a(i) = b(i) + s()",
    "a(i) = b(i) - s()",
    "a(i) = b(i,j)",
    "a(i) = b(j,i)",
    "a(i) = b(i,j) * c(j)",
    "a(j) = b(i) * c(i,j)",
    "a(i) = b(i,j) * c(j) + d(i)",
    "a(i) = b(i) + c(i,j) * d(j)",
    "a(i) = b(i) + c(j,i) + d(i)",
    "a(i) = b(i,j) * c(j) * d(j)",
    "a(i) = b(i,j) * (c(j) + d(j))",
    "a(i) = 2 * b(i,j) * (c(j) + d(j))",
    "a(i) = b(i) * b(i)",
    "a(i) = b(i) + b(i)",
    "a(i) = x(j) * V(j,i) * x(i)",
    "a(i,j) = b(i,j)",
    "a(i,j) = b(j,i)",
    "a(i,j) = b(i,j) + c(i,j)",
    "a(i,j) = b(i,j) - c(i,j)",
    "a(i,j) = b(i,j) * c(i,j)",
    "a(i,j) = b(i,j) + c(j,i)",
    "a(i,j) = b(i) * c(j)",
    "a(i,j) = b(i) * c(i,j)",
    "a(i,j) = b(i,j) * c(j)",
    "a(i,j) = b(i,k) * c(k,j)",
    "a(i,j) = b(i,k) * c(k,j) + d(i,j)",
    "a(i,j) = b(i,j) * (c(i) + d(j))",
    "a(i,j) = b(i) * (c(i,j) + 1)",
    "a(i,j) = b(i,j) * s()",
    "a(i,j) = 2 * b(i,j)",
    "a(i,j) = b(i,j) + 1",
    "a(i,j,k) = b(i,j,k)",
    "a(i,j,k) = b(k,j,i)",
    "a(i,j,k) = b(i,j,k) + c(i,j,k)",
    "a(i,j,k) = b(i,j,k) * c(i,j,k)",
    "a(i,j) = b(i,j,k) * c(k)",
    "a(i) = b(i,j,k) * c(j) * d(k)",
    "a(i,j) = b(i,k,l) * d(l,j) * c(k,j)",
    "a() = 2 * 3",
    "a() = b() * c()",
    "a() = b() + 1",
    "a(i) = 0 * b(i)",
    "a(i) = b(i) * 0.0 + c(i)",
    "a(i) = b(i) - c(i) - d(i)",
    "a(i) = b(i) - (c(i) - d(i))",
    "a(i) = b(i) + (c(i) + d(i))",
    "a(i) = b(i) * (c(i) * d(i))",
    "a() = b() + c(k) + d(k)",
    "a(i) = b(i) + c(i,k) + d(k,i)",
    "a() = (b() + c(k)) * (d(k) + e())",
    "a(i) = (b(i) + c(i) + d(i)) * e(i) + g(i)",
    "a(i) = (b(i) + c(i)) * d(i) + e(i) * g(i)",
    "a(i) = b(i) * c(i) + d(i) * e(i) + g(i)",
    "a(i) = (b(i) + c(i)) * (d(i) + e(i))",
    "a(i) = b(i) * 0.30000000000000004",
    "a(i) = 0.1 * b(i) + 1234567.8901234567 * c(i)",
    "a() = 100000 * 100000",
    "a(i) = 3000000000 * b(i)",
    "a() = 1.0 * 100000 * 100000",
    "a(i) = (b(i) + c(i,k)) * (d(k) + e(i))",
    "a(i) = b(i) * c(i) + d(i) + (e(i) + g(i)) * b(i)",
]

INDEX_POOL = ["i", "j", "k", "l"]
TENSOR_NAMES = ["b", "c", "d", "e", "g"]


def random_assignment(rng: random.Random, max_leaves: int = 4) -> str:
    """A random assignment: arbitrary +,-,* tree with parentheses over tensors/scalars/literals."""
    target_order = rng.choice([0, 1, 1, 2, 2, 3])
    target_idx = rng.sample(INDEX_POOL, target_order)
    n_leaves = rng.randint(1, max_leaves)
    orders: dict[str, int] = {}
    extra = [x for x in INDEX_POOL if x not in target_idx]

    def leaf():
        r = rng.random()
        if r < 0.08:
            return rng.choice(["0", "1", "2", "2.5", "0.0", "3"])
        name = rng.choice(TENSOR_NAMES[: max(2, n_leaves)])
        if name not in orders:
            orders[name] = rng.choice([0, 1, 1, 2, 2, 3]) if rng.random() < 0.9 else 0
        o = orders[name]
        pool = target_idx + (extra[: rng.randint(0, 2)] if extra else [])
        if len(pool) < o:
            pool = INDEX_POOL
        idx = rng.sample(pool, o) if rng.random() < 0.97 else [rng.choice(pool) for _ in range(o)]
        return f"{name}({','.join(idx)})"

    def tree(n):
        if n == 1:
            return leaf(), "leaf"
        k = rng.randint(1, n - 1)
        (l, lk), (r, rk) = tree(k), tree(n - k)
        op = rng.choice(["+", "-", "*", "*"])
        if op == "*":
            if lk in "+-":
                l = f"({l})"
            if rk in "+-*":
                r = f"({r})" if (rk in "+-" or rng.random() < 0.5) else r
        else:
            if rk in "+-":
                r = f"({r})" if (op == "-" or rng.random() < 0.5) else r
        return f"{l} {op} {r}", op

    rhs, _ = tree(n_leaves)
    return f"a({','.join(target_idx)}) = {rhs}"


def lattice_assignment(rng: random.Random) -> str:
    """co-iteration stress: a random +,* tree over 3..6 distinct vectors sharing one index"""
    n = rng.randint(3, 6)
    names = TENSOR_NAMES[:n] if n <= len(TENSOR_NAMES) else TENSOR_NAMES + ["h"]
    names = (TENSOR_NAMES + ["h"])[:n]
    leaves = [f"{x}(i)" for x in names]
    rng.shuffle(leaves)

    def tree(ls):
        if len(ls) == 1:
            return ls[0], "leaf"
        k = rng.randint(1, len(ls) - 1)
        (l, lk), (r, rk) = tree(ls[:k]), tree(ls[k:])
        op = rng.choice("+*")
        if op == "*":
            if lk == "+":
                l = f"({l})"
            if rk == "+":
                r = f"({r})"
        return f"{l} {op} {r}", op

    return f"a(i) = {tree(leaves)[0]}"


def parse(assignment_text: str):
    from returns.result import Failure, Success
    from tensora.expression import parse_assignment

    r = parse_assignment(assignment_text)
    if isinstance(r, Success):
        return r.unwrap()
    return None


def format_choices(order: int, rng: random.Random, k: int | None):
    fmts = all_formats(order)
    if k is None or len(fmts) <= k:
        return fmts
    return rng.sample(fmts, k)


def format_assignments(assignment, rng: random.Random, limit: int):
    """Yield dicts name -> (modes, ordering); all combinations when few, else `limit` samples."""
    orders = assignment.variable_orders()
    names = list(orders.keys())
    spaces = [all_formats(orders[n]) for n in names]
    total = 1
    for s in spaces:
        total *= len(s)
    if total <= limit:
        for combo in itertools.product(*spaces):
            yield dict(zip(names, combo))
    else:
        seen = set()
        for _ in range(limit):
            combo = tuple(rng.choice(s) for s in spaces)
            if combo in seen:
                continue
            seen.add(combo)
            yield dict(zip(names, combo))


def fmt_dict_str(fmts) -> dict[str, str]:
    return {n: fmt_str(*f) for n, f in fmts.items()}


def make_problem(assignment, fmts):
    from returns.result import Success
    from tensora.format import Format, Mode
    from tensora.problem import make_problem as mp

    f = {
        n: Format(tuple(Mode.dense if m == "d" else Mode.compressed for m in modes), tuple(ordering))
        for n, (modes, ordering) in fmts.items()
    }
    r = mp(assignment, f)
    if isinstance(r, Success):
        return r.unwrap()
    return r.failure()


def index_sizes(assignment, rng: random.Random, choices=(0, 1, 2, 3)) -> dict[str, int]:
    """One size per index; indexes that address the same dimension of the same tensor (a tensor
    used several times with different index lists) are forced to share a size."""
    part = assignment.index_participants()
    idx = list(part.keys())
    parent = {i: i for i in idx}

    def find(x):
        while parent[x] != x:
            x = parent[x]
        return x

    owner = {}
    for i, ps in part.items():
        for p in ps:
            if p in owner:
                parent[find(i)] = find(owner[p])
            else:
                owner[p] = i
    sizes = {}
    for i in idx:
        r = find(i)
        if r not in sizes:
            sizes[r] = rng.choice(choices)
        sizes[i] = sizes[r]
    return sizes


def random_input(rng: random.Random, dims, density=None, values=(-2, -1, 1, 2, 3, 0)):
    """A random coordinate->value dict; includes explicit zeros with small probability."""
    if density is None:
        density = rng.choice([0.0, 0.3, 0.6, 1.0])
    out = {}
    for c in itertools.product(*[range(d) for d in dims]):
        if rng.random() < density:
            out[c] = float(rng.choice(values))
    return out
