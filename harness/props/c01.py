"""C01 — evaluate computes the mathematical meaning of the assignment, in every format.

Oracle: independent sum-of-products semantics (`kernels.denote`, mirrored by the Lean `denote` the
theorems are about) compared with (1) the emitted evaluate kernel executed on the Lean IR machine and
(2) the real LLVM-compiled kernel (forked worker), both decoded from raw pos/crd/vals arrays.
"""
from __future__ import annotations

import json

from .. import kernels, kruns, problems
from ..kernels import RealWorker
from ..core import Check, Driver, sx
from ..gen import fmt_str


def judge(chk: Check, pr: kruns.Prepared, sizes, ins, raw, where: str, exp=None):
    """compare one decoded result with the specification"""
    exp = exp if exp is not None else pr.expected(sizes, ins)
    try:
        got = raw.decode()
    except Exception as e:  # noqa: BLE001
        chk.violation(f"{where}: stored result cannot be decoded ({e})", pr.case(sizes, ins))
        return False
    if tuple(raw.dims) != pr.out_dims(sizes):
        chk.violation(f"{where}: wrong output dimensions", pr.case(sizes, ins), expected=pr.out_dims(sizes), got=raw.dims)
        return False
    if not kruns.values_equal(got, exp):
        f = kruns.finding_for(chk, pr, "value")
        if f:
            chk.known(f["id"], f["what"])
            return False
        chk.violation(f"{where}: value differs from the assignment's meaning", pr.case(sizes, ins, where=where),
                      expected=sorted((list(k), v) for k, v in exp.items() if v != 0.0),
                      got=sorted((list(k), v) for k, v in got.items()))
        return False
    return True


def run_batch(chk: Check, drv: Driver, prepared, n_inputs: int, real: bool, backend="llvm"):
    rng = chk.rng
    reqs, meta = [], []
    for pr in prepared:
        if pr.broadcast:
            # kernels with a broadcast target index can be generated but not called through
            # evaluate/tensor_method; the machine still runs them (output dims from the target)
            pass
        f = pr.func("evaluate")
        cases = []
        for _ in range(n_inputs):
            sizes, ins = pr.gen_inputs(rng)
            if any(i not in sizes for i in pr.assignment.target.indexes):
                continue
            cases.append((sizes, ins))
            reqs.append(kernels.exec_request(f, pr.heap(sizes, ins)))
            meta.append((pr, sizes, ins))
        pr._cases = cases
    replies = drv.batch(reqs)
    machine_raw = {}
    for (pr, sizes, ins), rep in zip(meta, replies):
        mr = kernels.MachineResult(rep)
        chk.count("machine_runs")
        nontrivial = any(len(cv) > 0 for cv, _ in ins.values())
        chk.case((pr.key(), json.dumps(sorted((n, sorted(cv.items())) for n, (cv, _) in ins.items()))) if nontrivial else None,
                 sample=pr.case(sizes, ins))
        if not mr.ok:
            chk.count("machine_err_" + str(mr.err))
            f = kruns.finding_for(chk, pr, "machine-error")
            if f:
                chk.known(f["id"], f["what"])
            else:
                # memory-safety errors are C05's business; here the kernel did not produce a value
                chk.violation(f"emitted evaluate kernel fails on the IR machine: {mr.err}", pr.case(sizes, ins))
            continue
        if mr.ret != "0":
            chk.violation("evaluate kernel returned non-zero", pr.case(sizes, ins), got=str(mr.ret))
            continue
        modes, ordering = pr.fmts[pr.target]
        raw, probs = kernels.extract_raw(mr, pr.target, pr.out_dims(sizes), modes, ordering)
        if raw is None:
            chk.violation("evaluate kernel handed back unusable arrays: " + "; ".join(probs), pr.case(sizes, ins))
            continue
        if judge(chk, pr, sizes, ins, raw, "ir-machine"):
            machine_raw[id(ins)] = raw
    if not real:
        return
    # real back end, one forked worker per problem
    for pr in prepared:
        if pr.broadcast or not getattr(pr, "_cases", None):
            continue
        inputs_list = [ins for _, ins in pr._cases]
        res = WORKER.run(pr.text, pr.fs, inputs_list, backend, timeout=240)
        chk.count("real_problems")
        if res[0] == "crash":
            f = kruns.finding_for(chk, pr, "crash")
            if f:
                chk.known(f["id"], f["what"])
            else:
                chk.violation(f"real {backend} kernel crashed the process (signal {res[1]})", pr.case(*pr._cases[0]))
            continue
        if res[0] == "timeout":
            chk.violation(f"real {backend} kernel hung", pr.case(*pr._cases[0]))
            continue
        if res[0] == "exc":
            chk.violation(f"tensor_method raised {res[1]}: {res[2]}", pr.case())
            continue
        for (sizes, ins), out in zip(pr._cases, res[1]):
            chk.count("real_runs")
            if out[0] != "ok":
                chk.violation(f"real kernel call raised {out[1]}: {out[2]}", pr.case(sizes, ins))
                continue
            raw = kernels.Raw(*out[1:6])
            ok = judge(chk, pr, sizes, ins, raw, backend)
            mraw = machine_raw.get(id(ins))
            if ok and mraw is not None and (mraw.levels != raw.levels or mraw.vals != raw.vals):
                chk.unproved_obligation("correspondence:ir-machine-vs-" + backend,
                                        "real back end and IR machine store different arrays for the same kernel",
                                        pr.case(sizes, ins, machine=[mraw.levels, mraw.vals], real=[raw.levels, raw.vals]))
            chk.corr("machine-vs-" + backend, 1, 0)


def front_half(chk: Check, drv: Driver):
    """desugar (Python) vs Lean port, spec oracle (Python) vs Lean `denote`, and the model-level
    instance of `desugar_correct`: denoteD (desugar a) = denote a unless productHoistUnsafe."""
    from fractions import Fraction

    from tensora.desugar import desugar_assignment

    from .. import algebra

    rng = chk.rng
    n = 400 if chk.tier == "quick" else 5000
    texts = list(problems.CURATED) + [problems.random_assignment(rng, rng.choice([2, 3, 4, 5, 6])) for _ in range(n)]
    reqs, meta = [], []
    for text in texts:
        a = problems.parse(text)
        if a is None:
            continue
        sizes = problems.index_sizes(a, rng, (0, 1, 2, 3))
        ins = {}
        for ts in a.expression.variables().values():
            t = ts[0]
            ins[t.name] = problems.random_input(rng, [sizes[i] for i in t.indexes])
        reqs.append("DESUGAR " + sx(algebra.export_assignment(a)))
        reqs.append("DENOTE " + " ".join(sx(x) for x in (algebra.export_assignment(a), algebra.inputs_sx(ins), algebra.sizes_sx(sizes))))
        meta.append((text, a, sizes, ins))
    replies = drv.batch(reqs)
    mism_d = mism_o = 0
    for k, (text, a, sizes, ins) in enumerate(meta):
        rd, rv = replies[2 * k], replies[2 * k + 1]
        case = {"assignment": text, "sizes": sizes, "inputs": {n_: [[list(c), v] for c, v in cv.items()] for n_, cv in ins.items()}}
        py = sx(algebra.canon_desugared(desugar_assignment(a).expression))
        ok = isinstance(rd, list) and rd[0] == "ok" and sx(rd[1]) == py
        mism_d += int(not ok)
        if not ok:
            chk.unproved_obligation("correspondence:desugar", f"python {py[:300]} vs lean {sx(rd)[:300]}", case)
            continue
        unsafe = rd[2] == "true"
        if unsafe != kruns.product_hoist_unsafe(a):
            chk.unproved_obligation("correspondence:productHoistUnsafe", "predicate differs between harness and Lean", case)
        if not (isinstance(rv, list) and rv[0] == "ok"):
            chk.unproved_obligation("correspondence:denote", f"driver: {sx(rv)[:200]}", case)
            continue
        exp = kernels.denote(a, ins, sizes, exact=True)
        for c, v, vd in rv[1]:
            c = tuple(int(x) for x in c)
            v, vd = algebra.parse_q(v), algebra.parse_q(vd)
            if Fraction(exp[c]) != v:
                mism_o += 1
                chk.unproved_obligation("correspondence:denote(oracle)", f"python oracle {exp[c]} vs lean denote {v} at {c}", case)
                break
            if v != vd:
                if unsafe:
                    f = chk.match_known(lambda f: f.get("signature", {}).get("predicate") == "product-hoist-unsafe")
                    if f:
                        chk.known(f["id"], f["what"])
                        break
                chk.violation("desugared tree does not mean what the assignment means (model of desugar, which matches the code)",
                              case, expected=str(v), got=str(vd))
                break
        chk.count("front_half_assignments")
        chk.case(("front", text), sample=None)
    chk.corr("desugar", len(meta), mism_d)
    chk.corr("denote-oracle", len(meta), mism_o)


WORKER = RealWorker()


def run(chk: Check, drv: Driver):
    from .. import graphcorr

    graphcorr.lattice_order_check(chk, 150 if chk.tier == "quick" else 2000, drv)
    front_half(chk, drv)
    chk.cov["rule"] = (
        "curated + seeded random assignments (<=4 leaves, + - *, parentheses, literals, scalars, repeated tensors) x "
        "format assignments (all when few, else sampled; every mode ordering) x index sizes in {0..3} x random sparsity "
        "patterns with explicit zeros; distinct = (assignment, formats, inputs); non-trivial = some input has a stored entry"
    )
    quick = chk.tier == "quick"
    prepared = []
    for pr in kruns.enumerate_problems(chk, n_random=60 if quick else 500, per_assignment=5 if quick else 24):
        if pr.problem is None:
            chk.count("status_" + pr.status)
            continue
        pr.generate()
        chk.count("status_" + pr.status)
        if pr.status == "ok":
            prepared.append(pr)
    chk.count("problems_with_kernel", len(prepared))
    kruns.compile_corr(chk, drv, prepared, limit=(150 if quick else None))
    kruns.theorem_classes(chk, drv, prepared)
    run_batch(chk, drv, prepared, n_inputs=3 if quick else 6, real=True)
    chk.assumptions += [
        "values are small integers stored in binary64 (exact); rounding is outside the specification",
        "the real kernels run through llvmlite MCJIT in forked workers",
    ]


def replay(chk: Check, drv: Driver, path: str):
    from ..gen import parse_fmt

    v = json.loads(open(path).read())
    c = v["case"]
    fmts = {n: parse_fmt(f) for n, f in c["formats"].items()}
    pr = kruns.Prepared(c["assignment"], fmts)
    if pr.problem is None or not pr.generate():
        chk.violation("replay: problem no longer generates: " + pr.status, c)
        return
    if "inputs" not in c:
        run_batch(chk, drv, [pr], 3, True)
        return
    sizes = c["sizes"]
    ins = {}
    for name, t in pr.tensors_of().items():
        dims = tuple(sizes[i] for i in t.indexes)
        ins[name] = ({tuple(k): val for k, val in c["inputs"].get(name, [])}, dims)
    rep = drv.ask_raw(kernels.exec_request(pr.func("evaluate"), pr.heap(sizes, ins)))
    mr = kernels.MachineResult(rep)
    chk.case(("replay",), sample=c)
    if not mr.ok:
        chk.violation(f"emitted evaluate kernel fails on the IR machine: {mr.err}", c)
        return
    modes, ordering = pr.fmts[pr.target]
    raw, probs = kernels.extract_raw(mr, pr.target, pr.out_dims(sizes), modes, ordering)
    if raw is None:
        chk.violation("unusable arrays: " + "; ".join(probs), c)
        return
    judge(chk, pr, sizes, ins, raw, "ir-machine")
