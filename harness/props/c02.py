"""C02 — every returned tensor is a canonical, self-consistent stored tensor.

Oracle: the well-formedness predicate of the statement, as Lean `wfCheck` (theorem `decode_encode`
shows constructor outputs satisfy it; `wfCheck` is cross-checked against an independent Python
implementation on every case) applied to (1) the final machine blocks of the evaluate kernel and of
assemble followed by compute, for initial capacities 1,2,3,default and (2) the raw cffi arrays of
the real LLVM result; plus the consequence clause on the real result (pickle, ==, to_format, use as input).
"""
from __future__ import annotations

import json

from .. import kernels, kruns, problems
from ..kernels import RealWorker
from ..core import Check, Driver, sx


WORKER = RealWorker()


def run(chk: Check, drv: Driver):
    chk.cov["rule"] = (
        "problems whose output has >= 1 compressed level (curated + seeded random) x sampled formats x capacities {1,2,3,default} x "
        "random inputs incl. empty; distinct = (assignment, formats, capacity, inputs); non-trivial = the output stores >= 1 entry"
    )
    quick = chk.tier == "quick"
    rng = chk.rng
    from .. import graphcorr

    graphcorr.lattice_order_check(chk, 150 if quick else 2000, drv)
    wf_reqs, wf_meta = [], []
    for cap in [1, 2, 3, None]:
        with kruns.initial_capacity(cap):
            prepared = []
            for pr in kruns.enumerate_problems(chk, n_random=(25 if quick else 300), per_assignment=(3 if quick else 12)):
                if pr.problem is None or "s" not in pr.fmts[pr.assignment.target.name][0]:
                    continue
                pr.generate()
                chk.count("status_" + pr.status)
                if pr.status == "ok":
                    prepared.append(pr)
            items = []
            for pr in prepared:
                for _ in range(2 if quick else 5):
                    sizes, ins = pr.gen_inputs(rng)
                    items.append((pr, sizes, ins))
            runs = kruns.machine_runs(drv, items)
            for (pr, sizes, ins), r in zip(items, runs):
                for kind in ("evaluate", "compute"):
                    raw = getattr(r, "raw_" + kind)
                    for k2, what in r.problems:
                        if k2 == kind or (kind == "compute" and k2 == "assemble"):
                            chk.violation(f"{k2} kernel: {what}", pr.case(sizes, ins, capacity=cap, kernel=k2))
                    if raw is None:
                        continue
                    probs = kernels.wf_problems(raw)
                    stored = sum(1 for _ in raw.vals)
                    chk.case((pr.key(), cap, kind, json.dumps(sorted((n, sorted(cv.items())) for n, (cv, _) in ins.items()))) if stored else None,
                             sample=pr.case(sizes, ins, capacity=cap, kernel=kind, levels=raw.levels))
                    chk.count("wf_checked_" + kind)
                    if probs:
                        chk.violation(f"{kind} output is not well-formed: " + "; ".join(probs), pr.case(sizes, ins, capacity=cap, kernel=kind), got=raw.levels)
                    wf_reqs.append("WF " + sx(raw.stored_sx()))
                    wf_meta.append((pr.case(sizes, ins, capacity=cap, kernel=kind), not probs))
            # real results and the consequence clause (default capacity only, and capacity 1)
            if cap in (1, None):
                for pr in prepared[: (40 if quick else 400)]:
                    if pr.broadcast:
                        continue
                    cases = [pr.gen_inputs(rng) for _ in range(2)]
                    res = WORKER.run(pr.text, pr.fs, [ins for _, ins in cases], "llvm", feedback=True, capacity=cap, timeout=240)
                    if res[0] != "ok":
                        chk.violation(f"real kernel {res[0]}: {res[1:3]}", pr.case(*cases[0], capacity=cap))
                        continue
                    for (sizes, ins), out in zip(cases, res[1]):
                        chk.count("real_runs")
                        if out[0] != "ok":
                            chk.violation(f"real kernel call raised {out[1]}: {out[2]}", pr.case(sizes, ins, capacity=cap))
                            continue
                        raw = kernels.Raw(*out[1:6])
                        probs = kernels.wf_problems(raw)
                        if probs:
                            chk.violation("real result is not well-formed: " + "; ".join(probs), pr.case(sizes, ins, capacity=cap), got=raw.levels)
                        for b in out[6]:
                            chk.violation("result not usable: " + b, pr.case(sizes, ins, capacity=cap))
                        chk.case((pr.key(), cap, "real", json.dumps(sorted((n, sorted(cv.items())) for n, (cv, _) in ins.items()))), sample=None)
    # directed: results of order 3 whose mode ordering is a 3-cycle (not its own inverse), pairwise different dimension
    # sizes, dense and compressed levels mixed — the results on which a confusion of level order and dimension order
    # in anything that reads a result back (taco_indices/taco_vals, pickling, ==, to_format, feeding) shows
    from ..gen import parse_fmt

    for out_fmt in ("d1s2s0", "s2d0s1", "s1s2d0", "d2d0s1", "s1d2d0", "d1d2s0", "s2s0s1", "d2s0d1"):
        order_digits = out_fmt[1::2]
        same_s = "".join("s" + d_ for d_ in order_digits)
        same_d = "".join("d" + d_ for d_ in order_digits)
        for in_fmts in ((same_s, same_d), (same_d, same_d), ("sss", "d2d1d0")):
            fs = {"o": out_fmt, "a": in_fmts[0], "b": in_fmts[1]}
            pr = kruns.Prepared("o(i,j,k) = a(i,j,k) + b(i,j,k)", {n_: parse_fmt(f) for n_, f in fs.items()})
            if pr.problem is None:
                continue
            dims = (4, 3, 2)
            sizes = {"i": 4, "j": 3, "k": 2}
            ins = {"a": (problems.random_input(rng, dims, 0.5), dims), "b": (problems.random_input(rng, dims, 0.5), dims)}
            res = WORKER.run(pr.text, pr.fs, [ins], "llvm", feedback=True, timeout=240)
            chk.count("directed_cyclic_result_runs")
            if res[0] != "ok":
                if res[0] == "exc" and res[1] in ("NoKernelFoundError", "NotImplementedError"):
                    chk.count("directed_cyclic_no_kernel")
                    continue
                chk.violation(f"real kernel {res[0]}: {res[1:3]}", pr.case(sizes, ins))
                continue
            out = res[1][0]
            if out[0] != "ok":
                chk.violation(f"real kernel call raised {out[1]}: {out[2]}", pr.case(sizes, ins))
                continue
            raw = kernels.Raw(*out[1:6])
            probs = kernels.wf_problems(raw)
            if probs:
                chk.violation("real result is not well-formed: " + "; ".join(probs), pr.case(sizes, ins), got=raw.levels)
            for b in out[6]:
                chk.violation("result not usable: " + b, pr.case(sizes, ins))
            chk.case((pr.key(), "directed-cyclic"), sample=None)
    replies = drv.batch(wf_reqs)
    mism = 0
    for (case, py_ok), rep in zip(wf_meta, replies):
        if (rep == "true") != py_ok:
            mism += 1
            chk.unproved_obligation("correspondence:wfCheck", f"Lean wfCheck={rep} vs python={py_ok}", case)
    chk.corr("wfCheck-vs-python", len(wf_reqs), mism)


def replay(chk: Check, drv: Driver, path: str):
    run(chk, drv)
