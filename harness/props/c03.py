"""C03 — sparse outputs store no phantom coordinates.

Oracle: structural support (tensors as stored coordinate sets, * = intersection, + = union,
summation = projection, literals = everywhere); for every compressed output level, every stored
level-prefix must be the prefix of some supported output coordinate. Checked on the machine's final
blocks for evaluate and for assemble (structure only) and on the real LLVM result.
"""
from __future__ import annotations

import json

from .. import kernels, kruns, problems
from ..kernels import RealWorker
from ..core import Check, Driver


def stored_prefixes(raw: kernels.Raw):
    """for each compressed level l: set of level-order prefixes (c0..cl) stored at that level"""
    ldims = [raw.dims[i] for i in raw.ordering]
    out = {}
    frontier = [((), 0)]
    for l, lv in enumerate(raw.levels):
        nxt = []
        if lv[0] == "d":
            for pre, p in frontier:
                for c in range(ldims[l]):
                    nxt.append((pre + (c,), p * ldims[l] + c))
        else:
            pos, crd = lv[1], lv[2]
            for pre, p in frontier:
                for q in range(pos[p], pos[p + 1]):
                    nxt.append((pre + (crd[q],), q))
            out[l] = {pre for pre, _ in nxt}
        frontier = nxt
    return out


def phantoms(raw: kernels.Raw, support: set):
    """list of (level, prefix) stored without structural support"""
    bad = []
    sup_level = [tuple(c[i] for i in raw.ordering) for c in support]
    for l, prefixes in stored_prefixes(raw).items():
        ok = {s[: l + 1] for s in sup_level}
        for pre in sorted(prefixes):
            if pre not in ok:
                bad.append((l, list(pre)))
    return bad


WORKER = RealWorker()


def run(chk: Check, drv: Driver):
    chk.cov["rule"] = (
        "problems with a compressed output level (any position) x sampled formats x inputs biased to empty operands / empty rows / "
        "zero-sized contraction ranges; distinct = (assignment, formats, inputs); non-trivial = support is a proper subset of the output box"
    )
    quick = chk.tier == "quick"
    rng = chk.rng
    from .. import graphcorr

    graphcorr.run(chk, drv, 2000 if quick else 20000)
    prepared = []
    for pr in kruns.enumerate_problems(chk, n_random=(60 if quick else 300), per_assignment=(5 if quick else 12)):
        if pr.problem is None or "s" not in pr.fmts[pr.assignment.target.name][0]:
            continue
        pr.generate()
        chk.count("status_" + pr.status)
        if pr.status == "ok":
            prepared.append(pr)
    # directed: outputs whose compressed levels are separated / followed by dense levels (sds, ssd, sd, dsds) and inputs whose
    # intersections, rows and contractions are frequently empty — the shapes on which any shortcut in deciding "was something
    # written below this coordinate" shows (the exact mechanism is the written flag of every enclosing compressed level)
    from ..gen import parse_fmt

    directed_n = 0
    for text, fss in [
        ("A(i,j,k) = B(i,j,k) * C(i,j,k)", [{"A": o, "B": "sss", "C": "sss"} for o in ("sds", "ssd", "sss", "dsd", "sdd")]),
        ("A(i,j,k) = B(i,j,k) * C(i,j,k)", [{"A": "sds", "B": "sds", "C": "sss"}, {"A": "sds", "B": "ssd", "C": "sds"}]),
        ("A(i,j,k) = B(i,j,k) + C(i,j,k) * D(k)", [{"A": o, "B": "sss", "C": "sss", "D": "s"} for o in ("sds", "ssd")]),
        ("A(i,j) = B(i,k) * C(k,j)", [{"A": o, "B": "ss", "C": "ss"} for o in ("ss", "sd", "ds")]),
        ("A(i,j,k) = B(i,j,l) * C(l,k)", [{"A": o, "B": "sss", "C": "ss"} for o in ("sds", "sss", "ssd")]),
        ("A(i,j) = B(i,j) * C(i) * D(j)", [{"A": o, "B": "ss", "C": "s", "D": "s"} for o in ("ss", "sd")]),
    ]:
        for fs in fss:
            pr = kruns.Prepared(text, {n_: parse_fmt(f) for n_, f in fs.items()})
            if pr.problem is None:
                continue
            pr.generate()
            if pr.status == "ok":
                prepared.append(pr)
                directed_n += 1
                pr._directed = True
    chk.count("directed_problems", directed_n)
    items = []
    for pr in prepared:
        for k in range((8 if getattr(pr, "_directed", False) else 3) if quick else 8):
            sizes = problems.index_sizes(pr.assignment, rng, (0, 2, 3, 3, 4) if not getattr(pr, "_directed", False) else (2, 3, 3, 4))
            ins = {}
            for name, t in pr.tensors_of().items():
                dims = tuple(sizes[i] for i in t.indexes)
                # compressed inputs get partial patterns (that is where support is a proper subset);
                # all-dense inputs are structurally full whatever is stored
                density = rng.choice([0.0, 0.2, 0.4, 0.6]) if "s" in pr.fmts[name][0] else rng.choice([0.0, 1.0])
                ins[name] = (problems.random_input(rng, dims, density), dims)
            items.append((pr, sizes, ins))
    runs = kruns.machine_runs(drv, items, kinds=("evaluate", "assemble"))
    for (pr, sizes, ins), r in zip(items, runs):
        sup = pr.support(sizes, ins)
        box = 1
        for d in pr.out_dims(sizes):
            box *= d
        nontrivial = len(sup) < box
        chk.case((pr.key(), json.dumps(sorted((n, sorted(cv.items())) for n, (cv, _) in ins.items()))) if nontrivial else None,
                 sample=pr.case(sizes, ins, support=sorted(list(c) for c in sup)))
        chk.count("support_empty" if not sup else ("support_full" if not nontrivial else "support_partial"))
        for kind in ("evaluate", "assemble"):
            raw = getattr(r, "raw_" + kind)
            for k2, what in r.problems:
                if k2 == kind:
                    chk.violation(f"{k2} kernel: {what}", pr.case(sizes, ins, kernel=k2))
            if raw is None:
                continue
            bad = phantoms(raw, sup)
            chk.count("checked_" + kind)
            if bad:
                chk.violation(f"{kind} kernel stores coordinates without structural support", pr.case(sizes, ins, kernel=kind),
                              expected=sorted(list(c) for c in sup), got={"phantom (level, prefix)": bad[:6], "levels": raw.levels})
    # real results
    for pr in prepared[: (60 if quick else 600)]:
        if pr.broadcast:
            continue
        cases = []
        for _ in range(2):
            sizes = problems.index_sizes(pr.assignment, rng, (0, 1, 2, 3))
            ins = {}
            for name, t in pr.tensors_of().items():
                dims = tuple(sizes[i] for i in t.indexes)
                ins[name] = (problems.random_input(rng, dims, rng.choice([0.0, 0.2, 0.5])), dims)
            cases.append((sizes, ins))
        res = WORKER.run(pr.text, pr.fs, [ins for _, ins in cases], "llvm", timeout=240)
        if res[0] != "ok":
            chk.violation(f"real kernel {res[0]}: {res[1:3]}", pr.case(*cases[0]))
            continue
        for (sizes, ins), out in zip(cases, res[1]):
            if out[0] != "ok":
                chk.violation(f"real kernel call raised {out[1]}: {out[2]}", pr.case(sizes, ins))
                continue
            raw = kernels.Raw(*out[1:6])
            sup = pr.support(sizes, ins)
            bad = phantoms(raw, sup)
            chk.count("checked_real")
            if bad:
                chk.violation("real result stores coordinates without structural support", pr.case(sizes, ins),
                              expected=sorted(list(c) for c in sup), got={"phantom": bad[:6], "levels": raw.levels})


def replay(chk: Check, drv: Driver, path: str):
    from ..gen import parse_fmt

    v = json.loads(open(path).read())
    c = v["case"]
    fmts = {n: parse_fmt(f) for n, f in c["formats"].items()}
    pr = kruns.Prepared(c["assignment"], fmts)
    if pr.problem is None or not pr.generate():
        chk.violation("replay: problem no longer generates: " + pr.status, c)
        return
    sizes = c["sizes"]
    ins = {}
    for name, t in pr.tensors_of().items():
        dims = tuple(sizes[i] for i in t.indexes)
        ins[name] = ({tuple(k): val for k, val in c["inputs"].get(name, [])}, dims)
    r = kruns.machine_runs(drv, [(pr, sizes, ins)], kinds=("evaluate", "assemble"))[0]
    sup = pr.support(sizes, ins)
    chk.case(("replay",), sample=c)
    for kind in ("evaluate", "assemble"):
        raw = getattr(r, "raw_" + kind)
        if raw is not None:
            bad = phantoms(raw, sup)
            if bad:
                chk.violation(f"{kind} kernel stores coordinates without structural support", c, got=bad[:6])
