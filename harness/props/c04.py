"""C04 — assemble followed by compute is equivalent to evaluate.

The module with all three kernels is generated in one call (as the CLI does) and executed on the Lean
IR machine: (1) assemble; compute  vs  evaluate — identical structure arrays and values;
(2) compute allocates nothing (block count unchanged), leaves every structure block of the output
bit-identical and live, and writes only inside the value array assemble sized (the machine's bounds
monitor); (3) compute re-run k times on inputs of identical structure and fresh values equals evaluate
on those inputs. Capacities 1,2,3,default. Theorems (Props/C04.lean): allocation-free programs
preserve the set of blocks, their lengths and liveness, for all states.
"""
from __future__ import annotations

import json

from .. import kernels, kruns, problems
from ..core import Atom, Check, Driver, sx


def revalue(rng, ins):
    out = {}
    for n, (cv, dims) in ins.items():
        out[n] = ({c: float(rng.choice([-3, -2, -1, 0, 1, 2, 3, 4])) for c in cv}, dims)
    return out


def structure_of(mr, name):
    levels, vals = mr.output_blocks(name)
    return levels


def run(chk: Check, drv: Driver):
    chk.cov["rule"] = (
        "curated + seeded random assignments x sampled formats x capacities {1,2,3,default} x inputs; histories = assemble once, "
        "compute 1..3 times with re-valued inputs of the same structure; distinct = (assignment, formats, capacity, inputs); "
        "non-trivial = output has a compressed level and stores >= 1 entry"
    )
    quick = chk.tier == "quick"
    rng = chk.rng
    for cap in [1, 2, 3, None]:
        with kruns.initial_capacity(cap):
            prepared = []
            for pr in kruns.enumerate_problems(chk, n_random=(25 if quick else 300), per_assignment=(2 if quick else 10)):
                if pr.problem is None:
                    continue
                pr.generate()
                chk.count("status_" + pr.status)
                if pr.status == "ok":
                    prepared.append(pr)
            from ..export import export

            certs = drv.batch(["CERT noalloc " + sx(export(pr.func("compute"))) for pr in prepared])
            for pr, c in zip(prepared, certs):
                chk.count("compute_kernels_certified_noalloc" if c == "true" else "compute_kernels_not_noalloc")
                if c != "true":
                    chk.violation("compute kernel contains an allocation (certificate noAlloc fails)", pr.case(capacity=cap, kernel="compute"))
            kruns.store_certificates(chk, drv, prepared, kinds=("compute",))
            items = []
            for pr in prepared:
                for _ in range(2 if quick else 4):
                    sizes, ins = pr.gen_inputs(rng)
                    items.append((pr, sizes, ins))
            runs = kruns.machine_runs(drv, items)
            recompute_reqs, recompute_meta = [], []
            for (pr, sizes, ins), r in zip(items, runs):
                case = pr.case(sizes, ins, capacity=cap)
                for kind, what in r.problems:
                    chk.violation(f"{kind} kernel: {what}", dict(case, kernel=kind))
                ev, cp, asm = r.raw_evaluate, r.raw_compute, r.raw_assemble
                if ev is None or cp is None or asm is None:
                    continue
                nontrivial = "s" in pr.fmts[pr.target][0] and len(ev.vals) > 0
                chk.case((pr.key(), cap, json.dumps(sorted((n, sorted(cv.items())) for n, (cv, _) in ins.items()))) if nontrivial else None, sample=case)
                chk.count("histories")
                if ev.levels != cp.levels:
                    chk.violation("assemble;compute and evaluate disagree on the structure", case, expected=ev.levels, got=cp.levels)
                elif ev.vals != cp.vals:
                    chk.violation("assemble;compute and evaluate disagree on the values", case, expected=ev.vals, got=cp.vals)
                # compute must not allocate or touch the structure
                if r.compute.blocks != r._compute_heap_blocks:
                    chk.violation("compute kernel allocated or reallocated memory", case, expected=r._compute_heap_blocks, got=r.compute.blocks)
                la, va = r.assemble.output_blocks(pr.target)
                lc, vc = r.compute.output_blocks(pr.target)
                sa = [(l[0],) if l[0] == "d" else (l[0], l[1][1], l[2][1]) for l in la]
                sc = [(l[0],) if l[0] == "d" else (l[0], l[1][1], l[2][1]) for l in lc]
                if sa != sc:
                    chk.violation("compute kernel changed the structure arrays it was given", case, expected=sa, got=sc)
                if len(vc[1]) != len(va[1]):
                    chk.violation("compute kernel changed the length of the value array", case, expected=len(va[1]), got=len(vc[1]))
                # re-run compute with re-valued inputs on the same assembled output
                ins_k = ins
                for k in range(1 if quick else 3):
                    ins_k = revalue(rng, ins_k)
                    out_sx = kruns.output_from_blocks(pr.target, pr.out_dims(sizes), lc, (vc[0], vc[1]))
                    recompute_reqs.append(kernels.exec_request(pr.func("compute"), pr.heap(sizes, ins_k, output_sx=out_sx)))
                    recompute_reqs.append(kernels.exec_request(pr.func("evaluate"), pr.heap(sizes, ins_k)))
                    recompute_meta.append((pr, sizes, ins_k, cap))
            replies = drv.batch(recompute_reqs)
            for k, (pr, sizes, ins_k, cap_) in enumerate(recompute_meta):
                c = kernels.MachineResult(replies[2 * k])
                e = kernels.MachineResult(replies[2 * k + 1])
                case = pr.case(sizes, ins_k, capacity=cap_, history="recompute")
                chk.count("recomputes")
                if not (c.ok and e.ok):
                    chk.violation(f"re-run failed: compute={c.err} evaluate={e.err}", case)
                    continue
                modes, ordering = pr.fmts[pr.target]
                rc, pc = kernels.extract_raw(c, pr.target, pr.out_dims(sizes), modes, ordering)
                re_, pe = kernels.extract_raw(e, pr.target, pr.out_dims(sizes), modes, ordering)
                if rc is None or re_ is None:
                    chk.violation("re-run handed back unusable arrays: " + "; ".join(pc + pe), case)
                    continue
                if rc.levels != re_.levels or rc.vals != re_.vals:
                    chk.violation("compute re-run with re-valued inputs differs from evaluate", case,
                                  expected=[re_.levels, re_.vals], got=[rc.levels, rc.vals])


def replay(chk: Check, drv: Driver, path: str):
    run(chk, drv)
