"""C05 — generated kernels are memory-safe, leave inputs untouched and terminate.

Every emitted kernel (evaluate, assemble, compute) of every enumerated problem is executed on the Lean
IR machine, whose semantics *is* the monitor: each load must hit an initialised in-bounds cell of a
live block, each store a non-input block in bounds, every integer result must fit int32, loops are
fuel-bounded, and the kernel must return 0; the arrays handed back must be live and long enough.
Initial capacities 1, 2, 3 and the default exercise the growth paths. Theorems (Props/C05.lean) give the
frame facts for all programs: a successful run never changes an input-owned block or tensor record.
"""
from __future__ import annotations

import json
import os
import subprocess

from .. import kernels, kruns, problems
from ..core import Check, Driver


def run(chk: Check, drv: Driver):
    chk.cov["rule"] = (
        "curated + seeded random assignments x sampled format assignments x kernel kinds {evaluate, assemble, compute} x "
        "initial capacities {1,2,3,default} x index sizes in {0..3} x random sparsity incl. empty tensors; "
        "distinct = (assignment, formats, capacity, inputs); non-trivial = output has a compressed level or an input stores an entry"
    )
    quick = chk.tier == "quick"
    rng = chk.rng
    from .. import graphcorr

    graphcorr.lattice_order_check(chk, 150 if quick else 2000, drv)
    caps = [1, 2, 3, None]
    total = 0
    for cap in caps:
        with kruns.initial_capacity(cap):
            prepared = []
            for pr in kruns.enumerate_problems(chk, n_random=(25 if quick else 300), per_assignment=(2 if quick else 10)):
                if pr.problem is None:
                    continue
                pr.generate()
                chk.count("status_" + pr.status)
                if pr.status == "ok":
                    prepared.append(pr)
            kruns.compile_corr(chk, drv, prepared, cap=cap, limit=(120 if quick else None))
            kruns.store_certificates(chk, drv, prepared)
            items = []
            for pr in prepared:
                for _ in range(2 if quick else 5):
                    sizes, ins = pr.gen_inputs(rng)
                    if any(i not in sizes for i in pr.assignment.target.indexes):
                        continue
                    items.append((pr, sizes, ins))
            runs = kruns.machine_runs(drv, items)
            for (pr, sizes, ins), run_ in zip(items, runs):
                total += 1
                nontrivial = "s" in pr.fmts[pr.target][0] or any(len(cv) for cv, _ in ins.values())
                chk.case((pr.key(), cap, json.dumps(sorted((n, sorted(cv.items())) for n, (cv, _) in ins.items()))) if nontrivial else None,
                         sample=pr.case(sizes, ins, capacity=cap))
                for kind in ("evaluate", "assemble", "compute"):
                    mr = getattr(run_, kind)
                    if mr is not None:
                        chk.count("runs_" + kind)
                        if mr.ok:
                            chk.count("iters_total", mr.iters)
                for kind, what in run_.problems:
                    chk.count("problem_" + kind)
                    chk.violation(f"{kind} kernel: {what}", pr.case(sizes, ins, capacity=cap, kernel=kind))
    chk.count("cases", total)
    zero_dimension_overflow(chk, drv)
    if not quick:
        large_allocation(chk)
    chk.assumptions += [
        "the kernels' text is executed by the IR machine, not by hardware; gcc/LLVM code generation is C06's concern",
        "allocation sizes up to 2^20 elements; the >= 2^29-element LLVM size arithmetic (F9) is outside machine replay",
    ]


def zero_dimension_overflow(chk: Check, drv: Driver):
    """finding F16 (found by the Lean theorem `denseN_prod_bound_insufficient`): a dense tensor with dimensions
    (65536, 65536, 0) has 0 elements - its element count fits int32 - yet the kernel multiplies the dimensions left to
    right (`capacity = d0 * d1 * d2`, outer position arithmetic), and 65536 * 65536 overflows int32 before the zero is
    reached. On the machine the evaluate kernel of the witness stops with intOverflow in its prologue; the emitted C,
    compiled with -fsanitize=signed-integer-overflow, reports the same multiplication (thorough tier)."""
    from ..gen import parse_fmt

    pr = kruns.Prepared("a(i,j,k) = b(i,j,k)", {"a": parse_fmt("ddd"), "b": parse_fmt("ddd")})
    if pr.problem is None or not pr.generate():
        return
    sizes = {"i": 65536, "j": 65536, "k": 0}
    ins = {"b": ({}, (65536, 65536, 0))}
    # the heap is written down directly (building a 65536 x 65536 x 0 dense Tensor through the library walks 4e9 positions)
    dims = [65536, 65536, 0]
    heap = [kernels.empty_output_sx("a", dims, ("d", "d", "d")),
            kernels.Raw(dims, ("d", "d", "d"), (0, 1, 2), [("d",), ("d",), ("d",)], []).heap_sx("b")]
    rep = drv.batch([kernels.exec_request(pr.func("evaluate"), heap, 10)])[0]
    mr = kernels.MachineResult(rep)
    chk.count("zero_dimension_witness_runs")
    case = {"assignment": pr.text, "formats": pr.fs, "dimensions": dims, "kernel": "evaluate"}
    if (not mr.ok) and mr.err == "intOverflow":
        f = chk.match_known(lambda f: f.get("signature", {}).get("predicate") == "zero-dimension-prefix-product-overflow")
        if f:
            chk.known(f["id"], f["what"])
        else:
            chk.violation("int32 overflow in a kernel whose tensors have 0 elements (dimensions 65536 x 65536 x 0)", case)
    elif not mr.ok and mr.err != "fuel":
        chk.violation(f"evaluate kernel fails on the zero-dimension witness: {mr.err}", case)
    if chk.tier == "thorough":
        zero_dimension_ubsan(chk, pr)


UBSAN_MAIN = r"""
#include <stdio.h>
int main(){
  int32_t dims[3]={65536,65536,0}; int32_t ord[3]={0,1,2}; taco_mode_t mt[3]={taco_mode_dense,taco_mode_dense,taco_mode_dense};
  int32_t** ind[3]={0,0,0}; double bv[1]={0};
  taco_tensor_t A={3,dims,ord,mt,(int32_t***)ind,0}; taco_tensor_t B={3,dims,ord,mt,(int32_t***)ind,bv};
  int r=evaluate(&A,&B); printf("ret %d\n",r); return 0; }
"""


def zero_dimension_ubsan(chk: Check, pr):
    import tempfile

    from tensora.compile._cffi_ownership import taco_type_header
    from tensora.compile._compile_cffi import taco_define_header
    from tensora.generate import Language, generate_code
    from tensora.kernel_type import KernelType

    code = generate_code(pr.problem, [KernelType.evaluate], Language.c).unwrap()
    with tempfile.TemporaryDirectory(prefix="verif_c05_ubsan_") as td:
        src = os.path.join(td, "k.c")
        open(src, "w").write("#include <stdint.h>\n#include <stdlib.h>\n" + taco_define_header + taco_type_header.replace("void free(void *ptr);", "") + "\n" + code + "\n" + UBSAN_MAIN)
        r = subprocess.run(["gcc", "-O0", "-fsanitize=signed-integer-overflow", "-fno-sanitize-recover=all", src, "-o", os.path.join(td, "k")], capture_output=True, text=True)
        if r.returncode != 0:
            chk.count("ubsan_compile_failed")
            return
        try:
            r = subprocess.run([os.path.join(td, "k")], capture_output=True, text=True, timeout=60)
            out = r.stdout + r.stderr
        except subprocess.TimeoutExpired:
            out = "timeout"
        chk.count("ubsan_replay_runs")
        if "signed integer overflow" in out:
            f = chk.match_known(lambda f: f.get("signature", {}).get("predicate") == "zero-dimension-prefix-product-overflow")
            if f:
                chk.known(f["id"], f["what"])
            else:
                chk.violation("UBSan: signed integer overflow in the emitted C on tensors with 0 elements", {"assignment": pr.text, "dims": [65536, 65536, 0]}, got=out[:300])


LARGE = r"""
import sys
from tensora import Tensor, evaluate
from tensora.compile import evaluate_cffi, tensor_cdefs
n = 2**29
b = Tensor.from_dok({(5,): 2.0}, dimensions=(n,), format='s')
r = (evaluate if sys.argv[1] == 'llvm' else evaluate_cffi)('a(i) = b(i)', 'd', b=b)
v = tensor_cdefs.cast("double*", r.cffi_tensor.vals)
assert r.dimensions == (n,) and v[5] == 2.0 and v[0] == 0.0 and v[n - 1] == 0.0, (r.dimensions, v[5])
print("ok")
"""


def large_allocation(chk: Check):
    """finding F9 (fixed): element counts that fit int32 but whose byte size needs more than 32 bits"""
    import subprocess
    import sys
    import tempfile

    with tempfile.TemporaryDirectory(prefix="verif_c05_") as td:
        path = td + "/large.py"
        open(path, "w").write(LARGE)
        for backend in ("llvm", "cffi"):
            case = {"assignment": "a(i) = b(i)", "formats": {"a": "d", "b": "s"}, "sizes": {"i": 2**29}, "backend": backend}
            chk.case(("large", backend), sample=case)
            try:
                r = subprocess.run([sys.executable, path, backend], capture_output=True, text=True, timeout=1500)
            except subprocess.TimeoutExpired:
                chk.count("large_allocation_timeout")
                continue
            chk.count("large_allocation_runs")
            if r.returncode != 0:
                chk.violation(f"kernel with a 2**29-element dense output failed on the {backend} back end "
                              f"(exit {r.returncode}; a negative code is a signal)", case, got=(r.stdout + r.stderr)[-300:])


def replay(chk: Check, drv: Driver, path: str):
    from ..gen import parse_fmt

    v = json.loads(open(path).read())
    c = v["case"]
    fmts = {n: parse_fmt(f) for n, f in c["formats"].items()}
    with kruns.initial_capacity(c.get("capacity")):
        pr = kruns.Prepared(c["assignment"], fmts)
        if pr.problem is None or not pr.generate():
            chk.violation("replay: problem no longer generates: " + pr.status, c)
            return
        sizes = c["sizes"]
        ins = {}
        for name, t in pr.tensors_of().items():
            dims = tuple(sizes[i] for i in t.indexes)
            ins[name] = ({tuple(k): val for k, val in c["inputs"].get(name, [])}, dims)
        runs = kruns.machine_runs(drv, [(pr, sizes, ins)])
        chk.case(("replay",), sample=c)
        for kind, what in runs[0].problems:
            chk.violation(f"{kind} kernel: {what}", c)
