"""C06 — the C and LLVM back ends implement the same kernel.

Three-way runs: for sampled problems x inputs with general finite doubles, the C source compiled by
gcc (through the library's cffi back end), the LLVM module run by MCJIT, and the direct execution of the
IR on the Lean machine (Lean `Float` = IEEE binary64) must produce bit-identical structure and values.
Printer correspondence: `ir_to_c_expression` (Python) vs the Lean port `cExpr` token-for-token on typed
expression trees and on every expression of the generated kernels; theorem `cprint_parse`: parsing the
printed tokens with C's precedence table returns the tree re-associated to the left (finding F10).
Certificates on every kernel: one declared type per variable name (`hoistConsistent`, needed by the
LLVM back end which hoists declarations).
"""
from __future__ import annotations

import json
import struct

from .. import kernels, kruns, problems
from ..kernels import RealWorker
from ..core import Atom, Check, Driver, sx
from ..export import export

VALUES = [1.0, -1.0, 0.5, 0.1, 3.0, 1e16, -1e16, 1e-7, 2.5, 1e300, 7.0, -0.0, 0.0, 123456.789]


def bits(v: float) -> int:
    return struct.unpack("<Q", struct.pack("<d", v))[0]


def right_nested_float_sum(a) -> bool:
    """F10 signature: an Add/Multiply node of the assignment whose right operand is again an
    Add(or Subtract)/Multiply of the same precedence class (printed without parentheses in C)"""
    from tensora.expression import ast as s

    def walk(e):
        if isinstance(e, s.Add):
            return isinstance(e.right, (s.Add, s.Subtract)) or walk(e.left) or walk(e.right)
        if isinstance(e, s.Subtract):
            return walk(e.left) or walk(e.right)
        if isinstance(e, s.Multiply):
            return isinstance(e.right, s.Multiply) or walk(e.left) or walk(e.right)
        return False

    return walk(a.expression)


WORKER = RealWorker()


# chains of float literals next to an operand: any back end that folds or re-associates constants (value-changing
# floating-point flags, an over-eager optimiser) shows up here with ordinary inputs such as 3.0
LITERAL_CHAINS = ["a(i) = b(i) * 0.1 * 0.3", "a(i) = b(i) + 0.1 + 0.2", "a(i) = 0.1 * 0.3 * b(i)", "a(i) = b(i) * c(i) * 0.1 * 3.0",
                  "a(i) = 0.1 + b(i) + 0.2 + c(i)", "a() = b(i) * 0.7 * 0.1"]


def _float_literals(a):
    from tensora.expression import ast as s

    def walk(e):
        if isinstance(e, s.Float):
            return [e.value]
        if isinstance(e, (s.Add, s.Subtract, s.Multiply)):
            return walk(e.left) + walk(e.right)
        return []

    return walk(a.expression)


def layout_part(chk: Check):
    """both back ends address the fields of taco_tensor_t: the C back end through the published header, the LLVM
    back end through `type_to_llvm_tensor` + `attribute_indexes` (getelementptr by field NUMBER). The byte offsets
    the two assign to every attribute the IR can name must coincide on this target (and the element sizes of the
    arrays behind them: int32 indices, double values)."""
    import llvmlite.binding as llvm
    from tensora.codegen._type_to_llvm import attribute_indexes, llvm_float_type, llvm_integer_type, type_to_llvm
    from tensora.compile._cffi_ownership import tensor_cdefs
    from tensora.ir import types

    import tensora.compile  # noqa: F401 - initialises the native target the way the library does
    tm = llvm.Target.from_default_triple().create_target_machine()
    td = tm.target_data
    mod = llvm.parse_assembly(f"%t = type {type_to_llvm(types.tensor)}\n@g = external global %t\n")
    struct_ty = mod.get_global_variable("g").type.element_type if hasattr(mod.get_global_variable("g").type, "element_type") else None
    gv_ty = mod.get_struct_type("t") if struct_ty is None else struct_ty
    bad = 0
    for name, idx in attribute_indexes.items():
        off_llvm = td.get_element_offset(gv_ty, idx)
        off_c = tensor_cdefs.offsetof("taco_tensor_t", name)
        chk.count("layout_fields_checked")
        if off_llvm != off_c:
            bad += 1
            chk.violation("the LLVM back end and the published C header place a taco_tensor_t field at different offsets",
                          {"field": name, "llvm_field_index": idx}, expected=off_c, got=off_llvm)
    if td.get_abi_size(gv_ty) != tensor_cdefs.sizeof("taco_tensor_t"):
        chk.count("layout_total_size_differs")
    sizes = {"int32_t": (tensor_cdefs.sizeof("int32_t"), llvm_integer_type.width // 8), "double": (tensor_cdefs.sizeof("double"), 8)}
    for nm, (c, l) in sizes.items():
        if c != l:
            chk.violation("element size differs between the back ends", {"type": nm}, expected=c, got=l)
    chk.corr("taco_tensor_t-layout", len(attribute_indexes), bad)


def run(chk: Check, drv: Driver):
    layout_part(chk)
    operator_part(chk, drv)
    chk.cov["rule"] = (
        "sampled problems (curated + random, incl. right-nested sums/products) x formats x inputs with general finite doubles "
        "(0.1, 1e16, -1e16, 1e-7, 1e300, +-0.0, ...) x back ends {gcc via cffi, LLVM MCJIT, Lean IR machine}; "
        "distinct = (assignment, formats, inputs); non-trivial = at least one stored input entry"
    )
    quick = chk.tier == "quick"
    rng = chk.rng
    extra = ["a(i) = b(i) + (c(i) + d(i))", "a(i) = b(i) * (c(i) * d(i))", "a(i) = b(i) - (c(i) - d(i))", "a(i) = b(i) + (c(i) - d(i))",
             "a(i) = b(i) * c(i) * d(i)", "a(i) = b(i,j) * c(j) + d(i)"] + LITERAL_CHAINS
    prepared = []
    for pr in kruns.enumerate_problems(chk, n_random=(10 if quick else 150), per_assignment=(1 if quick else 4), extra_texts=extra):
        if pr.problem is None or pr.broadcast:
            continue
        if not pr.generate():
            continue
        prepared.append(pr)
    # hypotheses of `scoped_eq_flat` (Props/C06Scope.lean) on EVERY emitted kernel: `scopeOK` (block-scoped C
    # declarations and the hoisted function-level slots of the LLVM back end cannot be told apart: every use is
    # in scope and no variable is read after an inner declaration of the same name clobbered its slot) and
    # `hoistConsistent` (one type per name). With the theorem: for every input, fuel and state the scoped (C)
    # and the flat (LLVM) reading of the kernel give the same outcome.
    sc = drv.batch(["CERT scope " + sx(export(pr.module)) for pr in prepared])
    for pr, rep in zip(prepared, sc):
        if not isinstance(rep, list) or not all(isinstance(x, list) and len(x) == 2 for x in rep):
            chk.unproved_obligation("correspondence:ir-reader", "CERT scope failed", pr.case())
            continue
        for scope_ok, hoist_ok in rep:
            chk.count("kernel_fn_scopeOK_" + str(scope_ok))
            if scope_ok != "true" or hoist_ok != "true":
                chk.unproved_obligation("theorem-hypothesis:scoped_eq_flat(scopeOK, hoistConsistent)",
                                        "an emitted kernel uses a variable outside its C scope, reads a variable after an inner declaration "
                                        "of the same name, or declares one name with two types: block-scoped C and hoisted LLVM slots may differ",
                                        pr.case(scopeOK=scope_ok, hoistConsistent=hoist_ok))
    if quick:
        # keep the F10-shaped ones and a sample of the rest
        special = [p for p in prepared if p.text in LITERAL_CHAINS or right_nested_float_sum(p.assignment) or any(len(repr(v).replace(".", "").lstrip("0")) >= 16 for v in _float_literals(p.assignment))]
        rest = [p for p in prepared if p not in special]
        prepared = special[:20] + rng.sample(rest, min(len(rest), 30))
    # certificates
    certs = drv.batch(["CERT hoist " + sx(export(pr.module)) for pr in prepared])
    for pr, c in zip(prepared, certs):
        chk.count("hoistConsistent_" + str(c))
        if c != "true":
            chk.violation("a variable is declared with two different types (LLVM back end hoists declarations)", pr.case())
    # hypotheses of `cprint_parse` on every emitted kernel: Layered (the C text parses to leftAssoc of the
    # tree) and LeftNested (then leftAssoc is the identity: the C text denotes exactly the tree)
    lay = drv.batch(["CERT layered " + sx(export(pr.module)) for pr in prepared])
    for pr, rep in zip(prepared, lay):
        if not isinstance(rep, list) or not all(isinstance(x, list) and len(x) == 4 for x in rep):
            chk.unproved_obligation("correspondence:ir-reader", "CERT layered failed", pr.case())
            continue
        for layered, leftnested, strict, idents in rep:
            chk.count("kernel_fn_layered_" + str(layered))
            chk.count("kernel_fn_leftNested_" + str(leftnested))
            if layered != "true":
                chk.unproved_obligation("theorem-hypothesis:cprint_parse(Layered)", "an emitted kernel contains an expression outside the fragment "
                                        "on which the C printer is proved faithful", pr.case())
            if leftnested != "true" and not right_nested_float_sum(pr.assignment):
                # re-association by C that does not come from a right-nested user expression
                chk.count("kernel_fn_reassociated_not_from_user_expression")
    items = []
    for pr in prepared:
        for _ in range(2 if quick else 4):
            sizes = problems.index_sizes(pr.assignment, rng, (1, 2, 3))
            ins = {}
            for name, t in pr.tensors_of().items():
                dims = tuple(sizes[i] for i in t.indexes)
                ins[name] = (problems.random_input(rng, dims, rng.choice([0.5, 1.0]), values=VALUES), dims)
            items.append((pr, sizes, ins))
        if right_nested_float_sum(pr.assignment):
            # directed inputs: absorption (1 + 1e16 - 1e16) and inexact products expose re-association
            for vals in ([1.0, 1e16, -1e16], [0.1, 0.2, 0.3], [1e16, -1e16, 1.0], [3.0, 0.1, 1e-7]):
                sizes = problems.index_sizes(pr.assignment, rng, (1,))
                ins = {}
                for k, (name, t) in enumerate(pr.tensors_of().items()):
                    dims = tuple(sizes[i] for i in t.indexes)
                    ins[name] = ({tuple(0 for _ in dims): vals[k % len(vals)]}, dims)
                items.append((pr, sizes, ins))
    runs = kruns.machine_runs(drv, items, kinds=("evaluate",))
    by_pr = {}
    for (pr, sizes, ins), r in zip(items, runs):
        by_pr.setdefault(id(pr), (pr, []))[1].append((sizes, ins, r))
    for pr, lst in by_pr.values():
        inputs_list = [ins for _, ins, _ in lst]
        res_l = WORKER.run(pr.text, pr.fs, inputs_list, "llvm", timeout=240)
        res_c = WORKER.run(pr.text, pr.fs, inputs_list, "cffi", timeout=240)
        for which, res in (("llvm", res_l), ("cffi", res_c)):
            if res[0] != "ok":
                chk.violation(f"{which} back end: {res[0]} {res[1:3]}", pr.case(*lst[0][:2]))
        if res_l[0] != "ok" or res_c[0] != "ok":
            continue
        for (sizes, ins, r), ol, oc in zip(lst, res_l[1], res_c[1]):
            case = pr.case(sizes, ins)
            chk.case((pr.key(), json.dumps(sorted((n, sorted(cv.items())) for n, (cv, _) in ins.items()))) if any(len(cv) for cv, _ in ins.values()) else None, sample=case)
            chk.count("three_way_runs")
            if ol[0] != "ok" or oc[0] != "ok":
                chk.violation(f"back end call failed: llvm={ol[:3]} c={oc[:3]}", case)
                continue
            rl, rc = kernels.Raw(*ol[1:6]), kernels.Raw(*oc[1:6])
            mr = r.raw_evaluate
            if mr is None:
                # non-finite intermediate results stop the machine (nonFinite); compare the two back ends only
                chk.count("machine_no_result")
            same_lc = rl.levels == rc.levels and [bits(v) for v in rl.vals] == [bits(v) for v in rc.vals]
            if not same_lc:
                f = chk.match_known(lambda f: f.get("signature", {}).get("predicate") == "right-nested-same-precedence" and right_nested_float_sum(pr.assignment))
                if f:
                    chk.known(f["id"], f["what"])
                else:
                    chk.violation("C and LLVM back ends disagree", case, expected={"llvm": [rl.levels, rl.vals]}, got={"c": [rc.levels, rc.vals]})
            if mr is not None:
                if not (mr.levels == rl.levels and [bits(v) for v in mr.vals] == [bits(v) for v in rl.vals]):
                    chk.violation("LLVM back end disagrees with the direct execution of the IR", case,
                                  expected={"ir": [mr.levels, mr.vals]}, got={"llvm": [rl.levels, rl.vals]})
                if not (mr.levels == rc.levels and [bits(v) for v in mr.vals] == [bits(v) for v in rc.vals]):
                    f = chk.match_known(lambda f: f.get("signature", {}).get("predicate") == "right-nested-same-precedence" and right_nested_float_sum(pr.assignment))
                    if f:
                        chk.known(f["id"], f["what"])
                    else:
                        chk.violation("C back end disagrees with the direct execution of the IR", case,
                                      expected={"ir": [mr.levels, mr.vals]}, got={"c": [rc.levels, rc.vals]})
    hoisting_part(chk, prepared)
    printer_part(chk, drv, prepared)


def all_expressions(stmt, out):
    """collect every maximal expression of a statement tree"""
    from tensora.ir import ast as ir

    if isinstance(stmt, ir.Block):
        for s in stmt.statements:
            all_expressions(s, out)
    elif isinstance(stmt, ir.Branch):
        out.append(stmt.condition)
        all_expressions(stmt.if_true, out)
        all_expressions(stmt.if_false, out)
    elif isinstance(stmt, ir.Loop):
        out.append(stmt.condition)
        all_expressions(stmt.body, out)
    elif isinstance(stmt, ir.Assignment):
        out.append(stmt.target)
        out.append(stmt.value)
    elif isinstance(stmt, ir.DeclarationAssignment):
        out.append(stmt.value)
    elif isinstance(stmt, ir.Return):
        out.append(stmt.value)
    elif isinstance(stmt, ir.Expression):
        out.append(stmt)


def float_reprs(node):
    """table (bits, str(value)) of every float literal below an IR node"""
    import dataclasses

    from tensora.ir import ast as ir

    from ..export import fbits

    out = {}

    def walk(x):
        if isinstance(x, ir.FloatLiteral):
            out[fbits(x.value)] = str(x.value)
        elif dataclasses.is_dataclass(x) and not isinstance(x, type):
            for f in dataclasses.fields(x):
                walk(getattr(x, f.name))
        elif isinstance(x, (list, tuple)):
            for y in x:
                walk(y)

    walk(node)
    return [[Atom(str(k)), v] for k, v in out.items()]


def printer_part(chk: Check, drv: Driver, prepared):
    """ir_to_c_expression / ir_to_c_statement vs the Lean port, on kernel expressions and typed trees"""
    from tensora.codegen._ir_to_c import ir_to_c_expression, ir_to_c_statement

    from .c07 import grow, leaves

    rng = chk.rng
    exprs = []
    for pr in prepared[:40]:
        for f in pr.module.definitions:
            all_expressions(f.body, exprs)
    ints, floats, bools = leaves()
    i1, f1, b1 = grow(ints, floats, bools)
    i2, f2, b2 = grow(ints + i1, floats + f1, bools + b1, rng, 600 if chk.tier == "quick" else 6000)
    exprs += ints + floats + bools + i1 + f1 + b1 + i2 + f2 + b2
    replies = drv.batch(["CPRINTE " + sx(export(e)) + " " + sx(float_reprs(e)) for e in exprs])
    mism = 0
    for e, rep in zip(exprs, replies):
        want = ir_to_c_expression(e)
        if rep != want:
            mism += 1
            chk.unproved_obligation("correspondence:ir_to_c_expression", f"model {rep!r} vs code {want!r}", {"tree": sx(export(e))[:600]})
    chk.corr("ir_to_c_expression", len(exprs), mism)
    # whole kernels: statement printer
    reqs, wants = [], []
    for pr in prepared[:40]:
        for f in pr.module.definitions:
            reqs.append("CPRINTS " + sx(export(f.body)) + " " + sx(float_reprs(f.body)))
            wants.append(("\n".join(ir_to_c_statement(f.body)), pr))
    mism = 0
    for (want, pr), rep in zip(wants, drv.batch(reqs)):
        if rep != want:
            mism += 1
            chk.unproved_obligation("correspondence:ir_to_c_statement", "model and code print a kernel body differently",
                                    pr.case(model=str(rep)[:400], code=want[:400]))
    chk.corr("ir_to_c_statement", len(reqs), mism)
    # statement printer off the kernels' beaten track: compound-assignment sugar in every position,
    # declarations of every type, else-if chains, empty blocks, comments, allocation statements
    from tensora.ir import ast as ir
    from tensora.ir import types

    from .c07 import statements

    stmts = statements(rng, ints + i1[:60], floats + f1[:60], bools + b1[:60], 300 if chk.tier == "quick" else 3000)
    targets = [ir.Variable("i"), ir.Variable("x"), ir.ArrayIndex(ir.Variable("A"), ir.Variable("i")),
               ir.AttributeAccess(ir.Variable("t"), "vals"), ir.ArrayIndex(ir.Variable("A"), ir.Add(ir.Variable("i"), ir.IntegerLiteral(1)))]
    others = [ir.Variable("j"), ir.IntegerLiteral(1), ir.IntegerLiteral(2), ir.FloatLiteral(1.0), ir.Add(ir.Variable("i"), ir.IntegerLiteral(1)),
              ir.Multiply(ir.Variable("j"), ir.Variable("k")), ir.Subtract(ir.Variable("j"), ir.IntegerLiteral(1))]
    for t in targets:
        for cls in (ir.Add, ir.Subtract, ir.Multiply):
            for o in others + targets:
                stmts.append(ir.Assignment(t, cls(t, o)))
                stmts.append(ir.Assignment(t, cls(o, t)))
                stmts.append(ir.Assignment(t, cls(o, ir.IntegerLiteral(1))))
                stmts.append(ir.Assignment(t, cls(o, o)))
    all_types = [types.boolean, types.integer, types.float, types.tensor, types.mode]
    all_types += [types.Pointer(x) for x in all_types] + [types.Pointer(types.Pointer(types.integer)), types.Array(types.integer),
                                                            types.Array(types.Pointer(types.float)), types.FixedArray(types.integer, 3),
                                                            types.Pointer(types.Array(types.float)), types.FixedArray(types.Pointer(types.mode), 2)]
    for ty in all_types:
        stmts.append(ir.Declaration(ir.Variable("v"), ty))
    for ty in (types.integer, types.float):
        stmts.append(ir.Assignment(ir.Variable("A"), ir.ArrayAllocate(ty, ir.Add(ir.Variable("n"), ir.IntegerLiteral(1)))))
        stmts.append(ir.Assignment(ir.Variable("A"), ir.ArrayReallocate(ir.Variable("A"), ty, ir.Multiply(ir.Variable("n"), ir.IntegerLiteral(2)))))
        stmts.append(ir.DeclarationAssignment(ir.Declaration(ir.Variable("B"), types.Pointer(ty)), ir.ArrayAllocate(ty, ir.Variable("n"))))
    c1, c2, c3 = ir.LessThan(ir.Variable("i"), ir.Variable("n")), ir.Equal(ir.Variable("i"), ir.IntegerLiteral(0)), ir.BooleanLiteral(True)
    s1, s2 = ir.Assignment(ir.Variable("i"), ir.Add(ir.Variable("i"), ir.IntegerLiteral(1))), ir.Return(ir.IntegerLiteral(0))
    stmts += [ir.Branch(c1, s1, ir.Branch(c2, s2, ir.Branch(c3, s1, ir.Block([])))), ir.Branch(c1, ir.Block([s1]), ir.Branch(c2, ir.Block([s2]), ir.Block([s1]))),
              ir.Branch(c1, ir.Block([]), ir.Block([], "else comment")), ir.Branch(c1, ir.Block([], "c"), ir.Block([])),
              ir.Block([ir.Block([s1], "inner"), s2, ir.Block([]), ir.Block([s1]), s1], "outer"), ir.Block([s1, ir.Block([s2]), ir.Block([s1], "x")]),
              ir.Loop(c1, ir.Block([ir.Branch(c2, s1, ir.Block([])), ir.Loop(c3, ir.Block([]))]))]
    reps = drv.batch(["CPRINTS " + sx(export(st)) + " " + sx(float_reprs(st)) for st in stmts])
    mism = 0
    for st, rep in zip(stmts, reps):
        try:
            want = "\n".join(ir_to_c_statement(st))
        except Exception as e:  # noqa: BLE001
            want = f"<raised {type(e).__name__}>"
        if rep != want:
            mism += 1
            chk.unproved_obligation("correspondence:ir_to_c_statement", f"model {str(rep)[:200]!r} vs code {want[:200]!r}", {"tree": sx(export(st))[:600]})
    chk.corr("ir_to_c_statement(typed trees)", len(stmts), mism)
    # whole modules: function headers, parameter lists, blank lines between functions — the text
    # generate_code(..., Language.c) and the CLI return
    from tensora.codegen import ir_to_c

    reqs, wants = [], []
    for pr in prepared:
        reqs.append("CPRINTM " + sx(export(pr.module)) + " " + sx(float_reprs(pr.module)))
        wants.append((ir_to_c(pr.module), pr))
    mism = 0
    for (want, pr), rep in zip(wants, drv.batch(reqs)):
        if rep != want:
            mism += 1
            chk.unproved_obligation("correspondence:ir_to_c(module)", "model and code print a module differently", pr.case(model=str(rep)[:300], code=want[:300]))
    chk.corr("ir_to_c(module)", len(reqs), mism)


def replay(chk: Check, drv: Driver, path: str):
    run(chk, drv)


def allocas_outside_entry(llvm_text: str) -> list[str]:
    """names of the functions of an LLVM module that execute an `alloca` outside their entry block. The LLVM back end
    gives every IR variable ONE function-level slot ("declarations hoisted to function-level allocas"): an alloca in
    any other block is re-executed by the loops around it and is never released before the function returns."""
    bad, fn, block_no = [], None, 0
    for line in llvm_text.splitlines():
        ls = line.strip()
        if ls.startswith("define "):
            fn = ls.split("@", 1)[1].split("(", 1)[0].strip('"')
            block_no = 0
        elif ls == "}":
            fn = None
        elif fn is not None:
            if ls.endswith(":") and not ls.startswith(";"):
                block_no += 1
            elif " alloca " in f" {ls} " and block_no > 1 and fn not in bad:
                bad.append(fn)
    return bad


def hoisting_part(chk: Check, prepared):
    """(1) certificate on the LLVM text of every prepared problem: every alloca sits in the entry block;
    (2) stack-stress runs on the real LLVM back end: sparse kernels with ~20 000 stored entries executed in a thread
    with a 256 KiB stack — constant stack use passes, stack use proportional to the iteration count crashes."""
    from tensora.generate import Language, generate_code
    from tensora.kernel_type import KernelType

    n = bad = 0
    for pr in prepared:
        try:
            text = generate_code(pr.problem, [KernelType.evaluate, KernelType.assemble, KernelType.compute], Language.llvm).unwrap()
        except Exception:  # noqa: BLE001 - refusals / known internal errors are C08's concern
            continue
        n += 1
        where = allocas_outside_entry(text)
        if where:
            bad += 1
            chk.unproved_obligation("certificate:allocas-in-entry-block(hoisted declarations)",
                                    "the LLVM module allocates a variable slot outside the entry block of " + ", ".join(where) +
                                    ": the slot is re-allocated by every execution of that block and never released (stack grows with the iteration count)",
                                    pr.case())
    chk.corr("llvm-allocas-in-entry-block", n, bad)
    # stack stress (also the failing-input search for the certificate above)
    m = 150
    p_in = ({(k,): float(k % 7 + 1) for k in range(m)}, (m,))
    big = ({(k,): float(k % 5 + 1) for k in range(0, 40000, 2)}, (40000,))
    stress = [("a(i,j) = p(i) * q(j)", {"a": "ss", "p": "s", "q": "s"}, {"p": p_in, "q": p_in}),
              ("a(i) = b(i) + c(i)", {"a": "s", "b": "s", "c": "s"}, {"b": big, "c": big}),
              ("a(i) = b(i) * c(i)", {"a": "d", "b": "s", "c": "s"}, {"b": big, "c": big})]
    for text, fs, ins in stress:
        res = WORKER.run(text, fs, [ins], "llvm", timeout=300, stack=256 * 1024)
        chk.count("stack_stress_runs")
        case = {"assignment": text, "formats": fs, "stored_entries": {k_: len(v[0]) for k_, v in ins.items()}, "thread_stack_bytes": 256 * 1024}
        if res[0] == "crash":
            chk.violation(f"LLVM kernel crashes (signal {res[1]}) on a moderately large input when run on a 256 KiB stack: its stack use grows with the iteration count", case)
        elif res[0] != "ok" or res[1][0][0] != "ok":
            chk.violation(f"LLVM kernel failed in the stack-stress run: {str(res)[:200]}", case)


def _f10_shaped(e) -> bool:
    """the C printer drops the parentheses of `x + (y ± z)` and `x * (y * z)` (finding F10)"""
    import dataclasses

    from tensora.ir import ast as ir

    if isinstance(e, ir.Add) and isinstance(e.right, (ir.Add, ir.Subtract)):
        return True
    if isinstance(e, ir.Multiply) and isinstance(e.right, ir.Multiply):
        return True
    if dataclasses.is_dataclass(e):
        return any(_f10_shaped(getattr(e, f.name)) for f in dataclasses.fields(e) if isinstance(getattr(e, f.name), ir.Expression))
    return False


def operator_part(chk: Check, drv: Driver):
    """operator-level differential of the three executions of the IR: typed expression trees over scalar
    variables (every arithmetic / comparison / boolean / min / max / BooleanToInteger constructor, mixed int-float
    operands, depth <= 2) are compiled as `return e` functions through ir_to_llvm + MCJIT and through ir_to_c + gcc,
    and evaluated on the Lean IR machine; wherever the machine evaluates without error (no int32 overflow, finite
    floats) the three results must be bit-identical. The kernels exercise several constructors in one place
    only (Max: capacity growth; Or: nowhere); this part exercises all of them on all operand types."""
    import ctypes
    import struct
    import tempfile

    from cffi import FFI
    from tensora.codegen import ir_to_c
    from tensora.compile._compile_cffi import taco_define_header
    from tensora.compile._compile_llvm import compile_module
    from tensora.ir import ast as ir
    from tensora.ir import types

    from ..export import fbits
    from .c07 import grow

    rng = chk.rng
    quick = chk.tier == "quick"
    ints = [ir.IntegerLiteral(v) for v in (0, 1, 2, -3)] + [ir.Variable("i"), ir.Variable("j")]
    floats = [ir.FloatLiteral(v) for v in (0.0, 1.0, 2.5, 0.1, -0.0)] + [ir.Variable("x"), ir.Variable("y")]
    bools = [ir.BooleanLiteral(True), ir.BooleanLiteral(False), ir.LessThan(ir.Variable("i"), ir.Variable("j")),
             ir.Equal(ir.Variable("x"), ir.Variable("y")), ir.GreaterThanOrEqual(ir.Variable("i"), ir.Variable("x"))]
    i1, f1, b1 = grow(ints, floats, bools)
    i2, f2, b2 = grow(ints + i1, floats + f1, bools + b1, rng, 500 if quick else 5000)
    pool = [(e, "i") for e in i1 + i2] + [(e, "f") for e in f1 + f2] + [(ir.BooleanToInteger(e), "i") for e in b1 + b2]
    if quick and len(pool) > 1500:
        keep = [(e, t) for e, t in pool if any(isinstance(e, c) or isinstance(getattr(e, "expression", None), c) for c in (ir.Max, ir.Min, ir.Or, ir.And))]
        pool = keep[:500] + rng.sample(pool, 1000)
    params = [ir.Declaration(ir.Variable("i"), types.integer), ir.Declaration(ir.Variable("j"), types.integer),
              ir.Declaration(ir.Variable("x"), types.float), ir.Declaration(ir.Variable("y"), types.float)]
    # operand-type combinations the LLVM lowering does not implement (the generator never emits them: mixed
    # int/float min/max, comparisons of booleans, ...) are left out and counted
    import llvmlite.binding as llvmb
    from tensora.codegen import ir_to_llvm

    accepted = []
    for e, t in pool:
        try:
            one = ir_to_llvm(ir.Module([ir.FunctionDefinition(ir.Variable("f"), params, types.integer if t == "i" else types.float, ir.Block([ir.Return(e)]))]))
            llvmb.parse_assembly(str(one)).verify()
            accepted.append((e, t))
        except Exception as ex:  # noqa: BLE001
            chk.count("operator_shapes_not_implemented_by_llvm_lowering_" + type(ex).__name__)
    pool = accepted
    funcs = [ir.FunctionDefinition(ir.Variable(f"f{k}"), params, types.integer if t == "i" else types.float, ir.Block([ir.Return(e)]))
             for k, (e, t) in enumerate(pool)]
    module = ir.Module(funcs)
    # LLVM
    try:
        engine = compile_module(module)
    except Exception as e:  # noqa: BLE001
        chk.violation(f"the LLVM back end cannot compile a module of typed expression functions: {type(e).__name__}: {str(e)[:300]}", {"functions": len(funcs)})
        return
    # C
    ffi = FFI()
    sigs = "\n".join(f"{'int32_t' if t == 'i' else 'double'} f{k}(int32_t i, int32_t j, double x, double y);" for k, (_, t) in enumerate(pool))
    ffi.cdef(sigs)
    src = ir_to_c(module).replace("int32_t restrict", "int32_t").replace("double restrict", "double")
    ffi.set_source("verif_ops", "#include <stdint.h>\n" + taco_define_header + src, extra_compile_args=["-O1", "-w"])
    with tempfile.TemporaryDirectory(prefix="verif_c06_ops_") as td:
        try:
            lib = ffi.dlopen(ffi.compile(tmpdir=td))
        except Exception as e:  # noqa: BLE001
            chk.violation(f"the C printed for typed expression functions does not compile: {str(e)[:300]}", {"functions": len(funcs)})
            return
        I = [0, 1, -1, 2, 3, 7, -5, 46341, 2147483647, -2147483648]
        Fl = [0.0, -0.0, 1.0, 0.5, 2.5, -3.0, 0.1, 3.0, 1e300, 1e-300, 100000.0, 1.0 / 3.0]
        envs_ = [(rng.choice(I), rng.choice(I), rng.choice(Fl), rng.choice(Fl)) for _ in range(5)] + [(2, 2, 0.1, 0.1), (0, -1, -0.0, 0.0)]
        reqs = []
        for e, _ in pool:
            for (i, j, x, y) in envs_:
                env = [Atom("env"), [Atom("var"), "i", [Atom("Integer")], i], [Atom("var"), "j", [Atom("Integer")], j],
                       [Atom("var"), "x", [Atom("Float")], [Atom("f"), fbits(x)]], [Atom("var"), "y", [Atom("Float")], [Atom("f"), fbits(y)]]]
                reqs.append(f"RUNENV 5 {sx(export(ir.Return(e)))} {sx(env)}")
        replies = drv.batch(reqs)
        n = bad = skipped = 0
        for k, (e, t) in enumerate(pool):
            addr = engine.get_function_address(f"f{k}")
            cf = ctypes.CFUNCTYPE(ctypes.c_int32 if t == "i" else ctypes.c_double, ctypes.c_int32, ctypes.c_int32, ctypes.c_double, ctypes.c_double)(addr)
            for m, (i, j, x, y) in enumerate(envs_):
                rep = replies[k * len(envs_) + m]
                if not (isinstance(rep, list) and rep and rep[0] == "ok"):
                    skipped += 1  # int32 overflow / non-finite / type error on the machine: outside the comparison
                    continue
                ret = rep[1][1]
                if t == "i":
                    if isinstance(ret, list):
                        skipped += 1
                        continue
                    want = int(ret)
                    got_l, got_c = int(cf(i, j, x, y)), int(getattr(lib, f"f{k}")(i, j, x, y))
                    same = want == got_l == got_c
                else:
                    if not (isinstance(ret, list) and ret[0] == "f"):
                        skipped += 1
                        continue
                    want = int(ret[1])
                    got_l = struct.unpack("<Q", struct.pack("<d", cf(i, j, x, y)))[0]
                    got_c = struct.unpack("<Q", struct.pack("<d", getattr(lib, f"f{k}")(i, j, x, y)))[0]
                    same = want == got_l == got_c
                    if not same and want == got_l and {want, got_c} == {0, 1 << 63}:
                        # +0.0 vs -0.0 from the C compiler only: gcc 12 folds `0.0 - (double)j` to `-(double)j` even at -O0
                        # (clang does not); an artefact of the external tool on a shape the generator never emits
                        chk.count("operator_level_c_compiler_sign_of_zero")
                        same = True
                n += 1
                if not same and want == got_l and _f10_shaped(e):
                    f = chk.match_known(lambda f: f.get("signature", {}).get("predicate") == "right-nested-same-precedence")
                    if f:
                        chk.known(f["id"], f["what"])
                        chk.count("operator_level_f10_reassociated_by_c")
                        continue
                if not same:
                    bad += 1
                    chk.violation("the three executions of an IR expression disagree (IR machine / LLVM back end / C back end)",
                                  {"tree": sx(export(e))[:500], "i": i, "j": j, "x": x, "y": y}, expected={"ir_machine": want}, got={"llvm": got_l, "c": got_c})
                    if bad > 5:
                        break
            if bad > 5:
                break
        chk.count("operator_level_evaluations", n)
        chk.count("operator_level_skipped_machine_error", skipped)
        chk.corr("operator-level(ir-machine,llvm,c)", n, bad)
        del lib
