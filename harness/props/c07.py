"""C07 — peephole optimisation never changes what a kernel computes.

Theorems (Lean, Props/C07.lean): peephole soundness on the IR machine for all programs/states.
Correspondence: tensora.ir.peephole (Python)  vs  peepE/peepS/peepM (Lean), exact tree equality, on
 (a) every kernel generated for the problem enumeration (before vs after optimisation),
 (b) typed expression trees (depth<=1 exhaustive, deeper sampled / thorough: depth 2),
 (c) statement trees.
Semantic oracle (always on): original vs *Python-optimised* program on the Lean machine over small
environments; verdicts other than same / retyped-but-numerically-equal are violations
(`alt-overflow` is the known finding F8).
"""
from __future__ import annotations

import ast as pyast
import itertools
import json

from ..core import Atom, Check, Driver, REPO, sx
from ..export import export, fbits
from .. import kernels, problems
from ..gen import fmt_str


# ----------------------------------------------------------------------------------------------
# typed tree generation
# ----------------------------------------------------------------------------------------------
def harvest_constants():
    """numeric/boolean literals occurring in _peephole.py, added to the leaf alphabet."""
    src = (REPO / "src/tensora/ir/_peephole.py").read_text()
    ints, floats = set(), set()
    for node in pyast.walk(pyast.parse(src)):
        if isinstance(node, pyast.UnaryOp) and isinstance(node.op, pyast.USub) and isinstance(node.operand, pyast.Constant):
            v = node.operand.value
            if isinstance(v, bool):
                continue
            if isinstance(v, int) and abs(v) < 2**31:
                ints.add(-v)
            elif isinstance(v, float):
                floats.add(-v)
        if isinstance(node, pyast.Constant):
            v = node.value
            if isinstance(v, bool):
                continue
            if isinstance(v, int) and abs(v) < 2**31:
                ints.add(v)
            elif isinstance(v, float):
                floats.add(v)
    return sorted(ints), sorted(floats)


def leaves():
    from tensora.ir import ast as ir

    hi, hf = harvest_constants()
    ints = [ir.IntegerLiteral(v) for v in sorted(set([0, 1, 2, -1] + hi))] + [ir.Variable("i"), ir.Variable("j"),
                                                                           ir.ArrayIndex(ir.Variable("A"), ir.Variable("i"))]
    floats = [ir.FloatLiteral(v) for v in sorted(set([0.0, 1.0, -1.0, 2.5, 0.30000000000000004, 1e-07, 6.0221407600000005e23] + hf))] + [ir.FloatLiteral(-0.0), ir.Variable("x"), ir.Variable("y"),
                                                                               ir.ArrayIndex(ir.Variable("X"), ir.Variable("j"))]
    bools = [ir.BooleanLiteral(True), ir.BooleanLiteral(False), ir.Variable("b")]
    return ints, floats, bools


def grow(ints, floats, bools, rng=None, limit=None):
    """one more level of every typed constructor over the given typed pools"""
    from tensora.ir import ast as ir

    arith = [ir.Add, ir.Subtract, ir.Multiply, ir.Max, ir.Min]
    cmps = [ir.Equal, ir.NotEqual, ir.GreaterThan, ir.LessThan, ir.GreaterThanOrEqual, ir.LessThanOrEqual]
    nums = [(e, "i") for e in ints] + [(e, "f") for e in floats]
    pairs = itertools.product(nums, nums)
    bpairs = list(itertools.product(bools, bools))
    if limit is not None:
        pairs = [(rng.choice(nums), rng.choice(nums)) for _ in range(limit)]
        bpairs = [(rng.choice(bools), rng.choice(bools)) for _ in range(max(8, limit // 20))]
    ni, nf, nb = [], [], []
    for (l, lt), (r, rt) in pairs:
        for op in arith:
            (ni if lt == "i" and rt == "i" else nf).append(op(l, r))
        for op in cmps:
            nb.append(op(l, r))
    for l, r in bpairs:
        nb.append(ir.And(l, r))
        nb.append(ir.Or(l, r))
        nb.append(ir.Equal(l, r))
    for b in bools:
        ni.append(ir.BooleanToInteger(b))
    return ni, nf, nb


def envs(rng, n, sensitive=True):
    """small typed environments: i,j ints; x,y floats; b bool; A int array; X float array"""
    I = [0, 1, -1, 2, 3, 100000, 2147483647, -2147483648, 46341]
    Fl = [0.0, -0.0, 1.0, 0.5, 2.5, -3.0, 1e300, 100000.0]
    if sensitive:
        # values on which re-association / constant folding of floating-point operations changes the rounding
        Fl = Fl + [0.1, 3.0, 1.0 / 3.0, 1e-07, 1e-200, 7.0, 123456.789, 1e16, 0.7, 1e-300, 9007199254740993.0, 0.30000000000000004]
    out = []
    for _ in range(n):
        i, j = rng.choice(I[:3]), rng.choice(I)
        if rng.random() < 0.25:
            i, j = rng.choice(I), rng.choice(I[:3])
        A = [rng.choice([0, 1, 5, 2147483647]) for _ in range(3)]
        X = [rng.choice(Fl) for _ in range(3)]
        cells_a = [a if rng.random() < 0.97 else Atom("u") for a in A]
        cells_x = [[Atom("f"), fbits(v)] if rng.random() < 0.97 else Atom("u") for v in X]
        env = [Atom("env"),
               [Atom("var"), "i", [Atom("Integer")], i],
               [Atom("var"), "j", [Atom("Integer")], j],
               [Atom("var"), "x", [Atom("Float")], [Atom("f"), fbits(rng.choice(Fl))]],
               [Atom("var"), "y", [Atom("Float")], [Atom("f"), fbits(rng.choice(Fl))]],
               [Atom("var"), "b", [Atom("Boolean")], rng.random() < 0.5],
               [Atom("arr"), "A", [Atom("Integer")], cells_a],
               [Atom("arr"), "X", [Atom("Float")], cells_x]]
        out.append(env)
    return out


def statements(rng, ints, floats, bools, n):
    """statement trees of depth <= 2 over the given expression pools"""
    from tensora.ir import ast as ir
    from tensora.ir import types

    def simple():
        k = rng.randrange(9)
        if k == 0:
            return ir.Assignment(ir.Variable("i"), rng.choice(ints))
        if k == 1:
            return ir.Assignment(ir.Variable("x"), rng.choice(floats + ints))
        if k == 2:
            return ir.Assignment(ir.ArrayIndex(ir.Variable("X"), rng.choice(ints)), rng.choice(floats + ints))
        if k == 3:
            return ir.Assignment(ir.ArrayIndex(ir.Variable("A"), rng.choice(ints)), rng.choice(ints))
        if k == 4:
            return ir.DeclarationAssignment(ir.Declaration(ir.Variable("t"), types.float), rng.choice(floats + ints))
        if k == 5:
            return ir.DeclarationAssignment(ir.Declaration(ir.Variable("k"), types.integer), rng.choice(ints))
        if k == 6:
            return ir.Assignment(ir.Variable("b"), rng.choice(bools))
        if k == 7:
            v = rng.choice([ir.Variable("i"), ir.Variable("x"), ir.ArrayIndex(ir.Variable("A"), ir.Variable("i"))])
            return ir.Assignment(v, v)
        return ir.Return(rng.choice(ints + floats))

    def compound(depth):
        k = rng.randrange(6)
        sub = (lambda: simple()) if depth <= 1 else (lambda: compound(depth - 1) if rng.random() < 0.5 else simple())
        if k == 0:
            return ir.Block([sub() for _ in range(rng.randint(0, 3))], rng.choice([None, "c"]))
        if k == 1:
            return ir.Branch(rng.choice(bools), sub(), rng.choice([ir.Block([]), sub()]))
        if k == 2:
            # bounded loop on k
            body = ir.Block([sub(), ir.Assignment(ir.Variable("j"), ir.Add(ir.Variable("j"), ir.IntegerLiteral(1)))])
            return ir.Loop(ir.And(ir.LessThan(ir.Variable("j"), ir.IntegerLiteral(3)), rng.choice(bools)), body)
        if k == 3:
            return ir.Loop(rng.choice(bools), rng.choice([ir.Block([]), ir.Block([], "x"), sub()]))
        if k == 4:
            return ir.Branch(rng.choice(bools), ir.Block([]), ir.Block([]))
        return simple()

    return [compound(2) for _ in range(n)]


# ----------------------------------------------------------------------------------------------
def classify(chk: Check, verdicts, case_fn, model_verdicts=None):
    """verdicts: list (one per env) of driver verdict sexps for (original, PYTHON-optimised);
    model_verdicts: the same for (original, LEAN-optimised = the validated model of the unchanged optimiser)"""
    for k, v in enumerate(verdicts):
        tag = v[0] if isinstance(v, list) else str(v)
        chk.count("verdict_" + str(tag))
        if tag in ("same", "retyped", "orig-fails"):
            continue
        if tag == "alt-overflow":
            # finding F8 is known only where the unchanged optimiser (its Lean model) overflows as well
            mv = model_verdicts[k] if model_verdicts is not None and k < len(model_verdicts) else None
            mtag = mv[0] if isinstance(mv, list) else str(mv)
            f = chk.match_known(lambda f: f.get("signature", {}).get("predicate") == "optimised-int32-overflow") if mtag == "alt-overflow" else None
            if f:
                chk.known(f["id"], f["what"])
            else:
                chk.violation("optimised program overflows int32 where the original runs safely", case_fn(k), got=sx(v))
            continue
        chk.violation("optimised program differs from the original", case_fn(k), got=sx(v)[:1500])


def check_trees(chk: Check, drv: Driver, trees, kind: str, n_envs: int, peep_cmd: str):
    """chunked so that request/reply lists stay small (the thorough tier walks several 10^5 trees)"""
    for i in range(0, len(trees), 8000):
        _check_trees(chk, drv, trees[i : i + 8000], kind, n_envs, peep_cmd)


def _check_trees(chk: Check, drv: Driver, trees, kind: str, n_envs: int, peep_cmd: str):
    from tensora.ir._peephole import peephole_expression, peephole_statement

    rng = chk.rng
    peep = peephole_expression if kind == "expr" else peephole_statement
    reqs, opts, envlists = [], [], []
    for t in trees:
        try:
            o = peep(t)
        except Exception as e:  # noqa: BLE001
            chk.violation(f"peephole raised {type(e).__name__}: {e}", {"tree": sx(export(t))})
            o = t
        opts.append(o)
        es = envs(rng, n_envs)
        envlists.append(es)
        reqs.append(f"{peep_cmd} {sx(export(t))}")
        reqs.append(f"EQUIV 50 {sx(export(t))} {sx(export(o))} {sx(es)}")
    replies = drv.batch(reqs)
    # second pass for the cases in which the Python-optimised program overflows: does the model's own
    # optimised program overflow too (finding F8), or is this a new rule?
    need = [k for k in range(len(trees)) if isinstance(replies[2 * k + 1], list)
            and any(isinstance(v, list) and v and v[0] == "alt-overflow" for v in replies[2 * k + 1])]
    model_equiv = {}
    if need:
        r2 = drv.batch([f"EQUIV 50 {sx(export(trees[k]))} {sx(replies[2 * k])} {sx(envlists[k])}" for k in need])
        model_equiv = dict(zip(need, r2))
    mism = 0
    for k, t in enumerate(trees):
        model = replies[2 * k]
        want = sx(export(opts[k]))
        if sx(model) != want:
            mism += 1
            chk.unproved_obligation(f"correspondence:peephole({kind})", f"python {want[:400]} vs lean {sx(model)[:400]}",
                                    {"tree": sx(export(t))})
        verd = replies[2 * k + 1]
        if not isinstance(verd, list) or (verd and verd[0] == "bad-request"):
            chk.unproved_obligation("correspondence:ir-reader", f"driver could not read tree: {sx(verd)[:200]}", {"tree": sx(export(t))})
            continue
        classify(chk, verd, lambda e, t=t, k=k: {"kind": kind, "tree": sx(export(t)), "optimised": sx(export(opts[k])), "env": sx(envlists[k][e])},
                 model_equiv.get(k))
        changed = sx(export(t)) != want
        chk.case((kind, sx(export(t))) if changed else None,
                 sample={"kind": kind, "tree": sx(export(t))[:300], "optimised": want[:300]} if changed else None)
        chk.count(kind + ("_changed" if changed else "_unchanged"))
    chk.corr(f"peephole-{kind}", len(trees), mism)
    if mism and not chk.violations:
        # failing-input search: the optimiser of the code differs from its validated model on some trees; run
        # those trees (original vs the code's optimised form) on many more environments, rounding-sensitive
        # floats included, before settling for "no failing input found"
        bad = [k for k in range(len(trees)) if sx(replies[2 * k]) != sx(export(opts[k]))][:40]
        es = envs(rng, 250, sensitive=True)
        r3 = drv.batch([f"EQUIV 50 {sx(export(trees[k]))} {sx(export(opts[k]))} {sx(es)}" for k in bad])
        for k, verd in zip(bad, r3):
            if isinstance(verd, list) and not (verd and verd[0] == "bad-request"):
                chk.count("failing_input_search_trees")
                classify(chk, verd, lambda e, k=k: {"kind": kind, "tree": sx(export(trees[k])), "optimised": sx(export(opts[k])), "env": sx(es[e]), "found_by": "directed search after a correspondence break"})


def kernel_part(chk: Check, drv: Driver):
    """(a) every generated kernel before vs after optimisation"""
    from tensora.ir import peephole

    rng = chk.rng
    texts = list(problems.CURATED)
    texts += [problems.random_assignment(rng) for _ in range(40 if chk.tier == "quick" else 400)]
    per = 3 if chk.tier == "quick" else 12
    n_prob = mism = 0
    reqs, meta = [], []
    for text in texts:
        a = problems.parse(text)
        if a is None:
            continue
        for fmts in problems.format_assignments(a, rng, per):
            p = problems.make_problem(a, fmts)
            if isinstance(p, Exception):
                continue
            try:
                m0 = kernels.generate_ir_module(p, ["evaluate", "assemble", "compute"], optimise=False)
            except kernels.Refusal:
                chk.count("kernel_refusals")
                continue
            except NotImplementedError:
                chk.count("kernel_internal_errors")
                continue
            m1 = peephole(m0)
            n_prob += 1
            fs = problems.fmt_dict_str(fmts)
            reqs.append("PEEPM " + sx(export(m0)))
            meta.append(("peep", text, fs, sx(export(m1)), None))
            reqs.append("CERT nofloatid " + sx(export(m0)))
            meta.append(("cert", text, fs, None, None))
            reqs.append("CERT noretype " + sx(export(m0)))
            meta.append(("cert_typed", text, fs, None, None))
            # run evaluate before/after on two random inputs
            sizes = problems.index_sizes(a, rng, choices=(0, 1, 2, 3))
            part = a.index_participants()
            tsx = []
            ok = True
            for name in p.formats.keys():
                modes, ordering = fmts[name]
                if name == a.target.name:
                    try:
                        dims = [sizes[i] for i in a.target.indexes]
                    except KeyError:
                        ok = False
                        break
                    tsx.append(kernels.empty_output_sx(name, dims, modes))
                else:
                    tn = [t for t in _tensors_of(a) if t.name == name][0]
                    dims = [sizes[i] for i in tn.indexes]
                    cv = problems.random_input(rng, dims)
                    tsx.append(kernels.Raw.of_tensor(kernels.make_tensor(cv, dims, modes, ordering)).heap_sx(name))
            if not ok:
                continue
            reqs.append(kernels.exec_request(m0.definitions[0], tsx))
            reqs.append(kernels.exec_request(m1.definitions[0], tsx))
            meta.append(("exec", text, fs, None, sx(tsx)))
    replies = drv.batch(reqs)
    ri = 0
    for kind, text, fs, want, heap in meta:
        if kind == "peep":
            got = sx(replies[ri])
            ri += 1
            bad = got != want
            mism += int(bad)
            if bad:
                chk.unproved_obligation("correspondence:peephole(kernel)", "python and lean optimisers disagree on a generated kernel",
                                        {"assignment": text, "formats": fs, "python": want[:500], "lean": got[:500]})
            chk.case(("kernel", text, json.dumps(fs, sort_keys=True)), sample={"kind": "kernel", "assignment": text, "formats": fs})
        elif kind == "cert":
            r = replies[ri]
            ri += 1
            if isinstance(r, list) and all(x in ("true", "false") for x in r):
                for x in r:
                    chk.count("kernel_fn_certified_stable" if x == "true" else "kernel_fn_not_certified")
            else:
                chk.unproved_obligation("correspondence:ir-reader", "CERT request failed", {"assignment": text, "formats": fs})
        elif kind == "cert_typed":
            # hypothesis of `peephole_func_sound_typed` (Props/C07Typed.lean): on the typed stable fragment the optimised
            # kernel yields EXACTLY the same state and return value (no overflow alternative). Real kernels whose float
            # identities sit on float-typed operands and whose `0 * e` has an int-typed `e` are in it.
            r = replies[ri]
            ri += 1
            if isinstance(r, list) and all(x in ("true", "false") for x in r):
                for x in r:
                    chk.count("kernel_fn_in_typed_stable_fragment" if x == "true" else "kernel_fn_outside_typed_stable_fragment")
            else:
                chk.unproved_obligation("correspondence:ir-reader", "CERT noretype failed", {"assignment": text, "formats": fs})
        else:
            r0, r1 = replies[ri], replies[ri + 1]
            ri += 2
            a0, a1 = kernels.MachineResult(r0), kernels.MachineResult(r1)
            chk.count("kernel_exec")
            if not a0.ok:
                chk.count("kernel_exec_orig_fails_" + str(a0.err))
                continue
            if not a1.ok:
                if a1.err == "intOverflow":
                    f = chk.match_known(lambda f: f.get("signature", {}).get("predicate") == "optimised-int32-overflow")
                    if f:
                        chk.known(f["id"], f["what"])
                        continue
                chk.violation("optimised kernel fails where the unoptimised one runs", {"assignment": text, "formats": fs, "heap": heap}, got=a1.err)
                continue
            if not _same_tensors(a0, a1):
                chk.violation("optimised kernel computes a different result", {"assignment": text, "formats": fs, "heap": heap},
                              expected=sx(r0)[:800], got=sx(r1)[:800])
    chk.corr("peephole-kernel", n_prob, mism)
    chk.count("kernel_problems", n_prob)
    if mism and not chk.violations:
        kernel_failing_input_search(chk, drv, [(t, f) for k_, t, f, _, _ in meta if k_ == "peep"][:400])


def kernel_failing_input_search(chk: Check, drv: Driver, problems_):
    """the optimiser of the code differs from its validated model on generated kernels: run unoptimised vs optimised evaluate
    kernels of the subtraction-bearing / sparse problems on many more inputs (varied densities, so that every branch of the
    co-iteration lattice — operand present / absent — is taken) before settling for 'no failing input found'"""
    from tensora.ir import peephole

    from ..gen import parse_fmt

    rng = chk.rng
    seen, reqs, meta = set(), [], []
    for text, fs in problems_:
        key = (text, json.dumps(fs, sort_keys=True))
        if key in seen or "-" not in text:
            continue
        seen.add(key)
        a = problems.parse(text)
        fmts = {n: parse_fmt(f) for n, f in fs.items()}
        p = problems.make_problem(a, fmts)
        if isinstance(p, Exception) or len(seen) > 60:
            continue
        try:
            m0 = kernels.generate_ir_module(p, ["evaluate"], optimise=False)
        except Exception:  # noqa: BLE001
            continue
        m1 = peephole(m0)
        for _ in range(10):
            sizes = problems.index_sizes(a, rng, choices=(1, 2, 3, 4))
            tsx, ok = [], True
            for name in p.formats.keys():
                modes, ordering = fmts[name]
                if name == a.target.name:
                    if any(i not in sizes for i in a.target.indexes):
                        ok = False
                        break
                    tsx.append(kernels.empty_output_sx(name, [sizes[i] for i in a.target.indexes], modes))
                else:
                    tn = [t for t in _tensors_of(a) if t.name == name][0]
                    dims = [sizes[i] for i in tn.indexes]
                    cv = problems.random_input(rng, dims, rng.choice([0.2, 0.5, 0.8, 1.0]))
                    tsx.append(kernels.Raw.of_tensor(kernels.make_tensor(cv, dims, modes, ordering)).heap_sx(name))
            if not ok:
                continue
            reqs.append(kernels.exec_request(m0.definitions[0], tsx))
            reqs.append(kernels.exec_request(m1.definitions[0], tsx))
            meta.append((text, fs, sx(tsx)))
    replies = drv.batch(reqs)
    for k, (text, fs, heap) in enumerate(meta):
        a0, a1 = kernels.MachineResult(replies[2 * k]), kernels.MachineResult(replies[2 * k + 1])
        chk.count("kernel_failing_input_search_runs")
        if a0.ok and a1.ok and not _same_tensors(a0, a1):
            chk.violation("optimised kernel computes a different result", {"assignment": text, "formats": fs, "heap": heap, "found_by": "directed search after a correspondence break"},
                          expected=sx(replies[2 * k])[:600], got=sx(replies[2 * k + 1])[:600])
            return


def _tensors_of(assignment):
    out = []
    for ts in assignment.expression.variables().values():
        out.extend(ts)
    return out


def _same_tensors(a0, a1):
    if a0.ret != a1.ret or a0.tensors.keys() != a1.tensors.keys():
        return False
    for name in a0.tensors:
        l0, v0 = a0.output_blocks(name)
        l1, v1 = a1.output_blocks(name)
        if l0 != l1:
            return False
        if (v0 is None) != (v1 is None):
            return False
        if v0 is not None:
            if v0[0] != v1[0] or len(v0[1]) != len(v1[1]):
                return False
            for x, y in zip(v0[1], v1[1]):
                if (x is None) != (y is None) or (x is not None and x != y):
                    return False
    return True


def run(chk: Check, drv: Driver):
    chk.cov["rule"] = (
        "typed IR expression trees over int {0,1,2,consts of _peephole.py,i,j,A[i]}, float {0.0,-0.0,1.0,2.5,x,y,X[j]}, "
        "bool {true,false,b}: depth<=1 exhaustive, deeper sampled (thorough: depth-2 with one leaf child exhaustive); "
        "statement trees depth<=2; every generated kernel (3 kinds) of the problem enumeration; "
        "distinct_nontrivial = distinct trees/kernels that the optimiser actually changes"
    )
    rng = chk.rng
    ints, floats, bools = leaves()
    i1, f1, b1 = grow(ints, floats, bools)
    depth1 = i1 + f1 + b1
    n_envs = 6 if chk.tier == "quick" else 10
    check_trees(chk, drv, ints + floats + bools + depth1, "expr", n_envs, "PEEPE")
    chk.count("depth1_exhaustive", len(depth1))
    # deeper
    n2 = 1600 if chk.tier == "quick" else 16000
    from tensora.ir import ast as ir

    # the shapes tensora's own lowering of subtraction produces (`a - b` is `a + -1 * b`) in every position, int and
    # float minus-one, both operand orders: where a rule that recognises a negation must not confuse its operands
    vars_ = [ir.Variable("i"), ir.Variable("j"), ir.Variable("x"), ir.Variable("y"), ir.ArrayIndex(ir.Variable("X"), ir.Variable("j")),
             ir.IntegerLiteral(0), ir.FloatLiteral(0.0), ir.FloatLiteral(2.5)]
    neg = []
    for m1 in (ir.IntegerLiteral(-1), ir.FloatLiteral(-1.0)):
        for a_ in vars_:
            for b_ in vars_:
                neg += [ir.Add(ir.Multiply(m1, a_), b_), ir.Add(a_, ir.Multiply(m1, b_)), ir.Add(ir.Multiply(a_, m1), b_), ir.Add(a_, ir.Multiply(b_, m1)),
                        ir.Subtract(ir.Multiply(m1, a_), b_), ir.Subtract(a_, ir.Multiply(m1, b_)), ir.Multiply(ir.Multiply(m1, a_), b_)]
    check_trees(chk, drv, neg, "expr", n_envs, "PEEPE")
    i2, f2, b2 = grow(ints + i1, floats + f1, bools + b1, rng, n2)
    check_trees(chk, drv, i2 + f2 + b2, "expr", n_envs, "PEEPE")
    i3, f3, b3 = grow(ints + i1 + i2[:500], floats + f1 + f2[:500], bools + b1 + b2[:500], rng, n2 // 4)
    check_trees(chk, drv, i3 + f3 + b3, "expr", n_envs, "PEEPE")
    if chk.tier == "thorough":
        # depth-2 trees with one leaf child, exhaustively
        li, lf, lb = grow(ints, floats, bools)

        allnum1 = [(e, "i") for e in i1] + [(e, "f") for e in f1]
        leafnum = [(e, "i") for e in ints] + [(e, "f") for e in floats]
        ex = []
        for (l, _), (r, _) in itertools.chain(itertools.product(allnum1, leafnum), itertools.product(leafnum, allnum1)):
            for op in (ir.Add, ir.Subtract, ir.Multiply, ir.Equal, ir.LessThan, ir.GreaterThanOrEqual, ir.Max):
                ex.append(op(l, r))
        for l, r in itertools.chain(itertools.product(b1, bools), itertools.product(bools, b1)):
            ex += [ir.And(l, r), ir.Or(l, r)]
        check_trees(chk, drv, ex, "expr", 3, "PEEPE")
        chk.count("depth2_one_leaf_exhaustive", len(ex))
    # statements
    ns = 2500 if chk.tier == "quick" else 30000
    stm = statements(rng, ints + i1[:200] + i2[:100], floats + f1[:200] + f2[:100], bools + b1[:200] + b2[:100], ns)
    check_trees(chk, drv, stm, "stmt", n_envs, "PEEPS")
    kernel_part(chk, drv)
    chk.assumptions += [
        "floats: the driver runs Lean Float (IEEE binary64); theorems are over an abstract carrier under FloatLaws",
        "NaN/inf literals are outside the generated alphabet (Python dataclass identity-equality quirk on NaN not modelled)",
    ]


def replay(chk: Check, drv: Driver, path: str):
    from tensora.ir._peephole import peephole_expression, peephole_statement

    v = json.loads(open(path).read())
    c = v.get("case") or {}
    if "tree" in c and "env" in c:
        r = drv.ask_raw(f"EQUIV 50 {c['tree']} {c['optimised']} ({c['env']})")
        classify(chk, r, lambda e: c)
        chk.case(("replay",), sample=c)
    else:
        run(chk, drv)
