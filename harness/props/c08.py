"""C08 — kernel generation is total: code, or one of the documented refusals.

Oracle on the real code: for every enumerated assignment x formats x kernel-kind subset x language,
generate_code / tensor_method / the CLI must return code or fail with a documented typed error
(DiagonalAccessError, NoKernelFoundError, BroadcastTargetIndexError for callable kernels), within a wall
limit, never with another exception or a traceback; returned C must pass `gcc -std=c11 -fsyntax-only`
under the published header and returned LLVM must parse and verify.
Model side: the Lean front half (parse, validate, make_problem, desugar) is total by construction (every
function is accepted by Lean's termination checker) and is compared with the code on the same requests.
"""
from __future__ import annotations

import concurrent.futures
import json
import os
import signal
import subprocess
import tempfile

from .. import kernels, kruns, problems
from ..core import Check, Driver
from ..gen import fmt_str

C_RESERVED = {
    "auto", "break", "case", "char", "const", "continue", "default", "do", "double", "else", "enum", "extern", "float", "for", "goto",
    "if", "inline", "int", "long", "register", "restrict", "return", "short", "signed", "sizeof", "static", "struct", "switch", "typedef",
    "union", "unsigned", "void", "volatile", "while", "bool", "true", "false", "malloc", "realloc", "free", "NULL",
}
DOCUMENTED = {"DiagonalAccessError", "NoKernelFoundError"}
COLLISION = "<generated-name-collision>"


def _ident_finding(f, reserved):
    """known findings about identifiers: F13 (a user name is a C keyword / allocator name) and F15 (two GENERATED
    names coincide: the bucket of a scalar target called pos/crd is `bucket_0_pos`/`bucket_0_crd`, which is also the
    level-0 array of an input tensor called `bucket`; Lean witness `bucket_name_collision`)"""
    p = f.get("signature", {}).get("predicate")
    if p == "reserved-identifier":
        return any(x in C_RESERVED for x in reserved)
    if p == "generated-name-collision":
        return COLLISION in reserved
    return False


def generated_name_collision(pr) -> bool:
    """the shape of F15: target named pos or crd, an operand named `bucket` whose level 0 is compressed (the
    coinciding name appears when a bucket without layer suffix is opened: order-0 target, or a contraction
    below the last output layer)"""
    a = pr.assignment
    if a.target.name not in ("pos", "crd"):
        return False
    fm = pr.fmts.get("bucket")
    return fm is not None and len(fm[0]) >= 1 and fm[0][0] == "s"


class Timeout(Exception):
    pass


def _alarm(_s, _f):
    raise Timeout()


def with_limit(fn, cpu_seconds=40, wall_seconds=600):
    """'never hangs' is decided on the CPU time of this process (ITIMER_PROF: a loaded machine does not
    make a terminating generation look like a hang; unchanged-tree generations need < 4 s of CPU), with
    a generous wall limit behind it for a generation that blocks without computing."""
    old_p = signal.signal(signal.SIGPROF, _alarm)
    old_a = signal.signal(signal.SIGALRM, _alarm)
    signal.setitimer(signal.ITIMER_PROF, cpu_seconds)
    signal.alarm(wall_seconds)
    try:
        return fn()
    finally:
        signal.setitimer(signal.ITIMER_PROF, 0)
        signal.alarm(0)
        signal.signal(signal.SIGPROF, old_p)
        signal.signal(signal.SIGALRM, old_a)


def gcc_syntax(code: str, td: str, k: int):
    from tensora.compile._cffi_ownership import taco_type_header
    from tensora.compile._compile_cffi import taco_define_header

    src = "#include <stdint.h>\n#include <stdlib.h>\n" + taco_define_header + taco_type_header.replace("void free(void *ptr);", "") + "\n" + code + "\n"
    path = os.path.join(td, f"k{k}.c")
    with open(path, "w") as f:
        f.write(src)
    r = subprocess.run(["gcc", "-std=c11", "-fsyntax-only", "-Wall", "-Wno-unused-variable", "-Wno-unused-but-set-variable",
                        "-Werror=implicit-function-declaration", path], capture_output=True, text=True)
    return r.returncode, r.stderr[:400]


def names_of(pr):
    out = {pr.assignment.target.name, *pr.assignment.target.indexes}
    for ts in pr.assignment.expression.variables().values():
        for t in ts:
            out.add(t.name)
            out.update(t.indexes)
    return out


def run(chk: Check, drv: Driver):
    import llvmlite.binding as llvm
    from returns.result import Success
    from typer.testing import CliRunner

    from tensora import tensor_method
    from tensora.cli import app
    from tensora.compile import BroadcastTargetIndexError
    from tensora.generate import Language, generate_code
    from tensora.kernel_type import KernelType

    chk.cov["rule"] = (
        "curated + seeded random assignments (+ an identifier stream incl. C keywords and library names) x sampled formats (every "
        "modes x ordering combination per tensor) x kind subsets {e, a, c, eac} x {c, llvm}, plus tensor_method and the CLI; "
        "distinct = (assignment, formats, kinds, language); non-trivial = code was produced"
    )
    quick = chk.tier == "quick"
    rng = chk.rng
    ident_texts = []
    for nm in ["int", "while", "malloc", "restrict", "double", "evaluate", "compute", "x9", "Zz", "bool", "free", "main", "order", "vals", "dimensions"]:
        ident_texts.append(f"{nm}(i) = b(i) * c(i)")
        ident_texts.append(f"a({nm}) = b({nm}) * c({nm})")
        ident_texts.append(f"a(i) = {nm}(i,j) * c(j)")
    # names that the generator itself builds (F15 is the only coincidence: Lean `input_arrays_disjoint`, `bucket_name_collision`)
    ident_texts += ["pos() = bucket(i)", "crd() = bucket(i) * c(i)", "vals() = bucket(i)", "pos(i) = bucket(i,j) * c(j)", "a() = bucket(i) * pos(i)",
                    "dim() = i(j)", "p(i) = vals(i) + capacity(i)", "written(i) = end(i) * crd(i)"]
    runner = CliRunner()
    c_jobs = []
    graph_prs = []
    kind_sets = [["evaluate"], ["assemble"], ["compute"], ["evaluate", "assemble", "compute"]]
    from .. import graphcorr

    all_prs = [pr for pr in kruns.enumerate_problems(chk, n_random=(40 if quick else 300), per_assignment=(3 if quick else 8), extra_texts=ident_texts)
               if pr.problem is not None]
    # what the validated model of the UNCHANGED compiler predicts: finding F3 (internal NotImplementedError) is
    # known only for problems whose chosen graph the model itself classifies as not lowerable
    model = graphcorr.model_outcomes(drv, all_prs)

    def f3_predicted(pr):
        return model.get(pr.key()) == ("graph", False)

    for pr in all_prs:
        reserved = sorted(names_of(pr) & C_RESERVED) + ([COLLISION] if generated_name_collision(pr) else [])
        graph_prs.append(pr)
        for kinds in ([rng.choice(kind_sets)] if quick else kind_sets):
            for lang in ("c", "llvm"):
                case = pr.case(kinds=kinds, language=lang)
                try:
                    r = with_limit(lambda: generate_code(pr.problem, [KernelType[k] for k in kinds], Language[lang]))
                except Timeout:
                    chk.violation("generate_code exceeded the limit (40 s of CPU time)", case)
                    continue
                except BaseException as e:  # noqa: BLE001
                    f = chk.match_known(lambda f: (f.get("signature", {}).get("kind") == "exception-site" and f["signature"].get("type") == type(e).__name__
                                                   and _raised_in(e, f["signature"]) and f3_predicted(pr))
                                        or (_ident_finding(f, reserved)))
                    if f:
                        chk.known(f["id"], f["what"])
                    else:
                        chk.violation(f"generate_code raised {type(e).__name__}: {str(e)[:150]}", case)
                    chk.count("outcome_internal_" + type(e).__name__)
                    continue
                if not isinstance(r, Success):
                    kind = type(r.failure()).__name__
                    chk.count("outcome_" + kind)
                    if kind not in DOCUMENTED:
                        chk.violation(f"undocumented failure {kind}", case)
                    continue
                code = r.unwrap()
                chk.count("outcome_code_" + lang)
                chk.case((pr.key(), tuple(kinds), lang), sample=case)
                if lang == "c":
                    c_jobs.append((code, case, reserved))
                else:
                    try:
                        m = llvm.parse_assembly(code)
                        m.verify()
                    except Exception as e:  # noqa: BLE001
                        f = chk.match_known(lambda f: _ident_finding(f, reserved))
                        if f:
                            chk.known(f["id"], f["what"])
                        else:
                            chk.violation(f"emitted LLVM module does not verify: {str(e)[:200]}", case)
        # tensor_method and CLI on one kind
        case = pr.case(entry="tensor_method")
        try:
            with_limit(lambda: tensor_method(pr.text, pr.fs))
            chk.count("tm_ok")
        except Timeout:
            chk.violation("tensor_method exceeded the limit (40 s of CPU time)", case)
        except (BroadcastTargetIndexError,) as e:
            chk.count("tm_" + type(e).__name__)
        except BaseException as e:  # noqa: BLE001
            name = type(e).__name__
            chk.count("tm_" + name)
            if name not in DOCUMENTED:
                f = chk.match_known(lambda f: (f.get("signature", {}).get("kind") == "exception-site" and f["signature"].get("type") == name and _raised_in(e, f["signature"]) and f3_predicted(pr))
                                    or (_ident_finding(f, reserved)))
                if f:
                    chk.known(f["id"], f["what"])
                else:
                    chk.violation(f"tensor_method raised {name}: {str(e)[:150]}", case)
        args = [pr.text] + [x for n, f in pr.fs.items() for x in ("-f", f"{n}:{f}")] + ["-t", "evaluate", "-l", rng.choice(["c", "llvm"])]
        res = runner.invoke(app, args)
        chk.count(f"cli_exit_{res.exit_code}")
        if res.exit_code not in (0, 1) or (res.exception is not None and not isinstance(res.exception, SystemExit)):
            exc = res.exception
            f = chk.match_known(lambda f: (f.get("signature", {}).get("kind") == "exception-site" and f["signature"].get("type") == type(exc).__name__ and _raised_in(exc, f["signature"]) and f3_predicted(pr))
                                or (_ident_finding(f, reserved)))
            if f:
                chk.known(f["id"], f["what"])
            else:
                chk.violation(f"CLI ended with exit code {res.exit_code} / exception {type(exc).__name__}", pr.case(entry="cli", args=args))
        elif res.exit_code == 1 and not (res.stderr or res.output).strip():
            chk.violation("CLI exited 1 without a message", pr.case(entry="cli", args=args))
    graphcorr.run_graphs(chk, drv, graph_prs)
    # C syntax checks in parallel
    with tempfile.TemporaryDirectory(prefix="verif_c08_") as td:
        with concurrent.futures.ThreadPoolExecutor(max_workers=16) as ex:
            futs = [ex.submit(gcc_syntax, code, td, k) for k, (code, _, _) in enumerate(c_jobs)]
            for (code, case, reserved), fut in zip(c_jobs, futs):
                rc, err = fut.result()
                chk.count("gcc_checked")
                if rc != 0:
                    f = chk.match_known(lambda f: _ident_finding(f, reserved))
                    if f:
                        chk.known(f["id"], f["what"])
                    else:
                        chk.violation("emitted C does not compile under the published header", case, got=err)


def _raised_in(e, sig) -> bool:
    import traceback

    tb = traceback.extract_tb(e.__traceback__)
    return any(fr.filename.endswith(sig.get("file", "")) and fr.name == sig.get("function") for fr in tb)


def replay(chk: Check, drv: Driver, path: str):
    run(chk, drv)
