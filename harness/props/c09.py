"""C09 — tensor construction and read-back are lossless for every format.

Correspondence: Tensor.from_aos/from_dok/from_soa/from_lol -> raw taco_indices/taco_vals  vs  Lean `encode`;
                Tensor.items()                                                          vs  Lean `decode`.
Property oracle on the real code (independent of the model): to_dok == summed non-zero input,
order/dimensions/format preserved, to_format and pickle preserve content, structure canonical (Lean wfCheck),
out-of-range coordinates rejected.
"""
from __future__ import annotations

import itertools
import pickle

from ..core import Atom, Check, Driver, sx
from ..gen import all_formats, fmt_str


def _fmt_obj(modes, ordering):
    from tensora.format import Format, Mode

    return Format(tuple(Mode.dense if m == "d" else Mode.compressed for m in modes), tuple(ordering))


def raw_structure(t):
    """(levels, vals) read from the cffi struct directly, never through taco_indices/items()/to_dok()."""
    from ..kernels import Raw

    r = Raw.of_tensor(t)
    levels = [[Atom("dense")] if lv[0] == "d" else [Atom("compressed"), list(lv[1]), list(lv[2])] for lv in r.levels]
    return levels, r.vals


def library_structure(t):
    """the library's own export of the structure (used by pickling): Tensor.taco_indices / taco_vals"""
    levels = []
    for mode, lvl in zip(t.modes, t.taco_indices):
        levels.append([Atom("dense")] if mode.character == "d" else [Atom("compressed"), list(lvl[0]), list(lvl[1])])
    return levels, list(t.taco_vals)


def stored_sx(dims, ordering, levels, vals):
    return [Atom("stored"), list(dims), list(ordering), levels, [int(v) for v in vals]]


def expected_dok(coords, vals):
    out = {}
    for c, v in zip(coords, vals):
        out[tuple(c)] = out.get(tuple(c), 0.0) + v
    return {k: v for k, v in out.items() if v != 0.0}


def gen_cases(chk: Check):
    rng = chk.rng
    thorough = chk.tier == "thorough"
    cases = []
    for order in range(0, 5):
        fmts = all_formats(order)
        if order == 4:
            fmts = rng.sample(fmts, 60 if thorough else 24)
        dim_choices = [0, 1, 2, 3] if (thorough and order <= 2) else [0, 1, 2]
        all_dims = list(itertools.product(dim_choices, repeat=order))
        for modes, ordering in fmts:
            if order >= 3 and not thorough:
                dims_list = rng.sample(all_dims, 8)
            elif order == 4:
                dims_list = rng.sample(all_dims, 4)
            else:
                dims_list = all_dims
            for dims in dims_list:
                universe = list(itertools.product(*[range(d) for d in dims]))
                n = len(universe)
                if n <= (8 if thorough else 4):
                    subsets = [
                        [universe[i] for i in range(n) if (mask >> i) & 1] for mask in range(1 << n)
                    ]
                else:
                    k = 6 if thorough else 3
                    subsets = [[]] + [
                        [c for c in universe if rng.random() < p] for p in (0.2, 0.5, 0.9) for _ in range(k)
                    ][: (3 * k)]
                for coords in subsets:
                    variant = rng.choice(["sorted", "reversed", "shuffled", "duplicated"])
                    cs = list(coords)
                    if variant == "reversed":
                        cs.reverse()
                    elif variant == "shuffled":
                        rng.shuffle(cs)
                    elif variant == "duplicated" and cs:
                        cs = cs + [rng.choice(cs) for _ in range(rng.randint(1, 3))]
                        rng.shuffle(cs)
                    vals = [float(rng.choice([-2, -1, 0, 1, 2, 3, 5])) for _ in cs]
                    cases.append((modes, ordering, dims, cs, vals, variant))
    return cases


def build(entry: str, modes, ordering, dims, coords, vals):
    from tensora import Tensor

    fmt = _fmt_obj(modes, ordering)
    if entry == "aos":
        return Tensor.from_aos(coords, vals, dimensions=tuple(dims), format=fmt)
    if entry == "soa":
        soa = tuple([c[i] for c in coords] for i in range(len(dims)))
        if len(dims) == 0:
            # zip(*()) of no columns yields no rows: from_soa cannot express order-0 entries
            return Tensor.from_aos(coords, vals, dimensions=tuple(dims), format=fmt)
        return Tensor.from_soa(soa, vals, dimensions=tuple(dims), format=fmt)
    if entry == "dok":
        d = {}
        for c, v in zip(coords, vals):
            d[tuple(c)] = d.get(tuple(c), 0.0) + v
        return Tensor.from_dok(d, dimensions=tuple(dims), format=fmt)
    if entry == "lol":
        d = {}
        for c, v in zip(coords, vals):
            d[tuple(c)] = d.get(tuple(c), 0.0) + v

        def mk(prefix, rest):
            if not rest:
                return d.get(tuple(prefix), 0.0)
            return [mk(prefix + [i], rest[1:]) for i in range(rest[0])]

        return Tensor.from_lol(mk([], list(dims)), dimensions=tuple(dims), format=fmt)
    raise ValueError(entry)


def run_case(chk: Check, modes, ordering, dims, coords, vals, entry, requests, pending):
    """Runs the real code; queues model requests. Returns nothing; comparison happens after batch."""
    case = {
        "format": fmt_str(modes, ordering),
        "dims": list(dims),
        "coords": [list(c) for c in coords],
        "vals": vals,
        "entry": entry,
    }
    try:
        t = build(entry, modes, ordering, dims, coords, vals)
    except Exception as e:  # noqa: BLE001
        chk.violation(f"constructor raised {type(e).__name__} on in-range input: {e}", case)
        return
    levels, tvals = raw_structure(t)
    try:
        lib = library_structure(t)
        if lib != (levels, tvals):
            chk.violation("Tensor.taco_indices/taco_vals (the structure pickling exports) differ from the stored arrays", case,
                          expected=sx([levels, [int(v) for v in tvals]])[:400], got=sx([lib[0], [int(v) for v in lib[1]]])[:400])
    except Exception as e:  # noqa: BLE001
        chk.violation(f"Tensor.taco_indices/taco_vals raised {type(e).__name__}: {e}", case)
    try:
        items = [[list(c), int(v)] for c, v in t.items()]
    except Exception as e:  # noqa: BLE001
        chk.violation(f"items() raised {type(e).__name__}: {e}", case)
        return
    # ---- property oracle on the real code -------------------------------------------------
    exp = expected_dok(coords, vals)
    try:
        got = t.to_dok()
    except Exception as e:  # noqa: BLE001
        chk.violation(f"to_dok() raised {type(e).__name__}: {e}", case)
        return
    if got != exp:
        f = chk.match_known(lambda f: f.get("signature", {}).get("predicate") == "non-involutive-ordering"
                            and list(ordering) != [list(ordering).index(i) for i in range(len(ordering))])
        if f:
            chk.known(f["id"], f["what"])
        else:
            chk.violation("to_dok() differs from the summed non-zero input", case, expected=sorted(exp.items()), got=sorted(got.items()))
    if t.order != len(dims) or tuple(t.dimensions) != tuple(dims) or t.format != _fmt_obj(modes, ordering):
        chk.violation("order/dimensions/format not preserved", case, got=[t.order, t.dimensions, str(t.format)])
    # pickle and to_format preserve content
    try:
        t2 = pickle.loads(pickle.dumps(t))
        if raw_structure(t2) != (levels, tvals) or t2.dimensions != t.dimensions or t2.format != t.format:
            chk.violation("pickle round trip changed the stored structure", case)
    except Exception as e:  # noqa: BLE001
        chk.violation(f"pickle round trip raised {type(e).__name__}: {e}", case)
    # ---- queue model requests -------------------------------------------------------------
    if entry in ("aos", "soa"):
        ents = [[list(c), int(v)] for c, v in zip(coords, vals)]
    else:
        d = {}
        for c, v in zip(coords, vals):
            d[tuple(c)] = d.get(tuple(c), 0.0) + v
        if entry == "lol":
            d = {k: v for k, v in d.items() if v != 0.0}
            ents = [[list(c), int(v)] for c, v in sorted(d.items())]
        else:
            ents = [[list(c), int(v)] for c, v in d.items()]
    st = stored_sx(dims, ordering, levels, tvals)
    requests.append("ENCODE " + " ".join(sx(x) for x in ([Atom(m) for m in modes], list(ordering), list(dims), ents)))
    requests.append("DECODE " + sx(st))
    requests.append("WF " + sx(st))
    pending.append((case, st, items))


def malformed(chk: Check, drv: Driver):
    """Out-of-range / negative coordinates must be rejected (C09 last sentence): alone, and hidden among
    valid entries (any position in the input order, any fiber)."""
    from tensora import Tensor

    rng = chk.rng
    n = 0
    reqs, meta = [], []
    for order in (1, 2, 3):
        fmts = all_formats(order)
        for modes, ordering in (fmts if chk.tier == "thorough" else rng.sample(fmts, min(len(fmts), 14))):
            dims = tuple(rng.choice([2, 3]) for _ in range(order))
            universe = list(itertools.product(*[range(d) for d in dims]))
            for bad_dim in range(order):
                for bad_val in (dims[bad_dim], dims[bad_dim] + 3, -1):
                    for companions in (0, rng.randint(1, 3), len(universe)):
                        valid = rng.sample(universe, min(companions, len(universe)))
                        coord = [rng.randrange(d) for d in dims]
                        coord[bad_dim] = bad_val
                        entries = [tuple(c) for c in valid]
                        entries.insert(rng.randint(0, len(entries)), tuple(coord))
                        vals = [1.0] * len(entries)
                        case = {"format": fmt_str(modes, ordering), "dims": list(dims), "coords": [list(c) for c in entries], "vals": vals, "malformed": True}
                        n += 1
                        chk.case(("malformed", fmt_str(modes, ordering), bad_dim, bad_val < 0, companions))
                        rejected = False
                        t = None
                        try:
                            t = Tensor.from_aos(entries, vals, dimensions=dims, format=_fmt_obj(modes, ordering))
                        except (ValueError, IndexError, OverflowError):
                            rejected = True
                        level = list(ordering).index(bad_dim)
                        reqs.append("ENCODE " + " ".join(sx(x) for x in ([Atom(m) for m in modes], list(ordering), list(dims), [[list(c), 1] for c in entries])))
                        meta.append((case, rejected, modes[level], t))
    # wrong-length coordinates (theorem encode_short_coordinate): a coordinate shorter than the order
    # fails the whole construction; a longer one is read through its leading components — model and
    # code must agree on which requests are refused
    n_len = 0
    for order in (1, 2, 3):
        fmts = all_formats(order)
        for modes, ordering in rng.sample(fmts, min(len(fmts), 6)):
            dims = tuple(rng.choice([2, 3]) for _ in range(order))
            universe = list(itertools.product(*[range(d) for d in dims]))
            for delta in (-order, -1, 1):
                if order + delta < 0:
                    continue
                valid = rng.sample(universe, rng.randint(0, min(3, len(universe))))
                base = [rng.randrange(d) for d in dims]
                coord = base[: order + delta] if delta < 0 else base + [0] * delta
                entries = [tuple(c) for c in valid]
                entries.insert(rng.randint(0, len(entries)), tuple(coord))
                vals = [1.0] * len(entries)
                case = {"format": fmt_str(modes, ordering), "dims": list(dims), "coords": [list(c) for c in entries], "vals": vals, "wrong_length": delta}
                n_len += 1
                chk.case(("wrong-length", fmt_str(modes, ordering), delta))
                rejected = False
                try:
                    Tensor.from_aos(entries, vals, dimensions=dims, format=_fmt_obj(modes, ordering))
                except (ValueError, IndexError, OverflowError, TypeError):
                    rejected = True
                reqs.append("ENCODE " + " ".join(sx(x) for x in ([Atom(m) for m in modes], list(ordering), list(dims), [[list(c), 1] for c in entries])))
                meta.append((case, rejected, None, None))
    chk.count("wrong_length_cases", n_len)
    for (case, rejected, level_mode, t), r in zip(meta, drv.batch(reqs)):
        model_rejected = isinstance(r, list) and r and r[0] == "err"
        chk.corr("encode-malformed", 1, int(model_rejected != rejected))
        if model_rejected != rejected:
            chk.unproved_obligation("correspondence:encode-malformed", "model and code disagree on rejection", case)
        if level_mode is None:
            continue
        if not rejected:
            f = chk.match_known(lambda f: f.get("signature", {}).get("predicate") == "oob-on-dense-level" and level_mode == "d")
            if f:
                chk.known(f["id"], f["what"])
            else:
                chk.violation("out-of-range coordinate silently accepted", case, got=sorted(t.to_dok(explicit_zeros=True).items()) if t is not None else None)
    chk.count("malformed_cases", n)


def to_format_checks(chk: Check):
    from tensora import Tensor

    rng = chk.rng
    n = 0
    for order in (1, 2, 3):
        fmts = all_formats(order)
        for _ in range(40 if chk.tier == "quick" else 400):
            (m1, o1), (m2, o2) = rng.choice(fmts), rng.choice(fmts)
            dims = tuple(rng.choice([0, 1, 2, 3]) for _ in range(order))
            universe = list(itertools.product(*[range(d) for d in dims]))
            coords = [c for c in universe if rng.random() < 0.5]
            vals = [float(rng.choice([-1, 1, 2, 0])) for _ in coords]
            case = {"from": fmt_str(m1, o1), "to": fmt_str(m2, o2), "dims": list(dims), "coords": coords, "vals": vals}
            n += 1
            chk.case(("to_format", fmt_str(m1, o1), fmt_str(m2, o2)))
            try:
                t = Tensor.from_aos(coords, vals, dimensions=dims, format=_fmt_obj(m1, o1))
                t2 = t.to_format(_fmt_obj(m2, o2))
                exp = expected_dok(coords, vals)
                if t2.to_dok() != exp or t2.dimensions != dims or t2.format != _fmt_obj(m2, o2):
                    involutive = all(list(o) == [list(o).index(i) for i in range(len(o))] for o in (o1, o2))
                    f = chk.match_known(lambda f: f.get("signature", {}).get("predicate") == "non-involutive-ordering" and not involutive)
                    if f:
                        chk.known(f["id"], f["what"])
                    else:
                        chk.violation("to_format changed content/dimensions/format", case, expected=sorted(exp.items()), got=sorted(t2.to_dok().items()))
            except Exception as e:  # noqa: BLE001
                chk.violation(f"to_format raised {type(e).__name__}: {e}", case)
    chk.count("to_format_cases", n)


def defaults_checks(chk: Check):
    """constructors called WITHOUT `dimensions` and/or `format`: the inferred dimensions are (largest index + 1)
    per mode (the smallest box holding every supplied coordinate; for from_lol the list lengths), whatever the
    order in which coordinates arrive, and reading back returns the supplied entries."""
    import itertools as it

    from tensora import Tensor

    rng = chk.rng
    n = 600 if chk.tier == "quick" else 8000
    bad = 0
    for k in range(n):
        order = rng.choice([1, 2, 2, 3, 3, 4])
        m = rng.randint(1, 6)
        coords = list({tuple(rng.randint(0, 4) for _ in range(order)) for _ in range(m)})
        variant = k % 3
        if variant == 0:
            coords.sort()
        elif variant == 1:
            coords.sort(reverse=True)
        else:
            rng.shuffle(coords)
        vals = [float(rng.choice([1, 2, 3, -1, -2])) for _ in coords]
        want_dims = tuple(max(c[d] for c in coords) + 1 for d in range(order))
        want = {c: v for c, v in zip(coords, vals)}
        entry = ("dok", "aos", "soa")[k % 3]
        fmt = None if k % 2 else _fmt_obj(tuple(rng.choice("ds") for _ in range(order)), tuple(rng.sample(range(order), order)))
        case = {"entry": entry + "(no dimensions)", "coords": [list(c) for c in coords], "vals": vals, "format": None if fmt is None else fmt.deparse()}
        try:
            if entry == "dok":
                t = Tensor.from_dok(dict(zip(coords, vals)), format=fmt)
            elif entry == "aos":
                t = Tensor.from_aos(coords, vals, format=fmt)
            else:
                t = Tensor.from_soa(tuple(zip(*coords)), vals, format=fmt)
        except Exception as e:  # noqa: BLE001
            bad += 1
            chk.violation(f"constructor without dimensions rejected valid entries: {type(e).__name__}: {str(e)[:200]}", case)
            continue
        chk.case(("defaults", entry, tuple(coords), None if fmt is None else fmt.deparse()))
        got = dict(kernels_raw_decode(t))
        if tuple(t.dimensions) != want_dims:
            bad += 1
            chk.violation("dimensions inferred from the coordinates are not (largest index + 1) per mode", case, expected=list(want_dims), got=list(t.dimensions))
        elif {c: v for c, v in got.items() if v != 0.0} != want:
            bad += 1
            chk.violation("a tensor built without explicit dimensions does not read back the supplied entries", case, expected=sorted(want.items()), got=sorted(got.items()))
    # from_lol: dimensions from the list lengths
    for dims in [(2, 3), (1, 4), (3, 1, 2), (2, 2, 2), (4,), ()]:
        def mk(prefix, rest):
            if not rest:
                return float(sum((i + 1) * (7 ** j) for j, i in enumerate(prefix)) % 5)
            return [mk(prefix + [i], rest[1:]) for i in range(rest[0])]
        lol = mk([], list(dims))
        t = Tensor.from_lol(lol)
        chk.case(("defaults", "lol", dims))
        want = {c: mk(list(c), []) for c in it.product(*[range(d) for d in dims])}
        got = dict(kernels_raw_decode(t))
        if tuple(t.dimensions) != tuple(dims) or {c: v for c, v in got.items() if v != 0.0} != {c: v for c, v in want.items() if v != 0.0}:
            bad += 1
            chk.violation("from_lol without dimensions does not reproduce the nested lists", {"entry": "lol(no dimensions)", "dims": list(dims)}, expected=sorted(want.items()), got=[list(t.dimensions), sorted(got.items())])
    chk.corr("constructors-without-dimensions(oracle)", n + 6, bad)


def kernels_raw_decode(t):
    from .. import kernels

    return kernels.Raw.of_tensor(t).decode().items()


def run(chk: Check, drv: Driver):
    chk.cov["rule"] = (
        "all formats of order<=3 (order 4 sampled) x dims in {0,1,2(,3)}^n x coordinate subsets (all when small) x "
        "input order variants x entry points; distinct = (format, dims, coordinate set, entry point); "
        "non-trivial = at least one compressed level or one stored entry"
    )
    cases = gen_cases(chk)
    requests, pending = [], []
    entries = ["aos", "dok", "soa", "lol"]
    for i, (modes, ordering, dims, coords, vals, variant) in enumerate(cases):
        entry = entries[i % 4] if chk.tier == "quick" else None
        for e in ([entry] if entry else entries):
            run_case(chk, modes, ordering, dims, coords, vals, e, requests, pending)
            nontriv = ("s" in modes) or len(coords) > 0
            chk.case((fmt_str(modes, ordering), tuple(dims), tuple(sorted(set(coords))), e) if nontriv else None,
                     sample={"format": fmt_str(modes, ordering), "dims": list(dims), "coords": [list(c) for c in coords], "vals": vals, "entry": e, "order_variant": variant})
            chk.count("order_%d" % len(dims))
            chk.count("variant_" + variant)
            chk.count("entry_" + e)
    replies = drv.batch(requests)
    for k, (case, st, items) in enumerate(pending):
        enc, dec, wf = replies[3 * k], replies[3 * k + 1], replies[3 * k + 2]
        ok_enc = isinstance(enc, list) and enc[0] == "ok" and sx(enc[1]) == sx(st)
        chk.corr("encode", 1, int(not ok_enc))
        if not ok_enc:
            chk.unproved_obligation("correspondence:encode(from_*)", f"model {sx(enc)[:300]} vs code {sx(st)[:300]}", case)
        model_items = None
        if isinstance(dec, list) and dec[0] == "ok":
            model_items = [[[int(x) for x in c], int(v)] for c, v in dec[1]]
        ok_dec = model_items == items
        chk.corr("decode", 1, int(not ok_dec))
        if not ok_dec:
            chk.unproved_obligation("correspondence:decode(items)", f"model {model_items} vs code {items}", case)
        if wf != "true":
            chk.violation("stored structure is not canonical (wfCheck false)", case, got=sx(st))
    malformed(chk, drv)
    to_format_checks(chk)
    defaults_checks(chk)
    chk.cov["exhaustive"] = chk.tier == "thorough"
    chk.assumptions += [
        "values are small integers (exact in binary64); float rounding of duplicate sums is outside the model",
        "cffi int32 conversion of coordinates/positions is not modelled (coordinates < 2^31)",
    ]


def replay(chk: Check, drv: Driver, path: str):
    import json

    v = json.loads(open(path).read())
    c = v["case"]
    from ..gen import parse_fmt

    modes, ordering = parse_fmt(c.get("format") or c.get("from"))
    requests, pending = [], []
    if c.get("malformed"):
        malformed(chk, drv)
        return
    run_case(chk, modes, ordering, c["dims"], [tuple(x) for x in c["coords"]], c["vals"], c.get("entry", "aos"), requests, pending)
    chk.case(("replay",), sample=c)
    replies = drv.batch(requests)
    for k, (case, st, items) in enumerate(pending):
        enc, dec = replies[3 * k], replies[3 * k + 1]
        if not (isinstance(enc, list) and enc[0] == "ok" and sx(enc[1]) == sx(st)):
            chk.unproved_obligation("correspondence:encode(from_*)", "replayed mismatch", case)
        if not (isinstance(dec, list) and dec[0] == "ok" and [[[int(x) for x in cc], int(vv)] for cc, vv in dec[1]] == items):
            chk.unproved_obligation("correspondence:decode(items)", "replayed mismatch", case)
