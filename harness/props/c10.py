"""C10 — inconsistent arguments are refused before any kernel runs.

A spy wraps the compiled kernel pointer of each TensorMethod (`_evaluate`) and records entry.
For every enumerated problem and every way of making exactly one argument inconsistent (one dimension
+-1, order +-1, each mode flipped, ordering permuted, name missing/extra, non-Tensor values) plus the
consistent baseline: exception class and "kernel entered?" are compared with the Lean `callCheck`
(theorem `callCheck_ok_iff`: accepted exactly when the arguments are consistent), and the property oracle
"inconsistent => refused with TypeError/ValueError before entry" is applied to the real call.
"""
from __future__ import annotations

import itertools
import json

from .. import kernels, kruns, problems
from ..core import Atom, Check, Driver, sx
from ..gen import fmt_str


def sig_sx(a):
    refs = []
    for ts in _tensor_refs(a.expression):
        refs.append([ts.name, list(ts.indexes)])
    return [Atom("sig"), a.target.name, list(a.target.indexes), refs]


def _tensor_refs(e):
    from tensora.expression import ast as s

    if isinstance(e, s.Tensor):
        return [e]
    if isinstance(e, (s.Add, s.Subtract, s.Multiply)):
        return _tensor_refs(e.left) + _tensor_refs(e.right)
    return []


def fmt_sx(modes, ordering):
    return [Atom("fmt"), "".join(modes), list(ordering)]


def problem_sx(pr: kruns.Prepared):
    fs = [[n, fmt_sx(*pr.fmts[n])] for n in pr.problem.formats.keys()]
    return [Atom("problem"), sig_sx(pr.assignment), fs]


class Spy:
    def __init__(self, tm):
        self.entered = 0
        orig = tm._evaluate

        def wrapped(*a):
            self.entered += 1
            return orig(*a)

        tm._evaluate = wrapped
        self.tm, self.orig = tm, orig

    def restore(self):
        self.tm._evaluate = self.orig


def variants(rng, pr: kruns.Prepared, sizes):
    """yield (label, kwargs-description) where description: name -> ('tensor', modes, ordering, dims) | ('other', value)"""
    base = {}
    for name, t in pr.tensors_of().items():
        modes, ordering = pr.fmts[name]
        base[name] = ("tensor", tuple(modes), tuple(ordering), tuple(sizes[i] for i in t.indexes))
    yield "consistent", dict(base)
    for name in base:
        _, modes, ordering, dims = base[name]
        for d in range(len(dims)):
            for delta in (1, -1):
                if dims[d] + delta >= 0:
                    nd = list(dims)
                    nd[d] += delta
                    v = dict(base)
                    v[name] = ("tensor", modes, ordering, tuple(nd))
                    yield f"dim:{name}[{d}]{delta:+d}", v
        # order +-1
        v = dict(base)
        v[name] = ("tensor", modes + ("d",), ordering + (len(ordering),), dims + (1,))
        yield f"order+1:{name}", v
        if len(dims) > 0:
            v = dict(base)
            o2 = tuple(x for x in ordering if x != len(ordering) - 1)
            v[name] = ("tensor", modes[:-1], o2, dims[:-1])
            yield f"order-1:{name}", v
        for l in range(len(modes)):
            m2 = list(modes)
            m2[l] = "s" if m2[l] == "d" else "d"
            v = dict(base)
            v[name] = ("tensor", tuple(m2), ordering, dims)
            yield f"mode:{name}[{l}]", v
        if len(ordering) >= 2:
            perms = [p for p in itertools.permutations(ordering) if p != ordering]
            # every other ordering (at most 5 for order 3): the inverse permutation is the one a per-level
            # comparison written the wrong way round would accept
            for pm in (perms if len(perms) <= 5 else rng.sample(perms, 5)):
                v = dict(base)
                v[name] = ("tensor", modes, pm, dims)
                yield f"ordering:{name}:{''.join(map(str, pm))}", v
        v = dict(base)
        del v[name]
        yield f"missing:{name}", v
        for val in (None, 3.0, [1.0]):
            v = dict(base)
            v[name] = ("other", val)
            yield f"type:{name}={val!r}", v
    v = dict(base)
    v["zz_extra"] = ("tensor", (), (), ())
    yield "extra:zz_extra", v


def consistent(pr: kruns.Prepared, desc) -> bool:
    """the specification of C10, independent of the model"""
    inputs = [n for n in pr.problem.formats.keys() if n != pr.target]
    if set(desc.keys()) != set(inputs):
        return False
    for n in inputs:
        d = desc[n]
        if d[0] != "tensor":
            return False
        modes, ordering = pr.fmts[n]
        if len(d[3]) != len(modes) or tuple(d[1]) != tuple(modes) or tuple(d[2]) != tuple(ordering):
            return False
    sizes = {}
    for t in _tensor_refs(pr.assignment.expression):
        dims = desc[t.name][3]
        for k, ix in enumerate(t.indexes):
            if sizes.setdefault(ix, dims[k]) != dims[k]:
                return False
    return True


def build_kwargs(desc):
    from tensora import Tensor
    from tensora.format import Format, Mode

    kw = {}
    for n, d in desc.items():
        if d[0] == "other":
            kw[n] = d[1]
        else:
            _, modes, ordering, dims = d
            fmt = Format(tuple(Mode.dense if m == "d" else Mode.compressed for m in modes), tuple(ordering))
            kw[n] = Tensor.from_aos([], [], dimensions=tuple(dims), format=fmt)
    return kw


def args_sx(desc):
    out = []
    for n, d in desc.items():
        if d[0] == "other":
            out.append([n, Atom("other")])
        else:
            out.append([n, [Atom("tensor"), "".join(d[1]), list(d[2]), list(d[3])]])
    return out


def run(chk: Check, drv: Driver):
    from tensora import tensor_method
    from tensora.compile import BroadcastTargetIndexError

    chk.cov["rule"] = (
        "curated + seeded random assignments (incl. a tensor used several times with different index lists) x sampled formats x "
        "every single-argument inconsistency (dimension +-1, order +-1, mode flip, ordering permuted, missing/extra name, non-Tensor) "
        "+ the consistent baseline; distinct = (assignment, formats, variant); non-trivial = inconsistent variants"
    )
    quick = chk.tier == "quick"
    rng = chk.rng
    reqs, meta = [], []
    n_prob = 0
    for pr in kruns.enumerate_problems(chk, n_random=(25 if quick else 250), per_assignment=(2 if quick else 6),
                                       extra_texts=["a(i) = x(j) * V(j,i) * x(i)", "a(i,j) = b(i,k) * b(k,j)", "a(i) = b(i) * b(i)"]):
        if pr.problem is None:
            continue
        if not pr.generate():
            continue
        try:
            tm = tensor_method(pr.text, pr.fs)
        except BroadcastTargetIndexError:
            rep = drv.ask("CALLCHECK", problem_sx(pr), [])
            chk.corr("initCheck", 1, int(not (isinstance(rep, list) and rep[0] == "init-err")))
            chk.count("broadcast_refused")
            continue
        except Exception as e:  # noqa: BLE001
            chk.count("tensor_method_" + type(e).__name__)
            continue
        n_prob += 1
        sizes = problems.index_sizes(pr.assignment, rng, (1, 2, 3))
        spy = Spy(tm)
        try:
            for label, desc in variants(rng, pr, sizes):
                spy.entered = 0
                exc = None
                result = None
                chk.mark(pr.case(variant=label, sizes=sizes))
                try:
                    result = tm(**build_kwargs(desc))
                except BaseException as e:  # noqa: BLE001
                    exc = type(e).__name__
                entered = spy.entered > 0
                ok_spec = consistent(pr, desc)
                case = pr.case(variant=label, sizes=sizes, args={n: list(d[1:]) if d[0] == "tensor" else repr(d[1]) for n, d in desc.items()})
                chk.case((pr.key(), label) if not ok_spec else None, sample=case if label != "consistent" else None)
                chk.count("variant_" + label.split(":")[0])
                # ---- property oracle on the real code ----
                if ok_spec:
                    if exc is not None or not entered:
                        chk.violation(f"consistent call refused: {exc}", case)
                else:
                    if entered:
                        chk.violation("kernel entered with inconsistent arguments", case, got=exc or "returned a result")
                    elif exc not in ("TypeError", "ValueError"):
                        chk.violation(f"inconsistent call not refused with TypeError/ValueError (got {exc})", case)
                # ---- same call with the keyword arguments written in the opposite order (theorem
                # callCheck_ok_perm: the decision is order-independent) ----
                if len(desc) > 1:
                    spy.entered = 0
                    exc2 = None
                    try:
                        tm(**dict(reversed(list(build_kwargs(desc).items()))))
                    except BaseException as e:  # noqa: BLE001
                        exc2 = type(e).__name__
                    entered2 = spy.entered > 0
                    chk.count("reversed_order_calls")
                    if ok_spec and (exc2 is not None or not entered2):
                        chk.violation(f"consistent call refused when keyword order is reversed: {exc2}", dict(case, reversed_kwargs=True))
                    elif not ok_spec and entered2:
                        chk.violation("kernel entered with inconsistent arguments (reversed keyword order)", dict(case, reversed_kwargs=True), got=exc2 or "returned a result")
                    elif not ok_spec and exc2 not in ("TypeError", "ValueError"):
                        chk.violation(f"inconsistent call not refused with TypeError/ValueError (got {exc2}, reversed keyword order)", dict(case, reversed_kwargs=True))
                reqs.append("CALLCHECK " + sx(problem_sx(pr)) + " " + sx(args_sx(desc)))
                meta.append((case, exc, entered, result.dimensions if result is not None else None))
        finally:
            spy.restore()
    chk.count("problems", n_prob)
    mism = 0
    for (case, exc, entered, dims), rep in zip(meta, drv.batch(reqs)):
        if isinstance(rep, list) and rep[0] == "ok":
            good = entered and exc is None and [int(x) for x in rep[1]] == list(dims)
        elif isinstance(rep, list) and rep[0] == "err":
            good = (not entered) and exc == rep[1]
        else:
            good = False
        if not good:
            mism += 1
            chk.unproved_obligation("correspondence:callCheck", f"model {sx(rep)} vs code exc={exc} entered={entered} dims={dims}", case)
    chk.corr("callCheck", len(meta), mism)


def replay(chk: Check, drv: Driver, path: str):
    run(chk, drv)
