"""C11 — tensor operators agree with element-wise and matrix arithmetic.

Correspondence: the assignment text and output format that `evaluate_binary_operator` /
`evaluate_matrix_multiplication_operator` hand to `evaluate_tensora` (captured by a spy) vs the Lean
`binarySynth` / `matmulSynth` (theorems: the synthesised assignment denotes element-wise arithmetic /
the matrix product). Oracle on the real results (raw-array decode): right values and dimensions, or the
documented ValueError / NoKernelFoundError; for natural mode order, the documented result format.
"""
from __future__ import annotations

import itertools
import json

from .. import kernels, problems
from ..core import Atom, Check, Driver, sx
from ..gen import all_formats, fmt_str


def fmt_obj(modes, ordering):
    from tensora.format import Format, Mode

    return Format(tuple(Mode.dense if m == "d" else Mode.compressed for m in modes), tuple(ordering))


def op_fn(op):
    return {"+": lambda a, b: a + b, "-": lambda a, b: a - b, "*": lambda a, b: a * b}[op]


def expected_format_natural(op, lm, rm):
    if op == "*":
        return "".join("d" if a == "d" and b == "d" else "s" for a, b in zip(lm, rm))
    return "".join("d" if a == "d" or b == "d" else "s" for a, b in zip(lm, rm))


def run(chk: Check, drv: Driver):
    import tensora.compile as tc
    import tensora.tensor as tt
    from tensora import Tensor
    from tensora.desugar import NoKernelFoundError

    chk.cov["rule"] = (
        "operand format pairs of order 0..3 (orders 1..2 for @; all pairs when few, else sampled) x dims in {0..3} (equal and unequal) x "
        "random sparsity x {tensor op tensor, tensor op number, number op tensor} x {+,-,*,@}; distinct = (op, formats, dims, inputs)"
    )
    quick = chk.tier == "quick"
    rng = chk.rng
    captured = []
    orig = tc.evaluate_tensora

    def spy(assignment, output_format, **inputs):
        captured.append((assignment, output_format))
        return orig(assignment, output_format, **inputs)

    tc.evaluate_tensora = spy
    reqs, meta = [], []
    try:
        for order in (0, 1, 2, 3):
            fmts = all_formats(order)
            pairs = list(itertools.product(fmts, fmts))
            if len(pairs) > (40 if quick else 400):
                pairs = rng.sample(pairs, 40 if quick else 400)
            # directed pass: EVERY format of this order (a sample of 16 for order 3) once with itself and with
            # pairwise different dimension sizes and a dense asymmetric content, so that any confusion of storage
            # order and dimension order (mode orderings that are not the identity) changes a value
            directed = fmts if len(fmts) <= 16 else rng.sample(fmts, 16)
            pairs = [(f, f) for f in directed] + pairs
            n_directed = len(directed)
            for pair_no, ((lm, lo), (rm, ro)) in enumerate(pairs):
                for op in "+-*":
                    dims = tuple(rng.choice([0, 1, 2, 3]) for _ in range(order))
                    if pair_no < n_directed:
                        dims = (2, 3, 4)[:order]
                    dims_r = dims
                    if order > 0 and rng.random() < 0.15:
                        d2 = list(dims)
                        d2[rng.randrange(order)] += 1
                        dims_r = tuple(d2)
                    lv = problems.random_input(rng, dims)
                    rv = problems.random_input(rng, dims_r)
                    L = Tensor.from_aos(list(lv), list(lv.values()), dimensions=dims, format=fmt_obj(lm, lo))
                    R = Tensor.from_aos(list(rv), list(rv.values()), dimensions=dims_r, format=fmt_obj(rm, ro))
                    case = {"op": op, "left": [fmt_str(lm, lo), list(dims), sorted(lv.items())], "right": [fmt_str(rm, ro), list(dims_r), sorted(rv.items())]}
                    captured.clear()
                    chk.mark(case)
                    out = _safe(lambda: _apply(L, R, op))
                    chk.case((op, fmt_str(lm, lo), fmt_str(rm, ro), dims, dims_r, json.dumps(sorted(lv.items())), json.dumps(sorted(rv.items()))), sample=case)
                    chk.count("tensor_tensor_" + op)
                    reqs.append("OPSYNTH " + sx([Atom("tensor"), [Atom("fmt"), "".join(lm), list(lo)], list(dims)]) + " "
                                + sx([Atom("tensor"), [Atom("fmt"), "".join(rm), list(ro)], list(dims_r)]) + " " + sx(op))
                    meta.append((case, list(captured), out[0], out[1] if out[0] == "exc" else None))
                    if dims != dims_r:
                        if not (out[0] == "exc" and out[1] == "ValueError"):
                            chk.violation("operands of different dimensions not refused with ValueError", case, got=str(out[:2]))
                        continue
                    if out[0] == "exc":
                        if out[1] == "NoKernelFoundError":
                            chk.count("no_kernel")
                        elif out[1] == "NotImplementedError" and f3_known(chk, drv, captured, {"left": (lm, lo), "right": (rm, ro)}):
                            chk.count("f3_internal_error")
                        else:
                            chk.violation(f"operator raised {out[1]}: {out[2]}", case)
                        continue
                    res = out[1]
                    exp = {c: op_fn(op)(lv.get(c, 0.0), rv.get(c, 0.0)) for c in itertools.product(*[range(d) for d in dims])}
                    got = kernels.Raw.of_tensor(res).decode()
                    if tuple(res.dimensions) != dims or any(exp[c] != v for c, v in got.items()) or any(v != 0.0 and got.get(c, 0.0) != v for c, v in exp.items()):
                        chk.violation("operator returned a wrong value", case, expected=sorted(exp.items()), got=sorted(got.items()))
                    if tuple(lo) == tuple(range(order)) and tuple(ro) == tuple(range(order)):
                        want = expected_format_natural(op, lm, rm)
                        if res.format.deparse() != want:
                            chk.violation("result format differs from the documented rule", case, expected=want, got=res.format.deparse())
                # scalar on either side
                for op in "+-*":
                    for side in ("right", "left"):
                        dims = tuple(rng.choice([0, 1, 2, 3]) for _ in range(order))
                        lv = problems.random_input(rng, dims)
                        if pair_no < n_directed:
                            dims = (2, 3, 4)[:order]
                            lv = {c: float(1 + 2 * n_) for n_, c in enumerate(itertools.product(*[range(d) for d in dims])) if n_ % 3 != 1}
                        T = Tensor.from_aos(list(lv), list(lv.values()), dimensions=dims, format=fmt_obj(lm, lo))
                        k = rng.choice([2, -1, 0, 2.5, 1])
                        case = {"op": op, "tensor": [fmt_str(lm, lo), list(dims), sorted(lv.items())], "scalar": k, "scalar_side": side}
                        captured.clear()
                        chk.mark(case)
                        out = _safe(lambda: _apply(T, k, op) if side == "right" else _apply(k, T, op))
                        chk.case((op, side, fmt_str(lm, lo), dims, k, json.dumps(sorted(lv.items()))), sample=None)
                        chk.count("tensor_scalar_" + op)
                        tsx = [Atom("tensor"), [Atom("fmt"), "".join(lm), list(lo)], list(dims)]
                        reqs.append("OPSYNTH " + (sx(tsx) + " scalar" if side == "right" else "scalar " + sx(tsx)) + " " + sx(op))
                        meta.append((case, list(captured), out[0], out[1] if out[0] == "exc" else None))
                        if out[0] == "exc":
                            if out[1] != "NoKernelFoundError":
                                chk.violation(f"operator raised {out[1]}: {out[2]}", case)
                            continue
                        res = out[1]
                        f = op_fn(op)
                        exp = {c: (f(lv.get(c, 0.0), k) if side == "right" else f(k, lv.get(c, 0.0))) for c in itertools.product(*[range(d) for d in dims])}
                        got = kernels.Raw.of_tensor(res).decode()
                        if tuple(res.dimensions) != dims or any(exp[c] != v for c, v in got.items()) or any(v != 0.0 and got.get(c, 0.0) != v for c, v in exp.items()):
                            chk.violation("operator with a number returned a wrong value", case, expected=sorted(exp.items()), got=sorted(got.items()))
                        if tuple(lo) == tuple(range(order)):
                            want = "".join(lm) if op == "*" else "d" * order
                            if res.format.deparse() != want:
                                chk.violation("result format differs from the documented rule", case, expected=want, got=res.format.deparse())
        # matrix multiplication
        mm_reqs, mm_meta = [], []
        for lo_, ro_ in ((1, 1), (2, 1), (1, 2), (2, 2), (0, 1), (3, 2), (2, 3)):
            lf, rf = all_formats(lo_), all_formats(ro_)
            pairs = list(itertools.product(lf, rf))
            if len(pairs) > (30 if quick else 64):
                pairs = rng.sample(pairs, 30 if quick else 64)
            for (lm, lo), (rm, ro) in pairs:
                n = rng.choice([0, 1, 2, 3])
                ld = tuple(rng.choice([1, 2, 3]) for _ in range(lo_ - 1)) + ((n,) if lo_ else ())
                rd = ((n if rng.random() < 0.85 else n + 1,) if ro_ else ()) + tuple(rng.choice([1, 2, 3]) for _ in range(ro_ - 1))
                lv, rv = problems.random_input(rng, ld), problems.random_input(rng, rd)
                L = Tensor.from_aos(list(lv), list(lv.values()), dimensions=ld, format=fmt_obj(lm, lo))
                R = Tensor.from_aos(list(rv), list(rv.values()), dimensions=rd, format=fmt_obj(rm, ro))
                case = {"op": "@", "left": [fmt_str(lm, lo), list(ld), sorted(lv.items())], "right": [fmt_str(rm, ro), list(rd), sorted(rv.items())]}
                captured.clear()
                chk.mark(case)
                out = _safe(lambda: L @ R)
                chk.case(("@", fmt_str(lm, lo), fmt_str(rm, ro), ld, rd, json.dumps(sorted(lv.items())), json.dumps(sorted(rv.items()))), sample=case if (lo_, ro_) == (2, 2) else None)
                chk.count(f"matmul_{lo_}{ro_}")
                mm_reqs.append("MATMULSYNTH " + sx([Atom("tensor"), [Atom("fmt"), "".join(lm), list(lo)], list(ld)]) + " "
                               + sx([Atom("tensor"), [Atom("fmt"), "".join(rm), list(ro)], list(rd)]))
                mm_meta.append((case, list(captured), out[0], out[1] if out[0] == "exc" else None))
                bad_shape = lo_ not in (1, 2) or ro_ not in (1, 2) or (ld[-1] != rd[0])
                if bad_shape:
                    if not (out[0] == "exc" and out[1] == "ValueError"):
                        chk.violation("shape-incompatible @ not refused with ValueError", case, got=str(out[:2]))
                    continue
                if out[0] == "exc":
                    if out[1] != "NoKernelFoundError":
                        chk.violation(f"@ raised {out[1]}: {out[2]}", case)
                    continue
                res = out[1]
                odims = ld[:-1] + rd[1:]
                exp = {}
                for c in itertools.product(*[range(d) for d in odims]):
                    li, ri = c[: lo_ - 1], c[lo_ - 1 :]
                    exp[c] = sum(lv.get(li + (j,), 0.0) * rv.get((j,) + ri, 0.0) for j in range(ld[-1]))
                got = kernels.Raw.of_tensor(res).decode()
                if tuple(res.dimensions) != odims or any(exp[c] != v for c, v in got.items()) or any(v != 0.0 and got.get(c, 0.0) != v for c, v in exp.items()):
                    chk.violation("@ returned a wrong value", case, expected=sorted(exp.items()), got=sorted(got.items()))
                if tuple(lo) == tuple(range(lo_)) and tuple(ro) == tuple(range(ro_)):
                    want = ("" if lo_ == 1 else lm[0]) + ("" if ro_ == 1 else rm[1])
                    if res.format.deparse() != want:
                        chk.violation("@ result format differs from the documented rule (operands' outer dimensions)", case, expected=want, got=res.format.deparse())
    finally:
        tc.evaluate_tensora = orig
    # correspondence of the synthesised requests
    mism = 0
    for (case, cap, status, exc), rep in zip(meta + mm_meta, drv.batch(reqs + mm_reqs)):
        if isinstance(rep, list) and rep[0] == "ok":
            want_text, want_fmt = rep[1], rep[2]
            fm = "".join(str(x) for x in [want_fmt[1]])
            ordering = [int(x) for x in want_fmt[2]]
            fmt_text = fmt_str(tuple(fm), tuple(ordering))
            good = len(cap) == 1 and cap[0][0] == want_text and cap[0][1] == fmt_text
        elif isinstance(rep, list) and rep[0] == "err":
            good = len(cap) == 0 and status == "exc" and exc == "ValueError"
        else:
            good = False
        if not good:
            mism += 1
            chk.unproved_obligation("correspondence:operator-synthesis", f"model {sx(rep)} vs code captured={cap} status={status} {exc}", case)
    chk.corr("operator-synthesis", len(meta) + len(mm_meta), mism)


def f3_known(chk, drv, captured, operand_formats):
    """NotImplementedError is known (F3) only if the model of the unchanged compiler predicts it for the
    synthesised problem"""
    from .. import graphcorr, kruns
    from ..gen import parse_fmt

    if not captured:
        return False
    text, out_fmt = captured[-1]
    fm = {"output": parse_fmt(out_fmt)}
    fm.update(operand_formats)
    pr = kruns.Prepared(text, fm)
    if pr.problem is None:
        return False
    if graphcorr.model_outcomes(drv, [pr]).get(pr.key()) != ("graph", False):
        return False
    f = chk.match_known(lambda f: f.get("signature", {}).get("kind") == "exception-site" and f["signature"].get("type") == "NotImplementedError")
    if f:
        chk.known(f["id"], f["what"])
        return True
    return False


def _apply(a, b, op):
    return a + b if op == "+" else a - b if op == "-" else a * b


def _safe(fn):
    try:
        return ("ok", fn())
    except Exception as e:  # noqa: BLE001
        return ("exc", type(e).__name__, str(e)[:200])


def replay(chk: Check, drv: Driver, path: str):
    run(chk, drv)
