"""C12 — assignment and format text round-trips and means what arithmetic says.

Correspondence: parse_assignment / Assignment.deparse / parse_format / parse_named_format /
Format.deparse (Python, parsita PEG)  vs  the Lean lexer + recursive-descent model.
Oracles on the real code: parsing never raises; parse(deparse(parse(s))) == parse(s); the tree means
what Python's own arithmetic gives for the text (precedence/associativity); the three validation
rejections happen exactly when their condition holds.
"""
from __future__ import annotations

import itertools
import json
import random

from ..core import Atom, Check, Driver, sx


# ----------------------------------------------------------------------------------------------
def export_ast(a):
    """Python sugar AST -> wire with literal lexemes = str(value) (what deparse prints)"""
    from tensora.expression import ast as s

    def ex(e):
        if isinstance(e, s.Integer):
            return [Atom("Integer"), str(e.value)]
        if isinstance(e, s.Float):
            return [Atom("Float"), str(e.value)]
        if isinstance(e, s.Tensor):
            return [Atom("Tensor"), e.name, list(e.indexes)]
        for cls, name in ((s.Add, "Add"), (s.Subtract, "Subtract"), (s.Multiply, "Multiply")):
            if isinstance(e, cls):
                return [Atom(name), ex(e.left), ex(e.right)]
        raise TypeError(type(e).__name__)

    return [Atom("Assignment"), a.target.name, list(a.target.indexes), ex(a.expression)]


def model_to_python(m):
    """wire AST from the model -> Python sugar AST (literal conversion is CPython's int()/float())"""
    from tensora.expression import ast as s

    def ex(e):
        tag = e[0]
        if tag == "Integer":
            return s.Integer(int(e[1]))
        if tag == "Float":
            return s.Float(float(e[1]))
        if tag == "Tensor":
            return s.Tensor(e[1], tuple(e[2]))
        cls = {"Add": s.Add, "Subtract": s.Subtract, "Multiply": s.Multiply}[tag]
        return cls(ex(e[1]), ex(e[2]))

    return (m[1], tuple(m[2]), ex(m[3]))


def py_triple(a):
    return (a.target.name, tuple(a.target.indexes), a.expression)


def real_parse(text):
    """-> ('ok', Assignment) | ('err', class name) | ('raised', class name, message)"""
    from returns.result import Success
    from tensora.expression import parse_assignment

    try:
        r = parse_assignment(text)
    except BaseException as e:  # noqa: BLE001
        return ("raised", type(e).__name__, str(e)[:200])
    if isinstance(r, Success):
        return ("ok", r.unwrap())
    return ("err", type(r.failure()).__name__)


# ----------------------------------------------------------------------------------------------
NAMES = ["a", "b", "c", "x1", "Ab"]
INDEXES = ["i", "j", "k"]
LITERALS = ["0", "1", "2", "007", "10", "1.5", "2.50", "0.0", "1e3", "1E+3", "1.5e-7", "1e0", "12.5E2", "3000000000", "1.0"]


def gen_ast_texts(rng, n, max_depth=3):
    """random sentences of the grammar with redundant parentheses and spacing variants"""
    out = []

    def leaf():
        r = rng.random()
        if r < 0.3:
            return rng.choice(LITERALS)
        name = rng.choice(NAMES[1:])
        k = rng.choice([0, 1, 1, 2, 3])
        return f"{name}({','.join(rng.choice(INDEXES) for _ in range(k))})"

    def expr(d):
        if d == 0 or rng.random() < 0.25:
            return leaf()
        op = rng.choice(["+", "-", "*"])
        l, r = expr(d - 1), expr(d - 1)
        if rng.random() < 0.35:
            l = f"({l})"
        if rng.random() < 0.35:
            r = f"({r})"
        return f"{l} {op} {r}"

    for _ in range(n):
        t = f"{rng.choice(NAMES)}({','.join(rng.sample(INDEXES, rng.choice([0, 1, 2])))}) = {expr(rng.randint(0, max_depth))}"
        v = rng.random()
        if v < 0.2:
            t = t.replace(" ", "")
        elif v < 0.3:
            t = "  " + t.replace(" ", "   ") + " "
        out.append(t)
    return out


def mutate(rng, text):
    toks = list(text)
    k = rng.randrange(6)
    if not toks:
        return text
    p = rng.randrange(len(toks))
    if k == 0:
        del toks[p]
    elif k == 1:
        toks.insert(p, rng.choice("()+-*=,. eE1a\t\n"))
    elif k == 2:
        toks[p] = rng.choice("()+-*=,. eE1a_#")
    elif k == 3 and len(toks) > 1:
        q = rng.randrange(len(toks))
        toks[p], toks[q] = toks[q], toks[p]
    elif k == 4:
        toks = toks[:p]
    else:
        toks.insert(p, rng.choice(["((", "))", "* *", "+-", "1.", ".5", "1e", "é", "١", "٢.٥", " ", "\xa0"]))
    return "".join(toks)


def raw_text(rng):
    alphabet = "abcxyzAB019 ()+-*=,.eE_\t\n#é١"
    return "".join(rng.choice(alphabet) for _ in range(rng.randint(0, 14)))


def assignments_part(chk: Check, drv: Driver):
    rng = chk.rng
    quick = chk.tier == "quick"
    n = 3000 if quick else 40000
    texts = gen_ast_texts(rng, n)
    texts += [mutate(rng, t) for t in texts[: n // 2]]
    texts += [raw_text(rng) for _ in range(n // 3)]
    # literal spelling classes and validation cases
    for lit in LITERALS + ["1e999", "0" * 50 + "1", "9" * 400, "1." + "0" * 30, "1e-999", "00.5", ".5", "5.", "1e", "1e+", "0x10", "1_000", "١٢.٥", "12.٥", "1٢"]:
        texts.append(f"a() = {lit}")
        texts.append(f"a(i) = {lit} * b(i)")
    texts += ["a(i) = a(i) + 1", "a(i) = b(a)", "a(i) = b(i) + b(i,j)", "a(i) = b(i) - b()", "a(i) = b(i,j) * c(j,b)", "a(a) = b(i)",
              "i(i) = b(i)", "a(i) = b(i) * i()", "a(i,i) = b(i,i)", "a(i) = b(b)", "a() = a()", "a(i) = b(i) + c(i) * a(i)"]
    # validation stream: a small pool in which names collide (a name used as tensor and as index, a tensor
    # referenced several times with different index lists / orders, the target reused), 1-3 references
    pool_names = ["A", "B", "C"]
    pool_idx = ["i", "j", "A", "B", "C"]
    refs = []
    for nm in pool_names:
        refs.append(f"{nm}()")
        for x in pool_idx:
            refs.append(f"{nm}({x})")
            for y in pool_idx:
                refs.append(f"{nm}({x},{y})")
    targets = ["T(i)", "T(i,j)", "A(i)", "T(C)", "T()"]
    for r1 in refs:
        for r2 in rng.sample(refs, 12 if quick else 93):
            texts.append(f"{rng.choice(targets)} = {r1} {rng.choice('+-*')} {r2}")
    for _ in range(4000 if quick else 60000):
        r1, r2, r3 = rng.choice(refs), rng.choice(refs), rng.choice(refs)
        texts.append(f"{rng.choice(targets)} = {r1} {rng.choice('+-*')} {r2} {rng.choice('+-*')} {r3}")
    texts.append("a() = " + "9" * 5000)
    # deep nesting and long spines (the model's recursion fuel must cover them)
    for d in (4, 5, 8, 20, 60):
        texts.append("a(i) = " + "(" * d + "b(i)" + ")" * d)
        texts.append("a() = " + "(" * d + "1" + ")" * d + " * 2")
        texts.append("a(i) = " + " * ".join(["(b(i) + 1)"] * d))
        texts.append("a(i) = " + " - ".join(["b(i)"] * d))
        texts.append("a(i) = " + "".join(["(b(i) * " for _ in range(d)]) + "1" + ")" * d)
    reqs = ["PARSE " + sx(t) for t in texts]
    replies = drv.batch(reqs)
    mism = 0
    dep_reqs, dep_meta = [], []
    for t, rep in zip(texts, replies):
        real = real_parse(t)
        case = {"text": t}
        chk.count("real_" + real[0] + ("_" + real[1] if real[0] == "err" else ""))
        if real[0] == "raised":
            f = chk.match_known(lambda f: f.get("signature", {}).get("predicate") == "integer-literal-too-long" and any(len(x) > 4300 for x in t.split()))
            if f:
                chk.known(f["id"], f["what"])
            else:
                chk.violation(f"parse_assignment raised {real[1]}: {real[2]}", case)
            continue
        if real[0] == "ok":
            try:
                model_ok = isinstance(rep, list) and rep[0] == "ok" and model_to_python(rep[1]) == py_triple(real[1])
            except (ValueError, OverflowError):
                model_ok = False
        else:
            model_ok = isinstance(rep, list) and rep[0] == "err" and rep[1] == real[1]
        if not model_ok:
            mism += 1
            chk.unproved_obligation("correspondence:parse_assignment", f"model {sx(rep)[:300]} vs code {real[0]} {str(real[1])[:300]}", case)
        # ---- oracles on the real code ----
        if real[0] == "ok":
            a = real[1]
            chk.case(("parse", a.deparse()), sample={"text": t, "tree": a.deparse()})
            d = a.deparse()
            back = real_parse(d)
            if back[0] != "ok" or back[1] != a:
                f = chk.match_known(lambda f: f.get("signature", {}).get("predicate") == "float-literal-overflows-to-inf" and "inf" in d)
                if f:
                    chk.known(f["id"], f["what"])
                else:
                    chk.violation("parse(deparse(tree)) differs from tree", case, expected=str(a), got=str(back[1:]))
            meaning_check(chk, a, t)
            dep_reqs.append("DEPARSE " + sx(export_ast(a)))
            dep_meta.append((t, d))
            validation_check(chk, a, t, accepted=True)
        elif real[1] in ("MutatingAssignmentError", "InconsistentDimensionsError", "NameConflictError"):
            chk.case(("reject", real[1], t), sample={"text": t, "rejected": real[1]})
    chk.corr("parse_assignment", len(texts), mism)
    mism = 0
    for (t, d), rep in zip(dep_meta, drv.batch(dep_reqs)):
        if rep != d:
            mism += 1
            chk.unproved_obligation("correspondence:deparse", f"model {rep!r} vs code {d!r}", {"text": t})
    chk.corr("deparse", len(dep_meta), mism)


def meaning_check(chk: Check, a, text):
    """the tree evaluates to what Python's own arithmetic gives for the text"""
    from tensora.expression import ast as s
    import re

    vals = {}

    def val(e):
        if isinstance(e, (s.Integer, s.Float)):
            return float(e.value)
        if isinstance(e, s.Tensor):
            return vals.setdefault((e.name, e.indexes), float(3 + 2 * len(vals)) / 7.0)
        l, r = val(e.left), val(e.right)
        return l + r if isinstance(e, s.Add) else l - r if isinstance(e, s.Subtract) else l * r

    try:
        tree_value = val(a.expression)
    except OverflowError:
        return
    rhs = text.split("=", 1)[1]
    if any(ord(c) > 127 for c in rhs):
        return

    def repl(m):
        name = m.group(1)
        idx = tuple(x for x in m.group(2).replace(" ", "").split(",") if x)
        return repr(vals[(name, idx)]) if (name, idx) in vals else "None"

    py = re.sub(r"([A-Za-z][A-Za-z0-9]*)\s*\(([^()]*)\)", repl, rhs)
    py = re.sub(r"(?<![\w.])0+(\d)", r"\1", py)  # python rejects leading zeros in int literals
    try:
        ref = float(eval(py, {"__builtins__": {}}, {}))  # noqa: S307 - text generated by this harness
    except Exception:  # noqa: BLE001
        return
    chk.count("meaning_checked")
    if ref != tree_value and not (ref != ref and tree_value != tree_value) and abs(ref - tree_value) > 1e-9 * max(1.0, abs(ref)):
        chk.violation("the parsed tree does not mean what arithmetic says for the text", {"text": text}, expected=ref, got=tree_value)


def validation_check(chk: Check, a, text, accepted: bool):
    """accepted assignments must not satisfy any rejection condition"""
    names = set(a.expression.variables().keys())
    orders_ok = all(len({t.order for t in ts}) == 1 for ts in a.expression.variables().values())
    idx = set(a.target.indexes) | {i for ts in a.expression.variables().values() for t in ts for i in t.indexes}
    bad = a.target.name in names or not orders_ok or bool(idx & (names | {a.target.name}))
    if accepted and bad:
        chk.violation("assignment accepted although it reuses its target / uses two orders / mixes a tensor and index name", {"text": text})


def rejection_oracle(chk: Check, drv: Driver):
    """every way of violating exactly one validation condition is rejected with the right error"""
    from tensora.expression import ast as s
    from tensora.expression._exceptions import InconsistentDimensionsError, MutatingAssignmentError, NameConflictError

    cases = [
        ("a(i) = a(i) + 1", "MutatingAssignmentError"), ("a(i) = b(i) * a(j)", "MutatingAssignmentError"), ("a() = a()", "MutatingAssignmentError"),
        ("a(i) = b(i) + b(i,j)", "InconsistentDimensionsError"), ("a(i) = b() * c(i) - b(i)", "InconsistentDimensionsError"),
        ("a(i) = b(a)", "NameConflictError"), ("a(i) = b(i) * i()", "NameConflictError"), ("a(b) = b(i)", "NameConflictError"),
        ("a(i) = b(i,c) * c(i)", "NameConflictError"), ("i(i) = b(j)", "NameConflictError"),
    ]
    for t, want in cases:
        r = real_parse(t)
        chk.case(("reject", want, t))
        if r[0] != "err" or r[1] != want:
            chk.violation(f"expected {want}", {"text": t}, got=str(r[:2]))


def formats_part(chk: Check, drv: Driver):
    from returns.result import Success
    from tensora.format import parse_format, parse_named_format

    rng = chk.rng
    quick = chk.tier == "quick"
    texts = [""]
    alphabet = "ds0123"
    for n in range(1, 6 if quick else 7):
        if 6 ** n <= (8000 if quick else 300000):
            texts += ["".join(t) for t in itertools.product(alphabet, repeat=n)]
        else:
            texts += ["".join(rng.choice(alphabet) for _ in range(n)) for _ in range(4000)]
    texts += ["".join(rng.choice("ds0123 :_aA9x\t１") for _ in range(rng.randint(0, 8))) for _ in range(3000 if quick else 30000)]
    texts += ["d10s9", "d01s0", "d1 s0", " ds", "ds ", "d0d1d2d3", "s3d2s1d0", "d1s", "dd1"]
    replies = drv.batch(["PARSEFMT " + sx(t) for t in texts])
    mism = 0
    dep = []
    for t, rep in zip(texts, replies):
        try:
            r = parse_format(t)
        except BaseException as e:  # noqa: BLE001
            chk.violation(f"parse_format raised {type(e).__name__}: {e}", {"format_text": t})
            continue
        if isinstance(r, Success):
            f = r.unwrap()
            want = [Atom("ok"), [Atom("Format"), "".join(m.character for m in f.modes), list(f.ordering)]]
            chk.count("format_ok")
            chk.case(("format", t))
            # round trip on the real code
            back = parse_format(f.deparse())
            if not isinstance(back, Success) or back.unwrap() != f:
                chk.violation("parse_format(deparse(f)) differs from f", {"format_text": t}, expected=str(f), got=str(back))
            if set(f.ordering) != set(range(len(f.modes))) or len(f.ordering) != len(f.modes):
                chk.violation("accepted format whose ordering is not a permutation", {"format_text": t})
            dep.append((t, f))
        else:
            want = [Atom("err"), Atom(type(r.failure()).__name__)]
            chk.count("format_" + type(r.failure()).__name__)
        if sx(rep) != sx(want):
            mism += 1
            chk.unproved_obligation("correspondence:parse_format", f"model {sx(rep)} vs code {sx(want)}", {"format_text": t})
    chk.corr("parse_format", len(texts), mism)
    mism = 0
    reps = drv.batch(["DEPARSEFMT " + sx([Atom("Format"), "".join(m.character for m in f.modes), list(f.ordering)]) for _, f in dep])
    for (t, f), rep in zip(dep, reps):
        if rep != f.deparse():
            mism += 1
            chk.unproved_obligation("correspondence:format-deparse", f"model {rep!r} vs code {f.deparse()!r}", {"format_text": t})
    chk.corr("format-deparse", len(dep), mism)
    # named formats
    named = [f"{n}:{t}" for n in ["A", "a_1", "_x", "B2"] for t in rng.sample(texts, 300)] + ["A : ds", " A:ds", "1a:d", "A:", ":ds", "A:ds:ds", "A", ""]
    reps = drv.batch(["PARSENAMED " + sx(t) for t in named])
    mism = 0
    for t, rep in zip(named, reps):
        try:
            r = parse_named_format(t)
        except BaseException as e:  # noqa: BLE001
            chk.violation(f"parse_named_format raised {type(e).__name__}: {e}", {"format_text": t})
            continue
        if isinstance(r, Success):
            n, f = r.unwrap()
            want = [Atom("ok"), n, [Atom("Format"), "".join(m.character for m in f.modes), list(f.ordering)]]
        else:
            want = [Atom("err"), Atom(type(r.failure()).__name__)]
        if sx(rep) != sx(want):
            mism += 1
            chk.unproved_obligation("correspondence:parse_named_format", f"model {sx(rep)} vs code {sx(want)}", {"format_text": t})
    chk.corr("parse_named_format", len(named), mism)


def taco_text_to_tensora(text: str) -> str:
    """taco spells an order-0 tensor as a bare name: give it back its empty parentheses (a name followed
    by `(` is a tensor whose parenthesis group lists index names and is copied unchanged)"""
    import re

    out, pos = [], 0
    for m in re.finditer(r"[A-Za-z][A-Za-z0-9]*", text):
        if m.start() < pos:
            continue
        out.append(text[pos:m.start()])
        rest = text[m.end():]
        if rest.lstrip(" ").startswith("(") and not (m.start() > 0 and (text[m.start() - 1].isdigit() or text[m.start() - 1] == ".")):
            close = text.index(")", m.end())
            out.append(text[m.start():close + 1])
            pos = close + 1
        elif m.start() > 0 and (text[m.start() - 1].isdigit() or text[m.start() - 1] == "."):
            out.append(m.group(0))  # exponent of a float literal (1e+20)
            pos = m.end()
        else:
            out.append(m.group(0) + "()")
            pos = m.end()
    out.append(text[pos:])
    return "".join(out)


def taco_part(chk: Check, drv: Driver):
    """generate/_deparse_to_taco.py (anchored in C12): the text printed for taco, read with the conventional
    grammar (tensora's own parser, after restoring `()` on scalars), must mean the same sum of products as
    the tree it was printed from (theorems `tacoToks_regroup`, `tacoRegroup_termsOf`)."""
    from tensora.generate._deparse_to_taco import deparse_to_taco

    from .. import kernels

    rng = chk.rng
    n = 1500 if chk.tier == "quick" else 20000
    texts = ["a(i) = b(i) - (c(i) - d(i))", "a(i) = b(i) - (c(i) + d(i))", "a() = s() - (t() - 2)", "a(i,j) = b(i,j) * (c(i) * d(j))",
             "a(i) = b(i) + (c(i) - d(i)) * (e() + 1.5)"] + gen_ast_texts(rng, n, 4)
    reqs, meta = [], []
    done = bad = 0
    for t in texts:
        r = real_parse(t)
        if r[0] != "ok":
            continue
        a = r[1]
        try:
            taco = deparse_to_taco(a)
        except BaseException as e:  # noqa: BLE001
            chk.violation(f"deparse_to_taco raised {type(e).__name__}: {str(e)[:120]}", {"text": t})
            continue
        back = real_parse(taco_text_to_tensora(taco))
        done += 1
        chk.case(("taco", taco))
        if back[0] != "ok":
            # literals that do not re-parse (inf: finding F7) are not this printer's business
            if "inf" in taco or "nan" in taco:
                continue
            bad += 1
            chk.violation("deparse_to_taco text is not a sentence of the conventional grammar", {"text": t, "taco": taco}, got=str(back[:2]))
            continue
        b = back[1]
        same = (b.target == a.target) and kernels.additive_terms(b.expression) == kernels.additive_terms(a.expression)
        if not same:
            bad += 1
            chk.violation("deparse_to_taco text read with the conventional precedence/associativity means a different sum of products",
                          {"text": t, "taco": taco}, expected=str(kernels.additive_terms(a.expression))[:300], got=str(kernels.additive_terms(b.expression))[:300])
        reqs.append("DEPARSETACO " + sx(export_ast(a)))
        meta.append((t, taco))
    chk.corr("deparse_to_taco-meaning(oracle)", done, bad)
    if TACO_MODEL:
        mism = 0
        for (t, taco), rep in zip(meta, drv.batch(reqs)):
            if rep != taco:
                mism += 1
                chk.unproved_obligation("correspondence:deparse_to_taco", f"model {rep!r} vs code {taco!r}", {"text": t})
        chk.corr("deparse_to_taco", len(meta), mism)


TACO_MODEL = True


def run(chk: Check, drv: Driver):
    chk.cov["rule"] = (
        "random sentences of the assignment grammar (depth<=3, redundant parentheses, spacing variants, every literal spelling class), "
        "single-character mutations of them, raw random text incl. tabs/newlines/non-ASCII digits and letters, validation-rejection cases; "
        "all format strings over {d,s,0..3} up to length 5 (6 thorough) + random + named formats; "
        "distinct = distinct accepted trees / rejected texts / accepted format strings"
    )
    assignments_part(chk, drv)
    rejection_oracle(chk, drv)
    taco_part(chk, drv)
    formats_part(chk, drv)
    chk.assumptions += ["int()/float()/str() of CPython convert literal lexemes; the model keeps lexemes"]


def replay(chk: Check, drv: Driver, path: str):
    v = json.loads(open(path).read())
    c = v.get("case") or {}
    if "text" in c:
        t = c["text"]
        rep = drv.ask("PARSE", t)
        real = real_parse(t)
        chk.case(("replay",), sample=c)
        if real[0] == "raised":
            chk.violation(f"parse_assignment raised {real[1]}", c)
        elif real[0] == "ok":
            ok = isinstance(rep, list) and rep[0] == "ok" and model_to_python(rep[1]) == py_triple(real[1])
            if not ok:
                chk.unproved_obligation("correspondence:parse_assignment", "replayed mismatch", c)
            back = real_parse(real[1].deparse())
            if back[0] != "ok" or back[1] != real[1]:
                chk.violation("parse(deparse(tree)) differs from tree", c)
        else:
            if not (isinstance(rep, list) and rep[0] == "err" and rep[1] == real[1]):
                chk.unproved_obligation("correspondence:parse_assignment", "replayed mismatch", c)
    else:
        run(chk, drv)
