"""C13 — kernel-allocated storage is freed exactly once, after its last user.

Model: Lean `Own.step` (names -> objects -> kernel-allocated arrays; reference counting); theorems: for
every history the invariant holds (no array freed twice, none freed while a name reaches its object,
every array of an unreachable object has been freed). Correspondence: the same histories run in a
subprocess under an LD_PRELOAD interposer that tracks free()/realloc()/malloc() on the registered
pos/crd/vals addresses of every kernel output; the set of arrays freed at each step must equal the model's.
"""
from __future__ import annotations

import itertools
import json
import os
import subprocess
import sys
import tempfile

from ..core import Atom, Check, Driver, MachineryError, VERIF, sx

KINDS = ["sparse", "dense", "scalar", "sparse2", "sparse2empty"]


def alphabet(names, kinds):
    ops = []
    for x in names:
        for k in kinds:
            ops.append(["eval", x, k])
        ops.append(["read", x])
        ops.append(["del", x])
    for y in names:
        for x in names:
            if x != y:
                ops.append(["alias", y, x])
                ops.append(["iter", y, x])
            ops.append(["pickle", y, x])
            ops.append(["feed", y, x, "sparse"])
    ops.append(["gc"])
    return ops


def op_sx(op):
    # an open reader (`y = x.items()`, not yet consumed) uses x's arrays: for the model it is a reference to x's
    # object, i.e. an alias (the runtime worker keeps only the iterator)
    head = "alias" if op[0] == "iter" else op[0]
    return [Atom(head)] + [Atom(x) if isinstance(x, str) else x for x in op[1:]]


def run(chk: Check, drv: Driver):
    chk.cov["rule"] = (
        "histories over {evaluate to sparse/dense/scalar/two-level output, alias, open reader (items() iterator), read, pickle round trip, feed as input, delete, gc.collect} "
        "on 2 names: all histories up to length 3 (4 thorough) over the full alphabet prefixed by one evaluation, plus seeded random "
        "histories of length 12 (30 thorough); distinct = distinct histories; non-trivial = at least one kernel array is freed before the end"
    )
    quick = chk.tier == "quick"
    rng = chk.rng
    so = VERIF / "native" / "build" / "interposer.so"
    if not so.exists():
        r = subprocess.run(["make", "-s", "-C", str(VERIF / "native")], capture_output=True, text=True)
        if r.returncode != 0 or not so.exists():
            raise MachineryError("cannot build native/interposer.so: " + r.stderr[-300:])
    ops = alphabet([0, 1], KINDS)
    hist = []
    # exhaustive: every history of up to 3 operations (after one evaluation); longer ones sampled
    for n in range(0, 4):
        for first in (["eval", 0, "sparse"], ["eval", 0, "dense"], ["eval", 0, "sparse2empty"]):
            if n >= 3 and first[2] != "sparse" and quick:
                continue
            for tail in itertools.product(ops, repeat=n):
                hist.append([first] + [list(t) for t in tail])
    exhaustive_upto = 3
    if quick:
        full = [h for h in hist if len(h) <= 3]
        hist = full + rng.sample([h for h in hist if len(h) == 4], 3000)
        exhaustive_upto = 2
    for _ in range(2000 if quick else 30000):
        hist.append([["eval", 0, rng.choice(KINDS)]] + [rng.choice(ops) for _ in range(4)])
    for _ in range(300 if quick else 3000):
        hist.append([rng.choice(ops) for _ in range(12 if quick else 30)])
    chk.count("exhaustive_up_to_length", exhaustive_upto)
    with tempfile.TemporaryDirectory(prefix="verif_c13_") as td:
        chunks = [hist[i::16] for i in range(16)]
        procs = []
        for k, ch in enumerate(chunks):
            inp, outp = os.path.join(td, f"in{k}.json"), os.path.join(td, f"out{k}.json")
            json.dump(ch, open(inp, "w"))
            env = dict(os.environ, LD_PRELOAD=str(so))
            procs.append((ch, outp, subprocess.Popen([sys.executable, str(VERIF / "harness" / "own_worker.py"), inp, outp], env=env,
                                                     stdout=subprocess.PIPE, stderr=subprocess.PIPE, text=True)))
        results = []
        for ch, outp, p in procs:
            try:
                out, err = p.communicate(timeout=1800 if quick else 14400)
            except subprocess.TimeoutExpired:
                for _, _, q in procs:
                    q.kill()
                raise MachineryError("own_worker timed out (machine overloaded?)")
            if p.returncode != 0:
                if p.returncode < 0:
                    chk.violation(f"process running ownership histories died with signal {-p.returncode}", {"stderr": err[-600:]})
                    continue
                raise MachineryError("own_worker failed: " + err[-600:])
            results += list(zip(ch, json.load(open(outp))))
    replies = drv.batch(["OWN " + sx([op_sx(o) for o in h]) for h, _ in results])
    mism = 0
    for (h, real), rep in zip(results, replies):
        case = {"history": h}
        freed_any = any(real["per_step"][:-1]) or any(real["per_step"])
        chk.case(json.dumps(h) if freed_any else None, sample={"history": h, "frees_per_step": real["per_step"]})
        chk.count("len_%d" % len(h))
        # ---- property oracle on the runtime ----
        if real["double"]:
            chk.violation("a kernel-allocated array was freed twice", case, got=real)
        if real["leaked"]:
            chk.violation("kernel-allocated arrays still allocated after the last reference disappeared (leak)", case, got=real)
        if not (isinstance(rep, list) and rep[0] == "ok"):
            chk.unproved_obligation("correspondence:ownership", f"driver: {sx(rep)[:200]}", case)
            continue
        model_steps = [sorted(int(x) for x in st) for st in rep[1]]
        real_steps = [sorted(st) for st in real["per_step"]]
        model_live = sorted(int(x) for x in rep[4])
        if model_steps != real_steps or model_live != sorted(real["live_end"]) or int(rep[3]) != real["n_arrays"]:
            mism += 1
            # a free while the model says a name still reaches the tensor is a violation, not just a mismatch
            early = any(set(r) - set(m) for r, m in zip(real_steps, model_steps))
            if early:
                chk.violation("array freed while a reference to its tensor was alive (model: still reachable)", case, expected=model_steps, got=real_steps)
            else:
                chk.unproved_obligation("correspondence:ownership", f"model frees {model_steps} live {model_live} vs runtime {real_steps} live {real['live_end']}", case)
    chk.corr("ownership-histories", len(results), mism)
    chk.cov["traces_validated_against_impl"] = len(results) - mism
    chk.assumptions += ["CPython reference counting, WeakKeyDictionary, cffi ffi.gc and glibc are modelled, not verified",
                        "addresses are tracked by an LD_PRELOAD interposer (malloc/calloc/realloc/free forwarded to __libc_*)"]


def replay(chk: Check, drv: Driver, path: str):
    run(chk, drv)
