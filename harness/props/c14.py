"""C14 — concurrent evaluations behave like sequential ones.

Model: Lean `Conc.step` (atomic steps over a shared kernel cache and ownership table); theorems: every
interleaving refines the sequential result, the cache only maps a key to its own kernel.
Oracle on the real runtime: N in {2,4,16} threads x mixes of cached / never-seen problems x both back
ends, repeated with cache_clear() and a tiny switch interval; every call must return exactly (raw arrays)
what the same call returns alone. Event traces (recorded by run-time wrappers, no source change) are
validated against the model: per-thread step order, and "a lookup that starts after an insertion of the
same key completed does not compile again".
"""
from __future__ import annotations

import json
import sys
import threading
import time

from .. import kernels, kruns, problems
from ..core import Atom, Check, Driver, sx


def _find_cache_clear(module):
    """cache_clear of every lru_cache-wrapped function of the module, combined"""
    fs = [getattr(v, "cache_clear") for v in vars(module).values() if callable(v) and hasattr(v, "cache_clear")]
    if not fs:
        return None

    def clear_all():
        for f in fs:
            f()

    return clear_all


class Tracer:
    """wraps cachable_tensor_method / TensorMethod.__init__ / allocate / take_ownership with event logging"""

    def __init__(self):
        self.events = []
        self.lock = threading.Lock()
        self.tl = threading.local()

    def log(self, kind, key=None):
        with self.lock:
            self.events.append((threading.get_ident(), kind, key, time.perf_counter()))

    def install(self):
        import tensora.compile._porcelain as po
        import tensora.compile._tensor_method as tmm

        self.po, self.tmm = po, tmm
        self.orig_cached = po.cachable_tensor_method
        self.orig_init = tmm.TensorMethod.__init__
        self.orig_alloc = tmm.allocate_taco_structure
        self.orig_own = tmm.take_ownership_of_arrays
        tr = self

        def cached(problem, backend):
            key = (problem.assignment.deparse(), tuple((n, f.deparse()) for n, f in problem.formats.items()), backend.name)
            tr.tl.key = key
            tr.log("start", key)
            r = tr.orig_cached(problem, backend)
            tr.log("have-kernel", key)
            return r

        # (a cache front-end without the lru_cache API is not a violation of anything: fall back to clearing whatever
        # lru_cache can still be found behind it, else to a no-op)
        inner = getattr(self.orig_cached, "__wrapped__", None)
        cached.cache_clear = getattr(self.orig_cached, "cache_clear", None) or _find_cache_clear(po) or (lambda: None)
        cached.cache_info = getattr(self.orig_cached, "cache_info", lambda: None)

        def init(self_, problem, backend=tmm.BackendCompiler.llvm):
            tr.log("compile-begin", getattr(tr.tl, "key", None))
            tr.orig_init(self_, problem, backend)
            tr.log("compile-end", getattr(tr.tl, "key", None))

        def alloc(*a, **k):
            tr.log("alloc", getattr(tr.tl, "key", None))
            return tr.orig_alloc(*a, **k)

        def own(*a, **k):
            tr.log("own", getattr(tr.tl, "key", None))
            return tr.orig_own(*a, **k)

        po.cachable_tensor_method = cached
        tmm.TensorMethod.__init__ = init
        tmm.allocate_taco_structure = alloc
        tmm.take_ownership_of_arrays = own

    def uninstall(self):
        self.po.cachable_tensor_method = self.orig_cached
        self.tmm.TensorMethod.__init__ = self.orig_init
        self.tmm.allocate_taco_structure = self.orig_alloc
        self.tmm.take_ownership_of_arrays = self.orig_own


VALID_SEQS = (("start", "have-kernel", "alloc", "own"), ("start", "compile-begin", "compile-end", "have-kernel", "alloc", "own"))


def validate_trace(chk: Check, events, round_case):
    """per-thread conformance with the model's step order + cache visibility"""
    per = {}
    for tid, kind, key, t in events:
        per.setdefault(tid, []).append((kind, key, t))
    ok = 0
    inserted = {}  # key -> earliest time a 'have-kernel' was logged
    for tid, kind, key, t in events:
        if kind == "have-kernel":
            inserted.setdefault(key, t)
    for tid, evs in per.items():
        i = 0
        while i < len(evs):
            # one call = from 'start' up to and including 'own'
            j = i
            seq = []
            while j < len(evs):
                seq.append(evs[j][0])
                j += 1
                if seq[-1] == "own":
                    break
            if tuple(seq) not in VALID_SEQS:
                chk.unproved_obligation("correspondence:concurrency-trace", f"thread step order {seq} is not a trace of the model", round_case)
            else:
                ok += 1
                key, t0 = evs[i][1], evs[i][2]
                if "compile-begin" in seq and key in inserted and inserted[key] < t0:
                    chk.violation("a kernel was compiled again although its insertion into the cache had completed before the lookup started", dict(round_case, key=str(key)))
            i = j
    return ok


def run(chk: Check, drv: Driver):
    from tensora import Tensor, evaluate
    from tensora.compile import evaluate_cffi
    from tensora.compile._porcelain import cachable_tensor_method

    chk.cov["rule"] = (
        "rounds of N in {2,4,16} threads, each issuing evaluate / evaluate_cffi calls drawn from a pool of problems (some warmed, some "
        "never seen, all re-randomised by cache_clear() every other round), switch interval 1e-6 in half of the rounds; "
        "distinct = (round, thread, call); non-trivial = call ran concurrently with at least one other"
    )
    quick = chk.tier == "quick"
    rng = chk.rng
    pool = []
    for pr in kruns.enumerate_problems(chk, n_random=(10 if quick else 60), per_assignment=(1 if quick else 3)):
        if pr.problem is None or pr.broadcast or not pr.generate():
            continue
        # several input variants with DIFFERENT dimensions per problem: concurrent calls of one cached kernel
        # with differently sized operands exercise per-call state that must not be shared
        for _v in range(3):
            sizes, ins = pr.gen_inputs(rng, choices=(1, 2, 3, 4, 5))
            pool.append((pr, sizes, ins))
    pool = pool[: (45 if quick else 300)]

    def call(pr, ins, backend):
        from ..gen import parse_fmt

        args = {}
        for name, (cv, dims) in ins.items():
            modes, ordering = pr.fmts[name]
            args[name] = kernels.make_tensor(cv, dims, modes, ordering)
        fn = evaluate if backend == "llvm" else evaluate_cffi
        res = fn(pr.text, pr.fs[pr.target], **args)
        raw = kernels.Raw.of_tensor(res)
        return (raw.levels, raw.vals, raw.dims)

    # sequential reference
    ref = {}
    for k, (pr, sizes, ins) in enumerate(pool):
        try:
            ref[(k, "llvm")] = call(pr, ins, "llvm")
        except Exception as e:  # noqa: BLE001
            ref[(k, "llvm")] = ("exc", type(e).__name__)
    cffi_ids = list(range(min(len(pool), 6 if quick else 20)))
    for k in cffi_ids:
        pr, sizes, ins = pool[k]
        try:
            ref[(k, "cffi")] = call(pr, ins, "cffi")
        except Exception as e:  # noqa: BLE001
            ref[(k, "cffi")] = ("exc", type(e).__name__)
    tracer = Tracer()
    tracer.install()
    old_interval = sys.getswitchinterval()
    rounds = 12 if quick else 200
    total_calls = validated = 0
    try:
        for r in range(rounds):
            n_threads = rng.choice([2, 4, 16])
            if r % 2 == 0:
                getattr(cachable_tensor_method, "cache_clear", lambda: None)()
            sys.setswitchinterval(1e-6 if r % 2 else old_interval)
            plan = []
            hot = rng.sample(range(len(pool)), min(len(pool), 3)) if r % 3 == 0 else None
            hot = [k for k in range(len(pool)) if hot and pool[k][0] is pool[hot[0]][0]] or None if hot else None
            for t in range(n_threads):
                calls = []
                for _ in range(rng.randint(2, 5) if hot is None else 12):
                    if hot is not None:
                        calls.append((rng.choice(hot), "llvm"))
                        continue
                    if cffi_ids and rng.random() < 0.15:
                        calls.append((rng.choice(cffi_ids), "cffi"))
                    else:
                        calls.append((rng.randrange(len(pool)), "llvm"))
                plan.append(calls)
            results = [[None] * len(c) for c in plan]
            tracer.events = []
            chk.mark({"round": r, "threads": n_threads, "plan": [[(pool[k][0].text, pool[k][0].fs, b) for k, b in c] for c in plan]})
            barrier = threading.Barrier(n_threads)

            def worker(t):
                barrier.wait()
                for j, (k, backend) in enumerate(plan[t]):
                    pr, sizes, ins = pool[k]
                    try:
                        results[t][j] = call(pr, ins, backend)
                    except Exception as e:  # noqa: BLE001
                        results[t][j] = ("exc", type(e).__name__)

            ths = [threading.Thread(target=worker, args=(t,)) for t in range(n_threads)]
            for th in ths:
                th.start()
            for th in ths:
                th.join(timeout=300)
                if th.is_alive():
                    chk.violation("a thread did not finish within 300 s (deadlock / hang)", {"round": r, "threads": n_threads})
            round_case = {"round": r, "threads": n_threads, "plan": [[(pool[k][0].text, pool[k][0].fs, b) for k, b in c] for c in plan][:4]}
            for t in range(n_threads):
                for j, (k, backend) in enumerate(plan[t]):
                    total_calls += 1
                    chk.case((r, t, j), sample={"round": r, "threads": n_threads, "call": [pool[k][0].text, pool[k][0].fs, backend]} if t == 0 and j == 0 else None)
                    if results[t][j] != ref[(k, backend)]:
                        chk.violation("a concurrent call returned something different from the same call made alone",
                                      dict(round_case, thread=t, call=[pool[k][0].text, pool[k][0].fs, backend]),
                                      expected=str(ref[(k, backend)])[:300], got=str(results[t][j])[:300])
            validated += validate_trace(chk, list(tracer.events), round_case)
            chk.count("rounds")
            chk.count(f"threads_{n_threads}")
    finally:
        sys.setswitchinterval(old_interval)
        tracer.uninstall()
    chk.count("calls", total_calls)
    chk.cov["traces_validated_against_impl"] = validated
    chk.corr("concurrency-trace", total_calls, total_calls - validated if validated <= total_calls else 0)
    chk.assumptions += [
        "schedules are sampled on the real runtime, not enumerated; GIL atomicity, llvmlite/LLVM and cffi thread safety are assumptions of the model",
        "the process would die on a crash: a crash is reported as a machinery failure with this check's name",
    ]


def replay(chk: Check, drv: Driver, path: str):
    run(chk, drv)
