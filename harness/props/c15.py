"""C15 — generated code is a pure function of the request; caching is invisible.

* text identity: generate_code for every enumerated problem, both languages, in fresh subprocesses under
  several PYTHONHASHSEEDs and two request orders, and through the CLI (stdout and -o) — byte-identical;
* make_problem (Python) vs Lean `makeProblem` (theorem: result independent of the order of the format
  mapping and of explicit all-dense entries); Problem.__eq__/__hash__ vs structural equality;
* cache: evaluate warm vs after cache_clear(); two requests share a cached TensorMethod iff equal problems.
"""
from __future__ import annotations

import hashlib
import json
import os
import subprocess
import sys
import tempfile

from .. import kernels, kruns, problems
from ..core import Atom, Check, Driver, REPO, VERIF, sx
from ..gen import fmt_str, parse_fmt
from .c10 import fmt_sx, sig_sx

WORKER = r"""
import sys, json, hashlib
from tensora.expression import parse_assignment
from tensora.format import parse_format
from tensora.problem import make_problem
from tensora.generate import generate_code, Language
from tensora.kernel_type import KernelType
from returns.result import Success
reqs = json.load(open(sys.argv[1]))
order = sys.argv[2]
idx = list(range(len(reqs)))
if order == "reverse":
    idx.reverse()
out = {}
for i in idx:
    text, fmts, kinds, lang = reqs[i]
    a = parse_assignment(text).unwrap()
    p = make_problem(a, {n: parse_format(f).unwrap() for n, f in fmts.items()}).unwrap()
    try:
        r = generate_code(p, [KernelType[k] for k in kinds], Language[lang])
    except Exception as e:
        out[i] = "EXC " + type(e).__name__
        continue
    out[i] = hashlib.sha256(r.unwrap().encode()).hexdigest() if isinstance(r, Success) else "FAIL " + type(r.failure()).__name__
print(json.dumps(out))
"""


def gen_requests(chk: Check):
    rng = chk.rng
    quick = chk.tier == "quick"
    reqs = []
    for pr in kruns.enumerate_problems(chk, n_random=(30 if quick else 300), per_assignment=(2 if quick else 8)):
        if pr.problem is None:
            continue
        kinds = rng.choice([["evaluate"], ["compute"], ["assemble"], ["evaluate", "assemble", "compute"]])
        for lang in ("c", "llvm"):
            reqs.append([pr.text, pr.fs, kinds, lang])
    return reqs


def text_identity(chk: Check):
    reqs = gen_requests(chk)
    with tempfile.TemporaryDirectory(prefix="verif_c15_") as td:
        rf = os.path.join(td, "reqs.json")
        wf = os.path.join(td, "worker.py")
        json.dump(reqs, open(rf, "w"))
        open(wf, "w").write(WORKER)
        seeds = ["0", "1", "2", "3", str(1000 + chk.seed)]
        results = {}
        procs = []
        for hs in seeds:
            for order in (["forward", "reverse"] if hs in ("0", "1") else ["forward"]):
                env = dict(os.environ, PYTHONHASHSEED=hs)
                procs.append(((hs, order), subprocess.Popen([sys.executable, wf, rf, order], env=env, stdout=subprocess.PIPE, stderr=subprocess.PIPE, text=True)))
        for key, p in procs:
            out, err = p.communicate(timeout=900)
            if p.returncode != 0:
                chk.violation(f"code generation crashed under PYTHONHASHSEED={key[0]} order={key[1]}", {"stderr": err[-800:]})
                continue
            results[key] = json.loads(out.strip().splitlines()[-1])
        base_key = ("0", "forward")
        base = results.get(base_key, {})
        for key, res in results.items():
            for i, h in res.items():
                chk.count("generations")
                if base.get(i) != h:
                    chk.violation(f"generated text differs between hash seed/order {base_key} and {key}",
                                  {"request": reqs[int(i)], "a": base.get(i), "b": h})
        for i, h in base.items():
            chk.case(("gen", json.dumps(reqs[int(i)], sort_keys=True)) if not h.startswith(("FAIL", "EXC")) else None,
                     sample={"request": reqs[int(i)], "sha256": h})
    return reqs


def cli_vs_library(chk: Check, reqs):
    from returns.result import Success
    from typer.testing import CliRunner

    from tensora.cli import app
    from tensora.expression import parse_assignment
    from tensora.format import parse_format
    from tensora.generate import Language, generate_code
    from tensora.kernel_type import KernelType
    from tensora.problem import make_problem

    rng = chk.rng
    runner = CliRunner()
    sample = rng.sample(reqs, min(len(reqs), 60 if chk.tier == "quick" else 600))
    with tempfile.TemporaryDirectory(prefix="verif_c15_") as td:
        for text, fmts, kinds, lang in sample:
            a = parse_assignment(text).unwrap()
            p = make_problem(a, {n: parse_format(f).unwrap() for n, f in fmts.items()}).unwrap()
            try:
                r = generate_code(p, [KernelType[k] for k in kinds], Language[lang])
            except Exception:  # noqa: BLE001 - internal errors are C08's business
                continue
            if not isinstance(r, Success):
                continue
            lib = r.unwrap()
            # unmentioned tensors are dense: drop all-dense natural-order formats from the CLI request
            args = [text]
            for n, f in fmts.items():
                modes, ordering = parse_fmt(f)
                if all(m == "d" for m in modes) and tuple(ordering) == tuple(range(len(modes))) and rng.random() < 0.7:
                    continue
                args += ["-f", f"{n}:{f}"]
            for k in kinds:
                args += ["-t", k]
            args += ["-l", lang]
            res = runner.invoke(app, args)
            case = {"request": [text, fmts, kinds, lang], "cli_args": args}
            chk.count("cli_runs")
            if res.exit_code != 0 or res.stdout != lib + "\n":
                chk.violation("CLI stdout differs from the library's text", case, got=res.stdout[:300])
            of = os.path.join(td, "out.txt")
            res2 = runner.invoke(app, args + ["-o", of])
            if res2.exit_code != 0 or open(of).read() != lib:
                chk.violation("CLI -o file differs from the library's text", case)


def problems_and_cache(chk: Check, drv: Driver):
    from returns.result import Success
    from tensora import Tensor, evaluate, tensor_method
    from tensora.compile._porcelain import cachable_tensor_method
    from tensora.expression import parse_assignment
    from tensora.format import Format, Mode, parse_format
    from tensora.problem import make_problem

    rng = chk.rng
    quick = chk.tier == "quick"
    pool = []
    texts = ["a(i) = b(i) + c(i)", "a(i) = c(i) + b(i)", "a(i) = b(i) * 1.0", "a(i) = b(i) * 1", "a(i) = b(i) * 0.0", "a(i,j) = b(i,j)",
             "a(i,j) = b(j,i)", "a(i) = b(i,j) * c(j)", "a(j) = b(j,i) * c(i)", "a() = b(i) * c(i)"] + [problems.random_assignment(rng) for _ in range(10 if quick else 40)]
    reqs, meta = [], []
    for text in texts:
        a = problems.parse(text)
        if a is None:
            continue
        for fmts in problems.format_assignments(a, rng, 4):
            # several presentations of the same request: shuffled order, explicit/implicit dense
            items = list(fmts.items())
            for _ in range(3):
                rng.shuffle(items)
                shown = [(n, f) for n, f in items if not (all(m == "d" for m in f[0]) and tuple(f[1]) == tuple(range(len(f[0]))) and rng.random() < 0.5)]
                fdict = {n: Format(tuple(Mode.dense if m == "d" else Mode.compressed for m in f[0]), tuple(f[1])) for n, f in shown}
                r = make_problem(a, fdict)
                want = ([Atom("ok"), [[n, fmt_sx([m.character for m in f.modes], f.ordering)] for n, f in r.unwrap().formats.items()]]
                        if isinstance(r, Success) else [Atom("err"), Atom(type(r.failure()).__name__)])
                reqs.append("MAKEPROBLEM " + sx(sig_sx(a)) + " " + sx([[n, fmt_sx(f[0], f[1])] for n, f in shown]))
                meta.append((text, shown, sx(want)))
                if isinstance(r, Success):
                    pool.append((text, r.unwrap()))
            # malformed: unused name, wrong order
            bad = dict(fmts)
            bad["zz"] = (("d",), (0,))
            fdict = {n: Format(tuple(Mode.dense if m == "d" else Mode.compressed for m in f[0]), tuple(f[1])) for n, f in bad.items()}
            r = make_problem(a, fdict)
            want = [Atom("err"), Atom(type(r.failure()).__name__)] if not isinstance(r, Success) else [Atom("ok")]
            reqs.append("MAKEPROBLEM " + sx(sig_sx(a)) + " " + sx([[n, fmt_sx(f[0], f[1])] for n, f in bad.items()]))
            meta.append((text, list(bad.items()), sx(want)))
    mism = 0
    for (text, shown, want), rep in zip(meta, drv.batch(reqs)):
        if sx(rep) != want:
            mism += 1
            chk.unproved_obligation("correspondence:make_problem", f"model {sx(rep)[:300]} vs code {want[:300]}", {"assignment": text, "formats": str(shown)})
    chk.corr("make_problem", len(meta), mism)
    # __eq__/__hash__ vs structural equality (deparse is injective on valid trees: C12 parse_deparse)
    pool = pool[: (150 if quick else 400)]
    n_eq = 0
    for i, (t1, p1) in enumerate(pool):
        for t2, p2 in pool[i:]:
            struct = p1.assignment.deparse() == p2.assignment.deparse() and [
                (n, f.deparse(), tuple(f.ordering)) for n, f in p1.formats.items()] == [(n, f.deparse(), tuple(f.ordering)) for n, f in p2.formats.items()]
            eq = p1 == p2
            n_eq += 1
            if eq != struct:
                chk.violation("Problem.__eq__ differs from structural equality", {"a": [t1, str(p1.formats)], "b": [t2, str(p2.formats)]})
            if eq and hash(p1) != hash(p2):
                chk.violation("equal problems with different hashes", {"a": [t1, str(p1.formats)], "b": [t2, str(p2.formats)]})
    chk.count("problem_pairs", n_eq)
    # cache sharing and cache invisibility
    cachable_tensor_method.cache_clear()
    seen = {}
    for text, p in pool[:80]:
        fs = {n: f.deparse() for n, f in p.formats.items()}
        try:
            tm = tensor_method(text, fs)
        except Exception:  # noqa: BLE001
            continue
        for (t2, p2), tm2 in seen.items():
            pass
        key = (p.assignment.deparse(), tuple((n, f.deparse()) for n, f in p.formats.items()))
        for k2, tm2 in seen.items():
            if (tm is tm2) != (key == k2):
                chk.violation("cached kernel shared between different problems (or not shared between equal ones)", {"a": key, "b": k2})
        seen[key] = tm
        chk.count("cache_pairs", len(seen))
    # warm vs cold results
    b = Tensor.from_dok({(0, 1): 2.0, (2, 2): 3.0}, dimensions=(3, 3), format="ds")
    c = Tensor.from_dok({(1,): 4.0, (2,): 5.0}, dimensions=(3,), format="s")
    for text, fmt in [("a(i) = b(i,j) * c(j)", "s"), ("a(i) = b(i,j) * c(j)", "d"), ("a(i,j) = b(i,j) * c(j)", "ds")]:
        warm1 = kernels.Raw.of_tensor(evaluate(text, fmt, b=b, c=c))
        warm2 = kernels.Raw.of_tensor(evaluate(text, fmt, b=b, c=c))
        cachable_tensor_method.cache_clear()
        cold = kernels.Raw.of_tensor(evaluate(text, fmt, b=b, c=c))
        chk.count("warm_cold")
        if (warm1.levels, warm1.vals) != (cold.levels, cold.vals) or (warm1.levels, warm1.vals) != (warm2.levels, warm2.vals):
            chk.violation("result through the cache differs from a freshly compiled kernel", {"assignment": text, "format": fmt})


def run(chk: Check, drv: Driver):
    chk.cov["rule"] = (
        "enumerated problems x kernel-kind subsets x {c, llvm} generated in fresh subprocesses under PYTHONHASHSEED in {0,1,2,3,1000+seed} "
        "and two request orders; CLI stdout / -o vs library; make_problem presentations (shuffled mapping, implicit dense); "
        "all pairs of a problem pool for __eq__/__hash__; distinct = distinct requests that produce code"
    )
    reqs = text_identity(chk)
    cli_vs_library(chk, reqs)
    problems_and_cache(chk, drv)
    chk.assumptions += ["hash seeds are sampled (5 values), request orders are 2 per seed"]


def replay(chk: Check, drv: Driver, path: str):
    run(chk, drv)
