"""C16 — work follows sparsity, not dimension size.

For every enumerated problem and every index that qualifies (stored only in compressed levels by every
operand and the output, mentioned by every additive term): (1) per-kernel certificate on the emitted
evaluate kernel: the variable `<i>_dim` is dead (declared once, never read) — with the Lean theorem
`deadVar_frame` this gives independence of the executed path from that dimension for ALL inputs;
(2) measurement on the Lean machine: loop iterations and executed statements are identical when the
dimension is scaled x1, x10, x10^4 with the same stored entries.
"""
from __future__ import annotations

import json

from .. import kernels, kruns, problems
from ..core import Check, Driver, sx
from ..export import export


def every_term(e):
    from tensora.expression import ast as s

    if isinstance(e, (s.Add, s.Subtract)):
        return every_term(e.left) & every_term(e.right)
    if isinstance(e, s.Multiply):
        return every_term(e.left) | every_term(e.right)
    if isinstance(e, s.Tensor):
        return set(e.indexes)
    return set()


def qualifying_indexes(pr: kruns.Prepared):
    a = pr.assignment
    cand = every_term(a.expression)
    out = []
    tensors = [a.target] + [t for ts in a.expression.variables().values() for t in ts]
    for i in sorted(cand):
        ok = True
        for t in tensors:
            modes, ordering = pr.fmts[t.name]
            for d, ix in enumerate(t.indexes):
                if ix == i:
                    level = list(ordering).index(d)
                    if modes[level] != "s":
                        ok = False
        if ok:
            out.append(i)
    # an index forced to share its size with a non-qualifying index (same dimension of a repeated
    # tensor) cannot be scaled alone: keep it only if its whole size class qualifies
    return [i for i in out if index_class(a, i) <= set(out)]


def index_class(a, i):
    """indexes forced to share a size with i (same dimension of a repeated tensor)"""
    part = a.index_participants()
    cls = {i}
    changed = True
    while changed:
        changed = False
        for j, ps in part.items():
            if j not in cls and any(ps & part[k] for k in cls):
                cls.add(j)
                changed = True
    return cls


def run(chk: Check, drv: Driver):
    chk.cov["rule"] = (
        "problems (curated + seeded random, formats biased to compressed levels) having >= 1 qualifying index x inputs x scalings "
        "{1,10,10^4} of that dimension; distinct = (assignment, formats, index, inputs); non-trivial = >= 1 stored entry along the index"
    )
    quick = chk.tier == "quick"
    rng = chk.rng
    from .. import graphcorr

    graphcorr.run(chk, drv, 2000 if quick else 20000)
    found = []
    for pr in kruns.enumerate_problems(chk, n_random=(80 if quick else 400), per_assignment=(12 if quick else 24)):
        if pr.problem is None:
            continue
        q = qualifying_indexes(pr)
        if not q:
            continue
        pr.generate()
        chk.count("status_" + pr.status)
        if pr.status == "ok":
            found.append((pr, q))
    chk.count("qualifying_problems", len(found))
    # certificates
    reqs, meta = [], []
    for pr, q in found:
        for i in q:
            reqs.append("CERT deadvar " + sx(export(pr.func("evaluate"))) + " " + sx(f"{i}_dim"))
            meta.append((pr, i))
    for (pr, i), rep in zip(meta, drv.batch(reqs)):
        chk.count("cert_deadvar_" + str(rep))
        if rep != "true":
            chk.violation(f"kernel reads {i}_dim although index {i} is stored only in compressed levels and mentioned by every term",
                          pr.case(index=i))
    # hypotheses of the universal theorem `generateIr_deadDim` (Props/C16Lowering.lean) on the graph the model
    # chooses: dimFree (every level of index i compressed, every loop over i lowered as a sparse loop) and
    # namesClear. Where they hold the certificate above is a THEOREM for the ported lowering pass (all kinds,
    # optimised or not); where a qualifying index does not meet them the per-kernel certificate stands alone.
    from .. import algebra

    reqs = []
    for pr, i in meta:
        fs = [[n, "".join(pr.fmts[n][0]), list(pr.fmts[n][1])] for n in pr.problem.formats.keys()]
        reqs.append("DIMFREE " + sx(algebra.export_assignment(pr.assignment)) + " " + sx(fs) + " " + sx(i))
    for (pr, i), rep in zip(meta, drv.batch(reqs)):
        if isinstance(rep, list) and len(rep) == 2 and rep[0] in ("true", "false"):
            chk.count("theorem_hypothesis_dimFree_" + rep[0])
            chk.count("theorem_hypothesis_namesClear_" + rep[1])
        else:
            chk.count("theorem_hypothesis_not_evaluated")
    # measurements
    items, tags = [], []
    for pr, q in found:
        for i in q:
            cls = index_class(pr.assignment, i)
            for _ in range(2 if quick else 4):
                sizes = problems.index_sizes(pr.assignment, rng, (1, 2, 3))
                ins = {}
                for name, t in pr.tensors_of().items():
                    dims = tuple(sizes[x] for x in t.indexes)
                    ins[name] = (problems.random_input(rng, dims, rng.choice([0.3, 0.6, 1.0])), dims)
                for scale in (1, 10, 10000):
                    s2 = {k: (v * scale if k in cls else v) for k, v in sizes.items()}
                    ins2 = {}
                    for name, t in pr.tensors_of().items():
                        ins2[name] = (ins[name][0], tuple(s2[x] for x in t.indexes))
                    items.append((pr, s2, ins2))
                    tags.append((pr, i, scale, sizes, ins))
    runs = kruns.machine_runs(drv, items, kinds=("evaluate",))
    base = {}
    for (pr, i, scale, sizes, ins), r in zip(tags, runs):
        key = (pr.key(), i, json.dumps(sorted((n, sorted(cv.items())) for n, (cv, _) in ins.items())), json.dumps(sizes, sort_keys=True))
        case = pr.case(sizes, ins, index=i, scale=scale)
        mr = r.evaluate
        if mr is None or not mr.ok:
            chk.violation(f"evaluate kernel fails on the machine at scale {scale}: {mr.err if mr else None}", case)
            continue
        chk.count("measurements")
        if scale == 1:
            base[key] = (mr.iters, mr.steps)
            stored = any(len(cv) for cv, _ in ins.values())
            chk.case(key if stored else None, sample=dict(case, iters=mr.iters, steps=mr.steps))
        else:
            b = base.get(key)
            if b is not None and b != (mr.iters, mr.steps):
                chk.violation(f"executed work depends on the size of dimension {i}: x1 -> {b}, x{scale} -> {(mr.iters, mr.steps)} (iterations, statements)", case)


def replay(chk: Check, drv: Driver, path: str):
    run(chk, drv)
