"""Persistent worker that runs the real back ends (C01/C02/C03/C06). One JSON request per line on
stdin, one JSON reply per line on stdout. A crash of this process is reported by the parent."""
import json
import sys

sys.path.insert(0, __import__("os").path.dirname(__import__("os").path.dirname(__import__("os").path.abspath(__file__))))

from harness import kernels  # noqa: E402


def main():
    out = sys.stdout
    for line in sys.stdin:
        req = json.loads(line)
        inputs_list = [{n: ({tuple(c): v for c, v in cv}, tuple(dims)) for n, (cv, dims) in ins.items()} for ins in req["inputs_list"]]
        cap = req.get("capacity")
        stack = req.get("stack")
        if stack:
            # run the kernels in a thread with a small stack: a kernel whose stack use grows with the number of loop
            # iterations (an alloca that is not in the entry block) overflows it on moderately large inputs
            import threading

            box = {}

            def work():
                try:
                    box["res"] = ("ok", kernels.run_real(req["text"], req["fs"], inputs_list, req["backend"], feedback=False))
                except BaseException as e:  # noqa: BLE001
                    box["res"] = ("exc", type(e).__name__, str(e)[:500])

            # compile first on the main thread (the compiler itself needs an ordinary stack)
            try:
                kernels.run_real(req["text"], req["fs"], [], req["backend"])
                threading.stack_size(int(stack))
                t = threading.Thread(target=work)
                t.start()
                t.join()
                threading.stack_size(0)
                res = box.get("res", ("exc", "NoResult", ""))
            except BaseException as e:  # noqa: BLE001
                res = ("exc", type(e).__name__, str(e)[:500])
            out.write(json.dumps(res) + "\n")
            out.flush()
            continue
        try:
            if cap is not None or req.get("clear"):
                from harness import kruns

                with kruns.initial_capacity(cap):
                    res = ("ok", kernels.run_real(req["text"], req["fs"], inputs_list, req["backend"], feedback=req.get("feedback", False)))
            else:
                res = ("ok", kernels.run_real(req["text"], req["fs"], inputs_list, req["backend"], feedback=req.get("feedback", False)))
        except BaseException as e:  # noqa: BLE001
            res = ("exc", type(e).__name__, str(e)[:500])
        out.write(json.dumps(res) + "\n")
        out.flush()


main()
