import TensoraVerif.Model.Sexp
import TensoraVerif.Model.Storage
import TensoraVerif.Model.IRWire
import TensoraVerif.Model.AlgebraWire
import TensoraVerif.Model.GraphWire
import TensoraVerif.Model.ParserWire
import TensoraVerif.Model.ApiWire
import TensoraVerif.Model.CPrint
import TensoraVerif.Model.CTokens
import TensoraVerif.Model.Ownership
import TensoraVerif.Model.GenerateIR
import TensoraVerif.Lemmas.PeepholeExact
import TensoraVerif.Model.Taco
import TensoraVerif.Model.Scoped
import TensoraVerif.Model.PeepTyped
import TensoraVerif.Lemmas.StoreCertGenerate
import TensoraVerif.Lemmas.LowerableComplete
import TensoraVerif.Lemmas.DimDeadGenerate
import TensoraVerif.Lemmas.Pipe1Class
import TensoraVerif.Lemmas.Sparse1Generate
import TensoraVerif.Lemmas.Dense2Generate
import TensoraVerif.Lemmas.SpmvGenerate
import TensoraVerif.Lemmas.SpmulGenerate
import TensoraVerif.Lemmas.SpaddModel
import TensoraVerif.Lemmas.DenseNModel
import TensoraVerif.Lemmas.Sparse2Generate
import TensoraVerif.Lemmas.DenseTermModel
import TensoraVerif.Lemmas.CsrKernelDef
import TensoraVerif.Lemmas.SpdotModel
import TensoraVerif.Lemmas.ConvModel
open TV

namespace Drv
open TV.Storage

/-- the terminal expression at the bottom of a linear nest of `.iter` nodes -/
def nestTerminal : TV.Graph.IGraph → Option TV.Graph.IdExpr
  | .terminal e => some e
  | .iter _ _ n => nestTerminal n
  | .sum _ => none

/-- `g` is the nest `.iter i₁ (some ⟨o,0⟩) (.iter i₂ (some ⟨o,1⟩) … (.terminal _))` over exactly the index list -/
def nestOK (o : TV.Graph.TensorId) : List String → Nat → TV.Graph.IGraph → Bool
  | [], _, .terminal _ => true
  | i :: rest, l, .iter j (some lf) n => i == j && decide (lf.tensor = o) && lf.layer == l && nestOK o rest (l + 1) n
  | _, _, _ => false

/-- the levels `(index, is-output)` of a linear nest whose output leaves are the levels 0,1,… of `o` in order -/
def nestLevels (o : TV.Graph.TensorId) : Nat → TV.Graph.IGraph → Option (List (String × Bool) × TV.Graph.IdExpr)
  | _, .terminal e => some ([], e)
  | k, .iter x (some lf) n =>
    if decide (lf.tensor = o) && lf.layer == k then (nestLevels o (k + 1) n).map fun r => ((x, true) :: r.1, r.2) else none
  | k, .iter x none n => (nestLevels o k n).map fun r => ((x, false) :: r.1, r.2)
  | _, .sum _ => none

def tensorIdOf (d : TV.Alg.DAssign) (fs : TV.Graph.Formats) : Option TV.Graph.TensorId :=
  TV.Graph.tensorId 0 d.tname fs d.tidx


def modeOf : Sexp → Option Mode
  | .atom "d" => some .dense
  | .atom "s" => some .compressed
  | _ => none

def entryOf (s : Sexp) : Option (List Int × Int) :=
  match s with
  | .list [c, v] => do pure (← c.toInts?, ← v.toInt?)
  | _ => none

def levelToSexp (l : Level) : Sexp :=
  match l.mode with
  | .dense => Sexp.mk "dense" []
  | .compressed => Sexp.mk "compressed" [Sexp.ofInts l.pos, Sexp.ofInts l.crd]

def levelOf (s : Sexp) : Option Level :=
  match s with
  | .list [.atom "dense"] => some ⟨.dense, [], []⟩
  | .list [.atom "compressed", p, c] => do pure ⟨.compressed, ← p.toInts?, ← c.toInts?⟩
  | _ => none

def storedToSexp (t : Stored) : Sexp :=
  Sexp.mk "stored" [Sexp.ofNats t.dims, Sexp.ofNats t.ordering,
    .list (t.levels.map levelToSexp), Sexp.ofInts t.vals]

def storedOf (s : Sexp) : Option Stored :=
  match s with
  | .list [.atom "stored", d, o, .list ls, v] => do
    pure ⟨← d.toNats?, ← o.toNats?, ← ls.mapM levelOf, ← v.toInts?⟩
  | _ => none

def entriesToSexp (es : List (List Int × Int)) : Sexp :=
  .list (es.map fun e => .list [Sexp.ofInts e.1, Sexp.ofInt e.2])

def encErr : EncErr → Sexp
  | .crdOutOfRange i => Sexp.mk "err" [.atom "crdOutOfRange", Sexp.ofNat i]
  | .badOrdering => Sexp.mk "err" [.atom "badOrdering"]
  | .badCoordinateLength => Sexp.mk "err" [.atom "badCoordinateLength"]

/-! #### small explicit environments for expression/statement equivalence runs (C07) -/
open TV.IR in
def valOf : Sexp → Option (Val Float)
  | .atom "true" => some (.bool true)
  | .atom "false" => some (.bool false)
  | .atom "null" => some .null
  | .list [.atom "f", .atom bits] => bits.toNat?.map fun n => .flt (Float.ofBits (UInt64.ofNat n))
  | .atom a => a.toInt?.map .int
  | _ => none

open TV.IR in
/-- `(env (var "i" (Integer) 3) (arr "A" (Float) (v0 v1 u)) …)`; `u` = uninitialised -/
def envOf (s : Sexp) : Option (State Float) :=
  match s with
  | .list (.atom "env" :: items) =>
    items.foldlM (fun (σ : State Float) it =>
      match it with
      | .list [.atom "var", .str n, ty, v] => do
        let ty ← Wire.tyOf ty
        let v ← (match v with | .atom "u" => some none | v => (valOf v).map some)
        pure { σ with vars := σ.vars ++ [⟨n, ty, v⟩] }
      | .list [.atom "arr", .str n, ty, .list cells] => do
        let ty ← Wire.tyOf ty
        let et ← (match ty with | .int => some ElemTy.int | .float => some ElemTy.float | _ => none)
        let cs ← cells.mapM fun c => (match c with | .atom "u" => some none | v => (valOf v).map some)
        let blk : Block Float := ⟨et, cs, .output, true⟩
        pure { σ with heap := σ.heap ++ [blk], vars := σ.vars ++ [⟨n, .ptr ty, some (.ptr σ.heap.length 0)⟩] }
      | _ => none) ⟨[], [], []⟩
  | _ => none

open TV.IR in
def valSame : Val Float → Val Float → Bool
  | .flt a, .flt b => a == b
  | .int a, .int b => a == b
  | .bool a, .bool b => a == b
  | .ptr a o, .ptr b o' => a == b && o == o'
  | .null, .null => true
  | .tensor a, .tensor b => a == b
  | .indices a, .indices b => a == b
  | .level a l, .level b l' => a == b && l == l'
  | _, _ => false

open TV.IR in
/-- numerically equal: identical, or original float = optimised int exactly -/
def valRel : Val Float → Val Float → Bool
  | .flt a, .int b => a == Float.ofInt b
  | a, b => valSame a b

open TV.IR in
def optSame (f : Val Float → Val Float → Bool) : Option (Val Float) → Option (Val Float) → Bool
  | none, none => true
  | some a, some b => f a b
  | _, _ => false

open TV.IR in
def stateSame (a b : State Float) : Bool :=
  a.vars.length == b.vars.length
  && (a.vars.zip b.vars).all (fun (x, y) => x.name == y.name && x.ty == y.ty && optSame valSame x.val y.val)
  && a.heap.length == b.heap.length
  && (a.heap.zip b.heap).all (fun (x, y) => x.len == y.len && x.live == y.live && x.ty == y.ty
      && (x.cells.zip y.cells).all fun (c, d) => optSame valSame c d)

open TV.IR in
def outcomeSexp (r : Except Err (Out Float)) : Sexp :=
  match r with
  | .error e => Sexp.mk "err" [.atom (Wire.errName e)]
  | .ok o => Sexp.mk "ok" [
      Sexp.mk "ret" [match o.ret with | some v => Wire.valToSexp v | none => .atom "none"],
      .list (o.st.vars.map fun v => .list [.str v.name, match v.val with | some x => Wire.valToSexp x | none => .atom "u"]),
      .list (o.st.heap.map fun b => Sexp.mk "blk" [Sexp.ofBool b.live, Wire.cellsToSexp b])]

open TV.IR in
/-- verdict of one (original, optimised, environment) triple according to the C07 statement -/
def equivVerdict (fuel : Nat) (orig opt : Stmt Float) (σ : State Float) : Sexp :=
  match exec fuel orig σ with
  | .error e => Sexp.mk "orig-fails" [.atom (Wire.errName e)]
  | .ok o =>
    match exec fuel opt σ with
    | .error .intOverflow => Sexp.mk "alt-overflow" []
    | .error e => Sexp.mk "DIFF" [.atom "opt-fails", .atom (Wire.errName e), outcomeSexp (.ok o)]
    | .ok o' =>
      if optSame valRel o.ret o'.ret && stateSame o.st o'.st then
        (if optSame valSame o.ret o'.ret then Sexp.mk "same" [] else Sexp.mk "retyped" [])
      else Sexp.mk "DIFF" [.atom "result", outcomeSexp (.ok o), outcomeSexp (.ok o')]

/-- `str(float)` of CPython, supplied by the harness as a table bits ↦ text -/
def showFloat (reprs : List Sexp) (f : Float) : String :=
  let key := toString f.toBits.toNat
  match reprs.find? (fun r => match r with | .list [.atom k, _] => k == key | _ => false) with
  | some (.list [_, .str t]) => t
  | _ => "?"

def ownKind : Sexp → Option Own.OutKind
  | .atom "sparse" => some .sparse
  | .atom "dense" => some .dense
  | .atom "scalar" => some .scalar
  | .atom "sparse2" => some .sparse2
  | .atom "sparse2empty" => some .sparse2empty
  | _ => none

def ownOp : Sexp → Option Own.Op
  | .list [.atom "eval", x, k] => do pure (.eval (← x.toNat?) (← ownKind k))
  | .list [.atom "alias", y, x] => do pure (.alias (← y.toNat?) (← x.toNat?))
  | .list [.atom "read", x] => do pure (.read (← x.toNat?))
  | .list [.atom "pickle", y, x] => do pure (.pickle (← y.toNat?) (← x.toNat?))
  | .list [.atom "feed", y, x, k] => do pure (.feed (← y.toNat?) (← x.toNat?) (← ownKind k))
  | .list [.atom "del", x] => do pure (.del (← x.toNat?))
  | .list [.atom "gc"] => some .gc
  | _ => none

def ratToFloat (r : Rat) : Float := Float.ofInt r.num / Float.ofNat r.den

def kindOf : Sexp → Option Gen.Kind
  | .atom "evaluate" => some .evaluate
  | .atom "assemble" => some .assemble
  | .atom "compute" => some .compute
  | _ => none

/-- the whole compiler in Lean: desugar → best graph → lower each kind → (optionally) peephole -/
def compileModule (a : Alg.Assign) (fs : Graph.Formats) (kinds : List Gen.Kind) (cap : Option Int) (opt : Bool) : Sexp :=
  let d := Alg.desugar a
  match Graph.bestAlgorithm d fs with
  | .diagonal => Sexp.mk "diagonal" []
  | .noKernel => Sexp.mk "nokernel" []
  | .graph g =>
    match kinds.mapM (fun k => Gen.generateIr ratToFloat cap d fs g k) with
    | .error .notImplemented => Sexp.mk "internal" [.atom "NotImplementedError"]
    | .error .runtime => Sexp.mk "internal" [.atom "RuntimeError"]
    | .ok funcs =>
      let m : IR.Module Float := ⟨funcs⟩
      Sexp.mk "ok" [IR.Wire.moduleToSexp (if opt then IR.peepM m else m)]

def handle (cmd : String) (args : List Sexp) : Sexp :=
  match cmd, args with
  | "PING", _ => .atom "pong"
  | "ENCODE", [.list ms, o, d, .list es] =>
    match ms.mapM modeOf, o.toNats?, d.toNats?, es.mapM entryOf with
    | some ms, some o, some d, some es =>
      match encode ms o d es with
      | .ok t => Sexp.mk "ok" [storedToSexp t]
      | .error e => encErr e
    | _, _, _, _ => Sexp.mk "bad-request" []
  | "DECODE", [t] =>
    match storedOf t with
    | some t => match decode t with
      | some es => Sexp.mk "ok" [entriesToSexp es]
      | none => Sexp.mk "err" [.atom "oob"]
    | none => Sexp.mk "bad-request" []
  | "WF", [t] =>
    match storedOf t with
    | some t => Sexp.ofBool (wfCheck t)
    | none => Sexp.mk "bad-request" []
  | "PEEPE", [e] =>
    match IR.Wire.exprOf e with
    | some e => IR.Wire.exprToSexp (IR.peepE e)
    | none => Sexp.mk "bad-request" [.str "unknown-constructor"]
  | "PEEPS", [s] =>
    match IR.Wire.stmtOf s with
    | some s => IR.Wire.stmtToSexp (IR.peepS s)
    | none => Sexp.mk "bad-request" [.str "unknown-constructor"]
  | "PEEPM", [m] =>
    match IR.Wire.moduleOf m with
    | some m => IR.Wire.moduleToSexp (IR.peepM m)
    | none => Sexp.mk "bad-request" [.str "unknown-constructor"]
  | "ECHOM", [m] =>
    match IR.Wire.moduleOf m with
    | some m => IR.Wire.moduleToSexp m
    | none => Sexp.mk "bad-request" [.str "unknown-constructor"]
  | "CPRINTE", [e, .list reprs] =>
    match IR.Wire.exprOf e with
    | some e => .str (IR.cExpr (showFloat reprs) e)
    | none => Sexp.mk "bad-request" [.str "unknown-constructor"]
  | "CPRINTS", [s, .list reprs] =>
    match IR.Wire.stmtOf s with
    | some s => .str ("\n".intercalate (IR.cStmt (showFloat reprs) s))
    | none => Sexp.mk "bad-request" [.str "unknown-constructor"]
  | "CPRINTM", [m, .list reprs] =>
    match IR.Wire.moduleOf m with
    | some m => .str (IR.cModule (showFloat reprs) m)
    | none => Sexp.mk "bad-request" [.str "unknown-constructor"]
  | "CERT", [.atom "layered", m] =>
    -- C06, per function of a module, over every printed expression of the body:
    -- (Layered, LeftNested, StrictLayered, identsOk)
    match IR.Wire.moduleOf m with
    | some m => .list (m.defs.map fun f => .list [Sexp.ofBool f.body.layered,
        Sexp.ofBool f.body.leftNested, Sexp.ofBool f.body.strictLayered, Sexp.ofBool f.body.identsOk])
    | none => Sexp.mk "bad-request" [.str "unknown-constructor"]
  | "CERT", [.atom "reassoc", m, .list reprs] =>
    -- C06 / F10, per function: the C text of every printed expression C re-associates
    match IR.Wire.moduleOf m with
    | some m => .list (m.defs.map fun f =>
        .list (f.body.reassociated.map fun e => .str (IR.cExpr (showFloat reprs) e)))
    | none => Sexp.mk "bad-request" [.str "unknown-constructor"]
  | "CERT", [.atom "scope", m] =>
    -- C06, per function: (scopeOK, hoistConsistent) = the two hypotheses of `scoped_eq_flat`
    match IR.Wire.moduleOf m with
    | some m => .list (m.defs.map fun f => .list [Sexp.ofBool (IR.scopeOK f.params f.body),
        Sexp.ofBool (IR.hoistConsistent f.params f.body)])
    | none => Sexp.mk "bad-request" [.str "unknown-constructor"]
  | "CERT", [.atom "stores", a, fs, m] =>
    -- C04/C05, per function of an emitted module: the store-target certificate of
    -- `generateIr_store_targets` / `generateIr_compute_structure_untouched`, evaluated on the code's own IR
    match Alg.Wire.assignOf a, Graph.Wire.formatsOf fs, IR.Wire.moduleOf m with
    | some a, some fs, some m =>
      let T := Gen.outTensor (Alg.desugar a) fs
      .list (m.defs.map fun f =>
        if f.name == "compute" then Sexp.ofBool (f.body.storeCert Gen.anyVar (Gen.okOutValArr T) false T.name)
        else Sexp.ofBool (f.body.storeCert Gen.anyVar (Gen.okOutArr T) true T.name))
    | _, _, _ => Sexp.mk "bad-request" [.str "stores-args"]
  | "CERT", [.atom "hoist", m] =>
    match IR.Wire.moduleOf m with
    | some m => Sexp.ofBool (m.defs.all fun f => IR.hoistConsistent f.params f.body)
    | none => Sexp.mk "bad-request" [.str "unknown-constructor"]
  | "OWN", [.list ops] =>
    match ops.mapM ownOp with
    | some ops =>
      let (final, per) := ops.foldl (fun (acc : Own.St × List (List Nat)) op =>
        let (s', freed) := Own.step acc.1 op
        (s', acc.2 ++ [freed])) (Own.St.init, [])
      Sexp.mk "ok" [.list (per.map Sexp.ofNats), Sexp.ofNats final.freed, Sexp.ofNat final.nextArr,
        Sexp.ofNats (final.objs.flatMap (·.2))]
    | none => Sexp.mk "bad-request" [.str "own-ops"]
  | "MAKEPROBLEM", [sg, fs] =>
    match Api.Wire.sigOf sg, Api.Wire.namedFmts fs with
    | some sg, some fs =>
      match Api.makeProblem sg fs with
      | .ok p => Sexp.mk "ok" [.list (p.formats.map fun (n, f) => .list [.str n, Api.Wire.fmtToSexp f])]
      | .error e => Sexp.mk "err" [.atom (Api.Wire.problemErrName e)]
    | _, _ => Sexp.mk "bad-request" [.str "makeproblem-args"]
  | "CALLCHECK", [p, args] =>
    match Api.Wire.problemOf p, Api.Wire.argsOf args with
    | some p, some args =>
      match Api.initCheck p with
      | some e => Sexp.mk "init-err" [.atom (Api.Wire.callErrName e)]
      | none =>
        match Api.callCheck p args with
        | .ok dims => Sexp.mk "ok" [Sexp.ofNats dims]
        | .error e => Sexp.mk "err" [.atom (Api.Wire.callErrName e)]
    | _, _ => Sexp.mk "bad-request" [.str "callcheck-args"]
  | "OPSYNTH", [l, r, .str op] =>
    match Api.Wire.operandOf l, Api.Wire.operandOf r, Api.Wire.opOfStr op with
    | some l, some r, some op =>
      match Api.binarySynth l r op with
      | .ok (a, f) => Sexp.mk "ok" [.str (Api.Wire.assignText a), Api.Wire.fmtToSexp f]
      | .error .valueError => Sexp.mk "err" [.atom "ValueError"]
      | .error .notImplemented => Sexp.mk "err" [.atom "NotImplemented"]
    | _, _, _ => Sexp.mk "bad-request" [.str "opsynth-args"]
  | "MATMULSYNTH", [.list [.atom "tensor", fl, dl], .list [.atom "tensor", fr, dr]] =>
    match Api.Wire.fmtOf fl, dl.toNats?, Api.Wire.fmtOf fr, dr.toNats? with
    | some fl, some dl, some fr, some dr =>
      match Api.matmulSynth fl dl fr dr with
      | .ok (a, f) => Sexp.mk "ok" [.str (Api.Wire.assignText a), Api.Wire.fmtToSexp f]
      | .error _ => Sexp.mk "err" [.atom "ValueError"]
    | _, _, _, _ => Sexp.mk "bad-request" [.str "matmul-args"]
  | "PARSE", [.str s] =>
    match Parse.parseAssignment s with
    | .ok a => Sexp.mk "ok" [Parse.Wire.assignToSexp a]
    | .error e => Sexp.mk "err" [.atom (Parse.Wire.errName e)]
  | "DEPARSE", [a] =>
    match Parse.Wire.assignOf a with
    | some a => .str a.deparse
    | none => Sexp.mk "bad-request" [.str "unknown-constructor"]
  | "DEPARSETACO", [a] =>
    match Parse.Wire.assignOf a with
    | some a => .str a.deparseTaco
    | none => Sexp.mk "bad-request" [.str "unknown-constructor"]
  | "VALIDATE", [a] =>
    match Parse.Wire.assignOf a with
    | some a => match Parse.validate a with
      | some e => Sexp.mk "err" [.atom (Parse.Wire.errName e)]
      | none => Sexp.mk "ok" []
    | none => Sexp.mk "bad-request" [.str "unknown-constructor"]
  | "PARSEFMT", [.str s] =>
    match Parse.parseFormat s with
    | .ok f => Sexp.mk "ok" [Parse.Wire.fmtToSexp f]
    | .error e => Sexp.mk "err" [.atom (Parse.Wire.fmtErrName e)]
  | "PARSENAMED", [.str s] =>
    match Parse.parseNamedFormat s with
    | .ok (n, f) => Sexp.mk "ok" [.str n, Parse.Wire.fmtToSexp f]
    | .error e => Sexp.mk "err" [.atom (Parse.Wire.fmtErrName e)]
  | "DEPARSEFMT", [f] =>
    match Parse.Wire.fmtOf f with
    | some f => .str f.deparse
    | none => Sexp.mk "bad-request" [.str "unknown-constructor"]
  | "COMPILE", [a, fs, .list kinds, cap, opt] =>
    match Alg.Wire.assignOf a, Graph.Wire.formatsOf fs, kinds.mapM kindOf, opt.toBool? with
    | some a, some fs, some kinds, some opt =>
      compileModule a fs kinds (match cap with | .atom "default" => none | c => c.toInt?) opt
    | _, _, _, _ => Sexp.mk "bad-request" [.str "compile-args"]
  | "GRAPH", [a, fs] =>
    match Alg.Wire.assignOf a, Graph.Wire.formatsOf fs with
    | some a, some fs =>
      let d := Alg.desugar a
      let outModes := match fs.find? (·.1 == a.tname) with | some (_, ms, _) => ms | none => []
      match Graph.toIterationGraphs d fs with
      | .error .diagonal => Sexp.mk "diagonal" []
      | .error .missingFormat => Sexp.mk "missing-format" []
      | .ok [] => Sexp.mk "nokernel" []
      | .ok (g :: rest) =>
        Sexp.mk "graph" [Graph.Wire.graphToSexp g, Sexp.ofNat (rest.length + 1),
          Sexp.ofBool (Graph.lowerable outModes g (.append 0)),
          -- hypotheses of `lowerable_iff_generateIr_ok` and of `generateIr_store_targets` on the chosen graph
          Sexp.ofBool (Gen.properSums g), Sexp.ofBool (Gen.noSkip g),
          Sexp.ofBool (Gen.outLeavesOf (Gen.outTensor d fs) g)]
    | _, _ => Sexp.mk "bad-request" [.str "graph-args"]
  | "CLASS", [a, fs] =>
    -- which end-to-end theorem covers this problem, decided from the theorems' own (decidable) hypotheses:
    -- `dense1` = `Dense1Source` + `Dense1Names` of `evaluate_correct_dense1` (whole pipeline);
    -- `sparse1` / `dense2` = the graph the model chooses is `Sparse1.graph` / `Dense2.graph` with the class
    -- predicates of `sparse1_kernel_correct` / `dense2_kernel_correct` (name side conditions: no '_' in names)
    match Alg.Wire.assignOf a, Graph.Wire.formatsOf fs with
    | some a, some fs =>
      let fnames : List String := List.map (fun (f : String × List Graph.Mode × List Nat) => f.1) fs
      let plain := fnames.all (fun n => !n.toList.contains '_') && a.tidx.all (fun i => !i.toList.contains '_')
      let d1 := match a.tidx with
        | [i] =>
          Pipe1.srcOk i a.tname fs a.rhs && Pipe1.isD fs a.tname && Pipe1.fmtsD fs && plain && !fnames.contains i
        | _ => false
      if d1 then .atom "dense1" else
      let d := Alg.desugar a
      match Graph.toIterationGraphs d fs with
      | .ok (g :: _) =>
        -- denseN: the nest over the target's index list, all dense, element-wise (orders >= 2; order 1 is dense1)
        let isN := a.tidx.length >= 2 && a.tidx.eraseDups.length == a.tidx.length && plain && Dense2.denseFormats fs &&
          (match tensorIdOf d fs with
           | some o => DenseN.isLeaf a.tidx o && (match nestTerminal g with
              | some e => DenseN.isExpr a.tidx e && nestOK o a.tidx 0 g && (ToIr.leaves e).all (fun t => t.name != o.name)
              | none => false)
           | none => false)
        if isN then .atom "denseN" else
        -- sparse2: two-level compressed copy / scale
        let isS2 := match g, a.tidx with
          | .iter i (some ⟨o, 0⟩) (.iter j (some ⟨o', 1⟩) (.terminal e)), [i', j'] =>
            i == i' && j == j' && i != j && decide (o = o') && plain && Sparse2.isSS i j o && Sparse2.ssFormats fs &&
            (match ToIr.leaves e with | [bT] => Sparse2.isExpr i j bT e && fnames == [o.name, bT.name] | _ => false)
          | _, _ => false
        if isS2 then .atom "sparse2" else
        -- csr: CSR copy / scale (ds -> ds)
        let isCsr := match g, a.tidx with
          | .iter i (some ⟨o, 0⟩) (.iter j (some ⟨o', 1⟩) (.terminal e)), [i', j'] =>
            i == i' && j == j' && i != j && decide (o = o') && plain && Csr.isDS i j o && Csr.dsFormats fs &&
            (match ToIr.leaves e with | [bT] => Csr.isExpr i j bT e && fnames == [o.name, bT.name] | _ => false)
          | _, _ => false
        if isCsr then .atom "csr" else
        -- spdot: sparse dot product into a scalar; d2s: dense vector stored compressed
        let fmodes : List (List Graph.Mode) := List.map (fun (f : String × List Graph.Mode × List Nat) => f.2.1) fs
        let isDot := match g, tensorIdOf d fs with
          | .iter i none (.terminal (.mul (.tensor bT) (.tensor cT))), some o =>
            plain && Spdot.isClass i o bT cT && bT.name != cT.name && fnames == [o.name, bT.name, cT.name] &&
            fmodes == [[], [Graph.Mode.compressed], [Graph.Mode.compressed]]
          | _, _ => false
        if isDot then .atom "spdot" else
        let isD2S := match g with
          | .iter i (some ⟨o, 0⟩) (.terminal (.tensor bT)) =>
            plain && Sparse1.isSp i o && Dense1.isLeaf i bT && fnames == [o.name, bT.name] && fmodes == [[Graph.Mode.compressed], [Graph.Mode.dense]]
          | _ => false
        if isD2S then .atom "d2s" else
        -- denseTerm: any all-dense linear nest with contraction loops (matrix product, dot product, ...)
        let isDT := plain && Dense2.denseFormats fs && (match tensorIdOf d fs with
          | some o => (match nestLevels o 0 g with
            | some (lv, e) =>
              lv.any (fun p => !p.2) && (DenseTerm.idxs lv).eraseDups.length == lv.length && DenseTerm.isOut lv o &&
              DenseTerm.isExpr (DenseTerm.idxs lv) e && !DenseTerm.zeroish e && DenseTerm.idsOK (ToIr.leaves e) &&
              (ToIr.leaves e).all (fun t => t.name != o.name)
            | none => false)
          | none => false)
        match g with
        | .iter i (some ⟨o, 0⟩) (.terminal e) =>
          let one := match ToIr.leaves e with | [bT] => Sparse1.isExpr i bT e && fnames == [o.name, bT.name] | _ => false
          let mul2 := match e with
            | .mul (.tensor bT) (.tensor cT) => Spmul.isClass i o bT cT && bT.name != cT.name
            | _ => false
          let add2 := match e with
            | .add (.tensor bT) (.tensor cT) => Spmul.isClass i o bT cT && bT.name != cT.name
            | _ => false
          if plain && Sparse1.isSp i o && Sparse1.sparseFormats fs && one then .atom "sparse1"
          else if plain && Sparse1.sparseFormats fs && mul2 then .atom "spmul"
          else if plain && Sparse1.sparseFormats fs && add2 then .atom "spadd" else .atom "none"
        | .iter i (some ⟨o, 0⟩) (.iter j none (.terminal e)) =>
          let csr := match e with
            | .mul (.tensor tB) (.tensor tC) =>
              Dense2.isI i o && Spmv.isCsr i j tB && Dense2.isJ j tC && fs == Spmv.spFormats o.name tB.name tC.name
            | _ => false
          if plain && i != j && csr then .atom "spmv" else
          if plain && i != j && Dense1.isLeaf i o && Dense2.isExpr i j e && Dense2.idsOK i j e && Dense2.denseFormats fs
            && (ToIr.leaves e).all (fun t => t.name != o.name) then .atom "dense2"
          else if isDT then .atom "denseTerm" else .atom "none"
        | _ => if isDT then .atom "denseTerm" else .atom "none"
      | _ => .atom "none"
    | _, _ => Sexp.mk "bad-request" [.str "class-args"]
  | "DIMFREE", [a, fs, .str i] =>
    -- C16: the hypotheses of `generateIr_deadDim` (dimFree, namesClear) on the graph the model chooses
    match Alg.Wire.assignOf a, Graph.Wire.formatsOf fs with
    | some a, some fs =>
      let d := Alg.desugar a
      match Graph.toIterationGraphs d fs with
      | .ok (g :: _) => .list [Sexp.ofBool (Gen.dimFree i (Gen.outTensor d fs) g), Sexp.ofBool (Gen.namesClear i d fs)]
      | _ => Sexp.mk "nograph" []
    | _, _ => Sexp.mk "bad-request" [.str "dimfree-args"]
  | "EXHAUST", [e, .list refs] =>
    match Graph.Wire.idExprOf e, refs.mapM Sexp.toStr? with
    | some e, some refs => Graph.Wire.idExprToSexp (Graph.exhaustAll e refs)
    | _, _ => Sexp.mk "bad-request" [.str "unknown-constructor"]
  | "CONTEXT", [e, .str i] =>
    match Graph.Wire.idExprOf e with
    | some e => Graph.Wire.contextToSexp (Graph.extractContext e i)
    | none => Sexp.mk "bad-request" [.str "unknown-constructor"]
  | "DESUGAR", [a] =>
    match Alg.Wire.assignOf a with
    | some a =>
      let d := Alg.desugar a
      Sexp.mk "ok" [Alg.Wire.dexprToSexp d.rhs, Sexp.ofBool (Alg.productHoistUnsafe a.tidx a.rhs)]
    | none => Sexp.mk "bad-request" [.str "unknown-constructor"]
  | "DENOTE", [a, inputs, sizes] =>
    -- values of the specification and of the desugared tree at every target coordinate
    match Alg.Wire.assignOf a, Alg.Wire.inputsOf inputs, Alg.Wire.sizesOf sizes with
    | some a, some inp, some sz =>
      let d := Alg.desugar a
      Sexp.mk "ok" [.list ((Alg.Wire.box (a.tidx.map sz)).map fun c =>
        .list [Sexp.ofNats c, Alg.Wire.ratToSexp (Alg.denote a inp sz c), Alg.Wire.ratToSexp (Alg.denoteDA d inp sz c)])]
    | _, _, _ => Sexp.mk "bad-request" [.str "denote-args"]
  | "CERT", [.atom "nofloatid", m] =>
    -- per function of a module: the decidable side condition of `peephole_stmt_sound_stable`
    match IR.Wire.moduleOf m with
    | some m => .list (m.defs.map fun f => Sexp.ofBool (IR.NoFloatIdentityS f.body))
    | none => Sexp.mk "bad-request" [.str "unknown-constructor"]
  | "CERT", [.atom "noretype", m] =>
    -- per function of a module: the decidable side condition of `peephole_func_sound_typed` (typed stable fragment)
    match IR.Wire.moduleOf m with
    | some m => .list (m.defs.map fun f => Sexp.ofBool f.noRetype)
    | none => Sexp.mk "bad-request" [.str "unknown-constructor"]
  | "CERT", [.atom "deadvar", f, .str x] =>
    match IR.Wire.funcOf f with
    | some f => Sexp.ofBool (f.body.deadVar x)
    | none => Sexp.mk "bad-request" [.str "unknown-constructor"]
  | "CERT", [.atom "noalloc", f] =>
    match IR.Wire.funcOf f with
    | some f => Sexp.ofBool f.body.noAlloc
    | none => Sexp.mk "bad-request" [.str "unknown-constructor"]
  | "EQUIV", [fuel, a, b, .list envs] =>
    match fuel.toNat?, IR.Wire.stmtOf a, IR.Wire.stmtOf b, envs.mapM envOf with
    | some fuel, some a, some b, some envs =>
      -- a bare expression is evaluated as `return e`
      let wrap (s : IR.Stmt Float) : IR.Stmt Float := match s with | .expr e => .ret e | s => s
      .list (envs.map fun σ => equivVerdict fuel (wrap a) (wrap b) σ)
    | _, _, _, _ => Sexp.mk "bad-request" [.str "equiv-args"]
  | "RUNENV", [fuel, a, env] =>
    match fuel.toNat?, IR.Wire.stmtOf a, envOf env with
    | some fuel, some a, some σ =>
      let wrap (s : IR.Stmt Float) : IR.Stmt Float := match s with | .expr e => .ret e | s => s
      outcomeSexp (IR.exec fuel (wrap a) σ)
    | _, _, _ => Sexp.mk "bad-request" [.str "runenv-args"]
  | "EXEC", [fuel, f, .list ts] =>
    match fuel.toNat?, IR.Wire.funcOf f, ts.mapM IR.Wire.tensorInOf with
    | some fuel, some f, some ts =>
      let σ0 := IR.Wire.buildState ts
      match IR.Wire.bindParams σ0 f.params (ts.map (·.name)) with
      | none => Sexp.mk "bad-request" [.str "params"]
      | some σ =>
        match IR.exec fuel f.body σ with
        | .error e => Sexp.mk "err" [.atom (IR.Wire.errName e)]
        | .ok o =>
          Sexp.mk "ok" [
            Sexp.mk "ret" [match o.ret with | some v => IR.Wire.valToSexp v | none => .atom "none"],
            .list ((ts.map (·.name)).zip o.st.tensors |>.map fun (n, t) => IR.Wire.tensorDump o.st n t),
            Sexp.mk "iters" [Sexp.ofNat o.iters], Sexp.mk "steps" [Sexp.ofNat o.steps],
            Sexp.mk "blocks" [Sexp.ofNat o.st.heap.length]]
    | _, _, _ => Sexp.mk "bad-request" [.str "exec-args"]
  | _, _ => Sexp.mk "bad-request" [.str cmd]

end Drv

partial def loop (h : IO.FS.Stream) (out : IO.FS.Stream) : IO Unit := do
  let line ← h.getLine
  if line.isEmpty then return ()
  match Sexp.parseAll line.toList [] with
  | some (.atom cmd :: args) => out.putStrLn (toString (Drv.handle cmd args)); out.flush
  | _ => out.putStrLn "(bad-request)"; out.flush
  loop h out

def main : IO Unit := do
  let out ← IO.getStdout
  loop (← IO.getStdin) out
  out.flush
