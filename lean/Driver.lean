import TensoraVerif.Model.Sexp
import TensoraVerif.Model.Storage
open TV

namespace Drv
open TV.Storage

def modeOf : Sexp → Option Mode
  | .atom "d" => some .dense
  | .atom "s" => some .compressed
  | _ => none

def entryOf (s : Sexp) : Option (List Int × Int) :=
  match s with
  | .list [c, v] => do pure (← c.toInts?, ← v.toInt?)
  | _ => none

def levelToSexp (l : Level) : Sexp :=
  match l.mode with
  | .dense => Sexp.mk "dense" []
  | .compressed => Sexp.mk "compressed" [Sexp.ofInts l.pos, Sexp.ofInts l.crd]

def levelOf (s : Sexp) : Option Level :=
  match s with
  | .list [.atom "dense"] => some ⟨.dense, [], []⟩
  | .list [.atom "compressed", p, c] => do pure ⟨.compressed, ← p.toInts?, ← c.toInts?⟩
  | _ => none

def storedToSexp (t : Stored) : Sexp :=
  Sexp.mk "stored" [Sexp.ofNats t.dims, Sexp.ofNats t.ordering,
    .list (t.levels.map levelToSexp), Sexp.ofInts t.vals]

def storedOf (s : Sexp) : Option Stored :=
  match s with
  | .list [.atom "stored", d, o, .list ls, v] => do
    pure ⟨← d.toNats?, ← o.toNats?, ← ls.mapM levelOf, ← v.toInts?⟩
  | _ => none

def entriesToSexp (es : List (List Int × Int)) : Sexp :=
  .list (es.map fun e => .list [Sexp.ofInts e.1, Sexp.ofInt e.2])

def encErr : EncErr → Sexp
  | .crdOutOfRange i => Sexp.mk "err" [.atom "crdOutOfRange", Sexp.ofNat i]
  | .badOrdering => Sexp.mk "err" [.atom "badOrdering"]
  | .badCoordinateLength => Sexp.mk "err" [.atom "badCoordinateLength"]

def handle (cmd : String) (args : List Sexp) : Sexp :=
  match cmd, args with
  | "PING", _ => .atom "pong"
  | "ENCODE", [.list ms, o, d, .list es] =>
    match ms.mapM modeOf, o.toNats?, d.toNats?, es.mapM entryOf with
    | some ms, some o, some d, some es =>
      match encode ms o d es with
      | .ok t => Sexp.mk "ok" [storedToSexp t]
      | .error e => encErr e
    | _, _, _, _ => Sexp.mk "bad-request" []
  | "DECODE", [t] =>
    match storedOf t with
    | some t => match decode t with
      | some es => Sexp.mk "ok" [entriesToSexp es]
      | none => Sexp.mk "err" [.atom "oob"]
    | none => Sexp.mk "bad-request" []
  | "WF", [t] =>
    match storedOf t with
    | some t => Sexp.ofBool (wfCheck t)
    | none => Sexp.mk "bad-request" []
  | _, _ => Sexp.mk "bad-request" [.str cmd]

end Drv

partial def loop (h : IO.FS.Stream) (out : IO.FS.Stream) : IO Unit := do
  let line ← h.getLine
  if line.isEmpty then return ()
  match Sexp.parseAll line.toList [] with
  | some (.atom cmd :: args) => out.putStrLn (toString (Drv.handle cmd args)); out.flush
  | _ => out.putStrLn "(bad-request)"; out.flush
  loop h out

def main : IO Unit := do
  let out ← IO.getStdout
  loop (← IO.getStdin) out
  out.flush
