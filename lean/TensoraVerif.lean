import TensoraVerif.Model.Sexp
import TensoraVerif.Model.Storage
import TensoraVerif.Lemmas.Storage
import TensoraVerif.Props.C09
import TensoraVerif.Model.IR
import TensoraVerif.Model.Machine
import TensoraVerif.Model.IRWire
import TensoraVerif.Model.FloatLaws
