import TensoraVerif.Model.Sexp
import TensoraVerif.Model.Storage
