import TensoraVerif.Model.Sexp
import TensoraVerif.Model.Storage
import TensoraVerif.Lemmas.Storage
import TensoraVerif.Props.C09
