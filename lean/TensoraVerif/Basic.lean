def hello := "world"
