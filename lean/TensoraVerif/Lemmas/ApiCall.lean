import TensoraVerif.Model.Api

/-!
Helpers for C10: the three stages of `callCheck` (`Model/Api.lean`) characterised separately —
the keyword-name check, the per-parameter check and the index-size check.
-/
namespace TV.Api

/-- `Except` has no `DecidableEq` in core; needed to `decide` the concrete examples (scoped to `TV.Api`) -/
scoped instance exceptDecEq {ε α : Type} [DecidableEq ε] [DecidableEq α] : DecidableEq (Except ε α)
  | .ok a, .ok b => if h : a = b then isTrue (by rw [h]) else isFalse (fun h' => h (by cases h'; rfl))
  | .error a, .error b => if h : a = b then isTrue (by rw [h]) else isFalse (fun h' => h (by cases h'; rfl))
  | .ok _, .error _ => isFalse (fun h => by cases h)
  | .error _, .ok _ => isFalse (fun h => by cases h)

/-! ### generic list facts -/

/-- a duplicate-free list included in a list that is not longer is a permutation of it -/
theorem perm_of_nodup_subset_length {α : Type} [BEq α] [LawfulBEq α] :
    ∀ (l₁ l₂ : List α), l₁.Nodup → (∀ x ∈ l₁, x ∈ l₂) → l₂.length ≤ l₁.length → l₂.Perm l₁
  | [], l₂, _, _, hl => by
    have : l₂ = [] := List.eq_nil_of_length_eq_zero (by simpa using hl)
    subst this; exact .nil
  | a :: t, l₂, hn, hs, hl => by
    have ha : a ∈ l₂ := hs a (List.mem_cons_self ..)
    have hnt : t.Nodup := (List.nodup_cons.mp hn).2
    have hat : a ∉ t := (List.nodup_cons.mp hn).1
    have hs' : ∀ x ∈ t, x ∈ l₂.erase a := fun x hx =>
      (List.mem_erase_of_ne (fun h => hat (by rw [← h]; exact hx))).mpr (hs x (List.mem_cons_of_mem _ hx))
    have hlen : (l₂.erase a).length ≤ t.length := by
      rw [List.length_erase_of_mem ha]; simp at hl; omega
    exact (List.perm_cons_erase ha).trans ((perm_of_nodup_subset_length t _ hnt hs' hlen).cons a)

theorem allEq_iff (xs : List Nat) : allEq xs = true ↔ ∀ x ∈ xs, ∀ y ∈ xs, x = y := by
  cases xs with
  | nil => simp [allEq]
  | cons a t =>
    simp only [allEq, List.all_eq_true, beq_iff_eq, List.mem_cons]
    constructor
    · intro h x hx y hy
      have hx' : x = a := by rcases hx with rfl | hx; rfl; exact h x hx
      have hy' : y = a := by rcases hy with rfl | hy; rfl; exact h y hy
      rw [hx', hy']
    · intro h x hx
      exact h x (.inr hx) a (.inl rfl)

theorem allEq_headD {xs : List Nat} (h : allEq xs = true) {x : Nat} (hx : x ∈ xs) : xs.headD 0 = x := by
  cases xs with
  | nil => cases hx
  | cons a t => exact ((allEq_iff _).mp h) a (List.mem_cons_self ..) x hx

/-! ### argument lookup -/

/-- the size of dimension `d` of the argument supplied under the name `n` (0 if there is no such
argument, it is not a tensor, or it has fewer dimensions) — the very look-up `callCheck` performs -/
def dimOf (args : List (String × Arg)) (n : String) (d : Nat) : Nat :=
  match args.find? (·.1 == n) with
  | some (_, arg) => (argDims arg).getD d 0
  | none => 0

theorem find?_key_eq_some_iff {β : Type} {l : List (String × β)} (hn : (l.map (·.1)).Nodup) (n : String) (v : β) :
    (∃ n', l.find? (·.1 == n) = some (n', v)) ↔ (n, v) ∈ l := by
  induction l with
  | nil => simp
  | cons a t ih =>
    simp only [List.map_cons, List.nodup_cons] at hn
    by_cases h : a.1 = n
    · have : (a.1 == n) = true := by simp [h]
      simp only [List.find?_cons, this, List.mem_cons]
      constructor
      · rintro ⟨n', hn'⟩
        left
        cases a; cases hn'; simp at h; simp [h]
      · rintro (h' | h')
        · exact ⟨a.1, by cases a; cases h'; rfl⟩
        · exfalso; apply hn.1; rw [h]; exact List.mem_map.mpr ⟨_, h', rfl⟩
    · have : (a.1 == n) = false := by simp [h]
      simp only [List.find?_cons, this, List.mem_cons]
      rw [ih hn.2]
      constructor
      · exact .inr
      · rintro (h' | h')
        · exfalso; apply h; rw [← h']
        · exact h'

theorem find?_key_fst {β : Type} {l : List (String × β)} {n n' : String} {v : β}
    (h : l.find? (·.1 == n) = some (n', v)) : n' = n := by
  have := List.find?_some h
  simpa using this

/-! ### stage 1: keyword names -/

def namesOk (inputs : List (String × Fmt)) (args : List (String × Arg)) : Bool :=
  !(!(args.all fun na => inputs.any (·.1 == na.1)) || !(inputs.all fun nf => args.any (·.1 == nf.1))
      || args.length != inputs.length)

theorem namesOk_iff (inputs : List (String × Fmt)) (args : List (String × Arg)) :
    namesOk inputs args = true ↔
      (∀ n, n ∈ args.map (·.1) → n ∈ inputs.map (·.1)) ∧ (∀ n, n ∈ inputs.map (·.1) → n ∈ args.map (·.1)) ∧
        args.length = inputs.length := by
  simp only [namesOk, Bool.not_or, Bool.not_not, Bool.and_eq_true, List.all_eq_true, List.any_eq_true,
    beq_iff_eq, Bool.not_eq_eq_eq_not, Bool.not_true,
    List.mem_map, and_assoc]
  constructor
  · rintro ⟨h1, h2, h3⟩
    refine ⟨?_, ?_, ?_⟩
    · rintro n ⟨a, ha, rfl⟩
      obtain ⟨x, hx, hxe⟩ := h1 a ha
      exact ⟨x, hx, hxe⟩
    · rintro n ⟨a, ha, rfl⟩
      obtain ⟨x, hx, hxe⟩ := h2 a ha
      exact ⟨x, hx, hxe⟩
    · simpa using h3
  · rintro ⟨h1, h2, h3⟩
    refine ⟨?_, ?_, ?_⟩
    · intro a ha
      obtain ⟨x, hx, hxe⟩ := h1 a.1 ⟨a, ha, rfl⟩
      exact ⟨x, hx, hxe⟩
    · intro a ha
      obtain ⟨x, hx, hxe⟩ := h2 a.1 ⟨a, ha, rfl⟩
      exact ⟨x, hx, hxe⟩
    · simpa using h3

/-! ### stage 2: per-parameter check -/

def paramCheck (args : List (String × Arg)) (nf : String × Fmt) : Option CallErr :=
  match args.find? (·.1 == nf.1) with
  | some (_, .tensor ms o d) =>
    if d.length != nf.2.order then some .valueError
    else if ms != nf.2.modes then some .valueError
    else if o != nf.2.ordering then some .valueError
    else none
  | _ => some .typeError

def perParam (args : List (String × Arg)) (inputs : List (String × Fmt)) : Option CallErr :=
  inputs.foldl (fun (acc : Option CallErr) nf =>
    match acc with
    | some e => some e
    | none => paramCheck args nf) none

def sizesOk (a : AssignSig) (args : List (String × Arg)) : Bool :=
  ((a.refs.flatMap (·.idx)).eraseDups).all fun i => allEq (participantSizes a args i)

def outDims (a : AssignSig) (args : List (String × Arg)) : List Nat :=
  a.tidx.map fun i => (participantSizes a args i).headD 0

theorem callCheck_eq (p : Problem) (args : List (String × Arg)) :
    callCheck p args =
      if !namesOk (inputFormats p) args then .error .typeError
      else match perParam args (inputFormats p) with
        | some e => .error e
        | none => if sizesOk p.assign args then .ok (outDims p.assign args) else .error .valueError := by
  simp only [callCheck, namesOk, Bool.not_not]
  rfl

private theorem perParam_fold_some (args : List (String × Arg)) (inputs : List (String × Fmt)) (e : CallErr) :
    inputs.foldl (fun (acc : Option CallErr) nf =>
      match acc with
      | some e => some e
      | none => paramCheck args nf) (some e) = some e := by
  induction inputs with
  | nil => rfl
  | cons a t ih => exact ih

theorem perParam_cons (args : List (String × Arg)) (nf : String × Fmt) (inputs : List (String × Fmt)) :
    perParam args (nf :: inputs) =
      match paramCheck args nf with
      | some e => some e
      | none => perParam args inputs := by
  unfold perParam
  simp only [List.foldl_cons]
  cases h : paramCheck args nf with
  | none => rfl
  | some e => exact perParam_fold_some args inputs e

theorem perParam_none_iff (args : List (String × Arg)) (inputs : List (String × Fmt)) :
    perParam args inputs = none ↔ ∀ nf ∈ inputs, paramCheck args nf = none := by
  induction inputs with
  | nil => simp [perParam]
  | cons a t ih =>
    rw [perParam_cons]
    cases h : paramCheck args a with
    | none => simp [ih, h]
    | some e => simp [h]

theorem paramCheck_kind (args : List (String × Arg)) (nf : String × Fmt) (e : CallErr)
    (h : paramCheck args nf = some e) : e = .typeError ∨ e = .valueError := by
  unfold paramCheck at h
  split at h
  · repeat' split at h
    all_goals first | (cases h; simp) | cases h
  · cases h; simp

theorem perParam_kind (args : List (String × Arg)) (inputs : List (String × Fmt)) (e : CallErr)
    (h : perParam args inputs = some e) : e = .typeError ∨ e = .valueError := by
  induction inputs with
  | nil => cases h
  | cons a t ih =>
    rw [perParam_cons] at h
    cases hc : paramCheck args a with
    | none => rw [hc] at h; exact ih h
    | some e' => rw [hc] at h; cases h; exact paramCheck_kind args a _ hc

theorem paramCheck_none_iff (args : List (String × Arg)) (nf : String × Fmt) :
    paramCheck args nf = none ↔
      ∃ n' ms o d, args.find? (·.1 == nf.1) = some (n', .tensor ms o d) ∧ d.length = nf.2.order ∧
        ms = nf.2.modes ∧ o = nf.2.ordering := by
  unfold paramCheck
  split
  · rename_i n' ms o d heq
    simp only [heq, Option.some.injEq, Prod.mk.injEq, Arg.tensor.injEq]
    constructor
    · intro h
      refine ⟨n', ms, o, d, ⟨rfl, rfl, rfl, rfl⟩, ?_⟩
      repeat' split at h
      all_goals first | cases h | skip
      rename_i h1 h2 h3
      simp at h1 h2 h3
      exact ⟨h1, h2, h3⟩
    · rintro ⟨_, _, _, _, ⟨rfl, rfl, rfl, rfl⟩, h1, h2, h3⟩
      simp [h1, h2, h3]
  · rename_i hne
    simp only [reduceCtorEq, false_iff]
    rintro ⟨n', ms, o, d, heq, _⟩
    exact hne n' ms o d heq

/-! ### stage 3: index sizes -/

theorem mem_participantSizes (a : AssignSig) (args : List (String × Arg)) (i : String) (v : Nat) :
    v ∈ participantSizes a args i ↔
      ∃ r ∈ a.refs, ∃ d, d < r.idx.length ∧ r.idx[d]! = i ∧ dimOf args r.name d = v := by
  unfold participantSizes
  simp only [List.mem_flatMap, List.mem_filterMap, List.mem_range]
  constructor
  · rintro ⟨r, hr, d, hd, h⟩
    refine ⟨r, hr, d, hd, ?_⟩
    split at h
    · rename_i hi
      have hi' : r.idx[d]! = i := by
        simp only [List.getD_eq_getElem?_getD, beq_iff_eq] at hi
        simp only [List.getElem!_eq_getElem?_getD]
        exact hi
      refine ⟨hi', ?_⟩
      unfold dimOf
      split at h <;> rename_i heq
      · rw [heq]; simpa using h
      · rw [heq]; simpa using h
    · cases h
  · rintro ⟨r, hr, d, hd, hi, hv⟩
    refine ⟨r, hr, d, hd, ?_⟩
    have hi' : (r.idx.getD d "" == i) = true := by
      simp only [List.getD_eq_getElem?_getD, beq_iff_eq]
      simp only [List.getElem!_eq_getElem?_getD] at hi
      exact hi
    rw [if_pos hi']
    unfold dimOf at hv
    split at hv <;> rename_i heq
    · rw [heq]; simpa using hv
    · rw [heq]; simp [hv]

/-- the shared-size condition, quantified over pairs of occurrences -/
def SizesAgree (a : AssignSig) (args : List (String × Arg)) : Prop :=
  ∀ r₁ ∈ a.refs, ∀ r₂ ∈ a.refs, ∀ d₁ d₂, d₁ < r₁.idx.length → d₂ < r₂.idx.length →
    r₁.idx[d₁]! = r₂.idx[d₂]! → dimOf args r₁.name d₁ = dimOf args r₂.name d₂

theorem allEq_participants_iff (a : AssignSig) (args : List (String × Arg)) :
    (∀ i, allEq (participantSizes a args i) = true) ↔ SizesAgree a args := by
  simp only [allEq_iff, mem_participantSizes]
  constructor
  · intro h r₁ h₁ r₂ h₂ d₁ d₂ hd₁ hd₂ he
    exact h (r₂.idx[d₂]!) _ ⟨r₁, h₁, d₁, hd₁, he, rfl⟩ _ ⟨r₂, h₂, d₂, hd₂, rfl, rfl⟩
  · rintro h i x ⟨r₁, h₁, d₁, hd₁, he₁, rfl⟩ y ⟨r₂, h₂, d₂, hd₂, he₂, rfl⟩
    exact h r₁ h₁ r₂ h₂ d₁ d₂ hd₁ hd₂ (he₁.trans he₂.symm)

theorem sizesOk_iff_forall (a : AssignSig) (args : List (String × Arg)) :
    sizesOk a args = true ↔ ∀ i, allEq (participantSizes a args i) = true := by
  simp only [sizesOk, List.all_eq_true, List.mem_eraseDups]
  constructor
  · intro h i
    by_cases hi : i ∈ a.refs.flatMap (·.idx)
    · exact h i hi
    · have : participantSizes a args i = [] := by
        apply List.eq_nil_iff_forall_not_mem.mpr
        intro v hv
        obtain ⟨r, hr, d, hd, he, _⟩ := (mem_participantSizes a args i v).mp hv
        apply hi
        refine List.mem_flatMap.mpr ⟨r, hr, ?_⟩
        rw [← he, getElem!_pos r.idx d hd]
        exact List.getElem_mem hd
      rw [this]; rfl
  · intro h i _; exact h i

theorem sizesOk_iff (a : AssignSig) (args : List (String × Arg)) :
    sizesOk a args = true ↔ SizesAgree a args :=
  (sizesOk_iff_forall a args).trans (allEq_participants_iff a args)

end TV.Api
