import TensoraVerif.Lemmas.ApiCall

/-!
Helpers for C15: `variableOrders` lists every tensor once; `makeProblem` (`Model/Api.lean`) restated with
a named per-tensor look-up `fillFmt`.
-/
namespace TV.Api

/-! ### `variableOrders` -/

private def voStep (acc : List (String × Nat)) (r : Ref) : List (String × Nat) :=
  if acc.any (·.1 == r.name) then acc else acc ++ [(r.name, r.idx.length)]

private theorem voStep_nodup (acc : List (String × Nat)) (r : Ref) (h : (acc.map (·.1)).Nodup) :
    ((voStep acc r).map (·.1)).Nodup := by
  unfold voStep
  split
  · exact h
  · rename_i hany
    rw [List.map_append, List.nodup_append]
    refine ⟨h, by simp, ?_⟩
    intro x hx y hy
    simp only [List.map_cons, List.map_nil, List.mem_singleton] at hy
    subst hy
    intro hxe
    apply hany
    obtain ⟨a, ha, hax⟩ := List.mem_map.mp hx
    exact List.any_eq_true.mpr ⟨a, ha, by simp [hax, hxe]⟩

private theorem vo_fold_nodup (refs : List Ref) (acc : List (String × Nat)) (h : (acc.map (·.1)).Nodup) :
    ((refs.foldl voStep acc).map (·.1)).Nodup := by
  induction refs generalizing acc with
  | nil => exact h
  | cons r t ih => exact ih _ (voStep_nodup acc r h)

/-- every tensor is listed once -/
theorem variableOrders_nodup (a : AssignSig) : ((variableOrders a).map (·.1)).Nodup :=
  vo_fold_nodup a.refs _ (by simp)

theorem variableOrders_unique (a : AssignSig) {n : String} {o o' : Nat}
    (h : (n, o) ∈ variableOrders a) (h' : (n, o') ∈ variableOrders a) : o = o' := by
  obtain ⟨_, h1⟩ := (find?_key_eq_some_iff (variableOrders_nodup a) n o).mpr h
  obtain ⟨_, h2⟩ := (find?_key_eq_some_iff (variableOrders_nodup a) n o').mpr h'
  rw [h1] at h2
  cases h2; rfl

/-! ### `makeProblem` -/

/-- the format `make_problem` gives to the tensor `no.1` of order `no.2` -/
def fillFmt (formats : List (String × Fmt)) (no : String × Nat) : String × Fmt :=
  match formats.find? (·.1 == no.1) with
  | some (_, f) => (no.1, f)
  | none => (no.1, Fmt.allDense no.2)

def unusedAny (a : AssignSig) (formats : List (String × Fmt)) : Bool :=
  formats.any fun nf => !((variableOrders a).any (·.1 == nf.1))

theorem makeProblem_eq (a : AssignSig) (formats : List (String × Fmt)) :
    makeProblem a formats =
      if unusedAny a formats then .error .unusedFormat
      else if ((variableOrders a).zip ((variableOrders a).map (fillFmt formats))).any
          (fun x => x.1.2 != x.2.2.order) then .error .incorrectDimensions
      else .ok ⟨a, (variableOrders a).map (fillFmt formats)⟩ := by
  simp only [makeProblem, unusedAny]
  rfl

theorem fillFmt_fst (formats : List (String × Fmt)) (no : String × Nat) : (fillFmt formats no).1 = no.1 := by
  unfold fillFmt; split <;> rfl

/-- look-up by key in a duplicate-free association list is invariant under permutation -/
theorem find?_key_perm {β : Type} {l l' : List (String × β)} (hp : l.Perm l') (hn : (l.map (·.1)).Nodup)
    (n : String) : l.find? (·.1 == n) = l'.find? (·.1 == n) := by
  have hn' : (l'.map (·.1)).Nodup := (hp.map _).nodup_iff.mp hn
  cases h : l.find? (·.1 == n) with
  | some nv =>
    obtain ⟨n₁, v⟩ := nv
    have e1 := find?_key_fst h
    subst e1
    have hm : (n₁, v) ∈ l' := hp.subset ((find?_key_eq_some_iff hn n₁ v).mp ⟨_, h⟩)
    obtain ⟨n₂, h2⟩ := (find?_key_eq_some_iff hn' n₁ v).mpr hm
    have e2 := find?_key_fst h2
    subst e2
    exact h2.symm
  | none =>
    cases h' : l'.find? (·.1 == n) with
    | none => rfl
    | some nv =>
      obtain ⟨n₁, v⟩ := nv
      have e1 := find?_key_fst h'
      subst e1
      have hm : (n₁, v) ∈ l := hp.symm.subset ((find?_key_eq_some_iff hn' n₁ v).mp ⟨_, h'⟩)
      obtain ⟨n₂, h2⟩ := (find?_key_eq_some_iff hn n₁ v).mpr hm
      rw [h] at h2; cases h2

theorem fillFmt_perm {fs fs' : List (String × Fmt)} (hp : fs.Perm fs') (hn : (fs.map (·.1)).Nodup)
    (no : String × Nat) : fillFmt fs no = fillFmt fs' no := by
  unfold fillFmt; rw [find?_key_perm hp hn]

theorem unusedAny_perm (a : AssignSig) {fs fs' : List (String × Fmt)} (hp : fs.Perm fs') :
    unusedAny a fs = unusedAny a fs' := by
  unfold unusedAny
  rw [Bool.eq_iff_iff]
  simp only [List.any_eq_true]
  constructor
  · rintro ⟨x, hx, h⟩; exact ⟨x, hp.subset hx, h⟩
  · rintro ⟨x, hx, h⟩; exact ⟨x, hp.symm.subset hx, h⟩

end TV.Api
