import TensoraVerif.Lemmas.ApiCall
import TensoraVerif.Lemmas.DesugarSpec

/-!
Helpers for C11: the generated index names are pairwise different, the environment built from them reads the
coordinate back, and a term all of whose indexes are target indexes denotes its plain value.
-/
namespace TV.Api
open TV.Alg

/-! ### generated index names -/

theorem natRepr_inj {n m : Nat} (h : n.repr = m.repr) : n = m := by
  have h1 : Nat.toDigits 10 n = Nat.toDigits 10 m := by
    rw [← Nat.toList_repr, ← Nat.toList_repr, h]
  have h2 := congrArg (fun l => Nat.ofDigitChars 10 l 0) h1
  simpa using h2

theorem idxName_inj {n m : Nat} (h : "i" ++ toString n = "i" ++ toString m) : n = m := by
  rw [String.append_right_inj, Nat.toString_eq_repr, Nat.toString_eq_repr] at h
  exact natRepr_inj h

theorem idxNames_length (n : Nat) : (idxNames n).length = n := by simp [idxNames]

/-- the generated index names `i0, i1, …` are pairwise different (by injectivity of `Nat.repr`, no hypothesis) -/
theorem idxNames_nodup (n : Nat) : (idxNames n).Nodup := by
  unfold idxNames
  rw [List.nodup_iff_pairwise_ne]
  have hr : List.Pairwise (fun (a b : Nat) => a ≠ b) (List.range n) :=
    List.nodup_iff_pairwise_ne.mp List.nodup_range
  exact List.Pairwise.map _ (fun a b (hab : a ≠ b) h => hab (idxName_inj h)) hr

/-! ### environments -/

theorem Env.get_cons_self (i : String) (v : Nat) (env : Env) : Env.get ((i, v) :: env) i = v := by
  simp [Env.get]

theorem Env.get_cons_ne {i j : String} (h : j ≠ i) (v : Nat) (env : Env) :
    Env.get ((i, v) :: env) j = Env.get env j := by
  have : (i == j) = false := by simpa using fun h' => h h'.symm
  simp [Env.get, this]

/-- the environment `tidx.zip coord` reads the coordinate back through the target indexes -/
theorem map_get_zip : ∀ (idx : List String) (c : List Nat), idx.Nodup → c.length = idx.length →
    idx.map (Env.get (idx.zip c)) = c
  | [], [], _, _ => rfl
  | [], _ :: _, _, h => by simp at h
  | _ :: _, [], _, h => by simp at h
  | i :: t, x :: cs, hn, hl => by
    have hn' := List.nodup_cons.mp hn
    simp only [List.zip_cons_cons, List.map_cons, Env.get_cons_self, List.cons.injEq, true_and]
    refine Eq.trans (List.map_congr_left ?_) (map_get_zip t cs hn'.2 (by simpa using hl))
    intro j hj
    exact Env.get_cons_ne (fun h => hn'.1 (by rw [← h]; exact hj)) _ _

/-! ### terms without own indexes -/

/-- all indexes of the term are target indexes: nothing is summed -/
theorem termDen_closed (inputs : Inputs) (sizes : Sizes) (tidx : List String) (env : Env) (t : Term)
    (h : ∀ f ∈ t.factors, ∀ i ∈ f.2, i ∈ tidx) : termDen inputs sizes tidx env t = t.val inputs env := by
  unfold termDen
  have : (t.indexes.filter fun i => !tidx.contains i) = [] := by
    apply List.filter_eq_nil_iff.mpr
    intro i hi
    obtain ⟨f, hf, hif⟩ := (Term.mem_indexes t i).mp hi
    simp [h f hf i hif]
  rw [this, sumOver_nil]

/-- the meaning of the operator symbols on values -/
def opVal : Op → Rat → Rat → Rat
  | .add, x, y => x + y
  | .sub, x, y => x - y
  | .mul, x, y => x * y

/-- meaning of `l op r` for two tensor references whose indexes are all target indexes -/
theorem denote_binary_closed (op : Op) (tidx il ir : List String) (inputs : Inputs) (sizes : Sizes)
    (c : List Nat) (hl : ∀ i ∈ il, i ∈ tidx) (hr : ∀ i ∈ ir, i ∈ tidx) :
    denote ⟨"output", tidx, opOf op (.tensor "left" il) (.tensor "right" ir)⟩ inputs sizes c =
      opVal op (inputs "left" (il.map (Env.get (tidx.zip c)))) (inputs "right" (ir.map (Env.get (tidx.zip c)))) := by
  rw [denote_eq_lsum]
  cases op
  · simp only [opOf, termsOf, List.cons_append, List.nil_append, lsum_cons, lsum_nil, opVal]
    rw [termDen_closed _ _ _ _ _ (by simpa using hl), termDen_closed _ _ _ _ _ (by simpa using hr)]
    simp only [Term.val, List.foldl_cons, List.foldl_nil]
    grind
  · simp only [opOf, termsOf, List.cons_append, List.nil_append, List.map_cons, List.map_nil, lsum_cons,
      lsum_nil, opVal]
    rw [termDen_closed _ _ _ _ _ (by simpa using hl), termDen_closed _ _ _ _ _ (by simpa [Term.neg] using hr)]
    simp only [Term.val, Term.neg, List.foldl_cons, List.foldl_nil]
    grind
  · simp only [opOf, termsOf, List.flatMap_cons, List.flatMap_nil, List.map_cons, List.map_nil,
      List.append_nil, lsum_cons, lsum_nil, opVal]
    rw [termDen_closed _ _ _ _ _ (by
      simp only [Term.mul, List.cons_append, List.nil_append, List.mem_cons, List.not_mem_nil, or_false]
      rintro f (rfl | rfl)
      · exact hl
      · exact hr)]
    simp only [Term.val, Term.mul, List.cons_append, List.nil_append, List.foldl_cons, List.foldl_nil]
    grind

/-! ### formats -/

theorem zipModes_length (g : Mode → Mode → Mode) : ∀ (xs ys : List Mode),
    (zipModes g xs ys).length = min xs.length ys.length
  | [], _ => by simp [zipModes]
  | _ :: _, [] => by simp [zipModes]
  | x :: xs, y :: ys => by simp [zipModes, zipModes_length g xs ys, Nat.succ_min_succ]

theorem zipModes_getElem (g : Mode → Mode → Mode) : ∀ (xs ys : List Mode) (k : Nat)
    (h : k < (zipModes g xs ys).length) (hx : k < xs.length) (hy : k < ys.length),
    (zipModes g xs ys)[k] = g xs[k] ys[k]
  | [], _, _, _, hx, _ => by simp at hx
  | _ :: _, [], _, _, _, hy => by simp at hy
  | x :: xs, y :: ys, 0, _, _, _ => by simp [zipModes]
  | x :: xs, y :: ys, k + 1, h, hx, hy => by
    simp only [zipModes, List.getElem_cons_succ]
    exact zipModes_getElem g xs ys k _ _ _

/-- the ordering stores dimension `d` at level `d` -/
def Fmt.Natural (f : Fmt) : Prop := f.ordering = List.range f.order

/-- mode of the level that stores dimension `d` (`ordering[level] = dimension`) -/
def Fmt.modeOfDim (f : Fmt) (d : Nat) : Mode := f.modes.getD (f.ordering.idxOf d) .dense

theorem Fmt.modeOfDim_natural (f : Fmt) (hn : f.Natural) (d : Nat) (hd : d < f.order) :
    f.modeOfDim d = f.modes[d]'hd := by
  unfold Fmt.modeOfDim
  rw [hn]
  have hlen : d < (List.range f.order).length := by simpa using hd
  have := List.Nodup.idxOf_getElem (List.nodup_range (n := f.order)) d hlen
  rw [List.getElem_range] at this
  rw [this]
  have hd' : d < f.modes.length := hd
  rw [List.getD_eq_getElem?_getD, List.getElem?_eq_getElem hd']
  rfl

theorem Fmt.allDense_natural (n : Nat) : (Fmt.allDense n).Natural := by
  simp [Fmt.Natural, Fmt.allDense, Fmt.order]

end TV.Api
