import TensoraVerif.Lemmas.AsmCmp2CsrPost

/-!
C04 for the CSR matrix copy/scale kernels, ASSEMBLE chain, part 1: the INNER loop body step (`mid1_stepA`), copy
of `CsrInner.lean` (`mid1_step`) in which the terminal block is only `written_a_1 = true;`: the `vals` array
keeps its capacity discipline (`VA S q`: no known contents, capacity `≥ q`) but receives no value.
-/
namespace TV.Csr
open TV.IR TV.Gen TV.Graph TV.Growth TV.Merge
open TV.Dense1 (TensorVar)
open TV.Sparse2 (Nm nameOf allNames nameOf_inj VFrame Arr CellSet old_of_heap in1 out1 FlagOK)

set_option linter.unusedSectionVars false
variable {F : Type} [FloatOps F]

/-- what the assembling kernel knows of the `vals` array when the cursor is `q`: no contents, room for `q` -/
def VA (S : OutSt F) (q : Nat) : Prop := S.cells .v = [] ∧ (q : Int) ≤ S.cap .v

theorem noLoop_mid1A (j : String) (outT bT : TensorId) :
    Sparse1.noLoopL [(mid1A j outT bT : Stmt F)] = true := by
  simp [Sparse1.noLoopL, Sparse1.noLoop, mid1A, branch1A, Sparse1.noLoop_writePosAllocation, termBlockA,
    declAssignE, increment, writeCrdAssembly_shape]

section step
variable {K : Ctx F}

/-- **The inner loop body step.** In a state satisfying the kernel invariant in which the `crd` array of level 1
and the `vals` array of the output hold the first `q` entries (`q < nnz`), the output cursor `p_a_1` and the
input cursor `p_b_1` hold `q`, the loaded coordinate `i_b_1` and the index `j` hold `crd1 q`, the outer flag is
a declared `bool` and the inner flag is undeclared or a `bool`: the statement between the `min` and the
increment of the inner loop runs without error (any fuel, no loop iteration), after which both arrays hold
`q + 1` entries (the new ones are `crd1 q` and `⟦e⟧(vals q)`), `p_a_1 = q + 1`, BOTH flags are `true`; the
other three arrays are described as before; only the variables `midW1` were written. -/
theorem mid1_stepA (ok : K.OK) (fuel : Nat) (σ : State F) (S : OutSt F) (q : Nat) (hq : q < K.d.nnz)
    (hst : St K S σ) (hc1 : S.cells .c1 = K.crdCells q) (hcv : VA S q)
    (hpA : IntVar σ (K.n .pA1) q) (hpB : IntVar σ (K.n .pB1) q)
    (hvB : IntVar σ (K.n .vB1) (K.d.crd q)) (hj : IntVar σ (K.n .j) (K.d.crd q))
    (hw1 : FlagOK σ (K.n .w1)) :
    ∃ σ' S', RunsL fuel [mid1A K.j K.outT K.bT] σ σ' ∧ St K S' σ' ∧
      S'.cells .c1 = K.crdCells (q + 1) ∧ VA S' (q + 1) ∧ Same [.c1, .v] S S' ∧
      IntVar σ' (K.n .pA1) ((q + 1 : Nat) : Int) ∧
      ToIr.FlagTrue σ' (K.n .w1) ∧
      VFrame (midW1 K) σ σ' := by
  have hN := ok.names
  obtain ⟨ho1, ho2⟩ := (isDS_iff K.i K.j K.outT).1 ok.ho
  obtain ⟨hl, ⟨hb1, hb2⟩, _⟩ := (isExpr_iff K.i K.j K.bT K.e).1 ok.he
  obtain ⟨hdb, hArr, hCap, hEty, hBon, hidx⟩ := out1_facts ok.ho
  have hnnz := ok.wf.nnz30
  have hne0 : K.e ≠ .int 0 := by
    intro h; rw [h] at hl; simp [ToIr.leaves] at hl
  have holen : K.outT.indexes.length = 2 := by rw [ho1]; rfl
  have hblen : K.bT.indexes.length = 2 := by rw [hb1]; rfl
  obtain ⟨r0, r1⟩ := ok.wf.rng q hq
  -- 1. vals allocation
  have av := hst.inv.arr .v
  have hqv : (q : Int) ≤ S.cap .v := hcv.2
  obtain ⟨o1, vb1, vc1, e1, ret1, g1, hvc1, hroom1⟩ := writePosAllocation_nodense_safe (out1 K.outT) fuel σ
    (S.blk .v) (S.cap .v) q hdb (by rw [hArr, hCap, hEty]; exact av.inv) hpA (by omega)
    (by rw [hBon]; omega) (by rw [hBon]; intro h; omega)
  rw [hArr, hCap, hEty] at g1
  rw [hBon] at hroom1
  have hqv1 : (q : Int) < vc1 := by have := hroom1 (by omega); omega
  have run1 : Runs fuel (writePosAllocation (out1 K.outT)).finalize σ o1.st := ⟨o1, e1, ret1, rfl⟩
  have st1 : St K (S.set .v vb1 vc1 (S.cells .v)) o1.st :=
    hst.update hN .v (av.of_grow g1) (Sparse2.GrowPost.block_cases g1) g1.vars g1.heap g1.len g1.tensors
  have f1 : VFrame [K.n .av, K.n .kv] σ o1.st := VFrame.of2 g1.vars
  generalize o1.st = σ1 at *
  -- 2. bool written_a_1 = false
  obtain ⟨σ2, r2, hh2, ht2, ⟨rw2, hrw1, hrw2, _⟩, f2'⟩ := Dense1.runsI_declAssign (fuel := fuel)
    (x := K.n .w1) (t := .bool) (e := (.boolLit false : Expr F)) (σ := σ1)
    (val := .bool false) (val' := .bool false)
    (hw1.congr (f1 _ (by cnm hN))) (by simp [evalE]) rfl
  have run2 : Runs fuel (declAssignE (K.n .w1) .bool (.boolLit false)) σ1 σ2 := by
    obtain ⟨o, e, r, s, _⟩ := r2; exact ⟨o, e, r, s⟩
  have f2 : VFrame [K.n .w1] σ1 σ2 := VFrame.of1 f2'
  have st2 : St K (S.set .v vb1 vc1 (S.cells .v)) σ2 := st1.vstep f2 (by cprot hN) hh2 ht2
  have f12 := f1.trans f2
  -- 3. the terminal block: written_a_1 = true
  have hw12 : ToIr.FlagVar σ2 (K.n .w1) := ⟨rw2, hrw1, hrw2⟩
  have run3' := ToIr.flagStmt_runs (fuel := fuel) (σ := σ2) (f := K.n .w1) hw12
  generalize hσ3 : ({ σ2 with vars := setVar σ2.vars (K.n .w1) (.bool true) } : State F) = σ3 at run3'
  have run3 : Runs fuel (termBlockA K.outT) σ2 σ3 := Runs.block (RunsL.cons run3' (RunsL.nil _ _))
  have hh3 : σ3.heap = σ2.heap := by rw [← hσ3]
  have ht3 : σ3.tensors = σ2.tensors := by rw [← hσ3]
  have f3 : VFrame [K.n .w1] σ2 σ3 := by
    intro y hy; rw [← hσ3]; exact lookupVar_setVar_other _ (by simpa using hy)
  have hfl1 : ToIr.FlagTrue σ3 (K.n .w1) := by
    rw [← hσ3]
    exact ⟨_, lookupVar_setVar_same _ hrw1, hrw2, rfl⟩
  have st3 : St K (S.set .v vb1 vc1 (S.cells .v)) σ3 := st2.vstep f3 (by cprot hN) hh3 ht3
  have f123 := f12.trans f3
  generalize hS3 : S.set .v vb1 vc1 (S.cells .v) = S3 at *
  have hS3c1 : S3.cells .c1 = K.crdCells q := by rw [← hS3]; simp [OutSt.set, hc1]
  have hS3v : VA S3 (q + 1) := by
    rw [← hS3]; refine ⟨by simp [OutSt.set, hcv.1], ?_⟩
    simp only [OutSt.set, if_true]; push_cast; omega
  have hS3same : Same [.c1, .v] S S3 := by
    rw [← hS3]
    exact Same.set S (by simp) _ _ _
  -- 4. crd assembly
  have ac3 := st3.inv.arr .c1
  rw [hS3c1] at ac3
  have hqc : (q : Int) ≤ S3.cap .c1 := by have := ac3.le; rw [Ctx.crdCells_length] at this; exact this
  have hpA3 : IntVar σ3 (K.n .pA1) q := hpA.congr (f123 _ (by cnm hN))
  have hj3 : IntVar σ3 (out1 K.outT).index (K.d.crd q) := by
    rw [hidx]; exact hj.congr (f123 _ (by cnm hN))
  have hnd : namesDistinct (out1 K.outT) := by
    unfold namesDistinct
    rw [hidx]
    show [K.n .ac1, K.n .kc1, K.n .pA1, K.n .j].Pairwise (· ≠ ·)
    simp only [List.pairwise_cons, List.Pairwise.nil]
    cnm hN
  obtain ⟨σ4, cb4, cc4, run4, sp, hpA4, _⟩ := crdAssembly_runs (out1 K.outT) fuel σ3 (S3.blk .c1) (S3.cap .c1) q
    (K.d.crd q) ac3.inv hpA3 (by omega) hqc hj3 r0 r1 (by intro h; omega) hnd
  have sp' : StorePost σ3 σ4 (arrName K .c1) (capName K .c1) Comp.c1.ety (S3.blk .c1) (S3.cap .c1)
      ((K.crdCells q).length : Int) (.int (K.d.crd q)) cb4 cc4 := by
    rw [Ctx.crdCells_length]; exact sp
  have st4 : St K (S3.set .c1 cb4 cc4 (K.crdCells (q + 1))) σ4 := by
    refine st3.update hN .c1 ?_ (Sparse2.StorePost.block_cases sp) sp.vars sp.heap sp.len sp.tensors
    rw [Ctx.crdCells_succ]
    exact ac3.of_store sp'
  have f4 : VFrame [K.n .ac1, K.n .kc1] σ3 σ4 := VFrame.of2 sp.vars
  -- 5. p_a_1++
  have hpA4' : IntVar σ4 (K.n .pA1) q := hpA4
  have run5 := Runs.assign_int (fuel := fuel) hpA4'
    (evalE_add (evalE_var_int hpA4' (by omega) (by omega))
      (evalE_intLit (σ := σ4) (v := 1) (by omega) (by omega)) (by omega) (by omega))
  generalize hσ5 : ({ σ4 with vars := setVar σ4.vars (K.n .pA1) (.int ((q : Int) + 1)) } : State F)
    = σ5 at run5
  have f5 : VFrame [K.n .pA1] σ4 σ5 := by
    intro y hy; rw [← hσ5]; exact lookupVar_setVar_other _ (by simpa using hy)
  have hh5 : σ5.heap = σ4.heap := by rw [← hσ5]
  have ht5 : σ5.tensors = σ4.tensors := by rw [← hσ5]
  have hpA5 : IntVar σ5 (K.n .pA1) ((q + 1 : Nat) : Int) := by
    obtain ⟨r, e1, e2, _⟩ := hpA4'
    rw [← hσ5]
    exact ⟨_, lookupVar_setVar_same _ e1, e2, by push_cast; rfl⟩
  have st5 : St K (S3.set .c1 cb4 cc4 (K.crdCells (q + 1))) σ5 := st4.vstep f5 (by cprot hN) hh5 ht5
  have f45 := f4.trans f5
  -- the run
  have econd : evalE σ (.bin .and (.boolLit true)
      (.bin .eq (.var (K.n .vB1)) (.var (K.n .j)))) = .ok (.bool true) := by
    have := evalE_and (σ := σ) (l := .boolLit true) (a := true) (by simp [evalE])
      (evalE_eqInt (evalE_var_int hvB r0 r1) (evalE_var_int hj r0 r1))
    simpa using this
  have hrun : RunsL fuel [mid1A K.j K.outT K.bT] σ σ5 :=
    RunsL.cons (Runs.branch_true econd (Runs.block (RunsL.cons run1 (RunsL.cons run2 (RunsL.cons run3
      (RunsL.cons (Runs.branch_true (Sparse1.evalE_var_flag hfl1)
        (Runs.block (RunsL.cons run4 (RunsL.cons run5 (RunsL.nil _ _))))) (RunsL.nil _ _)))))))
      (RunsL.nil _ _)
  refine ⟨σ5, S3.set .c1 cb4 cc4 (K.crdCells (q + 1)), hrun, st5, by simp [OutSt.set], ?_, ?_, hpA5, ?_, ?_⟩
  · exact ⟨by simpa [OutSt.set] using hS3v.1, by simpa [OutSt.set] using hS3v.2⟩
  · exact hS3same.trans (Same.set _ (by simp) _ _ _)
  · exact Sparse2.FlagTrue.congr hfl1 (f45 _ (by cnm hN))
  · refine (f123.trans f45).mono ?_
    intro x hx
    simp only [List.mem_append, List.mem_cons, List.not_mem_nil, or_false] at hx
    simp only [midW1, List.mem_cons, List.not_mem_nil, or_false]
    rcases hx with (((rfl | rfl) | rfl) | rfl) | ((rfl | rfl) | rfl) <;> simp

end step

end TV.Csr
