import TensoraVerif.Lemmas.AsmCmp2CsrAsmInner
import TensoraVerif.Lemmas.CsrInnerLoop

/-!
C04 for the CSR matrix copy/scale kernels, ASSEMBLE chain, part 2: the whole INNER loop (`inner_loopA`), copy of
`CsrInnerLoop.lean`.
-/
namespace TV.Csr
open TV.IR TV.Gen TV.Graph TV.Growth TV.Merge
open TV.Sparse2 (Nm nameOf allNames nameOf_inj VFrame Arr CellSet in1 out1 FlagOK curAt sumFrom PosStable MidAt
  cursor_loop_exact sumFrom_zero)

set_option linter.unusedSectionVars false
variable {F : Type} [FloatOps F]

/-- the ghost predicate of the inner loop at position `q` (relative to the state `σin` and the description `S`
at loop entry) -/
def Q1A (K : Ctx F) (S : OutSt F) (σin : State F) (q : Nat) (σ : State F) : Prop :=
  ∃ S', St K S' σ ∧ S'.cells .c1 = K.crdCells q ∧ VA S' q ∧ Same [.c1, .v] S S' ∧
    IntVar σ (K.n .pA1) q ∧ FlagOK σ (K.n .w1) ∧ VFrame (inW K) σin σ

section
variable {K : Ctx F}

theorem q1_stableA (ok : K.OK) (r : Nat) (S : OutSt F) (σin : State F) :
    PosStable (Q1A K S σin) (K.cur1 r) K.j := by
  have hN := ok.names
  intro q σ σ' ⟨S', hst, h1, h2, h3, h4, h6, h7⟩ hh ht hv
  have hv' : VFrame [K.n .j, K.n .pB1, K.n .vB1] σ σ' := by
    intro y hy
    simp only [List.mem_cons, List.not_mem_nil, or_false, not_or] at hy
    exact hv y hy.1 hy.2.1 hy.2.2
  refine ⟨S', hst.vstep hv' (by cprot hN) hh ht, h1, h2, h3, h4.congr (hv' _ (by cnm hN)),
    h6.congr (hv' _ (by cnm hN)), ?_⟩
  intro y hy
  rw [hv' y (fun hm => hy (by simp only [inW, List.mem_append]; exact .inr hm)), h7 y hy]

theorem q1_midA (ok : K.OK) (r : Nat) (hr : r < K.d.n) (S : OutSt F) (σin : State F) :
    MidAt 0 (fun _ => 0) (Q1A K S σin) (K.cur1 r) K.j [mid1A K.j K.outT K.bT] := by
  have hN := ok.names
  intro fuel σ q _ hq0 hq hinv hval hidx ⟨S', hst, h1, h2, h3, h4, h6, h7⟩
  have hcm : curAt (K.cur1 r) q ∈ [curAt (K.cur1 r) q] := List.mem_cons_self
  have hcur := hinv.cur _ hcm
  have hqn : q < K.d.nnz := by
    have := ok.wf.pos_le_nnz (a := r + 1) (by omega)
    have hq' : q < K.d.pos (r + 1) := hq
    omega
  obtain ⟨σ', S'', ⟨o, eo, ro, so⟩, hst', c1', cv', same', hpA', hw1', fr⟩ :=
    mid1_stepA ok fuel σ S' q hqn hst h1 h2 h4 hcur.ptrv hval hidx h6
  subst so
  refine ⟨o, eo, ro, Sparse1.execL_noLoop_iters fuel _ σ (noLoop_mid1A _ _ _) o eo, ?_, ?_, ?_⟩
  · intro x hx
    have hx' : x ∈ [K.n .j, K.n .pB1, K.n .eB1, K.n .bc1, K.n .vB1] := hx
    apply fr
    simp only [List.mem_cons, List.not_mem_nil, or_false] at hx'
    rcases hx' with rfl | rfl | rfl | rfl | rfl <;> (simp only [midW1]; cnm hN)
  · obtain ⟨blk, hb, _⟩ := ok.c
    show o.st.heap[K.bc]? = σ.heap[K.bc]?
    rw [hst'.env.get hb, hst.env.get hb]
  · refine ⟨S'', hst', c1', cv', h3.trans same', hpA',
      FlagOK.of_flagVar (Sparse2.FlagVar.of_true hw1'), ?_⟩
    intro y hy
    rw [fr y (fun hm => hy (by simp only [inW, List.mem_append]; exact .inl hm)), h7 y hy]

/-- **The inner loop.** For a row `r < n` of `B`: from a state satisfying the kernel invariant in which
`a_1_crd` and `a_vals` hold the first `pos r` entries, `p_a_1 = pos r`, the merge invariant of the compressed
level of `B` holds for the segment `[pos r, pos (r+1))` and the flag is undeclared or a `bool`: the emitted inner
loop runs without error with any fuel `≥ (row length) + 1`, performs EXACTLY `pos (r+1) − pos r` iterations, and
afterwards the two arrays hold the first `pos (r+1)` entries (grown as needed from any capacity `≥ 1`),
`p_a_1 = pos (r+1)`, the input cursor is at the end of the row. `a_1_pos` is as before; only the variables `inW`
were written. -/
theorem inner_loopA (ok : K.OK) (r : Nat) (hr : r < K.d.n) (fuel : Nat) (σ : State F) (S : OutSt F)
    (hfuel : (K.d.pos (r + 1) - K.d.pos r) + 1 ≤ fuel)
    (hst : St K S σ) (hc1 : S.cells .c1 = K.crdCells (K.d.pos r)) (hcv : VA S (K.d.pos r))
    (hpA : IntVar σ (K.n .pA1) (K.d.pos r)) (hM : MergeInv σ [K.cur1 r] K.j)
    (hw1 : FlagOK σ (K.n .w1)) :
    ∃ o S', exec fuel (mergeLoopL [in1 K.bT] K.j [mid1A K.j K.outT K.bT]) σ = .ok o ∧ o.ret = none ∧
      o.iters = K.d.pos (r + 1) - K.d.pos r ∧
      MergeInv o.st [curAt (K.cur1 r) (K.d.pos (r + 1))] K.j ∧
      St K S' o.st ∧ S'.cells .c1 = K.crdCells (K.d.pos (r + 1)) ∧
      VA S' (K.d.pos (r + 1)) ∧ Same [.c1, .v] S S' ∧
      IntVar o.st (K.n .pA1) (K.d.pos (r + 1)) ∧ FlagOK o.st (K.n .w1) ∧
      VFrame (inW K) σ o.st := by
  have hmono := ok.wf.mono r hr
  have hQ : Q1A K S σ (K.d.pos r) σ :=
    ⟨S, hst, hc1, hcv, Same.refl _ _, hpA, hw1, VFrame.refl _ _⟩
  obtain ⟨o, eo, ro, ito, invo, ⟨S', h1, h2, h3, h4, h5, h7, h8⟩⟩ :=
    cursor_loop_exact (K.cur1 r) K.j [mid1A K.j K.outT K.bT] (namesOK1 ok.names r)
      (q1_stableA ok r S σ) (q1_midA ok r hr S σ) (K.d.pos (r + 1) - K.d.pos r) (K.d.pos r) σ fuel
      (by show K.d.pos r + _ = K.d.pos (r + 1); omega) (Nat.le_refl _) hM hQ (by omega)
  refine ⟨o, S', eo, ro, by rw [ito, sumFrom_zero]; omega, invo, h1, h2, h3, h4, h5, h7, h8⟩

end

end TV.Csr
