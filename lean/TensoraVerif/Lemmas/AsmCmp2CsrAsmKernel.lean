import TensoraVerif.Lemmas.AsmCmp2CsrAsmLoop
import TensoraVerif.Lemmas.CsrKernel

/-!
C04 for the CSR matrix copy/scale kernels, ASSEMBLE chain, part 5: the prologue (the same statements as in
`evaluate`: `prologue_runsA` follows from `prologue_runs`), the cleanup (`cleanup_runsA`, copy of
`CsrCleanup.lean` without the contents of `a_vals`) and the whole `assemble` function on the machine
(`kernel_runsA`).
-/
namespace TV.Csr
open TV.IR TV.Gen TV.Graph TV.Growth TV.Merge TV.Dense1
open TV.Sparse1 (capVal)
open TV.Sparse2 (Nm nameOf allNames Arr realloc_step slot_step vals_step take_of_holds)

set_option linter.unusedSectionVars false
variable {F : Type} [FloatOps F]

/-- the entry state of `evaluate` is an entry state of `assemble` -/
theorem Entry.toA {K : Ctx F} (ok : K.OK) {S : OutSt F} {σ : State F} (h : Entry K S σ) : EntryA K S σ := by
  refine ⟨h.st, ⟨h.sh.p1, h.sh.p1c, h.sh.c1, ?_, ?_⟩, h.pA1, h.scr, h.di⟩
  · rw [h.sh.v, ok.wf.pos0]; simp [Ctx.valsCells]
  · have := (h.st.inv.arr .v).inv.pos
    rw [ok.wf.pos0]; omega

/-- **The prologue of the assembling kernel**: from `Init` to `EntryA`. -/
theorem prologue_runsA {K : Ctx F} (ok : K.OK) (cap : Option Int) (hk0 : 1 ≤ capVal cap)
    (hk1 : capVal cap < 2147483648)
    {atr btr : TensorRec F} {tb : Nat} {m : Int} {σ : State F} (init : Init K atr btr tb m σ) (fuel : Nat) :
    ∃ σC, RunsLI fuel
        [.block (Sparse2.dimStmts K.i K.j K.outT) (some "Extract dimensions"),
         .block (unpackStmts K.outT.name ++ unpackStmts K.bT.name) (some "Unpack tensors"),
         .block (outInit cap K.i K.outT) (some "Output initialization")] σ σC 0 ∧
      EntryA K (entrySt K (capVal cap)) σC := by
  obtain ⟨σC, r, e⟩ := prologue_runs ok cap hk0 hk1 init fuel
  exact ⟨σC, r, e.toA ok⟩

/-- **the cleanup** -/
theorem cleanup_runsA {K : Ctx F} (ok : K.OK) {atr btr : TensorRec F} {tb : Nat} {m : Int} {σ0 : State F}
    (init : Init K atr btr tb m σ0) (S : OutSt F) (σF : State F) (hst : St K S σF) (hfin : ShapeA K S K.d.n)
    (hpA1 : IntVar σF (K.n .pA1) K.d.nnz) (fuel : Nat) :
    ∃ σG, RunsLI fuel (cleanupLines K.outT) σF σG 0 ∧ KernelPostA K atr σG := by
  have hN := ok.names
  have hnnz := ok.wf.nnz30
  have hposn := ok.wf.posn
  obtain ⟨sp1, sc1, hasl1, _, _⟩ := init.aslot1
  have hsl1 : 1 < atr.slots.length := lt_length_of_getElem? hasl1
  have hten : σF.tensors = K.tensors0 := hst.env.tensors
  have htaL : K.ta < σF.tensors.length := by rw [hten]; exact lt_length_of_getElem? init.arec
  -- the three arrays
  have a_p1 : Arr σF (K.n .ap1) (K.n .kp1) .int (S.blk .p1) (S.cap .p1) (S.cells .p1) := hst.inv.arr .p1
  have a_c1 : Arr σF (K.n .ac1) (K.n .kc1) .int (S.blk .c1) (S.cap .c1) (S.cells .c1) := hst.inv.arr .c1
  have a_v : Arr σF (K.n .av) (K.n .kv) .float (S.blk .v) (S.cap .v) (S.cells .v) := hst.inv.arr .v
  obtain ⟨blk_p1, hb_p1, l_p1, o_p1, t_p1, n_p1⟩ := a_p1.inv.blk
  obtain ⟨blk_c1, hb_c1, l_c1, o_c1, t_c1, n_c1⟩ := a_c1.inv.blk
  obtain ⟨blk_v, hb_v, l_v, o_v, t_v, n_v⟩ := a_v.inv.blk
  have inj := hst.inv.inj
  have lt_p1 := lt_length_of_getElem? hb_p1
  have lt_c1 := lt_length_of_getElem? hb_c1
  have lt_v := lt_length_of_getElem? hb_v
  have hlen_p1 : (S.cells .p1).length = K.d.n + 1 := by rw [hfin.p1, List.length_map, K.d.outPos_length]
  have hlen_c1 : (S.cells .c1).length = K.d.nnz := by rw [hfin.c1, Ctx.crdCells_length, hposn]
  obtain ⟨L, hL⟩ : ∃ L, L = σF.heap.length := ⟨_, rfl⟩
  have pv_p1 : PtrVar σF (K.n .ap1) (S.blk .p1) := a_p1.inv.arr
  have pv_c1 : PtrVar σF (K.n .ac1) (S.blk .c1) := a_c1.inv.arr
  have pv_v : PtrVar σF (K.n .av) (S.blk .v) := a_v.inv.arr
  have havar : Cleanup.TensorVar σF (K.n .a) K.ta := hst.env.avar
  have hord1 : 1 < atr.order := by have := init.aord; omega
  -- G1: a_1_crd = realloc(a_1_crd, p_a_1)
  obtain ⟨σ1, r1, p1v, f1, len1, new1, oth1, ten1⟩ := realloc_step (fuel := fuel) (ty := .int) (ety := .int)
    pv_c1 (evalE_var_int hpA1 (by omega) (by omega)) (by omega) rfl hb_c1 l_c1 o_c1 t_c1
  rw [← hL] at p1v len1 new1 oth1
  -- G2, G3: the slots of level 1
  obtain ⟨σ2, r2, hv2, hh2, ht2⟩ := slot_step (fuel := fuel) (σ := σ1) (x := K.n .a) (arr := K.n .ap1)
    (ti := K.ta) (tr := atr) (l := 1) (s := (sp1, sc1)) (j := 0) (.inl rfl) (havar.congr (f1 _ (by cnm hN)))
    (by rw [ten1, hten]; exact init.arec) init.aown hord1 (by omega) hasl1 (pv_p1.congr (f1 _ (by cnm hN)))
  simp only [if_true] at ht2
  rw [ten1] at ht2
  obtain ⟨σ3, r3, hv3, hh3, ht3⟩ := slot_step (fuel := fuel) (σ := σ2) (x := K.n .a) (arr := K.n .ac1)
    (ti := K.ta) (tr := { atr with slots := atr.slots.set 1 (some (.ptr (S.blk .p1) 0, sc1)) }) (l := 1)
    (s := (.ptr (S.blk .p1) 0, sc1)) (j := 1) (p := L) (.inr rfl)
    (havar.congr (by rw [hv2, f1 _ (by cnm hN)]))
    (by rw [ht2, List.getElem?_set_self htaL]) init.aown hord1 (by omega)
    (by simp [hsl1]) (p1v.congr (by rw [hv2]))
  simp only [show ¬ ((1 : Int) = 0) by omega, if_false] at ht3
  rw [ht2, List.set_set] at ht3
  simp only [List.set_set] at ht3
  rw [hv2] at hv3
  rw [hh2] at hh3
  have f3 : ∀ y, y ≠ K.n .ac1 → lookupVar σ3.vars y = lookupVar σF.vars y := by
    intro y hy; rw [hv3]; exact f1 y hy
  -- G4: a_vals = realloc(a_vals, p_a_1 + 1)
  have hb_v_3 : σ3.heap[S.blk .v]? = some blk_v := by
    rw [hh3, oth1 _ (inj .v .c1 (by decide)) (by omega)]; exact hb_v
  have pv_v_3 : PtrVar σ3 (K.n .av) (S.blk .v) := pv_v.congr (f3 _ (by cnm hN))
  have e4 : evalE σ3 (plus (.var (K.n .pA1)) (.intLit 1)) = .ok (.int ((K.d.nnz : Int) + 1)) :=
    evalE_add (evalE_var_int (hpA1.congr (f3 _ (by cnm hN))) (by omega) (by omega))
      (evalE_intLit (by omega) (by omega)) (by omega) (by omega)
  obtain ⟨σ4, r4, p4v, f4, len4, new4, oth4, ten4⟩ := realloc_step (fuel := fuel) (σ := σ3) (ty := .float)
    (ety := .float) pv_v_3 e4 (by omega) rfl hb_v_3 l_v o_v t_v
  have hl3 : σ3.heap.length = L + 1 := by rw [hh3]; exact len1
  rw [hl3] at p4v len4 new4 oth4
  have ht4 : σ4.tensors = σF.tensors.set K.ta
      { atr with slots := atr.slots.set 1 (some (.ptr (S.blk .p1) 0, .ptr L 0)) } := by rw [ten4, ht3]
  -- G5: a->vals = a_vals
  obtain ⟨σ5, r5, _, hh5, ht5⟩ := vals_step (fuel := fuel) (σ := σ4) (x := K.n .a) (arr := K.n .av) (ti := K.ta)
    (tr := { atr with slots := atr.slots.set 1 (some (.ptr (S.blk .p1) 0, .ptr L 0)) }) (p := L + 1)
    (havar.congr (by rw [f4 _ (by cnm hN)]; exact f3 _ (by cnm hN)))
    (by rw [ht4, List.getElem?_set_self htaL]) init.aown p4v
  refine ⟨σ5, RunsLI.cons (RunsI.of_assign r1) (RunsLI.cons (RunsI.of_assign r2) (RunsLI.cons (RunsI.of_assign r3)
    (RunsLI.cons (RunsI.of_assign r4) (RunsLI.cons (RunsI.of_assign r5) (RunsLI.nil _ _))))), ?_⟩
  -- the final heap
  have keep : ∀ j, j < L → j ≠ S.blk .c1 → j ≠ S.blk .v → σ5.heap[j]? = σF.heap[j]? := by
    intro j hj h1 h2
    rw [hh5, oth4 j h2 (by omega), hh3, oth1 j h1 hj]
  have hH := hst.env.hlen
  have rng := hst.inv.rng
  have hN1 : σ5.heap[L]? =
      some ⟨.int, (List.range K.d.nnz).map (fun q => some (.int (K.d.crd q))), .output, true⟩ := by
    rw [hh5, oth4 L (by omega) (by omega), hh3, new1]
    have := take_of_holds (cells := S.cells .c1) (l := blk_c1.cells) (a_c1.holds blk_c1 hb_c1)
      (by have := a_c1.le; omega)
    rw [hlen_c1] at this
    simp only [Int.toNat_natCast]
    rw [this, hfin.c1, hposn, Ctx.crdCells, List.map_map]
    rfl
  have hp1 : σ5.heap[S.blk .p1]? =
      some ⟨.int, (List.range (K.d.n + 1)).map (fun r => some (.int (K.d.pos r))), .output, true⟩ := by
    rw [keep _ (by omega) (inj .p1 .c1 (by decide)) (inj .p1 .v (by decide)), hb_p1]
    have hl2 : blk_p1.cells.length = K.d.n + 1 := by
      have := hfin.p1c; omega
    have := take_of_holds (cells := S.cells .p1) (l := blk_p1.cells) (a_p1.holds blk_p1 hb_p1)
      (by omega)
    rw [hlen_p1, ← hl2, List.take_length, Nat.sub_self, List.replicate_zero, List.append_nil] at this
    obtain ⟨ty, cells, owner, live⟩ := blk_p1
    simp only at t_p1 o_p1 l_p1 this
    subst t_p1 o_p1 l_p1
    rw [this, hfin.p1, CData.outPos, List.map_map, List.map_map]
    rfl
  have hvB : ∃ vblk, σ5.heap[L + 1]? = some vblk ∧ vblk.live = true ∧ vblk.owner = .output ∧
      vblk.ty = .float ∧ vblk.cells.length = K.d.nnz + 1 := by
    have hn : ((K.d.nnz : Int) + 1).toNat = K.d.nnz + 1 := by omega
    refine ⟨_, by rw [hh5]; exact new4, rfl, rfl, rfl, ?_⟩
    · simp only [List.length_append, List.length_take, List.length_replicate, hn]
      omega
  obtain ⟨vblk, hv1, hv2', hv3', hv4, hv5⟩ := hvB
  refine
    { outRec := ⟨{ atr with
          slots := atr.slots.set 1 (some (.ptr (S.blk .p1) 0, .ptr L 0)),
          vals := .ptr (L + 1) 0 }, S.blk .p1, L, L + 1, vblk, ?_, init.aown, rfl, rfl, rfl, rfl, ?_, ?_,
        hp1, hN1, hv1, hv2', hv3', hv4, hv5⟩,
      otherRecs := ?_, tlen := ?_, heap := ?_ }
  · rw [ht5, List.getElem?_set_self (by rw [ht4]; simpa using htaL)]
  · simp only [List.nodup_cons, List.mem_cons, List.not_mem_nil, or_false, not_or, List.nodup_nil, and_true,
      not_false_eq_true]
    omega
  · intro x hx
    simp only [List.mem_cons, List.not_mem_nil, or_false] at hx
    have := rng .p1
    rcases hx with rfl | rfl | rfl <;> omega
  · intro k hk
    rw [ht5, List.getElem?_set_ne (Ne.symm hk), ht4, List.getElem?_set_ne (Ne.symm hk), hten]
  · rw [ht5, List.length_set, ht4, List.length_set, hten]
  · intro k hk
    have r1 := rng .c1; have r2 := rng .v
    rw [keep k (by omega) (by omega) (by omega)]
    exact hst.env.old k hk


/-- **the whole `assemble` function on the machine** -/
theorem kernel_runsA {K : Ctx F} (ok : K.OK) (cap : Option Int) (formats : Formats)
    (hfmt : formats.map (·.1) = [K.outT.name, K.bT.name])
    (hk0 : 1 ≤ capVal cap) (hk1 : capVal cap < 2147483648)
    {atr btr : TensorRec F} {tb : Nat} {m : Int} {σ : State F} (init : Init K atr btr tb m σ)
    (fuel : Nat) (hfuel : K.d.n + K.d.nnz + 1 ≤ fuel) :
    ∃ o, exec fuel (kernelA cap formats K.i K.j K.outT K.bT).body σ = .ok o ∧
      o.ret = some (.int 0) ∧ o.iters = K.d.n + K.d.nnz ∧ KernelPostA K atr o.st := by
  obtain ⟨σC, rC, entry⟩ := prologue_runsA ok cap hk0 hk1 init fuel
  obtain ⟨σF, S', rF, stF, hfin, hpA1, _⟩ := loopLines_runsA ok fuel σC _ hfuel entry
  obtain ⟨σG, rG, post⟩ := cleanup_runsA ok init S' σF stF hfin hpA1 fuel
  have hunp : (formats.flatMap fun f => unpackStmts (F := F) f.1) =
      unpackStmts K.outT.name ++ unpackStmts K.bT.name := by
    have : (formats.flatMap fun f => unpackStmts (F := F) f.1) =
        (formats.map (·.1)).flatMap unpackStmts := by
      rw [List.flatMap_map]
    rw [this, hfmt]
    simp
  have rAll : RunsLI fuel (kernelStmtsA cap formats K.i K.j K.outT K.bT) σ σG
      (0 + (K.d.n + K.d.nnz + (0 + 0))) := by
    unfold kernelStmtsA
    rw [hunp]
    have h3 := RunsLI.append rC (RunsLI.cons (RunsI.block
      (c := some ("*** Iteration over " ++ K.i ++ " ***")) rF)
      (RunsLI.cons (RunsI.block (c := some ("Assembling output tensor " ++ K.outT.name)) rG) (RunsLI.nil _ _)))
    simpa using h3
  obtain ⟨o, eo, hret, hst, hit⟩ := execL_ret (e := .intLit 0) (v := .int 0) rAll
    (evalE_intLit (by omega) (by omega))
  refine ⟨o, ?_, hret, by rw [hit]; omega, by rw [hst]; exact post⟩
  show exec fuel (.block (kernelStmtsA cap formats K.i K.j K.outT K.bT ++ [.ret (.intLit 0)]) none) σ = _
  rw [exec.eq_5]
  exact eo

end TV.Csr
