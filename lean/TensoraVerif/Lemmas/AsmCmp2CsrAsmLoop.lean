import TensoraVerif.Lemmas.AsmCmp2CsrAsmOuter
import TensoraVerif.Lemmas.CsrLoop

/-!
C04 for the CSR matrix copy/scale kernels, ASSEMBLE chain, part 4: the dense outer `while` loop and the whole
"Iteration over i" block (`loopLines_runsA`), copy of `CsrLoop.lean`.
-/
namespace TV.Csr
open TV.IR TV.Gen TV.Graph TV.Growth TV.Merge
open TV.Dense1 (RunsI RunsLI)
open TV.Sparse2 (Nm nameOf allNames VFrame Arr FlagOK)

set_option linter.unusedSectionVars false
variable {F : Type} [FloatOps F]

section
variable {K : Ctx F}

/-- **the outer `while` loop**, by induction on the number `rem` of remaining rows -/
theorem outerLoop_runsA (ok : K.OK) :
    ∀ (rem r : Nat) (σ : State F) (fuel : Nat) (S : OutSt F), r + rem = K.d.n →
      St K S σ → ShapeA K S r → IntVar σ (K.n .i) r → IntVar σ (K.n .pA1) (K.d.pos r) → Scr K σ →
      rem + K.d.nnz + 1 ≤ fuel →
      ∃ σ' S', RunsI fuel (outerLoopA K.i K.j K.outT K.bT) σ σ' (rem + (K.d.nnz - K.d.pos r)) ∧
        St K S' σ' ∧ ShapeA K S' K.d.n ∧ IntVar σ' (K.n .i) K.d.n ∧ IntVar σ' (K.n .pA1) K.d.nnz ∧
        Scr K σ' ∧ VFrame (bodyW K) σ σ' := by
  have hn := ok.wf.n31
  intro rem
  induction rem with
  | zero =>
    intro r σ fuel S hin hst hsh hi hpA1 hscr hfuel
    obtain ⟨fuel', rfl⟩ := Nat.exists_eq_add_of_le (show 1 ≤ fuel by omega)
    have hrn : r = K.d.n := by omega
    subst hrn
    have ec := Dense1.evalE_lt (evalE_var_int hi (by omega) (by omega))
      (evalE_var_int hst.env.dim (by omega) (by omega))
    have hd : decide ((K.d.n : Int) < (K.d.n : Int)) = false := by simp
    rw [hd] at ec
    refine ⟨σ, S, ?_, hst, hsh, hi, by rw [← ok.wf.posn]; exact hpA1, hscr, VFrame.refl _ _⟩
    rw [show 1 + fuel' = fuel' + 1 by omega, ok.wf.posn, Nat.sub_self]
    exact Dense1.RunsI.loop_false ec
  | succ rem ih =>
    intro r σ fuel S hin hst hsh hi hpA1 hscr hfuel
    obtain ⟨fuel', rfl⟩ := Nat.exists_eq_add_of_le (show 1 ≤ fuel by omega)
    have hr : r < K.d.n := by omega
    have ec := Dense1.evalE_lt (evalE_var_int hi (by omega) (by omega))
      (evalE_var_int hst.env.dim (by omega) (by omega))
    have hd : decide ((r : Int) < (K.d.n : Int)) = true := by simp; omega
    rw [hd] at ec
    have h1 := ok.wf.mono r hr
    have h2 := ok.wf.pos_le_nnz (a := r + 1) (by omega)
    obtain ⟨σ1, S1, r1, st1, sh1, hi1, hpA1_1, hscr1, f1⟩ := outerBody_stepA ok r hr fuel' σ S (by omega)
      hst hsh hi hpA1 hscr
    obtain ⟨σ', S', r2, st', sh', hi', hpA1', hscr', f2⟩ := ih (r + 1) σ1 fuel' S1 (by omega) st1 sh1 hi1
      hpA1_1 hscr1 (by omega)
    refine ⟨σ', S', ?_, st', sh', hi', hpA1', hscr', (f1.trans f2).mono (by simp)⟩
    have := Dense1.RunsI.loop_true ec (Dense1.RunsI.block (c := none) r1) r2
    rw [show 1 + fuel' = fuel' + 1 by omega,
      show rem + 1 + (K.d.nnz - K.d.pos r) =
        K.d.pos (r + 1) - K.d.pos r + (rem + (K.d.nnz - K.d.pos (r + 1))) + 1 by omega]
    exact this

/-- **the iteration block** `int i = 0; while (i < i_dim) { … }`: exactly `n + nnz` loop iterations; from the
state at its entry (`EntryA`) to the state before the cleanup (`ShapeA … n`): `a_1_pos` = the `n + 1` positions of
`B`, `a_1_crd` / `a_vals` = all `nnz` entries, `p_a_1 = nnz` -/
theorem loopLines_runsA (ok : K.OK) (fuel : Nat) (σ : State F) (S : OutSt F)
    (hfuel : K.d.n + K.d.nnz + 1 ≤ fuel) (entry : EntryA K S σ) :
    ∃ σ' S', RunsLI fuel (loopLinesA K.i K.j K.outT K.bT) σ σ' (K.d.n + K.d.nnz) ∧
      St K S' σ' ∧ ShapeA K S' K.d.n ∧ IntVar σ' (K.n .pA1) K.d.nnz ∧ VFrame ([K.n .i] ++ bodyW K) σ σ' := by
  have hN := ok.names
  obtain ⟨σa, ra, hh, ht, hia, fa'⟩ := Dense1.runsI_declAssign (fuel := fuel) (x := K.n .i) (t := .int)
    (e := (.intLit 0 : Expr F)) (σ := σ) (val := .int 0) (val' := .int 0) entry.di
    (evalE_intLit (by omega) (by omega)) rfl
  have fa : VFrame [K.n .i] σ σa := VFrame.of1 fa'
  have hi : IntVar σa (K.n .i) ((0 : Nat) : Int) := hia
  have sta : St K S σa := entry.st.vstep fa (by cprot hN) hh ht
  have hscr : Scr K σa :=
    ⟨entry.scr.pA0.congr (fa _ (by cnm hN)), entry.scr.pB0.congr (fa _ (by cnm hN)),
      entry.scr.pB1.congr (fa _ (by cnm hN)), entry.scr.eB1.congr (fa _ (by cnm hN)),
      entry.scr.vB1.congr (fa _ (by cnm hN)), entry.scr.j.congr (fa _ (by cnm hN)),
      entry.scr.w1.congr (fa _ (by cnm hN))⟩
  obtain ⟨σ', S', rl, st', sh', _, hpA1', _, fl⟩ := outerLoop_runsA ok K.d.n 0 σa fuel S (by omega) sta entry.sh hi
    (by rw [ok.wf.pos0]; exact entry.pA1.congr (fa _ (by cnm hN))) hscr (by omega)
  refine ⟨σ', S', ?_, st', sh', hpA1', fa.trans fl⟩
  have := Dense1.RunsLI.cons ra (Dense1.RunsLI.cons rl (Dense1.RunsLI.nil _ _))
  rw [ok.wf.pos0, show 0 + (K.d.n + (K.d.nnz - 0) + 0) = K.d.n + K.d.nnz by omega] at this
  exact this

end

end TV.Csr
