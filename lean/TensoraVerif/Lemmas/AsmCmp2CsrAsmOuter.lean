import TensoraVerif.Lemmas.AsmCmp2CsrAsmInnerLoop
import TensoraVerif.Lemmas.CsrOuter

/-!
C04 for the CSR matrix copy/scale kernels, ASSEMBLE chain, part 3: the interfaces (`ShapeA`, `EntryA`) and one
iteration of the DENSE outer loop (`inner_blockA`, `outerBody_stepA`), copy of `CsrShape.lean`/`CsrOuter.lean`.
-/
namespace TV.Csr
open TV.IR TV.Gen TV.Graph TV.Growth TV.Merge
open TV.Dense1 (RunsI RunsLI ptrDecl)
open TV.Sparse2 (Nm nameOf allNames nameOf_inj VFrame Arr CellSet in1 out1 FlagOK curAt)

set_option linter.unusedSectionVars false
variable {F : Type} [FloatOps F]

/-- the contents of the three output arrays of the ASSEMBLING kernel after `r` rows: as `Shape`, but nothing is
known of the contents of `a_vals` (only that it has room for `pos r` cells) -/
structure ShapeA (K : Ctx F) (S : OutSt F) (r : Nat) : Prop where
  p1 : S.cells .p1 = (K.d.outPos r).map (Val.int : Int → Val F)
  p1c : S.cap .p1 = (K.d.n : Int) + 1
  c1 : S.cells .c1 = K.crdCells (K.d.pos r)
  v : VA S (K.d.pos r)

/-- the state at the entry of the iteration block of the assembling kernel -/
structure EntryA (K : Ctx F) (S : OutSt F) (σ : State F) : Prop where
  st : St K S σ
  sh : ShapeA K S 0
  pA1 : IntVar σ (K.n .pA1) 0
  scr : Scr K σ
  di : DeclOK σ (K.n .i)

section
variable {K : Ctx F}

/-- **The "Iteration over j" block of one outer iteration** (row `r < n`, `p_a_0 = p_B_0 = r`): in a state
satisfying the kernel invariant with the arrays in the shape after `r` rows and `p_a_1 = pos r`: the block runs
without error with any fuel `≥ (row length) + 1`, performs exactly `row length` loop iterations, after which the
arrays are in the shape after `r + 1` rows (`a_1_pos[r + 1] = pos (r+1)`, the entries of the row appended) and
`p_a_1 = pos (r+1)`. -/
theorem inner_blockA (ok : K.OK) (r : Nat) (hr : r < K.d.n) (fuel : Nat) (σ : State F) (S : OutSt F)
    (hfuel : (K.d.pos (r + 1) - K.d.pos r) + 1 ≤ fuel)
    (hst : St K S σ) (hsh : ShapeA K S r)
    (hpA0 : IntVar σ (K.n .pA0) r) (hpA1 : IntVar σ (K.n .pA1) (K.d.pos r)) (hpB0 : IntVar σ (K.n .pB0) r)
    (hscr : Scr K σ) :
    ∃ σ' S', RunsLI fuel (innerLinesA K.j K.outT K.bT) σ σ' (K.d.pos (r + 1) - K.d.pos r) ∧
      St K S' σ' ∧ ShapeA K S' (r + 1) ∧ IntVar σ' (K.n .pA1) (K.d.pos (r + 1)) ∧
      Scr K σ' ∧ VFrame (blockW K) σ σ' := by
  have hN := ok.names
  have hmono := ok.wf.mono r hr
  have hR := ok.wf.n31
  have hnnz := ok.wf.nnz30
  have hle1 := ok.wf.pos_le_nnz (a := r) (by omega)
  have hle2 := ok.wf.pos_le_nnz (a := r + 1) (by omega)
  have hps : (K.d.outPos r).length = r + 1 := K.d.outPos_length r
  have hp1 := hsh.p1
  have hroom : (r : Int) + 1 < S.cap .p1 := by rw [hsh.p1c]; omega
  -- a. the inner cursors
  obtain ⟨pblk, hpb, hplive, hpty, hpcells⟩ := ok.p
  obtain ⟨cblk, hcb, hclive, hcty, hclen, hccells⟩ := ok.c
  have hposOK : PosOK σ (K.cur1 r) K.bp r := by
    refine ⟨hst.env.vp, ?_, by omega, by omega, ⟨pblk, hst.env.get hpb, hplive, hpty, ?_, ?_⟩⟩
    · exact hpB0
    · simpa [Ctx.cur1] using hpcells r (by omega)
    · simpa [Ctx.cur1] using hpcells (r + 1) (by omega)
  obtain ⟨oD, eD, rD, itD, curD, frD', hhD, htD⟩ := writeSparseInit_safe (K.cur1 r) fuel σ K.bp r hposOK
    hst.env.vc hmono (by show ((K.d.pos (r + 1) : Nat) : Int) < 2147483648; omega)
    ⟨cblk, hst.env.get hcb, hclive, hcty, by show K.d.pos (r + 1) ≤ _; omega,
      fun j _ hj => hccells j (by have : j < K.d.pos (r + 1) := hj; omega)⟩
    (fun j _ hj => ok.wf.rng j (by have : j < K.d.pos (r + 1) := hj; omega))
    hscr.pB1 hscr.eB1
  have frD : VFrame [K.n .pB1, K.n .eB1] σ oD.st := VFrame.of2 frD'
  have runD : RunsLI fuel (writeSparseInit (in1 K.bT)).lines σ oD.st 0 := by
    refine ⟨oD, ?_, rD, rfl, itD⟩
    have : (writeSparseInit (F := F) (K.cur1 r).leaf).finalize =
        .block (writeSparseInit (in1 K.bT)).lines none := rfl
    rw [this, exec.eq_5] at eD
    exact eD
  have stD : St K S oD.st := hst.vstep frD (by cprot hN) hhD htD
  generalize oD.st = σD at *
  -- b. the inner loop
  have hM : MergeInv σD [K.cur1 r] K.j := by
    refine ⟨fun d hd => ?_, fun d hd => ?_, ?_⟩
    · simp only [List.mem_cons, List.not_mem_nil, or_false] at hd; subst hd; exact curD
    · simp only [List.mem_cons, List.not_mem_nil, or_false] at hd; subst hd
      exact hscr.vB1.congr (frD _ (by cnm hN))
    · exact hscr.j.congr (frD _ (by cnm hN))
  obtain ⟨oE, S1, eE, rE, itE, invE, stE, c1E, cvE, sameE, hpA1E, hw1E, frE⟩ :=
    inner_loopA ok r hr fuel σD S hfuel stD hsh.c1 hsh.v (hpA1.congr (frD _ (by cnm hN))) hM
      (hscr.w1.congr (frD _ (by cnm hN)))
  have runE : RunsI fuel (mergeLoopL [in1 K.bT] K.j [mid1A K.j K.outT K.bT]) σD oE.st
      (K.d.pos (r + 1) - K.d.pos r) := ⟨oE, eE, rE, rfl, itE⟩
  generalize oE.st = σE at *
  have frDE := frD.trans frE
  -- c. pos assembly
  have hp1E : S1.cells .p1 = (K.d.outPos r).map (Val.int : Int → Val F) := by
    rw [(sameE .p1 (by simp)).2.2]; exact hp1
  have hcapE : S1.cap .p1 = S.cap .p1 := (sameE .p1 (by simp)).2.1
  have ap := stE.inv.arr .p1
  obtain ⟨pb1, hpb1, hpb1live, hpb1own, hpb1ty, hpb1len⟩ := ap.inv.blk
  have hpA0E : IntVar σE (K.n .pA0) r := hpA0.congr (frDE _ (by simp only [inW, midW1]; cnm hN))
  obtain ⟨oF, eF, rF, sF, _⟩ := writePosAssembly_safe (out1 K.outT) fuel σE (S1.blk .p1) (S1.cap .p1)
    (K.d.pos (r + 1)) r pb1 ap.inv hpb1 (show IntVar σE (K.n .pA0) r from hpA0E) (by omega)
    (by rw [hcapE]; exact hroom) hpA1E (by omega) (by omega)
  have runF : RunsI fuel (writePosAssembly (out1 K.outT)).finalize σE oF.st 0 :=
    ⟨oF, eF, rF, rfl, Sparse1.exec_noLoop_iters fuel _ σE (Sparse2.noLoop_writePosAssembly _) oF eF⟩
  have htn : ((r : Int) + 1).toNat = (S1.cells .p1).length := by
    rw [hp1E, List.length_map, hps]; omega
  have hcs : CellSet σE oF.st (S1.blk .p1) (S1.cells .p1).length (.int (K.d.pos (r + 1))) := by
    rw [sF, htn]
    exact CellSet.of_set hpb1 (by rw [hp1E, List.length_map, hps]; rw [hcapE] at hpb1len; omega)
  have stF : St K (S1.set .p1 (S1.blk .p1) (S1.cap .p1)
      ((K.d.outPos r ++ [(K.d.pos (r + 1) : Int)]).map (Val.int : Int → Val F))) oF.st := by
    refine stE.update hN .p1 ?_ (.inl rfl) (fun y _ _ => by rw [sF]) ?_ (by rw [sF]; simp) (by rw [sF])
    · rw [List.map_append, ← hp1E]
      refine ap.push ?_ hcs (by rw [sF]) (by rw [sF])
      rw [hp1E, List.length_map, hps, hcapE]; push_cast; exact hroom
    · intro k blk hk hkb
      rw [sF]
      show (σE.heap.set _ _)[k]? = _
      rw [List.getElem?_set_ne (Ne.symm hk)]; exact hkb
  have frF : VFrame [] σE oF.st := VFrame.of_eq (by rw [sF])
  generalize oF.st = σF at *
  have frAll : VFrame (blockW K) σ σF := by
    refine (frDE.trans frF).mono ?_
    intro x hx
    simp only [List.append_nil] at hx
    exact hx
  refine ⟨σF, _, ?_, stF, ⟨?_, ?_, ?_, ?_⟩, hpA1E.congr (frF _ (by simp)), ?_, frAll⟩
  · have := Dense1.RunsLI.append runD (Dense1.RunsLI.cons runE (Dense1.RunsLI.cons runF (Dense1.RunsLI.nil _ _)))
    simpa [innerLinesA] using this
  · rw [K.d.outPos_succ]; simp [OutSt.set]
  · simp only [OutSt.set, if_true]; rw [hcapE]; exact hsh.p1c
  · simpa [OutSt.set] using c1E
  · exact ⟨by simpa [OutSt.set] using cvE.1, by simpa [OutSt.set] using cvE.2⟩
  · obtain ⟨c, hc⟩ : ∃ c, c = curAt (K.cur1 r) (K.d.pos (r + 1)) := ⟨_, rfl⟩
    have hcm : c ∈ [curAt (K.cur1 r) (K.d.pos (r + 1))] := by rw [hc]; exact List.mem_cons_self
    have hci := invE.cur c hcm
    have hpB1 : IntVar σE (K.n .pB1) c.p := by rw [hc] at hci ⊢; exact hci.ptrv
    have heB1 : IntVar σE (K.n .eB1) c.e := by rw [hc] at hci ⊢; exact hci.endv
    have hvB1 : DeclOK σE (K.n .vB1) := by have := invE.val c hcm; rw [hc] at this; exact this
    exact ⟨(DeclOK.of_intVar hpA0E).congr (frF _ (by simp)),
      (hscr.pB0.congr (frDE _ (by simp only [inW, midW1]; cnm hN))).congr (frF _ (by simp)),
      (DeclOK.of_intVar hpB1).congr (frF _ (by simp)), (DeclOK.of_intVar heB1).congr (frF _ (by simp)),
      hvB1.congr (frF _ (by simp)), invE.idx.congr (frF _ (by simp)), hw1E.congr (frF _ (by simp))⟩

/-- **One iteration of the outer loop** (row `r < n`, `i = r`): `int p_a_0 = 0 * i_dim + i; int p_B_0 = 0 * i_dim
+ i; if (true) { <"Iteration over j" block> } i = i + 1;` runs without error with any fuel `≥ (row length) + 1`,
performs exactly `row length` loop iterations and takes the shape after `r` rows to the shape after `r + 1`
rows; `i = r + 1`, `p_a_1 = pos (r+1)`. -/
theorem outerBody_stepA (ok : K.OK) (r : Nat) (hr : r < K.d.n) (fuel : Nat) (σ : State F) (S : OutSt F)
    (hfuel : (K.d.pos (r + 1) - K.d.pos r) + 1 ≤ fuel)
    (hst : St K S σ) (hsh : ShapeA K S r) (hi : IntVar σ (K.n .i) r)
    (hpA1 : IntVar σ (K.n .pA1) (K.d.pos r)) (hscr : Scr K σ) :
    ∃ σ' S', RunsLI fuel (outerBodyA K.i K.j K.outT K.bT) σ σ' (K.d.pos (r + 1) - K.d.pos r) ∧
      St K S' σ' ∧ ShapeA K S' (r + 1) ∧ IntVar σ' (K.n .i) ((r + 1 : Nat) : Int) ∧
      IntVar σ' (K.n .pA1) (K.d.pos (r + 1)) ∧ Scr K σ' ∧ VFrame (bodyW K) σ σ' := by
  have hN := ok.names
  have hn := ok.wf.n31
  -- int p_a_0 = 0 * i_dim + i
  have ev1 : evalE σ (plus (times (.intLit 0) (.var (K.n .di))) (.var (K.n .i))) =
      .ok (.int (0 * (K.d.n : Int) + r)) :=
    evalE_add (evalE_mul (evalE_intLit (by omega) (by omega))
      (evalE_var_int hst.env.dim (by omega) (by omega)) (by omega) (by omega))
      (evalE_var_int hi (by omega) (by omega)) (by omega) (by omega)
  obtain ⟨σ1, r1, hh1, ht1, ⟨rr1, e11, e12, e13⟩, f1'⟩ := Dense1.runsI_declAssign (fuel := fuel)
    (x := K.n .pA0) (t := .int) (val' := .int (0 * (K.d.n : Int) + r)) hscr.pA0 ev1 rfl
  have f1 : VFrame [K.n .pA0] σ σ1 := VFrame.of1 f1'
  have hpA0_1 : IntVar σ1 (K.n .pA0) r := ⟨rr1, e11, e12, by rw [e13]; congr 2; omega⟩
  have st1 : St K S σ1 := hst.vstep f1 (by cprot hN) hh1 ht1
  -- int p_B_0 = 0 * i_dim + i
  have hi1 : IntVar σ1 (K.n .i) r := hi.congr (f1 _ (by cnm hN))
  have ev2 : evalE σ1 (plus (times (.intLit 0) (.var (K.n .di))) (.var (K.n .i))) =
      .ok (.int (0 * (K.d.n : Int) + r)) :=
    evalE_add (evalE_mul (evalE_intLit (by omega) (by omega))
      (evalE_var_int st1.env.dim (by omega) (by omega)) (by omega) (by omega))
      (evalE_var_int hi1 (by omega) (by omega)) (by omega) (by omega)
  obtain ⟨σ2, r2, hh2, ht2, ⟨rr2, e21, e22, e23⟩, f2'⟩ := Dense1.runsI_declAssign (fuel := fuel)
    (x := K.n .pB0) (t := .int) (val' := .int (0 * (K.d.n : Int) + r))
    (hscr.pB0.congr (f1 _ (by cnm hN))) ev2 rfl
  have f2 : VFrame [K.n .pB0] σ1 σ2 := VFrame.of1 f2'
  have hpB0_2 : IntVar σ2 (K.n .pB0) r := ⟨rr2, e21, e22, by rw [e23]; congr 2; omega⟩
  have st2 : St K S σ2 := st1.vstep f2 (by cprot hN) hh2 ht2
  have f12 := f1.trans f2
  have hscr2 : Scr K σ2 :=
    ⟨DeclOK.of_intVar (hpA0_1.congr (f2 _ (by cnm hN))), DeclOK.of_intVar hpB0_2,
      hscr.pB1.congr (f12 _ (by cnm hN)), hscr.eB1.congr (f12 _ (by cnm hN)),
      hscr.vB1.congr (f12 _ (by cnm hN)), hscr.j.congr (f12 _ (by cnm hN)), hscr.w1.congr (f12 _ (by cnm hN))⟩
  -- the block
  obtain ⟨σ3, S3, r3, st3, sh3, hpA1_3, hscr3, f3⟩ := inner_blockA ok r hr fuel σ2 S hfuel st2 hsh
    (hpA0_1.congr (f2 _ (by cnm hN))) (hpA1.congr (f12 _ (by cnm hN))) hpB0_2 hscr2
  have f123 := f12.trans f3
  have hi3 : IntVar σ3 (K.n .i) r := hi.congr (f123 _ (by simp only [blockW, inW, midW1]; cnm hN))
  have rb : RunsI fuel (.branch (.boolLit true)
      (.block [innerBlockA K.j K.outT K.bT] none) (.block [] none)) σ2 σ3
      (K.d.pos (r + 1) - K.d.pos r + 0) :=
    Dense1.RunsI.branch_true (f := (.block [] none : Stmt F)) (c := .boolLit true) (by simp [evalE])
      (Dense1.RunsI.block (c := none) (Dense1.RunsLI.cons
        (Dense1.RunsI.block (c := some ("*** Iteration over " ++ K.j ++ " ***")) r3)
        (Dense1.RunsLI.nil _ _)))
  -- i = i + 1
  have run4' := Runs.assign_int (fuel := fuel) hi3
    (evalE_add (evalE_var_int hi3 (by omega) (by omega))
      (evalE_intLit (σ := σ3) (v := 1) (by omega) (by omega)) (by omega) (by omega))
  have run4 := Dense1.RunsI.of_assign run4'
  generalize hσ4 : ({ σ3 with vars := setVar σ3.vars (K.n .i) (.int ((r : Int) + 1)) } : State F) = σ4 at run4
  have f4 : VFrame [K.n .i] σ3 σ4 := by
    intro y hy; rw [← hσ4]; exact lookupVar_setVar_other _ (by simpa using hy)
  have hh4 : σ4.heap = σ3.heap := by rw [← hσ4]
  have ht4 : σ4.tensors = σ3.tensors := by rw [← hσ4]
  have hi4 : IntVar σ4 (K.n .i) ((r + 1 : Nat) : Int) := by
    obtain ⟨rr, e1, e2, _⟩ := hi3
    rw [← hσ4]
    exact ⟨_, lookupVar_setVar_same _ e1, e2, by push_cast; rfl⟩
  have st4 : St K S3 σ4 := st3.vstep f4 (by cprot hN) hh4 ht4
  refine ⟨σ4, S3, ?_, st4, sh3, hi4, hpA1_3.congr (f4 _ (by cnm hN)), ?_, f123.trans f4⟩
  · have := Dense1.RunsLI.cons r1 (Dense1.RunsLI.cons r2 (Dense1.RunsLI.cons rb
      (Dense1.RunsLI.cons run4 (Dense1.RunsLI.nil _ _))))
    have hz : 0 + (0 + (K.d.pos (r + 1) - K.d.pos r + 0 + (0 + 0))) = K.d.pos (r + 1) - K.d.pos r := by omega
    rw [hz] at this
    exact this
  · exact ⟨hscr3.pA0.congr (f4 _ (by cnm hN)), hscr3.pB0.congr (f4 _ (by cnm hN)),
      hscr3.pB1.congr (f4 _ (by cnm hN)), hscr3.eB1.congr (f4 _ (by cnm hN)),
      hscr3.vB1.congr (f4 _ (by cnm hN)), hscr3.j.congr (f4 _ (by cnm hN)), hscr3.w1.congr (f4 _ (by cnm hN))⟩

end

end TV.Csr
