import TensoraVerif.Lemmas.AsmCmp2CsrPost
import TensoraVerif.Lemmas.CsrInnerLoop

/-!
C04 for the CSR matrix copy/scale kernels (`Csr` class), compute chain, part 1: the state invariant of the
COMPUTING kernel (`StC`) and its inner loop body step (`mid1_stepC`). No array grows: the heap keeps its length,
the only block written is the output's `vals` block `vF` (cell `q` at the stored entry `q`), the only variables
written are `written_a_1`, `p_a_1` and the skeleton's own.
-/
namespace TV.Csr
open TV.IR TV.Gen TV.Graph TV.Growth TV.Merge
open TV.Dense1 (TensorVar)
open TV.Sparse2 (Nm nameOf allNames nameOf_inj VFrame in1 out1 FlagOK)

set_option linter.unusedSectionVars false
variable {F : Type} [FloatOps F]

/-- **what the computing kernel needs of the output's `vals` block** `vF` in the initial heap: live,
output-owned, `float`, at least `rr` cells; it is none of the three blocks of the input -/
structure PreC (K : Ctx F) (rr vF : Nat) : Prop where
  vblk : ∃ blk, K.heap0[vF]? = some blk ∧ blk.live = true ∧ blk.owner = .output ∧ blk.ty = .float ∧
    rr ≤ blk.cells.length
  vne : vF ≠ K.bp ∧ vF ≠ K.bc ∧ vF ≠ K.bv

/-- the variables the loop nest of the computing kernel only reads -/
def protC (K : Ctx F) : List String :=
  [K.n .bp1, K.n .bc1, K.n .bv, K.n .a, K.n .di, K.n .av]

/-- **The state invariant of the computing kernel** after `q` values have been stored: tensor records
unchanged; the heap has the SAME LENGTH as the initial heap and every block other than `vF` is unchanged; the
array variables point to their blocks (`a_vals` to `vF`); `i_dim` holds `n`; block `vF` has the same type, owner,
liveness and length as initially, its cells `< q` hold the values of the first `q` stored entries and its cells
`≥ q` are as they were. -/
structure StC (K : Ctx F) (vF : Nat) (q : Nat) (σ : State F) : Prop where
  tensors : σ.tensors = K.tensors0
  len : σ.heap.length = K.heap0.length
  other : ∀ k, k ≠ vF → σ.heap[k]? = K.heap0[k]?
  vp : PtrVar σ (K.n .bp1) K.bp
  vc : PtrVar σ (K.n .bc1) K.bc
  vv : PtrVar σ (K.n .bv) K.bv
  avar : TensorVar σ (K.n .a) K.ta
  dim : IntVar σ (K.n .di) K.d.n
  av : PtrVar σ (K.n .av) vF
  cells : ∃ blk0 blk, K.heap0[vF]? = some blk0 ∧ σ.heap[vF]? = some blk ∧ blk.ty = blk0.ty ∧
    blk.owner = blk0.owner ∧ blk.live = blk0.live ∧ blk.cells.length = blk0.cells.length ∧
    (∀ j, j < q → blk.cells[j]? = some (some (.flt (K.valAt j)))) ∧
    (∀ j, q ≤ j → blk.cells[j]? = blk0.cells[j]?)

/-- **only variables outside the protected names change** (heap and tensors as they were) -/
theorem StC.vstep {K : Ctx F} {vF q : Nat} {σ σ' : State F} {W : List String} (h : StC K vF q σ)
    (hv : VFrame W σ σ') (hW : ∀ x ∈ protC K, x ∉ W) (hh : σ'.heap = σ.heap) (ht : σ'.tensors = σ.tensors) :
    StC K vF q σ' := by
  simp only [protC, List.forall_mem_cons, List.not_mem_nil, false_imp_iff, implies_true, and_true] at hW
  obtain ⟨w1, w2, w3, w4, w5, w6⟩ := hW
  exact ⟨ht.trans h.tensors, by rw [hh]; exact h.len, fun k hk => by rw [hh]; exact h.other k hk,
    h.vp.congr (hv _ w1), h.vc.congr (hv _ w2), h.vv.congr (hv _ w3), h.avar.congr (hv _ w4),
    h.dim.congr (hv _ w5), h.av.congr (hv _ w6), by rw [hh]; exact h.cells⟩

/-- a block of the initial heap other than `vF` is still there -/
theorem StC.get {K : Ctx F} {vF q : Nat} {σ : State F} (h : StC K vF q σ) {k : Nat} {blk : Block F}
    (hne : k ≠ vF) (hk : K.heap0[k]? = some blk) : σ.heap[k]? = some blk := by
  rw [h.other k hne]; exact hk

/-- `∀ x ∈ protC K, x ∉ W` for an explicit list `W` of names -/
macro "cprotC " hN:term : tactic =>
  `(tactic| (simp only [TV.Csr.protC]; cnm $hN))

/-- the names written by the statements between the `min` and the cursor increment of the INNER loop -/
def midW1C (K : Ctx F) : List String := [K.n .w1, K.n .pA1]

theorem noLoop_mid1C (ofRat : Rat → F) (j : String) (outT bT : TensorId) (e : IdExpr) :
    Sparse1.noLoopL [mid1C ofRat j outT bT e] = true := by
  simp [Sparse1.noLoopL, Sparse1.noLoop, mid1C, branch1C, termBlock, termLines, declAssignE, increment]

section step
variable {K : Ctx F}

/-- **The inner loop body step of the computing kernel.** One value is stored into cell `q` of block `vF`. -/
theorem mid1_stepC (ok : K.OK) {rr vF : Nat} (pre : PreC K rr vF) (fuel : Nat) (σ : State F) (q : Nat)
    (hq : q < K.d.nnz) (hroom : q < rr)
    (hst : StC K vF q σ)
    (hpA : IntVar σ (K.n .pA1) q) (hpB : IntVar σ (K.n .pB1) q)
    (hvB : IntVar σ (K.n .vB1) (K.d.crd q)) (hj : IntVar σ (K.n .j) (K.d.crd q))
    (hw1 : FlagOK σ (K.n .w1)) :
    ∃ σ', RunsL fuel [mid1C K.ofRat K.j K.outT K.bT K.e] σ σ' ∧ StC K vF (q + 1) σ' ∧
      IntVar σ' (K.n .pA1) ((q + 1 : Nat) : Int) ∧
      ToIr.FlagTrue σ' (K.n .w1) ∧
      VFrame (midW1C K) σ σ' := by
  have hN := ok.names
  obtain ⟨ho1, ho2⟩ := (isDS_iff K.i K.j K.outT).1 ok.ho
  obtain ⟨hl, ⟨hb1, hb2⟩, _⟩ := (isExpr_iff K.i K.j K.bT K.e).1 ok.he
  have hnnz := ok.wf.nnz30
  have hne0 : K.e ≠ .int 0 := by
    intro h; rw [h] at hl; simp [ToIr.leaves] at hl
  have holen : K.outT.indexes.length = 2 := by rw [ho1]; rfl
  have hblen : K.bT.indexes.length = 2 := by rw [hb1]; rfl
  obtain ⟨r0, r1⟩ := ok.wf.rng q hq
  -- 2. bool written_a_1 = false
  obtain ⟨σ2, r2, hh2, ht2, ⟨rw2, hrw1, hrw2, _⟩, f2'⟩ := Dense1.runsI_declAssign (fuel := fuel)
    (x := K.n .w1) (t := .bool) (e := (.boolLit false : Expr F)) (σ := σ)
    (val := .bool false) (val' := .bool false) hw1 (by simp [evalE]) rfl
  have run2 : Runs fuel (declAssignE (K.n .w1) .bool (.boolLit false)) σ σ2 := by
    obtain ⟨o, e, r, s, _⟩ := r2; exact ⟨o, e, r, s⟩
  have f2 : VFrame [K.n .w1] σ σ2 := VFrame.of1 f2'
  have st2 : StC K vF q σ2 := hst.vstep f2 (by cprotC hN) hh2 ht2
  -- 3. the terminal block
  have hpB2 : IntVar σ2 (K.n .pB1) q := hpB.congr (f2 _ (by cnm hN))
  have hpA2 : IntVar σ2 (K.n .pA1) q := hpA.congr (f2 _ (by cnm hN))
  have hw12 : ToIr.FlagVar σ2 (K.n .w1) := ⟨rw2, hrw1, hrw2⟩
  obtain ⟨bblk, hbblk, hblive, hbty, hbcells⟩ := ok.v
  have hleaf : ∀ t ∈ ToIr.leaves K.e, ToIr.LeafOK σ2 (fun _ => K.d.vals q) t := by
    intro t ht
    rw [hl] at ht
    simp only [List.mem_cons, List.not_mem_nil, or_false] at ht
    subst ht
    refine ToIr.LeafOK.intro (p := q) st2.vv ?_ (by omega) (by omega)
      ⟨bblk, st2.get (Ne.symm pre.vne.2.2) hbblk, hblive, hbty, by omega, by simpa using hbcells q hq⟩
    simp only [ToIr.CursorIs, hblen]
    exact hpB2
  obtain ⟨ablk0, hab0, halive0, haown0, haty0, halen0⟩ := pre.vblk
  obtain ⟨blk0, vblk, hblk0, hvblk, hvty, hvown, hvlive, hvlen, hvdone, hvrest⟩ := st2.cells
  rw [hab0] at hblk0; cases hblk0
  have hcell : ToIr.OutCell σ2 vF (0 + (q : Int)) :=
    ⟨vblk, hvblk, by rw [hvlive]; exact halive0, by rw [hvown]; exact haown0,
      by rw [hvty]; exact haty0, by omega, by omega⟩
  obtain ⟨tb, o3, htb, e3, ret3, _, hheap3, ht3, _, hflag3, _, f3''⟩ :=
    ToIr.terminal_append_sound K.ofRat (fun _ => K.d.vals q) σ2 K.e K.outT .compute rfl 0 fuel vF 0 q hleaf
      (ok.fin q hq) (ToIr.PtrAt.of_ptrVar st2.av)
      (by
        rw [holen]
        exact evalE_var_int hpA2 (by omega) (by omega))
      hcell
      (by
        intro f hf
        rw [ToIr.activeFlags_ne _ hne0, holen, writtenFlags_eq K.outT ho2] at hf
        simp only [List.mem_cons, List.not_mem_nil, or_false] at hf
        subst hf
        exact hw12)
  rw [holen, lower_terminal_eqC K.ofRat 0 K.outT K.e ho2 holen hne0] at htb
  cases htb
  rw [holen, writtenFlags_eq K.outT ho2] at hflag3 f3''
  have run3 : Runs fuel (termBlock K.ofRat K.outT K.e) σ2 o3.st := ⟨o3, e3, ret3, rfl⟩
  have hcp := ToIr.writeCell_post hcell (.flt (K.valAt q))
  have hheap3' : o3.st.heap = (ToIr.writeCell σ2 vF (0 + (q : Int)) (.flt (K.valAt q))).heap := hheap3
  have hlen3 : o3.st.heap.length = σ2.heap.length := by rw [hheap3']; exact hcp.len
  have hother3 : ∀ b', b' ≠ vF → o3.st.heap[b']? = σ2.heap[b']? := by
    intro b' hb'; rw [hheap3']; exact hcp.other b' hb'
  obtain ⟨vblk2, vblk3, hvblk2, hvblk3, hv3ty, hv3own, hv3live, hv3len, hv3cell, hv3cells⟩ := hcp.blk
  rw [← hheap3'] at hvblk3
  rw [hvblk] at hvblk2
  cases hvblk2
  have hfl3 : ToIr.FlagTrue o3.st (K.n .w1) := hflag3 hne0 (K.n .w1) List.mem_cons_self
  have f3 : VFrame [K.n .w1] σ2 o3.st := fun y hy => f3'' y hy
  have hq0 : (0 + (q : Int)).toNat = q := by omega
  rw [hq0] at hv3cell hv3cells
  have st3 : StC K vF (q + 1) o3.st := by
    have hW : ∀ x ∈ protC K, x ∉ [K.n .w1] := by cprotC hN
    simp only [protC, List.forall_mem_cons, List.not_mem_nil, false_imp_iff, implies_true, and_true] at hW
    obtain ⟨w1, w2, w3, w4, w5, w6⟩ := hW
    refine ⟨ht3.trans st2.tensors, hlen3.trans st2.len, fun k hk => (hother3 k hk).trans (st2.other k hk),
      st2.vp.congr (f3 _ w1), st2.vc.congr (f3 _ w2), st2.vv.congr (f3 _ w3), st2.avar.congr (f3 _ w4),
      st2.dim.congr (f3 _ w5), st2.av.congr (f3 _ w6),
      ablk0, vblk3, hab0, hvblk3, by rw [hv3ty, hvty], by rw [hv3own, hvown], by rw [hv3live, hvlive],
      by rw [hv3len, hvlen], ?_, ?_⟩
    · intro j hj
      by_cases hjq : j < q
      · rw [hv3cells j (by omega)]; exact hvdone j hjq
      · have hje : j = q := by omega
        subst hje
        exact hv3cell
    · intro j hj
      rw [hv3cells j (by omega)]
      exact hvrest j (by omega)
  have f23 := f2.trans f3
  generalize o3.st = σ3 at *
  -- 5. p_a_1++
  have hpA3 : IntVar σ3 (K.n .pA1) q := hpA.congr (f23 _ (by cnm hN))
  have run5 := Runs.assign_int (fuel := fuel) hpA3
    (evalE_add (evalE_var_int hpA3 (by omega) (by omega))
      (evalE_intLit (σ := σ3) (v := 1) (by omega) (by omega)) (by omega) (by omega))
  generalize hσ5 : ({ σ3 with vars := setVar σ3.vars (K.n .pA1) (.int ((q : Int) + 1)) } : State F)
    = σ5 at run5
  have f5 : VFrame [K.n .pA1] σ3 σ5 := by
    intro y hy; rw [← hσ5]; exact lookupVar_setVar_other _ (by simpa using hy)
  have hh5 : σ5.heap = σ3.heap := by rw [← hσ5]
  have ht5 : σ5.tensors = σ3.tensors := by rw [← hσ5]
  have hpA5 : IntVar σ5 (K.n .pA1) ((q + 1 : Nat) : Int) := by
    obtain ⟨r, e1, e2, _⟩ := hpA3
    rw [← hσ5]
    exact ⟨_, lookupVar_setVar_same _ e1, e2, by push_cast; rfl⟩
  have st5 : StC K vF (q + 1) σ5 := st3.vstep f5 (by cprotC hN) hh5 ht5
  -- the run
  have econd : evalE σ (.bin .and (.boolLit true)
      (.bin .eq (.var (K.n .vB1)) (.var (K.n .j)))) = .ok (.bool true) := by
    have := evalE_and (σ := σ) (l := .boolLit true) (a := true) (by simp [evalE])
      (evalE_eqInt (evalE_var_int hvB r0 r1) (evalE_var_int hj r0 r1))
    simpa using this
  have hrun : RunsL fuel [mid1C K.ofRat K.j K.outT K.bT K.e] σ σ5 :=
    RunsL.cons (Runs.branch_true econd (Runs.block (RunsL.cons run2 (RunsL.cons run3
      (RunsL.cons (Runs.branch_true (Sparse1.evalE_var_flag hfl3)
        (Runs.block (RunsL.cons run5 (RunsL.nil _ _)))) (RunsL.nil _ _))))))
      (RunsL.nil _ _)
  refine ⟨σ5, hrun, st5, hpA5, Sparse2.FlagTrue.congr hfl3 (f5 _ (by cnm hN)), ?_⟩
  exact (f23.trans f5).mono (by
    intro x hx
    simp only [List.mem_append, List.mem_cons, List.not_mem_nil, or_false] at hx
    simp only [midW1C, List.mem_cons, List.not_mem_nil, or_false]
    rcases hx with (rfl | rfl) | rfl <;> simp)

end step

end TV.Csr
