import TensoraVerif.Lemmas.AsmCmp2CsrCmpBody

/-!
C04 for the CSR matrix copy/scale kernels (`Csr` class), compute chain, part 2: the whole INNER loop of the
COMPUTING kernel (`inner_loopC`), by `Sparse2.cursor_loop_exact`: for one row `r` of `B` the loop stores exactly
the values of the entries `[pos r, pos (r+1))` into the cells of block `vF` with these numbers.
-/
namespace TV.Csr
open TV.IR TV.Gen TV.Graph TV.Growth TV.Merge
open TV.Sparse2 (Nm nameOf allNames nameOf_inj VFrame in1 out1 FlagOK curAt sumFrom PosStable MidAt
  cursor_loop_exact sumFrom_zero)

set_option linter.unusedSectionVars false
variable {F : Type} [FloatOps F]

/-- the names written by the inner loop of the computing kernel -/
def inWC (K : Ctx F) : List String := midW1C K ++ [K.n .j, K.n .pB1, K.n .vB1]

/-- the ghost predicate of the inner loop of the computing kernel at position `q` -/
def Q1C (K : Ctx F) (vF : Nat) (σin : State F) (q : Nat) (σ : State F) : Prop :=
  StC K vF q σ ∧ IntVar σ (K.n .pA1) q ∧ FlagOK σ (K.n .w1) ∧ VFrame (inWC K) σin σ

section
variable {K : Ctx F}

theorem q1_stableC (ok : K.OK) (r : Nat) (vF : Nat) (σin : State F) :
    PosStable (Q1C K vF σin) (K.cur1 r) K.j := by
  have hN := ok.names
  intro q σ σ' ⟨hst, h4, h6, h7⟩ hh ht hv
  have hv' : VFrame [K.n .j, K.n .pB1, K.n .vB1] σ σ' := by
    intro y hy
    simp only [List.mem_cons, List.not_mem_nil, or_false, not_or] at hy
    exact hv y hy.1 hy.2.1 hy.2.2
  refine ⟨hst.vstep hv' (by cprotC hN) hh ht, h4.congr (hv' _ (by cnm hN)),
    h6.congr (hv' _ (by cnm hN)), ?_⟩
  intro y hy
  rw [hv' y (fun hm => hy (by simp only [inWC, List.mem_append]; exact .inr hm)), h7 y hy]

theorem q1_midC (ok : K.OK) {rr vF : Nat} (pre : PreC K rr vF) (hrr : K.d.nnz ≤ rr) (r : Nat) (hr : r < K.d.n)
    (σin : State F) :
    MidAt 0 (fun _ => 0) (Q1C K vF σin) (K.cur1 r) K.j [mid1C K.ofRat K.j K.outT K.bT K.e] := by
  have hN := ok.names
  intro fuel σ q _ hq0 hq hinv hval hidx ⟨hst, h4, h6, h7⟩
  have hcm : curAt (K.cur1 r) q ∈ [curAt (K.cur1 r) q] := List.mem_cons_self
  have hcur := hinv.cur _ hcm
  have hqn : q < K.d.nnz := by
    have := ok.wf.pos_le_nnz (a := r + 1) (by omega)
    have hq' : q < K.d.pos (r + 1) := hq
    omega
  obtain ⟨σ', ⟨o, eo, ro, so⟩, hst', hpA', hw1', fr⟩ :=
    mid1_stepC ok pre fuel σ q hqn (by omega) hst h4 hcur.ptrv hval hidx h6
  subst so
  refine ⟨o, eo, ro, Sparse1.execL_noLoop_iters fuel _ σ (noLoop_mid1C _ _ _ _ _) o eo, ?_, ?_, ?_⟩
  · intro x hx
    have hx' : x ∈ [K.n .j, K.n .pB1, K.n .eB1, K.n .bc1, K.n .vB1] := hx
    apply fr
    simp only [List.mem_cons, List.not_mem_nil, or_false] at hx'
    rcases hx' with rfl | rfl | rfl | rfl | rfl <;> (simp only [midW1C]; cnm hN)
  · show o.st.heap[K.bc]? = σ.heap[K.bc]?
    rw [hst'.other _ (Ne.symm pre.vne.2.1), hst.other _ (Ne.symm pre.vne.2.1)]
  · refine ⟨hst', hpA', FlagOK.of_flagVar (Sparse2.FlagVar.of_true hw1'), ?_⟩
    intro y hy
    rw [fr y (fun hm => hy (by simp only [inWC, List.mem_append]; exact .inl hm)), h7 y hy]

/-- **The inner loop of the computing kernel.** For a row `r < n` of `B`. -/
theorem inner_loopC (ok : K.OK) {rr vF : Nat} (pre : PreC K rr vF) (hrr : K.d.nnz ≤ rr)
    (r : Nat) (hr : r < K.d.n) (fuel : Nat) (σ : State F)
    (hfuel : (K.d.pos (r + 1) - K.d.pos r) + 1 ≤ fuel)
    (hst : StC K vF (K.d.pos r) σ)
    (hpA : IntVar σ (K.n .pA1) (K.d.pos r)) (hM : MergeInv σ [K.cur1 r] K.j)
    (hw1 : FlagOK σ (K.n .w1)) :
    ∃ o, exec fuel (mergeLoopL [in1 K.bT] K.j [mid1C K.ofRat K.j K.outT K.bT K.e]) σ = .ok o ∧ o.ret = none ∧
      o.iters = K.d.pos (r + 1) - K.d.pos r ∧
      MergeInv o.st [curAt (K.cur1 r) (K.d.pos (r + 1))] K.j ∧
      StC K vF (K.d.pos (r + 1)) o.st ∧
      IntVar o.st (K.n .pA1) (K.d.pos (r + 1)) ∧ FlagOK o.st (K.n .w1) ∧
      VFrame (inWC K) σ o.st := by
  have hmono := ok.wf.mono r hr
  have hQ : Q1C K vF σ (K.d.pos r) σ := ⟨hst, hpA, hw1, VFrame.refl _ _⟩
  obtain ⟨o, eo, ro, ito, invo, ⟨h1, h5, h7, h8⟩⟩ :=
    cursor_loop_exact (K.cur1 r) K.j [mid1C K.ofRat K.j K.outT K.bT K.e] (namesOK1 ok.names r)
      (q1_stableC ok r vF σ) (q1_midC ok pre hrr r hr σ) (K.d.pos (r + 1) - K.d.pos r) (K.d.pos r) σ fuel
      (by show K.d.pos r + _ = K.d.pos (r + 1); omega) (Nat.le_refl _) hM hQ (by omega)
  refine ⟨o, eo, ro, by rw [ito, sumFrom_zero]; omega, invo, h1, h5, h7, h8⟩

end

end TV.Csr
