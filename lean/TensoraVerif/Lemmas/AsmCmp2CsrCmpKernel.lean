import TensoraVerif.Lemmas.AsmCmp2CsrCmpLoop
import TensoraVerif.Lemmas.CsrKernel

/-!
C04 for the CSR matrix copy/scale kernels (`Csr` class), compute chain, part 4: the prologue of the COMPUTING
kernel (`prologue1_runsC`, `prologue_runsC`: "Extract dimensions", "Unpack tensors", `int p_a_1 = 0;`) and the
whole `compute` function on the machine (`kernel_runsC`): from `InitC` to `KernelPostC`.
-/
namespace TV.Csr
open TV.IR TV.Gen TV.Graph TV.Growth TV.Merge TV.Dense1
open TV.Sparse1 (declFresh)
open TV.Sparse2 (Nm nameOf allNames VFrame FlagOK evalE_dim evalE_slot ptrVar_of
  declOK_of_none flagOK_of_none dimStmts)

set_option linter.unusedSectionVars false
variable {F : Type} [FloatOps F]

section
variable {K : Ctx F}

/-- **the first two blocks of the prologue** (compute): as `prologue1_runs`, and `a_vals` points to the block
the output record's `vals` points to -/
theorem prologue1_runsC (ok : K.OK) {atr btr : TensorRec F} {tb : Nat} {m : Int} {σ : State F}
    (init : Init K atr btr tb m σ) {vF : Nat} (havp : atr.vals = .ptr vF 0) (fuel : Nat) :
    ∃ σB, RunsLI fuel
        [.block (dimStmts K.i K.j K.outT) (some "Extract dimensions"),
         .block (unpackStmts K.outT.name ++ unpackStmts K.bT.name) (some "Unpack tensors")] σ σB 0 ∧
      σB.heap = σ.heap ∧ σB.tensors = σ.tensors ∧ VFrame (proW1 K) σ σB ∧
      IntVar σB (K.n .di) K.d.n ∧
      PtrVar σB (K.n .av) vF ∧
      PtrVar σB (K.n .bp1) K.bp ∧ PtrVar σB (K.n .bc1) K.bc ∧ PtrVar σB (K.n .bv) K.bv := by
  have hN := ok.names
  have hn31 := ok.wf.n31
  have hfr : ∀ c : Nm, c ≠ .a → c ≠ .b → lookupVar σ.vars (K.n c) = none := by
    intro c h1 h2
    exact init.fresh _ (by cnm hN; exact h1) (by cnm hN; exact h2)
  obtain ⟨dblk, hdb, hdlive, hdty, hdc0, hdc1⟩ := init.adim
  obtain ⟨ap1, ac1, hasl1, hap1, hac1⟩ := init.aslot1
  have harec : σ.tensors[K.ta]? = some atr := by rw [init.tensors]; exact init.arec
  have hbrec : σ.tensors[tb]? = some btr := by rw [init.tensors]; exact init.brec
  -- A: the dimension variables
  obtain ⟨σA1, rA1, hhA1, htA1, vA1, oA1⟩ := declFresh (fuel := fuel) (x := K.n .di) (t := .int)
    (val' := .int (K.d.n : Int))
    (hfr _ (by decide) (by decide))
    (evalE_dim 0 init.avar harec (by rw [init.heap]; exact hdb) hdlive hdty hdc0 (by omega) (by omega) (by omega))
    rfl
  have vA1' : IntVar σA1 (K.n .di) K.d.n := vA1
  have fA1 : VFrame [K.n .di] σ σA1 := VFrame.of1 oA1
  obtain ⟨σA, rA2, hhA2, htA2, _, oA2⟩ := declFresh (fuel := fuel) (x := K.n .dj) (t := .int) (val' := .int m)
    (σ := σA1) (by rw [fA1 _ (by cnm hN)]; exact hfr _ (by decide) (by decide))
    (evalE_dim 1 (init.avar.congr (fA1 _ (by cnm hN))) (by rw [htA1]; exact harec)
      (by rw [hhA1, init.heap]; exact hdb) hdlive hdty hdc1 (by omega) init.m32.1 init.m32.2) rfl
  have fA2 : VFrame [K.n .dj] σA1 σA := VFrame.of1 oA2
  have fA := fA1.trans fA2
  have hhA : σA.heap = σ.heap := by rw [hhA2, hhA1]
  have htA : σA.tensors = σ.tensors := by rw [htA2, htA1]
  -- B: unpack the output
  have hndA : [K.n .a, posName (K.n .a) 1, crdName (K.n .a) 1, valsName (K.n .a)].Nodup := by
    show [K.n .a, K.n .ap1, K.n .ac1, K.n .av].Nodup
    simp only [List.nodup_cons, List.nodup_nil]
    cnm hN
  obtain ⟨σB1, rB1, hhB1, htB1, vp1, vc1, vv, fB1'⟩ := unpack1_runs (fuel := fuel) (σ := σA)
    (init.avar.congr (fA _ (by cnm hN))) (by rw [htA]; exact harec) init.aord hasl1 hap1 hac1
    init.avals hndA
    (by show lookupVar σA.vars (K.n .ap1) = none; rw [fA _ (by cnm hN)]; exact hfr _ (by decide) (by decide))
    (by show lookupVar σA.vars (K.n .ac1) = none; rw [fA _ (by cnm hN)]; exact hfr _ (by decide) (by decide))
    (by show lookupVar σA.vars (K.n .av) = none; rw [fA _ (by cnm hN)]; exact hfr _ (by decide) (by decide))
  have fB1 : VFrame [K.n .ap1, K.n .ac1, K.n .av] σA σB1 := fB1'
  have fAB1 := fA.trans fB1
  -- B: unpack the input
  have hndB : [K.n .b, posName (K.n .b) 1, crdName (K.n .b) 1, valsName (K.n .b)].Nodup := by
    show [K.n .b, K.n .bp1, K.n .bc1, K.n .bv].Nodup
    simp only [List.nodup_cons, List.nodup_nil]
    cnm hN
  obtain ⟨σB, rB2, hhB2, htB2, wp1, wc1, wv, fB2'⟩ := unpack1_runs (fuel := fuel) (σ := σB1)
    (init.bvar.congr (fAB1 _ (by cnm hN))) (by rw [htB1, htA]; exact hbrec) init.bord init.bslot1
    rfl rfl (by rw [init.bvals]; rfl) hndB
    (by show lookupVar σB1.vars (K.n .bp1) = none; rw [fAB1 _ (by cnm hN)]; exact hfr _ (by decide) (by decide))
    (by show lookupVar σB1.vars (K.n .bc1) = none; rw [fAB1 _ (by cnm hN)]; exact hfr _ (by decide) (by decide))
    (by show lookupVar σB1.vars (K.n .bv) = none; rw [fAB1 _ (by cnm hN)]; exact hfr _ (by decide) (by decide))
  have fB2 : VFrame [K.n .bp1, K.n .bc1, K.n .bv] σB1 σB := fB2'
  have gA := (fA2.trans fB1).trans fB2
  refine ⟨σB, ?_, by rw [hhB2, hhB1, hhA], by rw [htB2, htB1, htA], fAB1.trans fB2,
    vA1'.congr (gA _ (by cnm hN)), ?_, ptrVar_of wp1, ptrVar_of wc1, ?_⟩
  · exact RunsLI.cons (RunsI.block (RunsLI.cons rA1 (RunsLI.cons rA2 (RunsLI.nil _ _))))
      (RunsLI.cons (RunsI.block (RunsLI.append rB1 rB2)) (RunsLI.nil _ _))
  · refine ptrVar_of (t := .float) ?_
    obtain ⟨r, e1, e2, e3⟩ := vv
    exact ⟨r, by rw [fB2 _ (by cnm hN)]; exact e1, e2, by rw [e3, havp]⟩
  · refine ptrVar_of (t := .float) ?_
    obtain ⟨r, e1, e2, e3⟩ := wv
    exact ⟨r, e1, e2, by rw [e3, init.bvals]⟩

/-- **The prologue of the computing kernel**: from `InitC` to the state at the entry of the iteration block. -/
theorem prologue_runsC (ok : K.OK)
    {atr btr : TensorRec F} {tb : Nat} {m : Int} {vF : Nat} {σ : State F} (init : InitC K atr btr tb m vF σ)
    (fuel : Nat) :
    ∃ σC, RunsLI fuel
        [.block (Sparse2.dimStmts K.i K.j K.outT) (some "Extract dimensions"),
         .block (unpackStmts K.outT.name ++ unpackStmts K.bT.name) (some "Unpack tensors"),
         .block (outInitC K.outT) (some "Output initialization")] σ σC 0 ∧
      StC K vF 0 σC ∧ IntVar σC (K.n .pA1) 0 ∧ Scr K σC ∧ DeclOK σC (K.n .i) := by
  have hN := ok.names
  obtain ⟨σB, rB, hhB, htB, fB, hdim, hav, b1, b2, b3⟩ := prologue1_runsC ok init.base init.avalsPtr fuel
  have hfr : ∀ c ∈ proLocals, lookupVar σB.vars (K.n c) = none := by
    have hall : ∀ c ∈ proLocals, K.n c ∉ proW1 K ∧ K.n c ≠ K.n .a ∧ K.n c ≠ K.n .b := by
      simp only [proLocals, proW1]
      cnm hN
    intro c hc
    obtain ⟨h1, h2, h3⟩ := hall c hc
    rw [fB _ h1]; exact init.base.fresh _ h2 h3
  obtain ⟨σC, rC, hhC, htC, vC, oC⟩ := declFresh (fuel := fuel) (x := K.n .pA1) (t := .int)
    (e := (.intLit 0 : Expr F)) (σ := σB) (val := .int 0) (val' := .int 0)
    (hfr .pA1 (by simp [proLocals])) (evalE_intLit (by omega) (by omega)) rfl
  have fC : VFrame [K.n .pA1] σB σC := VFrame.of1 oC
  have hnone : ∀ c ∈ proLocals, c ≠ .pA1 → lookupVar σC.vars (K.n c) = none := by
    intro c hc hne
    rw [fC _ (by cnm hN; exact hne)]; exact hfr c hc
  have hheapC : σC.heap = K.heap0 := by rw [hhC, hhB]; exact init.base.heap
  refine ⟨σC, ?_, ?_, vC, ?_, ?_⟩
  · have := RunsLI.append rB (RunsLI.cons (RunsI.block (c := some "Output initialization")
      (RunsLI.cons rC (RunsLI.nil _ _))) (RunsLI.nil _ _))
    exact this
  · obtain ⟨blk, hb, _⟩ := init.vblk
    rw [init.base.heap] at hb
    refine ⟨by rw [htC, htB]; exact init.base.tensors, by rw [hheapC], fun k _ => by rw [hheapC],
      b1.congr (fC _ (by cnm hN)), b2.congr (fC _ (by cnm hN)), b3.congr (fC _ (by cnm hN)),
      (init.base.avar.congr (fB _ (by simp only [proW1]; cnm hN))).congr (fC _ (by cnm hN)),
      hdim.congr (fC _ (by cnm hN)), hav.congr (fC _ (by cnm hN)),
      blk, blk, hb, by rw [hheapC]; exact hb, rfl, rfl, rfl, rfl, fun j hj => absurd hj (Nat.not_lt_zero j),
      fun _ _ => rfl⟩
  · exact ⟨declOK_of_none (hnone .pA0 (by simp [proLocals]) (by decide)),
      declOK_of_none (hnone .pB0 (by simp [proLocals]) (by decide)),
      declOK_of_none (hnone .pB1 (by simp [proLocals]) (by decide)),
      declOK_of_none (hnone .eB1 (by simp [proLocals]) (by decide)),
      declOK_of_none (hnone .vB1 (by simp [proLocals]) (by decide)),
      declOK_of_none (hnone .j (by simp [proLocals]) (by decide)),
      flagOK_of_none (hnone .w1 (by simp [proLocals]) (by decide))⟩
  · exact declOK_of_none (hnone .i (by simp [proLocals]) (by decide))

end

/-- **the whole `compute` function on the machine**: under the static hypotheses of `Csr.kernel_runs` (no
capacity hypothesis), from an initial state `InitC` (the output's `vals` block `vF` has at least `nnz` cells): the
function runs without error, returns `0`, performs exactly `n + nnz` loop iterations, and the final state is
`KernelPostC`: no allocation, all tensor records and every block other than `vF` unchanged, cells `q < nnz` of
`vF` hold `K.valAt q` (the values `Csr.kernel_runs` leaves in the output's `vals`), the others are unchanged. -/
theorem kernel_runsC {K : Ctx F} (ok : K.OK) (formats : Formats)
    (hfmt : formats.map (·.1) = [K.outT.name, K.bT.name])
    {atr btr : TensorRec F} {tb : Nat} {m : Int} {vF : Nat} {σ : State F}
    (init : InitC K atr btr tb m vF σ)
    (fuel : Nat) (hfuel : K.d.n + K.d.nnz + 1 ≤ fuel) :
    ∃ o, exec fuel (kernelC K.ofRat formats K.i K.j K.outT K.bT K.e).body σ = .ok o ∧
      o.ret = some (.int 0) ∧ o.iters = K.d.n + K.d.nnz ∧ KernelPostC K vF σ o.st := by
  have pre : PreC K K.d.nnz vF := by
    obtain ⟨blk, hb, h1, h2, h3, h4⟩ := init.vblk
    rw [init.base.heap] at hb
    exact ⟨⟨blk, hb, h1, h2, h3, h4⟩, init.vne⟩
  obtain ⟨σC, rC, stC, hpA1, hscr, hdi⟩ := prologue_runsC ok init fuel
  obtain ⟨σF, rF, stF⟩ := loopLines_runsC ok pre (Nat.le_refl _) fuel σC hfuel stC hpA1 hscr hdi
  have hunp : (formats.flatMap fun f => unpackStmts (F := F) f.1) =
      unpackStmts K.outT.name ++ unpackStmts K.bT.name := by
    have : (formats.flatMap fun f => unpackStmts (F := F) f.1) =
        (formats.map (·.1)).flatMap unpackStmts := by
      rw [List.flatMap_map]
    rw [this, hfmt]
    simp
  have rAll : RunsLI fuel (kernelStmtsC K.ofRat formats K.i K.j K.outT K.bT K.e) σ σF
      (0 + (K.d.n + K.d.nnz + (0 + 0))) := by
    unfold kernelStmtsC
    rw [hunp]
    have h3 := RunsLI.append rC (RunsLI.cons (RunsI.block
      (c := some ("*** Iteration over " ++ K.i ++ " ***")) rF)
      (RunsLI.cons (RunsI.block (c := some ("Assembling output tensor " ++ K.outT.name)) (RunsLI.nil fuel σF))
        (RunsLI.nil _ _)))
    simpa using h3
  obtain ⟨o, eo, hret, hst, hit⟩ := execL_ret (e := .intLit 0) (v := .int 0) rAll
    (evalE_intLit (by omega) (by omega))
  refine ⟨o, ?_, hret, by rw [hit]; omega, ?_⟩
  · show exec fuel (.block (kernelStmtsC K.ofRat formats K.i K.j K.outT K.bT K.e ++ [.ret (.intLit 0)]) none) σ = _
    rw [exec.eq_5]
    exact eo
  · rw [hst]
    refine ⟨by rw [stF.tensors, init.base.tensors], by rw [stF.len, init.base.heap],
      fun k hk => by rw [stF.other k hk, init.base.heap], ?_⟩
    obtain ⟨blk0, blk, h0, h1, h2, h3, h4, h5, h6, h7⟩ := stF.cells
    exact ⟨blk0, blk, by rw [init.base.heap]; exact h0, h1, h2, h3, h4, h5, h6, h7⟩

end TV.Csr
