import TensoraVerif.Lemmas.AsmCmp2CsrCmpInnerLoop
import TensoraVerif.Lemmas.CsrLoop

/-!
C04 for the CSR matrix copy/scale kernels (`Csr` class), compute chain, part 3: one iteration of the DENSE outer
loop of the COMPUTING kernel (`inner_blockC`, `outerBody_stepC`), the outer loop (`outerLoop_runsC`) and the
iteration block (`loopLines_runsC`). No pos assembly.
-/
namespace TV.Csr
open TV.IR TV.Gen TV.Graph TV.Growth TV.Merge
open TV.Dense1 (RunsI RunsLI ptrDecl)
open TV.Sparse2 (Nm nameOf allNames nameOf_inj VFrame in1 out1 FlagOK curAt)

set_option linter.unusedSectionVars false
variable {F : Type} [FloatOps F]

/-- the names written by the "Iteration over j" block (compute) -/
def blockWC (K : Ctx F) : List String := [K.n .pB1, K.n .eB1] ++ inWC K

/-- the names written by one iteration of the outer loop (compute) -/
def bodyWC (K : Ctx F) : List String := [K.n .pA0] ++ [K.n .pB0] ++ blockWC K ++ [K.n .i]

section
variable {K : Ctx F}

/-- **The "Iteration over j" block of one outer iteration of the computing kernel** (row `r < n`). -/
theorem inner_blockC (ok : K.OK) {rr vF : Nat} (pre : PreC K rr vF) (hrr : K.d.nnz ≤ rr)
    (r : Nat) (hr : r < K.d.n) (fuel : Nat) (σ : State F)
    (hfuel : (K.d.pos (r + 1) - K.d.pos r) + 1 ≤ fuel)
    (hst : StC K vF (K.d.pos r) σ)
    (hpA1 : IntVar σ (K.n .pA1) (K.d.pos r)) (hpB0 : IntVar σ (K.n .pB0) r)
    (hscr : Scr K σ) :
    ∃ σ', RunsLI fuel (innerLinesC K.ofRat K.j K.outT K.bT K.e) σ σ' (K.d.pos (r + 1) - K.d.pos r) ∧
      StC K vF (K.d.pos (r + 1)) σ' ∧ IntVar σ' (K.n .pA1) (K.d.pos (r + 1)) ∧
      Scr K σ' ∧ VFrame (blockWC K) σ σ' := by
  have hN := ok.names
  have hmono := ok.wf.mono r hr
  have hR := ok.wf.n31
  have hnnz := ok.wf.nnz30
  have hle1 := ok.wf.pos_le_nnz (a := r) (by omega)
  have hle2 := ok.wf.pos_le_nnz (a := r + 1) (by omega)
  -- a. the inner cursors
  obtain ⟨pblk, hpb, hplive, hpty, hpcells⟩ := ok.p
  obtain ⟨cblk, hcb, hclive, hcty, hclen, hccells⟩ := ok.c
  have hposOK : PosOK σ (K.cur1 r) K.bp r := by
    refine ⟨hst.vp, ?_, by omega, by omega, ⟨pblk, hst.get (Ne.symm pre.vne.1) hpb, hplive, hpty, ?_, ?_⟩⟩
    · exact hpB0
    · simpa [Ctx.cur1] using hpcells r (by omega)
    · simpa [Ctx.cur1] using hpcells (r + 1) (by omega)
  obtain ⟨oD, eD, rD, itD, curD, frD', hhD, htD⟩ := writeSparseInit_safe (K.cur1 r) fuel σ K.bp r hposOK
    hst.vc hmono (by show ((K.d.pos (r + 1) : Nat) : Int) < 2147483648; omega)
    ⟨cblk, hst.get (Ne.symm pre.vne.2.1) hcb, hclive, hcty, by show K.d.pos (r + 1) ≤ _; omega,
      fun j _ hj => hccells j (by have : j < K.d.pos (r + 1) := hj; omega)⟩
    (fun j _ hj => ok.wf.rng j (by have : j < K.d.pos (r + 1) := hj; omega))
    hscr.pB1 hscr.eB1
  have frD : VFrame [K.n .pB1, K.n .eB1] σ oD.st := VFrame.of2 frD'
  have runD : RunsLI fuel (writeSparseInit (in1 K.bT)).lines σ oD.st 0 := by
    refine ⟨oD, ?_, rD, rfl, itD⟩
    have : (writeSparseInit (F := F) (K.cur1 r).leaf).finalize =
        .block (writeSparseInit (in1 K.bT)).lines none := rfl
    rw [this, exec.eq_5] at eD
    exact eD
  have stD : StC K vF (K.d.pos r) oD.st := hst.vstep frD (by cprotC hN) hhD htD
  generalize oD.st = σD at *
  -- b. the inner loop
  have hM : MergeInv σD [K.cur1 r] K.j := by
    refine ⟨fun d hd => ?_, fun d hd => ?_, ?_⟩
    · simp only [List.mem_cons, List.not_mem_nil, or_false] at hd; subst hd; exact curD
    · simp only [List.mem_cons, List.not_mem_nil, or_false] at hd; subst hd
      exact hscr.vB1.congr (frD _ (by cnm hN))
    · exact hscr.j.congr (frD _ (by cnm hN))
  obtain ⟨oE, eE, rE, itE, invE, stE, hpA1E, hw1E, frE⟩ :=
    inner_loopC ok pre hrr r hr fuel σD hfuel stD (hpA1.congr (frD _ (by cnm hN))) hM
      (hscr.w1.congr (frD _ (by cnm hN)))
  have runE : RunsI fuel (mergeLoopL [in1 K.bT] K.j [mid1C K.ofRat K.j K.outT K.bT K.e]) σD oE.st
      (K.d.pos (r + 1) - K.d.pos r) := ⟨oE, eE, rE, rfl, itE⟩
  generalize oE.st = σE at *
  have frDE := frD.trans frE
  have frAll : VFrame (blockWC K) σ σE := frDE
  refine ⟨σE, ?_, stE, hpA1E, ?_, frAll⟩
  · have := Dense1.RunsLI.append runD (Dense1.RunsLI.cons runE (Dense1.RunsLI.nil _ _))
    simpa [innerLinesC] using this
  · obtain ⟨c, hc⟩ : ∃ c, c = curAt (K.cur1 r) (K.d.pos (r + 1)) := ⟨_, rfl⟩
    have hcm : c ∈ [curAt (K.cur1 r) (K.d.pos (r + 1))] := by rw [hc]; exact List.mem_cons_self
    have hci := invE.cur c hcm
    have hpB1 : IntVar σE (K.n .pB1) c.p := by rw [hc] at hci ⊢; exact hci.ptrv
    have heB1 : IntVar σE (K.n .eB1) c.e := by rw [hc] at hci ⊢; exact hci.endv
    have hvB1 : DeclOK σE (K.n .vB1) := by have := invE.val c hcm; rw [hc] at this; exact this
    exact ⟨hscr.pA0.congr (frDE _ (by simp only [inWC, midW1C]; cnm hN)),
      hscr.pB0.congr (frDE _ (by simp only [inWC, midW1C]; cnm hN)),
      DeclOK.of_intVar hpB1, DeclOK.of_intVar heB1, hvB1, invE.idx, hw1E⟩

/-- **One iteration of the outer loop of the computing kernel** (row `r < n`, `i = r`). -/
theorem outerBody_stepC (ok : K.OK) {rr vF : Nat} (pre : PreC K rr vF) (hrr : K.d.nnz ≤ rr)
    (r : Nat) (hr : r < K.d.n) (fuel : Nat) (σ : State F)
    (hfuel : (K.d.pos (r + 1) - K.d.pos r) + 1 ≤ fuel)
    (hst : StC K vF (K.d.pos r) σ) (hi : IntVar σ (K.n .i) r)
    (hpA1 : IntVar σ (K.n .pA1) (K.d.pos r)) (hscr : Scr K σ) :
    ∃ σ', RunsLI fuel (outerBodyC K.ofRat K.i K.j K.outT K.bT K.e) σ σ' (K.d.pos (r + 1) - K.d.pos r) ∧
      StC K vF (K.d.pos (r + 1)) σ' ∧ IntVar σ' (K.n .i) ((r + 1 : Nat) : Int) ∧
      IntVar σ' (K.n .pA1) (K.d.pos (r + 1)) ∧ Scr K σ' ∧ VFrame (bodyWC K) σ σ' := by
  have hN := ok.names
  have hn := ok.wf.n31
  -- int p_a_0 = 0 * i_dim + i
  have ev1 : evalE σ (plus (times (.intLit 0) (.var (K.n .di))) (.var (K.n .i))) =
      .ok (.int (0 * (K.d.n : Int) + r)) :=
    evalE_add (evalE_mul (evalE_intLit (by omega) (by omega))
      (evalE_var_int hst.dim (by omega) (by omega)) (by omega) (by omega))
      (evalE_var_int hi (by omega) (by omega)) (by omega) (by omega)
  obtain ⟨σ1, r1, hh1, ht1, ⟨rr1, e11, e12, e13⟩, f1'⟩ := Dense1.runsI_declAssign (fuel := fuel)
    (x := K.n .pA0) (t := .int) (val' := .int (0 * (K.d.n : Int) + r)) hscr.pA0 ev1 rfl
  have f1 : VFrame [K.n .pA0] σ σ1 := VFrame.of1 f1'
  have hpA0_1 : IntVar σ1 (K.n .pA0) r := ⟨rr1, e11, e12, by rw [e13]; congr 2; omega⟩
  have st1 : StC K vF (K.d.pos r) σ1 := hst.vstep f1 (by cprotC hN) hh1 ht1
  -- int p_B_0 = 0 * i_dim + i
  have hi1 : IntVar σ1 (K.n .i) r := hi.congr (f1 _ (by cnm hN))
  have ev2 : evalE σ1 (plus (times (.intLit 0) (.var (K.n .di))) (.var (K.n .i))) =
      .ok (.int (0 * (K.d.n : Int) + r)) :=
    evalE_add (evalE_mul (evalE_intLit (by omega) (by omega))
      (evalE_var_int st1.dim (by omega) (by omega)) (by omega) (by omega))
      (evalE_var_int hi1 (by omega) (by omega)) (by omega) (by omega)
  obtain ⟨σ2, r2, hh2, ht2, ⟨rr2, e21, e22, e23⟩, f2'⟩ := Dense1.runsI_declAssign (fuel := fuel)
    (x := K.n .pB0) (t := .int) (val' := .int (0 * (K.d.n : Int) + r))
    (hscr.pB0.congr (f1 _ (by cnm hN))) ev2 rfl
  have f2 : VFrame [K.n .pB0] σ1 σ2 := VFrame.of1 f2'
  have hpB0_2 : IntVar σ2 (K.n .pB0) r := ⟨rr2, e21, e22, by rw [e23]; congr 2; omega⟩
  have st2 : StC K vF (K.d.pos r) σ2 := st1.vstep f2 (by cprotC hN) hh2 ht2
  have f12 := f1.trans f2
  have hscr2 : Scr K σ2 :=
    ⟨DeclOK.of_intVar (hpA0_1.congr (f2 _ (by cnm hN))), DeclOK.of_intVar hpB0_2,
      hscr.pB1.congr (f12 _ (by cnm hN)), hscr.eB1.congr (f12 _ (by cnm hN)),
      hscr.vB1.congr (f12 _ (by cnm hN)), hscr.j.congr (f12 _ (by cnm hN)), hscr.w1.congr (f12 _ (by cnm hN))⟩
  -- the block
  obtain ⟨σ3, r3, st3, hpA1_3, hscr3, f3⟩ := inner_blockC ok pre hrr r hr fuel σ2 hfuel st2
    (hpA1.congr (f12 _ (by cnm hN))) hpB0_2 hscr2
  have f123 := f12.trans f3
  have hi3 : IntVar σ3 (K.n .i) r := hi.congr (f123 _ (by simp only [blockWC, inWC, midW1C]; cnm hN))
  have rb : RunsI fuel (.branch (.boolLit true)
      (.block [innerBlockC K.ofRat K.j K.outT K.bT K.e] none) (.block [] none)) σ2 σ3
      (K.d.pos (r + 1) - K.d.pos r + 0) :=
    Dense1.RunsI.branch_true (f := (.block [] none : Stmt F)) (c := .boolLit true) (by simp [evalE])
      (Dense1.RunsI.block (c := none) (Dense1.RunsLI.cons
        (Dense1.RunsI.block (c := some ("*** Iteration over " ++ K.j ++ " ***")) r3)
        (Dense1.RunsLI.nil _ _)))
  -- i = i + 1
  have run4' := Runs.assign_int (fuel := fuel) hi3
    (evalE_add (evalE_var_int hi3 (by omega) (by omega))
      (evalE_intLit (σ := σ3) (v := 1) (by omega) (by omega)) (by omega) (by omega))
  have run4 := Dense1.RunsI.of_assign run4'
  generalize hσ4 : ({ σ3 with vars := setVar σ3.vars (K.n .i) (.int ((r : Int) + 1)) } : State F) = σ4 at run4
  have f4 : VFrame [K.n .i] σ3 σ4 := by
    intro y hy; rw [← hσ4]; exact lookupVar_setVar_other _ (by simpa using hy)
  have hh4 : σ4.heap = σ3.heap := by rw [← hσ4]
  have ht4 : σ4.tensors = σ3.tensors := by rw [← hσ4]
  have hi4 : IntVar σ4 (K.n .i) ((r + 1 : Nat) : Int) := by
    obtain ⟨rr, e1, e2, _⟩ := hi3
    rw [← hσ4]
    exact ⟨_, lookupVar_setVar_same _ e1, e2, by push_cast; rfl⟩
  have st4 : StC K vF (K.d.pos (r + 1)) σ4 := st3.vstep f4 (by cprotC hN) hh4 ht4
  refine ⟨σ4, ?_, st4, hi4, hpA1_3.congr (f4 _ (by cnm hN)), ?_, f123.trans f4⟩
  · have := Dense1.RunsLI.cons r1 (Dense1.RunsLI.cons r2 (Dense1.RunsLI.cons rb
      (Dense1.RunsLI.cons run4 (Dense1.RunsLI.nil _ _))))
    have hz : 0 + (0 + (K.d.pos (r + 1) - K.d.pos r + 0 + (0 + 0))) = K.d.pos (r + 1) - K.d.pos r := by omega
    rw [hz] at this
    exact this
  · exact ⟨hscr3.pA0.congr (f4 _ (by cnm hN)), hscr3.pB0.congr (f4 _ (by cnm hN)),
      hscr3.pB1.congr (f4 _ (by cnm hN)), hscr3.eB1.congr (f4 _ (by cnm hN)),
      hscr3.vB1.congr (f4 _ (by cnm hN)), hscr3.j.congr (f4 _ (by cnm hN)), hscr3.w1.congr (f4 _ (by cnm hN))⟩

/-- **the outer `while` loop of the computing kernel**, by induction on the number `rem` of remaining rows -/
theorem outerLoop_runsC (ok : K.OK) {rr vF : Nat} (pre : PreC K rr vF) (hrr : K.d.nnz ≤ rr) :
    ∀ (rem r : Nat) (σ : State F) (fuel : Nat), r + rem = K.d.n →
      StC K vF (K.d.pos r) σ → IntVar σ (K.n .i) r → IntVar σ (K.n .pA1) (K.d.pos r) → Scr K σ →
      rem + K.d.nnz + 1 ≤ fuel →
      ∃ σ', RunsI fuel (outerLoopC K.ofRat K.i K.j K.outT K.bT K.e) σ σ' (rem + (K.d.nnz - K.d.pos r)) ∧
        StC K vF K.d.nnz σ' ∧ IntVar σ' (K.n .i) K.d.n ∧ IntVar σ' (K.n .pA1) K.d.nnz ∧
        Scr K σ' ∧ VFrame (bodyWC K) σ σ' := by
  have hn := ok.wf.n31
  intro rem
  induction rem with
  | zero =>
    intro r σ fuel hin hst hi hpA1 hscr hfuel
    obtain ⟨fuel', rfl⟩ := Nat.exists_eq_add_of_le (show 1 ≤ fuel by omega)
    have hrn : r = K.d.n := by omega
    subst hrn
    have ec := Dense1.evalE_lt (evalE_var_int hi (by omega) (by omega))
      (evalE_var_int hst.dim (by omega) (by omega))
    have hd : decide ((K.d.n : Int) < (K.d.n : Int)) = false := by simp
    rw [hd] at ec
    refine ⟨σ, ?_, by rw [← ok.wf.posn]; exact hst, hi, by rw [← ok.wf.posn]; exact hpA1, hscr,
      VFrame.refl _ _⟩
    rw [show 1 + fuel' = fuel' + 1 by omega, ok.wf.posn, Nat.sub_self]
    exact Dense1.RunsI.loop_false ec
  | succ rem ih =>
    intro r σ fuel hin hst hi hpA1 hscr hfuel
    obtain ⟨fuel', rfl⟩ := Nat.exists_eq_add_of_le (show 1 ≤ fuel by omega)
    have hr : r < K.d.n := by omega
    have ec := Dense1.evalE_lt (evalE_var_int hi (by omega) (by omega))
      (evalE_var_int hst.dim (by omega) (by omega))
    have hd : decide ((r : Int) < (K.d.n : Int)) = true := by simp; omega
    rw [hd] at ec
    have h1 := ok.wf.mono r hr
    have h2 := ok.wf.pos_le_nnz (a := r + 1) (by omega)
    obtain ⟨σ1, r1, st1, hi1, hpA1_1, hscr1, f1⟩ := outerBody_stepC ok pre hrr r hr fuel' σ (by omega)
      hst hi hpA1 hscr
    obtain ⟨σ', r2, st', hi', hpA1', hscr', f2⟩ := ih (r + 1) σ1 fuel' (by omega) st1 hi1
      hpA1_1 hscr1 (by omega)
    refine ⟨σ', ?_, st', hi', hpA1', hscr', (f1.trans f2).mono (by simp)⟩
    have := Dense1.RunsI.loop_true ec (Dense1.RunsI.block (c := none) r1) r2
    rw [show 1 + fuel' = fuel' + 1 by omega,
      show rem + 1 + (K.d.nnz - K.d.pos r) =
        K.d.pos (r + 1) - K.d.pos r + (rem + (K.d.nnz - K.d.pos (r + 1))) + 1 by omega]
    exact this

/-- **the iteration block of the computing kernel** `int i = 0; while (i < i_dim) { … }`: exactly `n + nnz` loop
iterations; afterwards all `nnz` values are stored -/
theorem loopLines_runsC (ok : K.OK) {rr vF : Nat} (pre : PreC K rr vF) (hrr : K.d.nnz ≤ rr)
    (fuel : Nat) (σ : State F)
    (hfuel : K.d.n + K.d.nnz + 1 ≤ fuel)
    (hst : StC K vF 0 σ) (hpA1 : IntVar σ (K.n .pA1) 0) (hscr : Scr K σ) (hdi : DeclOK σ (K.n .i)) :
    ∃ σ', RunsLI fuel (loopLinesC K.ofRat K.i K.j K.outT K.bT K.e) σ σ' (K.d.n + K.d.nnz) ∧
      StC K vF K.d.nnz σ' := by
  have hN := ok.names
  obtain ⟨σa, ra, hh, ht, hia, fa'⟩ := Dense1.runsI_declAssign (fuel := fuel) (x := K.n .i) (t := .int)
    (e := (.intLit 0 : Expr F)) (σ := σ) (val := .int 0) (val' := .int 0) hdi
    (evalE_intLit (by omega) (by omega)) rfl
  have fa : VFrame [K.n .i] σ σa := VFrame.of1 fa'
  have hi : IntVar σa (K.n .i) ((0 : Nat) : Int) := hia
  have sta : StC K vF (K.d.pos 0) σa := by rw [ok.wf.pos0]; exact hst.vstep fa (by cprotC hN) hh ht
  have hscr' : Scr K σa :=
    ⟨hscr.pA0.congr (fa _ (by cnm hN)), hscr.pB0.congr (fa _ (by cnm hN)),
      hscr.pB1.congr (fa _ (by cnm hN)), hscr.eB1.congr (fa _ (by cnm hN)),
      hscr.vB1.congr (fa _ (by cnm hN)), hscr.j.congr (fa _ (by cnm hN)),
      hscr.w1.congr (fa _ (by cnm hN))⟩
  obtain ⟨σ', rl, st', _, _, _, _⟩ := outerLoop_runsC ok pre hrr K.d.n 0 σa fuel (by omega) sta hi
    (by rw [ok.wf.pos0]; exact hpA1.congr (fa _ (by cnm hN))) hscr' (by omega)
  refine ⟨σ', ?_, st'⟩
  have := Dense1.RunsLI.cons ra (Dense1.RunsLI.cons rl (Dense1.RunsLI.nil _ _))
  rw [ok.wf.pos0, show 0 + (K.d.n + (K.d.nnz - 0) + 0) = K.d.n + K.d.nnz by omega] at this
  exact this

end

end TV.Csr
