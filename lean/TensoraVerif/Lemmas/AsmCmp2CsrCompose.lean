import TensoraVerif.Lemmas.AsmCmp2CsrPost
import TensoraVerif.Lemmas.AsmCmpCompose

/-!
C04 for the CSR matrix copy/scale kernels, part 6: composing kernel calls (`AsmCmp.nextCall`).
`Ctx.next`: the context of the next call (heap and tensor records as the previous call left them, possibly other
input VALUES); `Ctx.OK.next`; `initC_after_assemble`: the state after the assembling kernel is a valid initial
state of the computing kernel; `InitC.transport`: `InitC` survives a call of the computing kernel and a change
of the input values.
-/
namespace TV.Csr
open TV.IR TV.Gen TV.Graph TV.Growth TV.Merge TV.Dense1
open TV.AsmCmp (nextCall)
set_option linter.unusedSectionVars false
variable {F : Type} [FloatOps F]

/-- the context of a later call: the same kernel, the same STRUCTURE of `B` with values `vals'`, heap and
tensor records those of `σ'` -/
def Ctx.next (K : Ctx F) (vals' : Nat → F) (σ' : State F) : Ctx F :=
  { K with d := { K.d with vals := vals' }, heap0 := σ'.heap, tensors0 := σ'.tensors }

/-- the static hypotheses survive if the `pos`/`crd` blocks of `B` are unchanged, block `bv` holds the new
values and these keep `e` finite -/
theorem Ctx.OK.next {K : Ctx F} (ok : K.OK) (vals' : Nat → F) (σ' : State F)
    (hp : σ'.heap[K.bp]? = K.heap0[K.bp]?) (hc : σ'.heap[K.bc]? = K.heap0[K.bc]?)
    (hv : ∃ blk, σ'.heap[K.bv]? = some blk ∧ blk.live = true ∧ blk.ty = .float ∧
      ∀ q, q < K.d.nnz → blk.cells[q]? = some (some (.flt (vals' q))))
    (hfin : ∀ q, q < K.d.nnz → ToIr.AllFinite K.ofRat (fun _ => vals' q) K.e) :
    (K.next vals' σ').OK :=
  { names := ok.names, ho := ok.ho, he := ok.he,
    wf := ⟨ok.wf.pos0, ok.wf.posn, ok.wf.mono, ok.wf.rng, ok.wf.n31, ok.wf.nnz30⟩,
    fin := hfin,
    p := by show ∃ blk, σ'.heap[K.bp]? = some blk ∧ _; rw [hp]; exact ok.p,
    c := by show ∃ blk, σ'.heap[K.bc]? = some blk ∧ _; rw [hc]; exact ok.c,
    v := hv }

/-- **After `assemble`, `compute` may be called.** If `σ` is a kernel-call state (`Init`) with different
records for output and input and the assembling kernel took it to `σ'` (`KernelPostA`), then the next call
state satisfies `InitC` (for the context of the next call) for the new output record `tr'`, whose slot 1 /
`vals` are the fresh blocks `p1`, `c1`, `v` described by `KernelPostA`; the static hypotheses still hold. -/
theorem initC_after_assemble {K : Ctx F} (ok : K.OK) {atr btr : TensorRec F} {tb : Nat} {m : Int}
    {σ σ' : State F} (init : Init K atr btr tb m σ) (hab : K.ta ≠ tb) (post : KernelPostA K atr σ') :
    (K.next K.d.vals σ').OK ∧
    ∃ tr' p1 c1 v vblk, σ'.tensors[K.ta]? = some tr' ∧ tr'.owner = .output ∧
      tr'.order = atr.order ∧ tr'.dimsBlk = atr.dimsBlk ∧
      tr'.slots = atr.slots.set 1 (some (.ptr p1 0, .ptr c1 0)) ∧
      tr'.vals = .ptr v 0 ∧
      [p1, c1, v].Nodup ∧ (∀ x ∈ [p1, c1, v], K.heap0.length ≤ x) ∧
      σ'.heap[p1]? = some ⟨.int, (List.range (K.d.n + 1)).map (fun r => some (.int (K.d.pos r))), .output, true⟩ ∧
      σ'.heap[c1]? = some ⟨.int, (List.range K.d.nnz).map (fun q => some (.int (K.d.crd q))), .output, true⟩ ∧
      σ'.heap[v]? = some vblk ∧ vblk.live = true ∧ vblk.owner = .output ∧ vblk.ty = .float ∧
      vblk.cells.length = K.d.nnz + 1 ∧
      InitC (K.next K.d.vals σ') tr' btr tb m v (nextCall σ σ') := by
  obtain ⟨pblk, hpb, hpr⟩ := ok.p
  obtain ⟨cblk, hcb, hcr⟩ := ok.c
  obtain ⟨vblk0, hvb, hvr⟩ := ok.v
  have l1 : K.bp < K.heap0.length := lt_length_of_getElem? hpb
  have l2 : K.bc < K.heap0.length := lt_length_of_getElem? hcb
  have l3 : K.bv < K.heap0.length := lt_length_of_getElem? hvb
  refine ⟨ok.next K.d.vals σ' (post.heap _ l1) (post.heap _ l2)
    ⟨vblk0, by rw [post.heap _ l3]; exact hvb, hvr⟩ ok.fin, ?_⟩
  obtain ⟨tr', p1, c1, v, vblk, h1, h2, h3, h4, h5, h6, h7, h8, h9, h10, h11, h12, h13, h14, h15⟩ := post.outRec
  refine ⟨tr', p1, c1, v, vblk, h1, h2, h3, h4, h5, h6, h7, h8, h9, h10, h11, h12, h13, h14, h15, ?_⟩
  obtain ⟨sp, sc, hasl, _, _⟩ := init.aslot1
  have hsl1 : 1 < atr.slots.length := lt_length_of_getElem? hasl
  obtain ⟨dblk, hdb, hd⟩ := init.adim
  have hv8 : K.heap0.length ≤ v := h8 v (by simp)
  exact
    { base :=
        { heap := rfl, tensors := rfl, avar := init.avar, bvar := init.bvar, fresh := init.fresh,
          arec := h1, aown := h2, aord := by rw [h3]; exact init.aord,
          aslot1 := ⟨.ptr p1 0, .ptr c1 0, by rw [h5]; simp [hsl1], rfl, rfl⟩,
          avals := by rw [h6]; rfl,
          adim := ⟨dblk, by
            show σ'.heap[tr'.dimsBlk]? = _
            rw [h4, post.heap _ (lt_length_of_getElem? hdb)]; exact hdb, hd⟩,
          m32 := init.m32,
          brec := by
            show σ'.tensors[tb]? = _
            rw [post.otherRecs tb (Ne.symm hab)]; exact init.brec,
          bord := init.bord, bslot1 := init.bslot1, bvals := init.bvals },
      avalsPtr := h6,
      vblk := ⟨vblk, h11, h12, h13, h14, by show K.d.nnz ≤ _; omega⟩,
      vne := ⟨by show v ≠ K.bp; omega, by show v ≠ K.bc; omega, by show v ≠ K.bv; omega⟩ }

/-- **`InitC` is stable under every change of state that keeps** the parameter variables, the tensor records
and the output's dimensions block, and that leaves in `vF` some live output float block of at least `nnz`
cells; the context is that of the next call (possibly with other input values). -/
theorem InitC.transport {K : Ctx F} {atr btr : TensorRec F} {tb : Nat} {m : Int} {vF : Nat} {σ σ2 : State F}
    (h : InitC K atr btr tb m vF σ) (vals' : Nat → F)
    (hvars : σ2.vars = σ.vars) (htens : σ2.tensors = σ.tensors)
    (hdims : σ2.heap[atr.dimsBlk]? = σ.heap[atr.dimsBlk]?)
    (hout : ∃ blk, σ2.heap[vF]? = some blk ∧ blk.live = true ∧ blk.owner = .output ∧ blk.ty = .float ∧
      K.d.nnz ≤ blk.cells.length) :
    InitC (K.next vals' σ2) atr btr tb m vF σ2 := by
  have init := h.base
  have eh := init.heap
  have et := init.tensors
  exact
    { base :=
        { heap := rfl, tensors := rfl,
          avar := by
            show TensorVar σ2 (K.n .a) K.ta
            unfold TensorVar; rw [hvars]; exact init.avar,
          bvar := by
            show TensorVar σ2 (K.n .b) tb
            unfold TensorVar; rw [hvars]; exact init.bvar,
          fresh := by
            show ∀ x, x ≠ K.n .a → x ≠ K.n .b → lookupVar σ2.vars x = none
            rw [hvars]; exact init.fresh,
          arec := by
            show σ2.tensors[K.ta]? = some atr
            rw [htens, et]; exact init.arec,
          aown := init.aown, aord := init.aord, aslot1 := init.aslot1, avals := init.avals,
          adim := by
            show ∃ blk, σ2.heap[atr.dimsBlk]? = some blk ∧ _
            rw [hdims, eh]; exact init.adim,
          m32 := init.m32,
          brec := by
            show σ2.tensors[tb]? = some btr
            rw [htens, et]; exact init.brec,
          bord := init.bord, bslot1 := init.bslot1, bvals := init.bvals },
      avalsPtr := h.avalsPtr, vblk := hout, vne := h.vne }

/-- the output's dimensions block and the input's `pos`/`crd` blocks are `int` blocks, hence none of them is
the (float) `vals` block of the output or of the input -/
theorem InitC.int_blocks_ne {K : Ctx F} (ok : K.OK) {atr btr : TensorRec F} {tb : Nat} {m : Int} {vF : Nat}
    {σ : State F} (h : InitC K atr btr tb m vF σ) :
    atr.dimsBlk ≠ vF ∧ atr.dimsBlk ≠ K.bv ∧ K.bp ≠ K.bv ∧ K.bc ≠ K.bv := by
  obtain ⟨dblk, hdb, _, hdty, _⟩ := h.base.adim
  obtain ⟨pblk, hpb, _, hpty, _⟩ := ok.p
  obtain ⟨cblk, hcb, _, hcty, _⟩ := ok.c
  obtain ⟨vblk, hvb, _, hvty, _⟩ := ok.v
  obtain ⟨ablk, hab, _, _, haty, _⟩ := h.vblk
  rw [h.base.heap] at hab
  have key : ∀ {k k' : Nat} {b1 b2 : Block F}, K.heap0[k]? = some b1 → K.heap0[k']? = some b2 →
      b1.ty = .int → b2.ty = .float → k ≠ k' := by
    intro k k' b1 b2 e1 e2 t1 t2 e
    rw [e, e2] at e1; cases e1; rw [t2] at t1; cases t1
  exact ⟨key hdb hab hdty haty, key hdb hvb hdty hvty, key hpb hvb hpty hvty, key hcb hvb hcty hvty⟩

end TV.Csr
