import TensoraVerif.Lemmas.AsmCmp2CsrModel
import TensoraVerif.Lemmas.CsrKernel

/-!
C04 for the CSR matrix copy/scale kernels (`Csr` class), part 2: the vocabulary of the machine theorems — final
state of the assembling kernel (`KernelPostA`), initial and final state of the computing kernel (`InitC`,
`KernelPostC`).
-/
namespace TV.Csr
open TV.IR TV.Gen TV.Graph TV.Growth TV.Merge
set_option linter.unusedSectionVars false
variable {F : Type} [FloatOps F]

/-- **Final state of a call of the assembling kernel** (output record `ta`, initially `atr`): as `KernelPost`
(the final state of `evaluate`), except that the CONTENTS of the `vals` block are unspecified — the record has at
level 1 the slot pair (`pos`, `crd`) = the base addresses of two live output `int` blocks holding EXACTLY the
`n + 1` positions of `B` and its `nnz` column coordinates; `vals` = the base address of a live output `float`
block of exactly `nnz + 1` cells (the size `evaluate` leaves; the kernel never stores into it); the three
blocks are different and fresh; every other record and every block of the initial heap is unchanged. -/
structure KernelPostA (K : Ctx F) (atr : TensorRec F) (σ' : State F) : Prop where
  outRec : ∃ tr' p1 c1 v vblk, σ'.tensors[K.ta]? = some tr' ∧ tr'.owner = .output ∧
    tr'.order = atr.order ∧ tr'.dimsBlk = atr.dimsBlk ∧
    tr'.slots = atr.slots.set 1 (some (.ptr p1 0, .ptr c1 0)) ∧
    tr'.vals = .ptr v 0 ∧
    [p1, c1, v].Nodup ∧ (∀ x ∈ [p1, c1, v], K.heap0.length ≤ x) ∧
    σ'.heap[p1]? = some ⟨.int, (List.range (K.d.n + 1)).map (fun r => some (.int (K.d.pos r))), .output, true⟩ ∧
    σ'.heap[c1]? = some ⟨.int, (List.range K.d.nnz).map (fun q => some (.int (K.d.crd q))), .output, true⟩ ∧
    σ'.heap[v]? = some vblk ∧ vblk.live = true ∧ vblk.owner = .output ∧ vblk.ty = .float ∧
    vblk.cells.length = K.d.nnz + 1
  otherRecs : ∀ k, k ≠ K.ta → σ'.tensors[k]? = K.tensors0[k]?
  tlen : σ'.tensors.length = K.tensors0.length
  heap : ∀ k, k < K.heap0.length → σ'.heap[k]? = K.heap0[k]?

/-- **Initial machine state of a call of the computing kernel**: a kernel-call state (`Csr.Init`) in which
moreover the output record's `vals` is the base address of a live, output-owned `float` block `vF` with AT
LEAST `nnz` cells, which is none of the three blocks of the input. Nothing is asked of the `pos`/`crd` blocks
the output's slot points to (the kernel never dereferences them), nor of the contents of `vF`. -/
structure InitC (K : Ctx F) (atr btr : TensorRec F) (tb : Nat) (m : Int) (vF : Nat) (σ : State F) : Prop where
  base : Init K atr btr tb m σ
  avalsPtr : atr.vals = .ptr vF 0
  vblk : ∃ blk, σ.heap[vF]? = some blk ∧ blk.live = true ∧ blk.owner = .output ∧ blk.ty = .float ∧
    K.d.nnz ≤ blk.cells.length
  vne : vF ≠ K.bp ∧ vF ≠ K.bc ∧ vF ≠ K.bv

/-- **Final state of a call of the computing kernel** `σ → σ'`: ALL tensor records are unchanged; the heap has
the same length (NO allocation); every block other than `vF` is unchanged; block `vF` keeps its type, owner,
liveness and length, its cells `q < nnz` hold the float meaning of `e` at the stored entries of `B`
(`K.valAt q`), and its cells `q ≥ nnz` are unchanged. -/
structure KernelPostC (K : Ctx F) (vF : Nat) (σ σ' : State F) : Prop where
  tensors : σ'.tensors = σ.tensors
  len : σ'.heap.length = σ.heap.length
  other : ∀ k, k ≠ vF → σ'.heap[k]? = σ.heap[k]?
  vals : ∃ blk0 blk, σ.heap[vF]? = some blk0 ∧ σ'.heap[vF]? = some blk ∧ blk.ty = blk0.ty ∧
    blk.owner = blk0.owner ∧ blk.live = blk0.live ∧ blk.cells.length = blk0.cells.length ∧
    (∀ q, q < K.d.nnz → blk.cells[q]? = some (some (.flt (K.valAt q)))) ∧
    (∀ q, K.d.nnz ≤ q → blk.cells[q]? = blk0.cells[q]?)

end TV.Csr
