import TensoraVerif.Lemmas.AsmCmp2SpaddAsmTail
import TensoraVerif.Lemmas.SpaddLoops

/-!
C04 for the element-wise sum of two sparse vectors (`Spadd` class), assembling kernel, part 4: the three loops in
sequence — as `SpaddLoops.lean` with the invariant `Spmul.InvA`; no finiteness hypothesis. At the end the ghost
history is `union b c`.
-/
namespace TV.Spadd
open TV.IR TV.Gen TV.Graph TV.Growth TV.Merge TV.Dense1
open TV.Sparse1 (isSp isSp_iff outLeaf inLeaf midW)
open TV.Spmul (KNames LoopPre InvA touched assoc assoc_drop_lt assoc_drop_all assoc_length cur_namesB)
set_option linter.unusedSectionVars false
variable {F : Type} [FloatOps F]

section
variable {i : String} {outT bT cT : TensorId} {mb mc bvb cvb : Nat}
  {cellsB cellsC : Nat → F} {crdB crdC : Nat → Int} {cb0 vb0 : Nat} {σ0 : State F}

/-- the three loops of the iteration block -/
def threeLoopsA (i : String) (outT bT cT : TensorId) : List (Stmt F) :=
  [mergeLoopL [inLeaf bT, inLeaf cT] i [midStmtA i outT bT cT],
   mergeLoopL [inLeaf bT] i [tailStmtA i outT bT],
   mergeLoopL [inLeaf cT] i [tailStmtA i outT cT]]

/-- **(b) The three loops.** From a state satisfying the merge invariant for the two input leaves (cursors `0`,
ends `mb`, `mc`, `mb + mc ≤ 2^30`) and the loop invariant for the empty history (ANY capacities `≥ 1` of the
output arrays), if all stored values are finite and so are the sums where the coordinates coincide: the three
loops run without error with any fuel `≥ mb + mc + 1`, perform exactly `|union b c| ≤ mb + mc` iterations IN
TOTAL, and end with the loop invariant for the history `union b c`. -/
theorem loops_runA (N : KNames i outT bT cT) (ho : isSp i outT = true) (hb : isSp i bT = true)
    (hc : isSp i cT = true)
    (pre : LoopPre bT cT mb mc bvb cvb cellsB cellsC cb0 vb0 σ0) (hsum : mb + mc ≤ 1073741824)
    (bcb ccb : Nat) (hblkB : bcb ≠ cb0 ∧ bcb ≠ vb0 ∧ bcb < σ0.heap.length)
    (hblkC : ccb ≠ cb0 ∧ ccb ≠ vb0 ∧ ccb < σ0.heap.length)
    (fuel : Nat) (σ : State F) (hfuel : mb + mc + 1 ≤ fuel)
    (hM : MergeInv σ [⟨inLeaf bT, bcb, crdB, 0, mb⟩, ⟨inLeaf cT, ccb, crdC, 0, mc⟩] i)
    (hP : ∃ cb cc vb vc, InvA i outT bT cT cb0 vb0 σ0 cb cc vb vc [] σ) :
    ∃ σ3 its, RunsLI fuel (threeLoopsA i outT bT cT) σ σ3 its ∧
      its = (union (assoc mb crdB cellsB) (assoc mc crdC cellsC)).length ∧ its ≤ mb + mc ∧
      ∃ cb cc vb vc, InvA i outT bT cT cb0 vb0 σ0 cb cc vb vc
        (union (assoc mb crdB cellsB) (assoc mc crdC cellsC)) σ3 := by
  obtain ⟨o1, pb, pc, hist1, e1, r1, hpb, hpc, hex, hM1, hI1, hrel, hcnt⟩ := loop1_runsA N ho hb hc
    pre hsum bcb ccb hblkB hblkC fuel σ hfuel hM hP
  have hU := union_length (assoc mb crdB cellsB) (assoc mc crdC cellsC)
  simp only [assoc_length] at hU
  have hrest := union_length ((assoc mb crdB cellsB).drop pb) ((assoc mc crdC cellsC).drop pc)
  simp only [List.length_drop, assoc_length] at hrest
  have hrelL := congrArg List.length hrel
  simp only [List.length_append] at hrelL
  -- what is left to merge is the concatenation of the two rests (one of them is empty)
  have hcat : union ((assoc mb crdB cellsB).drop pb) ((assoc mc crdC cellsC).drop pc) =
      (assoc mb crdB cellsB).drop pb ++ (assoc mc crdC cellsC).drop pc := by
    rcases hex with rfl | rfl
    · rw [assoc_drop_all]; simp
    · rw [assoc_drop_all]; simp
  have hcatL := congrArg List.length hcat
  simp only [List.length_append, List.length_drop, assoc_length] at hcatL
  -- tail loop of b
  obtain ⟨o2, e2, r2, it2, hM2, hI2, hfr2⟩ := tail_loop_runsA (t := bT) (crdT := crdB) N (.inl rfl)
    (tailStep_bA N ho hb hc pre) bcb hblkB pb hpb hist1 (by omega) fuel o1.st (by omega)
    (mergeInv_fst hM1) hI1
  -- the cursor of c after the tail loop of b
  obtain ⟨m1, m2, m3, m4⟩ := cur_namesB (c := (⟨inLeaf cT, ccb, crdC, pc, mc⟩ : Cur)) (bT := cT) rfl
  have hnw : ∀ y, y ∈ [layerPointer cT.id 0, sparseEndName cT.id 0, crdName cT.name 0, valueFromCrd cT.id 0] →
      lookupVar o2.st.vars y = lookupVar o1.st.vars y := by
    intro y hy
    simp only [List.mem_cons, List.not_mem_nil, or_false] at hy
    apply hfr2
    · simp only [midW, List.mem_cons, List.not_mem_nil, or_false, not_or]
      rcases hy with rfl | rfl | rfl | rfl <;> (and_intros <;> snm N)
    · rcases hy with rfl | rfl | rfl | rfl <;> snm N
    · rcases hy with rfl | rfl | rfl | rfl <;> snm N
    · rcases hy with rfl | rfl | rfl | rfl <;> snm N
  obtain ⟨cb1, cc1, vb1, vc1, hinv1⟩ := hI1
  obtain ⟨cb2, cc2, vb2, vc2, hinv2⟩ := hI2
  have hcur1 := hM1.cur ⟨inLeaf cT, ccb, crdC, pc, mc⟩ (by simp)
  have hM2' : MergeInv o2.st [⟨inLeaf cT, ccb, crdC, pc, mc⟩] i := by
    refine ⟨fun c hc' => ?_, fun c hc' => ?_, hM2.idx⟩
    · simp only [List.mem_cons, List.not_mem_nil, or_false] at hc'
      subst hc'
      refine hcur1.congr (by rw [m3]; exact hnw _ (by simp)) (by rw [m1]; exact hnw _ (by simp))
        (by rw [m2]; exact hnw _ (by simp)) ?_
      obtain ⟨blk, hblk, _⟩ := hcur1.cells
      cases h0 : σ0.heap[ccb]? with
      | none => rw [List.getElem?_eq_none_iff] at h0; omega
      | some blk0 =>
        show o2.st.heap[ccb]? = o1.st.heap[ccb]?
        rw [hinv2.old ccb blk0 hblkC.1 hblkC.2.1 h0, hinv1.old ccb blk0 hblkC.1 hblkC.2.1 h0]
    · simp only [List.mem_cons, List.not_mem_nil, or_false] at hc'
      subst hc'
      exact (hM1.val _ (by simp)).congr (by rw [m4]; exact hnw _ (by simp))
  -- tail loop of c
  obtain ⟨o3, e3, r3, it3, _, hI3, _⟩ := tail_loop_runsA (t := cT) (crdT := crdC) N (.inr rfl)
    (tailStep_cA N ho hb hc pre) ccb hblkC pc hpc (hist1 ++ (assoc mb crdB cellsB).drop pb)
    (by simp only [List.length_append, List.length_drop, assoc_length]; omega) fuel o2.st (by omega)
    hM2' ⟨cb2, cc2, vb2, vc2, hinv2⟩
  have hfinal : hist1 ++ (assoc mb crdB cellsB).drop pb ++ (assoc mc crdC cellsC).drop pc =
      union (assoc mb crdB cellsB) (assoc mc crdC cellsC) := by
    rw [List.append_assoc, ← hcat]; exact hrel
  rw [hfinal] at hI3
  refine ⟨o3.st, o1.iters + (o2.iters + (o3.iters + 0)), ?_, by omega, by omega, hI3⟩
  exact RunsLI.cons ⟨o1, e1, r1, rfl, rfl⟩ (RunsLI.cons ⟨o2, e2, r2, rfl, rfl⟩
    (RunsLI.cons ⟨o3, e3, r3, rfl, rfl⟩ (RunsLI.nil _ _)))

end

end TV.Spadd
