import TensoraVerif.Lemmas.AsmCmp2SpaddAsmLoop
import TensoraVerif.Lemmas.SpaddTail

/-!
C04 for the element-wise sum of two sparse vectors (`Spadd` class), assembling kernel, part 3: the two TAIL loops
— as `SpaddTail.lean` with the invariant `Spmul.InvA` and the statement `tailStmtA`; no finiteness hypothesis.
-/
namespace TV.Spadd
open TV.IR TV.Gen TV.Graph TV.Growth TV.Merge
open TV.Sparse1 (isSp isSp_iff outLeaf inLeaf midW)
open TV.Spmul (KNames LoopPre InvA touched assoc assoc_drop_lt assoc_drop_all assoc_length
  cur_namesB CurStable MidOKc merge_loop_cursor_ghost)
open TV.AsmCmp (branchBodyA termBlockA)
set_option linter.unusedSectionVars false
variable {F : Type} [FloatOps F]

/-- the ghost predicate of a tail loop over the operand `t` (`m` stored entries `crdT`/`cellsT`), indexed by its
cursor record: the loop invariant holds for a history `hist` with `hist ++ (t from p on) = tot`, and the
variables other than the output's (`midW`) and the loop's own are those of the state `σs` at loop entry -/
def PTA (i : String) (outT bT cT t : TensorId) (m : Nat) (crdT : Nat → Int) (cellsT : Nat → F)
    (tot : List (Int × F)) (cb0 vb0 : Nat) (σ0 σs : State F) (cs : List Cur) (σ : State F) : Prop :=
  ∃ p hist cb cc vb vc, cs.map Cur.p = [p] ∧
    InvA i outT bT cT cb0 vb0 σ0 cb cc vb vc hist σ ∧
    hist ++ (assoc m crdT cellsT).drop p = tot ∧
    ∀ y, y ∉ midW outT → y ≠ i → y ≠ layerPointer t.id 0 → y ≠ valueFromCrd t.id 0 →
      lookupVar σ.vars y = lookupVar σs.vars y

section
variable {i : String} {outT bT cT : TensorId} {mb mc bvb cvb : Nat}
  {cellsB cellsC : Nat → F} {cb0 vb0 : Nat} {σ0 : State F}

/-- the body step of a tail loop, as a hypothesis (instances: `tail_step_b`, `tail_step_c`) -/
def TailStepA (i : String) (outT bT cT t : TensorId) (m : Nat) (cellsT : Nat → F)
    (cb0 vb0 : Nat) (σ0 : State F) : Prop :=
  ∀ (fuel : Nat) (σ : State F) (hist : List (Int × F)) (cb : Nat) (cc : Int) (vb : Nat) (vc : Int)
    (q : Nat) (xt x : Int), q < m → InvA i outT bT cT cb0 vb0 σ0 cb cc vb vc hist σ →
    IntVar σ (layerPointer t.id 0) q → IntVar σ (valueFromCrd t.id 0) xt → IntVar σ i x →
    -2147483648 ≤ xt → xt < 2147483648 → -2147483648 ≤ x → x < 2147483648 →
    (xt = x → hist.length < 1073741824) →
    ∃ σ' cb' cc' vb' vc', RunsL fuel [tailStmtA i outT t] σ σ' ∧
      InvA i outT bT cT cb0 vb0 σ0 cb' cc' vb' vc' (if xt = x then hist ++ [(x, cellsT q)] else hist) σ' ∧
      (∀ y, y ∉ midW outT → lookupVar σ'.vars y = lookupVar σ.vars y) ∧
      (∀ k blk, k ≠ cb → k ≠ vb → σ.heap[k]? = some blk → σ'.heap[k]? = some blk)

theorem tailStep_bA (N : KNames i outT bT cT) (ho : isSp i outT = true) (hb : isSp i bT = true)
    (hc : isSp i cT = true) (pre : LoopPre bT cT mb mc bvb cvb cellsB cellsC cb0 vb0 σ0) :
    TailStepA i outT bT cT bT mb cellsB cb0 vb0 σ0 :=
  fun fuel σ hist cb cc vb vc q xt x hq hinv hp hv hi h0 h1 h2 h3 hlen =>
    tail_step_bA N ho hb hc pre fuel σ hist cb cc vb vc q xt x hq hinv hp hv hi h0 h1 h2 h3 hlen

theorem tailStep_cA (N : KNames i outT bT cT) (ho : isSp i outT = true) (hb : isSp i bT = true)
    (hc : isSp i cT = true) (pre : LoopPre bT cT mb mc bvb cvb cellsB cellsC cb0 vb0 σ0) :
    TailStepA i outT bT cT cT mc cellsC cb0 vb0 σ0 :=
  fun fuel σ hist cb cc vb vc q xt x hq hinv hp hv hi h0 h1 h2 h3 hlen =>
    tail_step_cA N ho hb hc pre fuel σ hist cb cc vb vc q xt x hq hinv hp hv hi h0 h1 h2 h3 hlen

variable {t : TensorId} {m : Nat} {crdT : Nat → Int} {cellsT : Nat → F} {tot : List (Int × F)} {σs : State F}

/-- the names of a tail loop are not written by its body -/
theorem tail_namesA (N : KNames i outT bT cT) (ht : t = bT ∨ t = cT) :
    ∀ y ∈ [i, layerPointer t.id 0, sparseEndName t.id 0, crdName t.name 0, valueFromCrd t.id 0],
      y ∉ midW outT := by
  intro y hy
  simp only [List.mem_cons, List.not_mem_nil, or_false] at hy
  simp only [midW, List.mem_cons, List.not_mem_nil, or_false, not_or]
  rcases ht with rfl | rfl <;> rcases hy with rfl | rfl | rfl | rfl | rfl <;> (and_intros <;> snm N)

theorem curStableTA (N : KNames i outT bT cT) (ht : t = bT ∨ t = cT) {c0 : Cur} (hc0 : c0.leaf = inLeaf t) :
    CurStable (PTA i outT bT cT t m crdT cellsT tot cb0 vb0 σ0 σs) [c0] i := by
  intro cs σ σ' hreach ⟨p, hist, cb, cc, vb, vc, hps, h, hrel, hfr⟩ hh htn hv
  obtain ⟨c, rfl, l1, _⟩ := Sparse1.reach_single hreach
  obtain ⟨n1, n2, n3, n4⟩ := cur_namesB (l1.trans hc0)
  have hv' : ∀ y, y ≠ i → y ≠ layerPointer t.id 0 → y ≠ valueFromCrd t.id 0 →
      lookupVar σ'.vars y = lookupVar σ.vars y := by
    intro y h1 h2 h3
    apply hv
    simp only [writtenNames, List.map_cons, List.map_nil, List.mem_cons, List.mem_append, List.not_mem_nil,
      or_false, n1, n4, not_or]
    exact ⟨h1, h2, h3⟩
  refine ⟨p, hist, cb, cc, vb, vc, hps, inv_stableA N h hh htn ?_, hrel, ?_⟩
  · intro y h1 h2 h3 h4 h5
    rcases ht with rfl | rfl
    · exact hv' y h1 h2 h3
    · exact hv' y h1 h4 h5
  · intro y h0 h1 h2 h3
    rw [hv' y h1 h2 h3]; exact hfr y h0 h1 h2 h3

theorem midOKcTA (N : KNames i outT bT cT) (ht : t = bT ∨ t = cT)
    (hstep : TailStepA i outT bT cT t m cellsT cb0 vb0 σ0)
    (htot : tot.length ≤ 1073741824)
    (c0 : Cur) (hc0 : c0.leaf = inLeaf t) (hcrd : c0.crd = crdT) (hce : c0.e = m)
    (hblk : c0.blk ≠ cb0 ∧ c0.blk ≠ vb0 ∧ c0.blk < σ0.heap.length) :
    MidOKc 0 0 (PTA i outT bT cT t m crdT cellsT tot cb0 vb0 σ0 σs) [c0] i [tailStmtA i outT t] := by
  intro fuel σ cs _ hreach hact hinvM hval hidx ⟨p, hist, cb, cc, vb, vc, hps, hinv, hrel, hfr⟩
  obtain ⟨c, rfl, hc, hcb, hcc, hcee, _⟩ := Sparse1.reach_single hreach
  obtain ⟨n1, n2, n3, n4⟩ := cur_namesB (hc.trans hc0)
  simp only [List.map_cons, List.map_nil, List.cons.injEq, and_true] at hps
  subst hps
  have hcm : c ∈ [c] := List.mem_cons_self
  have hactc : c.p < c.e := hact c hcm
  have hq : c.p < m := by rw [← hce, ← hcee]; exact hactc
  have hcur := hinvM.cur c hcm
  have hhere : c.here = crdT c.p := by rw [← hcrd, ← hcc]; rfl
  obtain ⟨r0, r1⟩ := hcur.rng c.p (Nat.le_refl _) hactc
  rw [hcc, hcrd] at r0 r1
  have hlenH : hist.length < 1073741824 := by
    have h1 := congrArg List.length hrel
    simp only [List.length_append, List.length_drop, assoc_length] at h1
    omega
  obtain ⟨σ', cb', cc', vb', vc', ⟨o, eo, ro, so⟩, hinv', fvars, fheap⟩ := hstep fuel σ hist cb cc vb vc c.p
    (crdT c.p) (crdT c.p) hq hinv (by rw [← n1]; exact hcur.ptrv)
    (by rw [← n4, ← hhere]; exact hval c hcm)
    (by rw [← hhere, ← curMin_single]; exact hidx) r0 r1 r0 r1 (fun _ => hlenH)
  subst so
  rw [if_pos rfl] at hinv'
  have hnm := tail_namesA N ht
  refine ⟨o, eo, ro, ?_, ?_, ?_, ?_⟩
  · rw [Sparse1.execL_noLoop_iters fuel _ σ (noLoop_tailStmtA i outT t) o eo]; exact Nat.le_refl _
  · intro x hx
    apply fvars
    apply hnm
    simpa only [curNames, List.map_cons, List.map_nil, List.mem_cons, List.mem_append, List.not_mem_nil,
      or_false, n1, n2, n3, n4, List.cons_append, List.nil_append] using hx
  · intro d hd
    simp only [List.mem_cons, List.not_mem_nil, or_false] at hd
    subst hd
    obtain ⟨blk, hb, _⟩ := hcur.cells
    rw [hb]
    refine fheap d.blk blk ?_ ?_ hb
    · rw [hcb]; rcases hinv.hcb with h | h
      · rw [h]; exact hblk.1
      · have := hblk.2.2; omega
    · rw [hcb]; rcases hinv.hvb with h | h
      · rw [h]; exact hblk.2.1
      · have := hblk.2.2; omega
  · refine ⟨(c.adv (curMin [c])).p, _, cb', cc', vb', vc', rfl, hinv', ?_, ?_⟩
    · rw [curMin_single, adv_p_of_eq rfl, List.append_assoc]
      rw [assoc_drop_lt crdT cellsT hq] at hrel
      exact hrel
    · intro y h0 h1 h2 h3
      rw [fvars y h0]; exact hfr y h0 h1 h2 h3

/-- **(b2) A tail loop.** From a state satisfying the merge invariant for the leaf of `t` (cursor `p0 ≤ m`, end
`m`) and the loop invariant for a history `hist0` (with `|hist0| + (m - p0) ≤ 2^30`), the tail loop runs without
error with any fuel `≥ (m - p0) + 1`, performs exactly `m - p0` iterations, and ends with the cursor at `m` and
the loop invariant for the history `hist0 ++ [(crd p0, cells p0), …, (crd (m-1), cells (m-1))]`; the variables
other than the output's, `i`, `p_t`, `i_t` are unchanged. -/
theorem tail_loop_runsA (N : KNames i outT bT cT) (ht : t = bT ∨ t = cT)
    (hstep : TailStepA i outT bT cT t m cellsT cb0 vb0 σ0)
    (tcb : Nat) (hblk : tcb ≠ cb0 ∧ tcb ≠ vb0 ∧ tcb < σ0.heap.length)
    (p0 : Nat) (hp0 : p0 ≤ m) (hist0 : List (Int × F)) (hlen : hist0.length + (m - p0) ≤ 1073741824)
    (fuel : Nat) (σ : State F) (hfuel : (m - p0) + 1 ≤ fuel)
    (hM : MergeInv σ [⟨inLeaf t, tcb, crdT, p0, m⟩] i)
    (hI : ∃ cb cc vb vc, InvA i outT bT cT cb0 vb0 σ0 cb cc vb vc hist0 σ) :
    ∃ o, exec fuel (mergeLoopL [inLeaf t] i [tailStmtA i outT t]) σ = .ok o ∧ o.ret = none ∧
      o.iters = m - p0 ∧ MergeInv o.st [⟨inLeaf t, tcb, crdT, m, m⟩] i ∧
      (∃ cb cc vb vc, InvA i outT bT cT cb0 vb0 σ0 cb cc vb vc (hist0 ++ (assoc m crdT cellsT).drop p0) o.st) ∧
      ∀ y, y ∉ midW outT → y ≠ i → y ≠ layerPointer t.id 0 → y ≠ valueFromCrd t.id 0 →
        lookupVar o.st.vars y = lookupVar σ.vars y := by
  let c0 : Cur := ⟨inLeaf t, tcb, crdT, p0, m⟩
  have hnames : NamesOK [c0] i := merge_names_generated [c0] i N.iu (by simp)
  have hmeas : curMeasure [c0] = m - p0 := by simp [curMeasure, c0]
  obtain ⟨cb, cc, vb, vc, hinv0⟩ := hI
  have htot : (hist0 ++ (assoc m crdT cellsT).drop p0).length ≤ 1073741824 := by
    simp only [List.length_append, List.length_drop, assoc_length]; exact hlen
  obtain ⟨o, eo, ro, inv, _, _, _, lo, hi, p, hist, cb', cc', vb', vc', hps, hinvF, hrel, hfr⟩ :=
    merge_loop_cursor_ghost (B := 0) (K := 0)
      (P := PTA i outT bT cT t m crdT cellsT (hist0 ++ (assoc m crdT cellsT).drop p0) cb0 vb0 σ0 σ) [c0] i
      [tailStmtA i outT t] fuel σ (by simp) hnames hM
      ⟨p0, hist0, cb, cc, vb, vc, rfl, hinv0, rfl, fun _ _ _ _ _ => rfl⟩
      (curStableTA N ht rfl)
      (midOKcTA N ht hstep htot c0 rfl rfl rfl hblk)
      (by rw [hmeas]; omega)
  have hle : c0.p ≤ c0.e := hp0
  rw [mergeFinal_single c0 hle] at inv hps
  rw [mergeTrace_single_length c0 hle] at lo hi
  simp only [List.map_cons, List.map_nil, List.cons.injEq, and_true] at hps
  simp only [Nat.zero_add, Nat.mul_one] at hi
  refine ⟨o, eo, ro, ?_, inv, ⟨cb', cc', vb', vc', ?_⟩, hfr⟩
  · show o.iters = c0.e - c0.p
    omega
  · have hp : p = m := hps.symm
    rw [hp, assoc_drop_all, List.append_nil] at hrel
    rw [← hrel]; exact hinvF

end

end TV.Spadd
