import TensoraVerif.Lemmas.AsmCmp2SpaddPost
import TensoraVerif.Lemmas.AsmCmp2SpmulCmpBody
import TensoraVerif.Lemmas.SpaddBody

/-!
C04 for the element-wise sum of two sparse vectors (`Spadd` class), compute chain, part 1: the loop body steps
of the COMPUTING kernel. Names, loop precondition and invariant are those of the product class (`Spmul.KNames`,
`Spmul.LoopPreC`, `Spmul.InvC`, `Spmul.touchedC`).
-/
namespace TV.Spadd
open TV.IR TV.Gen TV.Graph TV.Growth TV.Merge
open TV.Sparse1 (isSp isSp_iff outLeaf inLeaf termBlock)
open TV.Spmul (KNames LoopPreC InvC touchedC env bothCond)
open TV.AsmCmp (branchBodyC outInitC midWC)
set_option linter.unusedSectionVars false
variable {F : Type} [FloatOps F]

theorem noLoop_midStmtC (ofRat : Rat → F) (i : String) (outT bT cT : TensorId) :
    Sparse1.noLoopL [midStmtC ofRat i outT bT cT] = true := by
  simp [Sparse1.noLoopL, Sparse1.noLoop, midStmtC, branchBodyC, termBlock, Sparse1.termBlockLines,
    declAssignE, increment]

theorem noLoop_tailStmtC (ofRat : Rat → F) (i : String) (outT t : TensorId) :
    Sparse1.noLoopL [tailStmtC ofRat i outT t] = true := by
  simp [Sparse1.noLoopL, Sparse1.noLoop, tailStmtC, AsmCmp.midStmtC, branchBodyC, termBlock,
    Sparse1.termBlockLines, declAssignE, increment]

section step
variable {ofRat : Rat → F} {i : String} {outT bT cT : TensorId} {mb mc bvb cvb : Nat}
  {cellsB cellsC : Nat → F} {rr vb : Nat} {σ0 : State F}

/-- **the body of a branch of the lattice** of the computing kernel (terminal expression `e` whose leaves are
among `b` and `c`, cursors in range for those that occur): one value is stored. -/
theorem branch_stepC (N : KNames i outT bT cT) (ho : isSp i outT = true) (hb : isSp i bT = true)
    (hc : isSp i cT = true)
    (pre : LoopPreC outT bT cT mb mc bvb cvb cellsB cellsC rr vb σ0)
    (e : IdExpr) (hne0 : e ≠ .int 0)
    (fuel : Nat) (σ : State F) (hist : List (Int × F))
    (q r : Nat) (x : Int)
    (hl : ∀ t ∈ ToIr.leaves e, (t = bT ∧ q < mb ∧ IntVar σ (layerPointer bT.id 0) q) ∨
      (t = cT ∧ r < mc ∧ IntVar σ (layerPointer cT.id 0) r))
    (hlen : hist.length < 1073741824)
    (hroom : hist.length < rr)
    (hinv : InvC i outT bT cT vb σ0 hist σ)
    (hfin : ToIr.AllFinite ofRat (env bT (cellsB q) (cellsC r)) e) :
    ∃ σ', RunsL fuel (branchBodyC ofRat outT e) σ σ' ∧
      InvC i outT bT cT vb σ0 (hist ++ [(x, ToIr.valueF ofRat (env bT (cellsB q) (cellsC r)) e)]) σ' ∧
      (∀ y, y ∉ midWC outT → lookupVar σ'.vars y = lookupVar σ.vars y) ∧
      (∀ k, k ≠ vb → σ'.heap[k]? = σ.heap[k]?) := by
  obtain ⟨ho1, ho2⟩ := (isSp_iff i outT).1 ho
  obtain ⟨hb1, hb2⟩ := (isSp_iff i bT).1 hb
  obtain ⟨hc1, hc2⟩ := (isSp_iff i cT).1 hc
  have hsmB := pre.smallB
  have hsmC := pre.smallC
  obtain ⟨w, hw⟩ : ∃ w, w = ToIr.valueF ofRat (env bT (cellsB q) (cellsC r)) e := ⟨_, rfl⟩
  rw [← hw]
  have holen : outT.indexes.length = 1 := by rw [ho1]; rfl
  have hblen : bT.indexes.length = 1 := by rw [hb1]; rfl
  have hclen : cT.indexes.length = 1 := by rw [hc1]; rfl
  obtain ⟨p, hp⟩ : ∃ p : Int, p = hist.length := ⟨_, rfl⟩
  have hp0 : 0 ≤ p := by omega
  have hpm : p < 1073741824 := by omega
  have hptr : IntVar σ (layerPointer outT.id 0) p := by rw [hp]; exact hinv.ptr
  have hnotT : ∀ y, y ≠ writtenName outT.name 0 → y ≠ layerPointer outT.id 0 → y ≠ i →
      y ≠ layerPointer bT.id 0 → y ≠ valueFromCrd bT.id 0 →
      y ≠ layerPointer cT.id 0 → y ≠ valueFromCrd cT.id 0 → y ∉ touchedC i outT bT cT := by
    intro y h1 h2 h3 h4 h5 h6 h7
    simp only [touchedC, midWC, List.mem_cons, List.mem_append, List.not_mem_nil, or_false, not_or]
    exact ⟨⟨h1, h2⟩, h3, h4, h5, h6, h7⟩
  -- 1. bool written = false
  obtain ⟨σ2, r2, hh2, ht2, ⟨rw2, hrw1, hrw2, _⟩, f2⟩ := Dense1.runsI_declAssign (fuel := fuel)
    (x := writtenName outT.name 0) (t := .bool) (e := (.boolLit false : Expr F)) (σ := σ)
    (val := .bool false) (val' := .bool false) hinv.flag (by simp [evalE]) rfl
  have run2 : Runs fuel (declAssignE (writtenName outT.name 0) .bool (.boolLit false)) σ σ2 := by
    obtain ⟨o, e, r, s, _⟩ := r2; exact ⟨o, e, r, s⟩
  -- 2. the terminal block
  have hbv2 : PtrVar σ2 (valsName bT.name) bvb := pre.bvals.congr (by
    rw [f2 _ (by snm N), hinv.vars _ (hnotT _ (by snm N) (by snm N) (by snm N) (by snm N) (by snm N)
      (by snm N) (by snm N))])
  have hcv2 : PtrVar σ2 (valsName cT.name) cvb := pre.cvals.congr (by
    rw [f2 _ (by snm N), hinv.vars _ (hnotT _ (by snm N) (by snm N) (by snm N) (by snm N) (by snm N)
      (by snm N) (by snm N))])
  have hav2 : PtrVar σ2 (valsName outT.name) vb := pre.avals.congr (by
    rw [f2 _ (by snm N), hinv.vars _ (hnotT _ (by snm N) (by snm N) (by snm N) (by snm N) (by snm N)
      (by snm N) (by snm N))])
  have hpB2 : IntVar σ (layerPointer bT.id 0) q → IntVar σ2 (layerPointer bT.id 0) q :=
    fun hpB => hpB.congr (f2 _ (by snm N))
  have hpC2 : IntVar σ (layerPointer cT.id 0) r → IntVar σ2 (layerPointer cT.id 0) r :=
    fun hpC => hpC.congr (f2 _ (by snm N))
  have hpA2 : IntVar σ2 (layerPointer outT.id 0) p := hptr.congr (f2 _ (by snm N))
  obtain ⟨bblk, hbblk, hblive, hbty, hbcells⟩ := pre.bblk
  obtain ⟨cblk', hcblk', hclive', hcty', hccells'⟩ := pre.cblk
  have hbσ : σ.heap[bvb]? = some bblk := by rw [hinv.old bvb pre.bne]; exact hbblk
  have hcσ : σ.heap[cvb]? = some cblk' := by rw [hinv.old cvb pre.cne]; exact hcblk'
  have hbh2 : σ2.heap[bvb]? = some bblk := by rw [hh2]; exact hbσ
  have hch2 : σ2.heap[cvb]? = some cblk' := by rw [hh2]; exact hcσ
  have hleaf : ∀ t ∈ ToIr.leaves e, ToIr.LeafOK σ2 (env bT (cellsB q) (cellsC r)) t := by
    intro t ht
    rcases hl t ht with ⟨rfl, hq, hpB⟩ | ⟨rfl, hr, hpC⟩
    · refine ToIr.LeafOK.intro (p := q) hbv2 ?_ (by omega) (by omega)
        ⟨bblk, hbh2, hblive, hbty, by omega, by simpa [env] using hbcells q hq⟩
      simp only [ToIr.CursorIs, hblen]
      exact hpB2 hpB
    · refine ToIr.LeafOK.intro (p := r) hcv2 ?_ (by omega) (by omega)
        ⟨cblk', hch2, hclive', hcty', by omega, by simpa [env, Ne.symm N.idbc] using hccells' r hr⟩
      simp only [ToIr.CursorIs, hclen]
      exact hpC2 hpC
  obtain ⟨ablk0, hab0, halive0, haown0, haty0, halen0⟩ := pre.ablk
  obtain ⟨blk0, vblk, hblk0, hvblk, hvty, hvown, hvlive, hvlen, hvdone, hvrest⟩ := hinv.cells
  rw [hab0] at hblk0; cases hblk0
  have hcell : ToIr.OutCell σ2 vb (0 + p) :=
    ⟨vblk, by rw [hh2]; exact hvblk, by rw [hvlive]; exact halive0, by rw [hvown]; exact haown0,
      by rw [hvty]; exact haty0, by omega, by omega⟩
  obtain ⟨tb, o3, htb, e3, r3, _, hheap3, ht3, _, hflag3, _, f3⟩ :=
    ToIr.terminal_append_sound ofRat (env bT (cellsB q) (cellsC r)) σ2 e outT .compute rfl 0 fuel
      vb 0 p hleaf hfin
      (ToIr.PtrAt.of_ptrVar hav2)
      (by
        rw [holen]
        exact evalE_var_int hpA2 (by omega) (by omega))
      hcell
      (by
        intro f hf
        rw [ToIr.activeFlags_ne _ hne0, holen, Sparse1.writtenFlags_eq outT ho2] at hf
        simp only [List.mem_cons, List.not_mem_nil, or_false] at hf
        subst hf
        exact ⟨rw2, hrw1, hrw2⟩)
  rw [holen, AsmCmp.lower_terminal_eqC ofRat 0 outT e ho2 holen hne0] at htb
  cases htb
  rw [holen, Sparse1.writtenFlags_eq outT ho2] at hflag3 f3
  rw [← hw] at hheap3
  have run3 : Runs fuel (termBlock ofRat outT e) σ2 o3.st := ⟨o3, e3, r3, rfl⟩
  have hcp := ToIr.writeCell_post hcell (.flt w)
  have hlen3 : o3.st.heap.length = σ2.heap.length := by rw [hheap3]; exact hcp.len
  have hother3 : ∀ b', b' ≠ vb → o3.st.heap[b']? = σ2.heap[b']? := by
    intro b' hb'; rw [hheap3]; exact hcp.other b' hb'
  obtain ⟨vblk2, vblk3, hvblk2, hvblk3, hv3ty, hv3own, hv3live, hv3len, hv3cell, hv3cells⟩ := hcp.blk
  rw [← hheap3] at hvblk3
  rw [hh2, hvblk] at hvblk2
  cases hvblk2
  have hfl3 : ToIr.FlagTrue o3.st (writtenName outT.name 0) := hflag3 hne0 _ (by simp)
  have f3' : ∀ y, y ≠ writtenName outT.name 0 → lookupVar o3.st.vars y = lookupVar σ2.vars y := by
    intro y hy; exact f3 y (by simpa using hy)
  -- 3. p_a++
  have hpA3 : IntVar o3.st (layerPointer outT.id 0) p := hpA2.congr (f3' _ (by snm N))
  have run5 := Runs.assign_int (fuel := fuel) hpA3
    (evalE_add (evalE_var_int hpA3 (by omega) (by omega))
      (evalE_intLit (σ := o3.st) (v := 1) (by omega) (by omega)) (by omega) (by omega))
  generalize hσ5 : ({ o3.st with vars := setVar o3.st.vars (layerPointer outT.id 0) (.int (p + 1)) } : State F)
    = σ5 at run5
  have f5 : ∀ y, y ≠ layerPointer outT.id 0 → lookupVar σ5.vars y = lookupVar o3.st.vars y := by
    intro y hy; rw [← hσ5]; exact lookupVar_setVar_other _ hy
  have hh5 : σ5.heap = o3.st.heap := by rw [← hσ5]
  have ht5 : σ5.tensors = o3.st.tensors := by rw [← hσ5]
  have hpA5 : IntVar σ5 (layerPointer outT.id 0) (p + 1) := by
    obtain ⟨r, e1, e2, _⟩ := hpA3
    rw [← hσ5]
    exact ⟨_, lookupVar_setVar_same _ e1, e2, rfl⟩
  -- the run
  have hrun : RunsL fuel (branchBodyC ofRat outT e) σ σ5 :=
    RunsL.cons run2 (RunsL.cons run3
      (RunsL.cons (Runs.branch_true (Sparse1.evalE_var_flag hfl3)
        (Runs.block (RunsL.cons run5 (RunsL.nil _ _)))) (RunsL.nil _ _)))
  -- frames
  have fvars : ∀ y, y ∉ midWC outT → lookupVar σ5.vars y = lookupVar σ.vars y := by
    intro y hy
    simp only [midWC, List.mem_cons, List.not_mem_nil, or_false, not_or] at hy
    obtain ⟨y1, y2⟩ := hy
    rw [f5 y y2, f3' y y1, f2 y y1]
  have fheap : ∀ k, k ≠ vb → σ5.heap[k]? = σ.heap[k]? := by
    intro k hk
    rw [hh5, hother3 k hk, hh2]
  have hv5 : σ5.heap[vb]? = some vblk3 := by rw [hh5]; exact hvblk3
  refine ⟨σ5, hrun, ?_, fvars, fheap⟩
  have hlenapp : ((hist ++ [(x, w)]).length : Int) = p + 1 := by
    simp only [List.length_append, List.length_cons, List.length_nil]; omega
  have hlenNat : hist.length = p.toNat := by omega
  have hp0' : (0 + p).toNat = hist.length := by omega
  refine
    { tensors := ?_, len := ?_, old := ?_, vars := ?_, ptr := ?_, cells := ?_, flag := ?_ }
  · rw [ht5, ht3, ht2, hinv.tensors]
  · rw [hh5, hlen3, hh2, hinv.len]
  · intro k hk
    rw [fheap k hk, hinv.old k hk]
  · intro y hy
    rw [fvars y (by
      intro hm; apply hy; simp only [touchedC, List.mem_append]; exact .inl hm), hinv.vars y hy]
  · rw [hlenapp]; exact hpA5
  · refine ⟨ablk0, vblk3, hab0, hv5, by rw [hv3ty, hvty], by rw [hv3own, hvown], by rw [hv3live, hvlive],
      by rw [hv3len, hvlen], ?_, ?_⟩
    · intro j hj
      simp only [List.length_append, List.length_cons, List.length_nil] at hj
      by_cases hjp : j < hist.length
      · rw [List.getElem_append_left hjp, hv3cells j (by omega)]
        exact hvdone j hjp
      · have hje : j = hist.length := by omega
        subst hje
        rw [List.getElem_append_right (Nat.le_refl _)]
        simp only [Nat.sub_self, List.getElem_cons_zero]
        rw [← hp0']
        exact hv3cell
    · intro j hj
      simp only [List.length_append, List.length_cons, List.length_nil] at hj
      rw [hv3cells j (by omega)]
      exact hvrest j (by omega)
  · intro r hr
    obtain ⟨r', e1, e2, _⟩ := hfl3
    rw [f5 _ (by snm N), e1] at hr
    cases hr; exact e2

/-- **(a) The body step of the first loop: the three exclusive branches.** From a state satisfying the
invariant after the history `hist`, in which the input cursors hold positions `q < mb`, `r < mc`, the loaded
coordinates `i_b`, `i_c` hold the int32s `xb`, `xc` and the index `i` holds the int32 `x`: the statement between
the `min` and the increments runs without error (any fuel) and
* if `xb = x` and `xc = x`: appends `(x, b[q] + c[r])` (finiteness of both cells and of the sum needed);
* if only `xb = x`: appends `(x, b[q])` (finiteness of `b[q]` needed) — `c[r]` is not read;
* if only `xc = x`: appends `(x, c[r])` (finiteness of `c[r]` needed) — `b[q]` is not read;
* if neither (impossible when `x` is their minimum): the state is not changed at all.
`|hist| < 2^30` is needed when something is appended. It writes only the variables `midW` and no block of the
old heap other than the two output arrays. -/
theorem mid_stepC (N : KNames i outT bT cT) (ho : isSp i outT = true) (hb : isSp i bT = true)
    (hc : isSp i cT = true)
    (pre : LoopPreC outT bT cT mb mc bvb cvb cellsB cellsC rr vb σ0)
    (fuel : Nat) (σ : State F) (hist : List (Int × F))
    (q r : Nat) (xb xc x : Int) (hq : q < mb) (hr : r < mc)
    (hinv : InvC i outT bT cT vb σ0 hist σ)
    (hpB : IntVar σ (layerPointer bT.id 0) q) (hpC : IntVar σ (layerPointer cT.id 0) r)
    (hvB : IntVar σ (valueFromCrd bT.id 0) xb) (hvC : IntVar σ (valueFromCrd cT.id 0) xc)
    (hi : IntVar σ i x)
    (hb0 : -2147483648 ≤ xb) (hb1 : xb < 2147483648) (hc0 : -2147483648 ≤ xc) (hc1 : xc < 2147483648)
    (hr0 : -2147483648 ≤ x) (hr1 : x < 2147483648)
    (hlen : xb = x ∨ xc = x → hist.length < 1073741824)
    (hroom : xb = x ∨ xc = x → hist.length < rr)
    (hboth : xb = x → xc = x → ToIr.AllFinite ofRat (env bT (cellsB q) (cellsC r)) (addE bT cT))
    (honlyB : xb = x → xc ≠ x → FloatOps.finite (cellsB q) = true)
    (honlyC : xb ≠ x → xc = x → FloatOps.finite (cellsC r) = true) :
    ∃ σ', RunsL fuel [midStmtC ofRat i outT bT cT] σ σ' ∧
      InvC i outT bT cT vb σ0 (stepHist hist xb xc x (cellsB q) (cellsC r)) σ' ∧
      (xb ≠ x → xc ≠ x → σ' = σ) ∧
      (∀ y, y ∉ midWC outT → lookupVar σ'.vars y = lookupVar σ.vars y) ∧
      (∀ k, k ≠ vb → σ'.heap[k]? = σ.heap[k]?) := by
  have econd : evalE σ (bothCond i bT cT) = .ok (.bool ((true && (xb == x)) && (xc == x))) :=
    evalE_and (evalE_and (σ := σ) (l := .boolLit true) (a := true) (by simp [evalE])
      (evalE_eqInt (evalE_var_int hvB hb0 hb1) (evalE_var_int hi hr0 hr1)))
      (evalE_eqInt (evalE_var_int hvC hc0 hc1) (evalE_var_int hi hr0 hr1))
  have econdB := evalE_oneCond (t := bT) hvB hi hb0 hb1 hr0 hr1
  have econdC := evalE_oneCond (t := cT) hvC hi hc0 hc1 hr0 hr1
  by_cases h1 : xb = x
  · by_cases h2 : xc = x
    · -- both present
      obtain ⟨σ', hrun, hinv', fv, fh⟩ := branch_stepC (ofRat := ofRat) N ho hb hc pre
        (addE bT cT) (by simp [addE]) fuel σ hist q r x
        (by
          intro t ht
          simp only [addE, ToIr.leaves, List.cons_append, List.nil_append, List.mem_cons, List.not_mem_nil,
            or_false] at ht
          rcases ht with rfl | rfl
          · exact .inl ⟨rfl, hq, hpB⟩
          · exact .inr ⟨rfl, hr, hpC⟩)
        (hlen (.inl h1)) (hroom (.inl h1)) hinv (hboth h1 h2)
      rw [valueF_addE ofRat bT cT N.idbc] at hinv'
      refine ⟨σ', ?_, ?_, fun h => absurd h1 h, fv, fh⟩
      · refine RunsL.cons (Runs.branch_true ?_ (Runs.block hrun)) (RunsL.nil _ _)
        rw [econd, h1, h2]; simp
      · unfold stepHist; rw [if_pos ⟨h1, h2⟩]; exact hinv'
    · -- only b
      obtain ⟨σ', hrun, hinv', fv, fh⟩ := branch_stepC (ofRat := ofRat) N ho hb hc pre
        (.tensor bT) (by simp) fuel σ hist q r x
        (by
          intro t ht
          simp only [ToIr.leaves, List.mem_cons, List.not_mem_nil, or_false] at ht
          subst ht
          exact .inl ⟨rfl, hq, hpB⟩)
        (hlen (.inl h1)) (hroom (.inl h1)) hinv (allFinite_b ofRat bT _ _ (honlyB h1 h2))
      rw [valueF_b ofRat bT] at hinv'
      refine ⟨σ', ?_, ?_, fun h => absurd h1 h, fv, fh⟩
      · refine RunsL.cons (Runs.branch_false ?_ (Runs.branch_true ?_ (Runs.block hrun))) (RunsL.nil _ _)
        · rw [econd, h1]; simp [h2]
        · rw [econdB, h1]; simp
      · unfold stepHist; rw [if_neg (fun h => h2 h.2), if_pos h1]; exact hinv'
  · by_cases h2 : xc = x
    · -- only c
      obtain ⟨σ', hrun, hinv', fv, fh⟩ := branch_stepC (ofRat := ofRat) N ho hb hc pre
        (.tensor cT) (by simp) fuel σ hist q r x
        (by
          intro t ht
          simp only [ToIr.leaves, List.mem_cons, List.not_mem_nil, or_false] at ht
          subst ht
          exact .inr ⟨rfl, hr, hpC⟩)
        (hlen (.inr h2)) (hroom (.inr h2)) hinv (allFinite_c ofRat bT cT N.idbc _ _ (honlyC h1 h2))
      rw [valueF_c ofRat bT cT N.idbc] at hinv'
      refine ⟨σ', ?_, ?_, fun _ h => absurd h2 h, fv, fh⟩
      · refine RunsL.cons (Runs.branch_false ?_ (Runs.branch_false ?_ (Runs.branch_true ?_ (Runs.block hrun))))
          (RunsL.nil _ _)
        · rw [econd]; simp [h1]
        · rw [econdB]; simp [h1]
        · rw [econdC, h2]; simp
      · unfold stepHist; rw [if_neg (fun h => h1 h.1), if_neg h1, if_pos h2]; exact hinv'
    · refine ⟨σ, ?_, ?_, fun _ _ => rfl, fun _ _ => rfl, fun _ _ => rfl⟩
      · refine RunsL.cons (Runs.branch_false ?_ (Runs.branch_false ?_ (Runs.branch_false ?_ (Runs.skip _ _ _))))
          (RunsL.nil _ _)
        · rw [econd]; simp [h1]
        · rw [econdB]; simp [h1]
        · rw [econdC]; simp [h2]
      · unfold stepHist; rw [if_neg (fun h => h1 h.1), if_neg h1, if_neg h2]; exact hinv

/-- **(a') The body step of the tail loop of `b`**: `if (true && i_b == i) { … b … }`. The cursor of `b` holds a
position `q < mb`; nothing is asked of `c` (its cursor is not read). If `xb = x` the entry `(x, b[q])` is
appended, else the state is unchanged. -/
theorem tail_step_bC (N : KNames i outT bT cT) (ho : isSp i outT = true) (hb : isSp i bT = true)
    (hc : isSp i cT = true)
    (pre : LoopPreC outT bT cT mb mc bvb cvb cellsB cellsC rr vb σ0)
    (fuel : Nat) (σ : State F) (hist : List (Int × F))
    (q : Nat) (xb x : Int) (hq : q < mb)
    (hinv : InvC i outT bT cT vb σ0 hist σ)
    (hpB : IntVar σ (layerPointer bT.id 0) q)
    (hvB : IntVar σ (valueFromCrd bT.id 0) xb) (hi : IntVar σ i x)
    (hb0 : -2147483648 ≤ xb) (hb1 : xb < 2147483648) (hr0 : -2147483648 ≤ x) (hr1 : x < 2147483648)
    (hlen : xb = x → hist.length < 1073741824)
    (hroom : xb = x → hist.length < rr)
    (hfin : xb = x → FloatOps.finite (cellsB q) = true) :
    ∃ σ', RunsL fuel [tailStmtC ofRat i outT bT] σ σ' ∧
      InvC i outT bT cT vb σ0 (if xb = x then hist ++ [(x, cellsB q)] else hist) σ' ∧
      (∀ y, y ∉ midWC outT → lookupVar σ'.vars y = lookupVar σ.vars y) ∧
      (∀ k, k ≠ vb → σ'.heap[k]? = σ.heap[k]?) := by
  have econdB := evalE_oneCond (t := bT) hvB hi hb0 hb1 hr0 hr1
  by_cases h1 : xb = x
  · obtain ⟨σ', hrun, hinv', fv, fh⟩ := branch_stepC (ofRat := ofRat) N ho hb hc pre
      (.tensor bT) (by simp) fuel σ hist q 0 x
      (by
        intro t ht
        simp only [ToIr.leaves, List.mem_cons, List.not_mem_nil, or_false] at ht
        subst ht
        exact .inl ⟨rfl, hq, hpB⟩)
      (hlen h1) (hroom h1) hinv (allFinite_b ofRat bT _ _ (hfin h1))
    rw [valueF_b ofRat bT] at hinv'
    refine ⟨σ', ?_, ?_, fv, fh⟩
    · refine RunsL.cons (Runs.branch_true ?_ (Runs.block hrun)) (RunsL.nil _ _)
      show evalE σ (oneCond i bT) = _
      rw [econdB, h1]; simp
    · rw [if_pos h1]; exact hinv'
  · refine ⟨σ, ?_, ?_, fun _ _ => rfl, fun _ _ => rfl⟩
    · refine RunsL.cons (Runs.branch_false ?_ (Runs.skip _ _ _)) (RunsL.nil _ _)
      show evalE σ (oneCond i bT) = _
      rw [econdB]; simp [h1]
    · rw [if_neg h1]; exact hinv

/-- **(a'') The body step of the tail loop of `c`**, symmetric. -/
theorem tail_step_cC (N : KNames i outT bT cT) (ho : isSp i outT = true) (hb : isSp i bT = true)
    (hc : isSp i cT = true)
    (pre : LoopPreC outT bT cT mb mc bvb cvb cellsB cellsC rr vb σ0)
    (fuel : Nat) (σ : State F) (hist : List (Int × F))
    (r : Nat) (xc x : Int) (hr : r < mc)
    (hinv : InvC i outT bT cT vb σ0 hist σ)
    (hpC : IntVar σ (layerPointer cT.id 0) r)
    (hvC : IntVar σ (valueFromCrd cT.id 0) xc) (hi : IntVar σ i x)
    (hc0 : -2147483648 ≤ xc) (hc1 : xc < 2147483648) (hr0 : -2147483648 ≤ x) (hr1 : x < 2147483648)
    (hlen : xc = x → hist.length < 1073741824)
    (hroom : xc = x → hist.length < rr)
    (hfin : xc = x → FloatOps.finite (cellsC r) = true) :
    ∃ σ', RunsL fuel [tailStmtC ofRat i outT cT] σ σ' ∧
      InvC i outT bT cT vb σ0 (if xc = x then hist ++ [(x, cellsC r)] else hist) σ' ∧
      (∀ y, y ∉ midWC outT → lookupVar σ'.vars y = lookupVar σ.vars y) ∧
      (∀ k, k ≠ vb → σ'.heap[k]? = σ.heap[k]?) := by
  have econdC := evalE_oneCond (t := cT) hvC hi hc0 hc1 hr0 hr1
  by_cases h1 : xc = x
  · obtain ⟨σ', hrun, hinv', fv, fh⟩ := branch_stepC (ofRat := ofRat) N ho hb hc pre
      (.tensor cT) (by simp) fuel σ hist 0 r x
      (by
        intro t ht
        simp only [ToIr.leaves, List.mem_cons, List.not_mem_nil, or_false] at ht
        subst ht
        exact .inr ⟨rfl, hr, hpC⟩)
      (hlen h1) (hroom h1) hinv (allFinite_c ofRat bT cT N.idbc _ _ (hfin h1))
    rw [valueF_c ofRat bT cT N.idbc] at hinv'
    refine ⟨σ', ?_, ?_, fv, fh⟩
    · refine RunsL.cons (Runs.branch_true ?_ (Runs.block hrun)) (RunsL.nil _ _)
      show evalE σ (oneCond i cT) = _
      rw [econdC, h1]; simp
    · rw [if_pos h1]; exact hinv'
  · refine ⟨σ, ?_, ?_, fun _ _ => rfl, fun _ _ => rfl⟩
    · refine RunsL.cons (Runs.branch_false ?_ (Runs.skip _ _ _)) (RunsL.nil _ _)
      show evalE σ (oneCond i cT) = _
      rw [econdC]; simp [h1]
    · rw [if_neg h1]; exact hinv

end step


end TV.Spadd
