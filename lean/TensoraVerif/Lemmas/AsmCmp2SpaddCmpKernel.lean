import TensoraVerif.Lemmas.AsmCmp2SpaddCmpLoops
import TensoraVerif.Lemmas.AsmCmp2SpaddPost
import TensoraVerif.Lemmas.AsmCmp2SpmulCmpKernel
import TensoraVerif.Lemmas.SpaddKernel

/-!
C04 for the element-wise sum of two sparse vectors (`Spadd` class), compute chain, part 5: the whole COMPUTING
kernel on the machine, from any state `InitC` (the state of a kernel call in which the output record already
owns a `vals` block of at least `r` cells) to `KernelPostC` (no allocation, tensor records untouched, only the
first `|union b c|` cells of that block written). The prologue is that of the product class
(`Spmul.prologue_runsC`, `Spmul.EntryC`): same three unpacks, same `int p_a = 0;`.
-/
namespace TV.Spadd
open TV.IR TV.Gen TV.Graph TV.Growth TV.Merge TV.Dense1
open TV.Sparse1 (isSp isSp_iff outLeaf inLeaf unpackStmts nameClass
  nc_dim nc_pos nc_crd nc_vals nc_ptr nc_end nc_val nc_wr)
open TV.Spmul (KNames LoopPreC InvC touchedC env assoc assoc_length cur_namesB Init proW isClass isClass_iff
  KernelOK EntryC prologue_runsC)
open TV.AsmCmp (branchBodyC outInitC midWC)
set_option linter.unusedSectionVars false
variable {F : Type} [FloatOps F]

set_option maxHeartbeats 1000000 in
/-- **the iteration block of the computing kernel** -/
theorem iterBlock_runsC {ofRat : Rat → F} {i : String} {outT bT cT : TensorId}
    (N : KNames i outT bT cT) (ho : isSp i outT = true) (hb : isSp i bT = true) (hc : isSp i cT = true)
    {ta : Nat} {atr : TensorRec F} {n : Int}
    {tb : Nat} {btr : TensorRec F} {mb bpb bcb bvb : Nat} {crdB : Nat → Int} {cellsB : Nat → F}
    {tc : Nat} {ctr : TensorRec F} {mc cpb ccb cvb : Nat} {crdC : Nat → Int} {cellsC : Nat → F}
    {r vF : Nat} {σ0 σC : State F}
    (initC : InitC outT bT cT ta atr n tb btr mb bpb bcb bvb crdB cellsB tc ctr mc cpb ccb cvb crdC cellsC
      r vF σ0)
    (entry : EntryC i outT bT cT bpb bcb bvb cpb ccb cvb vF σ0 σC)
    (hsum : mb + mc ≤ 1073741824)
    (hlen : (union (assoc mb crdB cellsB) (assoc mc crdC cellsC)).length ≤ r)
    (hrngB : ∀ j, j < mb → -2147483648 ≤ crdB j ∧ crdB j < 2147483648)
    (hrngC : ∀ j, j < mc → -2147483648 ≤ crdC j ∧ crdC j < 2147483648)
    (hfB : ∀ q, q < mb → FloatOps.finite (cellsB q) = true)
    (hfC : ∀ r, r < mc → FloatOps.finite (cellsC r) = true)
    (hfS : ∀ q r, q < mb → r < mc → crdB q = crdC r →
      FloatOps.finite (FloatOps.add (cellsB q) (cellsC r)) = true)
    (fuel : Nat) (hfuel : mb + mc + 1 ≤ fuel) :
    ∃ σF its, RunsLI fuel (loopLinesC ofRat i outT bT cT) σC σF its ∧ its ≤ mb + mc ∧
      KernelPostC (union (assoc mb crdB cellsB) (assoc mc crdC cellsC)) vF σ0 σF := by
  have init := initC.base
  obtain ⟨ho1, ho2⟩ := (isSp_iff i outT).1 ho
  have hfresh : ∀ x, nameClass x ≠ 0 → x ∉ proW i outT bT cT → lookupVar σC.vars x = none := by
    intro x hx hw
    rw [entry.frame x hw]
    refine init.fresh x ?_ ?_ ?_
    · intro h; rw [h, N.a0] at hx; exact hx rfl
    · intro h; rw [h, N.b0] at hx; exact hx rfl
    · intro h; rw [h, N.c0] at hx; exact hx rfl
  obtain ⟨pblkB, hpbB, hpliveB, hptyB, hpc0B, hpc1B⟩ := init.b.pos
  obtain ⟨cblk0B, hcbB, hcliveB, hctyB, hclenB, hccellsB⟩ := init.b.crd
  obtain ⟨vblk0B, hvbB, hvliveB, hvtyB, hvcellsB⟩ := init.b.val
  obtain ⟨pblkC, hpbC, hpliveC, hptyC, hpc0C, hpc1C⟩ := init.c.pos
  obtain ⟨cblk0C, hcbC, hcliveC, hctyC, hclenC, hccellsC⟩ := init.c.crd
  obtain ⟨vblk0C, hvbC, hvliveC, hvtyC, hvcellsC⟩ := init.c.val
  obtain ⟨ablk, hab, halive, haown, haty, halen⟩ := initC.vblk
  obtain ⟨vne1, vne2, vne3, vne4, vne5, vne6⟩ := initC.vne
  have hCold : ∀ j : Nat, σC.heap[j]? = σ0.heap[j]? := by
    intro j; rw [entry.heap]
  -- D1: sparse init of b
  let cB : Cur := ⟨inLeaf bT, bcb, crdB, 0, mb⟩
  let cC : Cur := ⟨inLeaf cT, ccb, crdC, 0, mc⟩
  obtain ⟨n1, n2, n3, n4⟩ := cur_namesB (c := cB) (bT := bT) rfl
  obtain ⟨m1, m2, m3, m4⟩ := cur_namesB (c := cC) (bT := cT) rfl
  have hWpB : layerPointer bT.id 0 ∉ proW i outT bT cT := by snotin N
  have hWeB : sparseEndName bT.id 0 ∉ proW i outT bT cT := by snotin N
  have hWvB : valueFromCrd bT.id 0 ∉ proW i outT bT cT := by snotin N
  have hWpC : layerPointer cT.id 0 ∉ proW i outT bT cT := by snotin N
  have hWeC : sparseEndName cT.id 0 ∉ proW i outT bT cT := by snotin N
  have hWvC : valueFromCrd cT.id 0 ∉ proW i outT bT cT := by snotin N
  have hWw : writtenName outT.name 0 ∉ proW i outT bT cT := by snotin N
  have hWi : i ∉ proW i outT bT cT := by snotin N
  obtain ⟨oD, eD, rD, itD, curD, frD, hhD, htD⟩ := writeSparseInit_safe cB fuel σC bpb 0
    ⟨entry.bpos, by simp [PrevIs, cB, inLeaf], by omega, by omega,
      ⟨pblkB, by rw [hCold]; exact hpbB, hpliveB, hptyB, by simpa [cB] using hpc0B,
        by simpa [cB] using hpc1B⟩⟩
    (by rw [n3]; exact entry.bcrd) (Nat.zero_le _) (by show (mb : Int) < 2147483648; omega)
    ⟨cblk0B, by rw [hCold]; exact hcbB, hcliveB, hctyB, hclenB, fun j _ hj => hccellsB j hj⟩
    (fun j _ hj => hrngB j hj)
    (by rw [n1]; intro r hr; rw [hfresh _ (by simp [nc_ptr]) hWpB] at hr; cases hr)
    (by rw [n2]; intro r hr; rw [hfresh _ (by simp [nc_end]) hWeB] at hr; cases hr)
  rw [n1, n2] at frD
  have runD : RunsLI fuel (writeSparseInit (inLeaf bT)).lines σC oD.st 0 := by
    refine ⟨oD, ?_, rD, rfl, itD⟩
    have : (writeSparseInit (F := F) cB.leaf).finalize = .block (writeSparseInit (inLeaf bT)).lines none := rfl
    rw [this, exec.eq_5] at eD
    exact eD
  generalize oD.st = σD at *
  -- D2: sparse init of c
  obtain ⟨oE, eE, rE, itE, curE, frE, hhE, htE⟩ := writeSparseInit_safe cC fuel σD cpb 0
    ⟨entry.cpos.congr (frD _ (by snm N) (by snm N)), by simp [PrevIs, cC, inLeaf], by omega, by omega,
      ⟨pblkC, by rw [hhD, hCold]; exact hpbC, hpliveC, hptyC, by simpa [cC] using hpc0C,
        by simpa [cC] using hpc1C⟩⟩
    (by rw [m3]; exact entry.ccrd.congr (frD _ (by snm N) (by snm N))) (Nat.zero_le _)
    (by show (mc : Int) < 2147483648; omega)
    ⟨cblk0C, by rw [hhD, hCold]; exact hcbC, hcliveC, hctyC, hclenC, fun j _ hj => hccellsC j hj⟩
    (fun j _ hj => hrngC j hj)
    (by
      rw [m1]; intro r hr
      rw [frD _ (by snm N) (by snm N), hfresh _ (by simp [nc_ptr]) hWpC] at hr; cases hr)
    (by
      rw [m2]; intro r hr
      rw [frD _ (by snm N) (by snm N), hfresh _ (by simp [nc_end]) hWeC] at hr; cases hr)
  rw [m1, m2] at frE
  have runE : RunsLI fuel (writeSparseInit (inLeaf cT)).lines σD oE.st 0 := by
    refine ⟨oE, ?_, rE, rfl, itE⟩
    have : (writeSparseInit (F := F) cC.leaf).finalize = .block (writeSparseInit (inLeaf cT)).lines none := rfl
    rw [this, exec.eq_5] at eE
    exact eE
  generalize oE.st = σE at *
  -- both frames together
  have frDE : ∀ y, y ≠ layerPointer bT.id 0 → y ≠ sparseEndName bT.id 0 → y ≠ layerPointer cT.id 0 →
      y ≠ sparseEndName cT.id 0 → lookupVar σE.vars y = lookupVar σC.vars y := by
    intro y h1 h2 h3 h4; rw [frE y h3 h4, frD y h1 h2]
  have hhE' : σE.heap = σ0.heap := by rw [hhE, hhD, entry.heap]
  have curD' : CurInv σE cB := curD.congr (by rw [n3]; exact frE _ (by snm N) (by snm N))
    (by rw [n1]; exact frE _ (by snm N) (by snm N)) (by rw [n2]; exact frE _ (by snm N) (by snm N))
    (by rw [hhE])
  -- the loop
  have pre : LoopPreC outT bT cT mb mc bvb cvb cellsB cellsC r vF σE :=
    { bvals := entry.bvals.congr (frDE _ (by snm N) (by snm N) (by snm N) (by snm N))
      cvals := entry.cvals.congr (frDE _ (by snm N) (by snm N) (by snm N) (by snm N))
      bblk := ⟨vblk0B, by rw [hhE']; exact hvbB, hvliveB, hvtyB, hvcellsB⟩
      cblk := ⟨vblk0C, by rw [hhE']; exact hvbC, hvliveC, hvtyC, hvcellsC⟩
      avals := entry.avals.congr (frDE _ (by snm N) (by snm N) (by snm N) (by snm N))
      ablk := ⟨ablk, by rw [hhE']; exact hab, halive, haown, haty, halen⟩
      bne := Ne.symm vne3
      cne := Ne.symm vne6
      smallB := by omega
      smallC := by omega }
  have hP : InvC i outT bT cT vF σE [] σE := by
    refine
      { tensors := rfl, len := rfl, old := fun _ _ => rfl, vars := fun _ _ => rfl,
        ptr := entry.ptr.congr (frDE _ (by snm N) (by snm N) (by snm N) (by snm N)),
        cells := ⟨ablk, ablk, by rw [hhE']; exact hab, by rw [hhE']; exact hab, rfl, rfl, rfl, rfl,
          fun j h => absurd h (by simp), fun _ _ => rfl⟩,
        flag := ?_ }
    intro r hr
    rw [frDE _ (by snm N) (by snm N) (by snm N) (by snm N), hfresh _ (by simp [nc_wr]) hWw] at hr
    cases hr
  have hM : MergeInv σE [cB, cC] i := by
    refine ⟨fun d hd => ?_, fun d hd => ?_, ?_⟩
    · simp only [List.mem_cons, List.not_mem_nil, or_false] at hd
      rcases hd with rfl | rfl
      · exact curD'
      · exact curE
    · simp only [List.mem_cons, List.not_mem_nil, or_false] at hd
      rcases hd with rfl | rfl
      · rw [n4]
        intro r hr
        rw [frDE _ (by snm N) (by snm N) (by snm N) (by snm N), hfresh _ (by simp [nc_val]) hWvB] at hr
        cases hr
      · rw [m4]
        intro r hr
        rw [frDE _ (by snm N) (by snm N) (by snm N) (by snm N), hfresh _ (by simp [nc_val]) hWvC] at hr
        cases hr
    · intro r hr
      rw [frDE _ (by snm N) (by snm N) (by snm N) (by snm N), entry.frame _ hWi, init.fresh _ N.ia N.ib N.ic] at hr
      cases hr
  obtain ⟨σL, its, runL, itL2, itL1, hinv⟩ := loops_runC (ofRat := ofRat) N ho hb hc pre hsum hlen hfB hfC hfS
    bcb ccb (Ne.symm vne2) (Ne.symm vne5) fuel σE hfuel hM hP
  refine ⟨σL, 0 + (0 + its), ?_, by omega, ?_⟩
  · have := RunsLI.append runD (RunsLI.append runE runL)
    simpa [loopLinesC, threeLoopsC] using this
  · obtain ⟨blk0, blk, hblk0, hblk, h1, h2, h3, h4, h5, h6⟩ := hinv.cells
    exact
      { tensors := by rw [hinv.tensors, htE, htD, entry.tensors],
        len := by rw [hinv.len, hhE'],
        other := fun k hk => by rw [hinv.old k hk, hhE'],
        vals := ⟨blk0, blk, by rw [← hhE']; exact hblk0, hblk, h1, h2, h3, h4, h5, h6⟩ }

/-- **the whole `compute` function on the machine** -/
theorem kernel_runsC (ofRat : Rat → F) (formats : Formats) (i : String) (outT bT cT : TensorId)
    (hcl : isClass i outT bT cT = true) (ok : KernelOK formats i outT bT cT)
    {ta : Nat} {atr : TensorRec F} {n : Int}
    {tb : Nat} {btr : TensorRec F} {mb bpb bcb bvb : Nat} {crdB : Nat → Int} {cellsB : Nat → F}
    {tc : Nat} {ctr : TensorRec F} {mc cpb ccb cvb : Nat} {crdC : Nat → Int} {cellsC : Nat → F}
    {r vF : Nat} {σ : State F}
    (initC : InitC outT bT cT ta atr n tb btr mb bpb bcb bvb crdB cellsB tc ctr mc cpb ccb cvb crdC cellsC r vF σ)
    (hsum : mb + mc ≤ 1073741824)
    (hlen : (union (assoc mb crdB cellsB) (assoc mc crdC cellsC)).length ≤ r)
    (hrngB : ∀ j, j < mb → -2147483648 ≤ crdB j ∧ crdB j < 2147483648)
    (hrngC : ∀ j, j < mc → -2147483648 ≤ crdC j ∧ crdC j < 2147483648)
    (hfB : ∀ q, q < mb → FloatOps.finite (cellsB q) = true)
    (hfC : ∀ r, r < mc → FloatOps.finite (cellsC r) = true)
    (hfS : ∀ q r, q < mb → r < mc → crdB q = crdC r →
      FloatOps.finite (FloatOps.add (cellsB q) (cellsC r)) = true)
    (fuel : Nat) (hfuel : mb + mc + 1 ≤ fuel) :
    ∃ o, exec fuel (kernelC ofRat formats i outT bT cT).body σ = .ok o ∧ o.ret = some (.int 0) ∧
      o.iters ≤ mb + mc ∧
      KernelPostC (union (assoc mb crdB cellsB) (assoc mc crdC cellsC)) vF σ o.st := by
  have N := ok.names
  obtain ⟨ho, hb, hc, _⟩ := (isClass_iff i outT bT cT).1 hcl
  obtain ⟨σC, rC, entry⟩ := prologue_runsC N initC fuel
  obtain ⟨σF, its, rF, hits1, post⟩ := iterBlock_runsC (ofRat := ofRat) N ho hb hc initC entry hsum hlen
    hrngB hrngC hfB hfC hfS fuel hfuel
  have hunp : (formats.flatMap fun f => unpackStmts (F := F) f.1) =
      unpackStmts outT.name ++ unpackStmts bT.name ++ unpackStmts cT.name := by
    have : (formats.flatMap fun f => unpackStmts (F := F) f.1) =
        (formats.map (·.1)).flatMap unpackStmts := by
      rw [List.flatMap_map]
    rw [this, ok.fmt]
    simp
  have rAll : RunsLI fuel (kernelStmtsC ofRat formats i outT bT cT) σ σF (0 + (its + (0 + 0))) := by
    unfold kernelStmtsC
    rw [hunp]
    have h3 := RunsLI.append rC (RunsLI.cons (RunsI.block
      (c := some ("*** Iteration over " ++ i ++ " ***")) rF)
      (RunsLI.cons (RunsI.block (c := some ("Assembling output tensor " ++ outT.name)) (RunsLI.nil fuel σF))
        (RunsLI.nil _ _)))
    simpa using h3
  obtain ⟨o, eo, hret, hst, hit⟩ := execL_ret (e := .intLit 0) (v := .int 0) rAll
    (evalE_intLit (by omega) (by omega))
  refine ⟨o, ?_, hret, by rw [hit]; omega, by rw [hst]; exact post⟩
  show exec fuel (.block (kernelStmtsC ofRat formats i outT bT cT ++ [.ret (.intLit 0)]) none) σ = _
  rw [exec.eq_5]
  exact eo

end TV.Spadd
