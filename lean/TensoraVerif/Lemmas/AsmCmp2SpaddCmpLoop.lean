import TensoraVerif.Lemmas.AsmCmp2SpaddCmpBody
import TensoraVerif.Lemmas.AsmCmp2SpmulCmpLoop
import TensoraVerif.Lemmas.SpaddLoop

/-!
C04 for the element-wise sum of two sparse vectors (`Spadd` class), compute chain, part 2: the FIRST loop of the
COMPUTING kernel, by the cursor-indexed merge loop theorem, with the same ghost relation as the evaluating kernel
(`hist ++ union (remainders) = union b c`).
-/
namespace TV.Spadd
open TV.IR TV.Gen TV.Graph TV.Growth TV.Merge
open TV.Sparse1 (isSp isSp_iff outLeaf inLeaf termBlock)
open TV.Spmul (KNames LoopPreC InvC touchedC env assoc assoc_drop_lt assoc_drop_all assoc_length reach_pair
  cur_namesB CurStable MidOKc merge_loop_cursor_ghost)
open TV.AsmCmp (branchBodyC outInitC midWC)
set_option linter.unusedSectionVars false
variable {F : Type} [FloatOps F]

/-- while the cursor of `b` is in range, the history is strictly shorter than `union b c` -/
theorem hist_length_lt_totalC {mb mc : Nat} (crdB crdC : Nat → Int) (cellsB cellsC : Nat → F) {q r : Nat}
    (hq : q < mb) (hist : List (Int × F))
    (h : hist ++ union ((assoc mb crdB cellsB).drop q) ((assoc mc crdC cellsC).drop r) =
      union (assoc mb crdB cellsB) (assoc mc crdC cellsC)) :
    hist.length < (union (assoc mb crdB cellsB) (assoc mc crdC cellsC)).length := by
  have h1 := congrArg List.length h
  have h3 := (union_length ((assoc mb crdB cellsB).drop q) ((assoc mc crdC cellsC).drop r)).1
  simp only [List.length_append, List.length_drop, assoc_length] at h1 h3
  omega

/-- while the cursor of `c` is in range, the history is strictly shorter than `union b c` -/
theorem hist_length_lt_totalC' {mb mc : Nat} (crdB crdC : Nat → Int) (cellsB cellsC : Nat → F) {q r : Nat}
    (hr : r < mc) (hist : List (Int × F))
    (h : hist ++ union ((assoc mb crdB cellsB).drop q) ((assoc mc crdC cellsC).drop r) =
      union (assoc mb crdB cellsB) (assoc mc crdC cellsC)) :
    hist.length < (union (assoc mb crdB cellsB) (assoc mc crdC cellsC)).length := by
  have h1 := congrArg List.length h
  have h3 := (union_length ((assoc mb crdB cellsB).drop q) ((assoc mc crdC cellsC).drop r)).2.1
  simp only [List.length_append, List.length_drop, assoc_length] at h1 h3
  omega

/-- the loop invariant only depends on the state through the heap, the tensor records and the variables other
than the skeleton's own (index, cursors, loaded coordinates) -/
theorem inv_stableC {i : String} {outT bT cT : TensorId} (N : KNames i outT bT cT) {vb : Nat}
    {σ0 σ σ' : State F} {hist : List (Int × F)}
    (h : InvC i outT bT cT vb σ0 hist σ)
    (hh : σ'.heap = σ.heap) (ht : σ'.tensors = σ.tensors)
    (hv' : ∀ y, y ≠ i → y ≠ layerPointer bT.id 0 → y ≠ valueFromCrd bT.id 0 →
      y ≠ layerPointer cT.id 0 → y ≠ valueFromCrd cT.id 0 → lookupVar σ'.vars y = lookupVar σ.vars y) :
    InvC i outT bT cT vb σ0 hist σ' := by
  refine
    { tensors := by rw [ht]; exact h.tensors, len := by rw [hh]; exact h.len,
      old := by rw [hh]; exact h.old, vars := ?_, ptr := ?_,
      cells := by rw [hh]; exact h.cells, flag := ?_ }
  · intro y hy
    have hy' := hy
    simp only [touchedC, midWC, List.mem_cons, List.mem_append, List.not_mem_nil, or_false, not_or] at hy'
    rw [hv' y hy'.2.1 hy'.2.2.1 hy'.2.2.2.1 hy'.2.2.2.2.1 hy'.2.2.2.2.2, h.vars y hy]
  · exact h.ptr.congr (hv' _ (by snm N) (by snm N) (by snm N) (by snm N) (by snm N))
  · rw [hv' _ (by snm N) (by snm N) (by snm N) (by snm N) (by snm N)]; exact h.flag

/-- the ghost predicate of the first loop, indexed by the two cursor records -/
def P2C (i : String) (outT bT cT : TensorId) (mb mc : Nat) (crdB crdC : Nat → Int) (cellsB cellsC : Nat → F)
    (vb : Nat) (σ0 : State F) (cs : List Cur) (σ : State F) : Prop :=
  ∃ pb pc hist, cs.map Cur.p = [pb, pc] ∧
    InvC i outT bT cT vb σ0 hist σ ∧
    hist ++ union ((assoc mb crdB cellsB).drop pb) ((assoc mc crdC cellsC).drop pc) =
      union (assoc mb crdB cellsB) (assoc mc crdC cellsC)

section
variable {ofRat : Rat → F} {i : String} {outT bT cT : TensorId} {mb mc bvb cvb : Nat}
  {cellsB cellsC : Nat → F} {crdB crdC : Nat → Int} {rr vb : Nat} {σ0 : State F}

/-- the ghost predicate does not look at the variables the skeleton writes -/
theorem curStable2C (N : KNames i outT bT cT) {c0b c0c : Cur} (hb0 : c0b.leaf = inLeaf bT)
    (hc0 : c0c.leaf = inLeaf cT) :
    CurStable (P2C i outT bT cT mb mc crdB crdC cellsB cellsC vb σ0) [c0b, c0c] i := by
  intro cs σ σ' hreach ⟨pb, pc, hist, hps, h, hrel⟩ hh ht hv
  obtain ⟨c1, c2, rfl, ⟨l1, _⟩, ⟨l2, _⟩⟩ := reach_pair hreach
  obtain ⟨n1, n2, n3, n4⟩ := cur_namesB (l1.trans hb0)
  obtain ⟨m1, m2, m3, m4⟩ := cur_namesB (l2.trans hc0)
  refine ⟨pb, pc, hist, hps, inv_stableC N h hh ht ?_, hrel⟩
  intro y h1 h2 h3 h4 h5
  apply hv
  simp only [writtenNames, List.map_cons, List.map_nil, List.mem_cons, List.mem_append, List.not_mem_nil,
    or_false, n1, n4, m1, m4, not_or]
  exact ⟨h1, ⟨h2, h4⟩, h3, h5⟩

/-- **the frame condition of the merge loop holds for the three-branch statement** -/
theorem midOKc2C (N : KNames i outT bT cT) (ho : isSp i outT = true) (hb : isSp i bT = true)
    (hc : isSp i cT = true)
    (pre : LoopPreC outT bT cT mb mc bvb cvb cellsB cellsC rr vb σ0) (hsum : mb + mc ≤ 1073741824)
    (hroom : (union (assoc mb crdB cellsB) (assoc mc crdC cellsC)).length ≤ rr)
    (hfB : ∀ q, q < mb → FloatOps.finite (cellsB q) = true)
    (hfC : ∀ r, r < mc → FloatOps.finite (cellsC r) = true)
    (hfS : ∀ q r, q < mb → r < mc → crdB q = crdC r →
      FloatOps.finite (FloatOps.add (cellsB q) (cellsC r)) = true)
    (c0b c0c : Cur) (hb0 : c0b.leaf = inLeaf bT) (hc0 : c0c.leaf = inLeaf cT)
    (hcrdB : c0b.crd = crdB) (hcrdC : c0c.crd = crdC) (heB : c0b.e = mb) (heC : c0c.e = mc)
    (hblkB : c0b.blk ≠ vb) (hblkC : c0c.blk ≠ vb) :
    MidOKc 0 0 (P2C i outT bT cT mb mc crdB crdC cellsB cellsC vb σ0) [c0b, c0c] i
      [midStmtC ofRat i outT bT cT] := by
  intro fuel σ cs _ hreach hact hinvM hval hidx ⟨pb, pc, hist, hps, hinv, hrel⟩
  obtain ⟨c1, c2, rfl, ⟨l1, k1, d1, e1, _⟩, ⟨l2, k2, d2, e2, _⟩⟩ := reach_pair hreach
  obtain ⟨n1, n2, n3, n4⟩ := cur_namesB (l1.trans hb0)
  obtain ⟨m1, m2, m3, m4⟩ := cur_namesB (l2.trans hc0)
  simp only [List.map_cons, List.map_nil, List.cons.injEq, and_true] at hps
  obtain ⟨rfl, rfl⟩ := hps
  have hm1 : c1 ∈ [c1, c2] := List.mem_cons_self
  have hm2 : c2 ∈ [c1, c2] := List.mem_cons_of_mem _ List.mem_cons_self
  have hq : c1.p < mb := by rw [← heB, ← e1]; exact hact c1 hm1
  have hr : c2.p < mc := by rw [← heC, ← e2]; exact hact c2 hm2
  have hcur1 := hinvM.cur c1 hm1
  have hcur2 := hinvM.cur c2 hm2
  have hhere1 : c1.here = crdB c1.p := by rw [← hcrdB, ← d1]; rfl
  have hhere2 : c2.here = crdC c2.p := by rw [← hcrdC, ← d2]; rfl
  have hmin : curMin [c1, c2] = min (crdB c1.p) (crdC c2.p) := by
    simp [curMin, hhere1, hhere2]
  obtain ⟨b0, b1⟩ := hcur1.rng c1.p (Nat.le_refl _) (hact c1 hm1)
  obtain ⟨g0, g1⟩ := hcur2.rng c2.p (Nat.le_refl _) (hact c2 hm2)
  rw [d1, hcrdB] at b0 b1
  rw [d2, hcrdC] at g0 g1
  have hx0 : -2147483648 ≤ min (crdB c1.p) (crdC c2.p) := by omega
  have hx1 : min (crdB c1.p) (crdC c2.p) < 2147483648 := by omega
  have hlenH := hist_length_lt crdB crdC cellsB cellsC hq hist hrel
  have hlenT := hist_length_lt_totalC crdB crdC cellsB cellsC hq hist hrel
  obtain ⟨σ', ⟨o, eo, ro, so⟩, hinv', _, fvars, fheap⟩ := mid_stepC (ofRat := ofRat) N ho hb hc
    pre fuel σ hist c1.p c2.p (crdB c1.p) (crdC c2.p) (min (crdB c1.p) (crdC c2.p)) hq hr hinv
    (by rw [← n1]; exact hcur1.ptrv) (by rw [← m1]; exact hcur2.ptrv)
    (by rw [← n4, ← hhere1]; exact hval c1 hm1) (by rw [← m4, ← hhere2]; exact hval c2 hm2)
    (by rw [← hmin]; exact hidx) b0 b1 g0 g1 hx0 hx1
    (fun _ => by omega) (fun _ => by omega)
    (by
      intro h1 h2
      have heq : crdB c1.p = crdC c2.p := h1.trans h2.symm
      simp only [ToIr.AllFinite, ToIr.allFinite, addE, ToIr.valueF, env, Bool.and_eq_true, if_true,
        if_neg (Ne.symm N.idbc)]
      exact ⟨⟨hfB _ hq, hfC _ hr⟩, hfS _ _ hq hr heq⟩)
    (fun _ _ => hfB _ hq) (fun _ _ => hfC _ hr)
  subst so
  refine ⟨o, eo, ro, ?_, ?_, ?_, ?_⟩
  · rw [Sparse1.execL_noLoop_iters fuel _ σ (noLoop_midStmtC ofRat i outT bT cT) o eo]; exact Nat.le_refl _
  · intro x hx
    apply fvars
    simp only [curNames, List.map_cons, List.map_nil, List.mem_cons, List.mem_append, List.not_mem_nil,
      or_false, n1, n2, n3, n4, m1, m2, m3, m4] at hx
    simp only [midWC, List.mem_cons, List.not_mem_nil, or_false, not_or]
    rcases hx with rfl | (((rfl | rfl) | (rfl | rfl)) | (rfl | rfl)) | (rfl | rfl) <;>
      (and_intros <;> snm N)
  · intro d hd
    simp only [List.mem_cons, List.not_mem_nil, or_false] at hd
    have hdblk : d.blk ≠ vb := by
      rcases hd with rfl | rfl
      · rw [k1]; exact hblkB
      · rw [k2]; exact hblkC
    exact fheap d.blk hdblk
  · refine ⟨(c1.adv (curMin [c1, c2])).p, (c2.adv (curMin [c1, c2])).p, _, rfl, hinv', ?_⟩
    rw [adv_p_eq, adv_p_eq, hmin, d1, hcrdB, d2, hcrdC]
    exact hist_step crdB crdC cellsB cellsC hq hr hist _ hrel

end

section
variable {ofRat : Rat → F} {i : String} {outT bT cT : TensorId} {mb mc bvb cvb : Nat}
  {cellsB cellsC : Nat → F} {crdB crdC : Nat → Int} {rr vb : Nat} {σ0 : State F}

/-- **(b1) The first loop.** From a state satisfying the merge invariant for the two input leaves (cursors `0`,
ends `mb`, `mc`) and the loop invariant for the empty history, the first loop `lower` emits runs without error
with any fuel `≥ mb + mc + 1` and ends with cursors `pb ≤ mb`, `pc ≤ mc`, ONE OF WHICH IS AT ITS END, the merge
invariant for these cursors, and the loop invariant for a history `hist` with
`hist ++ union (b from pb) (c from pc) = union b c`; the number of iterations is `|hist|`, i.e.
`iters + |what is left to merge| = |union b c|`. -/
theorem loop1_runsC (N : KNames i outT bT cT) (ho : isSp i outT = true) (hb : isSp i bT = true)
    (hc : isSp i cT = true)
    (pre : LoopPreC outT bT cT mb mc bvb cvb cellsB cellsC rr vb σ0) (hsum : mb + mc ≤ 1073741824)
    (hroom : (union (assoc mb crdB cellsB) (assoc mc crdC cellsC)).length ≤ rr)
    (hfB : ∀ q, q < mb → FloatOps.finite (cellsB q) = true)
    (hfC : ∀ r, r < mc → FloatOps.finite (cellsC r) = true)
    (hfS : ∀ q r, q < mb → r < mc → crdB q = crdC r →
      FloatOps.finite (FloatOps.add (cellsB q) (cellsC r)) = true)
    (bcb ccb : Nat) (hblkB : bcb ≠ vb) (hblkC : ccb ≠ vb)
    (fuel : Nat) (σ : State F) (hfuel : mb + mc + 1 ≤ fuel)
    (hM : MergeInv σ [⟨inLeaf bT, bcb, crdB, 0, mb⟩, ⟨inLeaf cT, ccb, crdC, 0, mc⟩] i)
    (hP : InvC i outT bT cT vb σ0 [] σ) :
    ∃ o pb pc hist, exec fuel (mergeLoopL [inLeaf bT, inLeaf cT] i [midStmtC ofRat i outT bT cT]) σ = .ok o ∧
      o.ret = none ∧ pb ≤ mb ∧ pc ≤ mc ∧ (pb = mb ∨ pc = mc) ∧
      MergeInv o.st [⟨inLeaf bT, bcb, crdB, pb, mb⟩, ⟨inLeaf cT, ccb, crdC, pc, mc⟩] i ∧
      InvC i outT bT cT vb σ0 hist o.st ∧
      hist ++ union ((assoc mb crdB cellsB).drop pb) ((assoc mc crdC cellsC).drop pc) =
        union (assoc mb crdB cellsB) (assoc mc crdC cellsC) ∧
      o.iters + (union ((assoc mb crdB cellsB).drop pb) ((assoc mc crdC cellsC).drop pc)).length =
        (union (assoc mb crdB cellsB) (assoc mc crdC cellsC)).length := by
  let c0b : Cur := ⟨inLeaf bT, bcb, crdB, 0, mb⟩
  let c0c : Cur := ⟨inLeaf cT, ccb, crdC, 0, mc⟩
  have hnames : NamesOK [c0b, c0c] i := merge_names_generated [c0b, c0c] i N.iu (by
    simp only [List.pairwise_cons, List.mem_cons, List.not_mem_nil, or_false, forall_eq, List.Pairwise.nil,
      and_true, false_imp_iff, implies_true]
    intro h; exact N.idbc h.1)
  have hmeas : curMeasure [c0b, c0c] = mb + mc := by simp [curMeasure, c0b, c0c]
  obtain ⟨o, eo, ro, inv, hreach, ⟨cx, hcx, hcxe⟩, hl, lo, hi, pb, pc, hist, hps, hinvF, hrel⟩ :=
    merge_loop_cursor_ghost (B := 0) (K := 0)
      (P := P2C i outT bT cT mb mc crdB crdC cellsB cellsC vb σ0) [c0b, c0c] i
      [midStmtC ofRat i outT bT cT] fuel σ (by simp) hnames hM
      ⟨0, 0, [], rfl, hP, by simp⟩
      (curStable2C N rfl rfl)
      (midOKc2C N ho hb hc pre hsum hroom hfB hfC hfS c0b c0c rfl rfl rfl rfl rfl rfl hblkB hblkC)
      (by rw [hmeas]; omega)
  simp only [Nat.zero_add, Nat.mul_one] at hi
  have hits : o.iters = (mergeTrace [c0b, c0c]).length := Nat.le_antisymm hi lo
  obtain ⟨c1, c2, hcs, ⟨l1, k1, d1, e1, _⟩, ⟨l2, k2, d2, e2, _⟩⟩ := reach_pair hreach
  obtain ⟨d1', d2', hd, hcount⟩ := trace_union_length crdB crdC cellsB cellsC (curMeasure [c0b, c0c]) c0b c0c
    rfl rfl rfl rfl (Nat.le_refl _)
  have hd' : mergeFinal [c0b, c0c] = [d1', d2'] := hd
  rw [hcs] at hd'
  simp only [List.cons.injEq, and_true] at hd'
  obtain ⟨rfl, rfl⟩ := hd'
  rw [hcs] at hps hcx inv
  simp only [List.map_cons, List.map_nil, List.cons.injEq, and_true] at hps
  obtain ⟨rfl, rfl⟩ := hps
  have hc1 := cur_eta c1 l1 k1 d1 e1
  have hc2 := cur_eta c2 l2 k2 d2 e2
  have hle1 := (inv.cur c1 List.mem_cons_self).le
  have hle2 := (inv.cur c2 (List.mem_cons_of_mem _ List.mem_cons_self)).le
  rw [e1] at hle1
  rw [e2] at hle2
  refine ⟨o, c1.p, c2.p, hist, eo, ro, hle1, hle2, ?_, ?_, hinvF, hrel, ?_⟩
  · simp only [List.mem_cons, List.not_mem_nil, or_false] at hcx
    rcases hcx with rfl | rfl
    · left; rw [hcxe, e1]
    · right; rw [hcxe, e2]
  · rw [hc1, hc2] at inv; exact inv
  · rw [hits]
    have : (mergeTrace [c0b, c0c]).length = (mergeRun (curMeasure [c0b, c0c]) [c0b, c0c]).1.length := rfl
    rw [this]
    simpa [c0b, c0c] using hcount

end

end TV.Spadd
