import TensoraVerif.Lemmas.AsmCmp2SpaddCmpTail
import TensoraVerif.Lemmas.SpaddLoops

/-!
C04 for the element-wise sum of two sparse vectors (`Spadd` class), compute chain, part 4: the THREE loops of
the COMPUTING kernel in sequence (copy of `Lemmas/SpaddLoops.lean`): the first loop leaves one operand
exhausted, the tail loop of `b` appends what is left of `b`, the tail loop of `c` what is left of `c`. The room
for every store comes from `|union b c| ≤ rr`: at every moment `|hist| + (what is left of b) + (what is left of
c) = |union b c|`.
-/
namespace TV.Spadd
open TV.IR TV.Gen TV.Graph TV.Growth TV.Merge TV.Dense1
open TV.Sparse1 (isSp isSp_iff outLeaf inLeaf termBlock)
open TV.Spmul (KNames LoopPreC InvC touchedC env assoc assoc_drop_lt assoc_drop_all assoc_length cur_namesB)
open TV.AsmCmp (branchBodyC outInitC midWC)
set_option linter.unusedSectionVars false
variable {F : Type} [FloatOps F]

section
variable {ofRat : Rat → F} {i : String} {outT bT cT : TensorId} {mb mc bvb cvb : Nat}
  {cellsB cellsC : Nat → F} {crdB crdC : Nat → Int} {rr vb : Nat} {σ0 : State F}

/-- the three loops of the iteration block of the computing kernel -/
def threeLoopsC (ofRat : Rat → F) (i : String) (outT bT cT : TensorId) : List (Stmt F) :=
  [mergeLoopL [inLeaf bT, inLeaf cT] i [midStmtC ofRat i outT bT cT],
   mergeLoopL [inLeaf bT] i [tailStmtC ofRat i outT bT],
   mergeLoopL [inLeaf cT] i [tailStmtC ofRat i outT cT]]

/-- **The three loops of the computing kernel.** From a state satisfying the merge invariant for the two input
leaves (cursors `0`, ends `mb`, `mc`, `mb + mc ≤ 2^30`) and the loop invariant for the empty history, if the
output `vals` block has room for `|union b c|` values, all stored values are finite and so are the sums where the
coordinates coincide: the three loops run without error with any fuel `≥ mb + mc + 1`, perform exactly
`|union b c| ≤ mb + mc` iterations in total, and end with the loop invariant for the history `union b c`. -/
theorem loops_runC (N : KNames i outT bT cT) (ho : isSp i outT = true) (hb : isSp i bT = true)
    (hc : isSp i cT = true)
    (pre : LoopPreC outT bT cT mb mc bvb cvb cellsB cellsC rr vb σ0) (hsum : mb + mc ≤ 1073741824)
    (hroom : (union (assoc mb crdB cellsB) (assoc mc crdC cellsC)).length ≤ rr)
    (hfB : ∀ q, q < mb → FloatOps.finite (cellsB q) = true)
    (hfC : ∀ r, r < mc → FloatOps.finite (cellsC r) = true)
    (hfS : ∀ q r, q < mb → r < mc → crdB q = crdC r →
      FloatOps.finite (FloatOps.add (cellsB q) (cellsC r)) = true)
    (bcb ccb : Nat) (hblkB : bcb ≠ vb) (hblkC : ccb ≠ vb)
    (fuel : Nat) (σ : State F) (hfuel : mb + mc + 1 ≤ fuel)
    (hM : MergeInv σ [⟨inLeaf bT, bcb, crdB, 0, mb⟩, ⟨inLeaf cT, ccb, crdC, 0, mc⟩] i)
    (hP : InvC i outT bT cT vb σ0 [] σ) :
    ∃ σ3 its, RunsLI fuel (threeLoopsC ofRat i outT bT cT) σ σ3 its ∧
      its = (union (assoc mb crdB cellsB) (assoc mc crdC cellsC)).length ∧ its ≤ mb + mc ∧
      InvC i outT bT cT vb σ0 (union (assoc mb crdB cellsB) (assoc mc crdC cellsC)) σ3 := by
  obtain ⟨o1, pb, pc, hist1, e1, r1, hpb, hpc, hex, hM1, hinv1, hrel, hcnt⟩ := loop1_runsC (ofRat := ofRat) N ho hb hc
    pre hsum hroom hfB hfC hfS bcb ccb hblkB hblkC fuel σ hfuel hM hP
  have hU := union_length (assoc mb crdB cellsB) (assoc mc crdC cellsC)
  simp only [assoc_length] at hU
  have hrest := union_length ((assoc mb crdB cellsB).drop pb) ((assoc mc crdC cellsC).drop pc)
  simp only [List.length_drop, assoc_length] at hrest
  have hrelL := congrArg List.length hrel
  simp only [List.length_append] at hrelL
  -- what is left to merge is the concatenation of the two rests (one of them is empty)
  have hcat : union ((assoc mb crdB cellsB).drop pb) ((assoc mc crdC cellsC).drop pc) =
      (assoc mb crdB cellsB).drop pb ++ (assoc mc crdC cellsC).drop pc := by
    rcases hex with rfl | rfl
    · rw [assoc_drop_all]; simp
    · rw [assoc_drop_all]; simp
  have hcatL := congrArg List.length hcat
  simp only [List.length_append, List.length_drop, assoc_length] at hcatL
  -- tail loop of b
  obtain ⟨o2, e2, r2, it2, hM2, hinv2, hfr2⟩ := tail_loop_runsC (ofRat := ofRat) (t := bT) (crdT := crdB) N (.inl rfl)
    (tailStep_bC N ho hb hc pre) hfB bcb hblkB pb hpb hist1 (by omega) (by omega) fuel o1.st (by omega)
    (mergeInv_fst hM1) hinv1
  -- the cursor of c after the tail loop of b
  obtain ⟨m1, m2, m3, m4⟩ := cur_namesB (c := (⟨inLeaf cT, ccb, crdC, pc, mc⟩ : Cur)) (bT := cT) rfl
  have hnw : ∀ y, y ∈ [layerPointer cT.id 0, sparseEndName cT.id 0, crdName cT.name 0, valueFromCrd cT.id 0] →
      lookupVar o2.st.vars y = lookupVar o1.st.vars y := by
    intro y hy
    simp only [List.mem_cons, List.not_mem_nil, or_false] at hy
    apply hfr2
    · simp only [midWC, List.mem_cons, List.not_mem_nil, or_false, not_or]
      rcases hy with rfl | rfl | rfl | rfl <;> (and_intros <;> snm N)
    · rcases hy with rfl | rfl | rfl | rfl <;> snm N
    · rcases hy with rfl | rfl | rfl | rfl <;> snm N
    · rcases hy with rfl | rfl | rfl | rfl <;> snm N
  have hcur1 := hM1.cur ⟨inLeaf cT, ccb, crdC, pc, mc⟩ (by simp)
  have hM2' : MergeInv o2.st [⟨inLeaf cT, ccb, crdC, pc, mc⟩] i := by
    refine ⟨fun c hc' => ?_, fun c hc' => ?_, hM2.idx⟩
    · simp only [List.mem_cons, List.not_mem_nil, or_false] at hc'
      subst hc'
      refine hcur1.congr (by rw [m3]; exact hnw _ (by simp)) (by rw [m1]; exact hnw _ (by simp))
        (by rw [m2]; exact hnw _ (by simp)) ?_
      show o2.st.heap[ccb]? = o1.st.heap[ccb]?
      rw [hinv2.old ccb hblkC, hinv1.old ccb hblkC]
    · simp only [List.mem_cons, List.not_mem_nil, or_false] at hc'
      subst hc'
      exact (hM1.val _ (by simp)).congr (by rw [m4]; exact hnw _ (by simp))
  -- tail loop of c
  obtain ⟨o3, e3, r3, it3, _, hinv3, _⟩ := tail_loop_runsC (ofRat := ofRat) (t := cT) (crdT := crdC) N (.inr rfl)
    (tailStep_cC N ho hb hc pre) hfC ccb hblkC pc hpc (hist1 ++ (assoc mb crdB cellsB).drop pb)
    (by simp only [List.length_append, List.length_drop, assoc_length]; omega)
    (by simp only [List.length_append, List.length_drop, assoc_length]; omega) fuel o2.st (by omega)
    hM2' hinv2
  have hfinal : hist1 ++ (assoc mb crdB cellsB).drop pb ++ (assoc mc crdC cellsC).drop pc =
      union (assoc mb crdB cellsB) (assoc mc crdC cellsC) := by
    rw [List.append_assoc, ← hcat]; exact hrel
  rw [hfinal] at hinv3
  refine ⟨o3.st, o1.iters + (o2.iters + (o3.iters + 0)), ?_, by omega, by omega, hinv3⟩
  exact RunsLI.cons ⟨o1, e1, r1, rfl, rfl⟩ (RunsLI.cons ⟨o2, e2, r2, rfl, rfl⟩
    (RunsLI.cons ⟨o3, e3, r3, rfl, rfl⟩ (RunsLI.nil _ _)))

end

end TV.Spadd
