import TensoraVerif.Lemmas.AsmCmp2SpaddCmpLoop
import TensoraVerif.Lemmas.SpaddTail

/-!
C04 for the element-wise sum of two sparse vectors (`Spadd` class), compute chain, part 3: the two TAIL loops of
the COMPUTING kernel (one leaf each), generic in the operand `t ∈ {b, c}` (copy of `Spadd.tail_loop_runs`).
-/
namespace TV.Spadd
open TV.IR TV.Gen TV.Graph TV.Growth TV.Merge
open TV.Sparse1 (isSp isSp_iff outLeaf inLeaf termBlock)
open TV.Spmul (KNames LoopPreC InvC touchedC env assoc assoc_drop_lt assoc_drop_all assoc_length
  cur_namesB CurStable MidOKc merge_loop_cursor_ghost)
open TV.AsmCmp (branchBodyC outInitC midWC)
set_option linter.unusedSectionVars false
variable {F : Type} [FloatOps F]

/-- the ghost predicate of a tail loop over the operand `t` (`m` stored entries `crdT`/`cellsT`), indexed by its
cursor record: the loop invariant holds for a history `hist` with `hist ++ (t from p on) = tot`, and the
variables other than the output's (`midW`) and the loop's own are those of the state `σs` at loop entry -/
def PTC (i : String) (outT bT cT t : TensorId) (m : Nat) (crdT : Nat → Int) (cellsT : Nat → F)
    (tot : List (Int × F)) (vb : Nat) (σ0 σs : State F) (cs : List Cur) (σ : State F) : Prop :=
  ∃ p hist, cs.map Cur.p = [p] ∧
    InvC i outT bT cT vb σ0 hist σ ∧
    hist ++ (assoc m crdT cellsT).drop p = tot ∧
    ∀ y, y ∉ midWC outT → y ≠ i → y ≠ layerPointer t.id 0 → y ≠ valueFromCrd t.id 0 →
      lookupVar σ.vars y = lookupVar σs.vars y

section
variable {ofRat : Rat → F} {i : String} {outT bT cT : TensorId} {mb mc bvb cvb : Nat}
  {cellsB cellsC : Nat → F} {rr vb : Nat} {σ0 : State F}

/-- the body step of a tail loop, as a hypothesis (instances: `tail_step_b`, `tail_step_c`) -/
def TailStepC (ofRat : Rat → F) (i : String) (outT bT cT t : TensorId) (m : Nat) (cellsT : Nat → F)
    (rr vb : Nat) (σ0 : State F) : Prop :=
  ∀ (fuel : Nat) (σ : State F) (hist : List (Int × F))
    (q : Nat) (xt x : Int), q < m → InvC i outT bT cT vb σ0 hist σ →
    IntVar σ (layerPointer t.id 0) q → IntVar σ (valueFromCrd t.id 0) xt → IntVar σ i x →
    -2147483648 ≤ xt → xt < 2147483648 → -2147483648 ≤ x → x < 2147483648 →
    (xt = x → hist.length < 1073741824) → (xt = x → hist.length < rr) → (xt = x → FloatOps.finite (cellsT q) = true) →
    ∃ σ', RunsL fuel [tailStmtC ofRat i outT t] σ σ' ∧
      InvC i outT bT cT vb σ0 (if xt = x then hist ++ [(x, cellsT q)] else hist) σ' ∧
      (∀ y, y ∉ midWC outT → lookupVar σ'.vars y = lookupVar σ.vars y) ∧
      (∀ k, k ≠ vb → σ'.heap[k]? = σ.heap[k]?)

theorem tailStep_bC (N : KNames i outT bT cT) (ho : isSp i outT = true) (hb : isSp i bT = true)
    (hc : isSp i cT = true) (pre : LoopPreC outT bT cT mb mc bvb cvb cellsB cellsC rr vb σ0) :
    TailStepC ofRat i outT bT cT bT mb cellsB rr vb σ0 :=
  fun fuel σ hist q xt x hq hinv hp hv hi h0 h1 h2 h3 hlen hroom hfin =>
    tail_step_bC N ho hb hc pre fuel σ hist q xt x hq hinv hp hv hi h0 h1 h2 h3 hlen hroom hfin

theorem tailStep_cC (N : KNames i outT bT cT) (ho : isSp i outT = true) (hb : isSp i bT = true)
    (hc : isSp i cT = true) (pre : LoopPreC outT bT cT mb mc bvb cvb cellsB cellsC rr vb σ0) :
    TailStepC ofRat i outT bT cT cT mc cellsC rr vb σ0 :=
  fun fuel σ hist q xt x hq hinv hp hv hi h0 h1 h2 h3 hlen hroom hfin =>
    tail_step_cC N ho hb hc pre fuel σ hist q xt x hq hinv hp hv hi h0 h1 h2 h3 hlen hroom hfin

variable {t : TensorId} {m : Nat} {crdT : Nat → Int} {cellsT : Nat → F} {tot : List (Int × F)} {σs : State F}

/-- the names of a tail loop are not written by its body -/
theorem tail_namesC (N : KNames i outT bT cT) (ht : t = bT ∨ t = cT) :
    ∀ y ∈ [i, layerPointer t.id 0, sparseEndName t.id 0, crdName t.name 0, valueFromCrd t.id 0],
      y ∉ midWC outT := by
  intro y hy
  simp only [List.mem_cons, List.not_mem_nil, or_false] at hy
  simp only [midWC, List.mem_cons, List.not_mem_nil, or_false, not_or]
  rcases ht with rfl | rfl <;> rcases hy with rfl | rfl | rfl | rfl | rfl <;> (and_intros <;> snm N)

theorem curStableTC (N : KNames i outT bT cT) (ht : t = bT ∨ t = cT) {c0 : Cur} (hc0 : c0.leaf = inLeaf t) :
    CurStable (PTC i outT bT cT t m crdT cellsT tot vb σ0 σs) [c0] i := by
  intro cs σ σ' hreach ⟨p, hist, hps, h, hrel, hfr⟩ hh htn hv
  obtain ⟨c, rfl, l1, _⟩ := Sparse1.reach_single hreach
  obtain ⟨n1, n2, n3, n4⟩ := cur_namesB (l1.trans hc0)
  have hv' : ∀ y, y ≠ i → y ≠ layerPointer t.id 0 → y ≠ valueFromCrd t.id 0 →
      lookupVar σ'.vars y = lookupVar σ.vars y := by
    intro y h1 h2 h3
    apply hv
    simp only [writtenNames, List.map_cons, List.map_nil, List.mem_cons, List.mem_append, List.not_mem_nil,
      or_false, n1, n4, not_or]
    exact ⟨h1, h2, h3⟩
  refine ⟨p, hist, hps, inv_stableC N h hh htn ?_, hrel, ?_⟩
  · intro y h1 h2 h3 h4 h5
    rcases ht with rfl | rfl
    · exact hv' y h1 h2 h3
    · exact hv' y h1 h4 h5
  · intro y h0 h1 h2 h3
    rw [hv' y h1 h2 h3]; exact hfr y h0 h1 h2 h3

theorem midOKcTC (N : KNames i outT bT cT) (ht : t = bT ∨ t = cT)
    (hstep : TailStepC ofRat i outT bT cT t m cellsT rr vb σ0)
    (hfin : ∀ q, q < m → FloatOps.finite (cellsT q) = true) (htot : tot.length ≤ 1073741824) (htotr : tot.length ≤ rr)
    (c0 : Cur) (hc0 : c0.leaf = inLeaf t) (hcrd : c0.crd = crdT) (hce : c0.e = m)
    (hblk : c0.blk ≠ vb) :
    MidOKc 0 0 (PTC i outT bT cT t m crdT cellsT tot vb σ0 σs) [c0] i [tailStmtC ofRat i outT t] := by
  intro fuel σ cs _ hreach hact hinvM hval hidx ⟨p, hist, hps, hinv, hrel, hfr⟩
  obtain ⟨c, rfl, hc, hcb, hcc, hcee, _⟩ := Sparse1.reach_single hreach
  obtain ⟨n1, n2, n3, n4⟩ := cur_namesB (hc.trans hc0)
  simp only [List.map_cons, List.map_nil, List.cons.injEq, and_true] at hps
  subst hps
  have hcm : c ∈ [c] := List.mem_cons_self
  have hactc : c.p < c.e := hact c hcm
  have hq : c.p < m := by rw [← hce, ← hcee]; exact hactc
  have hcur := hinvM.cur c hcm
  have hhere : c.here = crdT c.p := by rw [← hcrd, ← hcc]; rfl
  obtain ⟨r0, r1⟩ := hcur.rng c.p (Nat.le_refl _) hactc
  rw [hcc, hcrd] at r0 r1
  have hlenH : hist.length < 1073741824 ∧ hist.length < rr := by
    have h1 := congrArg List.length hrel
    simp only [List.length_append, List.length_drop, assoc_length] at h1
    omega
  obtain ⟨σ', ⟨o, eo, ro, so⟩, hinv', fvars, fheap⟩ := hstep fuel σ hist c.p
    (crdT c.p) (crdT c.p) hq hinv (by rw [← n1]; exact hcur.ptrv)
    (by rw [← n4, ← hhere]; exact hval c hcm)
    (by rw [← hhere, ← curMin_single]; exact hidx) r0 r1 r0 r1 (fun _ => hlenH.1) (fun _ => hlenH.2) (fun _ => hfin _ hq)
  subst so
  rw [if_pos rfl] at hinv'
  have hnm := tail_namesC N ht
  refine ⟨o, eo, ro, ?_, ?_, ?_, ?_⟩
  · rw [Sparse1.execL_noLoop_iters fuel _ σ (noLoop_tailStmtC ofRat i outT t) o eo]; exact Nat.le_refl _
  · intro x hx
    apply fvars
    apply hnm
    simpa only [curNames, List.map_cons, List.map_nil, List.mem_cons, List.mem_append, List.not_mem_nil,
      or_false, n1, n2, n3, n4, List.cons_append, List.nil_append] using hx
  · intro d hd
    simp only [List.mem_cons, List.not_mem_nil, or_false] at hd
    subst hd
    exact fheap d.blk (by rw [hcb]; exact hblk)
  · refine ⟨(c.adv (curMin [c])).p, _, rfl, hinv', ?_, ?_⟩
    · rw [curMin_single, adv_p_of_eq rfl, List.append_assoc]
      rw [assoc_drop_lt crdT cellsT hq] at hrel
      exact hrel
    · intro y h0 h1 h2 h3
      rw [fvars y h0]; exact hfr y h0 h1 h2 h3

/-- **(b2) A tail loop.** From a state satisfying the merge invariant for the leaf of `t` (cursor `p0 ≤ m`, end
`m`) and the loop invariant for a history `hist0` (with `|hist0| + (m - p0) ≤ 2^30`), the tail loop runs without
error with any fuel `≥ (m - p0) + 1`, performs exactly `m - p0` iterations, and ends with the cursor at `m` and
the loop invariant for the history `hist0 ++ [(crd p0, cells p0), …, (crd (m-1), cells (m-1))]`; the variables
other than the output's, `i`, `p_t`, `i_t` are unchanged. -/
theorem tail_loop_runsC (N : KNames i outT bT cT) (ht : t = bT ∨ t = cT)
    (hstep : TailStepC ofRat i outT bT cT t m cellsT rr vb σ0)
    (hfin : ∀ q, q < m → FloatOps.finite (cellsT q) = true)
    (tcb : Nat) (hblk : tcb ≠ vb)
    (p0 : Nat) (hp0 : p0 ≤ m) (hist0 : List (Int × F)) (hlen : hist0.length + (m - p0) ≤ 1073741824)
    (hroom : hist0.length + (m - p0) ≤ rr)
    (fuel : Nat) (σ : State F) (hfuel : (m - p0) + 1 ≤ fuel)
    (hM : MergeInv σ [⟨inLeaf t, tcb, crdT, p0, m⟩] i)
    (hI : InvC i outT bT cT vb σ0 hist0 σ) :
    ∃ o, exec fuel (mergeLoopL [inLeaf t] i [tailStmtC ofRat i outT t]) σ = .ok o ∧ o.ret = none ∧
      o.iters = m - p0 ∧ MergeInv o.st [⟨inLeaf t, tcb, crdT, m, m⟩] i ∧
      InvC i outT bT cT vb σ0 (hist0 ++ (assoc m crdT cellsT).drop p0) o.st ∧
      ∀ y, y ∉ midWC outT → y ≠ i → y ≠ layerPointer t.id 0 → y ≠ valueFromCrd t.id 0 →
        lookupVar o.st.vars y = lookupVar σ.vars y := by
  let c0 : Cur := ⟨inLeaf t, tcb, crdT, p0, m⟩
  have hnames : NamesOK [c0] i := merge_names_generated [c0] i N.iu (by simp)
  have hmeas : curMeasure [c0] = m - p0 := by simp [curMeasure, c0]
  have htot : (hist0 ++ (assoc m crdT cellsT).drop p0).length ≤ 1073741824 := by
    simp only [List.length_append, List.length_drop, assoc_length]; exact hlen
  have htotr : (hist0 ++ (assoc m crdT cellsT).drop p0).length ≤ rr := by
    simp only [List.length_append, List.length_drop, assoc_length]; exact hroom
  obtain ⟨o, eo, ro, inv, _, _, _, lo, hi, p, hist, hps, hinvF, hrel, hfr⟩ :=
    merge_loop_cursor_ghost (B := 0) (K := 0)
      (P := PTC i outT bT cT t m crdT cellsT (hist0 ++ (assoc m crdT cellsT).drop p0) vb σ0 σ) [c0] i
      [tailStmtC ofRat i outT t] fuel σ (by simp) hnames hM
      ⟨p0, hist0, rfl, hI, rfl, fun _ _ _ _ _ => rfl⟩
      (curStableTC N ht rfl)
      (midOKcTC N ht hstep hfin htot htotr c0 rfl rfl rfl hblk)
      (by rw [hmeas]; omega)
  have hle : c0.p ≤ c0.e := hp0
  rw [mergeFinal_single c0 hle] at inv hps
  rw [mergeTrace_single_length c0 hle] at lo hi
  simp only [List.map_cons, List.map_nil, List.cons.injEq, and_true] at hps
  simp only [Nat.zero_add, Nat.mul_one] at hi
  refine ⟨o, eo, ro, ?_, inv, ?_, hfr⟩
  · show o.iters = c0.e - c0.p
    omega
  · have hp : p = m := hps.symm
    rw [hp, assoc_drop_all, List.append_nil] at hrel
    rw [← hrel]; exact hinvF

end

end TV.Spadd
