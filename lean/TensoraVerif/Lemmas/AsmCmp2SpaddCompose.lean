import TensoraVerif.Lemmas.AsmCmp2SpaddPost
import TensoraVerif.Lemmas.AsmCmp2SpmulCompose
import TensoraVerif.Lemmas.SpaddPure

/-!
C04 for the element-wise sum of two sparse vectors, part 6: composing kernel calls (`AsmCmp.nextCall`).
The state predicates of the class are those of the product class (`Lemmas/AsmCmp2SpaddPost.lean`), so
`initC_after_assemble` (the state after the assembling kernel is a valid initial state of the computing kernel),
`InitC.transport` (`InitC` survives a call of the computing kernel and a change of the input VALUES) and
`InitC.int_blocks_ne` are literally those of `Lemmas/AsmCmp2SpmulCompose.lean`; `initC_after_assemble` is
re-exported. New here: `union_coords_congr`, `union_assoc_coords`, `union_assoc_length` — the coordinates (hence
the length) of the union do not depend on the values.
-/
namespace TV.Spadd
open TV.IR TV.Gen TV.Graph TV.Growth TV.Merge TV.Dense1
open TV.Spmul (assoc)
open TV.AsmCmp (nextCall)
set_option linter.unusedSectionVars false
variable {F : Type} [FloatOps F]

export TV.Spmul (initC_after_assemble)

/-- the coordinates of the union only depend on the coordinates of the operands -/
theorem union_coords_congr (l1 l2 : List (Int × F)) : ∀ (l1' l2' : List (Int × F)),
    l1.map (·.1) = l1'.map (·.1) → l2.map (·.1) = l2'.map (·.1) →
    (union l1 l2).map (·.1) = (union l1' l2').map (·.1) := by
  refine Spmul.intersect_induct (motive := fun l1 l2 => ∀ (l1' l2' : List (Int × F)),
    l1.map (·.1) = l1'.map (·.1) → l2.map (·.1) = l2'.map (·.1) →
    (union l1 l2).map (·.1) = (union l1' l2').map (·.1)) ?_ ?_ ?_ ?_ ?_ l1 l2
  · intro l l1' l2' h1 h2
    cases l1' with
    | nil => simpa using h2
    | cons p xs => simp at h1
  · intro l l1' l2' h1 h2
    cases l2' with
    | nil => simpa using h1
    | cons p xs => simp at h2
  · intro x u xs v ys ih l1' l2' h1 h2
    cases l1' with
    | nil => simp at h1
    | cons p xs' =>
      cases l2' with
      | nil => simp at h2
      | cons q ys' =>
        obtain ⟨x', u'⟩ := p
        obtain ⟨y', v'⟩ := q
        simp only [List.map_cons, List.cons.injEq] at h1 h2
        obtain ⟨e1, h1⟩ := h1
        obtain ⟨e2, h2⟩ := h2
        subst e1 e2
        rw [union_eq, union_eq]
        simp [ih _ _ h1 h2]
  · intro x u xs y v ys hlt ih l1' l2' h1 h2
    cases l1' with
    | nil => simp at h1
    | cons p xs' =>
      cases l2' with
      | nil => simp at h2
      | cons q ys' =>
        obtain ⟨x', u'⟩ := p
        obtain ⟨y', v'⟩ := q
        simp only [List.map_cons, List.cons.injEq] at h1 h2
        obtain ⟨e1, h1⟩ := h1
        obtain ⟨e2, h2⟩ := h2
        subst e1 e2
        rw [union_lt hlt, union_lt hlt]
        have := ih xs' ((y, v') :: ys') h1 (by simp [h2])
        simp [this]
  · intro x u xs y v ys hgt ih l1' l2' h1 h2
    cases l1' with
    | nil => simp at h1
    | cons p xs' =>
      cases l2' with
      | nil => simp at h2
      | cons q ys' =>
        obtain ⟨x', u'⟩ := p
        obtain ⟨y', v'⟩ := q
        simp only [List.map_cons, List.cons.injEq] at h1 h2
        obtain ⟨e1, h1⟩ := h1
        obtain ⟨e2, h2⟩ := h2
        subst e1 e2
        rw [union_gt hgt, union_gt hgt]
        have := ih ((x, u') :: xs') ys' (by simp [h1]) h2
        simp [this]

/-- the coordinates of the union of two stored vectors do not depend on the stored values -/
theorem union_assoc_coords (mb mc : Nat) (crdB crdC : Nat → Int) (cellsB cellsC cellsB' cellsC' : Nat → F) :
    (union (assoc mb crdB cellsB) (assoc mc crdC cellsC)).map (·.1) =
      (union (assoc mb crdB cellsB') (assoc mc crdC cellsC')).map (·.1) :=
  union_coords_congr _ _ _ _ (by simp [assoc]) (by simp [assoc])

/-- the number of stored entries of the sum does not depend on the stored values -/
theorem union_assoc_length (mb mc : Nat) (crdB crdC : Nat → Int) (cellsB cellsC cellsB' cellsC' : Nat → F) :
    (union (assoc mb crdB cellsB) (assoc mc crdC cellsC)).length =
      (union (assoc mb crdB cellsB') (assoc mc crdC cellsC')).length := by
  have := congrArg List.length (union_assoc_coords mb mc crdB crdC cellsB cellsC cellsB' cellsC')
  simpa using this

end TV.Spadd
