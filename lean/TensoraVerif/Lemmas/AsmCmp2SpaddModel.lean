import TensoraVerif.Lemmas.AsmCmpModel
import TensoraVerif.Lemmas.SpaddGenerate

/-!
C04 for the element-wise sum of two sparse vectors (`Spadd` class), part 1: what `lower` / `generateIr`
emit for the kinds `.assemble` and `.compute`, written out. Three loops (merge loop with the three exclusive
branches both / only `b` / only `c`, tail loop of `b`, tail loop of `c`); every terminal gets the A / C treatment:

* assemble: as `evaluate`, except that every terminal block is only `written = true;` (`AsmCmp.branchBodyA`);
* compute: no allocation check, no `crd`/`pos` assembly, `int p_a = 0;` as only output initialisation, an EMPTY
  "Assembling output tensor" block (`AsmCmp.branchBodyC` for the expressions `b + c`, `b`, `c`).
-/
namespace TV.Spadd
open TV.IR TV.Gen TV.Graph TV.Merge
open TV.Sparse1 (isSp isSp_iff outLeaf inLeaf sparseFormats unpackStmts outInit cleanupLines)
open TV.Spmul (isClass isClass_iff)
open TV.AsmCmp (branchBodyA branchBodyC termBlockA outInitC)
set_option linter.unusedSectionVars false
variable {F : Type} [FloatOps F]

/-- the three exclusive branches of the merge loop (assemble): in each, `vals allocation; bool written = false;
{ written = true; } if (written) { crd assembly; p_a++ }` -/
def midStmtA (i : String) (outT bT cT : TensorId) : Stmt F :=
  .branch (Spmul.bothCond i bT cT) (.block (branchBodyA outT) none)
    (.branch (oneCond i bT) (.block (branchBodyA outT) none)
      (.branch (oneCond i cT) (.block (branchBodyA outT) none) (.block [] none)))

/-- the statement between `min` and the increment of a tail loop (assemble) -/
def tailStmtA (i : String) (outT t : TensorId) : Stmt F := AsmCmp.midStmtA i outT t

/-- the lines of the "Iteration over i" block of the assembling kernel -/
def loopLinesA (i : String) (outT bT cT : TensorId) : List (Stmt F) :=
  (writeSparseInit (inLeaf bT)).lines ++ (writeSparseInit (inLeaf cT)).lines ++
  [mergeLoopL [inLeaf bT, inLeaf cT] i [midStmtA i outT bT cT],
   mergeLoopL [inLeaf bT] i [tailStmtA i outT bT],
   mergeLoopL [inLeaf cT] i [tailStmtA i outT cT],
   (writePosAssembly (outLeaf outT)).finalize]

/-- the three exclusive branches of the merge loop (compute): in each, `bool written = false; { written = true;
a_vals[p_a] = <e>; } if (written) { p_a++ }` with `<e>` = `b + c`, `b`, `c` -/
def midStmtC (ofRat : Rat → F) (i : String) (outT bT cT : TensorId) : Stmt F :=
  .branch (Spmul.bothCond i bT cT) (.block (branchBodyC ofRat outT (addE bT cT)) none)
    (.branch (oneCond i bT) (.block (branchBodyC ofRat outT (.tensor bT)) none)
      (.branch (oneCond i cT) (.block (branchBodyC ofRat outT (.tensor cT)) none) (.block [] none)))

/-- the statement between `min` and the increment of a tail loop (compute) -/
def tailStmtC (ofRat : Rat → F) (i : String) (outT t : TensorId) : Stmt F :=
  AsmCmp.midStmtC ofRat i outT t (.tensor t)

/-- the lines of the "Iteration over i" block of the computing kernel -/
def loopLinesC (ofRat : Rat → F) (i : String) (outT bT cT : TensorId) : List (Stmt F) :=
  (writeSparseInit (inLeaf bT)).lines ++ (writeSparseInit (inLeaf cT)).lines ++
  [mergeLoopL [inLeaf bT, inLeaf cT] i [midStmtC ofRat i outT bT cT],
   mergeLoopL [inLeaf bT] i [tailStmtC ofRat i outT bT],
   mergeLoopL [inLeaf cT] i [tailStmtC ofRat i outT cT]]

/-- the statements of the `assemble` kernel of the class, before `return 0` -/
def kernelStmtsA (cap : Option Int) (formats : Formats) (i : String) (outT bT cT : TensorId) :
    List (Stmt F) :=
  [.block [declAssignE (dimName i) .int (.idx (.attr (.var outT.name) "dimensions") (.intLit 0))]
      (some "Extract dimensions"),
   .block (formats.flatMap fun f => unpackStmts f.1) (some "Unpack tensors"),
   .block (outInit cap outT) (some "Output initialization"),
   .block (loopLinesA i outT bT cT) (some ("*** Iteration over " ++ i ++ " ***")),
   .block (cleanupLines outT) (some ("Assembling output tensor " ++ outT.name))]

/-- the `assemble` kernel of the class -/
def kernelA (cap : Option Int) (formats : Formats) (i : String) (outT bT cT : TensorId) : Func F :=
  ⟨"assemble", formats.map fun f => (f.1, .ptr .tensor), .int,
    .block (kernelStmtsA cap formats i outT bT cT ++ [.ret (.intLit 0)]) none⟩

/-- the statements of the `compute` kernel of the class, before `return 0` -/
def kernelStmtsC (ofRat : Rat → F) (formats : Formats) (i : String) (outT bT cT : TensorId) :
    List (Stmt F) :=
  [.block [declAssignE (dimName i) .int (.idx (.attr (.var outT.name) "dimensions") (.intLit 0))]
      (some "Extract dimensions"),
   .block (formats.flatMap fun f => unpackStmts f.1) (some "Unpack tensors"),
   .block (outInitC outT) (some "Output initialization"),
   .block (loopLinesC ofRat i outT bT cT) (some ("*** Iteration over " ++ i ++ " ***")),
   .block [] (some ("Assembling output tensor " ++ outT.name))]

/-- the `compute` kernel of the class -/
def kernelC (ofRat : Rat → F) (formats : Formats) (i : String) (outT bT cT : TensorId) : Func F :=
  ⟨"compute", formats.map fun f => (f.1, .ptr .tensor), .int,
    .block (kernelStmtsC ofRat formats i outT bT cT ++ [.ret (.intLit 0)]) none⟩

/-- **What `lower` emits on the class for the assembling kernel.** -/
theorem lower_eqA (ofRat : Rat → F) (n : Nat) (i : String) (outT bT cT : TensorId)
    (hcl : isClass i outT bT cT = true) :
    lower ofRat (n + 2) (graph i outT bT cT) (.append outT 0) .assemble =
      .ok ⟨some ("*** Iteration over " ++ i ++ " ***"), loopLinesA i outT bT cT⟩ := by
  obtain ⟨ho, hb, hc, hne⟩ := (isClass_iff i outT bT cT).1 hcl
  have ho' := (isSp_iff i outT).1 ho
  have hctx := ctx_eq i bT cT hb hc
  have hctxB := ctx_one i bT hb
  have hctxC := ctx_one i cT hc
  have hsub := generateSubgraphs_eq i outT bT cT hb hc hne
  have hsubB := generateSubgraphs_one i outT bT hb
  have hsubC := generateSubgraphs_one i outT cT hc
  have hcd1 := compressedDims_graph i outT bT cT hb hc hne
  have hcdB := compressedDims_graphB i outT bT hb
  have hcdC := compressedDims_graphB i outT cT hc
  have hcd0 := compressedDims_zero i outT
  have hne0 : addE bT cT ≠ .int 0 := by simp [addE]
  have hneB : IdExpr.tensor bT ≠ .int 0 := by simp
  have hneC : IdExpr.tensor cT ≠ .int 0 := by simp
  unfold graph graphB zeroGraph at hsub
  unfold graphB zeroGraph at hsubB hsubC
  unfold graph at hcd1
  unfold graphB at hcdB hcdC
  unfold zeroGraph at hcd0
  unfold graph
  unfold lower
  have hsl : (Output.append outT 0).hasSparseLayer = true := by
    simp [Output.hasSparseLayer, Output.tensor, ho'.2]
  simp only [Kind.isCompute, hsl, Bool.not_true, Bool.not_false, Bool.and_false, Bool.false_and,
    Bool.false_eq_true, if_false]
  have hso : isSparseOutput (IGraph.iter i (some { tensor := outT, layer := 0 })
      (IGraph.terminal (addE bT cT))) = true := by
    simp [isSparseOutput, Leaf.mode, ho'.2]
  have hnext : ((Output.append outT 0).next (some 0) Kind.assemble : Except GenErr (Output × SB F)) =
      .ok (.append outT 1, SB.empty) := by simp [Output.next]
  have hnc : nodeContext (IGraph.iter i (some { tensor := outT, layer := 0 }) (IGraph.terminal (addE bT cT))) =
      ⟨true, [inLeaf bT, inLeaf cT], []⟩ := by
    simp [nodeContext, IGraph.context, hctx]
  have hncB : nodeContext (IGraph.iter i (some { tensor := outT, layer := 0 }) (IGraph.terminal (.tensor bT))) =
      ⟨true, [inLeaf bT], []⟩ := by
    simp [nodeContext, IGraph.context, hctxB]
  have hncC : nodeContext (IGraph.iter i (some { tensor := outT, layer := 0 }) (IGraph.terminal (.tensor cT))) =
      ⟨true, [inLeaf cT], []⟩ := by
    simp [nodeContext, IGraph.context, hctxC]
  have hlater : (IGraph.iter i (some { tensor := outT, layer := 0 })
      (IGraph.terminal (addE bT cT))).laterIndexes = [i] := by
    simp [IGraph.laterIndexes]
  have hterm := AsmCmp.lower_terminal_eqA ofRat n outT (addE bT cT) ho'.2 hne0
  have htermB := AsmCmp.lower_terminal_eqA ofRat n outT (.tensor bT) ho'.2 hneB
  have htermC := AsmCmp.lower_terminal_eqA ofRat n outT (.tensor cT) ho'.2 hneC
  have hmode : ({ tensor := outT, layer := 0 } : Leaf).mode = Mode.compressed := by simp [Leaf.mode, ho'.2]
  simp only [hso, hmode, Option.map_some, hnext, hsub, hsubB, hsubC, hnc, hncB, hncC, hlater, hterm, htermB, htermC,
    hcd1, hcdB, hcdC, hcd0,
    Bool.or_true, Bool.true_and, Bool.and_self, if_true,
    List.foldlM_cons, List.foldlM_nil, bind, Except.bind, pure, Except.pure,
    List.isEmpty_nil, List.isEmpty_cons, Bool.not_true, Bool.not_false, Option.isNone_some, Bool.false_eq_true,
    if_false, List.foldl_nil, List.foldl_cons,
    List.map_nil, List.map_cons, List.nil_append, Kind.isAssemble]
  rw [Sparse1.append_commented _ _ _ (Sparse1.writePosAllocation_comment _),
    Sparse1.append_commented _ (writeCrdAssembly _) "crd assembly" rfl,
    Sparse1.append_commented _ (writePosAssembly _) "pos assembly" rfl,
    Sparse1.append_plain _ (writeSparseInit (inLeaf bT)) rfl,
    Sparse1.append_plain _ (writeSparseInit (inLeaf cT)) rfl]
  simp [SB.mk', SB.append, SB.empty, SB.add, SB.loop, SB.branch, SB.finalize, branchJoin, andJoin, joinWith,
    minJoin, loopLinesA, midStmtA, tailStmtA, AsmCmp.midStmtA, oneCond, Spmul.bothCond, branchBodyA, termBlockA,
    mergeLoopL, mergeBodyL, mergeCond,
    mergeLoads, mergeMin, mergeIncs, inLeaf, outLeaf, Leaf.ptr, Sparse1.writePosAllocation_comment]
  exact ⟨rfl, rfl⟩

/-- **What `lower` emits on the class for the computing kernel.** -/
theorem lower_eqC (ofRat : Rat → F) (n : Nat) (i : String) (outT bT cT : TensorId)
    (hcl : isClass i outT bT cT = true) :
    lower ofRat (n + 2) (graph i outT bT cT) (.append outT 0) .compute =
      .ok ⟨some ("*** Iteration over " ++ i ++ " ***"), loopLinesC ofRat i outT bT cT⟩ := by
  obtain ⟨ho, hb, hc, hne⟩ := (isClass_iff i outT bT cT).1 hcl
  have ho' := (isSp_iff i outT).1 ho
  have hctx := ctx_eq i bT cT hb hc
  have hctxB := ctx_one i bT hb
  have hctxC := ctx_one i cT hc
  have hsub := generateSubgraphs_eq i outT bT cT hb hc hne
  have hsubB := generateSubgraphs_one i outT bT hb
  have hsubC := generateSubgraphs_one i outT cT hc
  have hcd1 := compressedDims_graph i outT bT cT hb hc hne
  have hcdB := compressedDims_graphB i outT bT hb
  have hcdC := compressedDims_graphB i outT cT hc
  have hcd0 := compressedDims_zero i outT
  have hne0 : addE bT cT ≠ .int 0 := by simp [addE]
  have hneB : IdExpr.tensor bT ≠ .int 0 := by simp
  have hneC : IdExpr.tensor cT ≠ .int 0 := by simp
  unfold graph graphB zeroGraph at hsub
  unfold graphB zeroGraph at hsubB hsubC
  unfold graph at hcd1
  unfold graphB at hcdB hcdC
  unfold zeroGraph at hcd0
  unfold graph
  unfold lower
  simp only [Kind.isCompute, Bool.not_true, Bool.false_and, Bool.false_eq_true, if_false]
  have hso : isSparseOutput (IGraph.iter i (some { tensor := outT, layer := 0 })
      (IGraph.terminal (addE bT cT))) = true := by
    simp [isSparseOutput, Leaf.mode, ho'.2]
  have hnext : ((Output.append outT 0).next (some 0) Kind.compute : Except GenErr (Output × SB F)) =
      .ok (.append outT 1, SB.empty) := by simp [Output.next]
  have hnc : nodeContext (IGraph.iter i (some { tensor := outT, layer := 0 }) (IGraph.terminal (addE bT cT))) =
      ⟨true, [inLeaf bT, inLeaf cT], []⟩ := by
    simp [nodeContext, IGraph.context, hctx]
  have hncB : nodeContext (IGraph.iter i (some { tensor := outT, layer := 0 }) (IGraph.terminal (.tensor bT))) =
      ⟨true, [inLeaf bT], []⟩ := by
    simp [nodeContext, IGraph.context, hctxB]
  have hncC : nodeContext (IGraph.iter i (some { tensor := outT, layer := 0 }) (IGraph.terminal (.tensor cT))) =
      ⟨true, [inLeaf cT], []⟩ := by
    simp [nodeContext, IGraph.context, hctxC]
  have hlater : (IGraph.iter i (some { tensor := outT, layer := 0 })
      (IGraph.terminal (addE bT cT))).laterIndexes = [i] := by
    simp [IGraph.laterIndexes]
  have hterm := AsmCmp.lower_terminal_eqC ofRat n outT (addE bT cT) ho'.2 (by rw [ho'.1]; rfl) hne0
  have htermB := AsmCmp.lower_terminal_eqC ofRat n outT (.tensor bT) ho'.2 (by rw [ho'.1]; rfl) hneB
  have htermC := AsmCmp.lower_terminal_eqC ofRat n outT (.tensor cT) ho'.2 (by rw [ho'.1]; rfl) hneC
  have hmode : ({ tensor := outT, layer := 0 } : Leaf).mode = Mode.compressed := by simp [Leaf.mode, ho'.2]
  simp only [hso, hmode, Option.map_some, hnext, hsub, hsubB, hsubC, hnc, hncB, hncC, hlater, hterm, htermB, htermC,
    hcd1, hcdB, hcdC, hcd0,
    Bool.or_true, Bool.true_and, Bool.and_self, if_true,
    List.foldlM_cons, List.foldlM_nil, bind, Except.bind, pure, Except.pure,
    List.isEmpty_nil, List.isEmpty_cons, Bool.not_true, Bool.not_false, Option.isNone_some, Bool.false_eq_true,
    if_false, List.foldl_nil, List.foldl_cons, Bool.false_and,
    List.map_nil, List.map_cons, List.nil_append, Kind.isAssemble]
  rw [Sparse1.append_plain _ (writeSparseInit (inLeaf bT)) rfl,
    Sparse1.append_plain _ (writeSparseInit (inLeaf cT)) rfl]
  simp [SB.mk', SB.append, SB.empty, SB.add, SB.loop, SB.branch, SB.finalize, branchJoin, andJoin, joinWith,
    minJoin, loopLinesC, midStmtC, tailStmtC, AsmCmp.midStmtC, oneCond, Spmul.bothCond, branchBodyC, Sparse1.termBlock,
    mergeLoopL, mergeBodyL, mergeCond,
    mergeLoads, mergeMin, mergeIncs, inLeaf, Leaf.ptr]

/-- **What `generateIr` produces on the class for `.assemble`.** -/
theorem generateIr_eqA (ofRat : Rat → F) (cap : Option Int) (a : Alg.DAssign) (formats : Formats)
    (i : String) (outT bT cT : TensorId)
    (hout : tensorId 0 a.tname formats a.tidx = some outT) (hname : outT.name = a.tname)
    (hcl : isClass i outT bT cT = true) (hf : sparseFormats formats = true)
    (hd : indexDimensions a = [(i, a.tname, 0)]) :
    generateIr ofRat cap a formats (graph i outT bT cT) .assemble =
      .ok (kernelA cap formats i outT bT cT) := by
  have ho' := (isSp_iff i outT).1 ((isClass_iff i outT bT cT).1 hcl).1
  have hsz : 4 * (graph i outT bT cT).size + 8 = 14 + 2 := by simp [graph, IGraph.size]
  have hu := Sparse1.unpackDecls_eq (F := F) formats hf
  unfold unpackDecls at hu
  unfold generateIr
  simp only [hout, Option.getD_some, hsz, lower_eqA ofRat 14 i outT bT cT hcl, hd,
    AsmCmp.appendDeclarations_eqA cap outT ho'.2, AsmCmp.appendCleanup_eqA outT ho'.2, hu]
  simp [bind, Except.bind, pure, Except.pure, kernelA, kernelStmtsA, SB.add, SB.append, SB.empty,
    SB.finalize, Kind.name, hname]

/-- **What `generateIr` produces on the class for `.compute`.** -/
theorem generateIr_eqC (ofRat : Rat → F) (cap : Option Int) (a : Alg.DAssign) (formats : Formats)
    (i : String) (outT bT cT : TensorId)
    (hout : tensorId 0 a.tname formats a.tidx = some outT) (hname : outT.name = a.tname)
    (hcl : isClass i outT bT cT = true) (hf : sparseFormats formats = true)
    (hd : indexDimensions a = [(i, a.tname, 0)]) :
    generateIr ofRat cap a formats (graph i outT bT cT) .compute =
      .ok (kernelC ofRat formats i outT bT cT) := by
  have ho' := (isSp_iff i outT).1 ((isClass_iff i outT bT cT).1 hcl).1
  have hsz : 4 * (graph i outT bT cT).size + 8 = 14 + 2 := by simp [graph, IGraph.size]
  have hu := Sparse1.unpackDecls_eq (F := F) formats hf
  unfold unpackDecls at hu
  unfold generateIr
  simp only [hout, Option.getD_some, hsz, lower_eqC ofRat 14 i outT bT cT hcl, hd,
    AsmCmp.appendDeclarations_eqC cap outT ho'.2, AsmCmp.appendCleanup_eqC outT, hu]
  simp [bind, Except.bind, pure, Except.pure, kernelC, kernelStmtsC, SB.add, SB.append, SB.empty,
    SB.finalize, Kind.name, hname]

end TV.Spadd
