import TensoraVerif.Lemmas.AsmCmp2SpaddModel
import TensoraVerif.Lemmas.AsmCmp2SpmulPost

/-!
C04 for the element-wise sum of two sparse vectors (`Spadd` class), part 2: the vocabulary of the machine
theorems. The kernels of the class take the same three compressed vectors as those of the product class, so the
state predicates are literally those of `Lemmas/AsmCmp2SpmulPost.lean` (as the evaluate proof of the class
re-uses `Spmul.Init`, `Spmul.KernelPost`): final state of the assembling kernel `Spmul.KernelPostA`, initial and
final state of the computing kernel `Spmul.InitC`, `Spmul.KernelPostC`. They are re-exported here under the
names `Spadd.KernelPostA`, `Spadd.InitC`, `Spadd.KernelPostC`.
-/
namespace TV.Spadd
export TV.Spmul (KernelPostA InitC KernelPostC)
end TV.Spadd
