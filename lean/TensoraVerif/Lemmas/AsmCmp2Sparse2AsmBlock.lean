import TensoraVerif.Lemmas.AsmCmp2Sparse2AsmOuterLoop

/-! C04 (assemble) for the sparse matrix copy/scale kernels: copy of `Sparse2Block.lean` for the assembling kernel
(`vals` carries no known cells). -/
namespace TV.Sparse2
open TV.IR TV.Gen TV.Graph TV.Growth TV.Merge
open TV.Dense1 (RunsI RunsLI)
set_option linter.unusedSectionVars false
variable {F : Type} [FloatOps F]

/-- **the state at the entry of the iteration block**: the kernel invariant with the five output arrays in
their initial shape (`a_0_pos = [0, ·]`, `a_1_pos = [0, …]`, nothing else stored), both output cursors `0`,
every loop-local variable undeclared or of its type -/
structure EntryA (K : Ctx F) (S : OutSt F) (σ : State F) : Prop where
  st : St K S σ
  sh : ShapeA K S 0
  pA0 : IntVar σ (K.n .pA0) 0
  pA1 : IntVar σ (K.n .pA1) 0
  scr : Scr K σ
  dpB0 : DeclOK σ (K.n .pB0)
  deB0 : DeclOK σ (K.n .eB0)
  dvB0 : DeclOK σ (K.n .vB0)
  di : DeclOK σ (K.n .i)

/-- **the contents of the five output arrays before the cleanup**: `a_0_pos = [0, R']` (`R'` = the number of
non-empty stored rows of `b`), `a_0_crd` = their coordinates, `a_1_pos` = `0` and their end positions,
`a_1_crd` / `a_vals` = all `nnz` entries -/
structure FinalA (K : Ctx F) (S : OutSt F) : Prop where
  p0 : S.cells .p0 = [.int 0, .int ((K.d.kept K.d.R).length : Int)]
  p0c : S.cap .p0 = 2
  c0 : S.cells .c0 = (K.d.outCrd0 K.d.R).map (Val.int : Int → Val F)
  p1 : S.cells .p1 = (K.d.outPos1 K.d.R).map (Val.int : Int → Val F)
  c1 : S.cells .c1 = K.crd1Cells K.d.nnz
  v : S.cells .v = []

section
variable {K : Ctx F}

/-- **the iteration block**: `R + nnz` loop iterations -/
theorem iterBlock_runsA (ok : K.OK) (fuel : Nat) (σ : State F) (S : OutSt F) (hfuel : K.d.R + K.d.nnz + 2 ≤ fuel)
    (entry : EntryA K S σ) :
    ∃ σ' S', RunsLI fuel (loopLinesA K.i K.j K.outT K.bT) σ σ' (K.d.R + K.d.nnz) ∧
      St K S' σ' ∧ FinalA K S' ∧ IntVar σ' (K.n .pA0) (K.d.kept K.d.R).length ∧
      IntVar σ' (K.n .pA1) K.d.nnz := by
  have hN := ok.names
  have hR := ok.wf.R30
  have hst := entry.st
  -- a. the outer cursors
  obtain ⟨pblk, hpb, hplive, hpty, hpc0, hpc1⟩ := ok.p0
  obtain ⟨cblk, hcb, hclive, hcty, hclen, hccells⟩ := ok.c0
  have hposOK : PosOK σ K.cur0 K.bp0 0 := by
    refine ⟨hst.env.vp0, ?_, by omega, by omega, ⟨pblk, hst.env.get hpb, hplive, hpty, ?_, ?_⟩⟩
    · simp [PrevIs, Ctx.cur0, in0]
    · simpa [Ctx.cur0] using hpc0
    · simpa [Ctx.cur0] using hpc1
  obtain ⟨oD, eD, rD, itD, curD, frD', hhD, htD⟩ := writeSparseInit_safe K.cur0 fuel σ K.bp0 0 hposOK
    hst.env.vc0 (Nat.zero_le _) (by show ((K.d.R : Nat) : Int) < 2147483648; omega)
    ⟨cblk, hst.env.get hcb, hclive, hcty, hclen, fun j _ hj => hccells j hj⟩
    (fun j _ hj => ok.wf.rng0 j hj) entry.dpB0 entry.deB0
  have frD : VFrame [K.n .pB0, K.n .eB0] σ oD.st := VFrame.of2 frD'
  have runD : RunsLI fuel (writeSparseInit (in0 K.bT)).lines σ oD.st 0 := by
    refine ⟨oD, ?_, rD, rfl, itD⟩
    have : (writeSparseInit (F := F) K.cur0.leaf).finalize =
        .block (writeSparseInit (in0 K.bT)).lines none := rfl
    rw [this, exec.eq_5] at eD
    exact eD
  have stD : St K S oD.st := hst.vstep frD (by prot_nm hN) hhD htD
  generalize oD.st = σD at *
  -- b. the loop nest
  have hM : MergeInv σD [K.cur0] K.i := by
    refine ⟨fun d hd => ?_, fun d hd => ?_, ?_⟩
    · simp only [List.mem_cons, List.not_mem_nil, or_false] at hd; subst hd; exact curD
    · simp only [List.mem_cons, List.not_mem_nil, or_false] at hd; subst hd
      exact entry.dvB0.congr (frD _ (by nmx hN))
    · exact entry.di.congr (frD _ (by nmx hN))
  have hscrD : Scr K σD :=
    ⟨entry.scr.pB1.congr (frD _ (by nmx hN)), entry.scr.eB1.congr (frD _ (by nmx hN)),
      entry.scr.vB1.congr (frD _ (by nmx hN)), entry.scr.j.congr (frD _ (by nmx hN)),
      entry.scr.w0.congr (frD _ (by nmx hN)), entry.scr.w1.congr (frD _ (by nmx hN))⟩
  obtain ⟨oE, S1, eE, rE, itE, _, stE, shE, hpA0E, hpA1E, _, _⟩ := outer_loopA ok fuel σD S hfuel stD entry.sh
    (entry.pA0.congr (frD _ (by nmx hN))) (entry.pA1.congr (frD _ (by nmx hN))) hM hscrD
  have runE : RunsI fuel (mergeLoopL [in0 K.bT] K.i [mid0A K.i K.j K.outT K.bT]) σD oE.st
      (K.d.R + K.d.nnz) := ⟨oE, eE, rE, rfl, itE⟩
  generalize oE.st = σE at *
  -- c. pos assembly of level 0
  have ap := stE.inv.arr .p0
  obtain ⟨pb0, hpb0, _, _, _, hpb0len⟩ := ap.inv.blk
  have hcap : S1.cap .p0 = 2 := shE.p0c
  have hkl := K.d.kept_length_le K.d.R
  obtain ⟨oF, eF, rF, sF, _⟩ := writePosAssembly_safe (out0 K.outT) fuel σE (S1.blk .p0) (S1.cap .p0)
    ((K.d.kept K.d.R).length : Int) 0 pb0 ap.inv hpb0 (by simp [PrevIs, out0]) (by omega)
    (by rw [hcap]; omega) hpA0E (by omega) (by omega)
  have runF : RunsI fuel (writePosAssembly (out0 K.outT)).finalize σE oF.st 0 :=
    ⟨oF, eF, rF, rfl, Sparse1.exec_noLoop_iters fuel _ σE (noLoop_writePosAssembly _) oF eF⟩
  have hcs : CellSet σE oF.st (S1.blk .p0) (S1.cells .p0).length (.int ((K.d.kept K.d.R).length : Int)) := by
    rw [sF, shE.p0]
    exact CellSet.of_set hpb0 (by rw [hcap] at hpb0len; simp; omega)
  have stF : St K (S1.set .p0 (S1.blk .p0) (S1.cap .p0)
      [.int 0, .int ((K.d.kept K.d.R).length : Int)]) oF.st := by
    refine stE.update hN .p0 ?_ (.inl rfl) (fun y _ _ => by rw [sF]) ?_ (by rw [sF]; simp) (by rw [sF])
    · have := ap.push (by rw [shE.p0, hcap]; simp) hcs (by rw [sF]) (by rw [sF])
      rw [shE.p0] at this
      exact this
    · intro k blk hk hkb
      rw [sF]
      show (σE.heap.set _ _)[k]? = _
      rw [List.getElem?_set_ne (Ne.symm hk)]; exact hkb
  have hvF : oF.st.vars = σE.vars := by rw [sF]
  generalize oF.st = σF at *
  refine ⟨σF, _, ?_, stF, ⟨by simp [OutSt.set], by simpa [OutSt.set] using hcap, ?_, ?_, ?_, ?_⟩,
    hpA0E.congr (by rw [hvF]),
    hpA1E.congr (by rw [hvF])⟩
  · have := Dense1.RunsLI.append runD (Dense1.RunsLI.cons runE (Dense1.RunsLI.cons runF (Dense1.RunsLI.nil _ _)))
    simpa [loopLinesA] using this
  · simpa [OutSt.set] using shE.c0
  · simpa [OutSt.set] using shE.p1
  · have := shE.c1; rw [ok.wf.posR] at this; simpa [OutSt.set] using this
  · have := shE.v; simpa [OutSt.set] using this

/-- **the hypotheses of the outer loop theorem are established by the first two lines of the block**: after
`int p_b_0 = b_0_pos[0]; int p_b_0_end = b_0_pos[1];` every hypothesis of `outer_loopA` holds -/
theorem outer_entryA (ok : K.OK) (fuel : Nat) (σ : State F) (S : OutSt F) (entry : EntryA K S σ) :
    ∃ σD, RunsLI fuel (writeSparseInit (in0 K.bT)).lines σ σD 0 ∧ St K S σD ∧ ShapeA K S 0 ∧
      IntVar σD (K.n .pA0) 0 ∧ IntVar σD (K.n .pA1) 0 ∧ MergeInv σD [K.cur0] K.i ∧ Scr K σD := by
  have hN := ok.names
  have hR := ok.wf.R30
  have hst := entry.st
  obtain ⟨pblk, hpb, hplive, hpty, hpc0, hpc1⟩ := ok.p0
  obtain ⟨cblk, hcb, hclive, hcty, hclen, hccells⟩ := ok.c0
  have hposOK : PosOK σ K.cur0 K.bp0 0 := by
    refine ⟨hst.env.vp0, ?_, by omega, by omega, ⟨pblk, hst.env.get hpb, hplive, hpty, ?_, ?_⟩⟩
    · simp [PrevIs, Ctx.cur0, in0]
    · simpa [Ctx.cur0] using hpc0
    · simpa [Ctx.cur0] using hpc1
  obtain ⟨oD, eD, rD, itD, curD, frD', hhD, htD⟩ := writeSparseInit_safe K.cur0 fuel σ K.bp0 0 hposOK
    hst.env.vc0 (Nat.zero_le _) (by show ((K.d.R : Nat) : Int) < 2147483648; omega)
    ⟨cblk, hst.env.get hcb, hclive, hcty, hclen, fun j _ hj => hccells j hj⟩
    (fun j _ hj => ok.wf.rng0 j hj) entry.dpB0 entry.deB0
  have frD : VFrame [K.n .pB0, K.n .eB0] σ oD.st := VFrame.of2 frD'
  have runD : RunsLI fuel (writeSparseInit (in0 K.bT)).lines σ oD.st 0 := by
    refine ⟨oD, ?_, rD, rfl, itD⟩
    have : (writeSparseInit (F := F) K.cur0.leaf).finalize =
        .block (writeSparseInit (in0 K.bT)).lines none := rfl
    rw [this, exec.eq_5] at eD
    exact eD
  refine ⟨oD.st, runD, hst.vstep frD (by prot_nm hN) hhD htD, entry.sh, entry.pA0.congr (frD _ (by nmx hN)),
    entry.pA1.congr (frD _ (by nmx hN)), ⟨fun d hd => ?_, fun d hd => ?_, ?_⟩,
    ⟨entry.scr.pB1.congr (frD _ (by nmx hN)), entry.scr.eB1.congr (frD _ (by nmx hN)),
      entry.scr.vB1.congr (frD _ (by nmx hN)), entry.scr.j.congr (frD _ (by nmx hN)),
      entry.scr.w0.congr (frD _ (by nmx hN)), entry.scr.w1.congr (frD _ (by nmx hN))⟩⟩
  · simp only [List.mem_cons, List.not_mem_nil, or_false] at hd; subst hd; exact curD
  · simp only [List.mem_cons, List.not_mem_nil, or_false] at hd; subst hd
    exact entry.dvB0.congr (frD _ (by nmx hN))
  · exact entry.di.congr (frD _ (by nmx hN))

/-- **the hypotheses of the inner loop theorem are satisfiable** (row `0`): from the state `outer_entryA`
produces, `bool written_a_0 = false; int p_b_1 = b_1_pos[p_b_0]; int p_b_1_end = b_1_pos[p_b_0 + 1];` establish
every hypothesis of `inner_loopA` for the first stored row -/
theorem inner_entry0A (ok : K.OK) (hR : 0 < K.d.R) (fuel : Nat) (σ : State F) (S : OutSt F) (entry : EntryA K S σ) :
    ∃ σ', St K S σ' ∧ S.cells .c1 = K.crd1Cells (K.d.pos1 0) ∧ S.cells .v = [] ∧
      IntVar σ' (K.n .pA1) (K.d.pos1 0) ∧ MergeInv σ' [K.cur1 0] K.j ∧ FlagVal σ' (K.n .w0) false ∧
      FlagOK σ' (K.n .w1) := by
  have hN := ok.names
  obtain ⟨σD, _, stD, shD, _, hpA1, hM, hscr⟩ := outer_entryA ok fuel σ S entry
  have hpB0 : IntVar σD (K.n .pB0) 0 := (hM.cur K.cur0 List.mem_cons_self).ptrv
  -- bool written_a_0 = false
  obtain ⟨σ2, _, hh2, ht2, ⟨rw2, hrw1, hrw2, hrw3⟩, f2'⟩ := Dense1.runsI_declAssign (fuel := fuel)
    (x := K.n .w0) (t := .bool) (e := (.boolLit false : Expr F)) (σ := σD)
    (val := .bool false) (val' := .bool false) hscr.w0 (by simp [evalE]) rfl
  have f2 : VFrame [K.n .w0] σD σ2 := VFrame.of1 f2'
  have st2 : St K S σ2 := stD.vstep f2 (by prot_nm hN) hh2 ht2
  -- the inner cursors
  have hmono := ok.wf.mono 0 hR
  have hnnz := ok.wf.nnz30
  have hle2 := ok.wf.pos_le_nnz (a := 0 + 1) (by omega)
  obtain ⟨pblk, hpb, hplive, hpty, hpcells⟩ := ok.p1
  obtain ⟨cblk, hcb, hclive, hcty, hclen, hccells⟩ := ok.c1
  have hposOK : PosOK σ2 (K.cur1 0) K.bp1 0 := by
    refine ⟨st2.env.vp1, ?_, by omega, by omega, ⟨pblk, st2.env.get hpb, hplive, hpty, ?_, ?_⟩⟩
    · exact hpB0.congr (f2 _ (by nmx hN))
    · simpa [Ctx.cur1] using hpcells 0 (by omega)
    · simpa [Ctx.cur1] using hpcells (0 + 1) (by omega)
  obtain ⟨oD, _, _, _, curD, frD', hhD, htD⟩ := writeSparseInit_safe (K.cur1 0) fuel σ2 K.bp1 0 hposOK
    st2.env.vc1 hmono (by show ((K.d.pos1 (0 + 1) : Nat) : Int) < 2147483648; omega)
    ⟨cblk, st2.env.get hcb, hclive, hcty, by show K.d.pos1 (0 + 1) ≤ _; omega,
      fun j _ hj => hccells j (by have : j < K.d.pos1 (0 + 1) := hj; omega)⟩
    (fun j _ hj => ok.wf.rng1 j (by have : j < K.d.pos1 (0 + 1) := hj; omega))
    (hscr.pB1.congr (f2 _ (by nmx hN))) (hscr.eB1.congr (f2 _ (by nmx hN)))
  have frD : VFrame [K.n .pB1, K.n .eB1] σ2 oD.st := VFrame.of2 frD'
  have f2D := f2.trans frD
  refine ⟨oD.st, st2.vstep frD (by prot_nm hN) hhD htD, shD.c1, shD.v,
    by rw [ok.wf.pos0]; exact hpA1.congr (f2D _ (by nmx hN)), ⟨fun d hd => ?_, fun d hd => ?_, ?_⟩,
    ⟨rw2, by rw [frD _ (by nmx hN)]; exact hrw1, hrw2, hrw3⟩, hscr.w1.congr (f2D _ (by nmx hN))⟩
  · simp only [List.mem_cons, List.not_mem_nil, or_false] at hd; subst hd; exact curD
  · simp only [List.mem_cons, List.not_mem_nil, or_false] at hd; subst hd
    exact hscr.vB1.congr (f2D _ (by nmx hN))
  · exact hscr.j.congr (f2D _ (by nmx hN))

end

end TV.Sparse2
