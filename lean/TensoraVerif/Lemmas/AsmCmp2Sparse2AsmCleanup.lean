import TensoraVerif.Lemmas.AsmCmp2Sparse2AsmBlock
import TensoraVerif.Lemmas.Sparse2Cleanup

/-! C04 (assemble) for the sparse matrix copy/scale kernels: the cleanup of the assembling kernel
(`cleanup_runsA`): copy of `cleanup_runs`; the `vals` block gets `nnz + 1` cells of unspecified contents. -/
namespace TV.Sparse2
open TV.IR TV.Gen TV.Graph TV.Growth TV.Merge
open TV.Dense1 (RunsI RunsLI)
set_option linter.unusedSectionVars false
variable {F : Type} [FloatOps F]

section
variable {K : Ctx F}

/-- **the cleanup** -/
theorem cleanup_runsA (ok : K.OK) {atr btr : TensorRec F} {tb : Nat} {n m : Int} {σ0 : State F}
    (init : Init K atr btr tb n m σ0) (S : OutSt F) (σF : State F) (hst : St K S σF) (hfin : FinalA K S)
    (hpA0 : IntVar σF (K.n .pA0) (K.d.kept K.d.R).length) (hpA1 : IntVar σF (K.n .pA1) K.d.nnz) (fuel : Nat) :
    ∃ σG, RunsLI fuel (cleanupLines K.outT) σF σG 0 ∧ KernelPostA K atr σG := by
  have hN := ok.names
  have hR := ok.wf.R30
  have hnnz := ok.wf.nnz30
  have hkl := K.d.kept_length_le K.d.R
  obtain ⟨R', hR'⟩ : ∃ R', R' = (K.d.kept K.d.R).length := ⟨_, rfl⟩
  rw [← hR'] at hpA0 hkl
  obtain ⟨sp0, sc0, hasl0, _, _⟩ := init.aslot0
  obtain ⟨sp1, sc1, hasl1, _, _⟩ := init.aslot1
  have hsl0 : 0 < atr.slots.length := lt_length_of_getElem? hasl0
  have hsl1 : 1 < atr.slots.length := lt_length_of_getElem? hasl1
  have hten : σF.tensors = K.tensors0 := hst.env.tensors
  have htaL : K.ta < σF.tensors.length := by rw [hten]; exact lt_length_of_getElem? init.arec
  -- the five arrays
  have a_p0 := hst.inv.arr .p0
  have a_c0 := hst.inv.arr .c0
  have a_p1 := hst.inv.arr .p1
  have a_c1 := hst.inv.arr .c1
  have a_v := hst.inv.arr .v
  obtain ⟨blk_p0, hb_p0, l_p0, o_p0, t_p0, n_p0⟩ := a_p0.inv.blk
  obtain ⟨blk_c0, hb_c0, l_c0, o_c0, t_c0, n_c0⟩ := a_c0.inv.blk
  obtain ⟨blk_p1, hb_p1, l_p1, o_p1, t_p1, n_p1⟩ := a_p1.inv.blk
  obtain ⟨blk_c1, hb_c1, l_c1, o_c1, t_c1, n_c1⟩ := a_c1.inv.blk
  obtain ⟨blk_v, hb_v, l_v, o_v, t_v, n_v⟩ := a_v.inv.blk
  have inj := hst.inv.inj
  have lt_p0 := lt_length_of_getElem? hb_p0
  have lt_c0 := lt_length_of_getElem? hb_c0
  have lt_p1 := lt_length_of_getElem? hb_p1
  have lt_c1 := lt_length_of_getElem? hb_c1
  have lt_v := lt_length_of_getElem? hb_v
  have hlen_c0 : (S.cells .c0).length = R' := by rw [hfin.c0, List.length_map, K.d.outCrd0_length, hR']
  have hlen_p1 : (S.cells .p1).length = R' + 1 := by rw [hfin.p1, List.length_map, K.d.outPos1_length, hR']
  have hlen_c1 : (S.cells .c1).length = K.d.nnz := by rw [hfin.c1, Ctx.crd1Cells_length]
  obtain ⟨L, hL⟩ : ∃ L, L = σF.heap.length := ⟨_, rfl⟩
  have pv_c0 : PtrVar σF (K.n .ac0) (S.blk .c0) := a_c0.inv.arr
  have pv_p0 : PtrVar σF (K.n .ap0) (S.blk .p0) := a_p0.inv.arr
  have pv_p1 : PtrVar σF (K.n .ap1) (S.blk .p1) := a_p1.inv.arr
  have pv_c1 : PtrVar σF (K.n .ac1) (S.blk .c1) := a_c1.inv.arr
  have pv_v : PtrVar σF (K.n .av) (S.blk .v) := a_v.inv.arr
  have havar : Cleanup.TensorVar σF (K.n .a) K.ta := hst.env.avar
  have hord0 : 0 < atr.order := by have := init.aord; omega
  have hord1 : 1 < atr.order := by have := init.aord; omega
  -- G1: a_0_crd = realloc(a_0_crd, p_a_0)
  obtain ⟨σ1, r1, p1v, f1, len1, new1, oth1, ten1⟩ := realloc_step (fuel := fuel) (ty := .int) (ety := .int)
    pv_c0 (evalE_var_int hpA0 (by omega) (by omega)) (by omega) rfl hb_c0 l_c0 o_c0 t_c0
  rw [← hL] at p1v len1 new1 oth1
  -- G2, G3: the slots of level 0
  obtain ⟨σ2, r2, hv2, hh2, ht2⟩ := slot_step (fuel := fuel) (σ := σ1) (x := K.n .a) (arr := K.n .ap0)
    (ti := K.ta) (tr := atr) (l := 0) (s := (sp0, sc0)) (j := 0) (.inl rfl) (havar.congr (f1 _ (by nmx hN)))
    (by rw [ten1, hten]; exact init.arec) init.aown hord0 (by omega) hasl0 (pv_p0.congr (f1 _ (by nmx hN)))
  simp only [if_true] at ht2
  rw [ten1] at ht2
  obtain ⟨σ3, r3, hv3, hh3, ht3⟩ := slot_step (fuel := fuel) (σ := σ2) (x := K.n .a) (arr := K.n .ac0)
    (ti := K.ta) (tr := { atr with slots := atr.slots.set 0 (some (.ptr (S.blk .p0) 0, sc0)) }) (l := 0)
    (s := (.ptr (S.blk .p0) 0, sc0)) (j := 1) (p := L) (.inr rfl)
    (havar.congr (by rw [hv2, f1 _ (by nmx hN)]))
    (by rw [ht2, List.getElem?_set_self htaL]) init.aown hord0 (by omega)
    (by simp [hsl0]) (p1v.congr (by rw [hv2]))
  simp only [show ¬ ((1 : Int) = 0) by omega, if_false] at ht3
  rw [ht2, List.set_set] at ht3
  simp only [List.set_set] at ht3
  rw [hv2] at hv3
  rw [hh2] at hh3
  have f3 : ∀ y, y ≠ K.n .ac0 → lookupVar σ3.vars y = lookupVar σF.vars y := by
    intro y hy; rw [hv3]; exact f1 y hy
  -- G4: a_1_pos = realloc(a_1_pos, p_a_0 + 1)
  have hb_p1_3 : σ3.heap[S.blk .p1]? = some blk_p1 := by
    rw [hh3, oth1 _ (inj .p1 .c0 (by decide)) (by omega)]; exact hb_p1
  have pv_p1_3 : PtrVar σ3 (K.n .ap1) (S.blk .p1) := pv_p1.congr (f3 _ (by nmx hN))
  have e4 : evalE σ3 (plus (.var (K.n .pA0)) (.intLit 1)) = .ok (.int ((R' : Int) + 1)) :=
    evalE_add (evalE_var_int (hpA0.congr (f3 _ (by nmx hN))) (by omega) (by omega))
      (evalE_intLit (by omega) (by omega)) (by omega) (by omega)
  obtain ⟨σ4, r4, p4v, f4, len4, new4, oth4, ten4⟩ := realloc_step (fuel := fuel) (σ := σ3) (ty := .int)
    (ety := .int) pv_p1_3 e4 (by omega) rfl hb_p1_3 l_p1 o_p1 t_p1
  have hl3 : σ3.heap.length = L + 1 := by rw [hh3]; exact len1
  rw [hl3] at p4v len4 new4 oth4
  -- G5: a_1_crd = realloc(a_1_crd, p_a_1)
  have hb_c1_4 : σ4.heap[S.blk .c1]? = some blk_c1 := by
    rw [oth4 _ (inj .c1 .p1 (by decide)) (by omega), hh3, oth1 _ (inj .c1 .c0 (by decide)) (by omega)]
    exact hb_c1
  have pv_c1_4 : PtrVar σ4 (K.n .ac1) (S.blk .c1) :=
    pv_c1.congr (by rw [f4 _ (by nmx hN), f3 _ (by nmx hN)])
  have e5 : evalE σ4 (.var (K.n .pA1)) = .ok (.int (K.d.nnz : Int)) :=
    evalE_var_int (hpA1.congr (by rw [f4 _ (by nmx hN), f3 _ (by nmx hN)])) (by omega) (by omega)
  obtain ⟨σ5, r5, p5v, f5, len5, new5, oth5, ten5⟩ := realloc_step (fuel := fuel) (σ := σ4) (ty := .int)
    (ety := .int) pv_c1_4 e5 (by omega) rfl hb_c1_4 l_c1 o_c1 t_c1
  rw [len4] at p5v len5 new5 oth5
  have f5F : ∀ y, y ≠ K.n .ac0 → y ≠ K.n .ap1 → y ≠ K.n .ac1 → lookupVar σ5.vars y = lookupVar σF.vars y := by
    intro y h1 h2 h3; rw [f5 y h3, f4 y h2, f3 y h1]
  have ht5 : σ5.tensors = σF.tensors.set K.ta
      { atr with slots := atr.slots.set 0 (some (.ptr (S.blk .p0) 0, .ptr L 0)) } := by
    rw [ten5, ten4, ht3]
  -- G6, G7: the slots of level 1
  have hs1' : (atr.slots.set 0 (some (.ptr (S.blk .p0) 0, .ptr L 0)))[1]? = some (some (sp1, sc1)) := by
    rw [List.getElem?_set_ne (by omega)]; exact hasl1
  obtain ⟨σ6, r6, hv6, hh6, ht6⟩ := slot_step (fuel := fuel) (σ := σ5) (x := K.n .a) (arr := K.n .ap1)
    (ti := K.ta) (tr := { atr with slots := atr.slots.set 0 (some (.ptr (S.blk .p0) 0, .ptr L 0)) }) (l := 1)
    (s := (sp1, sc1)) (j := 0) (p := L + 1) (.inl rfl)
    (havar.congr (f5F _ (by nmx hN) (by nmx hN) (by nmx hN)))
    (by rw [ht5, List.getElem?_set_self htaL]) init.aown hord1 (by omega) hs1'
    (p4v.congr (f5 _ (by nmx hN)))
  simp only [if_true] at ht6
  rw [ht5, List.set_set] at ht6
  obtain ⟨σ7, r7, hv7, hh7, ht7⟩ := slot_step (fuel := fuel) (σ := σ6) (x := K.n .a) (arr := K.n .ac1)
    (ti := K.ta) (tr := { atr with slots := ((atr.slots.set 0 (some (.ptr (S.blk .p0) 0, .ptr L 0))).set 1
          (some (.ptr (L + 1) 0, sc1))) }) (l := 1)
    (s := (.ptr (L + 1) 0, sc1)) (j := 1) (p := L + 2) (.inr rfl)
    (havar.congr (by rw [hv6]; exact f5F _ (by nmx hN) (by nmx hN) (by nmx hN)))
    (by rw [ht6, List.getElem?_set_self htaL]) init.aown hord1 (by omega)
    (by simp [hsl1]) (p5v.congr (by rw [hv6]))
  simp only [show ¬ ((1 : Int) = 0) by omega, if_false] at ht7
  rw [ht6, List.set_set] at ht7
  simp only [List.set_set] at ht7
  rw [hv6] at hv7
  rw [hh6] at hh7
  -- G8: a_vals = realloc(a_vals, p_a_1 + 1)
  have hb_v_7 : σ7.heap[S.blk .v]? = some blk_v := by
    rw [hh7, oth5 _ (inj .v .c1 (by decide)) (by omega), oth4 _ (inj .v .p1 (by decide)) (by omega), hh3,
      oth1 _ (inj .v .c0 (by decide)) (by omega)]
    exact hb_v
  have pv_v_7 : PtrVar σ7 (K.n .av) (S.blk .v) :=
    pv_v.congr (by rw [hv7]; exact f5F _ (by nmx hN) (by nmx hN) (by nmx hN))
  have e8 : evalE σ7 (plus (.var (K.n .pA1)) (.intLit 1)) = .ok (.int ((K.d.nnz : Int) + 1)) :=
    evalE_add (evalE_var_int (hpA1.congr (by rw [hv7]; exact f5F _ (by nmx hN) (by nmx hN) (by nmx hN)))
      (by omega) (by omega)) (evalE_intLit (by omega) (by omega)) (by omega) (by omega)
  obtain ⟨σ8, r8, p8v, f8, len8, new8, oth8, ten8⟩ := realloc_step (fuel := fuel) (σ := σ7) (ty := .float)
    (ety := .float) pv_v_7 e8 (by omega) rfl hb_v_7 l_v o_v t_v
  have hl7 : σ7.heap.length = L + 3 := by rw [hh7]; exact len5
  rw [hl7] at p8v len8 new8 oth8
  have ht8 : σ8.tensors = σF.tensors.set K.ta
      { atr with slots := ((atr.slots.set 0 (some (.ptr (S.blk .p0) 0, .ptr L 0))).set 1
          (some (.ptr (L + 1) 0, .ptr (L + 2) 0))) } := by rw [ten8, ht7]
  -- G9: a->vals = a_vals
  obtain ⟨σ9, r9, _, hh9, ht9⟩ := vals_step (fuel := fuel) (σ := σ8) (x := K.n .a) (arr := K.n .av) (ti := K.ta)
    (tr := { atr with slots := ((atr.slots.set 0 (some (.ptr (S.blk .p0) 0, .ptr L 0))).set 1
          (some (.ptr (L + 1) 0, .ptr (L + 2) 0))) }) (p := L + 3)
    (havar.congr (by rw [f8 _ (by nmx hN), hv7]; exact f5F _ (by nmx hN) (by nmx hN) (by nmx hN)))
    (by rw [ht8, List.getElem?_set_self htaL]) init.aown p8v
  refine ⟨σ9, RunsLI.cons (RunsI.of_assign r1) (RunsLI.cons (RunsI.of_assign r2) (RunsLI.cons (RunsI.of_assign r3)
    (RunsLI.cons (RunsI.of_assign r4) (RunsLI.cons (RunsI.of_assign r5) (RunsLI.cons (RunsI.of_assign r6)
    (RunsLI.cons (RunsI.of_assign r7) (RunsLI.cons (RunsI.of_assign r8) (RunsLI.cons (RunsI.of_assign r9)
    (RunsLI.nil _ _))))))))), ?_⟩
  -- the final heap
  have keep : ∀ j, j < L → j ≠ S.blk .c0 → j ≠ S.blk .p1 → j ≠ S.blk .c1 → j ≠ S.blk .v →
      σ9.heap[j]? = σF.heap[j]? := by
    intro j hj h1 h2 h3 h4
    rw [hh9, oth8 j h4 (by omega), hh7, oth5 j h3 (by omega), oth4 j h2 (by omega), hh3, oth1 j h1 hj]
  have hH := hst.env.hlen
  have rng := hst.inv.rng
  have hN0 : σ9.heap[L]? = some ⟨.int, (K.d.outCrd0 K.d.R).map (fun z => some (.int z)), .output, true⟩ := by
    rw [hh9, oth8 L (by omega) (by omega), hh7, oth5 L (by omega) (by omega), oth4 L (by omega) (by omega), hh3,
      new1]
    have := take_of_holds (cells := S.cells .c0) (l := blk_c0.cells) (a_c0.holds blk_c0 hb_c0)
      (by have := a_c0.le; omega)
    rw [hlen_c0] at this
    simp only [Int.toNat_natCast]
    rw [this, hfin.c0, List.map_map]
    rfl
  have hN1 : σ9.heap[L + 1]? = some ⟨.int, (K.d.outPos1 K.d.R).map (fun z => some (.int z)), .output, true⟩ := by
    rw [hh9, oth8 (L + 1) (by omega) (by omega), hh7, oth5 (L + 1) (by omega) (by omega), new4]
    have := take_of_holds (cells := S.cells .p1) (l := blk_p1.cells) (a_p1.holds blk_p1 hb_p1)
      (by have := a_p1.le; omega)
    rw [hlen_p1] at this
    have hn : ((R' : Int) + 1).toNat = R' + 1 := by omega
    rw [hn, this, hfin.p1, List.map_map]
    rfl
  have hN2 : σ9.heap[L + 2]? =
      some ⟨.int, (List.range K.d.nnz).map (fun q => some (.int (K.d.crd1 q))), .output, true⟩ := by
    rw [hh9, oth8 (L + 2) (by omega) (by omega), hh7, new5]
    have := take_of_holds (cells := S.cells .c1) (l := blk_c1.cells) (a_c1.holds blk_c1 hb_c1)
      (by have := a_c1.le; omega)
    rw [hlen_c1] at this
    simp only [Int.toNat_natCast]
    rw [this, hfin.c1, Ctx.crd1Cells, List.map_map]
    rfl
  have hp0 : σ9.heap[S.blk .p0]? =
      some ⟨.int, [some (.int 0), some (.int ((K.d.kept K.d.R).length : Int))], .output, true⟩ := by
    rw [keep _ (by omega) (inj .p0 .c0 (by decide)) (inj .p0 .p1 (by decide)) (inj .p0 .c1 (by decide))
      (inj .p0 .v (by decide)), hb_p0]
    have h0 := a_p0.holds blk_p0 hb_p0 0 (by rw [hfin.p0]; simp)
    have h1 := a_p0.holds blk_p0 hb_p0 1 (by rw [hfin.p0]; simp)
    simp only [hfin.p0, List.getElem_cons_zero, List.getElem_cons_succ] at h0 h1
    have hl2 : blk_p0.cells.length = 2 := by
      have := hfin.p0c; omega
    obtain ⟨ty, cells, owner, live⟩ := blk_p0
    simp only at t_p0 o_p0 l_p0 hl2 h0 h1
    subst t_p0 o_p0 l_p0
    have hc : cells = [some (.int 0), some (.int ((K.d.kept K.d.R).length : Int))] := by
      match cells, hl2, h0, h1 with
      | [a, b], _, h0, h1 =>
        simp only [List.getElem?_cons_zero, List.getElem?_cons_succ, Option.some.injEq] at h0 h1
        rw [h0, h1]
    rw [hc]
    rfl
  have hvB : ∃ vblk, σ9.heap[L + 3]? = some vblk ∧ vblk.live = true ∧ vblk.owner = .output ∧
      vblk.ty = .float ∧ vblk.cells.length = K.d.nnz + 1 := by
    have hn : ((K.d.nnz : Int) + 1).toNat = K.d.nnz + 1 := by omega
    refine ⟨_, by rw [hh9]; exact new8, rfl, rfl, rfl, ?_⟩
    simp only [List.length_append, List.length_take, List.length_replicate, hn]
    omega
  obtain ⟨vblk, hv1, hv2, hv3, hv4, hv5⟩ := hvB
  refine
    { outRec := ⟨{ atr with
          slots := ((atr.slots.set 0 (some (.ptr (S.blk .p0) 0, .ptr L 0))).set 1
            (some (.ptr (L + 1) 0, .ptr (L + 2) 0))),
          vals := .ptr (L + 3) 0 }, S.blk .p0, L, L + 1, L + 2, L + 3, vblk, ?_, init.aown, rfl, rfl, rfl, rfl, ?_, ?_,
        hp0, hN0, hN1, hN2, hv1, hv2, hv3, hv4, hv5⟩,
      otherRecs := ?_, tlen := ?_, heap := ?_ }
  · rw [ht9, List.getElem?_set_self (by rw [ht8]; simpa using htaL)]
  · simp only [List.nodup_cons, List.mem_cons, List.not_mem_nil, or_false, not_or, List.nodup_nil, and_true,
      not_false_eq_true]
    omega
  · intro x hx
    simp only [List.mem_cons, List.not_mem_nil, or_false] at hx
    have := rng .p0
    rcases hx with rfl | rfl | rfl | rfl | rfl <;> omega
  · intro k hk
    rw [ht9, List.getElem?_set_ne (Ne.symm hk), ht8, List.getElem?_set_ne (Ne.symm hk), hten]
  · rw [ht9, List.length_set, ht8, List.length_set, hten]
  · intro k hk
    have r1 := rng .c0; have r2 := rng .p1; have r3 := rng .c1; have r4 := rng .v
    rw [keep k (by omega) (by omega) (by omega) (by omega) (by omega)]
    exact hst.env.old k hk

end

end TV.Sparse2
