import TensoraVerif.Lemmas.AsmCmp2Sparse2Post
import TensoraVerif.Lemmas.Sparse2Block

/-!
C04 (assemble) for the sparse matrix copy/scale kernels: the INNER loop body step of the assembling kernel
(`mid1_stepA`): copy of `mid1_step` in which the `vals` component carries no known cells and the terminal block
only raises both flags.
-/
namespace TV.Sparse2
open TV.IR TV.Gen TV.Graph TV.Growth TV.Merge
set_option linter.unusedSectionVars false
variable {F : Type} [FloatOps F]

theorem noLoop_mid1A (j : String) (outT bT : TensorId) :
    Sparse1.noLoopL [mid1A (F := F) j outT bT] = true := by
  simp [Sparse1.noLoopL, Sparse1.noLoop, mid1A, branch1A, Sparse1.noLoop_writePosAllocation, termBlockA, termLinesA,
    declAssignE, increment, writeCrdAssembly_shape]

section step
variable {K : Ctx F}

theorem mid1_stepA (ok : K.OK) (fuel : Nat) (σ : State F) (S : OutSt F) (q : Nat) (hq : q < K.d.nnz)
    (hst : St K S σ) (hc1 : S.cells .c1 = K.crd1Cells q) (hcv : S.cells .v = [])
    (hpA : IntVar σ (K.n .pA1) q) (hpB : IntVar σ (K.n .pB1) q)
    (hvB : IntVar σ (K.n .vB1) (K.d.crd1 q)) (hj : IntVar σ (K.n .j) (K.d.crd1 q))
    (hw0 : ToIr.FlagVar σ (K.n .w0)) (hw1 : FlagOK σ (K.n .w1)) :
    ∃ σ' S', RunsL fuel [mid1A K.j K.outT K.bT] σ σ' ∧ St K S' σ' ∧
      S'.cells .c1 = K.crd1Cells (q + 1) ∧ S'.cells .v = [] ∧ Same [.c1, .v] S S' ∧
      IntVar σ' (K.n .pA1) ((q + 1 : Nat) : Int) ∧
      ToIr.FlagTrue σ' (K.n .w0) ∧ ToIr.FlagTrue σ' (K.n .w1) ∧
      VFrame (midW1 K) σ σ' := by
  have hN := ok.names
  obtain ⟨ho1, ho2⟩ := (isSS_iff K.i K.j K.outT).1 ok.ho
  obtain ⟨hl, ⟨hb1, hb2⟩, _, _⟩ := (isExpr_iff K.i K.j K.bT K.e).1 ok.he
  obtain ⟨hdb, hArr, hCap, hEty, hBon, hidx⟩ := out1_facts ok.ho
  have hnnz := ok.wf.nnz30
  have hne0 : K.e ≠ .int 0 := by
    intro h; rw [h] at hl; simp [ToIr.leaves] at hl
  have holen : K.outT.indexes.length = 2 := by rw [ho1]; rfl
  have hblen : K.bT.indexes.length = 2 := by rw [hb1]; rfl
  obtain ⟨r0, r1⟩ := ok.wf.rng1 q hq
  -- 1. vals allocation
  have av := hst.inv.arr .v
  obtain ⟨o1, vb1, vc1, e1, ret1, g1, hvc1, hroom1⟩ := writePosAllocation_nodense_safe (out1 K.outT) fuel σ
    (S.blk .v) (S.cap .v) q hdb (by rw [hArr, hCap, hEty]; exact av.inv) hpA (by omega)
    (by rw [hBon]; omega) (by rw [hBon]; intro h; omega)
  rw [hArr, hCap, hEty] at g1
  have run1 : Runs fuel (writePosAllocation (out1 K.outT)).finalize σ o1.st := ⟨o1, e1, ret1, rfl⟩
  have st1 : St K (S.set .v vb1 vc1 (S.cells .v)) o1.st :=
    hst.update hN .v (av.of_grow g1) (GrowPost.block_cases g1) g1.vars g1.heap g1.len g1.tensors
  have f1 : VFrame [K.n .av, K.n .kv] σ o1.st := VFrame.of2 g1.vars
  generalize o1.st = σ1 at *
  -- 2. bool written_a_1 = false
  obtain ⟨σ2, r2, hh2, ht2, ⟨rw2, hrw1, hrw2, _⟩, f2'⟩ := Dense1.runsI_declAssign (fuel := fuel)
    (x := K.n .w1) (t := .bool) (e := (.boolLit false : Expr F)) (σ := σ1)
    (val := .bool false) (val' := .bool false)
    (hw1.congr (f1 _ (by nmx hN))) (by simp [evalE]) rfl
  have run2 : Runs fuel (declAssignE (K.n .w1) .bool (.boolLit false)) σ1 σ2 := by
    obtain ⟨o, e, r, s, _⟩ := r2; exact ⟨o, e, r, s⟩
  have f2 : VFrame [K.n .w1] σ1 σ2 := VFrame.of1 f2'
  have st2 : St K (S.set .v vb1 vc1 (S.cells .v)) σ2 := st1.vstep f2 (by prot_nm hN) hh2 ht2
  have f12 := f1.trans f2
  -- 3. the terminal block
  have hpB2 : IntVar σ2 (K.n .pB1) q := hpB.congr (f12 _ (by nmx hN))
  have hpA2 : IntVar σ2 (K.n .pA1) q := hpA.congr (f12 _ (by nmx hN))
  have hw02 : ToIr.FlagVar σ2 (K.n .w0) := FlagVar.congr hw0 (f12 _ (by nmx hN))
  have hw12 : ToIr.FlagVar σ2 (K.n .w1) := ⟨rw2, hrw1, hrw2⟩
  obtain ⟨bblk, hbblk, hblive, hbty, hbcells⟩ := ok.v
  have hfv : ∀ f ∈ [K.n .w0, K.n .w1], ToIr.FlagVar σ2 f := by
    intro f hf
    simp only [List.mem_cons, List.not_mem_nil, or_false] at hf
    rcases hf with rfl | rfl
    · exact hw02
    · exact hw12
  have run3L := ToIr.flags_run (fuel := fuel) hfv
  have hflag3 := ToIr.setFlags_true hfv
  have run3 : Runs fuel (termBlockA (F := F) K.outT) σ2 (ToIr.setFlags σ2 [K.n .w0, K.n .w1]) :=
    Runs.block run3L
  have f3 : VFrame [K.n .w0, K.n .w1] σ2 (ToIr.setFlags σ2 [K.n .w0, K.n .w1]) := by
    intro y hy
    exact ToIr.setFlags_lookup_other _ _ y hy
  have st3 : St K (S.set .v vb1 vc1 (S.cells .v)) (ToIr.setFlags σ2 [K.n .w0, K.n .w1]) :=
    st2.vstep f3 (by prot_nm hN) rfl rfl
  have hfl0 : ToIr.FlagTrue (ToIr.setFlags σ2 [K.n .w0, K.n .w1]) (K.n .w0) := hflag3 (K.n .w0) List.mem_cons_self
  have hfl1 : ToIr.FlagTrue (ToIr.setFlags σ2 [K.n .w0, K.n .w1]) (K.n .w1) :=
    hflag3 (K.n .w1) (List.mem_cons_of_mem _ List.mem_cons_self)
  have f123 := f12.trans f3
  generalize ToIr.setFlags σ2 [K.n .w0, K.n .w1] = σ3 at *
  generalize hS3 : S.set .v vb1 vc1 (S.cells .v) = S3 at *
  have hS3c1 : S3.cells .c1 = K.crd1Cells q := by rw [← hS3]; simp [OutSt.set, hc1]
  have hS3v : S3.cells .v = [] := by rw [← hS3]; simp [OutSt.set, hcv]
  have hS3same : Same [.c1, .v] S S3 := by
    rw [← hS3]
    exact Same.set S (by simp) _ _ _
  have ac3 := st3.inv.arr .c1
  rw [hS3c1] at ac3
  have hqc : (q : Int) ≤ S3.cap .c1 := by have := ac3.le; rw [Ctx.crd1Cells_length] at this; exact this
  have hpA3 : IntVar σ3 (K.n .pA1) q := hpA.congr (f123 _ (by nmx hN))
  have hj3 : IntVar σ3 (out1 K.outT).index (K.d.crd1 q) := by
    rw [hidx]; exact hj.congr (f123 _ (by nmx hN))
  have hnd : namesDistinct (out1 K.outT) := by
    unfold namesDistinct
    rw [hidx]
    show [K.n .ac1, K.n .kc1, K.n .pA1, K.n .j].Pairwise (· ≠ ·)
    simp only [List.pairwise_cons, List.Pairwise.nil]
    nmx hN
  obtain ⟨σ4, cb4, cc4, run4, sp, hpA4, _⟩ := crdAssembly_runs (out1 K.outT) fuel σ3 (S3.blk .c1) (S3.cap .c1) q
    (K.d.crd1 q) ac3.inv hpA3 (by omega) hqc hj3 r0 r1 (by intro h; omega) hnd
  have sp' : StorePost σ3 σ4 (arrName K .c1) (capName K .c1) Comp.c1.ety (S3.blk .c1) (S3.cap .c1)
      ((K.crd1Cells q).length : Int) (.int (K.d.crd1 q)) cb4 cc4 := by
    rw [Ctx.crd1Cells_length]; exact sp
  have st4 : St K (S3.set .c1 cb4 cc4 (K.crd1Cells (q + 1))) σ4 := by
    refine st3.update hN .c1 ?_ (StorePost.block_cases sp) sp.vars sp.heap sp.len sp.tensors
    rw [Ctx.crd1Cells_succ]
    exact ac3.of_store sp'
  have f4 : VFrame [K.n .ac1, K.n .kc1] σ3 σ4 := VFrame.of2 sp.vars
  -- 5. p_a_1++
  have hpA4' : IntVar σ4 (K.n .pA1) q := hpA4
  have run5 := Runs.assign_int (fuel := fuel) hpA4'
    (evalE_add (evalE_var_int hpA4' (by omega) (by omega))
      (evalE_intLit (σ := σ4) (v := 1) (by omega) (by omega)) (by omega) (by omega))
  generalize hσ5 : ({ σ4 with vars := setVar σ4.vars (K.n .pA1) (.int ((q : Int) + 1)) } : State F)
    = σ5 at run5
  have f5 : VFrame [K.n .pA1] σ4 σ5 := by
    intro y hy; rw [← hσ5]; exact lookupVar_setVar_other _ (by simpa using hy)
  have hh5 : σ5.heap = σ4.heap := by rw [← hσ5]
  have ht5 : σ5.tensors = σ4.tensors := by rw [← hσ5]
  have hpA5 : IntVar σ5 (K.n .pA1) ((q + 1 : Nat) : Int) := by
    obtain ⟨r, e1, e2, _⟩ := hpA4'
    rw [← hσ5]
    exact ⟨_, lookupVar_setVar_same _ e1, e2, by push_cast; rfl⟩
  have st5 : St K (S3.set .c1 cb4 cc4 (K.crd1Cells (q + 1))) σ5 := st4.vstep f5 (by prot_nm hN) hh5 ht5
  have f45 := f4.trans f5
  -- the run
  have econd : evalE σ (.bin .and (.boolLit true)
      (.bin .eq (.var (K.n .vB1)) (.var (K.n .j)))) = .ok (.bool true) := by
    have := evalE_and (σ := σ) (l := .boolLit true) (a := true) (by simp [evalE])
      (evalE_eqInt (evalE_var_int hvB r0 r1) (evalE_var_int hj r0 r1))
    simpa using this
  have hrun : RunsL fuel [mid1A K.j K.outT K.bT] σ σ5 :=
    RunsL.cons (Runs.branch_true econd (Runs.block (RunsL.cons run1 (RunsL.cons run2 (RunsL.cons run3
      (RunsL.cons (Runs.branch_true (Sparse1.evalE_var_flag hfl1)
        (Runs.block (RunsL.cons run4 (RunsL.cons run5 (RunsL.nil _ _))))) (RunsL.nil _ _)))))))
      (RunsL.nil _ _)
  refine ⟨σ5, S3.set .c1 cb4 cc4 (K.crd1Cells (q + 1)), hrun, st5, by simp [OutSt.set], ?_, ?_, hpA5, ?_, ?_, ?_⟩
  · simpa [OutSt.set] using hS3v
  · exact hS3same.trans (Same.set _ (by simp) _ _ _)
  · exact FlagTrue.congr hfl0 (f45 _ (by nmx hN))
  · exact FlagTrue.congr hfl1 (f45 _ (by nmx hN))
  · refine (f123.trans f45).mono ?_
    intro x hx
    simp only [List.mem_append, List.mem_cons, List.not_mem_nil, or_false] at hx
    simp only [midW1, List.mem_cons, List.not_mem_nil, or_false]
    rcases hx with (((rfl | rfl) | rfl) | (rfl | rfl)) | ((rfl | rfl) | rfl) <;> simp

end step

end TV.Sparse2
