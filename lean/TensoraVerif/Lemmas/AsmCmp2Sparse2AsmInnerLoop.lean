import TensoraVerif.Lemmas.AsmCmp2Sparse2AsmInner

/-! C04 (assemble) for the sparse matrix copy/scale kernels: copy of `Sparse2InnerLoop.lean` for the assembling kernel
(`vals` carries no known cells). -/
namespace TV.Sparse2
open TV.IR TV.Gen TV.Graph TV.Growth TV.Merge
set_option linter.unusedSectionVars false
variable {F : Type} [FloatOps F]

/-- the ghost predicate of the inner loop at position `q` of row `r` (relative to the state `σin` and the
description `S` at loop entry) -/
def Q1A (K : Ctx F) (r : Nat) (S : OutSt F) (σin : State F) (q : Nat) (σ : State F) : Prop :=
  ∃ S', St K S' σ ∧ S'.cells .c1 = K.crd1Cells q ∧ S'.cells .v = [] ∧ Same [.c1, .v] S S' ∧
    IntVar σ (K.n .pA1) q ∧ FlagVal σ (K.n .w0) (decide (K.d.pos1 r < q)) ∧ FlagOK σ (K.n .w1) ∧
    VFrame (inW K) σin σ

section
variable {K : Ctx F}

theorem q1_stableA (ok : K.OK) (r : Nat) (S : OutSt F) (σin : State F) :
    PosStable (Q1A K r S σin) (K.cur1 r) K.j := by
  have hN := ok.names
  intro q σ σ' ⟨S', hst, h1, h2, h3, h4, h5, h6, h7⟩ hh ht hv
  have hv' : VFrame [K.n .j, K.n .pB1, K.n .vB1] σ σ' := by
    intro y hy
    simp only [List.mem_cons, List.not_mem_nil, or_false, not_or] at hy
    exact hv y hy.1 hy.2.1 hy.2.2
  refine ⟨S', hst.vstep hv' (by prot_nm hN) hh ht, h1, h2, h3, h4.congr (hv' _ (by nmx hN)),
    h5.congr (hv' _ (by nmx hN)), h6.congr (hv' _ (by nmx hN)), ?_⟩
  intro y hy
  rw [hv' y (fun hm => hy (by simp only [inW, List.mem_append]; exact .inr hm)), h7 y hy]

theorem q1_midA (ok : K.OK) (r : Nat) (hr : r < K.d.R) (S : OutSt F) (σin : State F) :
    MidAt 0 (fun _ => 0) (Q1A K r S σin) (K.cur1 r) K.j [mid1A K.j K.outT K.bT] := by
  have hN := ok.names
  intro fuel σ q _ hq0 hq hinv hval hidx ⟨S', hst, h1, h2, h3, h4, h5, h6, h7⟩
  have hcm : curAt (K.cur1 r) q ∈ [curAt (K.cur1 r) q] := List.mem_cons_self
  have hcur := hinv.cur _ hcm
  have hqn : q < K.d.nnz := by
    have := ok.wf.pos_le_nnz (a := r + 1) (by omega)
    have hq' : q < K.d.pos1 (r + 1) := hq
    omega
  have hq0' : K.d.pos1 r ≤ q := hq0
  obtain ⟨σ', S'', ⟨o, eo, ro, so⟩, hst', c1', cv', same', hpA', hw0', hw1', fr⟩ :=
    mid1_stepA ok fuel σ S' q hqn hst h1 h2 h4 hcur.ptrv hval hidx h5.flagVar h6
  subst so
  refine ⟨o, eo, ro, Sparse1.execL_noLoop_iters fuel _ σ (noLoop_mid1A _ _ _) o eo, ?_, ?_, ?_⟩
  · intro x hx
    have hx' : x ∈ [K.n .j, K.n .pB1, K.n .eB1, K.n .bc1, K.n .vB1] := hx
    apply fr
    simp only [List.mem_cons, List.not_mem_nil, or_false] at hx'
    rcases hx' with rfl | rfl | rfl | rfl | rfl <;> (simp only [midW1]; nmx hN)
  · obtain ⟨blk, hb, _⟩ := ok.c1
    show o.st.heap[K.bc1]? = σ.heap[K.bc1]?
    rw [hst'.env.get hb, hst.env.get hb]
  · refine ⟨S'', hst', c1', cv', h3.trans same', hpA', ?_, FlagOK.of_flagVar (FlagVar.of_true hw1'), ?_⟩
    · obtain ⟨rr, e1, e2, e3⟩ := hw0'
      refine ⟨rr, e1, e2, ?_⟩
      rw [e3]
      have : decide (K.d.pos1 r < q + 1) = true := by simp only [decide_eq_true_eq]; omega
      rw [this]
    · intro y hy
      rw [fr y (fun hm => hy (by simp only [inW, List.mem_append]; exact .inl hm)), h7 y hy]

/-- **(Z2) The inner loop.** For a stored row `r < R` of `b`: from a state satisfying the kernel invariant in
which `a_1_crd` and `a_vals` hold the first `pos1 r` entries, `p_a_1 = pos1 r`, the merge invariant of the
second level of `b` holds for the segment `[pos1 r, pos1 (r+1))`, the outer flag is `false` and the inner flag
undeclared or a `bool`: the emitted inner loop runs without error with any fuel `≥ (row length) + 1`,
performs EXACTLY `pos1 (r+1) − pos1 r` iterations, and afterwards the two arrays hold the first `pos1 (r+1)`
entries (grown as needed from any capacity `≥ 1`), `p_a_1 = pos1 (r+1)`, the input cursor is at the end of the
row, and THE OUTER FLAG IS `true` IFF THE ROW IS NON-EMPTY. The other arrays are as before; only the
variables `inW` were written. -/
theorem inner_loopA (ok : K.OK) (r : Nat) (hr : r < K.d.R) (fuel : Nat) (σ : State F) (S : OutSt F)
    (hfuel : (K.d.pos1 (r + 1) - K.d.pos1 r) + 1 ≤ fuel)
    (hst : St K S σ) (hc1 : S.cells .c1 = K.crd1Cells (K.d.pos1 r)) (hcv : S.cells .v = [])
    (hpA : IntVar σ (K.n .pA1) (K.d.pos1 r)) (hM : MergeInv σ [K.cur1 r] K.j)
    (hw0 : FlagVal σ (K.n .w0) false) (hw1 : FlagOK σ (K.n .w1)) :
    ∃ o S', exec fuel (mergeLoopL [in1 K.bT] K.j [mid1A K.j K.outT K.bT]) σ = .ok o ∧ o.ret = none ∧
      o.iters = K.d.pos1 (r + 1) - K.d.pos1 r ∧
      MergeInv o.st [curAt (K.cur1 r) (K.d.pos1 (r + 1))] K.j ∧
      St K S' o.st ∧ S'.cells .c1 = K.crd1Cells (K.d.pos1 (r + 1)) ∧
      S'.cells .v = [] ∧ Same [.c1, .v] S S' ∧
      IntVar o.st (K.n .pA1) (K.d.pos1 (r + 1)) ∧
      FlagVal o.st (K.n .w0) (decide (K.d.pos1 r < K.d.pos1 (r + 1))) ∧ FlagOK o.st (K.n .w1) ∧
      VFrame (inW K) σ o.st := by
  have hmono := ok.wf.mono r hr
  have hQ : Q1A K r S σ (K.d.pos1 r) σ :=
    ⟨S, hst, hc1, hcv, Same.refl _ _, hpA, by simpa using hw0, hw1, VFrame.refl _ _⟩
  obtain ⟨o, eo, ro, ito, invo, ⟨S', h1, h2, h3, h4, h5, h6, h7, h8⟩⟩ :=
    cursor_loop_exact (K.cur1 r) K.j [mid1A K.j K.outT K.bT] (namesOK1 ok.names r)
      (q1_stableA ok r S σ) (q1_midA ok r hr S σ) (K.d.pos1 (r + 1) - K.d.pos1 r) (K.d.pos1 r) σ fuel
      (by show K.d.pos1 r + _ = K.d.pos1 (r + 1); omega) (Nat.le_refl _) hM hQ (by omega)
  refine ⟨o, S', eo, ro, by rw [ito, sumFrom_zero]; omega, invo, h1, h2, h3, h4, h5, h6, h7, h8⟩

end

end TV.Sparse2
