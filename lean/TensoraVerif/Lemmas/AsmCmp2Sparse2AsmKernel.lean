import TensoraVerif.Lemmas.AsmCmp2Sparse2AsmCleanup
import TensoraVerif.Lemmas.Sparse2Kernel

/-! C04 (assemble) for the sparse matrix copy/scale kernels: the whole `assemble` function on the machine
(`kernel_runsA`): prologue (`prologue_runs`, unchanged), iteration block (`iterBlock_runsA`), cleanup
(`cleanup_runsA`), `return 0`. -/
namespace TV.Sparse2
open TV.IR TV.Gen TV.Graph TV.Growth TV.Merge TV.Dense1
open TV.Sparse1 (capVal)

set_option linter.unusedSectionVars false
variable {F : Type} [FloatOps F]

/-- the entry state of the evaluate proof is an entry state of the assemble proof -/
theorem Entry.toA {K : Ctx F} (ok : K.OK) {S : OutSt F} {σ : State F} (h : Entry K S σ) : EntryA K S σ :=
  ⟨h.st, ⟨h.sh.p0, h.sh.p0c, h.sh.c0, h.sh.p1, h.sh.c1, by
      have := h.sh.v; rw [ok.wf.pos0] at this; rw [this]; simp [Ctx.valsCells]⟩,
    h.pA0, h.pA1, h.scr, h.dpB0, h.deB0, h.dvB0, h.di⟩

/-- **the whole `assemble` function on the machine** -/
theorem kernel_runsA {K : Ctx F} (ok : K.OK) (cap : Option Int) (formats : Formats)
    (hfmt : formats.map (·.1) = [K.outT.name, K.bT.name])
    (hk0 : 1 ≤ capVal cap) (hk1 : capVal cap < 2147483648)
    {atr btr : TensorRec F} {tb : Nat} {n m : Int} {σ : State F} (init : Init K atr btr tb n m σ)
    (fuel : Nat) (hfuel : K.d.R + K.d.nnz + 2 ≤ fuel) :
    ∃ o, exec fuel (kernelA cap formats K.i K.j K.outT K.bT).body σ = .ok o ∧
      o.ret = some (.int 0) ∧ o.iters = K.d.R + K.d.nnz ∧ KernelPostA K atr o.st := by
  obtain ⟨σC, rC, entry⟩ := prologue_runs ok cap hk0 hk1 init fuel
  obtain ⟨σF, S', rF, stF, hfin, hpA0, hpA1⟩ := iterBlock_runsA ok fuel σC _ hfuel (Entry.toA ok entry)
  obtain ⟨σG, rG, post⟩ := cleanup_runsA ok init S' σF stF hfin hpA0 hpA1 fuel
  have hunp : (formats.flatMap fun f => unpackStmts (F := F) f.1) =
      unpackStmts K.outT.name ++ unpackStmts K.bT.name := by
    have : (formats.flatMap fun f => unpackStmts (F := F) f.1) =
        (formats.map (·.1)).flatMap unpackStmts := by
      rw [List.flatMap_map]
    rw [this, hfmt]
    simp
  have rAll : RunsLI fuel (kernelStmtsA cap formats K.i K.j K.outT K.bT) σ σG
      (0 + (K.d.R + K.d.nnz + (0 + 0))) := by
    unfold kernelStmtsA
    rw [hunp]
    have h3 := RunsLI.append rC (RunsLI.cons (RunsI.block
      (c := some ("*** Iteration over " ++ K.i ++ " ***")) rF)
      (RunsLI.cons (RunsI.block (c := some ("Assembling output tensor " ++ K.outT.name)) rG) (RunsLI.nil _ _)))
    simpa using h3
  obtain ⟨o, eo, hret, hst, hit⟩ := execL_ret (e := .intLit 0) (v := .int 0) rAll
    (evalE_intLit (by omega) (by omega))
  refine ⟨o, ?_, hret, by rw [hit]; omega, by rw [hst]; exact post⟩
  show exec fuel (.block (kernelStmtsA cap formats K.i K.j K.outT K.bT ++ [.ret (.intLit 0)]) none) σ = _
  rw [exec.eq_5]
  exact eo

end TV.Sparse2

