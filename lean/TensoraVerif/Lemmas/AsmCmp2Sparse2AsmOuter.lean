import TensoraVerif.Lemmas.AsmCmp2Sparse2AsmInnerLoop

/-! C04 (assemble) for the sparse matrix copy/scale kernels: copy of `Sparse2Outer.lean` for the assembling kernel
(`vals` carries no known cells). -/
namespace TV.Sparse2
open TV.IR TV.Gen TV.Graph TV.Growth TV.Merge
open TV.Dense1 (RunsI RunsLI)
set_option linter.unusedSectionVars false
variable {F : Type} [FloatOps F]

section
variable {K : Ctx F}

/-- **The "Iteration over j" block of one outer iteration** (stored row `r < R`, output cursor `p_a_0 = n0`):
in a state satisfying the kernel invariant in which `a_1_pos` holds `ps` (`n0 + 1` cells) and has room for one
more cell, `a_1_crd` / `a_vals` hold the first `pos1 r` entries, `p_a_1 = pos1 r`, `p_b_0 = r`, the outer flag
is `false`: the block runs without error with any fuel `≥ (row length) + 1`, performs exactly `row length`
loop iterations, after which `a_1_pos` holds `ps ++ [pos1 (r+1)]`, the two arrays hold the first `pos1 (r+1)`
entries, `p_a_1 = pos1 (r+1)` and the outer flag is `true` iff the row is non-empty. -/
theorem inner_blockA (ok : K.OK) (r : Nat) (hr : r < K.d.R) (fuel : Nat) (σ : State F) (S : OutSt F)
    (n0 : Nat) (ps : List Int) (hps : ps.length = n0 + 1)
    (hfuel : (K.d.pos1 (r + 1) - K.d.pos1 r) + 1 ≤ fuel)
    (hst : St K S σ) (hp1 : S.cells .p1 = ps.map (Val.int : Int → Val F)) (hroom : (n0 : Int) + 1 < S.cap .p1)
    (hc1 : S.cells .c1 = K.crd1Cells (K.d.pos1 r)) (hcv : S.cells .v = [])
    (hpA0 : IntVar σ (K.n .pA0) n0) (hpA1 : IntVar σ (K.n .pA1) (K.d.pos1 r)) (hpB0 : IntVar σ (K.n .pB0) r)
    (hw0 : FlagVal σ (K.n .w0) false) (hscr : Scr K σ) :
    ∃ σ' S', RunsLI fuel (innerLinesA K.j K.outT K.bT) σ σ' (K.d.pos1 (r + 1) - K.d.pos1 r) ∧
      St K S' σ' ∧ S'.cells .p1 = (ps ++ [(K.d.pos1 (r + 1) : Int)]).map (Val.int : Int → Val F) ∧
      S'.cells .c1 = K.crd1Cells (K.d.pos1 (r + 1)) ∧ S'.cells .v = [] ∧
      Same [.p1, .c1, .v] S S' ∧ IntVar σ' (K.n .pA1) (K.d.pos1 (r + 1)) ∧
      FlagVal σ' (K.n .w0) (decide (K.d.pos1 r < K.d.pos1 (r + 1))) ∧ Scr K σ' ∧ VFrame (blockW K) σ σ' := by
  have hN := ok.names
  have hmono := ok.wf.mono r hr
  have hR := ok.wf.R30
  have hnnz := ok.wf.nnz30
  have hle1 := ok.wf.pos_le_nnz (a := r) (by omega)
  have hle2 := ok.wf.pos_le_nnz (a := r + 1) (by omega)
  -- a. the inner cursors
  obtain ⟨pblk, hpb, hplive, hpty, hpcells⟩ := ok.p1
  obtain ⟨cblk, hcb, hclive, hcty, hclen, hccells⟩ := ok.c1
  have hposOK : PosOK σ (K.cur1 r) K.bp1 r := by
    refine ⟨hst.env.vp1, ?_, by omega, by omega, ⟨pblk, hst.env.get hpb, hplive, hpty, ?_, ?_⟩⟩
    · exact hpB0
    · simpa [Ctx.cur1] using hpcells r (by omega)
    · simpa [Ctx.cur1] using hpcells (r + 1) (by omega)
  obtain ⟨oD, eD, rD, itD, curD, frD', hhD, htD⟩ := writeSparseInit_safe (K.cur1 r) fuel σ K.bp1 r hposOK
    hst.env.vc1 hmono (by show ((K.d.pos1 (r + 1) : Nat) : Int) < 2147483648; omega)
    ⟨cblk, hst.env.get hcb, hclive, hcty, by show K.d.pos1 (r + 1) ≤ _; omega,
      fun j _ hj => hccells j (by have : j < K.d.pos1 (r + 1) := hj; omega)⟩
    (fun j _ hj => ok.wf.rng1 j (by have : j < K.d.pos1 (r + 1) := hj; omega))
    hscr.pB1 hscr.eB1
  have frD : VFrame [K.n .pB1, K.n .eB1] σ oD.st := VFrame.of2 frD'
  have runD : RunsLI fuel (writeSparseInit (in1 K.bT)).lines σ oD.st 0 := by
    refine ⟨oD, ?_, rD, rfl, itD⟩
    have : (writeSparseInit (F := F) (K.cur1 r).leaf).finalize =
        .block (writeSparseInit (in1 K.bT)).lines none := rfl
    rw [this, exec.eq_5] at eD
    exact eD
  have stD : St K S oD.st := hst.vstep frD (by prot_nm hN) hhD htD
  generalize oD.st = σD at *
  -- b. the inner loop
  have hM : MergeInv σD [K.cur1 r] K.j := by
    refine ⟨fun d hd => ?_, fun d hd => ?_, ?_⟩
    · simp only [List.mem_cons, List.not_mem_nil, or_false] at hd; subst hd; exact curD
    · simp only [List.mem_cons, List.not_mem_nil, or_false] at hd; subst hd
      exact hscr.vB1.congr (frD _ (by nmx hN))
    · exact hscr.j.congr (frD _ (by nmx hN))
  obtain ⟨oE, S1, eE, rE, itE, invE, stE, c1E, cvE, sameE, hpA1E, hw0E, hw1E, frE⟩ :=
    inner_loopA ok r hr fuel σD S hfuel stD hc1 hcv (hpA1.congr (frD _ (by nmx hN))) hM
      (hw0.congr (frD _ (by nmx hN))) (hscr.w1.congr (frD _ (by nmx hN)))
  have runE : RunsI fuel (mergeLoopL [in1 K.bT] K.j [mid1A K.j K.outT K.bT]) σD oE.st
      (K.d.pos1 (r + 1) - K.d.pos1 r) := ⟨oE, eE, rE, rfl, itE⟩
  generalize oE.st = σE at *
  have frDE := frD.trans frE
  -- c. pos assembly
  have hp1E : S1.cells .p1 = ps.map (Val.int : Int → Val F) := by
    rw [(sameE .p1 (by simp)).2.2]; exact hp1
  have hcapE : S1.cap .p1 = S.cap .p1 := (sameE .p1 (by simp)).2.1
  have ap := stE.inv.arr .p1
  obtain ⟨pb1, hpb1, hpb1live, hpb1own, hpb1ty, hpb1len⟩ := ap.inv.blk
  have hpA0E : IntVar σE (K.n .pA0) n0 := hpA0.congr (frDE _ (by simp only [inW, midW1]; nmx hN))
  obtain ⟨oF, eF, rF, sF, _⟩ := writePosAssembly_safe (out1 K.outT) fuel σE (S1.blk .p1) (S1.cap .p1)
    (K.d.pos1 (r + 1)) n0 pb1 ap.inv hpb1 (show IntVar σE (K.n .pA0) n0 from hpA0E) (by omega)
    (by rw [hcapE]; exact hroom) hpA1E (by omega) (by omega)
  have runF : RunsI fuel (writePosAssembly (out1 K.outT)).finalize σE oF.st 0 :=
    ⟨oF, eF, rF, rfl, Sparse1.exec_noLoop_iters fuel _ σE (noLoop_writePosAssembly _) oF eF⟩
  have htn : ((n0 : Int) + 1).toNat = (S1.cells .p1).length := by
    rw [hp1E, List.length_map, hps]; omega
  have hcs : CellSet σE oF.st (S1.blk .p1) (S1.cells .p1).length (.int (K.d.pos1 (r + 1))) := by
    rw [sF, htn]
    exact CellSet.of_set hpb1 (by rw [hp1E, List.length_map, hps]; rw [hcapE] at hpb1len; omega)
  have stF : St K (S1.set .p1 (S1.blk .p1) (S1.cap .p1)
      ((ps ++ [(K.d.pos1 (r + 1) : Int)]).map (Val.int : Int → Val F))) oF.st := by
    refine stE.update hN .p1 ?_ (.inl rfl) (fun y _ _ => by rw [sF]) ?_ (by rw [sF]; simp) (by rw [sF])
    · rw [List.map_append, ← hp1E]
      refine ap.push ?_ hcs (by rw [sF]) (by rw [sF])
      rw [hp1E, List.length_map, hps, hcapE]; push_cast; exact hroom
    · intro k blk hk hkb
      rw [sF]
      show (σE.heap.set _ _)[k]? = _
      rw [List.getElem?_set_ne (Ne.symm hk)]; exact hkb
  have frF : VFrame [] σE oF.st := VFrame.of_eq (by rw [sF])
  generalize oF.st = σF at *
  have frAll : VFrame (blockW K) σ σF := by
    refine (frDE.trans frF).mono ?_
    intro x hx
    simp only [List.append_nil] at hx
    exact hx
  refine ⟨σF, _, ?_, stF, by simp [OutSt.set], ?_, ?_, ?_, hpA1E.congr (frF _ (by simp)),
    hw0E.congr (frF _ (by simp)), ?_, frAll⟩
  · have := Dense1.RunsLI.append runD (Dense1.RunsLI.cons runE (Dense1.RunsLI.cons runF (Dense1.RunsLI.nil _ _)))
    simpa [innerLinesA] using this
  · simpa [OutSt.set] using c1E
  · simpa [OutSt.set] using cvE
  · exact (sameE.mono (by simp)).trans (Same.set _ (by simp) _ _ _)
  · obtain ⟨c, hc⟩ : ∃ c, c = curAt (K.cur1 r) (K.d.pos1 (r + 1)) := ⟨_, rfl⟩
    have hcm : c ∈ [curAt (K.cur1 r) (K.d.pos1 (r + 1))] := by rw [hc]; exact List.mem_cons_self
    have hci := invE.cur c hcm
    have hpB1 : IntVar σE (K.n .pB1) c.p := by rw [hc] at hci ⊢; exact hci.ptrv
    have heB1 : IntVar σE (K.n .eB1) c.e := by rw [hc] at hci ⊢; exact hci.endv
    have hvB1 : DeclOK σE (K.n .vB1) := by have := invE.val c hcm; rw [hc] at this; exact this
    exact ⟨(DeclOK.of_intVar hpB1).congr (frF _ (by simp)), (DeclOK.of_intVar heB1).congr (frF _ (by simp)),
      hvB1.congr (frF _ (by simp)), invE.idx.congr (frF _ (by simp)),
      (FlagOK.of_flagVar hw0E.flagVar).congr (frF _ (by simp)), hw1E.congr (frF _ (by simp))⟩

end

end TV.Sparse2
