import TensoraVerif.Lemmas.AsmCmp2Sparse2AsmOuterStep

/-! C04 (assemble) for the sparse matrix copy/scale kernels: copy of `Sparse2OuterLoop.lean` for the assembling kernel
(`vals` carries no known cells). -/
namespace TV.Sparse2
open TV.IR TV.Gen TV.Graph TV.Growth TV.Merge
open TV.Dense1 (RunsI RunsLI)
set_option linter.unusedSectionVars false
variable {F : Type} [FloatOps F]

/-- the ghost predicate of the outer loop after `r` stored rows (relative to the state `σin` at loop entry) -/
def Q0A (K : Ctx F) (σin : State F) (r : Nat) (σ : State F) : Prop :=
  ∃ S, St K S σ ∧ ShapeA K S r ∧ IntVar σ (K.n .pA0) (K.d.kept r).length ∧ IntVar σ (K.n .pA1) (K.d.pos1 r) ∧
    Scr K σ ∧ VFrame (outW K) σin σ

section
variable {K : Ctx F}

theorem q0_stableA (ok : K.OK) (σin : State F) : PosStable (Q0A K σin) K.cur0 K.i := by
  have hN := ok.names
  intro q σ σ' ⟨S, hst, h1, h2, h3, h4, h5⟩ hh ht hv
  have hv' : VFrame [K.n .i, K.n .pB0, K.n .vB0] σ σ' := by
    intro y hy
    simp only [List.mem_cons, List.not_mem_nil, or_false, not_or] at hy
    exact hv y hy.1 hy.2.1 hy.2.2
  refine ⟨S, hst.vstep hv' (by prot_nm hN) hh ht, h1, h2.congr (hv' _ (by nmx hN)),
    h3.congr (hv' _ (by nmx hN)),
    ⟨h4.pB1.congr (hv' _ (by nmx hN)), h4.eB1.congr (hv' _ (by nmx hN)), h4.vB1.congr (hv' _ (by nmx hN)),
      h4.j.congr (hv' _ (by nmx hN)), h4.w0.congr (hv' _ (by nmx hN)), h4.w1.congr (hv' _ (by nmx hN))⟩, ?_⟩
  intro y hy
  rw [hv' y (fun hm => hy (by simp only [outW, List.mem_append]; exact .inr hm)), h5 y hy]

theorem q0_midA (ok : K.OK) (σin : State F) :
    MidAt (K.d.nnz + 1) (fun r => K.d.pos1 (r + 1) - K.d.pos1 r) (Q0A K σin) K.cur0 K.i
      [mid0A K.i K.j K.outT K.bT] := by
  have hN := ok.names
  intro fuel σ r hfuel _ hq hinv hval hidx ⟨S, hst, h1, h2, h3, h4, h5⟩
  have hr : r < K.d.R := hq
  have hcm : curAt K.cur0 r ∈ [curAt K.cur0 r] := List.mem_cons_self
  have hcur := hinv.cur _ hcm
  have hle2 := ok.wf.pos_le_nnz (a := r + 1) (by omega)
  obtain ⟨σ', S', ⟨o, eo, ro, so, ito⟩, hst', hsh', hpA0', hpA1', hscr', fr⟩ :=
    mid0_stepA ok r hr fuel σ S (by omega) hst h1 h2 h3 hcur.ptrv hval hidx h4
  subst so
  refine ⟨o, eo, ro, ito, ?_, ?_, ?_⟩
  · intro x hx
    have hx' : x ∈ [K.n .i, K.n .pB0, K.n .eB0, K.n .bc0, K.n .vB0] := hx
    apply fr
    simp only [List.mem_cons, List.not_mem_nil, or_false] at hx'
    rcases hx' with rfl | rfl | rfl | rfl | rfl <;> (simp only [midW0, blockW, inW, midW1]; nmx hN)
  · obtain ⟨blk, hb, _⟩ := ok.c0
    show o.st.heap[K.bc0]? = σ.heap[K.bc0]?
    rw [hst'.env.get hb, hst.env.get hb]
  · refine ⟨S', hst', hsh', hpA0', hpA1', hscr', ?_⟩
    intro y hy
    rw [fr y (fun hm => hy (by simp only [outW, List.mem_append]; exact .inl hm)), h5 y hy]

/-- **(Z3) The outer loop over the stored rows.** From a state satisfying the kernel invariant with the
output arrays in their initial shape (`ShapeA … 0`), both output cursors `0`, and the merge invariant of the
first level of `b` (cursor `0`, end `R`): the emitted loop runs without error with any fuel `≥ R + nnz + 2`,
performs EXACTLY `R + nnz` loop iterations (`R` outer ones, and one per stored entry in the inner loops), and
ends with the arrays in the shape `ShapeA … R` — `a_0_crd` = the coordinates of the NON-EMPTY stored rows,
`a_1_pos` = `0` followed by the end position of every non-empty row (the cell `a_1_pos[p_a_0 + 1]` written for
an empty row is overwritten by the next row or left outside the final size), `a_1_crd`/`a_vals` = all `nnz`
entries —, `p_a_0` = the number of non-empty rows, `p_a_1 = nnz`. -/
theorem outer_loopA (ok : K.OK) (fuel : Nat) (σ : State F) (S : OutSt F)
    (hfuel : K.d.R + K.d.nnz + 2 ≤ fuel)
    (hst : St K S σ) (hsh : ShapeA K S 0) (hpA0 : IntVar σ (K.n .pA0) 0) (hpA1 : IntVar σ (K.n .pA1) 0)
    (hM : MergeInv σ [K.cur0] K.i) (hscr : Scr K σ) :
    ∃ o S', exec fuel (mergeLoopL [in0 K.bT] K.i [mid0A K.i K.j K.outT K.bT]) σ = .ok o ∧
      o.ret = none ∧ o.iters = K.d.R + K.d.nnz ∧ MergeInv o.st [curAt K.cur0 K.d.R] K.i ∧
      St K S' o.st ∧ ShapeA K S' K.d.R ∧ IntVar o.st (K.n .pA0) (K.d.kept K.d.R).length ∧
      IntVar o.st (K.n .pA1) K.d.nnz ∧ Scr K o.st ∧ VFrame (outW K) σ o.st := by
  have hQ : Q0A K σ 0 σ := by
    refine ⟨S, hst, hsh, by simpa [BData.kept] using hpA0, by rw [ok.wf.pos0]; exact hpA1, hscr, VFrame.refl _ _⟩
  obtain ⟨o, eo, ro, ito, invo, ⟨S', h1, h2, h3, h4, h5, h6⟩⟩ :=
    cursor_loop_exact K.cur0 K.i [mid0A K.i K.j K.outT K.bT] (namesOK0 ok.names)
      (q0_stableA ok σ) (q0_midA ok σ) K.d.R 0 σ fuel (by show 0 + K.d.R = K.d.R; omega) (Nat.le_refl _) hM hQ
      (by omega)
  refine ⟨o, S', eo, ro, ?_, invo, h1, h2, h3, by rw [← ok.wf.posR]; exact h4, h5, h6⟩
  rw [ito, sumFrom_len ok.wf K.d.R 0 (by omega), Nat.zero_add, ok.wf.posR, ok.wf.pos0]
  omega

end

end TV.Sparse2
