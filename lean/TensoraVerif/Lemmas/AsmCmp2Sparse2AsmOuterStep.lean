import TensoraVerif.Lemmas.AsmCmp2Sparse2AsmOuter

/-! C04 (assemble) for the sparse matrix copy/scale kernels: copy of `Sparse2OuterStep.lean` for the assembling kernel
(`vals` carries no known cells). -/
namespace TV.Sparse2
open TV.IR TV.Gen TV.Graph TV.Growth TV.Merge
open TV.Dense1 (RunsI RunsLI)
set_option linter.unusedSectionVars false
variable {F : Type} [FloatOps F]

/-- **the contents of the five output arrays after `r` stored rows of `b`**: `a_0_pos = [0, ·]` (capacity 2),
`a_0_crd` = the coordinates of the non-empty rows, `a_1_pos` = `0` and the end position of every non-empty
row, `a_1_crd` / `a_vals` = the first `pos1 r` entries -/
structure ShapeA (K : Ctx F) (S : OutSt F) (r : Nat) : Prop where
  p0 : S.cells .p0 = [.int 0]
  p0c : S.cap .p0 = 2
  c0 : S.cells .c0 = (K.d.outCrd0 r).map (Val.int : Int → Val F)
  p1 : S.cells .p1 = (K.d.outPos1 r).map (Val.int : Int → Val F)
  c1 : S.cells .c1 = K.crd1Cells (K.d.pos1 r)
  v : S.cells .v = []

section
variable {K : Ctx F}

/-- **The outer loop body step** (stored row `r < R`). -/
theorem mid0_stepA (ok : K.OK) (r : Nat) (hr : r < K.d.R) (fuel : Nat) (σ : State F) (S : OutSt F)
    (hfuel : (K.d.pos1 (r + 1) - K.d.pos1 r) + 1 ≤ fuel)
    (hst : St K S σ) (hsh : ShapeA K S r)
    (hpA0 : IntVar σ (K.n .pA0) (K.d.kept r).length) (hpA1 : IntVar σ (K.n .pA1) (K.d.pos1 r))
    (hpB0 : IntVar σ (K.n .pB0) r) (hvB0 : IntVar σ (K.n .vB0) (K.d.crd0 r))
    (hi : IntVar σ (K.n .i) (K.d.crd0 r)) (hscr : Scr K σ) :
    ∃ σ' S', RunsLI fuel [mid0A K.i K.j K.outT K.bT] σ σ' (K.d.pos1 (r + 1) - K.d.pos1 r) ∧
      St K S' σ' ∧ ShapeA K S' (r + 1) ∧
      IntVar σ' (K.n .pA0) (K.d.kept (r + 1)).length ∧ IntVar σ' (K.n .pA1) (K.d.pos1 (r + 1)) ∧
      Scr K σ' ∧ VFrame (midW0 K) σ σ' := by
  have hN := ok.names
  obtain ⟨hdb, hArr, hCap, hEty, hBon, hidx⟩ := out0_facts ok.ho
  have hR := ok.wf.R30
  have hmono := ok.wf.mono r hr
  obtain ⟨r0, r1⟩ := ok.wf.rng0 r hr
  obtain ⟨n0, hn0⟩ : ∃ n0, n0 = (K.d.kept r).length := ⟨_, rfl⟩
  have hn0r : n0 ≤ r := by rw [hn0]; exact K.d.kept_length_le r
  rw [← hn0] at hpA0
  -- 1. pos allocation of the next level
  have ap := hst.inv.arr .p1
  have hps : (K.d.outPos1 r).length = n0 + 1 := by rw [K.d.outPos1_length, hn0]
  have hcap1 : (n0 : Int) + 1 ≤ S.cap .p1 := by
    have := ap.le; rw [hsh.p1, List.length_map, hps] at this; omega
  obtain ⟨o1, pb1, pc1, e1, ret1, g1, _, hroom1⟩ := writePosAllocation_nodense_safe (out0 K.outT) fuel σ
    (S.blk .p1) (S.cap .p1) n0 hdb (by rw [hArr, hCap, hEty]; exact ap.inv) hpA0 (by omega)
    (by rw [hBon]; omega) (by rw [hBon]; intro h; omega)
  rw [hArr, hCap, hEty] at g1
  rw [hBon] at hroom1
  have hroom : (n0 : Int) + 1 < pc1 := hroom1 hcap1
  have run1 : RunsI fuel (writePosAllocation (out0 K.outT)).finalize σ o1.st 0 :=
    RunsI.of_runs ⟨o1, e1, ret1, rfl⟩ (Sparse1.noLoop_writePosAllocation _)
  have st1 : St K (S.set .p1 pb1 pc1 (S.cells .p1)) o1.st :=
    hst.update hN .p1 (ap.of_grow g1) (GrowPost.block_cases g1) g1.vars g1.heap g1.len g1.tensors
  have f1 : VFrame [K.n .ap1, K.n .kp1] σ o1.st := VFrame.of2 g1.vars
  generalize o1.st = σ1 at *
  generalize hS1 : S.set .p1 pb1 pc1 (S.cells .p1) = S1 at *
  have same1 : Same [.p1] S S1 := by rw [← hS1]; exact Same.set _ (by simp) _ _ _
  -- 2. bool written_a_0 = false
  obtain ⟨σ2, run2, hh2, ht2, ⟨rw2, hrw1, hrw2, hrw3⟩, f2'⟩ := Dense1.runsI_declAssign (fuel := fuel)
    (x := K.n .w0) (t := .bool) (e := (.boolLit false : Expr F)) (σ := σ1)
    (val := .bool false) (val' := .bool false)
    (hscr.w0.congr (f1 _ (by nmx hN))) (by simp [evalE]) rfl
  have f2 : VFrame [K.n .w0] σ1 σ2 := VFrame.of1 f2'
  have st2 : St K S1 σ2 := st1.vstep f2 (by prot_nm hN) hh2 ht2
  have f12 := f1.trans f2
  have hw02 : FlagVal σ2 (K.n .w0) false := ⟨rw2, hrw1, hrw2, hrw3⟩
  have hscr2 : Scr K σ2 :=
    ⟨hscr.pB1.congr (f12 _ (by nmx hN)), hscr.eB1.congr (f12 _ (by nmx hN)), hscr.vB1.congr (f12 _ (by nmx hN)),
      hscr.j.congr (f12 _ (by nmx hN)), FlagOK.of_flagVar hw02.flagVar, hscr.w1.congr (f12 _ (by nmx hN))⟩
  -- 3. the "Iteration over j" block
  obtain ⟨σ3, S3, run3, st3, p1_3, c1_3, v_3, same3, hpA1_3, hw0_3, hscr3, f3⟩ :=
    inner_blockA ok r hr fuel σ2 S1 n0 (K.d.outPos1 r) hps hfuel st2
      (by rw [← hS1]; simpa [OutSt.set] using hsh.p1) (by rw [← hS1]; simpa [OutSt.set] using hroom)
      (by rw [(same1 .c1 (by simp)).2.2]; exact hsh.c1) (by rw [(same1 .v (by simp)).2.2]; exact hsh.v)
      (hpA0.congr (f12 _ (by nmx hN))) (hpA1.congr (f12 _ (by nmx hN))) (hpB0.congr (f12 _ (by nmx hN)))
      hw02 hscr2
  have f123 := f12.trans f3
  have same13 : Same [.p1, .c1, .v] S S3 := (same1.mono (by simp)).trans same3
  have hpA0_3 : IntVar σ3 (K.n .pA0) n0 :=
    hpA0.congr (f123 _ (by simp only [blockW, inW, midW1]; nmx hN))
  have hi3 : IntVar σ3 (K.n .i) (K.d.crd0 r) :=
    hi.congr (f123 _ (by simp only [blockW, inW, midW1]; nmx hN))
  have ec3 := evalE_flagVal hw0_3
  have hc0_3 : S3.cells .c0 = (K.d.outCrd0 r).map (Val.int : Int → Val F) := by
    rw [(same13 .c0 (by simp)).2.2]; exact hsh.c0
  have hp0_3 : S3.cells .p0 = [.int 0] ∧ S3.cap .p0 = 2 := by
    rw [(same13 .p0 (by simp)).2.2, (same13 .p0 (by simp)).2.1]; exact ⟨hsh.p0, hsh.p0c⟩
  have runB : RunsI fuel (innerBlockA K.j K.outT K.bT) σ2 σ3 (K.d.pos1 (r + 1) - K.d.pos1 r) :=
    Dense1.RunsI.block run3
  have econd : evalE σ (.bin .and (.boolLit true) (.bin .eq (.var (K.n .vB0)) (.var (K.n .i)))) =
      .ok (.bool true) := by
    have := evalE_and (σ := σ) (l := .boolLit true) (a := true) (by simp [evalE])
      (evalE_eqInt (evalE_var_int hvB0 r0 r1) (evalE_var_int hi r0 r1))
    simpa using this
  by_cases hk : K.d.pos1 r < K.d.pos1 (r + 1)
  · -- the row is kept
    have hkeep : K.d.keep r = true := by simp [BData.keep, hk]
    have hd : decide (K.d.pos1 r < K.d.pos1 (r + 1)) = true := by simp [hk]
    rw [hd] at ec3 hw0_3
    -- 4. crd assembly of level 0
    have ac := st3.inv.arr .c0
    rw [hc0_3] at ac
    have hlen0 : ((K.d.outCrd0 r).map (Val.int : Int → Val F)).length = n0 := by
      rw [List.length_map, K.d.outCrd0_length, hn0]
    have hn0c : (n0 : Int) ≤ S3.cap .c0 := by have := ac.le; rw [hlen0] at this; exact this
    have hnd : namesDistinct (out0 K.outT) := by
      unfold namesDistinct
      rw [hidx]
      show [K.n .ac0, K.n .kc0, K.n .pA0, K.n .i].Pairwise (· ≠ ·)
      simp only [List.pairwise_cons, List.Pairwise.nil]
      nmx hN
    obtain ⟨σ4, cb4, cc4, run4', sp, hpA0_4, _⟩ := crdAssembly_runs (out0 K.outT) fuel σ3 (S3.blk .c0)
      (S3.cap .c0) n0 (K.d.crd0 r) ac.inv hpA0_3 (by omega) hn0c (by rw [hidx]; exact hi3) r0 r1
      (by intro h; omega) hnd
    have run4 : RunsI fuel (writeCrdAssembly (out0 K.outT)).finalize σ3 σ4 0 :=
      RunsI.of_runs run4' (by rw [writeCrdAssembly_shape]; rfl)
    have sp' : StorePost σ3 σ4 (arrName K .c0) (capName K .c0) Comp.c0.ety (S3.blk .c0) (S3.cap .c0)
        (((K.d.outCrd0 r).map (Val.int : Int → Val F)).length : Int) (.int (K.d.crd0 r)) cb4 cc4 := by
      rw [hlen0]; exact sp
    have st4 : St K (S3.set .c0 cb4 cc4 ((K.d.outCrd0 (r + 1)).map (Val.int : Int → Val F))) σ4 := by
      refine st3.update hN .c0 ?_ (StorePost.block_cases sp) sp.vars sp.heap sp.len sp.tensors
      rw [K.d.outCrd0_succ_keep hkeep, List.map_append]
      exact ac.of_store sp'
    have f4 : VFrame [K.n .ac0, K.n .kc0] σ3 σ4 := VFrame.of2 sp.vars
    -- 5. p_a_0++
    have hpA0_4' : IntVar σ4 (K.n .pA0) n0 := hpA0_4
    have run5' := Runs.assign_int (fuel := fuel) hpA0_4'
      (evalE_add (evalE_var_int hpA0_4' (by omega) (by omega))
        (evalE_intLit (σ := σ4) (v := 1) (by omega) (by omega)) (by omega) (by omega))
    have run5 := Dense1.RunsI.of_assign run5'
    generalize hσ5 : ({ σ4 with vars := setVar σ4.vars (K.n .pA0) (.int ((n0 : Int) + 1)) } : State F)
      = σ5 at run5
    have f5 : VFrame [K.n .pA0] σ4 σ5 := by
      intro y hy; rw [← hσ5]; exact lookupVar_setVar_other _ (by simpa using hy)
    have hh5 : σ5.heap = σ4.heap := by rw [← hσ5]
    have ht5 : σ5.tensors = σ4.tensors := by rw [← hσ5]
    have hpA0_5 : IntVar σ5 (K.n .pA0) (K.d.kept (r + 1)).length := by
      obtain ⟨rr, e1, e2, _⟩ := hpA0_4'
      rw [← hσ5]
      refine ⟨_, lookupVar_setVar_same _ e1, e2, ?_⟩
      simp [K.d.kept_succ r, hkeep, ← hn0]
    have st5 := st4.vstep f5 (by prot_nm hN) hh5 ht5
    have f45 := f4.trans f5
    refine ⟨σ5, _, ?_, st5, ?_, hpA0_5, hpA1_3.congr (f45 _ (by nmx hN)), ?_, ?_⟩
    · have hbr : RunsI fuel (.branch (.var (K.n .w0))
          (.block [(writeCrdAssembly (out0 K.outT)).finalize, increment (.var (K.n .pA0)) (.intLit 1)] none)
          (.block [] none)) σ3 σ5 (0 + (0 + 0)) :=
        Dense1.RunsI.branch_true ec3 (Dense1.RunsI.block (Dense1.RunsLI.cons run4
          (Dense1.RunsLI.cons run5 (Dense1.RunsLI.nil _ _))))
      have hz : K.d.pos1 (r + 1) - K.d.pos1 r =
          0 + (0 + (K.d.pos1 (r + 1) - K.d.pos1 r + (0 + (0 + 0) + 0))) + 0 := by omega
      rw [hz]
      exact Dense1.RunsLI.cons (Dense1.RunsI.branch_true (f := .block [] none) econd
        (Dense1.RunsI.block (c := none)
        (Dense1.RunsLI.cons run1 (Dense1.RunsLI.cons run2 (Dense1.RunsLI.cons runB
          (Dense1.RunsLI.cons hbr (Dense1.RunsLI.nil _ _))))))) (Dense1.RunsLI.nil _ _)
    · refine ⟨?_, ?_, by simp [OutSt.set], ?_, ?_, ?_⟩
      · simpa [OutSt.set] using hp0_3.1
      · simpa [OutSt.set] using hp0_3.2
      · rw [K.d.outPos1_succ_keep hkeep]; simpa [OutSt.set] using p1_3
      · simpa [OutSt.set] using c1_3
      · simpa [OutSt.set] using v_3
    · exact ⟨hscr3.pB1.congr (f45 _ (by nmx hN)), hscr3.eB1.congr (f45 _ (by nmx hN)),
        hscr3.vB1.congr (f45 _ (by nmx hN)), hscr3.j.congr (f45 _ (by nmx hN)),
        hscr3.w0.congr (f45 _ (by nmx hN)), hscr3.w1.congr (f45 _ (by nmx hN))⟩
    · exact f123.trans f45
  · -- the row is empty: nothing is kept
    have hkeep : K.d.keep r = false := by simp [BData.keep, hk]
    have hd : decide (K.d.pos1 r < K.d.pos1 (r + 1)) = false := by simp [hk]
    rw [hd] at ec3
    have ap3 := st3.inv.arr .p1
    rw [p1_3, List.map_append] at ap3
    have st4 : St K (S3.set .p1 (S3.blk .p1) (S3.cap .p1) ((K.d.outPos1 r).map (Val.int : Int → Val F))) σ3 :=
      st3.update hN .p1 ap3.take (.inl rfl) (fun _ _ _ => rfl) (fun _ _ _ h => h) (Nat.le_refl _) rfl
    refine ⟨σ3, _, ?_, st4, ?_, ?_, hpA1_3, hscr3, ?_⟩
    · have hbr : RunsI fuel (.branch (.var (K.n .w0))
          (.block [(writeCrdAssembly (out0 K.outT)).finalize, increment (.var (K.n .pA0)) (.intLit 1)] none)
          (.block [] none)) σ3 σ3 0 :=
        RunsI.branch_false ec3 (RunsI.skip _ _ _)
      have hz : K.d.pos1 (r + 1) - K.d.pos1 r =
          0 + (0 + (K.d.pos1 (r + 1) - K.d.pos1 r + (0 + 0))) + 0 := by omega
      rw [hz]
      exact Dense1.RunsLI.cons (Dense1.RunsI.branch_true (f := .block [] none) econd
        (Dense1.RunsI.block (c := none)
        (Dense1.RunsLI.cons run1 (Dense1.RunsLI.cons run2 (Dense1.RunsLI.cons runB
          (Dense1.RunsLI.cons hbr (Dense1.RunsLI.nil _ _))))))) (Dense1.RunsLI.nil _ _)
    · refine ⟨?_, ?_, ?_, ?_, ?_, ?_⟩
      · simpa [OutSt.set] using hp0_3.1
      · simpa [OutSt.set] using hp0_3.2
      · rw [K.d.outCrd0_succ_skip hkeep]; simpa [OutSt.set] using hc0_3
      · rw [K.d.outPos1_succ_skip hkeep]; simp [OutSt.set]
      · simpa [OutSt.set] using c1_3
      · simpa [OutSt.set] using v_3
    · rw [K.d.kept_succ r, hkeep]; simpa [← hn0] using hpA0_3
    · exact f123.mono (fun x hx => List.mem_append_left _ hx)

end

end TV.Sparse2
