import TensoraVerif.Lemmas.AsmCmp2Sparse2Post
import TensoraVerif.Lemmas.Sparse2InnerLoop

/-!
C04 for the sparse matrix copy/scale kernels (`Sparse2` class), compute kernel, part 1: the invariant `InvC`
of the computing kernel (no allocation: heap length unchanged, only block `vF` written) and the INNER loop
body step (`mid1_stepC`) and the whole inner loop (`inner_loopC`).
-/
namespace TV.Sparse2
open TV.IR TV.Gen TV.Graph TV.Growth TV.Merge
open TV.Dense1 (TensorVar)

set_option linter.unusedSectionVars false
variable {F : Type} [FloatOps F]

/-- **The invariant of the computing kernel** relative to the state `σ0` at the call, after `q` entries have
been stored. -/
structure InvC (K : Ctx F) (vF : Nat) (σ0 : State F) (q : Nat) (σ : State F) : Prop where
  h0 : σ0.heap = K.heap0
  vne : vF ≠ K.bp0 ∧ vF ≠ K.bc0 ∧ vF ≠ K.bp1 ∧ vF ≠ K.bc1 ∧ vF ≠ K.bv
  tensors : σ.tensors = σ0.tensors
  len : σ.heap.length = σ0.heap.length
  old : ∀ k, k ≠ vF → σ.heap[k]? = σ0.heap[k]?
  vp0 : PtrVar σ (K.n .bp0) K.bp0
  vc0 : PtrVar σ (K.n .bc0) K.bc0
  vp1 : PtrVar σ (K.n .bp1) K.bp1
  vc1 : PtrVar σ (K.n .bc1) K.bc1
  vv : PtrVar σ (K.n .bv) K.bv
  avals : PtrVar σ (K.n .av) vF
  cells : ∃ blk0 blk, σ0.heap[vF]? = some blk0 ∧ σ.heap[vF]? = some blk ∧
    blk0.live = true ∧ blk0.owner = .output ∧ blk0.ty = .float ∧ K.d.nnz ≤ blk0.cells.length ∧
    blk.ty = blk0.ty ∧ blk.owner = blk0.owner ∧ blk.live = blk0.live ∧
    blk.cells.length = blk0.cells.length ∧
    (∀ k, k < q → blk.cells[k]? = some (some (.flt (K.valAt k)))) ∧
    (∀ k, q ≤ k → blk.cells[k]? = blk0.cells[k]?)

/-- the names the invariant looks at -/
def protC (K : Ctx F) : List String := [K.n .bp0, K.n .bc0, K.n .bp1, K.n .bc1, K.n .bv, K.n .av]

theorem InvC.vstep {K : Ctx F} {vF : Nat} {σ0 σ σ' : State F} {q : Nat} {W : List String}
    (h : InvC K vF σ0 q σ) (hv : VFrame W σ σ') (hW : ∀ x ∈ protC K, x ∉ W)
    (hh : σ'.heap = σ.heap) (ht : σ'.tensors = σ.tensors) : InvC K vF σ0 q σ' := by
  simp only [protC, List.forall_mem_cons, List.not_mem_nil, false_imp_iff, implies_true, and_true] at hW
  obtain ⟨w1, w2, w3, w4, w5, w6⟩ := hW
  exact ⟨h.h0, h.vne, ht.trans h.tensors, by rw [hh]; exact h.len, by rw [hh]; exact h.old,
    h.vp0.congr (hv _ w1), h.vc0.congr (hv _ w2), h.vp1.congr (hv _ w3), h.vc1.congr (hv _ w4),
    h.vv.congr (hv _ w5), h.avals.congr (hv _ w6), by rw [hh]; exact h.cells⟩

/-- a block of the initial heap other than `vF` is still there -/
theorem InvC.get {K : Ctx F} {vF : Nat} {σ0 σ : State F} {q : Nat} (h : InvC K vF σ0 q σ) {k : Nat}
    {blk : Block F} (hk : K.heap0[k]? = some blk) (hne : vF ≠ k) : σ.heap[k]? = some blk := by
  rw [h.old k (fun e => hne e.symm), h.h0]; exact hk

theorem noLoop_mid1C (ofRat : Rat → F) (j : String) (outT bT : TensorId) (e : IdExpr) :
    Sparse1.noLoopL [mid1C ofRat j outT bT e] = true := by
  simp [Sparse1.noLoopL, Sparse1.noLoop, mid1C, branch1C, termBlock, termLines, declAssignE, increment]

/-- `∀ x ∈ protC K, x ∉ W` for an explicit list `W` of names -/
macro "protC_nm " hN:term : tactic =>
  `(tactic| (simp only [protC]; nmx $hN))

section step
variable {K : Ctx F}

/-- **The inner loop body step of the computing kernel.** -/
theorem mid1_stepC (ok : K.OK) (fuel : Nat) (σ0 σ : State F) (vF q : Nat) (hq : q < K.d.nnz)
    (hst : InvC K vF σ0 q σ)
    (hpA : IntVar σ (K.n .pA1) q) (hpB : IntVar σ (K.n .pB1) q)
    (hvB : IntVar σ (K.n .vB1) (K.d.crd1 q)) (hj : IntVar σ (K.n .j) (K.d.crd1 q))
    (hw0 : ToIr.FlagVar σ (K.n .w0)) (hw1 : FlagOK σ (K.n .w1)) :
    ∃ σ', RunsL fuel [mid1C K.ofRat K.j K.outT K.bT K.e] σ σ' ∧ InvC K vF σ0 (q + 1) σ' ∧
      IntVar σ' (K.n .pA1) ((q + 1 : Nat) : Int) ∧
      ToIr.FlagTrue σ' (K.n .w0) ∧ ToIr.FlagTrue σ' (K.n .w1) ∧
      VFrame (midW1 K) σ σ' := by
  have hN := ok.names
  obtain ⟨ho1, ho2⟩ := (isSS_iff K.i K.j K.outT).1 ok.ho
  obtain ⟨hl, ⟨hb1, hb2⟩, _, _⟩ := (isExpr_iff K.i K.j K.bT K.e).1 ok.he
  have hnnz := ok.wf.nnz30
  have hne0 : K.e ≠ .int 0 := by
    intro h; rw [h] at hl; simp [ToIr.leaves] at hl
  have holen : K.outT.indexes.length = 2 := by rw [ho1]; rfl
  have hblen : K.bT.indexes.length = 2 := by rw [hb1]; rfl
  obtain ⟨r0, r1⟩ := ok.wf.rng1 q hq
  -- 2. bool written_a_1 = false
  obtain ⟨σ2, r2, hh2, ht2, ⟨rw2, hrw1, hrw2, _⟩, f2'⟩ := Dense1.runsI_declAssign (fuel := fuel)
    (x := K.n .w1) (t := .bool) (e := (.boolLit false : Expr F)) (σ := σ)
    (val := .bool false) (val' := .bool false) hw1 (by simp [evalE]) rfl
  have run2 : Runs fuel (declAssignE (K.n .w1) .bool (.boolLit false)) σ σ2 := by
    obtain ⟨o, e, r, s, _⟩ := r2; exact ⟨o, e, r, s⟩
  have f2 : VFrame [K.n .w1] σ σ2 := VFrame.of1 f2'
  have st2 : InvC K vF σ0 q σ2 := hst.vstep f2 (by protC_nm hN) hh2 ht2
  -- 3. the terminal block
  have hpB2 : IntVar σ2 (K.n .pB1) q := hpB.congr (f2 _ (by nmx hN))
  have hpA2 : IntVar σ2 (K.n .pA1) q := hpA.congr (f2 _ (by nmx hN))
  have hw02 : ToIr.FlagVar σ2 (K.n .w0) := FlagVar.congr hw0 (f2 _ (by nmx hN))
  have hw12 : ToIr.FlagVar σ2 (K.n .w1) := ⟨rw2, hrw1, hrw2⟩
  obtain ⟨bblk, hbblk, hblive, hbty, hbcells⟩ := ok.v
  have hleaf : ∀ t ∈ ToIr.leaves K.e, ToIr.LeafOK σ2 (fun _ => K.d.vals q) t := by
    intro t ht
    rw [hl] at ht
    simp only [List.mem_cons, List.not_mem_nil, or_false] at ht
    subst ht
    refine ToIr.LeafOK.intro (p := q) st2.vv ?_ (by omega) (by omega)
      ⟨bblk, st2.get hbblk st2.vne.2.2.2.2, hblive, hbty, by omega, by simpa using hbcells q hq⟩
    simp only [ToIr.CursorIs, hblen]
    exact hpB2
  obtain ⟨blk0, vblk, hblk0, hvblk, hlive0, hown0, hty0, hlen0, hvty, hvown, hvlive, hvlen, hvdone, hvrest⟩ :=
    st2.cells
  have hcell : ToIr.OutCell σ2 vF (0 + (q : Int)) :=
    ⟨vblk, hvblk, by rw [hvlive]; exact hlive0, by rw [hvown]; exact hown0,
      by rw [hvty]; exact hty0, by omega, by omega⟩
  obtain ⟨tb, o3, htb, e3, ret3, hst3, hheap3, ht3, _, hflag3, _, f3w⟩ :=
    ToIr.terminal_append_sound K.ofRat (fun _ => K.d.vals q) σ2 K.e K.outT .compute rfl 0 fuel vF 0 q hleaf
      (ok.fin q hq) (ToIr.PtrAt.of_ptrVar st2.avals)
      (by
        rw [holen]
        exact evalE_var_int hpA2 (by omega) (by omega))
      hcell
      (by
        intro f hf
        rw [ToIr.activeFlags_ne _ hne0, holen, writtenFlags_eq K.outT ho2] at hf
        simp only [List.mem_cons, List.not_mem_nil, or_false] at hf
        rcases hf with rfl | rfl
        · exact hw02
        · exact hw12)
  rw [holen, lower_terminal_eqC K.ofRat 0 K.outT K.e ho2 holen hne0] at htb
  cases htb
  rw [holen, writtenFlags_eq K.outT ho2] at hflag3 f3w
  have run3 : Runs fuel (termBlock K.ofRat K.outT K.e) σ2 o3.st := ⟨o3, e3, ret3, rfl⟩
  have hcp := ToIr.writeCell_post hcell (.flt (K.valAt q))
  have hlen3 : o3.st.heap.length = σ2.heap.length := by rw [hheap3]; exact hcp.len
  have hother3 : ∀ b', b' ≠ vF → o3.st.heap[b']? = σ2.heap[b']? := by
    intro b' hb'; rw [hheap3]; exact hcp.other b' hb'
  obtain ⟨vblk2, vblk3, hvblk2, hvblk3, hv3ty, hv3own, hv3live, hv3len, hv3cell, hv3cells⟩ := hcp.blk
  replace hvblk3 : o3.st.heap[vF]? = some vblk3 := by rw [hheap3]; exact hvblk3
  rw [hvblk] at hvblk2
  cases hvblk2
  have f3 : VFrame [K.n .w0, K.n .w1] σ2 o3.st := fun y hy => f3w y hy
  have hfl0 : ToIr.FlagTrue o3.st (K.n .w0) := hflag3 hne0 (K.n .w0) List.mem_cons_self
  have hfl1 : ToIr.FlagTrue o3.st (K.n .w1) :=
    hflag3 hne0 (K.n .w1) (List.mem_cons_of_mem _ List.mem_cons_self)
  have hp0' : (0 + (q : Int)).toNat = q := by omega
  have st3 : InvC K vF σ0 (q + 1) o3.st := by
    refine ⟨st2.h0, st2.vne, ht3.trans st2.tensors, by rw [hlen3]; exact st2.len,
      fun k hk => (hother3 k hk).trans (st2.old k hk),
      st2.vp0.congr (f3 _ (by nmx hN)), st2.vc0.congr (f3 _ (by nmx hN)), st2.vp1.congr (f3 _ (by nmx hN)),
      st2.vc1.congr (f3 _ (by nmx hN)), st2.vv.congr (f3 _ (by nmx hN)), st2.avals.congr (f3 _ (by nmx hN)),
      blk0, vblk3, hblk0, hvblk3, hlive0, hown0, hty0, hlen0, by rw [hv3ty, hvty], by rw [hv3own, hvown],
      by rw [hv3live, hvlive], by rw [hv3len, hvlen], ?_, ?_⟩
    · intro k hk
      by_cases hkq : k < q
      · rw [hv3cells k (by omega)]; exact hvdone k hkq
      · have hke : k = q := by omega
        rw [hke]
        have h := hv3cell
        rw [hp0'] at h
        exact h
    · intro k hk
      rw [hv3cells k (by omega)]
      exact hvrest k (by omega)
  have f23 := f2.trans f3
  generalize o3.st = σ3 at *
  -- 5. p_a_1++
  have hpA4' : IntVar σ3 (K.n .pA1) q := hpA.congr (f23 _ (by nmx hN))
  have run5 := Runs.assign_int (fuel := fuel) hpA4'
    (evalE_add (evalE_var_int hpA4' (by omega) (by omega))
      (evalE_intLit (σ := σ3) (v := 1) (by omega) (by omega)) (by omega) (by omega))
  generalize hσ5 : ({ σ3 with vars := setVar σ3.vars (K.n .pA1) (.int ((q : Int) + 1)) } : State F)
    = σ5 at run5
  have f5 : VFrame [K.n .pA1] σ3 σ5 := by
    intro y hy; rw [← hσ5]; exact lookupVar_setVar_other _ (by simpa using hy)
  have hh5 : σ5.heap = σ3.heap := by rw [← hσ5]
  have ht5 : σ5.tensors = σ3.tensors := by rw [← hσ5]
  have hpA5 : IntVar σ5 (K.n .pA1) ((q + 1 : Nat) : Int) := by
    obtain ⟨r, e1, e2, _⟩ := hpA4'
    rw [← hσ5]
    exact ⟨_, lookupVar_setVar_same _ e1, e2, by push_cast; rfl⟩
  have st5 : InvC K vF σ0 (q + 1) σ5 := st3.vstep f5 (by protC_nm hN) hh5 ht5
  -- the run
  have econd : evalE σ (.bin .and (.boolLit true)
      (.bin .eq (.var (K.n .vB1)) (.var (K.n .j)))) = .ok (.bool true) := by
    have := evalE_and (σ := σ) (l := .boolLit true) (a := true) (by simp [evalE])
      (evalE_eqInt (evalE_var_int hvB r0 r1) (evalE_var_int hj r0 r1))
    simpa using this
  have hrun : RunsL fuel [mid1C K.ofRat K.j K.outT K.bT K.e] σ σ5 :=
    RunsL.cons (Runs.branch_true econd (Runs.block (RunsL.cons run2 (RunsL.cons run3
      (RunsL.cons (Runs.branch_true (Sparse1.evalE_var_flag hfl1)
        (Runs.block (RunsL.cons run5 (RunsL.nil _ _)))) (RunsL.nil _ _))))))
      (RunsL.nil _ _)
  refine ⟨σ5, hrun, st5, hpA5, ?_, ?_, ?_⟩
  · exact FlagTrue.congr hfl0 (f5 _ (by nmx hN))
  · exact FlagTrue.congr hfl1 (f5 _ (by nmx hN))
  · refine (f23.trans f5).mono ?_
    intro x hx
    simp only [List.mem_append, List.mem_cons, List.not_mem_nil, or_false] at hx
    simp only [midW1, List.mem_cons, List.not_mem_nil, or_false]
    rcases hx with (rfl | (rfl | rfl)) | rfl <;> simp

end step

/-- the ghost predicate of the computing inner loop at position `q` of row `r` -/
def Q1C (K : Ctx F) (vF : Nat) (σ0 : State F) (r : Nat) (σin : State F) (q : Nat) (σ : State F) : Prop :=
  InvC K vF σ0 q σ ∧
    IntVar σ (K.n .pA1) q ∧ FlagVal σ (K.n .w0) (decide (K.d.pos1 r < q)) ∧ FlagOK σ (K.n .w1) ∧
    VFrame (inW K) σin σ

section
variable {K : Ctx F}

theorem q1_stableC (ok : K.OK) (vF : Nat) (σ0 : State F) (r : Nat) (σin : State F) :
    PosStable (Q1C K vF σ0 r σin) (K.cur1 r) K.j := by
  have hN := ok.names
  intro q σ σ' ⟨hst, h4, h5, h6, h7⟩ hh ht hv
  have hv' : VFrame [K.n .j, K.n .pB1, K.n .vB1] σ σ' := by
    intro y hy
    simp only [List.mem_cons, List.not_mem_nil, or_false, not_or] at hy
    exact hv y hy.1 hy.2.1 hy.2.2
  refine ⟨hst.vstep hv' (by protC_nm hN) hh ht, h4.congr (hv' _ (by nmx hN)),
    h5.congr (hv' _ (by nmx hN)), h6.congr (hv' _ (by nmx hN)), ?_⟩
  intro y hy
  rw [hv' y (fun hm => hy (by simp only [inW, List.mem_append]; exact .inr hm)), h7 y hy]

theorem q1_midC (ok : K.OK) (vF : Nat) (σ0 : State F) (r : Nat) (hr : r < K.d.R) (σin : State F) :
    MidAt 0 (fun _ => 0) (Q1C K vF σ0 r σin) (K.cur1 r) K.j [mid1C K.ofRat K.j K.outT K.bT K.e] := by
  have hN := ok.names
  intro fuel σ q _ hq0 hq hinv hval hidx ⟨hst, h4, h5, h6, h7⟩
  have hcm : curAt (K.cur1 r) q ∈ [curAt (K.cur1 r) q] := List.mem_cons_self
  have hcur := hinv.cur _ hcm
  have hqn : q < K.d.nnz := by
    have := ok.wf.pos_le_nnz (a := r + 1) (by omega)
    have hq' : q < K.d.pos1 (r + 1) := hq
    omega
  have hq0' : K.d.pos1 r ≤ q := hq0
  obtain ⟨σ', ⟨o, eo, ro, so⟩, hst', hpA', hw0', hw1', fr⟩ :=
    mid1_stepC ok fuel σ0 σ vF q hqn hst h4 hcur.ptrv hval hidx h5.flagVar h6
  subst so
  refine ⟨o, eo, ro, Sparse1.execL_noLoop_iters fuel _ σ (noLoop_mid1C _ _ _ _ _) o eo, ?_, ?_, ?_⟩
  · intro x hx
    have hx' : x ∈ [K.n .j, K.n .pB1, K.n .eB1, K.n .bc1, K.n .vB1] := hx
    apply fr
    simp only [List.mem_cons, List.not_mem_nil, or_false] at hx'
    rcases hx' with rfl | rfl | rfl | rfl | rfl <;> (simp only [midW1]; nmx hN)
  · obtain ⟨blk, hb, _⟩ := ok.c1
    show o.st.heap[K.bc1]? = σ.heap[K.bc1]?
    rw [hst'.get hb hst.vne.2.2.2.1, hst.get hb hst.vne.2.2.2.1]
  · refine ⟨hst', hpA', ?_, FlagOK.of_flagVar (FlagVar.of_true hw1'), ?_⟩
    · obtain ⟨rr, e1, e2, e3⟩ := hw0'
      refine ⟨rr, e1, e2, ?_⟩
      rw [e3]
      have : decide (K.d.pos1 r < q + 1) = true := by simp only [decide_eq_true_eq]; omega
      rw [this]
    · intro y hy
      rw [fr y (fun hm => hy (by simp only [inW, List.mem_append]; exact .inl hm)), h7 y hy]

/-- **The inner loop of the computing kernel.** -/
theorem inner_loopC (ok : K.OK) (vF : Nat) (σ0 : State F) (r : Nat) (hr : r < K.d.R) (fuel : Nat)
    (σ : State F)
    (hfuel : (K.d.pos1 (r + 1) - K.d.pos1 r) + 1 ≤ fuel)
    (hst : InvC K vF σ0 (K.d.pos1 r) σ)
    (hpA : IntVar σ (K.n .pA1) (K.d.pos1 r)) (hM : MergeInv σ [K.cur1 r] K.j)
    (hw0 : FlagVal σ (K.n .w0) false) (hw1 : FlagOK σ (K.n .w1)) :
    ∃ o, exec fuel (mergeLoopL [in1 K.bT] K.j [mid1C K.ofRat K.j K.outT K.bT K.e]) σ = .ok o ∧ o.ret = none ∧
      o.iters = K.d.pos1 (r + 1) - K.d.pos1 r ∧
      MergeInv o.st [curAt (K.cur1 r) (K.d.pos1 (r + 1))] K.j ∧
      InvC K vF σ0 (K.d.pos1 (r + 1)) o.st ∧
      IntVar o.st (K.n .pA1) (K.d.pos1 (r + 1)) ∧
      FlagVal o.st (K.n .w0) (decide (K.d.pos1 r < K.d.pos1 (r + 1))) ∧ FlagOK o.st (K.n .w1) ∧
      VFrame (inW K) σ o.st := by
  have hmono := ok.wf.mono r hr
  have hQ : Q1C K vF σ0 r σ (K.d.pos1 r) σ :=
    ⟨hst, hpA, by simpa using hw0, hw1, VFrame.refl _ _⟩
  obtain ⟨o, eo, ro, ito, invo, ⟨h1, h5, h6, h7, h8⟩⟩ :=
    cursor_loop_exact (K.cur1 r) K.j [mid1C K.ofRat K.j K.outT K.bT K.e] (namesOK1 ok.names r)
      (q1_stableC ok vF σ0 r σ) (q1_midC ok vF σ0 r hr σ) (K.d.pos1 (r + 1) - K.d.pos1 r) (K.d.pos1 r) σ fuel
      (by show K.d.pos1 r + _ = K.d.pos1 (r + 1); omega) (Nat.le_refl _) hM hQ (by omega)
  refine ⟨o, eo, ro, by rw [ito, sumFrom_zero]; omega, invo, h1, h5, h6, h7, h8⟩

end

end TV.Sparse2
