import TensoraVerif.Lemmas.AsmCmp2Sparse2CmpOuter
import TensoraVerif.Lemmas.Sparse2Block

/-!
C04 for the sparse matrix copy/scale kernels (`Sparse2` class), compute kernel, part 3: the whole outer loop
(`outer_loopC`) and the iteration block (`iterBlock_runsC`).
-/
namespace TV.Sparse2
open TV.IR TV.Gen TV.Graph TV.Growth TV.Merge
open TV.Dense1 (RunsI RunsLI)

set_option linter.unusedSectionVars false
variable {F : Type} [FloatOps F]

/-- the ghost predicate of the computing outer loop after `r` stored rows -/
def Q0C (K : Ctx F) (vF : Nat) (σ0 : State F) (σin : State F) (r : Nat) (σ : State F) : Prop :=
  InvC K vF σ0 (K.d.pos1 r) σ ∧ IntVar σ (K.n .pA0) (K.d.kept r).length ∧ IntVar σ (K.n .pA1) (K.d.pos1 r) ∧
    Scr K σ ∧ VFrame (outW K) σin σ

section
variable {K : Ctx F}

theorem q0_stableC (ok : K.OK) (vF : Nat) (σ0 σin : State F) : PosStable (Q0C K vF σ0 σin) K.cur0 K.i := by
  have hN := ok.names
  intro q σ σ' ⟨hst, h2, h3, h4, h5⟩ hh ht hv
  have hv' : VFrame [K.n .i, K.n .pB0, K.n .vB0] σ σ' := by
    intro y hy
    simp only [List.mem_cons, List.not_mem_nil, or_false, not_or] at hy
    exact hv y hy.1 hy.2.1 hy.2.2
  refine ⟨hst.vstep hv' (by protC_nm hN) hh ht, h2.congr (hv' _ (by nmx hN)),
    h3.congr (hv' _ (by nmx hN)),
    ⟨h4.pB1.congr (hv' _ (by nmx hN)), h4.eB1.congr (hv' _ (by nmx hN)), h4.vB1.congr (hv' _ (by nmx hN)),
      h4.j.congr (hv' _ (by nmx hN)), h4.w0.congr (hv' _ (by nmx hN)), h4.w1.congr (hv' _ (by nmx hN))⟩, ?_⟩
  intro y hy
  rw [hv' y (fun hm => hy (by simp only [outW, List.mem_append]; exact .inr hm)), h5 y hy]

theorem q0_midC (ok : K.OK) (vF : Nat) (σ0 σin : State F) :
    MidAt (K.d.nnz + 1) (fun r => K.d.pos1 (r + 1) - K.d.pos1 r) (Q0C K vF σ0 σin) K.cur0 K.i
      [mid0C K.ofRat K.i K.j K.outT K.bT K.e] := by
  have hN := ok.names
  intro fuel σ r hfuel _ hq hinv hval hidx ⟨hst, h2, h3, h4, h5⟩
  have hr : r < K.d.R := hq
  have hcm : curAt K.cur0 r ∈ [curAt K.cur0 r] := List.mem_cons_self
  have hcur := hinv.cur _ hcm
  have hle2 := ok.wf.pos_le_nnz (a := r + 1) (by omega)
  obtain ⟨σ', ⟨o, eo, ro, so, ito⟩, hst', hpA0', hpA1', hscr', fr⟩ :=
    mid0_stepC ok vF σ0 r hr fuel σ (by omega) hst h2 h3 hcur.ptrv hval hidx h4
  subst so
  refine ⟨o, eo, ro, ito, ?_, ?_, ?_⟩
  · intro x hx
    have hx' : x ∈ [K.n .i, K.n .pB0, K.n .eB0, K.n .bc0, K.n .vB0] := hx
    apply fr
    simp only [List.mem_cons, List.not_mem_nil, or_false] at hx'
    rcases hx' with rfl | rfl | rfl | rfl | rfl <;> (simp only [midW0, blockW, inW, midW1]; nmx hN)
  · obtain ⟨blk, hb, _⟩ := ok.c0
    show o.st.heap[K.bc0]? = σ.heap[K.bc0]?
    rw [hst'.get hb hst.vne.2.1, hst.get hb hst.vne.2.1]
  · refine ⟨hst', hpA0', hpA1', hscr', ?_⟩
    intro y hy
    rw [fr y (fun hm => hy (by simp only [outW, List.mem_append]; exact .inl hm)), h5 y hy]

/-- **The outer loop of the computing kernel**: exactly `R + nnz` iterations. -/
theorem outer_loopC (ok : K.OK) (vF : Nat) (σ0 : State F) (fuel : Nat) (σ : State F)
    (hfuel : K.d.R + K.d.nnz + 2 ≤ fuel)
    (hst : InvC K vF σ0 0 σ) (hpA0 : IntVar σ (K.n .pA0) 0) (hpA1 : IntVar σ (K.n .pA1) 0)
    (hM : MergeInv σ [K.cur0] K.i) (hscr : Scr K σ) :
    ∃ o, exec fuel (mergeLoopL [in0 K.bT] K.i [mid0C K.ofRat K.i K.j K.outT K.bT K.e]) σ = .ok o ∧
      o.ret = none ∧ o.iters = K.d.R + K.d.nnz ∧ MergeInv o.st [curAt K.cur0 K.d.R] K.i ∧
      InvC K vF σ0 K.d.nnz o.st ∧ IntVar o.st (K.n .pA0) (K.d.kept K.d.R).length ∧
      IntVar o.st (K.n .pA1) K.d.nnz ∧ Scr K o.st ∧ VFrame (outW K) σ o.st := by
  have hQ : Q0C K vF σ0 σ 0 σ := by
    refine ⟨by rw [ok.wf.pos0]; exact hst, by simpa [BData.kept] using hpA0, by rw [ok.wf.pos0]; exact hpA1,
      hscr, VFrame.refl _ _⟩
  obtain ⟨o, eo, ro, ito, invo, ⟨h1, h3, h4, h5, h6⟩⟩ :=
    cursor_loop_exact K.cur0 K.i [mid0C K.ofRat K.i K.j K.outT K.bT K.e] (namesOK0 ok.names)
      (q0_stableC ok vF σ0 σ) (q0_midC ok vF σ0 σ) K.d.R 0 σ fuel (by show 0 + K.d.R = K.d.R; omega)
      (Nat.le_refl _) hM hQ (by omega)
  refine ⟨o, eo, ro, ?_, invo, by rw [← ok.wf.posR]; exact h1, h3, by rw [← ok.wf.posR]; exact h4, h5, h6⟩
  rw [ito, sumFrom_len ok.wf K.d.R 0 (by omega), Nat.zero_add, ok.wf.posR, ok.wf.pos0]
  omega

/-- **the state at the entry of the iteration block of the computing kernel** -/
structure EntryC (K : Ctx F) (vF : Nat) (σ0 σ : State F) : Prop where
  st : InvC K vF σ0 0 σ
  pA0 : IntVar σ (K.n .pA0) 0
  pA1 : IntVar σ (K.n .pA1) 0
  scr : Scr K σ
  dpB0 : DeclOK σ (K.n .pB0)
  deB0 : DeclOK σ (K.n .eB0)
  dvB0 : DeclOK σ (K.n .vB0)
  di : DeclOK σ (K.n .i)

/-- **the iteration block of the computing kernel**: `R + nnz` loop iterations -/
theorem iterBlock_runsC (ok : K.OK) (vF : Nat) (σ0 : State F) (fuel : Nat) (σ : State F)
    (hfuel : K.d.R + K.d.nnz + 2 ≤ fuel) (entry : EntryC K vF σ0 σ) :
    ∃ σ', RunsLI fuel (loopLinesC K.ofRat K.i K.j K.outT K.bT K.e) σ σ' (K.d.R + K.d.nnz) ∧
      InvC K vF σ0 K.d.nnz σ' := by
  have hN := ok.names
  have hR := ok.wf.R30
  have hst := entry.st
  obtain ⟨pblk, hpb, hplive, hpty, hpc0, hpc1⟩ := ok.p0
  obtain ⟨cblk, hcb, hclive, hcty, hclen, hccells⟩ := ok.c0
  have hposOK : PosOK σ K.cur0 K.bp0 0 := by
    refine ⟨hst.vp0, ?_, by omega, by omega, ⟨pblk, hst.get hpb hst.vne.1, hplive, hpty, ?_, ?_⟩⟩
    · simp [PrevIs, Ctx.cur0, in0]
    · simpa [Ctx.cur0] using hpc0
    · simpa [Ctx.cur0] using hpc1
  obtain ⟨oD, eD, rD, itD, curD, frD', hhD, htD⟩ := writeSparseInit_safe K.cur0 fuel σ K.bp0 0 hposOK
    hst.vc0 (Nat.zero_le _) (by show ((K.d.R : Nat) : Int) < 2147483648; omega)
    ⟨cblk, hst.get hcb hst.vne.2.1, hclive, hcty, hclen, fun j _ hj => hccells j hj⟩
    (fun j _ hj => ok.wf.rng0 j hj) entry.dpB0 entry.deB0
  have frD : VFrame [K.n .pB0, K.n .eB0] σ oD.st := VFrame.of2 frD'
  have runD : RunsLI fuel (writeSparseInit (in0 K.bT)).lines σ oD.st 0 := by
    refine ⟨oD, ?_, rD, rfl, itD⟩
    have : (writeSparseInit (F := F) K.cur0.leaf).finalize =
        .block (writeSparseInit (in0 K.bT)).lines none := rfl
    rw [this, exec.eq_5] at eD
    exact eD
  have stD : InvC K vF σ0 0 oD.st := hst.vstep frD (by protC_nm hN) hhD htD
  generalize oD.st = σD at *
  have hM : MergeInv σD [K.cur0] K.i := by
    refine ⟨fun d hd => ?_, fun d hd => ?_, ?_⟩
    · simp only [List.mem_cons, List.not_mem_nil, or_false] at hd; subst hd; exact curD
    · simp only [List.mem_cons, List.not_mem_nil, or_false] at hd; subst hd
      exact entry.dvB0.congr (frD _ (by nmx hN))
    · exact entry.di.congr (frD _ (by nmx hN))
  have hscrD : Scr K σD :=
    ⟨entry.scr.pB1.congr (frD _ (by nmx hN)), entry.scr.eB1.congr (frD _ (by nmx hN)),
      entry.scr.vB1.congr (frD _ (by nmx hN)), entry.scr.j.congr (frD _ (by nmx hN)),
      entry.scr.w0.congr (frD _ (by nmx hN)), entry.scr.w1.congr (frD _ (by nmx hN))⟩
  obtain ⟨oE, eE, rE, itE, _, stE, _, _, _, _⟩ := outer_loopC ok vF σ0 fuel σD hfuel stD
    (entry.pA0.congr (frD _ (by nmx hN))) (entry.pA1.congr (frD _ (by nmx hN))) hM hscrD
  have runE : RunsI fuel (mergeLoopL [in0 K.bT] K.i [mid0C K.ofRat K.i K.j K.outT K.bT K.e]) σD oE.st
      (K.d.R + K.d.nnz) := ⟨oE, eE, rE, rfl, itE⟩
  refine ⟨oE.st, ?_, stE⟩
  have := Dense1.RunsLI.append runD (Dense1.RunsLI.cons runE (Dense1.RunsLI.nil _ _))
  simpa [loopLinesC] using this

end

end TV.Sparse2
