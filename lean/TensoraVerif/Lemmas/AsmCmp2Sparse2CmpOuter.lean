import TensoraVerif.Lemmas.AsmCmp2Sparse2CmpInner
import TensoraVerif.Lemmas.Sparse2OuterStep

/-!
C04 for the sparse matrix copy/scale kernels (`Sparse2` class), compute kernel, part 2: the "Iteration over j"
block inside one outer iteration (`inner_blockC`): inner cursor initialisation and inner loop, NO pos assembly.
-/
namespace TV.Sparse2
open TV.IR TV.Gen TV.Graph TV.Growth TV.Merge
open TV.Dense1 (RunsI RunsLI)

set_option linter.unusedSectionVars false
variable {F : Type} [FloatOps F]

section
variable {K : Ctx F}

/-- **The "Iteration over j" block of one outer iteration of the computing kernel** (stored row `r < R`). -/
theorem inner_blockC (ok : K.OK) (vF : Nat) (σ0 : State F) (r : Nat) (hr : r < K.d.R) (fuel : Nat)
    (σ : State F)
    (hfuel : (K.d.pos1 (r + 1) - K.d.pos1 r) + 1 ≤ fuel)
    (hst : InvC K vF σ0 (K.d.pos1 r) σ)
    (hpA1 : IntVar σ (K.n .pA1) (K.d.pos1 r)) (hpB0 : IntVar σ (K.n .pB0) r)
    (hw0 : FlagVal σ (K.n .w0) false) (hscr : Scr K σ) :
    ∃ σ', RunsLI fuel (innerLinesC K.ofRat K.j K.outT K.bT K.e) σ σ' (K.d.pos1 (r + 1) - K.d.pos1 r) ∧
      InvC K vF σ0 (K.d.pos1 (r + 1)) σ' ∧ IntVar σ' (K.n .pA1) (K.d.pos1 (r + 1)) ∧
      FlagVal σ' (K.n .w0) (decide (K.d.pos1 r < K.d.pos1 (r + 1))) ∧ Scr K σ' ∧ VFrame (blockW K) σ σ' := by
  have hN := ok.names
  have hmono := ok.wf.mono r hr
  have hR := ok.wf.R30
  have hnnz := ok.wf.nnz30
  have hle1 := ok.wf.pos_le_nnz (a := r) (by omega)
  have hle2 := ok.wf.pos_le_nnz (a := r + 1) (by omega)
  -- a. the inner cursors
  obtain ⟨pblk, hpb, hplive, hpty, hpcells⟩ := ok.p1
  obtain ⟨cblk, hcb, hclive, hcty, hclen, hccells⟩ := ok.c1
  have hposOK : PosOK σ (K.cur1 r) K.bp1 r := by
    refine ⟨hst.vp1, ?_, by omega, by omega, ⟨pblk, hst.get hpb hst.vne.2.2.1, hplive, hpty, ?_, ?_⟩⟩
    · exact hpB0
    · simpa [Ctx.cur1] using hpcells r (by omega)
    · simpa [Ctx.cur1] using hpcells (r + 1) (by omega)
  obtain ⟨oD, eD, rD, itD, curD, frD', hhD, htD⟩ := writeSparseInit_safe (K.cur1 r) fuel σ K.bp1 r hposOK
    hst.vc1 hmono (by show ((K.d.pos1 (r + 1) : Nat) : Int) < 2147483648; omega)
    ⟨cblk, hst.get hcb hst.vne.2.2.2.1, hclive, hcty, by show K.d.pos1 (r + 1) ≤ _; omega,
      fun j _ hj => hccells j (by have : j < K.d.pos1 (r + 1) := hj; omega)⟩
    (fun j _ hj => ok.wf.rng1 j (by have : j < K.d.pos1 (r + 1) := hj; omega))
    hscr.pB1 hscr.eB1
  have frD : VFrame [K.n .pB1, K.n .eB1] σ oD.st := VFrame.of2 frD'
  have runD : RunsLI fuel (writeSparseInit (in1 K.bT)).lines σ oD.st 0 := by
    refine ⟨oD, ?_, rD, rfl, itD⟩
    have : (writeSparseInit (F := F) (K.cur1 r).leaf).finalize =
        .block (writeSparseInit (in1 K.bT)).lines none := rfl
    rw [this, exec.eq_5] at eD
    exact eD
  have stD : InvC K vF σ0 (K.d.pos1 r) oD.st := hst.vstep frD (by protC_nm hN) hhD htD
  generalize oD.st = σD at *
  -- b. the inner loop
  have hM : MergeInv σD [K.cur1 r] K.j := by
    refine ⟨fun d hd => ?_, fun d hd => ?_, ?_⟩
    · simp only [List.mem_cons, List.not_mem_nil, or_false] at hd; subst hd; exact curD
    · simp only [List.mem_cons, List.not_mem_nil, or_false] at hd; subst hd
      exact hscr.vB1.congr (frD _ (by nmx hN))
    · exact hscr.j.congr (frD _ (by nmx hN))
  obtain ⟨oE, eE, rE, itE, invE, stE, hpA1E, hw0E, hw1E, frE⟩ :=
    inner_loopC ok vF σ0 r hr fuel σD hfuel stD (hpA1.congr (frD _ (by nmx hN))) hM
      (hw0.congr (frD _ (by nmx hN))) (hscr.w1.congr (frD _ (by nmx hN)))
  have runE : RunsI fuel (mergeLoopL [in1 K.bT] K.j [mid1C K.ofRat K.j K.outT K.bT K.e]) σD oE.st
      (K.d.pos1 (r + 1) - K.d.pos1 r) := ⟨oE, eE, rE, rfl, itE⟩
  generalize oE.st = σE at *
  have frDE := frD.trans frE
  refine ⟨σE, ?_, stE, hpA1E, hw0E, ?_, frDE⟩
  · have := Dense1.RunsLI.append runD (Dense1.RunsLI.cons runE (Dense1.RunsLI.nil _ _))
    simpa [innerLinesC] using this
  · obtain ⟨c, hc⟩ : ∃ c, c = curAt (K.cur1 r) (K.d.pos1 (r + 1)) := ⟨_, rfl⟩
    have hcm : c ∈ [curAt (K.cur1 r) (K.d.pos1 (r + 1))] := by rw [hc]; exact List.mem_cons_self
    have hci := invE.cur c hcm
    have hpB1 : IntVar σE (K.n .pB1) c.p := by rw [hc] at hci ⊢; exact hci.ptrv
    have heB1 : IntVar σE (K.n .eB1) c.e := by rw [hc] at hci ⊢; exact hci.endv
    have hvB1 : DeclOK σE (K.n .vB1) := by have := invE.val c hcm; rw [hc] at this; exact this
    exact ⟨DeclOK.of_intVar hpB1, DeclOK.of_intVar heB1, hvB1, invE.idx,
      FlagOK.of_flagVar hw0E.flagVar, hw1E⟩

end

section
variable {K : Ctx F}

/-- **The outer loop body step of the computing kernel** (stored row `r < R`). -/
theorem mid0_stepC (ok : K.OK) (vF : Nat) (σ0 : State F) (r : Nat) (hr : r < K.d.R) (fuel : Nat) (σ : State F)
    (hfuel : (K.d.pos1 (r + 1) - K.d.pos1 r) + 1 ≤ fuel)
    (hst : InvC K vF σ0 (K.d.pos1 r) σ)
    (hpA0 : IntVar σ (K.n .pA0) (K.d.kept r).length) (hpA1 : IntVar σ (K.n .pA1) (K.d.pos1 r))
    (hpB0 : IntVar σ (K.n .pB0) r) (hvB0 : IntVar σ (K.n .vB0) (K.d.crd0 r))
    (hi : IntVar σ (K.n .i) (K.d.crd0 r)) (hscr : Scr K σ) :
    ∃ σ', RunsLI fuel [mid0C K.ofRat K.i K.j K.outT K.bT K.e] σ σ' (K.d.pos1 (r + 1) - K.d.pos1 r) ∧
      InvC K vF σ0 (K.d.pos1 (r + 1)) σ' ∧
      IntVar σ' (K.n .pA0) (K.d.kept (r + 1)).length ∧ IntVar σ' (K.n .pA1) (K.d.pos1 (r + 1)) ∧
      Scr K σ' ∧ VFrame (midW0 K) σ σ' := by
  have hN := ok.names
  have hR := ok.wf.R30
  have hmono := ok.wf.mono r hr
  obtain ⟨r0, r1⟩ := ok.wf.rng0 r hr
  obtain ⟨n0, hn0⟩ : ∃ n0, n0 = (K.d.kept r).length := ⟨_, rfl⟩
  have hn0r : n0 ≤ r := by rw [hn0]; exact K.d.kept_length_le r
  rw [← hn0] at hpA0
  -- 2. bool written_a_0 = false
  obtain ⟨σ2, run2, hh2, ht2, ⟨rw2, hrw1, hrw2, hrw3⟩, f2'⟩ := Dense1.runsI_declAssign (fuel := fuel)
    (x := K.n .w0) (t := .bool) (e := (.boolLit false : Expr F)) (σ := σ)
    (val := .bool false) (val' := .bool false) hscr.w0 (by simp [evalE]) rfl
  have f12 : VFrame [K.n .w0] σ σ2 := VFrame.of1 f2'
  have st2 : InvC K vF σ0 (K.d.pos1 r) σ2 := hst.vstep f12 (by protC_nm hN) hh2 ht2
  have hw02 : FlagVal σ2 (K.n .w0) false := ⟨rw2, hrw1, hrw2, hrw3⟩
  have hscr2 : Scr K σ2 :=
    ⟨hscr.pB1.congr (f12 _ (by nmx hN)), hscr.eB1.congr (f12 _ (by nmx hN)), hscr.vB1.congr (f12 _ (by nmx hN)),
      hscr.j.congr (f12 _ (by nmx hN)), FlagOK.of_flagVar hw02.flagVar, hscr.w1.congr (f12 _ (by nmx hN))⟩
  -- 3. the "Iteration over j" block
  obtain ⟨σ3, run3, st3, hpA1_3, hw0_3, hscr3, f3⟩ :=
    inner_blockC ok vF σ0 r hr fuel σ2 hfuel st2
      (hpA1.congr (f12 _ (by nmx hN))) (hpB0.congr (f12 _ (by nmx hN))) hw02 hscr2
  have f123 := f12.trans f3
  have hpA0_3 : IntVar σ3 (K.n .pA0) n0 :=
    hpA0.congr (f123 _ (by simp only [blockW, inW, midW1]; nmx hN))
  have ec3 := evalE_flagVal hw0_3
  have runB : RunsI fuel (innerBlockC K.ofRat K.j K.outT K.bT K.e) σ2 σ3 (K.d.pos1 (r + 1) - K.d.pos1 r) :=
    Dense1.RunsI.block run3
  have econd : evalE σ (.bin .and (.boolLit true) (.bin .eq (.var (K.n .vB0)) (.var (K.n .i)))) =
      .ok (.bool true) := by
    have := evalE_and (σ := σ) (l := .boolLit true) (a := true) (by simp [evalE])
      (evalE_eqInt (evalE_var_int hvB0 r0 r1) (evalE_var_int hi r0 r1))
    simpa using this
  have hsub : ∀ x, x ∈ [K.n .w0] ++ blockW K → x ∈ midW0 K := by
    intro x hx
    simp only [midW0, List.mem_append] at hx ⊢
    rcases hx with hx | hx
    · exact .inl (.inl (.inr hx))
    · exact .inl (.inr (by simpa [List.mem_append] using hx))
  by_cases hk : K.d.pos1 r < K.d.pos1 (r + 1)
  · -- the row is kept
    have hkeep : K.d.keep r = true := by simp [BData.keep, hk]
    have hd : decide (K.d.pos1 r < K.d.pos1 (r + 1)) = true := by simp [hk]
    rw [hd] at ec3 hw0_3
    -- 5. p_a_0++
    have run5' := Runs.assign_int (fuel := fuel) hpA0_3
      (evalE_add (evalE_var_int hpA0_3 (by omega) (by omega))
        (evalE_intLit (σ := σ3) (v := 1) (by omega) (by omega)) (by omega) (by omega))
    have run5 := Dense1.RunsI.of_assign run5'
    generalize hσ5 : ({ σ3 with vars := setVar σ3.vars (K.n .pA0) (.int ((n0 : Int) + 1)) } : State F)
      = σ5 at run5
    have f5 : VFrame [K.n .pA0] σ3 σ5 := by
      intro y hy; rw [← hσ5]; exact lookupVar_setVar_other _ (by simpa using hy)
    have hh5 : σ5.heap = σ3.heap := by rw [← hσ5]
    have ht5 : σ5.tensors = σ3.tensors := by rw [← hσ5]
    have hpA0_5 : IntVar σ5 (K.n .pA0) (K.d.kept (r + 1)).length := by
      obtain ⟨rr, e1, e2, _⟩ := hpA0_3
      rw [← hσ5]
      refine ⟨_, lookupVar_setVar_same _ e1, e2, ?_⟩
      simp [K.d.kept_succ r, hkeep, ← hn0]
    have st5 := st3.vstep f5 (by protC_nm hN) hh5 ht5
    refine ⟨σ5, ?_, st5, hpA0_5, hpA1_3.congr (f5 _ (by nmx hN)), ?_, ?_⟩
    · have hbr : RunsI fuel (.branch (.var (K.n .w0))
          (.block [increment (.var (K.n .pA0)) (.intLit 1)] none)
          (.block [] none)) σ3 σ5 (0 + 0) :=
        Dense1.RunsI.branch_true ec3 (Dense1.RunsI.block
          (Dense1.RunsLI.cons run5 (Dense1.RunsLI.nil _ _)))
      have hz : K.d.pos1 (r + 1) - K.d.pos1 r =
          (0 + (K.d.pos1 (r + 1) - K.d.pos1 r + (0 + 0 + 0))) + 0 := by omega
      rw [hz]
      exact Dense1.RunsLI.cons (Dense1.RunsI.branch_true (f := .block [] none) econd
        (Dense1.RunsI.block (c := none)
        (Dense1.RunsLI.cons run2 (Dense1.RunsLI.cons runB
          (Dense1.RunsLI.cons hbr (Dense1.RunsLI.nil _ _)))))) (Dense1.RunsLI.nil _ _)
    · exact ⟨hscr3.pB1.congr (f5 _ (by nmx hN)), hscr3.eB1.congr (f5 _ (by nmx hN)),
        hscr3.vB1.congr (f5 _ (by nmx hN)), hscr3.j.congr (f5 _ (by nmx hN)),
        hscr3.w0.congr (f5 _ (by nmx hN)), hscr3.w1.congr (f5 _ (by nmx hN))⟩
    · refine (f123.trans f5).mono ?_
      intro x hx
      rw [List.mem_append] at hx
      rcases hx with hx | hx
      · exact hsub x hx
      · simp only [midW0, List.mem_append]; exact .inr (.inr hx)
  · -- the row is empty: nothing is kept
    have hkeep : K.d.keep r = false := by simp [BData.keep, hk]
    have hd : decide (K.d.pos1 r < K.d.pos1 (r + 1)) = false := by simp [hk]
    rw [hd] at ec3
    refine ⟨σ3, ?_, st3, ?_, hpA1_3, hscr3, ?_⟩
    · have hbr : RunsI fuel (.branch (.var (K.n .w0))
          (.block [increment (.var (K.n .pA0)) (.intLit 1)] none)
          (.block [] none)) σ3 σ3 0 :=
        RunsI.branch_false ec3 (RunsI.skip _ _ _)
      have hz : K.d.pos1 (r + 1) - K.d.pos1 r =
          (0 + (K.d.pos1 (r + 1) - K.d.pos1 r + (0 + 0))) + 0 := by omega
      rw [hz]
      exact Dense1.RunsLI.cons (Dense1.RunsI.branch_true (f := .block [] none) econd
        (Dense1.RunsI.block (c := none)
        (Dense1.RunsLI.cons run2 (Dense1.RunsLI.cons runB
          (Dense1.RunsLI.cons hbr (Dense1.RunsLI.nil _ _)))))) (Dense1.RunsLI.nil _ _)
    · rw [K.d.kept_succ r, hkeep]; simpa [← hn0] using hpA0_3
    · exact f123.mono hsub

end

end TV.Sparse2
