import TensoraVerif.Lemmas.AsmCmp2Sparse2CmpLoop
import TensoraVerif.Lemmas.Sparse2Kernel

/-!
C04 for the sparse matrix copy/scale kernels (`Sparse2` class), compute kernel, part 4: the prologue
(`prologue_runsC`) and the whole `compute` function on the machine (`kernel_runsC`), from `InitC` to
`KernelPostC`.
-/
namespace TV.Sparse2
open TV.IR TV.Gen TV.Graph TV.Growth TV.Merge TV.Dense1
open TV.Sparse1 (capVal declFresh evalE_default)

set_option linter.unusedSectionVars false
variable {F : Type} [FloatOps F]

section
variable {K : Ctx F}

/-- **the first two blocks of the prologue** -/
theorem prologue1_runsC (ok : K.OK) {atr btr : TensorRec F} {tb : Nat} {n m : Int} {σ : State F}
    (init : Init K atr btr tb n m σ) {vF : Nat} (hav : atr.vals = .ptr vF 0) (fuel : Nat) :
    ∃ σB, RunsLI fuel
        [.block (dimStmts K.i K.j K.outT) (some "Extract dimensions"),
         .block (unpackStmts K.outT.name ++ unpackStmts K.bT.name) (some "Unpack tensors")] σ σB 0 ∧
      σB.heap = σ.heap ∧ σB.tensors = σ.tensors ∧ VFrame (proW1 K) σ σB ∧
      (∀ c ∈ [Nm.ap0, .ac0, .ap1, .ac1], ∃ r, lookupVar σB.vars (K.n c) = some r ∧ r.ty = .ptr .int) ∧
      PtrVar σB (K.n .av) vF ∧
      PtrVar σB (K.n .bp0) K.bp0 ∧ PtrVar σB (K.n .bc0) K.bc0 ∧ PtrVar σB (K.n .bp1) K.bp1 ∧
      PtrVar σB (K.n .bc1) K.bc1 ∧ PtrVar σB (K.n .bv) K.bv := by
  have hN := ok.names
  have hfr : ∀ c : Nm, c ≠ .a → c ≠ .b → lookupVar σ.vars (K.n c) = none := by
    intro c h1 h2
    exact init.fresh _ (by nmx hN; exact h1) (by nmx hN; exact h2)
  obtain ⟨dblk, hdb, hdlive, hdty, hdc0, hdc1⟩ := init.adim
  obtain ⟨ap0, ac0, hasl0, hap0, hac0⟩ := init.aslot0
  obtain ⟨ap1, ac1, hasl1, hap1, hac1⟩ := init.aslot1
  have harec : σ.tensors[K.ta]? = some atr := by rw [init.tensors]; exact init.arec
  have hbrec : σ.tensors[tb]? = some btr := by rw [init.tensors]; exact init.brec
  -- A: the dimension variables
  obtain ⟨σA1, rA1, hhA1, htA1, _, oA1⟩ := declFresh (fuel := fuel) (x := K.n .di) (t := .int) (val' := .int n)
    (hfr _ (by decide) (by decide))
    (evalE_dim 0 init.avar harec (by rw [init.heap]; exact hdb) hdlive hdty hdc0 (by omega) init.n32.1 init.n32.2)
    rfl
  have fA1 : VFrame [K.n .di] σ σA1 := VFrame.of1 oA1
  obtain ⟨σA, rA2, hhA2, htA2, _, oA2⟩ := declFresh (fuel := fuel) (x := K.n .dj) (t := .int) (val' := .int m)
    (σ := σA1) (by rw [fA1 _ (by nmx hN)]; exact hfr _ (by decide) (by decide))
    (evalE_dim 1 (init.avar.congr (fA1 _ (by nmx hN))) (by rw [htA1]; exact harec)
      (by rw [hhA1, init.heap]; exact hdb) hdlive hdty hdc1 (by omega) init.m32.1 init.m32.2) rfl
  have fA := fA1.trans (VFrame.of1 oA2)
  have hhA : σA.heap = σ.heap := by rw [hhA2, hhA1]
  have htA : σA.tensors = σ.tensors := by rw [htA2, htA1]
  -- B: unpack the output
  have hndA : [K.n .a, posName (K.n .a) 0, crdName (K.n .a) 0, posName (K.n .a) 1, crdName (K.n .a) 1,
      valsName (K.n .a)].Nodup := by
    show [K.n .a, K.n .ap0, K.n .ac0, K.n .ap1, K.n .ac1, K.n .av].Nodup
    simp only [List.nodup_cons, List.nodup_nil]
    nmx hN
  obtain ⟨σB1, rB1, hhB1, htB1, vp0, vc0, vp1, vc1, vv, fB1'⟩ := unpack2_runs (fuel := fuel) (σ := σA)
    (init.avar.congr (fA _ (by nmx hN))) (by rw [htA]; exact harec) init.aord hasl0 hasl1 hap0 hac0 hap1 hac1
    init.avals hndA
    (by show lookupVar σA.vars (K.n .ap0) = none; rw [fA _ (by nmx hN)]; exact hfr _ (by decide) (by decide))
    (by show lookupVar σA.vars (K.n .ac0) = none; rw [fA _ (by nmx hN)]; exact hfr _ (by decide) (by decide))
    (by show lookupVar σA.vars (K.n .ap1) = none; rw [fA _ (by nmx hN)]; exact hfr _ (by decide) (by decide))
    (by show lookupVar σA.vars (K.n .ac1) = none; rw [fA _ (by nmx hN)]; exact hfr _ (by decide) (by decide))
    (by show lookupVar σA.vars (K.n .av) = none; rw [fA _ (by nmx hN)]; exact hfr _ (by decide) (by decide))
  have fB1 : VFrame [K.n .ap0, K.n .ac0, K.n .ap1, K.n .ac1, K.n .av] σA σB1 := fB1'
  have fAB1 := fA.trans fB1
  -- B: unpack the input
  have hndB : [K.n .b, posName (K.n .b) 0, crdName (K.n .b) 0, posName (K.n .b) 1, crdName (K.n .b) 1,
      valsName (K.n .b)].Nodup := by
    show [K.n .b, K.n .bp0, K.n .bc0, K.n .bp1, K.n .bc1, K.n .bv].Nodup
    simp only [List.nodup_cons, List.nodup_nil]
    nmx hN
  obtain ⟨σB, rB2, hhB2, htB2, wp0, wc0, wp1, wc1, wv, fB2'⟩ := unpack2_runs (fuel := fuel) (σ := σB1)
    (init.bvar.congr (fAB1 _ (by nmx hN))) (by rw [htB1, htA]; exact hbrec) init.bord init.bslot0 init.bslot1
    rfl rfl rfl rfl (by rw [init.bvals]; rfl) hndB
    (by show lookupVar σB1.vars (K.n .bp0) = none; rw [fAB1 _ (by nmx hN)]; exact hfr _ (by decide) (by decide))
    (by show lookupVar σB1.vars (K.n .bc0) = none; rw [fAB1 _ (by nmx hN)]; exact hfr _ (by decide) (by decide))
    (by show lookupVar σB1.vars (K.n .bp1) = none; rw [fAB1 _ (by nmx hN)]; exact hfr _ (by decide) (by decide))
    (by show lookupVar σB1.vars (K.n .bc1) = none; rw [fAB1 _ (by nmx hN)]; exact hfr _ (by decide) (by decide))
    (by show lookupVar σB1.vars (K.n .bv) = none; rw [fAB1 _ (by nmx hN)]; exact hfr _ (by decide) (by decide))
  have fB2 : VFrame [K.n .bp0, K.n .bc0, K.n .bp1, K.n .bc1, K.n .bv] σB1 σB := fB2'
  refine ⟨σB, ?_, by rw [hhB2, hhB1, hhA], by rw [htB2, htB1, htA], fAB1.trans fB2, ?_, ?_,
    ptrVar_of wp0, ptrVar_of wc0, ptrVar_of wp1, ptrVar_of wc1, ?_⟩
  · exact RunsLI.cons (RunsI.block (RunsLI.cons rA1 (RunsLI.cons rA2 (RunsLI.nil _ _))))
      (RunsLI.cons (RunsI.block (RunsLI.append rB1 rB2)) (RunsLI.nil _ _))
  · intro c hc
    simp only [List.mem_cons, List.not_mem_nil, or_false] at hc
    rcases hc with rfl | rfl | rfl | rfl
    · obtain ⟨r, e1, e2, _⟩ := vp0; exact ⟨r, by rw [fB2 _ (by nmx hN)]; exact e1, e2⟩
    · obtain ⟨r, e1, e2, _⟩ := vc0; exact ⟨r, by rw [fB2 _ (by nmx hN)]; exact e1, e2⟩
    · obtain ⟨r, e1, e2, _⟩ := vp1; exact ⟨r, by rw [fB2 _ (by nmx hN)]; exact e1, e2⟩
    · obtain ⟨r, e1, e2, _⟩ := vc1; exact ⟨r, by rw [fB2 _ (by nmx hN)]; exact e1, e2⟩
  · refine ptrVar_of (t := .float) ?_
    obtain ⟨r, e1, e2, e3⟩ := vv
    exact ⟨r, by rw [fB2 _ (by nmx hN)]; exact e1, e2, by rw [e3, hav]⟩
  · refine ptrVar_of (t := .float) ?_
    obtain ⟨r, e1, e2, e3⟩ := wv
    exact ⟨r, e1, e2, by rw [e3, init.bvals]⟩


/-- **The prologue of the computing kernel**: from `InitC` to `EntryC`. -/
theorem prologue_runsC (ok : K.OK)
    {atr btr : TensorRec F} {tb : Nat} {n m : Int} {r vF : Nat} {σ : State F}
    (init : InitC K atr btr tb n m r vF σ) (hr : K.d.nnz ≤ r) (fuel : Nat) :
    ∃ σC, RunsLI fuel
        [.block (dimStmts K.i K.j K.outT) (some "Extract dimensions"),
         .block (unpackStmts K.outT.name ++ unpackStmts K.bT.name) (some "Unpack tensors"),
         .block (outInitC K.outT) (some "Output initialization")] σ σC 0 ∧
      EntryC K vF σ σC := by
  have hN := ok.names
  obtain ⟨σB, rB, hhB, htB, fB, hint, hav, b1, b2, b3, b4, b5⟩ :=
    prologue1_runsC ok init.base init.avalsPtr fuel
  have hfr : ∀ c ∈ locals, lookupVar σB.vars (K.n c) = none := by
    have hall : ∀ c ∈ locals, K.n c ∉ proW1 K ∧ K.n c ≠ K.n .a ∧ K.n c ≠ K.n .b := by
      simp only [locals, proW1]
      nmx hN
    intro c hc
    obtain ⟨h1, h2, h3⟩ := hall c hc
    rw [fB _ h1]; exact init.base.fresh _ h2 h3
  -- int p_a_0 = 0
  obtain ⟨σ4, r4, hh4, ht4, vp4, o4⟩ := declFresh (fuel := fuel) (x := K.n .pA0) (t := .int) (σ := σB)
    (val' := .int 0) (hfr .pA0 (by simp [locals]))
    (evalE_intLit (by omega) (by omega)) rfl
  have vp4' : IntVar σ4 (K.n .pA0) 0 := vp4
  have f4 : VFrame [K.n .pA0] σB σ4 := VFrame.of1 o4
  -- int p_a_1 = 0
  obtain ⟨σ8, r8, hh8, ht8, vp8, o8⟩ := declFresh (fuel := fuel) (x := K.n .pA1) (t := .int) (σ := σ4)
    (val' := .int 0) (by rw [f4 _ (by nmx hN)]; exact hfr .pA1 (by simp [locals]))
    (evalE_intLit (by omega) (by omega)) rfl
  have vp8' : IntVar σ8 (K.n .pA1) 0 := vp8
  have f8 : VFrame [K.n .pA1] σ4 σ8 := VFrame.of1 o8
  have fall := f4.trans f8
  have hheap : σ8.heap = σ.heap := by rw [hh8, hh4, hhB]
  have htens : σ8.tensors = σ.tensors := by rw [ht8, ht4, htB]
  have hnone : ∀ c ∈ locals, (K.n c ∉ [K.n .pA0] ++ [K.n .pA1]) → lookupVar σ8.vars (K.n c) = none := by
    intro c hc hw
    rw [fall _ hw]; exact hfr c hc
  obtain ⟨blk, hblk, hlive, hown, hty, hlen⟩ := init.vblk
  have inv : InvC K vF σ 0 σ8 :=
    ⟨init.base.heap, init.vne, htens, by rw [hheap], fun k _ => by rw [hheap],
      b1.congr (fall _ (by nmx hN)), b2.congr (fall _ (by nmx hN)), b3.congr (fall _ (by nmx hN)),
      b4.congr (fall _ (by nmx hN)), b5.congr (fall _ (by nmx hN)), hav.congr (fall _ (by nmx hN)),
      blk, blk, hblk, by rw [hheap]; exact hblk, hlive, hown, hty, by omega, rfl, rfl, rfl, rfl,
      fun k hk => by omega, fun k _ => rfl⟩
  refine ⟨σ8, ?_, ⟨inv, vp4'.congr (f8 _ (by nmx hN)), vp8', ?_, ?_, ?_, ?_, ?_⟩⟩
  · have := RunsLI.append rB (RunsLI.cons (RunsI.block (c := some "Output initialization")
      (RunsLI.cons r4 (RunsLI.cons r8 (RunsLI.nil _ _)))) (RunsLI.nil _ _))
    exact this
  · exact ⟨declOK_of_none (hnone .pB1 (by simp [locals]) (by nmx hN)),
      declOK_of_none (hnone .eB1 (by simp [locals]) (by nmx hN)),
      declOK_of_none (hnone .vB1 (by simp [locals]) (by nmx hN)),
      declOK_of_none (hnone .j (by simp [locals]) (by nmx hN)),
      flagOK_of_none (hnone .w0 (by simp [locals]) (by nmx hN)),
      flagOK_of_none (hnone .w1 (by simp [locals]) (by nmx hN))⟩
  · exact declOK_of_none (hnone .pB0 (by simp [locals]) (by nmx hN))
  · exact declOK_of_none (hnone .eB0 (by simp [locals]) (by nmx hN))
  · exact declOK_of_none (hnone .vB0 (by simp [locals]) (by nmx hN))
  · exact declOK_of_none (hnone .i (by simp [locals]) (by nmx hN))

end

/-- **the whole `compute` function on the machine** -/
theorem kernel_runsC {K : Ctx F} (ok : K.OK) (formats : Formats)
    (hfmt : formats.map (·.1) = [K.outT.name, K.bT.name])
    {atr btr : TensorRec F} {tb : Nat} {n m : Int} {r vF : Nat} {σ : State F}
    (init : InitC K atr btr tb n m r vF σ) (hr : K.d.nnz ≤ r)
    (fuel : Nat) (hfuel : K.d.R + K.d.nnz + 2 ≤ fuel) :
    ∃ o, exec fuel (kernelC K.ofRat formats K.i K.j K.outT K.bT K.e).body σ = .ok o ∧
      o.ret = some (.int 0) ∧ o.iters = K.d.R + K.d.nnz ∧ KernelPostC K vF σ o.st := by
  obtain ⟨σC, rC, entry⟩ := prologue_runsC ok init hr fuel
  obtain ⟨σF, rF, stF⟩ := iterBlock_runsC ok vF σ fuel σC hfuel entry
  have hunp : (formats.flatMap fun f => unpackStmts (F := F) f.1) =
      unpackStmts K.outT.name ++ unpackStmts K.bT.name := by
    have : (formats.flatMap fun f => unpackStmts (F := F) f.1) =
        (formats.map (·.1)).flatMap unpackStmts := by
      rw [List.flatMap_map]
    rw [this, hfmt]
    simp
  have rAll : RunsLI fuel (kernelStmtsC K.ofRat formats K.i K.j K.outT K.bT K.e) σ σF
      (0 + (K.d.R + K.d.nnz + (0 + 0))) := by
    unfold kernelStmtsC
    rw [hunp]
    have h3 := RunsLI.append rC (RunsLI.cons (RunsI.block
      (c := some ("*** Iteration over " ++ K.i ++ " ***")) rF)
      (RunsLI.cons (RunsI.block (c := some ("Assembling output tensor " ++ K.outT.name))
        (RunsLI.nil fuel σF)) (RunsLI.nil _ _)))
    simpa using h3
  obtain ⟨o, eo, hret, hst, hit⟩ := execL_ret (e := .intLit 0) (v := .int 0) rAll
    (evalE_intLit (by omega) (by omega))
  obtain ⟨blk0, blk, c1, c2, _, _, _, _, c3, c4, c5, c6, c7, c8⟩ := stF.cells
  refine ⟨o, ?_, hret, by rw [hit]; omega, by
    rw [hst]
    exact ⟨stF.tensors, stF.len, stF.old, blk0, blk, c1, c2, c3, c4, c5, c6, c7, c8⟩⟩
  show exec fuel (.block (kernelStmtsC K.ofRat formats K.i K.j K.outT K.bT K.e ++ [.ret (.intLit 0)]) none) σ = _
  rw [exec.eq_5]
  exact eo

end TV.Sparse2
