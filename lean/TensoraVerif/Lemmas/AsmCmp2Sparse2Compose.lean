import TensoraVerif.Lemmas.AsmCmp2Sparse2Post
import TensoraVerif.Lemmas.AsmCmpCompose

/-!
C04 for the sparse matrix copy/scale kernels (`Sparse2` class), part 6: composing kernel calls
(`AsmCmp.nextCall σ σ'` = the state in which the NEXT kernel call starts after a call `σ → σ'`).
`Ctx.next K σ'` is the call context of the next call (same kernel, same input structure, memory as `σ'` left
it); `initC_after_assemble`: the state after the assembling kernel is a valid initial state of the computing
kernel; `InitC.transport`: `InitC` only depends on the parameter variables, the tensor records, the output's
dimensions block and the output's `vals` block, so it survives a call of the computing kernel and a change of the
input VALUES.
-/
namespace TV.Sparse2
open TV.IR TV.Gen TV.Graph TV.Growth TV.Merge TV.Dense1
open TV.AsmCmp (nextCall)
set_option linter.unusedSectionVars false
variable {F : Type} [FloatOps F]

/-- the call context of a later call: same kernel, input structure `d'`, memory of the state `σ'` -/
def Ctx.next (K : Ctx F) (d' : BData F) (σ' : State F) : Ctx F :=
  { K with d := d', heap0 := σ'.heap, tensors0 := σ'.tensors }

/-- the static hypotheses survive every call that leaves the blocks of the initial heap unchanged -/
theorem Ctx.OK.next {K : Ctx F} (ok : K.OK) {σ' : State F}
    (heap : ∀ k, k < K.heap0.length → σ'.heap[k]? = K.heap0[k]?) : (K.next K.d σ').OK := by
  have old : ∀ {k : Nat} {blk : Block F}, K.heap0[k]? = some blk → σ'.heap[k]? = some blk := by
    intro k blk hk
    rw [heap k (lt_length_of_getElem? hk)]; exact hk
  obtain ⟨b1, h1, r1⟩ := ok.p0
  obtain ⟨b2, h2, r2⟩ := ok.c0
  obtain ⟨b3, h3, r3⟩ := ok.p1
  obtain ⟨b4, h4, r4⟩ := ok.c1
  obtain ⟨b5, h5, r5⟩ := ok.v
  exact ⟨ok.names, ok.ho, ok.he, ok.wf, ok.fin, ⟨b1, old h1, r1⟩, ⟨b2, old h2, r2⟩, ⟨b3, old h3, r3⟩,
    ⟨b4, old h4, r4⟩, ⟨b5, old h5, r5⟩⟩

/-- **After `assemble`, `compute` may be called.** If `σ` is a kernel-call state (`Init`) with different
records for output and input and the assembling kernel took it to `σ'` (`KernelPostA`), then the next call
state satisfies `InitC` (in the context `K.next K.d σ'`, with `r = nnz`) for the new output record `tr'`, whose
slots/`vals` are the fresh blocks described by `KernelPostA`. -/
theorem initC_after_assemble {K : Ctx F} (ok : K.OK) {atr btr : TensorRec F} {tb : Nat} {n m : Int}
    {σ σ' : State F} (init : Init K atr btr tb n m σ) (hab : K.ta ≠ tb) (post : KernelPostA K atr σ') :
    ∃ tr' p0 c0 p1 c1 v vblk, σ'.tensors[K.ta]? = some tr' ∧ tr'.owner = .output ∧
      tr'.order = atr.order ∧ tr'.dimsBlk = atr.dimsBlk ∧
      tr'.slots = (atr.slots.set 0 (some (.ptr p0 0, .ptr c0 0))).set 1 (some (.ptr p1 0, .ptr c1 0)) ∧
      tr'.vals = .ptr v 0 ∧
      [p0, c0, p1, c1, v].Nodup ∧ (∀ x ∈ [p0, c0, p1, c1, v], K.heap0.length ≤ x) ∧
      σ'.heap[p0]? = some ⟨.int, [some (.int 0), some (.int ((K.d.kept K.d.R).length : Int))], .output, true⟩ ∧
      σ'.heap[c0]? = some ⟨.int, (K.d.outCrd0 K.d.R).map (fun z => some (.int z)), .output, true⟩ ∧
      σ'.heap[p1]? = some ⟨.int, (K.d.outPos1 K.d.R).map (fun z => some (.int z)), .output, true⟩ ∧
      σ'.heap[c1]? = some ⟨.int, (List.range K.d.nnz).map (fun q => some (.int (K.d.crd1 q))), .output, true⟩ ∧
      σ'.heap[v]? = some vblk ∧ vblk.live = true ∧ vblk.owner = .output ∧ vblk.ty = .float ∧
      vblk.cells.length = K.d.nnz + 1 ∧
      InitC (K.next K.d σ') tr' btr tb n m K.d.nnz v (nextCall σ σ') := by
  obtain ⟨tr', p0, c0, p1, c1, v, vblk, h1, h2, h3, h4, h5, h6, h7, h8, h9, h10, h11, h12, h13, h14, h15, h16,
    h17⟩ := post.outRec
  refine ⟨tr', p0, c0, p1, c1, v, vblk, h1, h2, h3, h4, h5, h6, h7, h8, h9, h10, h11, h12, h13, h14, h15, h16,
    h17, ?_⟩
  obtain ⟨ap, ac, hasl0, _, _⟩ := init.aslot0
  obtain ⟨ap1, ac1, hasl1, _, _⟩ := init.aslot1
  have hsl0 : 0 < atr.slots.length := lt_length_of_getElem? hasl0
  have hsl1 : 1 < atr.slots.length := lt_length_of_getElem? hasl1
  obtain ⟨dblk, hdb, hd⟩ := init.adim
  have old : ∀ {k : Nat} {blk : Block F}, K.heap0[k]? = some blk → σ'.heap[k]? = some blk := by
    intro k blk hk
    rw [post.heap k (lt_length_of_getElem? hk)]; exact hk
  have hv := h8 v (by simp)
  obtain ⟨b1, e1, _⟩ := ok.p0
  obtain ⟨b2, e2, _⟩ := ok.c0
  obtain ⟨b3, e3, _⟩ := ok.p1
  obtain ⟨b4, e4, _⟩ := ok.c1
  obtain ⟨b5, e5, _⟩ := ok.v
  have l1 := lt_length_of_getElem? e1
  have l2 := lt_length_of_getElem? e2
  have l3 := lt_length_of_getElem? e3
  have l4 := lt_length_of_getElem? e4
  have l5 := lt_length_of_getElem? e5
  refine
    { base :=
        { heap := rfl, tensors := rfl, avar := init.avar, bvar := init.bvar, fresh := init.fresh,
          arec := h1, aown := h2,
          aord := by rw [h3]; exact init.aord,
          aslot0 := ⟨.ptr p0 0, .ptr c0 0, by rw [h5]; simp [hsl0, hsl1], rfl, rfl⟩,
          aslot1 := ⟨.ptr p1 0, .ptr c1 0, by rw [h5]; simp [hsl1], rfl, rfl⟩,
          avals := by rw [h6]; rfl,
          adim := ⟨dblk, by rw [h4]; exact old hdb, hd⟩,
          n32 := init.n32, m32 := init.m32,
          brec := by
            show σ'.tensors[tb]? = _
            rw [post.otherRecs tb (Ne.symm hab)]; exact init.brec,
          bord := init.bord, bslot0 := init.bslot0, bslot1 := init.bslot1, bvals := init.bvals },
      avalsPtr := h6,
      vblk := ⟨vblk, h13, h14, h15, h16, by omega⟩,
      vne := ?_ }
  show v ≠ K.bp0 ∧ v ≠ K.bc0 ∧ v ≠ K.bp1 ∧ v ≠ K.bc1 ∧ v ≠ K.bv
  omega

/-- **`InitC` is stable under every change of state that keeps** the parameter variables, the tensor records
and the output's dimensions block, and that leaves in `vF` some live output float block of at least `r` cells
(the context follows the memory: `K.next d' σ2`; the input blocks are the business of `Ctx.OK`). -/
theorem InitC.transport {K : Ctx F} {atr btr : TensorRec F} {tb : Nat} {n m : Int} {r vF : Nat}
    {σ σ2 : State F} (d' : BData F)
    (h : InitC K atr btr tb n m r vF σ)
    (hvars : σ2.vars = σ.vars) (htens : σ2.tensors = σ.tensors)
    (hdims : σ2.heap[atr.dimsBlk]? = σ.heap[atr.dimsBlk]?)
    (hout : ∃ blk, σ2.heap[vF]? = some blk ∧ blk.live = true ∧ blk.owner = .output ∧ blk.ty = .float ∧
      r ≤ blk.cells.length) :
    InitC (K.next d' σ2) atr btr tb n m r vF σ2 := by
  have init := h.base
  have ht : σ2.tensors = K.tensors0 := htens.trans init.tensors
  exact
    { base :=
        { heap := rfl, tensors := rfl,
          avar := by unfold TensorVar; rw [hvars]; exact init.avar,
          bvar := by unfold TensorVar; rw [hvars]; exact init.bvar,
          fresh := by rw [hvars]; exact init.fresh,
          arec := by show σ2.tensors[K.ta]? = _; rw [ht]; exact init.arec,
          aown := init.aown, aord := init.aord, aslot0 := init.aslot0, aslot1 := init.aslot1,
          avals := init.avals,
          adim := by show ∃ blk, σ2.heap[atr.dimsBlk]? = _ ∧ _; rw [hdims, init.heap]; exact init.adim,
          n32 := init.n32, m32 := init.m32,
          brec := by show σ2.tensors[tb]? = _; rw [ht]; exact init.brec,
          bord := init.bord, bslot0 := init.bslot0, bslot1 := init.bslot1, bvals := init.bvals },
      avalsPtr := h.avalsPtr, vblk := hout, vne := h.vne }

/-- the static hypotheses survive a change of the input VALUES (new values `vals'`, every sub-result of `e`
finite) in a memory `σ2` that has kept the four structure blocks of the input and holds the new values in the
input's `vals` block -/
theorem Ctx.OK.revalue {K : Ctx F} (ok : K.OK) (vals' : Nat → F) {σ2 : State F}
    (hfin : ∀ q, q < K.d.nnz → ToIr.AllFinite K.ofRat (fun _ => vals' q) K.e)
    (hp0 : σ2.heap[K.bp0]? = K.heap0[K.bp0]?) (hc0 : σ2.heap[K.bc0]? = K.heap0[K.bc0]?)
    (hp1 : σ2.heap[K.bp1]? = K.heap0[K.bp1]?) (hc1 : σ2.heap[K.bc1]? = K.heap0[K.bc1]?)
    (hv : ∃ blk, σ2.heap[K.bv]? = some blk ∧ blk.live = true ∧ blk.ty = .float ∧
      ∀ q, q < K.d.nnz → blk.cells[q]? = some (some (.flt (vals' q)))) :
    (K.next { K.d with vals := vals' } σ2).OK :=
  ⟨ok.names, ok.ho, ok.he,
    ⟨ok.wf.pos0, ok.wf.posR, ok.wf.mono, ok.wf.rng0, ok.wf.rng1, ok.wf.R30, ok.wf.nnz30⟩, hfin,
    by show ∃ blk, σ2.heap[K.bp0]? = some blk ∧ _; rw [hp0]; exact ok.p0,
    by show ∃ blk, σ2.heap[K.bc0]? = some blk ∧ _; rw [hc0]; exact ok.c0,
    by show ∃ blk, σ2.heap[K.bp1]? = some blk ∧ _; rw [hp1]; exact ok.p1,
    by show ∃ blk, σ2.heap[K.bc1]? = some blk ∧ _; rw [hc1]; exact ok.c1,
    hv⟩

/-- the output's dimensions block is an `int` block of the call heap, hence neither the (float) `vals` block
of the output nor that of the input -/
theorem InitC.dims_ne {K : Ctx F} (ok : K.OK) {atr btr : TensorRec F} {tb : Nat} {n m : Int} {r vF : Nat}
    {σ : State F} (h : InitC K atr btr tb n m r vF σ) : atr.dimsBlk ≠ vF ∧ atr.dimsBlk ≠ K.bv := by
  obtain ⟨dblk, hdb, _, hdty, _⟩ := h.base.adim
  obtain ⟨bblk, hvb, _, hvty, _⟩ := ok.v
  obtain ⟨ablk, hab, _, _, haty, _⟩ := h.vblk
  rw [h.base.heap] at hab
  refine ⟨?_, ?_⟩
  · intro e; rw [e, hab] at hdb; cases hdb; rw [haty] at hdty; cases hdty
  · intro e; rw [e, hvb] at hdb; cases hdb; rw [hvty] at hdty; cases hdty

end TV.Sparse2
