import TensoraVerif.Lemmas.AsmCmpModel
import TensoraVerif.Lemmas.Sparse2Generate

/-!
C04 for the sparse MATRIX copy/scale kernels (`Sparse2` class, `ss → ss`), part 1: what `lower` / `generateIr`
emit for the kinds `.assemble` and `.compute`, written out.

* assemble: as `evaluate`, except that the terminal block only raises the two flags (`termLinesA`): same
  prologue (`Sparse2.outInit`), same pos allocation / crd assembly / pos assembly on both levels, same cleanup
  (`Sparse2.cleanupLines`);
* compute: no allocation check, no `crd`/`pos` assembly on either level, `int p_a_0 = 0; int p_a_1 = 0;` as only
  output initialisation (`outInitC`), an EMPTY "Assembling output tensor" block.
-/
namespace TV.Sparse2
open TV.IR TV.Gen TV.Graph TV.Merge
set_option linter.unusedSectionVars false
variable {F : Type} [FloatOps F]

/-! ### assemble -/

/-- the lines of the terminal block of the assembling kernel: BOTH flags are raised, nothing is stored -/
def termLinesA (outT : TensorId) : List (Stmt F) :=
  [.assign (.var (writtenName outT.name 0)) (.boolLit true),
   .assign (.var (writtenName outT.name 1)) (.boolLit true)]

/-- the terminal block (assemble) -/
def termBlockA (outT : TensorId) : Stmt F :=
  .block (termLinesA outT) (some "*** Computation of expression ***")

/-- the statements of the inner branch (assemble) -/
def branch1A (outT : TensorId) : List (Stmt F) :=
  [(writePosAllocation (out1 outT)).finalize,
   declAssignE (writtenName outT.name 1) .bool (.boolLit false),
   termBlockA outT,
   .branch (.var (writtenName outT.name 1))
     (.block [(writeCrdAssembly (out1 outT)).finalize,
        increment (.var (layerPointer outT.id 1)) (.intLit 1)] none)
     (.block [] none)]

/-- `if (i_b_1 == j) { … }` (assemble) -/
def mid1A (j : String) (outT bT : TensorId) : Stmt F :=
  .branch (.bin .and (.boolLit true) (.bin .eq (.var (valueFromCrd bT.id 1)) (.var j)))
    (.block (branch1A outT) none) (.block [] none)

/-- the lines of the "Iteration over j" block (assemble) -/
def innerLinesA (j : String) (outT bT : TensorId) : List (Stmt F) :=
  (writeSparseInit (in1 bT)).lines ++
  [mergeLoopL [in1 bT] j [mid1A j outT bT],
   (writePosAssembly (out1 outT)).finalize]

/-- the "Iteration over j" block (assemble) -/
def innerBlockA (j : String) (outT bT : TensorId) : Stmt F :=
  .block (innerLinesA j outT bT) (some ("*** Iteration over " ++ j ++ " ***"))

/-- the statements of the outer branch (assemble) -/
def branch0A (j : String) (outT bT : TensorId) : List (Stmt F) :=
  [(writePosAllocation (out0 outT)).finalize,
   declAssignE (writtenName outT.name 0) .bool (.boolLit false),
   innerBlockA j outT bT,
   .branch (.var (writtenName outT.name 0))
     (.block [(writeCrdAssembly (out0 outT)).finalize,
        increment (.var (layerPointer outT.id 0)) (.intLit 1)] none)
     (.block [] none)]

/-- `if (i_b_0 == i) { … }` (assemble) -/
def mid0A (i j : String) (outT bT : TensorId) : Stmt F :=
  .branch (.bin .and (.boolLit true) (.bin .eq (.var (valueFromCrd bT.id 0)) (.var i)))
    (.block (branch0A j outT bT) none) (.block [] none)

/-- the lines of the "Iteration over i" block (assemble) -/
def loopLinesA (i j : String) (outT bT : TensorId) : List (Stmt F) :=
  (writeSparseInit (in0 bT)).lines ++
  [mergeLoopL [in0 bT] i [mid0A i j outT bT],
   (writePosAssembly (out0 outT)).finalize]

/-! ### compute -/

/-- the statements of the inner branch (compute): `bool written_1 = false; { flags; a_vals[p_a_1] = e; }
if (written_1) { p_a_1++ }` -/
def branch1C (ofRat : Rat → F) (outT : TensorId) (e : IdExpr) : List (Stmt F) :=
  [declAssignE (writtenName outT.name 1) .bool (.boolLit false),
   termBlock ofRat outT e,
   .branch (.var (writtenName outT.name 1))
     (.block [increment (.var (layerPointer outT.id 1)) (.intLit 1)] none)
     (.block [] none)]

/-- `if (i_b_1 == j) { … }` (compute) -/
def mid1C (ofRat : Rat → F) (j : String) (outT bT : TensorId) (e : IdExpr) : Stmt F :=
  .branch (.bin .and (.boolLit true) (.bin .eq (.var (valueFromCrd bT.id 1)) (.var j)))
    (.block (branch1C ofRat outT e) none) (.block [] none)

/-- the lines of the "Iteration over j" block (compute): no pos assembly -/
def innerLinesC (ofRat : Rat → F) (j : String) (outT bT : TensorId) (e : IdExpr) : List (Stmt F) :=
  (writeSparseInit (in1 bT)).lines ++ [mergeLoopL [in1 bT] j [mid1C ofRat j outT bT e]]

/-- the "Iteration over j" block (compute) -/
def innerBlockC (ofRat : Rat → F) (j : String) (outT bT : TensorId) (e : IdExpr) : Stmt F :=
  .block (innerLinesC ofRat j outT bT e) (some ("*** Iteration over " ++ j ++ " ***"))

/-- the statements of the outer branch (compute) -/
def branch0C (ofRat : Rat → F) (j : String) (outT bT : TensorId) (e : IdExpr) : List (Stmt F) :=
  [declAssignE (writtenName outT.name 0) .bool (.boolLit false),
   innerBlockC ofRat j outT bT e,
   .branch (.var (writtenName outT.name 0))
     (.block [increment (.var (layerPointer outT.id 0)) (.intLit 1)] none)
     (.block [] none)]

/-- `if (i_b_0 == i) { … }` (compute) -/
def mid0C (ofRat : Rat → F) (i j : String) (outT bT : TensorId) (e : IdExpr) : Stmt F :=
  .branch (.bin .and (.boolLit true) (.bin .eq (.var (valueFromCrd bT.id 0)) (.var i)))
    (.block (branch0C ofRat j outT bT e) none) (.block [] none)

/-- the lines of the "Iteration over i" block (compute) -/
def loopLinesC (ofRat : Rat → F) (i j : String) (outT bT : TensorId) (e : IdExpr) : List (Stmt F) :=
  (writeSparseInit (in0 bT)).lines ++ [mergeLoopL [in0 bT] i [mid0C ofRat i j outT bT e]]

/-! ### `lower` -/

theorem lower_terminal_eqA (ofRat : Rat → F) (n : Nat) (outT : TensorId) (e : IdExpr)
    (hm : outT.modes = [.compressed, .compressed]) (hne : e ≠ .int 0) :
    lower ofRat (n + 1) (.terminal e) (.append outT 2) .assemble =
      .ok ⟨some "*** Computation of expression ***", termLinesA outT⟩ := by
  rw [ToIr.lower_terminal_eq_assemble ofRat .assemble rfl n e (.append outT 2), ToIr.activeFlags_ne _ hne,
    writtenFlags_eq outT hm]
  simp [termLinesA, ToIr.flagStmt]

theorem lower_terminal_eqC (ofRat : Rat → F) (n : Nat) (outT : TensorId) (e : IdExpr)
    (hm : outT.modes = [.compressed, .compressed]) (hi : outT.indexes.length = 2) (hne : e ≠ .int 0) :
    lower ofRat (n + 1) (.terminal e) (.append outT 2) .compute =
      .ok ⟨some "*** Computation of expression ***", (termLines ofRat outT e)⟩ := by
  have hw := ToIr.writeAssignment_append_eq (F := F) outT (toIrWith ofRat e)
  rw [hi] at hw
  rw [ToIr.lower_terminal_eq ofRat .compute rfl n e (.append outT 2) _ hw, ToIr.activeFlags_ne _ hne,
    writtenFlags_eq outT hm]
  simp [termLines, ToIr.flagStmt, prevLayerPointer]

/-- **What `lower` emits on the inner node for the assembling kernel.** -/
theorem lower_inner_eqA (ofRat : Rat → F) (n : Nat) (i j : String) (outT bT : TensorId) (e : IdExpr)
    (hij : i ≠ j) (ho : isSS i j outT = true) (he : isExpr i j bT e = true) :
    lower ofRat (n + 2) (innerGraph j outT e) (.append outT 1) .assemble =
      .ok ⟨some ("*** Iteration over " ++ j ++ " ***"), innerLinesA j outT bT⟩ := by
  have ho' := (isSS_iff i j outT).1 ho
  have hctx := ctx_j i j bT e hij he
  have hcd1 := compressedDims_inner i j outT bT e hij he
  have hcd2 := compressedDims_inner_exhausted i j outT bT e hij he
  have hsub := generateSubgraphs_two _ _ hcd1 hcd2
  have hne : e ≠ .int 0 := by
    intro h; have := ((isExpr_iff i j bT e).1 he).1; rw [h] at this; simp [ToIr.leaves] at this
  unfold innerGraph at hsub hcd1 hcd2 ⊢
  simp only [IGraph.exhaust] at hsub hcd2
  unfold lower
  have hsl0 : (Output.append outT 0).hasSparseLayer = true := by
    simp [Output.hasSparseLayer, Output.tensor, ho'.2]
  have hsl1 : (Output.append outT 1).hasSparseLayer = true := by
    simp [Output.hasSparseLayer, Output.tensor, ho'.2]
  simp only [Kind.isCompute, hsl0, hsl1, Bool.not_true, Bool.not_false, Bool.and_false, Bool.false_and,
    Bool.false_eq_true, if_false]
  have hso : isSparseOutput (IGraph.iter j (some { tensor := outT, layer := 1 }) (IGraph.terminal e)) = true := by
    simp [isSparseOutput, Leaf.mode, ho'.2]
  have hnext : ((Output.append outT 1).next (some 1) Kind.assemble : Except GenErr (Output × SB F)) =
      .ok (.append outT 2, SB.empty) := by simp [Output.next]
  have hnc : nodeContext (IGraph.iter j (some { tensor := outT, layer := 1 }) (IGraph.terminal e)) =
      extractContext e j := by
    simp [nodeContext, IGraph.context]
  have hlater : (IGraph.iter j (some { tensor := outT, layer := 1 }) (IGraph.terminal e)).laterIndexes = [j] := by
    simp [IGraph.laterIndexes]
  have hterm := lower_terminal_eqA ofRat n outT e ho'.2 hne
  have hmode : ({ tensor := outT, layer := 1 } : Leaf).mode = Mode.compressed := by simp [Leaf.mode, ho'.2]
  simp only [hso, hmode, Option.map_some, hnext, hsub, hnc, hctx.1, hctx.2.1, hctx.2.2, hlater, hterm, hcd1, hcd2,
    Bool.or_true, Bool.true_and, Bool.and_self, if_true,
    List.foldlM_cons, List.foldlM_nil, bind, Except.bind, pure, Except.pure,
    List.isEmpty_nil, List.isEmpty_cons, Bool.not_true, Bool.not_false, Option.isNone_some, Bool.false_eq_true,
    if_false, List.foldl_nil, List.foldl_cons,
    List.map_nil, List.map_cons, List.nil_append, Kind.isAssemble]
  rw [append_commented _ _ _ (Sparse1.writePosAllocation_comment _),
    append_commented _ (writeCrdAssembly _) "crd assembly" rfl,
    append_commented _ (writePosAssembly _) "pos assembly" rfl,
    append_plain _ (writeSparseInit _) rfl]
  simp [SB.mk', SB.append, SB.empty, SB.add, SB.loop, SB.branch, SB.finalize, branchJoin, andJoin, joinWith,
    minJoin, innerLinesA, mid1A, branch1A, termBlockA, mergeLoopL, mergeBodyL, mergeCond,
    mergeLoads, mergeMin, mergeIncs, in1, out1, Leaf.ptr, Sparse1.writePosAllocation_comment]
  exact ⟨rfl, rfl⟩

/-- **What `lower` emits on the class for the assembling kernel.** -/
theorem lower_eqA (ofRat : Rat → F) (n : Nat) (i j : String) (outT bT : TensorId) (e : IdExpr)
    (hij : i ≠ j) (ho : isSS i j outT = true) (he : isExpr i j bT e = true) :
    lower ofRat (n + 3) (graph i j outT e) (.append outT 0) .assemble =
      .ok ⟨some ("*** Iteration over " ++ i ++ " ***"), loopLinesA i j outT bT⟩ := by
  have ho' := (isSS_iff i j outT).1 ho
  have hctx := ctx_i i j bT e hij he
  have hcd1 := compressedDims_graph i j outT bT e hij he
  have hcd2 := compressedDims_graph_exhausted i j outT bT e hij he
  have hsub := generateSubgraphs_two _ _ hcd1 hcd2
  have hinner := lower_inner_eqA ofRat n i j outT bT e hij ho he
  simp only [graph, innerGraph, IGraph.exhaust] at hsub hcd1 hcd2 hinner ⊢
  unfold lower
  have hsl0 : (Output.append outT 0).hasSparseLayer = true := by
    simp [Output.hasSparseLayer, Output.tensor, ho'.2]
  have hsl1 : (Output.append outT 1).hasSparseLayer = true := by
    simp [Output.hasSparseLayer, Output.tensor, ho'.2]
  simp only [Kind.isCompute, hsl0, hsl1, Bool.not_true, Bool.not_false, Bool.and_false, Bool.false_and,
    Bool.false_eq_true, if_false]
  have hso : isSparseOutput (IGraph.iter i (some { tensor := outT, layer := 0 })
      (IGraph.iter j (some { tensor := outT, layer := 1 }) (IGraph.terminal e))) = true := by
    simp [isSparseOutput, Leaf.mode, ho'.2]
  have hnext : ((Output.append outT 0).next (some 0) Kind.assemble : Except GenErr (Output × SB F)) =
      .ok (.append outT 1, SB.empty) := by simp [Output.next]
  have hnc : nodeContext (IGraph.iter i (some { tensor := outT, layer := 0 })
      (IGraph.iter j (some { tensor := outT, layer := 1 }) (IGraph.terminal e))) = extractContext e i := by
    simp [nodeContext, IGraph.context]
  have hlater : (IGraph.iter i (some { tensor := outT, layer := 0 })
      (IGraph.iter j (some { tensor := outT, layer := 1 }) (IGraph.terminal e))).laterIndexes = [i, j] := by
    simp [IGraph.laterIndexes]
  have hmode : ({ tensor := outT, layer := 0 } : Leaf).mode = Mode.compressed := by simp [Leaf.mode, ho'.2]
  simp only [hso, hmode, Option.map_some, hnext, hsub, hnc, hctx.1, hctx.2.1, hctx.2.2, hlater, hinner, hcd1, hcd2,
    Bool.or_true, Bool.true_and, Bool.and_self, if_true,
    List.foldlM_cons, List.foldlM_nil, bind, Except.bind, pure, Except.pure,
    List.isEmpty_nil, List.isEmpty_cons, Bool.not_true, Bool.not_false, Option.isNone_some, Bool.false_eq_true,
    if_false, List.foldl_nil, List.foldl_cons,
    List.map_nil, List.map_cons, List.nil_append, Kind.isAssemble]
  rw [append_commented _ _ _ (Sparse1.writePosAllocation_comment _),
    append_commented _ (writeCrdAssembly _) "crd assembly" rfl,
    append_commented _ (writePosAssembly _) "pos assembly" rfl,
    append_plain _ (writeSparseInit _) rfl]
  simp [SB.mk', SB.append, SB.empty, SB.add, SB.loop, SB.branch, SB.finalize, branchJoin, andJoin, joinWith,
    minJoin, loopLinesA, mid0A, branch0A, innerBlockA, mergeLoopL, mergeBodyL, mergeCond,
    mergeLoads, mergeMin, mergeIncs, in0, out0, Leaf.ptr, Sparse1.writePosAllocation_comment]
  exact ⟨rfl, rfl⟩

/-- **What `lower` emits on the inner node for the computing kernel.** -/
theorem lower_inner_eqC (ofRat : Rat → F) (n : Nat) (i j : String) (outT bT : TensorId) (e : IdExpr)
    (hij : i ≠ j) (ho : isSS i j outT = true) (he : isExpr i j bT e = true) :
    lower ofRat (n + 2) (innerGraph j outT e) (.append outT 1) .compute =
      .ok ⟨some ("*** Iteration over " ++ j ++ " ***"), innerLinesC ofRat j outT bT e⟩ := by
  have ho' := (isSS_iff i j outT).1 ho
  have hctx := ctx_j i j bT e hij he
  have hcd1 := compressedDims_inner i j outT bT e hij he
  have hcd2 := compressedDims_inner_exhausted i j outT bT e hij he
  have hsub := generateSubgraphs_two _ _ hcd1 hcd2
  have hne : e ≠ .int 0 := by
    intro h; have := ((isExpr_iff i j bT e).1 he).1; rw [h] at this; simp [ToIr.leaves] at this
  unfold innerGraph at hsub hcd1 hcd2 ⊢
  simp only [IGraph.exhaust] at hsub hcd2
  unfold lower
  simp only [Kind.isCompute, Bool.not_true, Bool.false_and, Bool.false_eq_true, if_false]
  have hso : isSparseOutput (IGraph.iter j (some { tensor := outT, layer := 1 }) (IGraph.terminal e)) = true := by
    simp [isSparseOutput, Leaf.mode, ho'.2]
  have hnext : ((Output.append outT 1).next (some 1) Kind.compute : Except GenErr (Output × SB F)) =
      .ok (.append outT 2, SB.empty) := by simp [Output.next]
  have hnc : nodeContext (IGraph.iter j (some { tensor := outT, layer := 1 }) (IGraph.terminal e)) =
      extractContext e j := by
    simp [nodeContext, IGraph.context]
  have hlater : (IGraph.iter j (some { tensor := outT, layer := 1 }) (IGraph.terminal e)).laterIndexes = [j] := by
    simp [IGraph.laterIndexes]
  have hterm := lower_terminal_eqC ofRat n outT e ho'.2 (by rw [ho'.1]; rfl) hne
  have hmode : ({ tensor := outT, layer := 1 } : Leaf).mode = Mode.compressed := by simp [Leaf.mode, ho'.2]
  simp only [hso, hmode, Option.map_some, hnext, hsub, hnc, hctx.1, hctx.2.1, hctx.2.2, hlater, hterm, hcd1, hcd2,
    Bool.or_true, Bool.true_and, Bool.and_self, if_true,
    List.foldlM_cons, List.foldlM_nil, bind, Except.bind, pure, Except.pure,
    List.isEmpty_nil, List.isEmpty_cons, Bool.not_true, Bool.not_false, Option.isNone_some, Bool.false_eq_true,
    if_false, List.foldl_nil, List.foldl_cons, Bool.false_and,
    List.map_nil, List.map_cons, List.nil_append, Kind.isAssemble]
  rw [append_plain _ (writeSparseInit _) rfl]
  simp [SB.mk', SB.append, SB.empty, SB.add, SB.loop, SB.branch, SB.finalize, branchJoin, andJoin, joinWith,
    minJoin, innerLinesC, mid1C, branch1C, termBlock, mergeLoopL, mergeBodyL, mergeCond,
    mergeLoads, mergeMin, mergeIncs, in1, out1, Leaf.ptr]

/-- **What `lower` emits on the class for the computing kernel.** -/
theorem lower_eqC (ofRat : Rat → F) (n : Nat) (i j : String) (outT bT : TensorId) (e : IdExpr)
    (hij : i ≠ j) (ho : isSS i j outT = true) (he : isExpr i j bT e = true) :
    lower ofRat (n + 3) (graph i j outT e) (.append outT 0) .compute =
      .ok ⟨some ("*** Iteration over " ++ i ++ " ***"), loopLinesC ofRat i j outT bT e⟩ := by
  have ho' := (isSS_iff i j outT).1 ho
  have hctx := ctx_i i j bT e hij he
  have hcd1 := compressedDims_graph i j outT bT e hij he
  have hcd2 := compressedDims_graph_exhausted i j outT bT e hij he
  have hsub := generateSubgraphs_two _ _ hcd1 hcd2
  have hinner := lower_inner_eqC ofRat n i j outT bT e hij ho he
  simp only [graph, innerGraph, IGraph.exhaust] at hsub hcd1 hcd2 hinner ⊢
  unfold lower
  simp only [Kind.isCompute, Bool.not_true, Bool.false_and, Bool.false_eq_true, if_false]
  have hso : isSparseOutput (IGraph.iter i (some { tensor := outT, layer := 0 })
      (IGraph.iter j (some { tensor := outT, layer := 1 }) (IGraph.terminal e))) = true := by
    simp [isSparseOutput, Leaf.mode, ho'.2]
  have hnext : ((Output.append outT 0).next (some 0) Kind.compute : Except GenErr (Output × SB F)) =
      .ok (.append outT 1, SB.empty) := by simp [Output.next]
  have hnc : nodeContext (IGraph.iter i (some { tensor := outT, layer := 0 })
      (IGraph.iter j (some { tensor := outT, layer := 1 }) (IGraph.terminal e))) = extractContext e i := by
    simp [nodeContext, IGraph.context]
  have hlater : (IGraph.iter i (some { tensor := outT, layer := 0 })
      (IGraph.iter j (some { tensor := outT, layer := 1 }) (IGraph.terminal e))).laterIndexes = [i, j] := by
    simp [IGraph.laterIndexes]
  have hmode : ({ tensor := outT, layer := 0 } : Leaf).mode = Mode.compressed := by simp [Leaf.mode, ho'.2]
  simp only [hso, hmode, Option.map_some, hnext, hsub, hnc, hctx.1, hctx.2.1, hctx.2.2, hlater, hinner, hcd1, hcd2,
    Bool.or_true, Bool.true_and, Bool.and_self, if_true,
    List.foldlM_cons, List.foldlM_nil, bind, Except.bind, pure, Except.pure,
    List.isEmpty_nil, List.isEmpty_cons, Bool.not_true, Bool.not_false, Option.isNone_some, Bool.false_eq_true,
    if_false, List.foldl_nil, List.foldl_cons, Bool.false_and,
    List.map_nil, List.map_cons, List.nil_append, Kind.isAssemble]
  rw [append_plain _ (writeSparseInit _) rfl]
  simp [SB.mk', SB.append, SB.empty, SB.add, SB.loop, SB.branch, SB.finalize, branchJoin, andJoin, joinWith,
    minJoin, loopLinesC, mid0C, branch0C, innerBlockC, mergeLoopL, mergeBodyL, mergeCond,
    mergeLoads, mergeMin, mergeIncs, in0, out0, Leaf.ptr]

/-! ### `generateIr` -/

theorem appendDeclarations_eq2A (cap : Option Int) (outT : TensorId)
    (hm : outT.modes = [.compressed, .compressed]) :
    (appendDeclarations cap outT .assemble : SB F) = ⟨some "Output initialization", outInit cap outT⟩ := by
  simp [appendDeclarations, hm, List.range, List.range.loop, Kind.isAssemble, SB.mk', SB.add,
    mulJoin, joinWith, outInit]

/-- the "Output initialization" block of the computing kernel: `int p_a_0 = 0; int p_a_1 = 0;` -/
def outInitC (outT : TensorId) : List (Stmt F) :=
  [declAssignE (layerPointer outT.id 0) .int (.intLit 0),
   declAssignE (layerPointer outT.id 1) .int (.intLit 0)]

theorem appendDeclarations_eq2C (cap : Option Int) (outT : TensorId)
    (hm : outT.modes = [.compressed, .compressed]) :
    (appendDeclarations cap outT .compute : SB F) = ⟨some "Output initialization", outInitC outT⟩ := by
  simp [appendDeclarations, hm, List.range, List.range.loop, Kind.isAssemble, SB.mk', SB.add, outInitC]

theorem appendCleanup_eq2A (outT : TensorId) (hm : outT.modes = [.compressed, .compressed]) :
    (appendCleanup outT .assemble : SB F) =
      ⟨some ("Assembling output tensor " ++ outT.name), cleanupLines outT⟩ := by
  simp [appendCleanup, hm, List.range, List.range.loop, Kind.isAssemble, SB.mk', SB.add, cleanupLines]

/-- the statements of the `assemble` kernel of the class, before `return 0` -/
def kernelStmtsA (cap : Option Int) (formats : Formats) (i j : String) (outT bT : TensorId) :
    List (Stmt F) :=
  [.block (dimStmts i j outT) (some "Extract dimensions"),
   .block (formats.flatMap fun f => unpackStmts f.1) (some "Unpack tensors"),
   .block (outInit cap outT) (some "Output initialization"),
   .block (loopLinesA i j outT bT) (some ("*** Iteration over " ++ i ++ " ***")),
   .block (cleanupLines outT) (some ("Assembling output tensor " ++ outT.name))]

/-- the `assemble` kernel of the class -/
def kernelA (cap : Option Int) (formats : Formats) (i j : String) (outT bT : TensorId) : Func F :=
  ⟨"assemble", formats.map fun f => (f.1, .ptr .tensor), .int,
    .block (kernelStmtsA cap formats i j outT bT ++ [.ret (.intLit 0)]) none⟩

/-- the statements of the `compute` kernel of the class, before `return 0` -/
def kernelStmtsC (ofRat : Rat → F) (formats : Formats) (i j : String) (outT bT : TensorId)
    (e : IdExpr) : List (Stmt F) :=
  [.block (dimStmts i j outT) (some "Extract dimensions"),
   .block (formats.flatMap fun f => unpackStmts f.1) (some "Unpack tensors"),
   .block (outInitC outT) (some "Output initialization"),
   .block (loopLinesC ofRat i j outT bT e) (some ("*** Iteration over " ++ i ++ " ***")),
   .block [] (some ("Assembling output tensor " ++ outT.name))]

/-- the `compute` kernel of the class -/
def kernelC (ofRat : Rat → F) (formats : Formats) (i j : String) (outT bT : TensorId) (e : IdExpr) : Func F :=
  ⟨"compute", formats.map fun f => (f.1, .ptr .tensor), .int,
    .block (kernelStmtsC ofRat formats i j outT bT e ++ [.ret (.intLit 0)]) none⟩

/-- **What `generateIr` produces on the class for `.assemble`.** -/
theorem generateIr_eqA (ofRat : Rat → F) (cap : Option Int) (a : Alg.DAssign) (formats : Formats)
    (i j : String) (outT bT : TensorId) (e : IdExpr)
    (hout : tensorId 0 a.tname formats a.tidx = some outT) (hname : outT.name = a.tname)
    (hij : i ≠ j) (ho : isSS i j outT = true) (he : isExpr i j bT e = true) (hf : ssFormats formats = true)
    (hd : indexDimensions a = [(i, a.tname, 0), (j, a.tname, 1)]) :
    generateIr ofRat cap a formats (graph i j outT e) .assemble =
      .ok (kernelA cap formats i j outT bT) := by
  have ho' := (isSS_iff i j outT).1 ho
  have hsz : 4 * (graph i j outT e).size + 8 = 17 + 3 := by simp [graph, innerGraph, IGraph.size]
  have hu := unpackDecls_eq (F := F) formats hf
  unfold unpackDecls at hu
  unfold generateIr
  simp only [hout, Option.getD_some, hsz, lower_eqA ofRat 17 i j outT bT e hij ho he, hd,
    appendDeclarations_eq2A cap outT ho'.2, appendCleanup_eq2A outT ho'.2, hu]
  simp [bind, Except.bind, pure, Except.pure, kernelA, kernelStmtsA, dimStmts, SB.add, SB.append, SB.empty,
    SB.finalize, Kind.name, hname]

/-- **What `generateIr` produces on the class for `.compute`.** -/
theorem generateIr_eqC (ofRat : Rat → F) (cap : Option Int) (a : Alg.DAssign) (formats : Formats)
    (i j : String) (outT bT : TensorId) (e : IdExpr)
    (hout : tensorId 0 a.tname formats a.tidx = some outT) (hname : outT.name = a.tname)
    (hij : i ≠ j) (ho : isSS i j outT = true) (he : isExpr i j bT e = true) (hf : ssFormats formats = true)
    (hd : indexDimensions a = [(i, a.tname, 0), (j, a.tname, 1)]) :
    generateIr ofRat cap a formats (graph i j outT e) .compute =
      .ok (kernelC ofRat formats i j outT bT e) := by
  have ho' := (isSS_iff i j outT).1 ho
  have hsz : 4 * (graph i j outT e).size + 8 = 17 + 3 := by simp [graph, innerGraph, IGraph.size]
  have hu := unpackDecls_eq (F := F) formats hf
  unfold unpackDecls at hu
  unfold generateIr
  simp only [hout, Option.getD_some, hsz, lower_eqC ofRat 17 i j outT bT e hij ho he, hd,
    appendDeclarations_eq2C cap outT ho'.2, AsmCmp.appendCleanup_eqC outT, hu]
  simp [bind, Except.bind, pure, Except.pure, kernelC, kernelStmtsC, dimStmts, SB.add, SB.append, SB.empty,
    SB.finalize, Kind.name, hname]

end TV.Sparse2
