import TensoraVerif.Lemmas.AsmCmp2Sparse2Model
import TensoraVerif.Lemmas.Sparse2Kernel

/-!
C04 for the sparse matrix copy/scale kernels (`Sparse2` class), part 2: the vocabulary of the machine theorems —
final state of the assembling kernel (`KernelPostA`), initial and final state of the computing kernel
(`InitC`, `KernelPostC`).
-/
namespace TV.Sparse2
open TV.IR TV.Gen TV.Graph TV.Growth TV.Merge
set_option linter.unusedSectionVars false
variable {F : Type} [FloatOps F]

/-- **Final state of a call of the assembling kernel** (context `K`, output record initially `atr`): exactly
`Sparse2.KernelPost` WITHOUT the contents of the `vals` block — the record (still output-owned, same order and
dimensions) has slot 0 = (`pos0`, `crd0`), slot 1 = (`pos1`, `crd1`) and `vals` = the base addresses of five
different fresh live output blocks; `pos0 = [0, R']`, `crd0`, `pos1`, `crd1` hold exactly the structure
`evaluate` produces; the `vals` block has exactly `nnz + 1` cells (CONTENTS UNSPECIFIED: the kernel never stores
into it); every other record and every block of the initial heap (the inputs) is unchanged. -/
structure KernelPostA (K : Ctx F) (atr : TensorRec F) (σ' : State F) : Prop where
  outRec : ∃ tr' p0 c0 p1 c1 v vblk, σ'.tensors[K.ta]? = some tr' ∧ tr'.owner = .output ∧
    tr'.order = atr.order ∧ tr'.dimsBlk = atr.dimsBlk ∧
    tr'.slots = (atr.slots.set 0 (some (.ptr p0 0, .ptr c0 0))).set 1 (some (.ptr p1 0, .ptr c1 0)) ∧
    tr'.vals = .ptr v 0 ∧
    [p0, c0, p1, c1, v].Nodup ∧ (∀ x ∈ [p0, c0, p1, c1, v], K.heap0.length ≤ x) ∧
    σ'.heap[p0]? = some ⟨.int, [some (.int 0), some (.int ((K.d.kept K.d.R).length : Int))], .output, true⟩ ∧
    σ'.heap[c0]? = some ⟨.int, (K.d.outCrd0 K.d.R).map (fun z => some (.int z)), .output, true⟩ ∧
    σ'.heap[p1]? = some ⟨.int, (K.d.outPos1 K.d.R).map (fun z => some (.int z)), .output, true⟩ ∧
    σ'.heap[c1]? = some ⟨.int, (List.range K.d.nnz).map (fun q => some (.int (K.d.crd1 q))), .output, true⟩ ∧
    σ'.heap[v]? = some vblk ∧ vblk.live = true ∧ vblk.owner = .output ∧ vblk.ty = .float ∧
    vblk.cells.length = K.d.nnz + 1
  otherRecs : ∀ k, k ≠ K.ta → σ'.tensors[k]? = K.tensors0[k]?
  tlen : σ'.tensors.length = K.tensors0.length
  heap : ∀ k, k < K.heap0.length → σ'.heap[k]? = K.heap0[k]?

/-- the evaluate kernel's final state is in particular an assemble final state -/
theorem KernelPost.toA {K : Ctx F} {atr : TensorRec F} {σ' : State F} (h : KernelPost K atr σ') :
    KernelPostA K atr σ' := by
  obtain ⟨tr', p0, c0, p1, c1, v, vblk, h1, h2, h3, h4, h5, h6, h7, h8, h9, h10, h11, h12, h13, h14, h15, h16,
    h17, _⟩ := h.outRec
  exact ⟨⟨tr', p0, c0, p1, c1, v, vblk, h1, h2, h3, h4, h5, h6, h7, h8, h9, h10, h11, h12, h13, h14, h15, h16,
    h17⟩, h.otherRecs, h.tlen, h.heap⟩

/-- **Initial machine state of a call of the computing kernel**: a kernel-call state (`Sparse2.Init`) in which
moreover the output record's `vals` is the base address of a live, output-owned `float` block `vF` with AT
LEAST `r` cells, which is none of the five blocks of the input. Nothing is asked of the `pos`/`crd` blocks the
output's slots point to (the kernel never dereferences them), nor of the contents of `vF`. -/
structure InitC (K : Ctx F) (atr btr : TensorRec F) (tb : Nat) (n m : Int) (r vF : Nat) (σ : State F) :
    Prop where
  base : Init K atr btr tb n m σ
  avalsPtr : atr.vals = .ptr vF 0
  vblk : ∃ blk, σ.heap[vF]? = some blk ∧ blk.live = true ∧ blk.owner = .output ∧ blk.ty = .float ∧
    r ≤ blk.cells.length
  vne : vF ≠ K.bp0 ∧ vF ≠ K.bc0 ∧ vF ≠ K.bp1 ∧ vF ≠ K.bc1 ∧ vF ≠ K.bv

/-- **Final state of a call of the computing kernel** `σ → σ'` (context `K`): ALL tensor records are unchanged;
the heap has the same length (NO allocation); every block other than `vF` is unchanged; block `vF` keeps its
type, owner, liveness and length, its cells `q < nnz` hold the float meaning of `e` at the stored entries of
`b` (`K.valAt q`), and its cells `q ≥ nnz` are unchanged. -/
structure KernelPostC (K : Ctx F) (vF : Nat) (σ σ' : State F) : Prop where
  tensors : σ'.tensors = σ.tensors
  len : σ'.heap.length = σ.heap.length
  other : ∀ k, k ≠ vF → σ'.heap[k]? = σ.heap[k]?
  vals : ∃ blk0 blk, σ.heap[vF]? = some blk0 ∧ σ'.heap[vF]? = some blk ∧ blk.ty = blk0.ty ∧
    blk.owner = blk0.owner ∧ blk.live = blk0.live ∧ blk.cells.length = blk0.cells.length ∧
    (∀ q, q < K.d.nnz → blk.cells[q]? = some (some (.flt (K.valAt q)))) ∧
    (∀ q, K.d.nnz ≤ q → blk.cells[q]? = blk0.cells[q]?)

end TV.Sparse2
