import TensoraVerif.Lemmas.AsmCmp2SpmulModel
import TensoraVerif.Lemmas.SpmulBody

/-!
C04 for the element-wise product of two sparse vectors (`Spmul` class), assembling kernel, part 1: the loop body
step. As `SpmulBody.lean`, in which the terminal block is only `written = true;`: the invariant `InvA` says
nothing about the CONTENTS of the `vals` array (the values of the ghost history `hist` are not stored), and no
finiteness hypothesis is needed.
-/
namespace TV.Spmul
open TV.IR TV.Gen TV.Graph TV.Growth TV.Merge
open TV.Sparse1 (isSp isSp_iff outLeaf inLeaf midW)
open TV.AsmCmp (branchBodyA termBlockA)
set_option linter.unusedSectionVars false
variable {F : Type} [FloatOps F]

/-- **The loop invariant** after the entries `hist` (coordinate, value) have been appended to the output
(relative to the state `σ0` at loop entry): tensor records unchanged; every block of `σ0`'s heap other than
the two initial output arrays unchanged; the variables not written by the loop unchanged; the output's `crd`
and `vals` arrays satisfy the array invariant (blocks `cb`, `vb` — still the initial ones or fresh —,
capacities `cc`, `vc`); the output cursor is `|hist|`, within both capacities; `crd[j] = hist[j].1` for
`j < |hist|` (NOTHING about the cells of `vals`: the values of `hist` are ghosts); the `written` flag is
undeclared or `bool`. -/
structure InvA (i : String) (outT bT cT : TensorId) (cb0 vb0 : Nat) (σ0 : State F) (cb : Nat) (cc : Int)
    (vb : Nat) (vc : Int) (hist : List (Int × F)) (σ : State F) : Prop where
  tensors : σ.tensors = σ0.tensors
  len : σ0.heap.length ≤ σ.heap.length
  old : ∀ k blk, k ≠ cb0 → k ≠ vb0 → σ0.heap[k]? = some blk → σ.heap[k]? = some blk
  vars : ∀ y, y ∉ touched i outT bT cT → lookupVar σ.vars y = lookupVar σ0.vars y
  crd : ArrInv σ (crdName outT.name 0) (crdCapName outT.name 0) .int cb cc
  vals : ArrInv σ (valsName outT.name) (valsCapName outT.name) .float vb vc
  hcb : cb = cb0 ∨ σ0.heap.length ≤ cb
  hvb : vb = vb0 ∨ σ0.heap.length ≤ vb
  hne : cb ≠ vb
  ptr : IntVar σ (layerPointer outT.id 0) hist.length
  lec : (hist.length : Int) ≤ cc
  lev : (hist.length : Int) ≤ vc
  crdCells : ∃ blk, σ.heap[cb]? = some blk ∧
    ∀ j (h : j < hist.length), blk.cells[j]? = some (some (.int hist[j].1))
  flag : ∀ r, lookupVar σ.vars (writtenName outT.name 0) = some r → r.ty = .bool

theorem noLoop_midStmtA (i : String) (outT bT cT : TensorId) :
    Sparse1.noLoopL [midStmtA (F := F) i outT bT cT] = true := by
  simp [Sparse1.noLoopL, Sparse1.noLoop, midStmtA, branchBodyA, Sparse1.noLoop_writePosAllocation, termBlockA,
    declAssignE, increment, writeCrdAssembly_shape]

section step
variable {i : String} {outT bT cT : TensorId} {mb mc bvb cvb : Nat}
  {cellsB cellsC : Nat → F} {cb0 vb0 : Nat} {σ0 : State F}

/-- **the branch "both present"**: one entry is appended. From a state satisfying the invariant after the
history `hist` (`|hist| < 2^30`), in which the input cursors hold positions `q < mb`, `r < mc` and the index
`i` holds the int32 `x` (no finiteness hypothesis: the terminal block is only `written = true`): the branch
body runs
without error (any fuel) and re-establishes the invariant for `hist ++ [(x, b[q] * c[r])]`; it writes only the
variables `midW` and no block of the old heap other than the two output arrays. -/
theorem branch_stepA (N : KNames i outT bT cT) (ho : isSp i outT = true) (hb : isSp i bT = true)
    (hc : isSp i cT = true)
    (pre : LoopPre bT cT mb mc bvb cvb cellsB cellsC cb0 vb0 σ0)
    (fuel : Nat) (σ : State F) (hist : List (Int × F)) (cb : Nat) (cc : Int) (vb : Nat) (vc : Int)
    (q r : Nat) (x : Int) (hq : q < mb) (hr : r < mc) (hlen : hist.length < 1073741824)
    (hinv : InvA i outT bT cT cb0 vb0 σ0 cb cc vb vc hist σ)
    (hpB : IntVar σ (layerPointer bT.id 0) q) (hpC : IntVar σ (layerPointer cT.id 0) r)
    (hi : IntVar σ i x) (hr0 : -2147483648 ≤ x) (hr1 : x < 2147483648) :
    ∃ σ' cb' cc' vb' vc', RunsL fuel (branchBodyA outT) σ σ' ∧
      InvA i outT bT cT cb0 vb0 σ0 cb' cc' vb' vc' (hist ++ [(x, FloatOps.mul (cellsB q) (cellsC r))]) σ' ∧
      (∀ y, y ∉ midW outT → lookupVar σ'.vars y = lookupVar σ.vars y) ∧
      (∀ k blk, k ≠ cb → k ≠ vb → σ.heap[k]? = some blk → σ'.heap[k]? = some blk) := by
  obtain ⟨ho1, ho2⟩ := (isSp_iff i outT).1 ho
  obtain ⟨hb1, hb2⟩ := (isSp_iff i bT).1 hb
  obtain ⟨hc1, hc2⟩ := (isSp_iff i cT).1 hc
  obtain ⟨hdb, hArr, hCap, hEty, hBon, hidx⟩ := Sparse1.outLeaf_facts ho
  have hsmB := pre.smallB
  have hsmC := pre.smallC
  have hne0 : mulE bT cT ≠ .int 0 := by simp [mulE]
  have hl : ToIr.leaves (mulE bT cT) = [bT, cT] := rfl
  have holen : outT.indexes.length = 1 := by rw [ho1]; rfl
  have hblen : bT.indexes.length = 1 := by rw [hb1]; rfl
  have hclen : cT.indexes.length = 1 := by rw [hc1]; rfl
  -- abbreviations
  obtain ⟨p, hp⟩ : ∃ p : Int, p = hist.length := ⟨_, rfl⟩
  have hp0 : 0 ≤ p := by omega
  have hpm : p < 1073741824 := by omega
  have hptr : IntVar σ (layerPointer outT.id 0) p := by rw [hp]; exact hinv.ptr
  have hlec : p ≤ cc := by rw [hp]; exact hinv.lec
  have hlev : p ≤ vc := by rw [hp]; exact hinv.lev
  -- 1. vals allocation
  obtain ⟨o1, vb1, vc1, e1, r1, g1, hvc1, hroom1⟩ := writePosAllocation_nodense_safe (outLeaf outT) fuel σ
    vb vc p hdb (by rw [hArr, hCap, hEty]; exact hinv.vals) hptr hp0 (by rw [hBon]; omega)
    (by rw [hBon]; intro h; omega)
  rw [hArr, hCap, hEty] at g1
  rw [hBon] at hroom1
  have hpv1 : p < vc1 := by have := hroom1 (by omega); omega
  have run1 : Runs fuel (writePosAllocation (outLeaf outT)).finalize σ o1.st := ⟨o1, e1, r1, rfl⟩
  have f1 : ∀ y, y ≠ valsName outT.name → y ≠ valsCapName outT.name →
      lookupVar o1.st.vars y = lookupVar σ.vars y := g1.vars
  -- block indices are valid
  obtain ⟨cblk, hcblk, hclive, hcown, hcty, hclen'⟩ := hinv.crd.blk
  obtain ⟨vblk, hvblk, hvlive, hvown, hvty, hvlen⟩ := hinv.vals.blk
  have hcbl : cb < σ.heap.length := lt_length_of_getElem? hcblk
  have hvbl : vb < σ.heap.length := lt_length_of_getElem? hvblk
  have hvb1 : vb1 = vb ∨ vb1 = σ.heap.length := by
    rcases g1.old with ⟨h, _⟩ | ⟨h, _⟩
    · exact .inl h
    · exact .inr h
  have hcv1 : cb ≠ vb1 := by
    rcases hvb1 with h | h
    · rw [h]; exact hinv.hne
    · omega
  -- 2. bool written = false
  obtain ⟨σ2, r2, hh2, ht2, ⟨rw2, hrw1, hrw2, _⟩, f2⟩ := Dense1.runsI_declAssign (fuel := fuel)
    (x := writtenName outT.name 0) (t := .bool) (e := (.boolLit false : Expr F)) (σ := o1.st)
    (val := .bool false) (val' := .bool false)
    (by rw [f1 _ (by snm N) (by snm N)]; exact hinv.flag) (by simp [evalE]) rfl
  have run2 : Runs fuel (declAssignE (writtenName outT.name 0) .bool (.boolLit false)) o1.st σ2 := by
    obtain ⟨o, e, r, s, _⟩ := r2; exact ⟨o, e, r, s⟩
  -- 3. the terminal block: written = true
  have run3' := ToIr.flagStmt_runs (fuel := fuel) (σ := σ2) (f := writtenName outT.name 0) ⟨rw2, hrw1, hrw2⟩
  generalize hσ3 : ({ σ2 with vars := setVar σ2.vars (writtenName outT.name 0) (.bool true) } : State F) = σ3
    at run3'
  have run3 : Runs fuel (termBlockA outT) σ2 σ3 := Runs.block (RunsL.cons run3' (RunsL.nil _ _))
  have hh3 : σ3.heap = σ2.heap := by rw [← hσ3]
  have ht3 : σ3.tensors = σ2.tensors := by rw [← hσ3]
  have f3' : ∀ y, y ≠ writtenName outT.name 0 → lookupVar σ3.vars y = lookupVar σ2.vars y := by
    intro y hy; rw [← hσ3]; exact lookupVar_setVar_other _ hy
  have hfl3 : ToIr.FlagTrue σ3 (writtenName outT.name 0) := by
    rw [← hσ3]
    exact ⟨_, lookupVar_setVar_same _ hrw1, hrw2, rfl⟩
  have hpA2 : IntVar σ2 (layerPointer outT.id 0) p := hptr.congr (by
    rw [f2 _ (by snm N), f1 _ (by snm N) (by snm N)])
  obtain ⟨vblk1, hvblk1, hv1live, hv1own, hv1ty, hv1len⟩ := g1.inv.blk
  have hvb1l : vb1 < o1.st.heap.length := lt_length_of_getElem? hvblk1
  have hlen3 : σ3.heap.length = σ2.heap.length := by rw [hh3]
  have hother3 : ∀ b', b' ≠ vb1 → σ3.heap[b']? = σ2.heap[b']? := by
    intro b' _; rw [hh3]
  have hvblk3 : σ3.heap[vb1]? = some vblk1 := by rw [hh3, hh2]; exact hvblk1
  -- 4. crd assembly
  have hcb3 : σ3.heap[cb]? = some cblk := by
    rw [hother3 cb hcv1, hh2]; exact g1.heap cb cblk hinv.hne hcblk
  have hcrd3 : ArrInv σ3 (crdName outT.name 0) (crdCapName outT.name 0) .int cb cc :=
    ⟨hinv.crd.arr.congr (by rw [f3' _ (by snm N), f2 _ (by snm N), f1 _ (by snm N) (by snm N)]),
     hinv.crd.cap.congr (by rw [f3' _ (by snm N), f2 _ (by snm N), f1 _ (by snm N) (by snm N)]),
     ⟨cblk, hcb3, hclive, hcown, hcty, hclen'⟩, hinv.crd.pos, hinv.crd.lt⟩
  have hpA3 : IntVar σ3 (layerPointer outT.id 0) p := hpA2.congr (f3' _ (by snm N))
  have hi3 : IntVar σ3 (outLeaf outT).index x := by
    rw [hidx]
    exact hi.congr (by rw [f3' _ (by snm N), f2 _ (by snm N), f1 _ (by snm N) (by snm N)])
  obtain ⟨σ4, cb4, cc4, run4, sp, hpA4, hi4⟩ := crdAssembly_runs (outLeaf outT) fuel σ3 cb cc p x
    hcrd3 hpA3 hp0 hlec hi3 hr0 hr1 (by intro h; omega)
    (namesDistinct_of_index _ (by rw [hidx]; exact N.iu))
  have f4 : ∀ y, y ≠ crdName outT.name 0 → y ≠ crdCapName outT.name 0 →
      lookupVar σ4.vars y = lookupVar σ3.vars y := sp.vars
  -- 5. p_a++
  have hpA4' : IntVar σ4 (layerPointer outT.id 0) p := hpA4
  have run5 := Runs.assign_int (fuel := fuel) hpA4'
    (evalE_add (evalE_var_int hpA4' (by omega) (by omega))
      (evalE_intLit (σ := σ4) (v := 1) (by omega) (by omega)) (by omega) (by omega))
  generalize hσ5 : ({ σ4 with vars := setVar σ4.vars (layerPointer outT.id 0) (.int (p + 1)) } : State F) = σ5
    at run5
  have f5 : ∀ y, y ≠ layerPointer outT.id 0 → lookupVar σ5.vars y = lookupVar σ4.vars y := by
    intro y hy; rw [← hσ5]; exact lookupVar_setVar_other _ hy
  have hh5 : σ5.heap = σ4.heap := by rw [← hσ5]
  have ht5 : σ5.tensors = σ4.tensors := by rw [← hσ5]
  have hpA5 : IntVar σ5 (layerPointer outT.id 0) (p + 1) := by
    obtain ⟨r, e1, e2, _⟩ := hpA4'
    rw [← hσ5]
    exact ⟨_, lookupVar_setVar_same _ e1, e2, rfl⟩
  -- the run
  have hrun : RunsL fuel (branchBodyA outT) σ σ5 :=
    RunsL.cons run1 (RunsL.cons run2 (RunsL.cons run3
      (RunsL.cons (Runs.branch_true (Sparse1.evalE_var_flag hfl3)
        (Runs.block (RunsL.cons run4 (RunsL.cons run5 (RunsL.nil _ _))))) (RunsL.nil _ _))))
  -- frames
  have fvars : ∀ y, y ∉ midW outT → lookupVar σ5.vars y = lookupVar σ.vars y := by
    intro y hy
    simp only [midW, List.mem_cons, List.not_mem_nil, or_false, not_or] at hy
    obtain ⟨y1, y2, y3, y4, y5, y6⟩ := hy
    rw [f5 y y6, f4 y y4 y5, f3' y y3, f2 y y3, f1 y y1 y2]
  have fheap : ∀ k blk, k ≠ cb → k ≠ vb → σ.heap[k]? = some blk → σ5.heap[k]? = some blk := by
    intro k blk hk1 hk2 hk
    have hkl : k < σ.heap.length := lt_length_of_getElem? hk
    have hk3 : k ≠ vb1 := by rcases hvb1 with h | h <;> omega
    rw [hh5]
    apply sp.heap k blk hk1
    rw [hother3 k hk3, hh2]
    exact g1.heap k blk hk2 hk
  have hlen5 : σ.heap.length ≤ σ5.heap.length := by
    rw [hh5]
    refine Nat.le_trans ?_ sp.len
    rw [hlen3, hh2]; exact g1.len
  have hcb4 : cb4 = cb ∨ cb4 = σ3.heap.length := by
    rcases sp.old with h | ⟨h, _⟩
    · exact .inl h
    · exact .inr h
  have hl13 : σ3.heap.length = o1.st.heap.length := by rw [hlen3, hh2]
  -- the vals block in the final state
  have hv5 : σ5.heap[vb1]? = some vblk1 := by
    rw [hh5]; exact sp.heap vb1 vblk1 (Ne.symm hcv1) hvblk3
  obtain ⟨cblk4, hcblk4, hc4cell⟩ := sp.cell
  refine ⟨σ5, cb4, cc4, vb1, vc1, hrun, ?_, fvars, fheap⟩
  have hlenapp : ((hist ++ [(x, FloatOps.mul (cellsB q) (cellsC r))]).length : Int) = p + 1 := by
    simp only [List.length_append, List.length_cons, List.length_nil]; omega
  have hlenNat : hist.length = p.toNat := by omega
  refine
    { tensors := ?_, len := Nat.le_trans hinv.len hlen5, old := ?_, vars := ?_, crd := ?_, vals := ?_,
      hcb := ?_, hvb := ?_, hne := ?_, ptr := ?_, lec := ?_, lev := ?_, crdCells := ?_,
      flag := ?_ }
  · rw [ht5, sp.tensors, ht3, ht2, g1.tensors, hinv.tensors]
  · intro k blk hk1 hk2 hk
    have hkl : k < σ0.heap.length := lt_length_of_getElem? hk
    refine fheap k blk ?_ ?_ (hinv.old k blk hk1 hk2 hk)
    · rcases hinv.hcb with h | h <;> omega
    · rcases hinv.hvb with h | h <;> omega
  · intro y hy
    rw [fvars y (by
      intro hm; apply hy; simp only [touched, List.mem_append]; exact .inl hm), hinv.vars y hy]
  · exact sp.inv.congr hh5 (f5 (crdName outT.name 0) (by snm N)) (f5 (crdCapName outT.name 0) (by snm N))
  · refine ⟨g1.inv.arr.congr ?_, g1.inv.cap.congr ?_, ⟨vblk1, hv5, hv1live, hv1own, hv1ty, hv1len⟩,
      g1.inv.pos, g1.inv.lt⟩
    · rw [f5 _ (by snm N), f4 _ (by snm N) (by snm N), f3' _ (by snm N), f2 _ (by snm N)]
    · rw [f5 _ (by snm N), f4 _ (by snm N) (by snm N), f3' _ (by snm N), f2 _ (by snm N)]
  · rcases hcb4 with h | h
    · rw [h]; exact hinv.hcb
    · right; rw [h, hl13]; exact Nat.le_trans hinv.len g1.len
  · rcases hvb1 with h | h
    · rw [h]; exact hinv.hvb
    · right; rw [h]; exact hinv.len
  · rcases hcb4 with h | h
    · rw [h]; exact hcv1
    · rw [h, hl13]; omega
  · rw [hlenapp]; exact hpA5
  · rw [hlenapp]; have := sp.bound; omega
  · rw [hlenapp]; omega
  · refine ⟨cblk4, by rw [hh5]; exact hcblk4, ?_⟩
    intro j hj
    simp only [List.length_append, List.length_cons, List.length_nil] at hj
    by_cases hjp : j < hist.length
    · obtain ⟨cb', hcb', hcells'⟩ := hinv.crdCells
      rw [hcblk] at hcb'; cases hcb'
      rw [List.getElem_append_left hjp]
      rw [sp.cells cblk cblk4 hcb3 hcblk4 j (by omega) (by omega)]
      exact hcells' j hjp
    · have hje : j = hist.length := by omega
      subst hje
      rw [List.getElem_append_right (Nat.le_refl _)]
      simp only [Nat.sub_self, List.getElem_cons_zero]
      rw [hlenNat]; exact hc4cell
  · intro r hr
    obtain ⟨r', e1, e2, _⟩ := hfl3
    rw [f5 _ (by snm N), f4 _ (by snm N) (by snm N), e1] at hr
    cases hr; exact e2

/-- **(a) The loop body step.** From a state satisfying the invariant after the history `hist`, in which the
input cursors hold positions `q < mb`, `r < mc`, the loaded coordinates `i_b`, `i_c` hold the int32s `xb`,
`xc` and the index `i` holds the int32 `x`: the statement between the `min` and the increments runs without
error (any fuel). If `xb = x` and `xc = x` (both operands store the coordinate; then `|hist| < 2^30` is
needed) the entry `(x, b[q] * c[r])` is appended; otherwise the state is NOT
CHANGED AT ALL (the branch is skipped: no phantom coordinate, C03). It writes only the variables `midW` and no
block of the old heap other than the two output arrays. -/
theorem mid_stepA (N : KNames i outT bT cT) (ho : isSp i outT = true) (hb : isSp i bT = true)
    (hc : isSp i cT = true)
    (pre : LoopPre bT cT mb mc bvb cvb cellsB cellsC cb0 vb0 σ0)
    (fuel : Nat) (σ : State F) (hist : List (Int × F)) (cb : Nat) (cc : Int) (vb : Nat) (vc : Int)
    (q r : Nat) (xb xc x : Int) (hq : q < mb) (hr : r < mc)
    (hinv : InvA i outT bT cT cb0 vb0 σ0 cb cc vb vc hist σ)
    (hpB : IntVar σ (layerPointer bT.id 0) q) (hpC : IntVar σ (layerPointer cT.id 0) r)
    (hvB : IntVar σ (valueFromCrd bT.id 0) xb) (hvC : IntVar σ (valueFromCrd cT.id 0) xc)
    (hi : IntVar σ i x)
    (hb0 : -2147483648 ≤ xb) (hb1 : xb < 2147483648) (hc0 : -2147483648 ≤ xc) (hc1 : xc < 2147483648)
    (hr0 : -2147483648 ≤ x) (hr1 : x < 2147483648)
    (hboth : xb = x → xc = x → hist.length < 1073741824) :
    ∃ σ' cb' cc' vb' vc', RunsL fuel [midStmtA i outT bT cT] σ σ' ∧
      InvA i outT bT cT cb0 vb0 σ0 cb' cc' vb' vc' (stepHist hist xb xc x (cellsB q) (cellsC r)) σ' ∧
      (¬ (xb = x ∧ xc = x) → σ' = σ) ∧
      (∀ y, y ∉ midW outT → lookupVar σ'.vars y = lookupVar σ.vars y) ∧
      (∀ k blk, k ≠ cb → k ≠ vb → σ.heap[k]? = some blk → σ'.heap[k]? = some blk) := by
  have econd : evalE σ (bothCond i bT cT) = .ok (.bool ((true && (xb == x)) && (xc == x))) :=
    evalE_and (evalE_and (σ := σ) (l := .boolLit true) (a := true) (by simp [evalE])
      (evalE_eqInt (evalE_var_int hvB hb0 hb1) (evalE_var_int hi hr0 hr1)))
      (evalE_eqInt (evalE_var_int hvC hc0 hc1) (evalE_var_int hi hr0 hr1))
  by_cases hcase : xb = x ∧ xc = x
  · have hlen := hboth hcase.1 hcase.2
    obtain ⟨σ', cb', cc', vb', vc', hrun, hinv', fv, fh⟩ := branch_stepA N ho hb hc pre fuel σ hist cb cc vb vc
      q r x hq hr hlen hinv hpB hpC hi hr0 hr1
    refine ⟨σ', cb', cc', vb', vc', ?_, ?_, fun h => absurd hcase h, fv, fh⟩
    · refine RunsL.cons (Runs.branch_true ?_ (Runs.block hrun)) (RunsL.nil _ _)
      rw [econd, hcase.1, hcase.2]; simp
    · unfold stepHist; rw [if_pos hcase]; exact hinv'
  · refine ⟨σ, cb, cc, vb, vc, ?_, ?_, fun _ => rfl, fun _ _ => rfl, fun _ _ _ _ h => h⟩
    · refine RunsL.cons (Runs.branch_false ?_ (Runs.skip _ _ _)) (RunsL.nil _ _)
      rw [econd]
      have : ((true && (xb == x)) && (xc == x)) = false := by
        by_cases h1 : xb = x
        · have h2 : xc ≠ x := fun h2 => hcase ⟨h1, h2⟩
          simp [h1, h2]
        · simp [h1]
      rw [this]
    · unfold stepHist; rw [if_neg hcase]; exact hinv

end step

end TV.Spmul
