import TensoraVerif.Lemmas.AsmCmp2SpmulAsmLoop
import TensoraVerif.Lemmas.AsmCmp2SpmulPost

/-!
C04 for the element-wise product of two sparse vectors (`Spmul` class), assembling kernel, part 3: the iteration
block (`iterBlock_runsA`), the cleanup (`cleanup_runsA`) and the whole `assemble` function on the machine
(`kernel_runsA`), from `Init` to `KernelPostA` — as `SpmulBlock.lean` / `SpmulKernel.lean` without any statement
about the contents of `vals`. The prologue is that of `evaluate` (`prologue_runs`, re-used as it is).
-/
namespace TV.Spmul
open TV.IR TV.Gen TV.Graph TV.Growth TV.Merge TV.Dense1
open TV.Sparse1 (isSp isSp_iff outLeaf inLeaf midW nameClass nc_ptr nc_end nc_val nc_wr cleanupLines unpackStmts
  capVal)
set_option linter.unusedSectionVars false
variable {F : Type} [FloatOps F]

/-- **The state before the cleanup**, relative to the initial state `σ0` of the kernel call, after the
entries `hist` have been appended: tensor records and every block of the initial heap unchanged; the output's
`pos` array is the fresh block `|σ0.heap|` = `[0, |hist|]`; the `crd` / `vals` variables point to live output
blocks (fresh, different) of at least `|hist|` cells — the `crd` one holding the coordinates of `hist`,
nothing is said of the cells of `vals`; the
output cursor is `|hist|`. -/
structure AfterLoopA (outT : TensorId) (ta : Nat) (hist : List (Int × F)) (σ0 σF : State F) : Prop where
  tensors : σF.tensors = σ0.tensors
  old : ∀ k, k < σ0.heap.length → σF.heap[k]? = σ0.heap[k]?
  pos : σF.heap[σ0.heap.length]? = some ⟨.int, [some (.int 0), some (.int hist.length)], .output, true⟩
  apos : PtrVar σF (posName outT.name 0) σ0.heap.length
  avar : TensorVar σF outT.name ta
  ptr : IntVar σF (layerPointer outT.id 0) hist.length
  arrs : ∃ cb vb cblk vblk, PtrVar σF (crdName outT.name 0) cb ∧ PtrVar σF (valsName outT.name) vb ∧
    σ0.heap.length < cb ∧ σ0.heap.length < vb ∧ cb ≠ vb ∧
    σF.heap[cb]? = some cblk ∧ cblk.live = true ∧ cblk.owner = .output ∧ cblk.ty = .int ∧
    hist.length ≤ cblk.cells.length ∧
    (∀ j (h : j < hist.length), cblk.cells[j]? = some (some (.int hist[j].1))) ∧
    σF.heap[vb]? = some vblk ∧ vblk.live = true ∧ vblk.owner = .output ∧ vblk.ty = .float ∧
    hist.length ≤ vblk.cells.length

set_option maxHeartbeats 1000000 in
/-- **the iteration block** -/
theorem iterBlock_runsA {i : String} {outT bT cT : TensorId}
    (N : KNames i outT bT cT) (ho : isSp i outT = true) (hb : isSp i bT = true) (hc : isSp i cT = true)
    {k : Int} (hk0 : 1 ≤ k) (hk1 : k < 2147483648)
    {ta : Nat} {atr : TensorRec F} {n : Int}
    {tb : Nat} {btr : TensorRec F} {mb bpb bcb bvb : Nat} {crdB : Nat → Int} {cellsB : Nat → F}
    {tc : Nat} {ctr : TensorRec F} {mc cpb ccb cvb : Nat} {crdC : Nat → Int} {cellsC : Nat → F}
    {σ0 σC : State F}
    (init : Init outT bT cT ta atr n tb btr mb bpb bcb bvb crdB cellsB tc ctr mc cpb ccb cvb crdC cellsC σ0)
    (entry : Entry i outT bT cT k bpb bcb bvb cpb ccb cvb σ0 σC)
    (hmb : mb ≤ 1073741824) (hmc : mc ≤ 1073741824)
    (hrngB : ∀ j, j < mb → -2147483648 ≤ crdB j ∧ crdB j < 2147483648)
    (hrngC : ∀ j, j < mc → -2147483648 ≤ crdC j ∧ crdC j < 2147483648)
    (fuel : Nat) (hfuel : mb + mc + 1 ≤ fuel) :
    ∃ σF its, RunsLI fuel (loopLinesA i outT bT cT) σC σF its ∧ its ≤ mb + mc ∧
      its = (mergeTrace [⟨inLeaf bT, bcb, crdB, 0, mb⟩, ⟨inLeaf cT, ccb, crdC, 0, mc⟩]).length ∧
      AfterLoopA outT ta (intersect (assoc mb crdB cellsB) (assoc mc crdC cellsC)) σ0 σF := by
  obtain ⟨ho1, ho2⟩ := (isSp_iff i outT).1 ho
  have hfresh : ∀ x, nameClass x ≠ 0 → x ∉ proW i outT bT cT → lookupVar σC.vars x = none := by
    intro x hx hw
    rw [entry.frame x hw]
    refine init.fresh x ?_ ?_ ?_
    · intro h; rw [h, N.a0] at hx; exact hx rfl
    · intro h; rw [h, N.b0] at hx; exact hx rfl
    · intro h; rw [h, N.c0] at hx; exact hx rfl
  obtain ⟨pblkB, hpbB, hpliveB, hptyB, hpc0B, hpc1B⟩ := init.b.pos
  obtain ⟨cblk0B, hcbB, hcliveB, hctyB, hclenB, hccellsB⟩ := init.b.crd
  obtain ⟨vblk0B, hvbB, hvliveB, hvtyB, hvcellsB⟩ := init.b.val
  obtain ⟨pblkC, hpbC, hpliveC, hptyC, hpc0C, hpc1C⟩ := init.c.pos
  obtain ⟨cblk0C, hcbC, hcliveC, hctyC, hclenC, hccellsC⟩ := init.c.crd
  obtain ⟨vblk0C, hvbC, hvliveC, hvtyC, hvcellsC⟩ := init.c.val
  have hbpbl : bpb < σ0.heap.length := lt_length_of_getElem? hpbB
  have hbcbl : bcb < σ0.heap.length := lt_length_of_getElem? hcbB
  have hbvbl : bvb < σ0.heap.length := lt_length_of_getElem? hvbB
  have hcpbl : cpb < σ0.heap.length := lt_length_of_getElem? hpbC
  have hccbl : ccb < σ0.heap.length := lt_length_of_getElem? hcbC
  have hcvbl : cvb < σ0.heap.length := lt_length_of_getElem? hvbC
  have hCold : ∀ j, j < σ0.heap.length → σC.heap[j]? = σ0.heap[j]? := by
    intro j hj; rw [entry.heap, List.getElem?_append_left hj]
  -- D1: sparse init of b
  let cB : Cur := ⟨inLeaf bT, bcb, crdB, 0, mb⟩
  let cC : Cur := ⟨inLeaf cT, ccb, crdC, 0, mc⟩
  obtain ⟨n1, n2, n3, n4⟩ := cur_namesB (c := cB) (bT := bT) rfl
  obtain ⟨m1, m2, m3, m4⟩ := cur_namesB (c := cC) (bT := cT) rfl
  have hWpB : layerPointer bT.id 0 ∉ proW i outT bT cT := by snotin N
  have hWeB : sparseEndName bT.id 0 ∉ proW i outT bT cT := by snotin N
  have hWvB : valueFromCrd bT.id 0 ∉ proW i outT bT cT := by snotin N
  have hWpC : layerPointer cT.id 0 ∉ proW i outT bT cT := by snotin N
  have hWeC : sparseEndName cT.id 0 ∉ proW i outT bT cT := by snotin N
  have hWvC : valueFromCrd cT.id 0 ∉ proW i outT bT cT := by snotin N
  have hWw : writtenName outT.name 0 ∉ proW i outT bT cT := by snotin N
  have hWi : i ∉ proW i outT bT cT := by snotin N
  obtain ⟨oD, eD, rD, itD, curD, frD, hhD, htD⟩ := writeSparseInit_safe cB fuel σC bpb 0
    ⟨entry.bpos, by simp [PrevIs, cB, inLeaf], by omega, by omega,
      ⟨pblkB, by rw [hCold _ hbpbl]; exact hpbB, hpliveB, hptyB, by simpa [cB] using hpc0B,
        by simpa [cB] using hpc1B⟩⟩
    (by rw [n3]; exact entry.bcrd) (Nat.zero_le _) (by show (mb : Int) < 2147483648; omega)
    ⟨cblk0B, by rw [hCold _ hbcbl]; exact hcbB, hcliveB, hctyB, hclenB, fun j _ hj => hccellsB j hj⟩
    (fun j _ hj => hrngB j hj)
    (by rw [n1]; intro r hr; rw [hfresh _ (by simp [nc_ptr]) hWpB] at hr; cases hr)
    (by rw [n2]; intro r hr; rw [hfresh _ (by simp [nc_end]) hWeB] at hr; cases hr)
  rw [n1, n2] at frD
  have runD : RunsLI fuel (writeSparseInit (inLeaf bT)).lines σC oD.st 0 := by
    refine ⟨oD, ?_, rD, rfl, itD⟩
    have : (writeSparseInit (F := F) cB.leaf).finalize = .block (writeSparseInit (inLeaf bT)).lines none := rfl
    rw [this, exec.eq_5] at eD
    exact eD
  generalize oD.st = σD at *
  -- D2: sparse init of c
  obtain ⟨oE, eE, rE, itE, curE, frE, hhE, htE⟩ := writeSparseInit_safe cC fuel σD cpb 0
    ⟨entry.cpos.congr (frD _ (by snm N) (by snm N)), by simp [PrevIs, cC, inLeaf], by omega, by omega,
      ⟨pblkC, by rw [hhD, hCold _ hcpbl]; exact hpbC, hpliveC, hptyC, by simpa [cC] using hpc0C,
        by simpa [cC] using hpc1C⟩⟩
    (by rw [m3]; exact entry.ccrd.congr (frD _ (by snm N) (by snm N))) (Nat.zero_le _)
    (by show (mc : Int) < 2147483648; omega)
    ⟨cblk0C, by rw [hhD, hCold _ hccbl]; exact hcbC, hcliveC, hctyC, hclenC, fun j _ hj => hccellsC j hj⟩
    (fun j _ hj => hrngC j hj)
    (by
      rw [m1]; intro r hr
      rw [frD _ (by snm N) (by snm N), hfresh _ (by simp [nc_ptr]) hWpC] at hr; cases hr)
    (by
      rw [m2]; intro r hr
      rw [frD _ (by snm N) (by snm N), hfresh _ (by simp [nc_end]) hWeC] at hr; cases hr)
  rw [m1, m2] at frE
  have runE : RunsLI fuel (writeSparseInit (inLeaf cT)).lines σD oE.st 0 := by
    refine ⟨oE, ?_, rE, rfl, itE⟩
    have : (writeSparseInit (F := F) cC.leaf).finalize = .block (writeSparseInit (inLeaf cT)).lines none := rfl
    rw [this, exec.eq_5] at eE
    exact eE
  generalize oE.st = σE at *
  -- both frames together
  have frDE : ∀ y, y ≠ layerPointer bT.id 0 → y ≠ sparseEndName bT.id 0 → y ≠ layerPointer cT.id 0 →
      y ≠ sparseEndName cT.id 0 → lookupVar σE.vars y = lookupVar σC.vars y := by
    intro y h1 h2 h3 h4; rw [frE y h3 h4, frD y h1 h2]
  have hhE' : σE.heap = σC.heap := by rw [hhE, hhD]
  have hEold : ∀ j, j < σ0.heap.length → σE.heap[j]? = σ0.heap[j]? := by
    intro j hj; rw [hhE']; exact hCold j hj
  have curD' : CurInv σE cB := curD.congr (by rw [n3]; exact frE _ (by snm N) (by snm N))
    (by rw [n1]; exact frE _ (by snm N) (by snm N)) (by rw [n2]; exact frE _ (by snm N) (by snm N))
    (by rw [hhE])
  -- the loop
  have hlenE : σE.heap.length = σ0.heap.length + 3 := by rw [hhE', entry.heap]; simp
  have pre : LoopPre bT cT mb mc bvb cvb cellsB cellsC (σ0.heap.length + 1) (σ0.heap.length + 2) σE :=
    { bvals := entry.bvals.congr (frDE _ (by snm N) (by snm N) (by snm N) (by snm N))
      cvals := entry.cvals.congr (frDE _ (by snm N) (by snm N) (by snm N) (by snm N))
      bblk := ⟨vblk0B, by rw [hEold _ hbvbl]; exact hvbB, hvliveB, hvtyB, hvcellsB⟩
      cblk := ⟨vblk0C, by rw [hEold _ hcvbl]; exact hvbC, hvliveC, hvtyC, hvcellsC⟩
      bne := ⟨by omega, by omega⟩
      cne := ⟨by omega, by omega⟩
      cvne := by omega
      smallB := hmb
      smallC := hmc }
  have hkk : ((List.replicate k.toNat (none : Option (Val F))).length : Int) = k := by
    simp; omega
  have hcE : σE.heap[σ0.heap.length + 1]? =
      some (⟨.int, List.replicate k.toNat none, .output, true⟩ : Block F) := by
    rw [hhE', entry.heap]; simp
  have hvE : σE.heap[σ0.heap.length + 2]? =
      some (⟨.float, List.replicate k.toNat none, .output, true⟩ : Block F) := by
    rw [hhE', entry.heap]; simp
  have hP : ∃ cb cc vb vc, InvA i outT bT cT (σ0.heap.length + 1) (σ0.heap.length + 2) σE cb cc vb vc [] σE := by
    refine ⟨σ0.heap.length + 1, k, σ0.heap.length + 2, k, ?_⟩
    refine
      { tensors := rfl, len := Nat.le_refl _, old := fun _ _ _ _ h => h, vars := fun _ _ => rfl,
        crd := ⟨entry.acrd.congr (frDE _ (by snm N) (by snm N) (by snm N) (by snm N)),
          entry.acrdCap.congr (frDE _ (by snm N) (by snm N) (by snm N) (by snm N)),
          ⟨_, hcE, rfl, rfl, rfl, hkk⟩, hk0, hk1⟩,
        vals := ⟨entry.avals.congr (frDE _ (by snm N) (by snm N) (by snm N) (by snm N)),
          entry.avalsCap.congr (frDE _ (by snm N) (by snm N) (by snm N) (by snm N)),
          ⟨_, hvE, rfl, rfl, rfl, hkk⟩, hk0, hk1⟩,
        hcb := .inl rfl, hvb := .inl rfl, hne := by omega,
        ptr := entry.ptr.congr (frDE _ (by snm N) (by snm N) (by snm N) (by snm N)),
        lec := by simp; omega, lev := by simp; omega,
        crdCells := ⟨_, hcE, fun j h => absurd h (by simp)⟩,
        flag := ?_ }
    intro r hr
    rw [frDE _ (by snm N) (by snm N) (by snm N) (by snm N), hfresh _ (by simp [nc_wr]) hWw] at hr
    cases hr
  have hM : MergeInv σE [cB, cC] i := by
    refine ⟨fun d hd => ?_, fun d hd => ?_, ?_⟩
    · simp only [List.mem_cons, List.not_mem_nil, or_false] at hd
      rcases hd with rfl | rfl
      · exact curD'
      · exact curE
    · simp only [List.mem_cons, List.not_mem_nil, or_false] at hd
      rcases hd with rfl | rfl
      · rw [n4]
        intro r hr
        rw [frDE _ (by snm N) (by snm N) (by snm N) (by snm N), hfresh _ (by simp [nc_val]) hWvB] at hr
        cases hr
      · rw [m4]
        intro r hr
        rw [frDE _ (by snm N) (by snm N) (by snm N) (by snm N), hfresh _ (by simp [nc_val]) hWvC] at hr
        cases hr
    · intro r hr
      rw [frDE _ (by snm N) (by snm N) (by snm N) (by snm N), entry.frame _ hWi, init.fresh _ N.ia N.ib N.ic] at hr
      cases hr
  obtain ⟨oL, eL, rL, itL1, itL2, ⟨cb, cc, vb, vc, hinv⟩⟩ := loop_runsA N ho hb hc pre bcb ccb
    ⟨by omega, by omega, by omega⟩ ⟨by omega, by omega, by omega⟩ fuel σE hfuel hM hP
  have runL : RunsI fuel (mergeLoopL [inLeaf bT, inLeaf cT] i [midStmtA i outT bT cT]) σE oL.st oL.iters :=
    ⟨oL, eL, rL, rfl, rfl⟩
  generalize hits : oL.iters = its at *
  generalize oL.st = σL at *
  generalize hH : intersect (assoc mb crdB cellsB) (assoc mc crdC cellsC) = H at *
  have hHlen : H.length ≤ mb := by
    rw [← hH]
    have := (intersect_length_le (assoc mb crdB cellsB) (assoc mc crdC cellsC)).1
    simpa using this
  -- facts in σL
  have hposL : σL.heap[σ0.heap.length]? = some ⟨.int, [some (.int 0), none], .output, true⟩ :=
    hinv.old _ _ (by omega) (by omega) (by rw [hhE', entry.heap]; simp)
  have hTa : outT.name ∉ touched i outT bT cT := by snotouch N
  have hTp : posName outT.name 0 ∉ touched i outT bT cT := by snotouch N
  have hTc : posCapName outT.name 0 ∉ touched i outT bT cT := by snotouch N
  have haposL : PtrVar σL (posName outT.name 0) σ0.heap.length :=
    entry.apos.congr (by rw [hinv.vars _ hTp, frDE _ (by snm N) (by snm N) (by snm N) (by snm N)])
  have hacapL : IntVar σL (posCapName outT.name 0) 2 :=
    entry.aposCap.congr (by rw [hinv.vars _ hTc, frDE _ (by snm N) (by snm N) (by snm N) (by snm N)])
  have hWa : outT.name ∉ proW i outT bT cT := by snotin N
  have havarL : TensorVar σL outT.name ta :=
    init.avar.congr (by
      rw [hinv.vars _ hTa, frDE _ (by snm N) (by snm N) (by snm N) (by snm N), entry.frame _ hWa])
  have hptrL : IntVar σL (layerPointer outT.id 0) H.length := hinv.ptr
  -- F: pos assembly
  obtain ⟨oF, eF, rF, sF, _⟩ := writePosAssembly_safe (outLeaf outT) fuel σL σ0.heap.length 2 H.length 0
    ⟨.int, [some (.int 0), none], .output, true⟩
    ⟨haposL, hacapL, ⟨_, hposL, rfl, rfl, rfl, rfl⟩, by omega, by omega⟩ hposL
    (by simp [PrevIs, outLeaf]) (by omega) (by omega) hptrL (by omega) (by omega)
  have runF : RunsI fuel (writePosAssembly (outLeaf outT)).finalize σL oF.st 0 :=
    ⟨oF, eF, rF, rfl, Sparse1.exec_noLoop_iters fuel _ σL (Sparse1.noLoop_writePosAssembly _) oF eF⟩
  generalize oF.st = σF at *
  have hlL : σ0.heap.length < σL.heap.length := by have := hinv.len; omega
  refine ⟨σF, 0 + (0 + (its + (0 + 0))), ?_, by omega, by omega, ?_⟩
  · have := RunsLI.append runD (RunsLI.append runE (RunsLI.cons runL (RunsLI.cons runF (RunsLI.nil _ _))))
    simpa [loopLinesA] using this
  · obtain ⟨cblk, hcblk, hclive', hcown', hcty', hclen'⟩ := hinv.crd.blk
    obtain ⟨vblk, hvblk, hvlive', hvown', hvty', hvlen'⟩ := hinv.vals.blk
    obtain ⟨cblk', hcblk', hccells'⟩ := hinv.crdCells
    rw [hcblk] at hcblk'; cases hcblk'
    have hcbH : σ0.heap.length < cb := by rcases hinv.hcb with h | h <;> omega
    have hvbH : σ0.heap.length < vb := by rcases hinv.hvb with h | h <;> omega
    have hlec := hinv.lec
    have hlev := hinv.lev
    subst sF
    refine
      { tensors := by show σL.tensors = _; rw [hinv.tensors, htE, htD, entry.tensors],
        old := ?_, pos := ?_, apos := haposL, avar := havarL, ptr := hptrL, arrs := ?_ }
    · intro j hj
      show (σL.heap.set _ _)[j]? = _
      rw [List.getElem?_set_ne (by omega)]
      cases hj' : σ0.heap[j]? with
      | none => rw [List.getElem?_eq_none_iff] at hj'; omega
      | some blk =>
        exact hinv.old j blk (by omega) (by omega) (by rw [hEold j hj]; exact hj')
    · show (σL.heap.set _ _)[_]? = _
      rw [List.getElem?_set_self hlL]
      rfl
    · refine ⟨cb, vb, cblk, vblk, hinv.crd.arr, hinv.vals.arr, hcbH, hvbH, hinv.hne, ?_, hclive', hcown', hcty',
        by omega, hccells', ?_, hvlive', hvown', hvty', by omega⟩
      · show (σL.heap.set _ _)[cb]? = _
        rw [List.getElem?_set_ne (by omega)]; exact hcblk
      · show (σL.heap.set _ _)[vb]? = _
        rw [List.getElem?_set_ne (by omega)]; exact hvblk

set_option maxHeartbeats 1000000 in
/-- **the cleanup**: the final reallocs and the hand-over to the output record -/
theorem cleanup_runsA {i : String} {outT bT cT : TensorId} (N : KNames i outT bT cT)
    {ta : Nat} {atr : TensorRec F} {hist : List (Int × F)} {σ0 σF : State F}
    (arec : σ0.tensors[ta]? = some atr) (aown : atr.owner = .output) (aord : 0 < atr.order)
    (aslot : ∃ p c, atr.slots[0]? = some (some (p, c)) ∧ isPtrVal p = true ∧ isPtrVal c = true)
    (al : AfterLoopA outT ta hist σ0 σF) (hm : hist.length ≤ 1073741824) (fuel : Nat) :
    ∃ σG, RunsLI fuel (cleanupLines outT) σF σG 0 ∧ KernelPostA ta atr hist σ0 σG := by
  obtain ⟨cb, vb, cblk, vblk, hcv, hvv, hcbH, hvbH, hcvne, hcblk, hclive, hcown, hcty, hclen, hccells,
    hvblk, hvlive, hvown, hvty, hvlen⟩ := al.arrs
  obtain ⟨ap, ac, hasl, _, _⟩ := aslot
  obtain ⟨m, hmdef⟩ : ∃ m : Nat, m = hist.length := ⟨_, rfl⟩
  have hcbL : cb < σF.heap.length := lt_length_of_getElem? hcblk
  have hvbL : vb < σF.heap.length := lt_length_of_getElem? hvblk
  have hHL : σ0.heap.length < σF.heap.length := lt_length_of_getElem? al.pos
  have htaL : ta < σF.tensors.length := by rw [al.tensors]; exact lt_length_of_getElem? arec
  have hsl0 : 0 < atr.slots.length := lt_length_of_getElem? hasl
  have hptr : IntVar σF (layerPointer outT.id 0) m := by rw [hmdef]; exact al.ptr
  have ept : evalE σF (.var (layerPointer outT.id 0)) = .ok (.int m) :=
    evalE_var_int hptr (by omega) (by omega)
  -- G1
  have r1 := Cleanup.runs_realloc (fuel := fuel) (ty := .int) (ety := .int) hcv ept (by omega) rfl hcblk hclive
    hcown hcty
  generalize hσ1 : Cleanup.reallocState σF (crdName outT.name 0) cb cblk .int m = σ1 at r1
  have hv1 : σ1.vars = setVar σF.vars (crdName outT.name 0) (.ptr σF.heap.length 0) := by rw [← hσ1]; rfl
  have hh1 : σ1.heap = σF.heap.set cb { cblk with live := false } ++
      [⟨.int, cblk.cells.take (m : Int).toNat ++ List.replicate ((m : Int).toNat - cblk.cells.length) none,
        .output, true⟩] := by rw [← hσ1]; rfl
  have ht1 : σ1.tensors = σF.tensors := by rw [← hσ1]; rfl
  have f1 : ∀ y, y ≠ crdName outT.name 0 → lookupVar σ1.vars y = lookupVar σF.vars y := by
    intro y hy; rw [hv1]; exact lookupVar_setVar_other _ hy
  have hcrd1 : PtrVar σ1 (crdName outT.name 0) σF.heap.length := by
    obtain ⟨r, t, e1, e2, _⟩ := hcv
    exact ⟨{ r with val := some (.ptr σF.heap.length 0) }, t,
      by rw [hv1]; exact lookupVar_setVar_same _ e1, e2, rfl⟩
  have hl1 : σ1.heap.length = σF.heap.length + 1 := by rw [hh1]; simp
  -- G2
  have r2 := Cleanup.runs_slot (fuel := fuel) (x := outT.name) (arr := posName outT.name 0) (ti := ta)
    (tr := atr) (l := 0) (s := (ap, ac)) (j := 0) (.inl rfl) (al.avar.congr (f1 _ (by snm N)))
    (by rw [ht1, al.tensors]; exact arec) aown aord (by omega) hasl
    (al.apos.congr (f1 _ (by snm N)))
  simp only [if_true] at r2
  generalize hσ2 : Cleanup.slotState σ1 ta atr 0 (.ptr σ0.heap.length 0, ac) = σ2 at r2
  have hv2 : σ2.vars = σ1.vars := by rw [← hσ2]; rfl
  have hh2 : σ2.heap = σ1.heap := by rw [← hσ2]; rfl
  have ht2 : σ2.tensors = σF.tensors.set ta
      { atr with slots := atr.slots.set 0 (some (.ptr σ0.heap.length 0, ac)) } := by
    rw [← hσ2, ← ht1]; rfl
  -- G3
  have r3 := Cleanup.runs_slot (fuel := fuel) (σ := σ2) (x := outT.name) (arr := crdName outT.name 0) (ti := ta)
    (tr := { atr with slots := atr.slots.set 0 (some (.ptr σ0.heap.length 0, ac)) }) (l := 0)
    (s := (.ptr σ0.heap.length 0, ac)) (j := 1) (p := σF.heap.length) (.inr rfl)
    (al.avar.congr (by rw [hv2, f1 _ (by snm N)]))
    (by rw [ht2, List.getElem?_set_self htaL]) aown aord (by omega)
    (by simp [hsl0]) (hcrd1.congr (by rw [hv2]))
  simp only [show ¬ ((1 : Int) = 0) by omega, if_false] at r3
  generalize hσ3 : Cleanup.slotState σ2 ta
    { atr with slots := atr.slots.set 0 (some (.ptr σ0.heap.length 0, ac)) } 0
    (.ptr σ0.heap.length 0, .ptr σF.heap.length 0) = σ3 at r3
  have hv3 : σ3.vars = σ1.vars := by rw [← hσ3, ← hv2]; rfl
  have hh3 : σ3.heap = σ1.heap := by rw [← hσ3, ← hh2]; rfl
  have ht3 : σ3.tensors = σF.tensors.set ta
      { atr with slots := atr.slots.set 0 (some (.ptr σ0.heap.length 0, .ptr σF.heap.length 0)) } := by
    rw [← hσ3]
    show σ2.tensors.set ta _ = _
    rw [ht2, List.set_set]
    simp
  -- G4
  have hvb3 : σ3.heap[vb]? = some vblk := by
    rw [hh3, hh1, List.getElem?_append_left (by simpa using hvbL), List.getElem?_set_ne (by omega)]
    exact hvblk
  have ept3 : evalE σ3 (plus (.var (layerPointer outT.id 0)) (.intLit 1)) = .ok (.int ((m : Int) + 1)) :=
    evalE_add (evalE_var_int (hptr.congr (by rw [hv3, f1 _ (by snm N)])) (by omega) (by omega))
      (evalE_intLit (by omega) (by omega)) (by omega) (by omega)
  have r4 := Cleanup.runs_realloc (fuel := fuel) (σ := σ3) (ty := .float) (ety := .float)
    (hvv.congr (by rw [hv3, f1 _ (by snm N)])) ept3 (by omega) rfl hvb3 hvlive hvown hvty
  generalize hσ4 : Cleanup.reallocState σ3 (valsName outT.name) vb vblk .float ((m : Int) + 1) = σ4 at r4
  have hv4 : σ4.vars = setVar σ3.vars (valsName outT.name) (.ptr σ3.heap.length 0) := by rw [← hσ4]; rfl
  have hh4 : σ4.heap = σ3.heap.set vb { vblk with live := false } ++
      [⟨.float, vblk.cells.take ((m : Int) + 1).toNat ++
        List.replicate (((m : Int) + 1).toNat - vblk.cells.length) none, .output, true⟩] := by
    rw [← hσ4]; rfl
  have ht4 : σ4.tensors = σ3.tensors := by rw [← hσ4]; rfl
  have hvals4 : PtrVar σ4 (valsName outT.name) (σF.heap.length + 1) := by
    obtain ⟨r, t, e1, e2, _⟩ := hvv
    refine ⟨{ r with val := some (.ptr (σF.heap.length + 1) 0) }, t, ?_, e2, rfl⟩
    rw [hv4, hh3, hl1]
    exact lookupVar_setVar_same _ (by rw [hv3, f1 _ (by snm N)]; exact e1)
  -- G5
  have r5 := Cleanup.runs_vals (fuel := fuel) (σ := σ4) (x := outT.name) (arr := valsName outT.name) (ti := ta)
    (tr := { atr with slots := atr.slots.set 0 (some (.ptr σ0.heap.length 0, .ptr σF.heap.length 0)) })
    (p := σF.heap.length + 1)
    (al.avar.congr (by rw [hv4, lookupVar_setVar_other _ (by snm N), hv3, f1 _ (by snm N)]))
    (by rw [ht4, ht3, List.getElem?_set_self htaL]) aown hvals4
  generalize hσ5 : Cleanup.valsState σ4 ta
    { atr with slots := atr.slots.set 0 (some (.ptr σ0.heap.length 0, .ptr σF.heap.length 0)) }
    (.ptr (σF.heap.length + 1) 0) = σ5 at r5
  have hh5 : σ5.heap = σ4.heap := by rw [← hσ5]; rfl
  have ht5 : σ5.tensors = σ4.tensors.set ta
      { atr with slots := atr.slots.set 0 (some (.ptr σ0.heap.length 0, .ptr σF.heap.length 0)),
                 vals := .ptr (σF.heap.length + 1) 0 } := by rw [← hσ5]; rfl
  refine ⟨σ5, RunsLI.cons (RunsI.of_assign r1) (RunsLI.cons (RunsI.of_assign r2) (RunsLI.cons (RunsI.of_assign r3)
    (RunsLI.cons (RunsI.of_assign r4) (RunsLI.cons (RunsI.of_assign r5) (RunsLI.nil _ _))))), ?_⟩
  -- the final heap
  have hfin : ∀ k blk, k < σF.heap.length → k ≠ cb → k ≠ vb → σF.heap[k]? = some blk →
      σ5.heap[k]? = some blk := by
    intro k blk hk h1 h2 hkb
    rw [hh5, hh4, List.getElem?_append_left (by rw [List.length_set, hh3, hl1]; omega),
      List.getElem?_set_ne (Ne.symm h2), hh3, hh1, List.getElem?_append_left (by simpa using hk),
      List.getElem?_set_ne (Ne.symm h1)]
    exact hkb
  have hm' : (m : Int).toNat = m := by omega
  have hm1 : ((m : Int) + 1).toNat = m + 1 := by omega
  have hcF : σ5.heap[σF.heap.length]? = some
      ⟨.int, hist.map (fun p => some (.int p.1)), .output, true⟩ := by
    rw [hh5, hh4, List.getElem?_append_left (by rw [List.length_set, hh3, hl1]; omega),
      List.getElem?_set_ne (by omega), hh3, hh1]
    have : (σF.heap.set cb { cblk with live := false }).length = σF.heap.length := by simp
    rw [List.getElem?_append_right (by omega), this]
    simp only [Nat.sub_self, List.getElem?_cons_zero, Option.some.injEq, Block.mk.injEq, and_true, true_and]
    apply List.ext_getElem?
    intro j
    rw [hm', show m - cblk.cells.length = 0 by omega]
    simp only [List.replicate_zero, List.append_nil]
    by_cases hj : j < m
    · rw [List.getElem?_take_of_lt hj, hccells j (by omega)]
      rw [List.getElem?_map, List.getElem?_eq_getElem (by omega)]
      rfl
    · rw [List.getElem?_eq_none (by simp; omega), List.getElem?_eq_none (by simp; omega)]
  have hvF : ∃ vblk', σ5.heap[σF.heap.length + 1]? = some vblk' ∧ vblk'.live = true ∧ vblk'.owner = .output ∧
      vblk'.ty = .float ∧ vblk'.cells.length = m + 1 := by
    refine ⟨⟨.float, vblk.cells.take ((m : Int) + 1).toNat ++
        List.replicate (((m : Int) + 1).toNat - vblk.cells.length) none, .output, true⟩, ?_, rfl, rfl, rfl, ?_⟩
    · rw [hh5, hh4]
      have : (σ3.heap.set vb { vblk with live := false }).length = σF.heap.length + 1 := by
        rw [List.length_set, hh3, hl1]
      rw [List.getElem?_append_right (by omega), this]
      simp
    · simp only [List.length_append, List.length_take, List.length_replicate, hm1]
      omega
  obtain ⟨vblk', hv1', hv2', hv3', hv4', hv5'⟩ := hvF
  refine
    { outRec := ⟨{ atr with
          slots := atr.slots.set 0 (some (.ptr σ0.heap.length 0, .ptr σF.heap.length 0)),
          vals := .ptr (σF.heap.length + 1) 0 }, σ0.heap.length, σF.heap.length, σF.heap.length + 1, vblk', ?_, aown, rfl, rfl, rfl, rfl,
        Nat.le_refl _, by omega, by omega, by omega, by omega, by omega, ?_, hcF, hv1', hv2', hv3', hv4',
        by rw [hv5', hmdef]⟩,
      otherRecs := ?_, tlen := ?_, heap := ?_ }
  · rw [ht5, List.getElem?_set_self (by rw [ht4, ht3]; simpa using htaL)]
  · exact hfin _ _ hHL (by omega) (by omega) al.pos
  · intro k hk
    rw [ht5, List.getElem?_set_ne (Ne.symm hk), ht4, ht3, List.getElem?_set_ne (Ne.symm hk), al.tensors]
  · rw [ht5, List.length_set, ht4, ht3, List.length_set, al.tensors]
  · intro k hk
    cases hk' : σ0.heap[k]? with
    | none => rw [List.getElem?_eq_none_iff] at hk'; omega
    | some blk =>
      exact hfin k blk (by omega) (by omega) (by omega) (by rw [al.old k hk]; exact hk')

/-- **the whole `assemble` function on the machine** (no finiteness hypothesis: no value is computed) -/
theorem kernel_runsA (cap : Option Int) (formats : Formats) (i : String) (outT bT cT : TensorId)
    (hcl : isClass i outT bT cT = true) (ok : KernelOK formats i outT bT cT)
    (hk0 : 1 ≤ capVal cap) (hk1 : capVal cap < 2147483648)
    {ta : Nat} {atr : TensorRec F} {n : Int}
    {tb : Nat} {btr : TensorRec F} {mb bpb bcb bvb : Nat} {crdB : Nat → Int} {cellsB : Nat → F}
    {tc : Nat} {ctr : TensorRec F} {mc cpb ccb cvb : Nat} {crdC : Nat → Int} {cellsC : Nat → F}
    {σ : State F}
    (init : Init outT bT cT ta atr n tb btr mb bpb bcb bvb crdB cellsB tc ctr mc cpb ccb cvb crdC cellsC σ)
    (hmb : mb ≤ 1073741824) (hmc : mc ≤ 1073741824)
    (hrngB : ∀ j, j < mb → -2147483648 ≤ crdB j ∧ crdB j < 2147483648)
    (hrngC : ∀ j, j < mc → -2147483648 ≤ crdC j ∧ crdC j < 2147483648)
    (fuel : Nat) (hfuel : mb + mc + 1 ≤ fuel) :
    ∃ o, exec fuel (kernelA (F := F) cap formats i outT bT cT).body σ = .ok o ∧ o.ret = some (.int 0) ∧
      o.iters ≤ mb + mc ∧
      KernelPostA ta atr (intersect (assoc mb crdB cellsB) (assoc mc crdC cellsC)) σ o.st := by
  have N := ok.names
  obtain ⟨ho, hb, hc, _⟩ := (isClass_iff i outT bT cT).1 hcl
  obtain ⟨σC, rC, entry⟩ := prologue_runs N cap hk0 hk1 init fuel
  obtain ⟨σF, its, rF, hits1, hits2, al⟩ := iterBlock_runsA N ho hb hc hk0 hk1 init entry hmb hmc
    hrngB hrngC fuel hfuel
  have hHlen : (intersect (assoc mb crdB cellsB) (assoc mc crdC cellsC)).length ≤ 1073741824 := by
    have := (intersect_length_le (assoc mb crdB cellsB) (assoc mc crdC cellsC)).1
    simp only [assoc_length] at this
    omega
  obtain ⟨σG, rG, post⟩ := cleanup_runsA N init.arec init.aown init.aord init.aslot al hHlen fuel
  have hunp : (formats.flatMap fun f => unpackStmts (F := F) f.1) =
      unpackStmts outT.name ++ unpackStmts bT.name ++ unpackStmts cT.name := by
    have : (formats.flatMap fun f => unpackStmts (F := F) f.1) =
        (formats.map (·.1)).flatMap unpackStmts := by
      rw [List.flatMap_map]
    rw [this, ok.fmt]
    simp
  have rAll : RunsLI fuel (kernelStmtsA cap formats i outT bT cT) σ σG (0 + (its + (0 + 0))) := by
    unfold kernelStmtsA
    rw [hunp]
    have h3 := RunsLI.append rC (RunsLI.cons (RunsI.block
      (c := some ("*** Iteration over " ++ i ++ " ***")) rF)
      (RunsLI.cons (RunsI.block (c := some ("Assembling output tensor " ++ outT.name)) rG) (RunsLI.nil _ _)))
    simpa using h3
  obtain ⟨o, eo, hret, hst, hit⟩ := execL_ret (e := .intLit 0) (v := .int 0) rAll
    (evalE_intLit (by omega) (by omega))
  refine ⟨o, ?_, hret, by rw [hit]; omega, by rw [hst]; exact post⟩
  show exec fuel (.block (kernelStmtsA cap formats i outT bT cT ++ [.ret (.intLit 0)]) none) σ = _
  rw [exec.eq_5]
  exact eo

end TV.Spmul
