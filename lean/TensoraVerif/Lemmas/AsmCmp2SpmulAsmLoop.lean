import TensoraVerif.Lemmas.AsmCmp2SpmulAsmBody
import TensoraVerif.Lemmas.SpmulLoop

/-!
C04 for the element-wise product of two sparse vectors (`Spmul` class), assembling kernel, part 2: the whole
loop, by the cursor-indexed merge loop theorem — as `SpmulLoop.lean` with the invariant `InvA` (the history
`hist`, with its ghost values, is still `intersect b c` at exit). The pure lemmas (`hist_step`,
`hist_length_lt`, `reach_pair`, `cur_namesB`) are re-used.
-/
namespace TV.Spmul
open TV.IR TV.Gen TV.Graph TV.Growth TV.Merge
open TV.Sparse1 (isSp isSp_iff outLeaf inLeaf midW)
open TV.AsmCmp (branchBodyA termBlockA)
set_option linter.unusedSectionVars false
variable {F : Type} [FloatOps F]

/-- the ghost predicate of the loop, indexed by the two cursor records -/
def PA (i : String) (outT bT cT : TensorId) (mb mc : Nat) (crdB crdC : Nat → Int) (cellsB cellsC : Nat → F)
    (cb0 vb0 : Nat) (σ0 : State F) (cs : List Cur) (σ : State F) : Prop :=
  ∃ pb pc hist cb cc vb vc, cs.map Cur.p = [pb, pc] ∧
    InvA i outT bT cT cb0 vb0 σ0 cb cc vb vc hist σ ∧
    hist ++ intersect ((assoc mb crdB cellsB).drop pb) ((assoc mc crdC cellsC).drop pc) =
      intersect (assoc mb crdB cellsB) (assoc mc crdC cellsC)

section
variable {i : String} {outT bT cT : TensorId} {mb mc bvb cvb : Nat}
  {cellsB cellsC : Nat → F} {crdB crdC : Nat → Int} {cb0 vb0 : Nat} {σ0 : State F}

/-- the ghost predicate does not look at the variables the skeleton writes -/
theorem curStableA (N : KNames i outT bT cT) {c0b c0c : Cur} (hb0 : c0b.leaf = inLeaf bT)
    (hc0 : c0c.leaf = inLeaf cT) :
    CurStable (PA i outT bT cT mb mc crdB crdC cellsB cellsC cb0 vb0 σ0) [c0b, c0c] i := by
  intro cs σ σ' hreach ⟨pb, pc, hist, cb, cc, vb, vc, hps, h, hrel⟩ hh ht hv
  obtain ⟨c1, c2, rfl, ⟨l1, _⟩, ⟨l2, _⟩⟩ := reach_pair hreach
  obtain ⟨n1, n2, n3, n4⟩ := cur_namesB (l1.trans hb0)
  obtain ⟨m1, m2, m3, m4⟩ := cur_namesB (l2.trans hc0)
  have hv' : ∀ y, y ≠ i → y ≠ layerPointer bT.id 0 → y ≠ valueFromCrd bT.id 0 →
      y ≠ layerPointer cT.id 0 → y ≠ valueFromCrd cT.id 0 →
      lookupVar σ'.vars y = lookupVar σ.vars y := by
    intro y h1 h2 h3 h4 h5
    apply hv
    simp only [writtenNames, List.map_cons, List.map_nil, List.mem_cons, List.mem_append, List.not_mem_nil,
      or_false, n1, n4, m1, m4, not_or]
    exact ⟨h1, ⟨h2, h4⟩, h3, h5⟩
  refine ⟨pb, pc, hist, cb, cc, vb, vc, hps, ?_, hrel⟩
  refine
    { tensors := by rw [ht]; exact h.tensors, len := by rw [hh]; exact h.len,
      old := by rw [hh]; exact h.old, vars := ?_, crd := ?_, vals := ?_,
      hcb := h.hcb, hvb := h.hvb, hne := h.hne, ptr := ?_, lec := h.lec, lev := h.lev,
      crdCells := by rw [hh]; exact h.crdCells, flag := ?_ }
  · intro y hy
    have hy' := hy
    simp only [touched, midW, List.mem_cons, List.mem_append, List.not_mem_nil, or_false, not_or] at hy'
    rw [hv' y hy'.2.1 hy'.2.2.1 hy'.2.2.2.1 hy'.2.2.2.2.1 hy'.2.2.2.2.2, h.vars y hy]
  · exact h.crd.congr hh (hv' _ (by snm N) (by snm N) (by snm N) (by snm N) (by snm N))
      (hv' _ (by snm N) (by snm N) (by snm N) (by snm N) (by snm N))
  · exact h.vals.congr hh (hv' _ (by snm N) (by snm N) (by snm N) (by snm N) (by snm N))
      (hv' _ (by snm N) (by snm N) (by snm N) (by snm N) (by snm N))
  · exact h.ptr.congr (hv' _ (by snm N) (by snm N) (by snm N) (by snm N) (by snm N))
  · rw [hv' _ (by snm N) (by snm N) (by snm N) (by snm N) (by snm N)]; exact h.flag

/-- **the frame condition of the merge loop holds for the statement between `min` and the increments** -/
theorem midOKcA (N : KNames i outT bT cT) (ho : isSp i outT = true) (hb : isSp i bT = true)
    (hc : isSp i cT = true)
    (pre : LoopPre bT cT mb mc bvb cvb cellsB cellsC cb0 vb0 σ0)
    (c0b c0c : Cur) (hb0 : c0b.leaf = inLeaf bT) (hc0 : c0c.leaf = inLeaf cT)
    (hcrdB : c0b.crd = crdB) (hcrdC : c0c.crd = crdC) (heB : c0b.e = mb) (heC : c0c.e = mc)
    (hblkB : c0b.blk ≠ cb0 ∧ c0b.blk ≠ vb0 ∧ c0b.blk < σ0.heap.length)
    (hblkC : c0c.blk ≠ cb0 ∧ c0c.blk ≠ vb0 ∧ c0c.blk < σ0.heap.length) :
    MidOKc 0 0 (PA i outT bT cT mb mc crdB crdC cellsB cellsC cb0 vb0 σ0) [c0b, c0c] i
      [midStmtA i outT bT cT] := by
  intro fuel σ cs _ hreach hact hinvM hval hidx ⟨pb, pc, hist, cb, cc, vb, vc, hps, hinv, hrel⟩
  obtain ⟨c1, c2, rfl, ⟨l1, k1, d1, e1, _⟩, ⟨l2, k2, d2, e2, _⟩⟩ := reach_pair hreach
  obtain ⟨n1, n2, n3, n4⟩ := cur_namesB (l1.trans hb0)
  obtain ⟨m1, m2, m3, m4⟩ := cur_namesB (l2.trans hc0)
  simp only [List.map_cons, List.map_nil, List.cons.injEq, and_true] at hps
  obtain ⟨rfl, rfl⟩ := hps
  have hm1 : c1 ∈ [c1, c2] := List.mem_cons_self
  have hm2 : c2 ∈ [c1, c2] := List.mem_cons_of_mem _ List.mem_cons_self
  have hq : c1.p < mb := by rw [← heB, ← e1]; exact hact c1 hm1
  have hr : c2.p < mc := by rw [← heC, ← e2]; exact hact c2 hm2
  have hcur1 := hinvM.cur c1 hm1
  have hcur2 := hinvM.cur c2 hm2
  have hhere1 : c1.here = crdB c1.p := by rw [← hcrdB, ← d1]; rfl
  have hhere2 : c2.here = crdC c2.p := by rw [← hcrdC, ← d2]; rfl
  have hmin : curMin [c1, c2] = min (crdB c1.p) (crdC c2.p) := by
    simp [curMin, hhere1, hhere2]
  obtain ⟨b0, b1⟩ := hcur1.rng c1.p (Nat.le_refl _) (hact c1 hm1)
  obtain ⟨g0, g1⟩ := hcur2.rng c2.p (Nat.le_refl _) (hact c2 hm2)
  rw [d1, hcrdB] at b0 b1
  rw [d2, hcrdC] at g0 g1
  have hx0 : -2147483648 ≤ min (crdB c1.p) (crdC c2.p) := by omega
  have hx1 : min (crdB c1.p) (crdC c2.p) < 2147483648 := by omega
  obtain ⟨σ', cb', cc', vb', vc', ⟨o, eo, ro, so⟩, hinv', _, fvars, fheap⟩ := mid_stepA N ho hb hc
    pre fuel σ hist cb cc vb vc c1.p c2.p (crdB c1.p) (crdC c2.p) (min (crdB c1.p) (crdC c2.p)) hq hr hinv
    (by rw [← n1]; exact hcur1.ptrv) (by rw [← m1]; exact hcur2.ptrv)
    (by rw [← n4, ← hhere1]; exact hval c1 hm1) (by rw [← m4, ← hhere2]; exact hval c2 hm2)
    (by rw [← hmin]; exact hidx) b0 b1 g0 g1 hx0 hx1
    (by
      intro h1 h2
      have heq : crdB c1.p = crdC c2.p := h1.trans h2.symm
      have := hist_length_lt crdB crdC cellsB cellsC hq hr heq hist hrel
      have := pre.smallB
      omega)
  subst so
  refine ⟨o, eo, ro, ?_, ?_, ?_, ?_⟩
  · rw [Sparse1.execL_noLoop_iters fuel _ σ (noLoop_midStmtA i outT bT cT) o eo]; exact Nat.le_refl _
  · intro x hx
    apply fvars
    simp only [curNames, List.map_cons, List.map_nil, List.mem_cons, List.mem_append, List.not_mem_nil,
      or_false, n1, n2, n3, n4, m1, m2, m3, m4] at hx
    simp only [midW, List.mem_cons, List.not_mem_nil, or_false, not_or]
    rcases hx with rfl | (((rfl | rfl) | (rfl | rfl)) | (rfl | rfl)) | (rfl | rfl) <;>
      (and_intros <;> snm N)
  · intro d hd
    simp only [List.mem_cons, List.not_mem_nil, or_false] at hd
    have hdblk : d.blk ≠ cb0 ∧ d.blk ≠ vb0 ∧ d.blk < σ0.heap.length := by
      rcases hd with rfl | rfl
      · rw [k1]; exact hblkB
      · rw [k2]; exact hblkC
    have hdcur : CurInv σ d := by
      rcases hd with rfl | rfl
      · exact hcur1
      · exact hcur2
    obtain ⟨blk, hbk, _⟩ := hdcur.cells
    rw [hbk]
    refine fheap d.blk blk ?_ ?_ hbk
    · rcases hinv.hcb with h | h
      · rw [h]; exact hdblk.1
      · have := hdblk.2.2; omega
    · rcases hinv.hvb with h | h
      · rw [h]; exact hdblk.2.1
      · have := hdblk.2.2; omega
  · refine ⟨(c1.adv (curMin [c1, c2])).p, (c2.adv (curMin [c1, c2])).p, _, cb', cc', vb', vc', rfl, hinv', ?_⟩
    rw [adv_p_eq, adv_p_eq, hmin, d1, hcrdB, d2, hcrdC]
    exact hist_step crdB crdC cellsB cellsC hq hr hist _ hrel

/-- **(b) The whole loop.** From a state satisfying the merge invariant for the two input leaves (cursors
`0`, ends `mb`, `mc`) and the loop invariant for the empty history, the loop `lower` emits runs without error
with any fuel `≥ mb + mc + 1`, performs at most `mb + mc` iterations (exactly `|mergeTrace|`: one per value
taken by `min`), and ends with the loop invariant for the history `intersect b c`. -/
theorem loop_runsA (N : KNames i outT bT cT) (ho : isSp i outT = true) (hb : isSp i bT = true)
    (hc : isSp i cT = true)
    (pre : LoopPre bT cT mb mc bvb cvb cellsB cellsC cb0 vb0 σ0)
    (bcb ccb : Nat) (hblkB : bcb ≠ cb0 ∧ bcb ≠ vb0 ∧ bcb < σ0.heap.length)
    (hblkC : ccb ≠ cb0 ∧ ccb ≠ vb0 ∧ ccb < σ0.heap.length)
    (fuel : Nat) (σ : State F) (hfuel : mb + mc + 1 ≤ fuel)
    (hM : MergeInv σ [⟨inLeaf bT, bcb, crdB, 0, mb⟩, ⟨inLeaf cT, ccb, crdC, 0, mc⟩] i)
    (hP : ∃ cb cc vb vc, InvA i outT bT cT cb0 vb0 σ0 cb cc vb vc [] σ) :
    ∃ o, exec fuel (mergeLoopL [inLeaf bT, inLeaf cT] i [midStmtA i outT bT cT]) σ = .ok o ∧
      o.ret = none ∧ o.iters ≤ mb + mc ∧
      o.iters = (mergeTrace [⟨inLeaf bT, bcb, crdB, 0, mb⟩, ⟨inLeaf cT, ccb, crdC, 0, mc⟩]).length ∧
      ∃ cb cc vb vc, InvA i outT bT cT cb0 vb0 σ0 cb cc vb vc
        (intersect (assoc mb crdB cellsB) (assoc mc crdC cellsC)) o.st := by
  let c0b : Cur := ⟨inLeaf bT, bcb, crdB, 0, mb⟩
  let c0c : Cur := ⟨inLeaf cT, ccb, crdC, 0, mc⟩
  have hnames : NamesOK [c0b, c0c] i := merge_names_generated [c0b, c0c] i N.iu (by
    simp only [List.pairwise_cons, List.mem_cons, List.not_mem_nil, or_false, forall_eq, List.Pairwise.nil,
      and_true, false_imp_iff, implies_true]
    intro h; exact N.idbc h.1)
  have hmeas : curMeasure [c0b, c0c] = mb + mc := by simp [curMeasure, c0b, c0c]
  obtain ⟨cb, cc, vb, vc, hinv0⟩ := hP
  obtain ⟨o, eo, ro, inv, hreach, ⟨cx, hcx, hcxe⟩, hl, lo, hi, pb, pc, hist, cb', cc', vb', vc', hps, hinvF, hrel⟩ :=
    merge_loop_cursor_ghost (B := 0) (K := 0)
      (P := PA i outT bT cT mb mc crdB crdC cellsB cellsC cb0 vb0 σ0) [c0b, c0c] i
      [midStmtA i outT bT cT] fuel σ (by simp) hnames hM
      ⟨0, 0, [], cb, cc, vb, vc, rfl, hinv0, by simp⟩
      (curStableA N rfl rfl)
      (midOKcA N ho hb hc pre c0b c0c rfl rfl rfl rfl rfl rfl hblkB hblkC)
      (by rw [hmeas]; omega)
  simp only [Nat.zero_add, Nat.mul_one] at hi
  refine ⟨o, eo, ro, ?_, ?_, cb', cc', vb', vc', ?_⟩
  · rw [hmeas] at hl; omega
  · exact Nat.le_antisymm hi lo
  · obtain ⟨c1, c2, hcs, ⟨_, _, _, e1, _⟩, ⟨_, _, _, e2, _⟩⟩ := reach_pair hreach
    rw [hcs] at hps hcx
    simp only [List.map_cons, List.map_nil, List.cons.injEq, and_true] at hps
    obtain ⟨rfl, rfl⟩ := hps
    have hnil : intersect ((assoc mb crdB cellsB).drop c1.p) ((assoc mc crdC cellsC).drop c2.p) = [] := by
      simp only [List.mem_cons, List.not_mem_nil, or_false] at hcx
      rcases hcx with rfl | rfl
      · rw [hcxe, e1, show c0b.e = mb from rfl, assoc_drop_all]; rfl
      · rw [hcxe, e2, show c0c.e = mc from rfl, assoc_drop_all, intersect_nil_right]
    rw [hnil, List.append_nil] at hrel
    rw [← hrel]; exact hinvF

end

end TV.Spmul
