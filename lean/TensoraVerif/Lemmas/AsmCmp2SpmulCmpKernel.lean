import TensoraVerif.Lemmas.AsmCmp2SpmulCmpLoop
import TensoraVerif.Lemmas.AsmCmp2SpmulPost
import TensoraVerif.Lemmas.SpmulKernel

/-!
C04 for the element-wise product of two sparse vectors (`Spmul` class), compute chain, part 3: the whole
COMPUTING kernel on the machine, from any state `InitC` (the state of a kernel call in which the output record
already owns a `vals` block of at least `r` cells) to `KernelPostC` (no allocation, tensor records untouched,
only the first `|intersect b c|` cells of that block written).
-/
namespace TV.Spmul
open TV.IR TV.Gen TV.Graph TV.Growth TV.Merge TV.Dense1
open TV.Sparse1 (isSp isSp_iff outLeaf inLeaf unpackStmts declFresh unpack1_runs ptrVar_of nameClass
  nc_dim nc_pos nc_crd nc_vals nc_ptr nc_end nc_val nc_wr)
open TV.AsmCmp (branchBodyC outInitC midWC)
set_option linter.unusedSectionVars false
variable {F : Type} [FloatOps F]

/-- **The state at the entry of the iteration block of the computing kernel**: heap and tensor records are
those of the initial state; the array variables point to the blocks of the records; the output cursor is 0. -/
structure EntryC (i : String) (outT bT cT : TensorId) (bpb bcb bvb cpb ccb cvb vF : Nat)
    (σ σC : State F) : Prop where
  heap : σC.heap = σ.heap
  tensors : σC.tensors = σ.tensors
  frame : ∀ y, y ∉ proW i outT bT cT → lookupVar σC.vars y = lookupVar σ.vars y
  bpos : PtrVar σC (posName bT.name 0) bpb
  bcrd : PtrVar σC (crdName bT.name 0) bcb
  bvals : PtrVar σC (valsName bT.name) bvb
  cpos : PtrVar σC (posName cT.name 0) cpb
  ccrd : PtrVar σC (crdName cT.name 0) ccb
  cvals : PtrVar σC (valsName cT.name) cvb
  avals : PtrVar σC (valsName outT.name) vF
  ptr : IntVar σC (layerPointer outT.id 0) 0

set_option maxHeartbeats 1000000 in
/-- **The prologue of the computing kernel.** -/
theorem prologue_runsC {i : String} {outT bT cT : TensorId} (N : KNames i outT bT cT)
    {ta : Nat} {atr : TensorRec F} {n : Int}
    {tb : Nat} {btr : TensorRec F} {mb bpb bcb bvb : Nat} {crdB : Nat → Int} {cellsB : Nat → F}
    {tc : Nat} {ctr : TensorRec F} {mc cpb ccb cvb : Nat} {crdC : Nat → Int} {cellsC : Nat → F}
    {r vF : Nat} {σ : State F}
    (initC : InitC outT bT cT ta atr n tb btr mb bpb bcb bvb crdB cellsB tc ctr mc cpb ccb cvb crdC cellsC
      r vF σ)
    (fuel : Nat) :
    ∃ σC, RunsLI fuel
        [.block [declAssignE (dimName i) .int (.idx (.attr (.var outT.name) "dimensions") (.intLit 0))]
          (some "Extract dimensions"),
         .block (unpackStmts outT.name ++ unpackStmts bT.name ++ unpackStmts cT.name) (some "Unpack tensors"),
         .block (outInitC outT) (some "Output initialization")] σ σC 0 ∧
      EntryC i outT bT cT bpb bcb bvb cpb ccb cvb vF σ σC := by
  have init := initC.base
  have hfr : ∀ x, nameClass x ≠ 0 → lookupVar σ.vars x = none := by
    intro x hx
    refine init.fresh x ?_ ?_ ?_
    · intro h; rw [h, N.a0] at hx; exact hx rfl
    · intro h; rw [h, N.b0] at hx; exact hx rfl
    · intro h; rw [h, N.c0] at hx; exact hx rfl
  obtain ⟨dblk, hdb, hdlive, hdty, hdc⟩ := init.adim
  obtain ⟨ap, ac, hasl, hap, hac⟩ := init.aslot
  -- A
  obtain ⟨σA, rA, hhA, htA, _, oA⟩ := declFresh (fuel := fuel) (x := dimName i) (t := .int) (val' := .int n)
    (hfr _ (by simp [nc_dim])) (evalE_dim0 init.avar init.arec hdb hdlive hdty hdc init.n32.1 init.n32.2) rfl
  -- B, output
  obtain ⟨σB1, rB1, hhB1, htB1, vB1p, vB1c, vB1v, oB1⟩ := unpack1_runs (fuel := fuel) (σ := σA) N.au
    (init.avar.congr (oA _ (by snm N))) (by rw [htA]; exact init.arec) init.aord hasl hap hac init.avals
    (by rw [oA _ (by snm N)]; exact hfr _ (by simp [nc_pos]))
    (by rw [oA _ (by snm N)]; exact hfr _ (by simp [nc_crd]))
    (by rw [oA _ (by snm N)]; exact hfr _ (by simp [nc_vals]))
  -- B, input b
  obtain ⟨σB2, rB2, hhB2, htB2, vBp, vBc, vBv, oB2⟩ := unpack1_runs (fuel := fuel) (σ := σB1) N.bu
    (init.b.var.congr (by rw [oB1 _ (by snm N) (by snm N) (by snm N), oA _ (by snm N)]))
    (by rw [htB1, htA]; exact init.b.hrec) init.b.ord init.b.slot rfl rfl (by rw [init.b.vals]; rfl)
    (by rw [oB1 _ (by snm N) (by snm N) (by snm N), oA _ (by snm N)]; exact hfr _ (by simp [nc_pos]))
    (by rw [oB1 _ (by snm N) (by snm N) (by snm N), oA _ (by snm N)]; exact hfr _ (by simp [nc_crd]))
    (by rw [oB1 _ (by snm N) (by snm N) (by snm N), oA _ (by snm N)]; exact hfr _ (by simp [nc_vals]))
  -- B, input c
  obtain ⟨σB, rB3, hhB3, htB3, vCp, vCc, vCv, oB3⟩ := unpack1_runs (fuel := fuel) (σ := σB2) N.cu
    (init.c.var.congr (by
      rw [oB2 _ (by snm N) (by snm N) (by snm N), oB1 _ (by snm N) (by snm N) (by snm N), oA _ (by snm N)]))
    (by rw [htB2, htB1, htA]; exact init.c.hrec) init.c.ord init.c.slot rfl rfl (by rw [init.c.vals]; rfl)
    (by
      rw [oB2 _ (by snm N) (by snm N) (by snm N), oB1 _ (by snm N) (by snm N) (by snm N), oA _ (by snm N)]
      exact hfr _ (by simp [nc_pos]))
    (by
      rw [oB2 _ (by snm N) (by snm N) (by snm N), oB1 _ (by snm N) (by snm N) (by snm N), oA _ (by snm N)]
      exact hfr _ (by simp [nc_crd]))
    (by
      rw [oB2 _ (by snm N) (by snm N) (by snm N), oB1 _ (by snm N) (by snm N) (by snm N), oA _ (by snm N)]
      exact hfr _ (by simp [nc_vals]))
  have hhB : σB.heap = σ.heap := by rw [hhB3, hhB2, hhB1, hhA]
  have htB : σB.tensors = σ.tensors := by rw [htB3, htB2, htB1, htA]
  have oB : ∀ y, y ∉ [dimName i, posName outT.name 0, crdName outT.name 0, valsName outT.name,
      posName bT.name 0, crdName bT.name 0, valsName bT.name, posName cT.name 0, crdName cT.name 0,
      valsName cT.name] → lookupVar σB.vars y = lookupVar σ.vars y := by
    intro y hy
    simp only [List.mem_cons, List.not_mem_nil, or_false, not_or] at hy
    obtain ⟨h1, h2, h3, h4, h5, h6, h7, h8, h9, h10⟩ := hy
    rw [oB3 y h8 h9 h10, oB2 y h5 h6 h7, oB1 y h2 h3 h4, oA y h1]
  have oB23 : ∀ y, y ≠ posName bT.name 0 → y ≠ crdName bT.name 0 → y ≠ valsName bT.name →
      y ≠ posName cT.name 0 → y ≠ crdName cT.name 0 → y ≠ valsName cT.name →
      lookupVar σB.vars y = lookupVar σB1.vars y := by
    intro y h5 h6 h7 h8 h9 h10
    rw [oB3 y h8 h9 h10, oB2 y h5 h6 h7]
  -- C: int p_a = 0
  obtain ⟨σC, rC, hhC, htC, vC, oC⟩ := declFresh (fuel := fuel) (x := layerPointer outT.id 0)
    (t := .int) (σ := σB) (val' := .int 0)
    (by
      rw [oB _ (by snotin N)]
      exact hfr _ (by simp [nc_ptr]))
    (evalE_intLit (by omega) (by omega)) rfl
  have vC' : IntVar σC (layerPointer outT.id 0) 0 := vC
  refine ⟨σC, ?_, ?_⟩
  · exact RunsLI.cons (RunsI.block (RunsLI.cons rA (RunsLI.nil _ _)))
      (RunsLI.cons (RunsI.block (RunsLI.append (RunsLI.append rB1 rB2) rB3))
        (RunsLI.cons (RunsI.block (RunsLI.cons rC (RunsLI.nil _ _))) (RunsLI.nil _ _)))
  · refine
      { heap := by rw [hhC, hhB], tensors := by rw [htC, htB], frame := ?_, bpos := ?_, bcrd := ?_,
        bvals := ?_, cpos := ?_, ccrd := ?_, cvals := ?_, avals := ?_, ptr := vC' }
    · intro y hy
      simp only [proW, List.mem_cons, List.not_mem_nil, or_false, not_or] at hy
      obtain ⟨y1, y2, y3, y4, y5, y6, y7, y8, y9, y10, y11, y12, y13, y14⟩ := hy
      rw [oC y y13, oB y (by
        simp only [List.mem_cons, List.not_mem_nil, or_false, not_or]
        exact ⟨y1, y2, y3, y4, y5, y6, y7, y8, y9, y10⟩)]
    · exact ((ptrVar_of vBp).congr (oB3 _ (by snm N) (by snm N) (by snm N))).congr (oC _ (by snm N))
    · exact ((ptrVar_of vBc).congr (oB3 _ (by snm N) (by snm N) (by snm N))).congr (oC _ (by snm N))
    · refine ((ptrVar_of (t := .float) ?_).congr (oB3 _ (by snm N) (by snm N) (by snm N))).congr
        (oC _ (by snm N))
      obtain ⟨r, e1, e2, e3⟩ := vBv
      exact ⟨r, e1, e2, by rw [e3, init.b.vals]⟩
    · exact (ptrVar_of vCp).congr (oC _ (by snm N))
    · exact (ptrVar_of vCc).congr (oC _ (by snm N))
    · refine (ptrVar_of (t := .float) ?_).congr (oC _ (by snm N))
      obtain ⟨r, e1, e2, e3⟩ := vCv
      exact ⟨r, e1, e2, by rw [e3, init.c.vals]⟩
    · refine (ptrVar_of (t := .float) ?_).congr
        ((oC _ (by snm N)).trans
          (oB23 _ (by snm N) (by snm N) (by snm N) (by snm N) (by snm N) (by snm N)))
      obtain ⟨r, e1, e2, e3⟩ := vB1v
      exact ⟨r, e1, e2, by rw [e3, initC.avalsPtr]⟩

set_option maxHeartbeats 1000000 in
/-- **the iteration block of the computing kernel** -/
theorem iterBlock_runsC {ofRat : Rat → F} {i : String} {outT bT cT : TensorId}
    (N : KNames i outT bT cT) (ho : isSp i outT = true) (hb : isSp i bT = true) (hc : isSp i cT = true)
    {ta : Nat} {atr : TensorRec F} {n : Int}
    {tb : Nat} {btr : TensorRec F} {mb bpb bcb bvb : Nat} {crdB : Nat → Int} {cellsB : Nat → F}
    {tc : Nat} {ctr : TensorRec F} {mc cpb ccb cvb : Nat} {crdC : Nat → Int} {cellsC : Nat → F}
    {r vF : Nat} {σ0 σC : State F}
    (initC : InitC outT bT cT ta atr n tb btr mb bpb bcb bvb crdB cellsB tc ctr mc cpb ccb cvb crdC cellsC
      r vF σ0)
    (entry : EntryC i outT bT cT bpb bcb bvb cpb ccb cvb vF σ0 σC)
    (hmb : mb ≤ 1073741824) (hmc : mc ≤ 1073741824)
    (hlen : (intersect (assoc mb crdB cellsB) (assoc mc crdC cellsC)).length ≤ r)
    (hrngB : ∀ j, j < mb → -2147483648 ≤ crdB j ∧ crdB j < 2147483648)
    (hrngC : ∀ j, j < mc → -2147483648 ≤ crdC j ∧ crdC j < 2147483648)
    (hfin : ∀ q r, q < mb → r < mc → crdB q = crdC r →
      ToIr.AllFinite ofRat (env bT (cellsB q) (cellsC r)) (mulE bT cT))
    (fuel : Nat) (hfuel : mb + mc + 1 ≤ fuel) :
    ∃ σF its, RunsLI fuel (loopLinesC ofRat i outT bT cT) σC σF its ∧ its ≤ mb + mc ∧
      KernelPostC (intersect (assoc mb crdB cellsB) (assoc mc crdC cellsC)) vF σ0 σF := by
  have init := initC.base
  obtain ⟨ho1, ho2⟩ := (isSp_iff i outT).1 ho
  have hfresh : ∀ x, nameClass x ≠ 0 → x ∉ proW i outT bT cT → lookupVar σC.vars x = none := by
    intro x hx hw
    rw [entry.frame x hw]
    refine init.fresh x ?_ ?_ ?_
    · intro h; rw [h, N.a0] at hx; exact hx rfl
    · intro h; rw [h, N.b0] at hx; exact hx rfl
    · intro h; rw [h, N.c0] at hx; exact hx rfl
  obtain ⟨pblkB, hpbB, hpliveB, hptyB, hpc0B, hpc1B⟩ := init.b.pos
  obtain ⟨cblk0B, hcbB, hcliveB, hctyB, hclenB, hccellsB⟩ := init.b.crd
  obtain ⟨vblk0B, hvbB, hvliveB, hvtyB, hvcellsB⟩ := init.b.val
  obtain ⟨pblkC, hpbC, hpliveC, hptyC, hpc0C, hpc1C⟩ := init.c.pos
  obtain ⟨cblk0C, hcbC, hcliveC, hctyC, hclenC, hccellsC⟩ := init.c.crd
  obtain ⟨vblk0C, hvbC, hvliveC, hvtyC, hvcellsC⟩ := init.c.val
  obtain ⟨ablk, hab, halive, haown, haty, halen⟩ := initC.vblk
  obtain ⟨vne1, vne2, vne3, vne4, vne5, vne6⟩ := initC.vne
  have hCold : ∀ j : Nat, σC.heap[j]? = σ0.heap[j]? := by
    intro j; rw [entry.heap]
  -- D1: sparse init of b
  let cB : Cur := ⟨inLeaf bT, bcb, crdB, 0, mb⟩
  let cC : Cur := ⟨inLeaf cT, ccb, crdC, 0, mc⟩
  obtain ⟨n1, n2, n3, n4⟩ := cur_namesB (c := cB) (bT := bT) rfl
  obtain ⟨m1, m2, m3, m4⟩ := cur_namesB (c := cC) (bT := cT) rfl
  have hWpB : layerPointer bT.id 0 ∉ proW i outT bT cT := by snotin N
  have hWeB : sparseEndName bT.id 0 ∉ proW i outT bT cT := by snotin N
  have hWvB : valueFromCrd bT.id 0 ∉ proW i outT bT cT := by snotin N
  have hWpC : layerPointer cT.id 0 ∉ proW i outT bT cT := by snotin N
  have hWeC : sparseEndName cT.id 0 ∉ proW i outT bT cT := by snotin N
  have hWvC : valueFromCrd cT.id 0 ∉ proW i outT bT cT := by snotin N
  have hWw : writtenName outT.name 0 ∉ proW i outT bT cT := by snotin N
  have hWi : i ∉ proW i outT bT cT := by snotin N
  obtain ⟨oD, eD, rD, itD, curD, frD, hhD, htD⟩ := writeSparseInit_safe cB fuel σC bpb 0
    ⟨entry.bpos, by simp [PrevIs, cB, inLeaf], by omega, by omega,
      ⟨pblkB, by rw [hCold]; exact hpbB, hpliveB, hptyB, by simpa [cB] using hpc0B,
        by simpa [cB] using hpc1B⟩⟩
    (by rw [n3]; exact entry.bcrd) (Nat.zero_le _) (by show (mb : Int) < 2147483648; omega)
    ⟨cblk0B, by rw [hCold]; exact hcbB, hcliveB, hctyB, hclenB, fun j _ hj => hccellsB j hj⟩
    (fun j _ hj => hrngB j hj)
    (by rw [n1]; intro r hr; rw [hfresh _ (by simp [nc_ptr]) hWpB] at hr; cases hr)
    (by rw [n2]; intro r hr; rw [hfresh _ (by simp [nc_end]) hWeB] at hr; cases hr)
  rw [n1, n2] at frD
  have runD : RunsLI fuel (writeSparseInit (inLeaf bT)).lines σC oD.st 0 := by
    refine ⟨oD, ?_, rD, rfl, itD⟩
    have : (writeSparseInit (F := F) cB.leaf).finalize = .block (writeSparseInit (inLeaf bT)).lines none := rfl
    rw [this, exec.eq_5] at eD
    exact eD
  generalize oD.st = σD at *
  -- D2: sparse init of c
  obtain ⟨oE, eE, rE, itE, curE, frE, hhE, htE⟩ := writeSparseInit_safe cC fuel σD cpb 0
    ⟨entry.cpos.congr (frD _ (by snm N) (by snm N)), by simp [PrevIs, cC, inLeaf], by omega, by omega,
      ⟨pblkC, by rw [hhD, hCold]; exact hpbC, hpliveC, hptyC, by simpa [cC] using hpc0C,
        by simpa [cC] using hpc1C⟩⟩
    (by rw [m3]; exact entry.ccrd.congr (frD _ (by snm N) (by snm N))) (Nat.zero_le _)
    (by show (mc : Int) < 2147483648; omega)
    ⟨cblk0C, by rw [hhD, hCold]; exact hcbC, hcliveC, hctyC, hclenC, fun j _ hj => hccellsC j hj⟩
    (fun j _ hj => hrngC j hj)
    (by
      rw [m1]; intro r hr
      rw [frD _ (by snm N) (by snm N), hfresh _ (by simp [nc_ptr]) hWpC] at hr; cases hr)
    (by
      rw [m2]; intro r hr
      rw [frD _ (by snm N) (by snm N), hfresh _ (by simp [nc_end]) hWeC] at hr; cases hr)
  rw [m1, m2] at frE
  have runE : RunsLI fuel (writeSparseInit (inLeaf cT)).lines σD oE.st 0 := by
    refine ⟨oE, ?_, rE, rfl, itE⟩
    have : (writeSparseInit (F := F) cC.leaf).finalize = .block (writeSparseInit (inLeaf cT)).lines none := rfl
    rw [this, exec.eq_5] at eE
    exact eE
  generalize oE.st = σE at *
  -- both frames together
  have frDE : ∀ y, y ≠ layerPointer bT.id 0 → y ≠ sparseEndName bT.id 0 → y ≠ layerPointer cT.id 0 →
      y ≠ sparseEndName cT.id 0 → lookupVar σE.vars y = lookupVar σC.vars y := by
    intro y h1 h2 h3 h4; rw [frE y h3 h4, frD y h1 h2]
  have hhE' : σE.heap = σ0.heap := by rw [hhE, hhD, entry.heap]
  have curD' : CurInv σE cB := curD.congr (by rw [n3]; exact frE _ (by snm N) (by snm N))
    (by rw [n1]; exact frE _ (by snm N) (by snm N)) (by rw [n2]; exact frE _ (by snm N) (by snm N))
    (by rw [hhE])
  -- the loop
  have pre : LoopPreC outT bT cT mb mc bvb cvb cellsB cellsC r vF σE :=
    { bvals := entry.bvals.congr (frDE _ (by snm N) (by snm N) (by snm N) (by snm N))
      cvals := entry.cvals.congr (frDE _ (by snm N) (by snm N) (by snm N) (by snm N))
      bblk := ⟨vblk0B, by rw [hhE']; exact hvbB, hvliveB, hvtyB, hvcellsB⟩
      cblk := ⟨vblk0C, by rw [hhE']; exact hvbC, hvliveC, hvtyC, hvcellsC⟩
      avals := entry.avals.congr (frDE _ (by snm N) (by snm N) (by snm N) (by snm N))
      ablk := ⟨ablk, by rw [hhE']; exact hab, halive, haown, haty, halen⟩
      bne := Ne.symm vne3
      cne := Ne.symm vne6
      smallB := hmb
      smallC := hmc }
  have hP : InvC i outT bT cT vF σE [] σE := by
    refine
      { tensors := rfl, len := rfl, old := fun _ _ => rfl, vars := fun _ _ => rfl,
        ptr := entry.ptr.congr (frDE _ (by snm N) (by snm N) (by snm N) (by snm N)),
        cells := ⟨ablk, ablk, by rw [hhE']; exact hab, by rw [hhE']; exact hab, rfl, rfl, rfl, rfl,
          fun j h => absurd h (by simp), fun _ _ => rfl⟩,
        flag := ?_ }
    intro r hr
    rw [frDE _ (by snm N) (by snm N) (by snm N) (by snm N), hfresh _ (by simp [nc_wr]) hWw] at hr
    cases hr
  have hM : MergeInv σE [cB, cC] i := by
    refine ⟨fun d hd => ?_, fun d hd => ?_, ?_⟩
    · simp only [List.mem_cons, List.not_mem_nil, or_false] at hd
      rcases hd with rfl | rfl
      · exact curD'
      · exact curE
    · simp only [List.mem_cons, List.not_mem_nil, or_false] at hd
      rcases hd with rfl | rfl
      · rw [n4]
        intro r hr
        rw [frDE _ (by snm N) (by snm N) (by snm N) (by snm N), hfresh _ (by simp [nc_val]) hWvB] at hr
        cases hr
      · rw [m4]
        intro r hr
        rw [frDE _ (by snm N) (by snm N) (by snm N) (by snm N), hfresh _ (by simp [nc_val]) hWvC] at hr
        cases hr
    · intro r hr
      rw [frDE _ (by snm N) (by snm N) (by snm N) (by snm N), entry.frame _ hWi, init.fresh _ N.ia N.ib N.ic] at hr
      cases hr
  obtain ⟨oL, eL, rL, itL1, hinv⟩ := loop_runsC (ofRat := ofRat) N ho hb hc pre hlen hfin bcb ccb
    (Ne.symm vne2) (Ne.symm vne5) fuel σE hfuel hM hP
  have runL : RunsI fuel (mergeLoopL [inLeaf bT, inLeaf cT] i [midStmtC ofRat i outT bT cT]) σE oL.st oL.iters :=
    ⟨oL, eL, rL, rfl, rfl⟩
  generalize hits : oL.iters = its at *
  generalize oL.st = σL at *
  refine ⟨σL, 0 + (0 + (its + 0)), ?_, by omega, ?_⟩
  · have := RunsLI.append runD (RunsLI.append runE (RunsLI.cons runL (RunsLI.nil _ _)))
    simpa [loopLinesC] using this
  · obtain ⟨blk0, blk, hblk0, hblk, h1, h2, h3, h4, h5, h6⟩ := hinv.cells
    exact
      { tensors := by rw [hinv.tensors, htE, htD, entry.tensors],
        len := by rw [hinv.len, hhE'],
        other := fun k hk => by rw [hinv.old k hk, hhE'],
        vals := ⟨blk0, blk, by rw [← hhE']; exact hblk0, hblk, h1, h2, h3, h4, h5, h6⟩ }

/-- **the whole `compute` function on the machine** -/
theorem kernel_runsC (ofRat : Rat → F) (formats : Formats) (i : String) (outT bT cT : TensorId)
    (hcl : isClass i outT bT cT = true) (ok : KernelOK formats i outT bT cT)
    {ta : Nat} {atr : TensorRec F} {n : Int}
    {tb : Nat} {btr : TensorRec F} {mb bpb bcb bvb : Nat} {crdB : Nat → Int} {cellsB : Nat → F}
    {tc : Nat} {ctr : TensorRec F} {mc cpb ccb cvb : Nat} {crdC : Nat → Int} {cellsC : Nat → F}
    {r vF : Nat} {σ : State F}
    (initC : InitC outT bT cT ta atr n tb btr mb bpb bcb bvb crdB cellsB tc ctr mc cpb ccb cvb crdC cellsC r vF σ)
    (hmb : mb ≤ 1073741824) (hmc : mc ≤ 1073741824)
    (hlen : (intersect (assoc mb crdB cellsB) (assoc mc crdC cellsC)).length ≤ r)
    (hrngB : ∀ j, j < mb → -2147483648 ≤ crdB j ∧ crdB j < 2147483648)
    (hrngC : ∀ j, j < mc → -2147483648 ≤ crdC j ∧ crdC j < 2147483648)
    (hfin : ∀ q r, q < mb → r < mc → crdB q = crdC r →
      ToIr.AllFinite ofRat (env bT (cellsB q) (cellsC r)) (mulE bT cT))
    (fuel : Nat) (hfuel : mb + mc + 1 ≤ fuel) :
    ∃ o, exec fuel (kernelC ofRat formats i outT bT cT).body σ = .ok o ∧ o.ret = some (.int 0) ∧
      o.iters ≤ mb + mc ∧
      KernelPostC (intersect (assoc mb crdB cellsB) (assoc mc crdC cellsC)) vF σ o.st := by
  have N := ok.names
  obtain ⟨ho, hb, hc, _⟩ := (isClass_iff i outT bT cT).1 hcl
  obtain ⟨σC, rC, entry⟩ := prologue_runsC N initC fuel
  obtain ⟨σF, its, rF, hits1, post⟩ := iterBlock_runsC (ofRat := ofRat) N ho hb hc initC entry hmb hmc hlen
    hrngB hrngC hfin fuel hfuel
  have hunp : (formats.flatMap fun f => unpackStmts (F := F) f.1) =
      unpackStmts outT.name ++ unpackStmts bT.name ++ unpackStmts cT.name := by
    have : (formats.flatMap fun f => unpackStmts (F := F) f.1) =
        (formats.map (·.1)).flatMap unpackStmts := by
      rw [List.flatMap_map]
    rw [this, ok.fmt]
    simp
  have rAll : RunsLI fuel (kernelStmtsC ofRat formats i outT bT cT) σ σF (0 + (its + (0 + 0))) := by
    unfold kernelStmtsC
    rw [hunp]
    have h3 := RunsLI.append rC (RunsLI.cons (RunsI.block
      (c := some ("*** Iteration over " ++ i ++ " ***")) rF)
      (RunsLI.cons (RunsI.block (c := some ("Assembling output tensor " ++ outT.name)) (RunsLI.nil fuel σF))
        (RunsLI.nil _ _)))
    simpa using h3
  obtain ⟨o, eo, hret, hst, hit⟩ := execL_ret (e := .intLit 0) (v := .int 0) rAll
    (evalE_intLit (by omega) (by omega))
  refine ⟨o, ?_, hret, by rw [hit]; omega, by rw [hst]; exact post⟩
  show exec fuel (.block (kernelStmtsC ofRat formats i outT bT cT ++ [.ret (.intLit 0)]) none) σ = _
  rw [exec.eq_5]
  exact eo

end TV.Spmul
