import TensoraVerif.Lemmas.AsmCmp2SpmulCmpBody

/-!
C04 for the element-wise product of two sparse vectors (`Spmul` class), compute chain, part 2: the whole loop
of the COMPUTING kernel, by the cursor-indexed merge loop theorem, with the same ghost relation as the
evaluating kernel (`hist ++ intersect (remainders) = intersect b c`).
-/
namespace TV.Spmul
open TV.IR TV.Gen TV.Graph TV.Growth TV.Merge
open TV.Sparse1 (isSp isSp_iff outLeaf inLeaf termBlock)
open TV.AsmCmp (branchBodyC outInitC midWC)
set_option linter.unusedSectionVars false
variable {F : Type} [FloatOps F]

/-- when the intersection still has a head, the history is strictly shorter than the whole intersection -/
theorem hist_length_lt_totalC {mb mc : Nat} (crdB crdC : Nat → Int) (cellsB cellsC : Nat → F) {q r : Nat}
    (hq : q < mb) (hr : r < mc) (heq : crdB q = crdC r) (hist : List (Int × F))
    (h : hist ++ intersect ((assoc mb crdB cellsB).drop q) ((assoc mc crdC cellsC).drop r) =
      intersect (assoc mb crdB cellsB) (assoc mc crdC cellsC)) :
    hist.length < (intersect (assoc mb crdB cellsB) (assoc mc crdC cellsC)).length := by
  rw [intersect_drop_step crdB crdC cellsB cellsC hq hr, if_pos heq] at h
  have h1 := congrArg List.length h
  simp only [List.length_append, List.length_cons] at h1
  omega

/-- the ghost predicate of the computing loop, indexed by the two cursor records -/
def PC (i : String) (outT bT cT : TensorId) (mb mc : Nat) (crdB crdC : Nat → Int) (cellsB cellsC : Nat → F)
    (vb : Nat) (σ0 : State F) (cs : List Cur) (σ : State F) : Prop :=
  ∃ pb pc hist, cs.map Cur.p = [pb, pc] ∧
    InvC i outT bT cT vb σ0 hist σ ∧
    hist ++ intersect ((assoc mb crdB cellsB).drop pb) ((assoc mc crdC cellsC).drop pc) =
      intersect (assoc mb crdB cellsB) (assoc mc crdC cellsC)

section
variable {ofRat : Rat → F} {i : String} {outT bT cT : TensorId} {mb mc bvb cvb : Nat}
  {cellsB cellsC : Nat → F} {crdB crdC : Nat → Int} {rr vb : Nat} {σ0 : State F}

/-- the ghost predicate does not look at the variables the skeleton writes -/
theorem curStableC (N : KNames i outT bT cT) {c0b c0c : Cur} (hb0 : c0b.leaf = inLeaf bT)
    (hc0 : c0c.leaf = inLeaf cT) :
    CurStable (PC i outT bT cT mb mc crdB crdC cellsB cellsC vb σ0) [c0b, c0c] i := by
  intro cs σ σ' hreach ⟨pb, pc, hist, hps, h, hrel⟩ hh ht hv
  obtain ⟨c1, c2, rfl, ⟨l1, _⟩, ⟨l2, _⟩⟩ := reach_pair hreach
  obtain ⟨n1, n2, n3, n4⟩ := cur_namesB (l1.trans hb0)
  obtain ⟨m1, m2, m3, m4⟩ := cur_namesB (l2.trans hc0)
  have hv' : ∀ y, y ≠ i → y ≠ layerPointer bT.id 0 → y ≠ valueFromCrd bT.id 0 →
      y ≠ layerPointer cT.id 0 → y ≠ valueFromCrd cT.id 0 →
      lookupVar σ'.vars y = lookupVar σ.vars y := by
    intro y h1 h2 h3 h4 h5
    apply hv
    simp only [writtenNames, List.map_cons, List.map_nil, List.mem_cons, List.mem_append, List.not_mem_nil,
      or_false, n1, n4, m1, m4, not_or]
    exact ⟨h1, ⟨h2, h4⟩, h3, h5⟩
  refine ⟨pb, pc, hist, hps, ?_, hrel⟩
  refine
    { tensors := by rw [ht]; exact h.tensors, len := by rw [hh]; exact h.len,
      old := by rw [hh]; exact h.old, vars := ?_, ptr := ?_,
      cells := by rw [hh]; exact h.cells, flag := ?_ }
  · intro y hy
    have hy' := hy
    simp only [touchedC, midWC, List.mem_cons, List.mem_append, List.not_mem_nil, or_false, not_or] at hy'
    rw [hv' y hy'.2.1 hy'.2.2.1 hy'.2.2.2.1 hy'.2.2.2.2.1 hy'.2.2.2.2.2, h.vars y hy]
  · exact h.ptr.congr (hv' _ (by snm N) (by snm N) (by snm N) (by snm N) (by snm N))
  · rw [hv' _ (by snm N) (by snm N) (by snm N) (by snm N) (by snm N)]; exact h.flag

/-- **the frame condition of the merge loop holds for the statement between `min` and the increments** -/
theorem midOKcC (N : KNames i outT bT cT) (ho : isSp i outT = true) (hb : isSp i bT = true)
    (hc : isSp i cT = true)
    (pre : LoopPreC outT bT cT mb mc bvb cvb cellsB cellsC rr vb σ0)
    (hroom : (intersect (assoc mb crdB cellsB) (assoc mc crdC cellsC)).length ≤ rr)
    (hfin : ∀ q r, q < mb → r < mc → crdB q = crdC r →
      ToIr.AllFinite ofRat (env bT (cellsB q) (cellsC r)) (mulE bT cT))
    (c0b c0c : Cur) (hb0 : c0b.leaf = inLeaf bT) (hc0 : c0c.leaf = inLeaf cT)
    (hcrdB : c0b.crd = crdB) (hcrdC : c0c.crd = crdC) (heB : c0b.e = mb) (heC : c0c.e = mc)
    (hblkB : c0b.blk ≠ vb) (hblkC : c0c.blk ≠ vb) :
    MidOKc 0 0 (PC i outT bT cT mb mc crdB crdC cellsB cellsC vb σ0) [c0b, c0c] i
      [midStmtC ofRat i outT bT cT] := by
  intro fuel σ cs _ hreach hact hinvM hval hidx ⟨pb, pc, hist, hps, hinv, hrel⟩
  obtain ⟨c1, c2, rfl, ⟨l1, k1, d1, e1, _⟩, ⟨l2, k2, d2, e2, _⟩⟩ := reach_pair hreach
  obtain ⟨n1, n2, n3, n4⟩ := cur_namesB (l1.trans hb0)
  obtain ⟨m1, m2, m3, m4⟩ := cur_namesB (l2.trans hc0)
  simp only [List.map_cons, List.map_nil, List.cons.injEq, and_true] at hps
  obtain ⟨rfl, rfl⟩ := hps
  have hm1 : c1 ∈ [c1, c2] := List.mem_cons_self
  have hm2 : c2 ∈ [c1, c2] := List.mem_cons_of_mem _ List.mem_cons_self
  have hq : c1.p < mb := by rw [← heB, ← e1]; exact hact c1 hm1
  have hr : c2.p < mc := by rw [← heC, ← e2]; exact hact c2 hm2
  have hcur1 := hinvM.cur c1 hm1
  have hcur2 := hinvM.cur c2 hm2
  have hhere1 : c1.here = crdB c1.p := by rw [← hcrdB, ← d1]; rfl
  have hhere2 : c2.here = crdC c2.p := by rw [← hcrdC, ← d2]; rfl
  have hmin : curMin [c1, c2] = min (crdB c1.p) (crdC c2.p) := by
    simp [curMin, hhere1, hhere2]
  obtain ⟨b0, b1⟩ := hcur1.rng c1.p (Nat.le_refl _) (hact c1 hm1)
  obtain ⟨g0, g1⟩ := hcur2.rng c2.p (Nat.le_refl _) (hact c2 hm2)
  rw [d1, hcrdB] at b0 b1
  rw [d2, hcrdC] at g0 g1
  have hx0 : -2147483648 ≤ min (crdB c1.p) (crdC c2.p) := by omega
  have hx1 : min (crdB c1.p) (crdC c2.p) < 2147483648 := by omega
  obtain ⟨σ', ⟨o, eo, ro, so⟩, hinv', fvars, fheap⟩ := mid_stepC (ofRat := ofRat) N ho hb hc
    pre fuel σ hist c1.p c2.p (crdB c1.p) (crdC c2.p) (min (crdB c1.p) (crdC c2.p)) hq hr hinv
    (by rw [← n1]; exact hcur1.ptrv) (by rw [← m1]; exact hcur2.ptrv)
    (by rw [← n4, ← hhere1]; exact hval c1 hm1) (by rw [← m4, ← hhere2]; exact hval c2 hm2)
    (by rw [← hmin]; exact hidx) b0 b1 g0 g1 hx0 hx1
    (by
      intro h1 h2
      have heq : crdB c1.p = crdC c2.p := h1.trans h2.symm
      have := hist_length_lt crdB crdC cellsB cellsC hq hr heq hist hrel
      have := hist_length_lt_totalC crdB crdC cellsB cellsC hq hr heq hist hrel
      have := pre.smallB
      exact ⟨by omega, by omega, hfin c1.p c2.p hq hr heq⟩)
  subst so
  refine ⟨o, eo, ro, ?_, ?_, ?_, ?_⟩
  · rw [Sparse1.execL_noLoop_iters fuel _ σ (noLoop_midStmtC ofRat i outT bT cT) o eo]; exact Nat.le_refl _
  · intro x hx
    apply fvars
    simp only [curNames, List.map_cons, List.map_nil, List.mem_cons, List.mem_append, List.not_mem_nil,
      or_false, n1, n2, n3, n4, m1, m2, m3, m4] at hx
    simp only [midWC, List.mem_cons, List.not_mem_nil, or_false, not_or]
    rcases hx with rfl | (((rfl | rfl) | (rfl | rfl)) | (rfl | rfl)) | (rfl | rfl) <;>
      (and_intros <;> snm N)
  · intro d hd
    simp only [List.mem_cons, List.not_mem_nil, or_false] at hd
    have hdblk : d.blk ≠ vb := by
      rcases hd with rfl | rfl
      · rw [k1]; exact hblkB
      · rw [k2]; exact hblkC
    exact fheap d.blk hdblk
  · refine ⟨(c1.adv (curMin [c1, c2])).p, (c2.adv (curMin [c1, c2])).p, _, rfl, hinv', ?_⟩
    rw [adv_p_eq, adv_p_eq, hmin, d1, hcrdB, d2, hcrdC]
    exact hist_step crdB crdC cellsB cellsC hq hr hist _ hrel

/-- **The whole loop of the computing kernel.** -/
theorem loop_runsC (N : KNames i outT bT cT) (ho : isSp i outT = true) (hb : isSp i bT = true)
    (hc : isSp i cT = true)
    (pre : LoopPreC outT bT cT mb mc bvb cvb cellsB cellsC rr vb σ0)
    (hroom : (intersect (assoc mb crdB cellsB) (assoc mc crdC cellsC)).length ≤ rr)
    (hfin : ∀ q r, q < mb → r < mc → crdB q = crdC r →
      ToIr.AllFinite ofRat (env bT (cellsB q) (cellsC r)) (mulE bT cT))
    (bcb ccb : Nat) (hblkB : bcb ≠ vb) (hblkC : ccb ≠ vb)
    (fuel : Nat) (σ : State F) (hfuel : mb + mc + 1 ≤ fuel)
    (hM : MergeInv σ [⟨inLeaf bT, bcb, crdB, 0, mb⟩, ⟨inLeaf cT, ccb, crdC, 0, mc⟩] i)
    (hP : InvC i outT bT cT vb σ0 [] σ) :
    ∃ o, exec fuel (mergeLoopL [inLeaf bT, inLeaf cT] i [midStmtC ofRat i outT bT cT]) σ = .ok o ∧
      o.ret = none ∧ o.iters ≤ mb + mc ∧
      InvC i outT bT cT vb σ0 (intersect (assoc mb crdB cellsB) (assoc mc crdC cellsC)) o.st := by
  let c0b : Cur := ⟨inLeaf bT, bcb, crdB, 0, mb⟩
  let c0c : Cur := ⟨inLeaf cT, ccb, crdC, 0, mc⟩
  have hnames : NamesOK [c0b, c0c] i := merge_names_generated [c0b, c0c] i N.iu (by
    simp only [List.pairwise_cons, List.mem_cons, List.not_mem_nil, or_false, forall_eq, List.Pairwise.nil,
      and_true, false_imp_iff, implies_true]
    intro h; exact N.idbc h.1)
  have hmeas : curMeasure [c0b, c0c] = mb + mc := by simp [curMeasure, c0b, c0c]
  obtain ⟨o, eo, ro, inv, hreach, ⟨cx, hcx, hcxe⟩, hl, lo, hi, pb, pc, hist, hps, hinvF, hrel⟩ :=
    merge_loop_cursor_ghost (B := 0) (K := 0)
      (P := PC i outT bT cT mb mc crdB crdC cellsB cellsC vb σ0) [c0b, c0c] i
      [midStmtC ofRat i outT bT cT] fuel σ (by simp) hnames hM
      ⟨0, 0, [], rfl, hP, by simp⟩
      (curStableC N rfl rfl)
      (midOKcC N ho hb hc pre hroom hfin c0b c0c rfl rfl rfl rfl rfl rfl hblkB hblkC)
      (by rw [hmeas]; omega)
  refine ⟨o, eo, ro, ?_, ?_⟩
  · rw [hmeas] at hl; omega
  · obtain ⟨c1, c2, hcs, ⟨_, _, _, e1, _⟩, ⟨_, _, _, e2, _⟩⟩ := reach_pair hreach
    rw [hcs] at hps hcx
    simp only [List.map_cons, List.map_nil, List.cons.injEq, and_true] at hps
    obtain ⟨rfl, rfl⟩ := hps
    have hnil : intersect ((assoc mb crdB cellsB).drop c1.p) ((assoc mc crdC cellsC).drop c2.p) = [] := by
      simp only [List.mem_cons, List.not_mem_nil, or_false] at hcx
      rcases hcx with rfl | rfl
      · rw [hcxe, e1, show c0b.e = mb from rfl, assoc_drop_all]; rfl
      · rw [hcxe, e2, show c0c.e = mc from rfl, assoc_drop_all, intersect_nil_right]
    rw [hnil, List.append_nil] at hrel
    rw [← hrel]; exact hinvF

end

end TV.Spmul
