import TensoraVerif.Lemmas.AsmCmp2SpmulPost
import TensoraVerif.Lemmas.AsmCmpCompose

/-!
C04 for the element-wise product of two sparse vectors, part 6: composing kernel calls (`AsmCmp.nextCall`).
`initC_after_assemble`: the state after the assembling kernel is a valid initial state of the computing kernel;
`InitC.transport`: `InitC` survives a call of the computing kernel and a change of the input VALUES;
`intersect_coords`: the coordinates (hence the length) of the intersection do not depend on the values.
-/
namespace TV.Spmul
open TV.IR TV.Gen TV.Graph TV.Growth TV.Merge TV.Dense1
open TV.AsmCmp (nextCall)
set_option linter.unusedSectionVars false
variable {F : Type} [FloatOps F]

/-- the coordinates of the intersection only depend on the coordinates of the operands -/
theorem intersect_coords (l1 l2 : List (Int × F)) : ∀ (l1' l2' : List (Int × F)),
    l1.map (·.1) = l1'.map (·.1) → l2.map (·.1) = l2'.map (·.1) →
    (intersect l1 l2).map (·.1) = (intersect l1' l2').map (·.1) := by
  refine intersect_induct (motive := fun l1 l2 => ∀ (l1' l2' : List (Int × F)),
    l1.map (·.1) = l1'.map (·.1) → l2.map (·.1) = l2'.map (·.1) →
    (intersect l1 l2).map (·.1) = (intersect l1' l2').map (·.1)) ?_ ?_ ?_ ?_ ?_ l1 l2
  · intro l l1' l2' h1 _
    cases l1' with
    | nil => simp
    | cons p xs => simp at h1
  · intro l l1' l2' _ h2
    cases l2' with
    | nil => simp
    | cons p xs => simp at h2
  · intro x u xs v ys ih l1' l2' h1 h2
    cases l1' with
    | nil => simp at h1
    | cons p xs' =>
      cases l2' with
      | nil => simp at h2
      | cons q ys' =>
        obtain ⟨x', u'⟩ := p
        obtain ⟨y', v'⟩ := q
        simp only [List.map_cons, List.cons.injEq] at h1 h2
        obtain ⟨e1, h1⟩ := h1
        obtain ⟨e2, h2⟩ := h2
        subst e1 e2
        rw [intersect_eq, intersect_eq]
        simp [ih _ _ h1 h2]
  · intro x u xs y v ys hlt ih l1' l2' h1 h2
    cases l1' with
    | nil => simp at h1
    | cons p xs' =>
      cases l2' with
      | nil => simp at h2
      | cons q ys' =>
        obtain ⟨x', u'⟩ := p
        obtain ⟨y', v'⟩ := q
        simp only [List.map_cons, List.cons.injEq] at h1 h2
        obtain ⟨e1, h1⟩ := h1
        obtain ⟨e2, h2⟩ := h2
        subst e1 e2
        rw [intersect_lt hlt, intersect_lt hlt]
        exact ih _ _ h1 (by simp [h2])
  · intro x u xs y v ys hgt ih l1' l2' h1 h2
    cases l1' with
    | nil => simp at h1
    | cons p xs' =>
      cases l2' with
      | nil => simp at h2
      | cons q ys' =>
        obtain ⟨x', u'⟩ := p
        obtain ⟨y', v'⟩ := q
        simp only [List.map_cons, List.cons.injEq] at h1 h2
        obtain ⟨e1, h1⟩ := h1
        obtain ⟨e2, h2⟩ := h2
        subst e1 e2
        rw [intersect_gt hgt, intersect_gt hgt]
        exact ih _ _ (by simp [h1]) h2

/-- the coordinates of the intersection of two stored vectors do not depend on the stored values -/
theorem intersect_assoc_coords (mb mc : Nat) (crdB crdC : Nat → Int) (cellsB cellsC cellsB' cellsC' : Nat → F) :
    (intersect (assoc mb crdB cellsB) (assoc mc crdC cellsC)).map (·.1) =
      (intersect (assoc mb crdB cellsB') (assoc mc crdC cellsC')).map (·.1) :=
  intersect_coords _ _ _ _ (by simp [assoc]) (by simp [assoc])

/-- the number of stored entries of the product does not depend on the stored values -/
theorem intersect_assoc_length (mb mc : Nat) (crdB crdC : Nat → Int) (cellsB cellsC cellsB' cellsC' : Nat → F) :
    (intersect (assoc mb crdB cellsB) (assoc mc crdC cellsC)).length =
      (intersect (assoc mb crdB cellsB') (assoc mc crdC cellsC')).length := by
  have := congrArg List.length (intersect_assoc_coords mb mc crdB crdC cellsB cellsC cellsB' cellsC')
  simpa using this

/-- **After `assemble`, `compute` may be called.** If `σ` is a kernel-call state (`Init`) whose output record
is none of the input records and the assembling kernel took it to `σ'` (`KernelPostA`), then the next call
state satisfies `InitC` (room `r = |hist|`) for the new output record `tr'`, whose slots/`vals` are the fresh
blocks `pF`, `cF`, `vF` described by `KernelPostA`. -/
theorem initC_after_assemble {outT bT cT : TensorId} {ta : Nat} {atr : TensorRec F} {n : Int}
    {tb : Nat} {btr : TensorRec F} {mb bpb bcb bvb : Nat} {crdB : Nat → Int} {cellsB : Nat → F}
    {tc : Nat} {ctr : TensorRec F} {mc cpb ccb cvb : Nat} {crdC : Nat → Int} {cellsC : Nat → F}
    {hist : List (Int × F)} {σ σ' : State F}
    (init : Init outT bT cT ta atr n tb btr mb bpb bcb bvb crdB cellsB tc ctr mc cpb ccb cvb crdC cellsC σ)
    (hab : ta ≠ tb) (hac : ta ≠ tc)
    (post : KernelPostA ta atr hist σ σ') :
    ∃ tr' pF cF vF vblk, σ'.tensors[ta]? = some tr' ∧ tr'.owner = .output ∧ tr'.order = atr.order ∧
      tr'.dimsBlk = atr.dimsBlk ∧ tr'.slots = atr.slots.set 0 (some (.ptr pF 0, .ptr cF 0)) ∧
      tr'.vals = .ptr vF 0 ∧
      σ.heap.length ≤ pF ∧ σ.heap.length ≤ cF ∧ σ.heap.length ≤ vF ∧ pF ≠ cF ∧ pF ≠ vF ∧ cF ≠ vF ∧
      σ'.heap[pF]? = some ⟨.int, [some (.int 0), some (.int hist.length)], .output, true⟩ ∧
      σ'.heap[cF]? = some ⟨.int, hist.map (fun p => some (.int p.1)), .output, true⟩ ∧
      σ'.heap[vF]? = some vblk ∧ vblk.live = true ∧ vblk.owner = .output ∧ vblk.ty = .float ∧
      vblk.cells.length = hist.length + 1 ∧
      InitC outT bT cT ta tr' n tb btr mb bpb bcb bvb crdB cellsB tc ctr mc cpb ccb cvb crdC cellsC
        hist.length vF (nextCall σ σ') := by
  obtain ⟨tr', pF, cF, vF, vblk, h1, h2, h3, h4, h5, h6, h7, h8, h9, h10, h11, h12, h13, h14, h15, h16, h17,
    h18, h19⟩ := post.outRec
  refine ⟨tr', pF, cF, vF, vblk, h1, h2, h3, h4, h5, h6, h7, h8, h9, h10, h11, h12, h13, h14, h15, h16, h17,
    h18, h19, ?_⟩
  obtain ⟨ap, ac, hasl, _, _⟩ := init.aslot
  have hsl0 : 0 < atr.slots.length := lt_length_of_getElem? hasl
  obtain ⟨dblk, hdb, hd⟩ := init.adim
  obtain ⟨pblkB, hpbB, hpB⟩ := init.b.pos
  obtain ⟨cblkB, hcbB, hcB⟩ := init.b.crd
  obtain ⟨vblkB, hvbB, hvB⟩ := init.b.val
  obtain ⟨pblkC, hpbC, hpC⟩ := init.c.pos
  obtain ⟨cblkC, hcbC, hcC⟩ := init.c.crd
  obtain ⟨vblkC, hvbC, hvC⟩ := init.c.val
  have old : ∀ {k : Nat} {blk : Block F}, σ.heap[k]? = some blk → σ'.heap[k]? = some blk := by
    intro k blk hk
    rw [post.heap k (lt_length_of_getElem? hk)]; exact hk
  have l1 : bpb < σ.heap.length := lt_length_of_getElem? hpbB
  have l2 : bcb < σ.heap.length := lt_length_of_getElem? hcbB
  have l3 : bvb < σ.heap.length := lt_length_of_getElem? hvbB
  have l4 : cpb < σ.heap.length := lt_length_of_getElem? hpbC
  have l5 : ccb < σ.heap.length := lt_length_of_getElem? hcbC
  have l6 : cvb < σ.heap.length := lt_length_of_getElem? hvbC
  refine
    { base :=
        { avar := init.avar, fresh := init.fresh, arec := h1, aown := h2,
          aord := by rw [h3]; exact init.aord,
          aslot := ⟨.ptr pF 0, .ptr cF 0, by rw [h5]; simp [hsl0], rfl, rfl⟩,
          avals := by rw [h6]; rfl,
          adim := ⟨dblk, by rw [h4]; exact old hdb, hd⟩,
          n32 := init.n32,
          b := { var := init.b.var,
                 hrec := by
                   show σ'.tensors[tb]? = _
                   rw [post.otherRecs tb (Ne.symm hab)]; exact init.b.hrec,
                 ord := init.b.ord, slot := init.b.slot, vals := init.b.vals,
                 pos := ⟨pblkB, old hpbB, hpB⟩, crd := ⟨cblkB, old hcbB, hcB⟩, val := ⟨vblkB, old hvbB, hvB⟩ },
          c := { var := init.c.var,
                 hrec := by
                   show σ'.tensors[tc]? = _
                   rw [post.otherRecs tc (Ne.symm hac)]; exact init.c.hrec,
                 ord := init.c.ord, slot := init.c.slot, vals := init.c.vals,
                 pos := ⟨pblkC, old hpbC, hpC⟩, crd := ⟨cblkC, old hcbC, hcC⟩, val := ⟨vblkC, old hvbC, hvC⟩ } },
      avalsPtr := h6,
      vblk := ⟨vblk, h15, h16, h17, h18, by omega⟩,
      vne := ⟨by omega, by omega, by omega, by omega, by omega, by omega⟩ }

/-- **`InitC` is stable under every change of state that keeps** the parameter variables, the tensor records,
the output's dimensions block, the inputs' `pos` and `crd` blocks, and that leaves in `bvb` / `cvb` SOME live
float blocks whose first `mb` / `mc` cells are the (possibly new) values `cellsB'` / `cellsC'` and in `vF` some
live output float block of at least `r` cells. -/
theorem InitC.transport {outT bT cT : TensorId} {ta : Nat} {atr : TensorRec F} {n : Int}
    {tb : Nat} {btr : TensorRec F} {mb bpb bcb bvb : Nat} {crdB : Nat → Int} {cellsB cellsB' : Nat → F}
    {tc : Nat} {ctr : TensorRec F} {mc cpb ccb cvb : Nat} {crdC : Nat → Int} {cellsC cellsC' : Nat → F}
    {r vF : Nat} {σ σ2 : State F}
    (h : InitC outT bT cT ta atr n tb btr mb bpb bcb bvb crdB cellsB tc ctr mc cpb ccb cvb crdC cellsC r vF σ)
    (hvars : σ2.vars = σ.vars) (htens : σ2.tensors = σ.tensors)
    (hdims : σ2.heap[atr.dimsBlk]? = σ.heap[atr.dimsBlk]?)
    (hposB : σ2.heap[bpb]? = σ.heap[bpb]?) (hcrdB : σ2.heap[bcb]? = σ.heap[bcb]?)
    (hposC : σ2.heap[cpb]? = σ.heap[cpb]?) (hcrdC : σ2.heap[ccb]? = σ.heap[ccb]?)
    (hvalB : ∃ blk, σ2.heap[bvb]? = some blk ∧ blk.live = true ∧ blk.ty = .float ∧
      ∀ j, j < mb → blk.cells[j]? = some (some (.flt (cellsB' j))))
    (hvalC : ∃ blk, σ2.heap[cvb]? = some blk ∧ blk.live = true ∧ blk.ty = .float ∧
      ∀ j, j < mc → blk.cells[j]? = some (some (.flt (cellsC' j))))
    (hout : ∃ blk, σ2.heap[vF]? = some blk ∧ blk.live = true ∧ blk.owner = .output ∧ blk.ty = .float ∧
      r ≤ blk.cells.length) :
    InitC outT bT cT ta atr n tb btr mb bpb bcb bvb crdB cellsB' tc ctr mc cpb ccb cvb crdC cellsC' r vF σ2 := by
  have init := h.base
  exact
    { base :=
        { avar := by unfold TensorVar; rw [hvars]; exact init.avar,
          fresh := by rw [hvars]; exact init.fresh,
          arec := by rw [htens]; exact init.arec, aown := init.aown, aord := init.aord, aslot := init.aslot,
          avals := init.avals, adim := by rw [hdims]; exact init.adim, n32 := init.n32,
          b := { var := by unfold TensorVar; rw [hvars]; exact init.b.var,
                 hrec := by rw [htens]; exact init.b.hrec, ord := init.b.ord, slot := init.b.slot,
                 vals := init.b.vals, pos := by rw [hposB]; exact init.b.pos,
                 crd := by rw [hcrdB]; exact init.b.crd, val := hvalB },
          c := { var := by unfold TensorVar; rw [hvars]; exact init.c.var,
                 hrec := by rw [htens]; exact init.c.hrec, ord := init.c.ord, slot := init.c.slot,
                 vals := init.c.vals, pos := by rw [hposC]; exact init.c.pos,
                 crd := by rw [hcrdC]; exact init.c.crd, val := hvalC } },
      avalsPtr := h.avalsPtr, vblk := hout, vne := h.vne }

/-- the output's dimensions block and the inputs' `pos`/`crd` blocks are `int` blocks, hence none of them is
a (float) `vals` block of the output or of an input -/
theorem InitC.int_blocks_ne {outT bT cT : TensorId} {ta : Nat} {atr : TensorRec F} {n : Int}
    {tb : Nat} {btr : TensorRec F} {mb bpb bcb bvb : Nat} {crdB : Nat → Int} {cellsB : Nat → F}
    {tc : Nat} {ctr : TensorRec F} {mc cpb ccb cvb : Nat} {crdC : Nat → Int} {cellsC : Nat → F}
    {r vF : Nat} {σ : State F}
    (h : InitC outT bT cT ta atr n tb btr mb bpb bcb bvb crdB cellsB tc ctr mc cpb ccb cvb crdC cellsC r vF σ) :
    atr.dimsBlk ≠ vF ∧ (atr.dimsBlk ≠ bvb ∧ bpb ≠ bvb ∧ bcb ≠ bvb ∧ cpb ≠ bvb ∧ ccb ≠ bvb) ∧
      (atr.dimsBlk ≠ cvb ∧ bpb ≠ cvb ∧ bcb ≠ cvb ∧ cpb ≠ cvb ∧ ccb ≠ cvb) := by
  obtain ⟨dblk, hdb, _, hdty, _⟩ := h.base.adim
  obtain ⟨pblkB, hpbB, _, hptyB, _⟩ := h.base.b.pos
  obtain ⟨cblkB, hcbB, _, hctyB, _⟩ := h.base.b.crd
  obtain ⟨vblkB, hvbB, _, hvtyB, _⟩ := h.base.b.val
  obtain ⟨pblkC, hpbC, _, hptyC, _⟩ := h.base.c.pos
  obtain ⟨cblkC, hcbC, _, hctyC, _⟩ := h.base.c.crd
  obtain ⟨vblkC, hvbC, _, hvtyC, _⟩ := h.base.c.val
  obtain ⟨ablk, hab, _, _, haty, _⟩ := h.vblk
  have key : ∀ {k k' : Nat} {b1 b2 : Block F}, σ.heap[k]? = some b1 → σ.heap[k']? = some b2 →
      b1.ty = .int → b2.ty = .float → k ≠ k' := by
    intro k k' b1 b2 e1 e2 t1 t2 e
    rw [e, e2] at e1; cases e1; rw [t2] at t1; cases t1
  exact ⟨key hdb hab hdty haty,
    ⟨key hdb hvbB hdty hvtyB, key hpbB hvbB hptyB hvtyB, key hcbB hvbB hctyB hvtyB, key hpbC hvbB hptyC hvtyB,
      key hcbC hvbB hctyC hvtyB⟩,
    ⟨key hdb hvbC hdty hvtyC, key hpbB hvbC hptyB hvtyC, key hcbB hvbC hctyB hvtyC, key hpbC hvbC hptyC hvtyC,
      key hcbC hvbC hctyC hvtyC⟩⟩

end TV.Spmul
