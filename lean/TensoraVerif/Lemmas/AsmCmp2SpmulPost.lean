import TensoraVerif.Lemmas.AsmCmp2SpmulModel
import TensoraVerif.Lemmas.SpmulKernel

/-!
C04 for the element-wise product of two sparse vectors (`Spmul` class), part 2: the vocabulary of the machine
theorems — final state of the assembling kernel (`KernelPostA`), initial and final state of the computing
kernel (`InitC`, `KernelPostC`).
-/
namespace TV.Spmul
open TV.IR TV.Gen TV.Graph TV.Growth TV.Merge
set_option linter.unusedSectionVars false
variable {F : Type} [FloatOps F]

/-- **Final state of a call of the assembling kernel** `σ → σ'` (output record `ta`, initially `atr`) that has
appended the coordinates of the entries `hist` (the values of `hist` are ghosts: they are NOT stored): the
record — still output-owned, same order and dimensions — has at level 0 the slot pair (`pos`, `crd`) = the base
addresses of two fresh live output `int` blocks holding EXACTLY `[0, |hist|]` and the coordinates of `hist`,
and `vals` = the base address of a fresh live output `float` block of exactly `|hist| + 1` cells (the size
`evaluate` leaves; CONTENTS UNSPECIFIED: the kernel never stores into it); the three blocks are different;
every other record and every block of the initial heap (the inputs) is unchanged. -/
structure KernelPostA (ta : Nat) (atr : TensorRec F) (hist : List (Int × F)) (σ σ' : State F) : Prop where
  outRec : ∃ tr' pF cF vF vblk, σ'.tensors[ta]? = some tr' ∧ tr'.owner = .output ∧ tr'.order = atr.order ∧
    tr'.dimsBlk = atr.dimsBlk ∧ tr'.slots = atr.slots.set 0 (some (.ptr pF 0, .ptr cF 0)) ∧
    tr'.vals = .ptr vF 0 ∧
    σ.heap.length ≤ pF ∧ σ.heap.length ≤ cF ∧ σ.heap.length ≤ vF ∧ pF ≠ cF ∧ pF ≠ vF ∧ cF ≠ vF ∧
    σ'.heap[pF]? = some ⟨.int, [some (.int 0), some (.int hist.length)], .output, true⟩ ∧
    σ'.heap[cF]? = some ⟨.int, hist.map (fun p => some (.int p.1)), .output, true⟩ ∧
    σ'.heap[vF]? = some vblk ∧ vblk.live = true ∧ vblk.owner = .output ∧ vblk.ty = .float ∧
    vblk.cells.length = hist.length + 1
  otherRecs : ∀ k, k ≠ ta → σ'.tensors[k]? = σ.tensors[k]?
  tlen : σ'.tensors.length = σ.tensors.length
  heap : ∀ k, k < σ.heap.length → σ'.heap[k]? = σ.heap[k]?

/-- **Initial machine state of a call of the computing kernel**: a kernel-call state (`Spmul.Init`) in which
moreover the output record's `vals` is the base address of a live, output-owned `float` block `vF` with AT
LEAST `r` cells, which is none of the six blocks of the inputs. Nothing is asked of the `pos`/`crd` blocks the
output's slots point to (the kernel never dereferences them), nor of the contents of `vF`. -/
structure InitC (outT bT cT : TensorId) (ta : Nat) (atr : TensorRec F) (n : Int)
    (tb : Nat) (btr : TensorRec F) (mb bpb bcb bvb : Nat) (crdB : Nat → Int) (cellsB : Nat → F)
    (tc : Nat) (ctr : TensorRec F) (mc cpb ccb cvb : Nat) (crdC : Nat → Int) (cellsC : Nat → F)
    (r vF : Nat) (σ : State F) : Prop where
  base : Init outT bT cT ta atr n tb btr mb bpb bcb bvb crdB cellsB tc ctr mc cpb ccb cvb crdC cellsC σ
  avalsPtr : atr.vals = .ptr vF 0
  vblk : ∃ blk, σ.heap[vF]? = some blk ∧ blk.live = true ∧ blk.owner = .output ∧ blk.ty = .float ∧
    r ≤ blk.cells.length
  vne : vF ≠ bpb ∧ vF ≠ bcb ∧ vF ≠ bvb ∧ vF ≠ cpb ∧ vF ≠ ccb ∧ vF ≠ cvb

/-- **Final state of a call of the computing kernel** `σ → σ'` that has stored the values of the entries
`hist`: ALL tensor records are unchanged; the heap has the same length (NO allocation); every block other than
`vF` is unchanged; block `vF` keeps its type, owner, liveness and length, its cells `j < |hist|` hold the
values of `hist`, and its cells `j ≥ |hist|` are unchanged. -/
structure KernelPostC (hist : List (Int × F)) (vF : Nat) (σ σ' : State F) : Prop where
  tensors : σ'.tensors = σ.tensors
  len : σ'.heap.length = σ.heap.length
  other : ∀ k, k ≠ vF → σ'.heap[k]? = σ.heap[k]?
  vals : ∃ blk0 blk, σ.heap[vF]? = some blk0 ∧ σ'.heap[vF]? = some blk ∧ blk.ty = blk0.ty ∧
    blk.owner = blk0.owner ∧ blk.live = blk0.live ∧ blk.cells.length = blk0.cells.length ∧
    (∀ j (h : j < hist.length), blk.cells[j]? = some (some (.flt hist[j].2))) ∧
    (∀ j, hist.length ≤ j → blk.cells[j]? = blk0.cells[j]?)

end TV.Spmul
