import TensoraVerif.Lemmas.AsmCmpModel
import TensoraVerif.Lemmas.Sparse1Loop

/-!
C04 for the sparse vector copy/scale kernels, part 2: the loop of the ASSEMBLING kernel on the machine. As
`Sparse1Body.lean` / `Sparse1Loop.lean`, without the store into `vals`: the invariant `InvA` says nothing about
the contents of the `vals` array (only that it is a live output array of the recorded capacity ≥ cursor).
-/
namespace TV.AsmCmp
open TV.IR TV.Gen TV.Graph TV.Growth TV.Merge TV.Sparse1
set_option linter.unusedSectionVars false
variable {F : Type} [FloatOps F]

/-- **The loop invariant of the assembling kernel** after the coordinates `tr` have been visited (relative to
the state `σ0` at loop entry; `cb0`, `vb0` are the blocks of `a_0_crd`, `a_vals` at loop entry): as
`Sparse1.Inv`, without any statement about the cells of `vals`. -/
structure InvA (i : String) (outT bT : TensorId) (cb0 vb0 : Nat) (σ0 : State F) (cb : Nat) (cc : Int)
    (vb : Nat) (vc : Int) (tr : List Int) (σ : State F) : Prop where
  tensors : σ.tensors = σ0.tensors
  len : σ0.heap.length ≤ σ.heap.length
  old : ∀ k blk, k ≠ cb0 → k ≠ vb0 → σ0.heap[k]? = some blk → σ.heap[k]? = some blk
  vars : ∀ y, y ∉ touched i outT bT → lookupVar σ.vars y = lookupVar σ0.vars y
  crd : ArrInv σ (crdName outT.name 0) (crdCapName outT.name 0) .int cb cc
  vals : ArrInv σ (valsName outT.name) (valsCapName outT.name) .float vb vc
  hcb : cb = cb0 ∨ σ0.heap.length ≤ cb
  hvb : vb = vb0 ∨ σ0.heap.length ≤ vb
  hne : cb ≠ vb
  ptr : IntVar σ (layerPointer outT.id 0) tr.length
  lec : (tr.length : Int) ≤ cc
  lev : (tr.length : Int) ≤ vc
  crdCells : ∃ blk, σ.heap[cb]? = some blk ∧
    ∀ j (h : j < tr.length), blk.cells[j]? = some (some (.int tr[j]))
  flag : ∀ r, lookupVar σ.vars (writtenName outT.name 0) = some r → r.ty = .bool

theorem noLoop_midStmtA (i : String) (outT bT : TensorId) :
    noLoopL [midStmtA (F := F) i outT bT] = true := by
  simp [noLoopL, noLoop, midStmtA, branchBodyA, noLoop_writePosAllocation, termBlockA,
    declAssignE, increment, writeCrdAssembly_shape]

section step
variable {i : String} {outT bT : TensorId} {m : Nat} {crdB : Nat → Int} {cb0 vb0 : Nat} {σ0 : State F}

/-- **The loop body step of the assembling kernel.** -/
theorem mid_stepA (N : KNames i outT bT) (ho : isSp i outT = true) (hsmall : m ≤ 1073741824)
    (fuel : Nat) (σ : State F) (tr : List Int) (cb : Nat) (cc : Int) (vb : Nat) (vc : Int) (q : Nat)
    (htr : tr.length < m)
    (hinv : InvA i outT bT cb0 vb0 σ0 cb cc vb vc tr σ)
    (hvB : IntVar σ (valueFromCrd bT.id 0) (crdB q)) (hi : IntVar σ i (crdB q))
    (hr0 : -2147483648 ≤ crdB q) (hr1 : crdB q < 2147483648) :
    ∃ σ' cb' cc' vb' vc', RunsL fuel [midStmtA i outT bT] σ σ' ∧
      InvA i outT bT cb0 vb0 σ0 cb' cc' vb' vc' (tr ++ [crdB q]) σ' ∧
      (∀ y, y ∉ midW outT → lookupVar σ'.vars y = lookupVar σ.vars y) ∧
      (∀ k blk, k ≠ cb → k ≠ vb → σ.heap[k]? = some blk → σ'.heap[k]? = some blk) := by
  obtain ⟨ho1, ho2⟩ := (isSp_iff i outT).1 ho
  obtain ⟨hdb, hArr, hCap, hEty, hBon, hidx⟩ := outLeaf_facts ho
  -- abbreviations
  obtain ⟨p, hp⟩ : ∃ p : Int, p = tr.length := ⟨_, rfl⟩
  have hp0 : 0 ≤ p := by omega
  have hpm : p < m := by omega
  have hptr : IntVar σ (layerPointer outT.id 0) p := by rw [hp]; exact hinv.ptr
  have hlec : p ≤ cc := by rw [hp]; exact hinv.lec
  have hlev : p ≤ vc := by rw [hp]; exact hinv.lev
  -- 1. vals allocation
  obtain ⟨o1, vb1, vc1, e1, r1, g1, hvc1, hroom1⟩ := writePosAllocation_nodense_safe (outLeaf outT) fuel σ
    vb vc p hdb (by rw [hArr, hCap, hEty]; exact hinv.vals) hptr hp0 (by rw [hBon]; omega)
    (by rw [hBon]; intro h; omega)
  rw [hArr, hCap, hEty] at g1
  rw [hBon] at hroom1
  have hpv1 : p < vc1 := by have := hroom1 (by omega); omega
  have run1 : Runs fuel (writePosAllocation (outLeaf outT)).finalize σ o1.st := ⟨o1, e1, r1, rfl⟩
  have f1 : ∀ y, y ≠ valsName outT.name → y ≠ valsCapName outT.name →
      lookupVar o1.st.vars y = lookupVar σ.vars y := g1.vars
  -- block indices are valid
  obtain ⟨cblk, hcblk, hclive, hcown, hcty, hclen⟩ := hinv.crd.blk
  obtain ⟨vblk, hvblk, hvlive, hvown, hvty, hvlen⟩ := hinv.vals.blk
  have hcbl : cb < σ.heap.length := lt_length_of_getElem? hcblk
  have hvbl : vb < σ.heap.length := lt_length_of_getElem? hvblk
  have hvb1 : vb1 = vb ∨ vb1 = σ.heap.length := by
    rcases g1.old with ⟨h, _⟩ | ⟨h, _⟩
    · exact .inl h
    · exact .inr h
  have hcv1 : cb ≠ vb1 := by
    rcases hvb1 with h | h
    · rw [h]; exact hinv.hne
    · omega
  -- 2. bool written = false
  obtain ⟨σ2, r2, hh2, ht2, ⟨rw2, hrw1, hrw2, _⟩, f2⟩ := Dense1.runsI_declAssign (fuel := fuel)
    (x := writtenName outT.name 0) (t := .bool) (e := (.boolLit false : Expr F)) (σ := o1.st)
    (val := .bool false) (val' := .bool false)
    (by rw [f1 _ (by nm N) (by nm N)]; exact hinv.flag) (by simp [evalE]) rfl
  have run2 : Runs fuel (declAssignE (writtenName outT.name 0) .bool (.boolLit false)) o1.st σ2 := by
    obtain ⟨o, e, r, s, _⟩ := r2; exact ⟨o, e, r, s⟩
  -- 3. the terminal block: written = true
  have run3' := ToIr.flagStmt_runs (fuel := fuel) (σ := σ2) (f := writtenName outT.name 0) ⟨rw2, hrw1, hrw2⟩
  generalize hσ3 : ({ σ2 with vars := setVar σ2.vars (writtenName outT.name 0) (.bool true) } : State F) = σ3
    at run3'
  have run3 : Runs fuel (termBlockA outT) σ2 σ3 := Runs.block (RunsL.cons run3' (RunsL.nil _ _))
  have hh3 : σ3.heap = σ2.heap := by rw [← hσ3]
  have ht3 : σ3.tensors = σ2.tensors := by rw [← hσ3]
  have f3' : ∀ y, y ≠ writtenName outT.name 0 → lookupVar σ3.vars y = lookupVar σ2.vars y := by
    intro y hy; rw [← hσ3]; exact lookupVar_setVar_other _ hy
  have hfl3 : ToIr.FlagTrue σ3 (writtenName outT.name 0) := by
    rw [← hσ3]
    exact ⟨_, lookupVar_setVar_same _ hrw1, hrw2, rfl⟩
  -- 4. crd assembly
  have hcb3 : σ3.heap[cb]? = some cblk := by
    rw [hh3, hh2]; exact g1.heap cb cblk hinv.hne hcblk
  have hcrd3 : ArrInv σ3 (crdName outT.name 0) (crdCapName outT.name 0) .int cb cc :=
    ⟨hinv.crd.arr.congr (by rw [f3' _ (by nm N), f2 _ (by nm N), f1 _ (by nm N) (by nm N)]),
     hinv.crd.cap.congr (by rw [f3' _ (by nm N), f2 _ (by nm N), f1 _ (by nm N) (by nm N)]),
     ⟨cblk, hcb3, hclive, hcown, hcty, hclen⟩, hinv.crd.pos, hinv.crd.lt⟩
  have hpA3 : IntVar σ3 (layerPointer outT.id 0) p :=
    hptr.congr (by rw [f3' _ (by nm N), f2 _ (by nm N), f1 _ (by nm N) (by nm N)])
  have hi3 : IntVar σ3 (outLeaf outT).index (crdB q) := by
    rw [hidx]
    exact hi.congr (by rw [f3' _ (by nm N), f2 _ (by nm N), f1 _ (by nm N) (by nm N)])
  obtain ⟨σ4, cb4, cc4, run4, sp, hpA4, hi4⟩ := crdAssembly_runs (outLeaf outT) fuel σ3 cb cc p (crdB q)
    hcrd3 hpA3 hp0 hlec hi3 hr0 hr1 (by intro h; omega)
    (namesDistinct_of_index _ (by rw [hidx]; exact N.iu))
  have f4 : ∀ y, y ≠ crdName outT.name 0 → y ≠ crdCapName outT.name 0 →
      lookupVar σ4.vars y = lookupVar σ3.vars y := sp.vars
  -- 5. p_a++
  have hpA4' : IntVar σ4 (layerPointer outT.id 0) p := hpA4
  have run5 := Runs.assign_int (fuel := fuel) hpA4'
    (evalE_add (evalE_var_int hpA4' (by omega) (by omega))
      (evalE_intLit (σ := σ4) (v := 1) (by omega) (by omega)) (by omega) (by omega))
  generalize hσ5 : ({ σ4 with vars := setVar σ4.vars (layerPointer outT.id 0) (.int (p + 1)) } : State F) = σ5
    at run5
  have f5 : ∀ y, y ≠ layerPointer outT.id 0 → lookupVar σ5.vars y = lookupVar σ4.vars y := by
    intro y hy; rw [← hσ5]; exact lookupVar_setVar_other _ hy
  have hh5 : σ5.heap = σ4.heap := by rw [← hσ5]
  have ht5 : σ5.tensors = σ4.tensors := by rw [← hσ5]
  have hpA5 : IntVar σ5 (layerPointer outT.id 0) (p + 1) := by
    obtain ⟨r, e1, e2, _⟩ := hpA4'
    rw [← hσ5]
    exact ⟨_, lookupVar_setVar_same _ e1, e2, rfl⟩
  -- the run
  have econd : evalE σ (.bin .and (.boolLit true)
      (.bin .eq (.var (valueFromCrd bT.id 0)) (.var i))) = .ok (.bool true) := by
    have := evalE_and (σ := σ) (l := .boolLit true) (a := true) (by simp [evalE])
      (evalE_eqInt (evalE_var_int hvB hr0 hr1) (evalE_var_int hi hr0 hr1))
    simpa using this
  have hrun : RunsL fuel [midStmtA i outT bT] σ σ5 :=
    RunsL.cons (Runs.branch_true econd (Runs.block (RunsL.cons run1 (RunsL.cons run2 (RunsL.cons run3
      (RunsL.cons (Runs.branch_true (evalE_var_flag hfl3)
        (Runs.block (RunsL.cons run4 (RunsL.cons run5 (RunsL.nil _ _))))) (RunsL.nil _ _)))))))
      (RunsL.nil _ _)
  -- frames
  have fvars : ∀ y, y ∉ midW outT → lookupVar σ5.vars y = lookupVar σ.vars y := by
    intro y hy
    simp only [midW, List.mem_cons, List.not_mem_nil, or_false, not_or] at hy
    obtain ⟨y1, y2, y3, y4, y5, y6⟩ := hy
    rw [f5 y y6, f4 y y4 y5, f3' y y3, f2 y y3, f1 y y1 y2]
  have fheap : ∀ k blk, k ≠ cb → k ≠ vb → σ.heap[k]? = some blk → σ5.heap[k]? = some blk := by
    intro k blk hk1 hk2 hk
    rw [hh5]
    apply sp.heap k blk hk1
    rw [hh3, hh2]
    exact g1.heap k blk hk2 hk
  have hl13 : σ3.heap.length = o1.st.heap.length := by rw [hh3, hh2]
  have hlen5 : σ.heap.length ≤ σ5.heap.length := by
    rw [hh5]
    refine Nat.le_trans ?_ sp.len
    rw [hl13]; exact g1.len
  have hcb4 : cb4 = cb ∨ cb4 = σ3.heap.length := by
    rcases sp.old with h | ⟨h, _⟩
    · exact .inl h
    · exact .inr h
  -- the vals block in the final state
  obtain ⟨vblk1, hvblk1, hv1live, hv1own, hv1ty, hv1len⟩ := g1.inv.blk
  have hvb1l : vb1 < o1.st.heap.length := lt_length_of_getElem? hvblk1
  have hv5 : σ5.heap[vb1]? = some vblk1 := by
    rw [hh5]; exact sp.heap vb1 vblk1 (Ne.symm hcv1) (by rw [hh3, hh2]; exact hvblk1)
  obtain ⟨cblk4, hcblk4, hc4cell⟩ := sp.cell
  refine ⟨σ5, cb4, cc4, vb1, vc1, hrun, ?_, fvars, fheap⟩
  have hlenapp : ((tr ++ [crdB q]).length : Int) = p + 1 := by
    simp only [List.length_append, List.length_cons, List.length_nil]; omega
  have hlenNat : tr.length = p.toNat := by omega
  refine
    { tensors := ?_, len := Nat.le_trans hinv.len hlen5, old := ?_, vars := ?_, crd := ?_, vals := ?_,
      hcb := ?_, hvb := ?_, hne := ?_, ptr := ?_, lec := ?_, lev := ?_, crdCells := ?_, flag := ?_ }
  · rw [ht5, sp.tensors, ht3, ht2, g1.tensors, hinv.tensors]
  · intro k blk hk1 hk2 hk
    have hkl : k < σ0.heap.length := lt_length_of_getElem? hk
    refine fheap k blk ?_ ?_ (hinv.old k blk hk1 hk2 hk)
    · rcases hinv.hcb with h | h <;> omega
    · rcases hinv.hvb with h | h <;> omega
  · intro y hy
    rw [fvars y (by
      intro hm; apply hy; simp only [touched, List.mem_append]; exact .inl hm), hinv.vars y hy]
  · exact sp.inv.congr hh5 (f5 (crdName outT.name 0) (by nm N)) (f5 (crdCapName outT.name 0) (by nm N))
  · refine ⟨g1.inv.arr.congr ?_, g1.inv.cap.congr ?_, ⟨vblk1, hv5, hv1live, hv1own, hv1ty, hv1len⟩,
      g1.inv.pos, g1.inv.lt⟩
    · rw [f5 _ (by nm N), f4 _ (by nm N) (by nm N), f3' _ (by nm N), f2 _ (by nm N)]
    · rw [f5 _ (by nm N), f4 _ (by nm N) (by nm N), f3' _ (by nm N), f2 _ (by nm N)]
  · rcases hcb4 with h | h
    · rw [h]; exact hinv.hcb
    · right; rw [h, hl13]; exact Nat.le_trans hinv.len g1.len
  · rcases hvb1 with h | h
    · rw [h]; exact hinv.hvb
    · right; rw [h]; exact hinv.len
  · rcases hcb4 with h | h
    · rw [h]; exact hcv1
    · rw [h, hl13]; omega
  · rw [hlenapp]; exact hpA5
  · rw [hlenapp]; have := sp.bound; omega
  · rw [hlenapp]; omega
  · refine ⟨cblk4, by rw [hh5]; exact hcblk4, ?_⟩
    intro j hj
    simp only [List.length_append, List.length_cons, List.length_nil] at hj
    by_cases hjp : j < tr.length
    · obtain ⟨cb', hcb', hcells'⟩ := hinv.crdCells
      rw [hcblk] at hcb'; cases hcb'
      rw [List.getElem_append_left hjp]
      rw [sp.cells cblk cblk4 hcb3 hcblk4 j (by omega) (by omega)]
      exact hcells' j hjp
    · have hje : j = tr.length := by omega
      subst hje
      rw [List.getElem_append_right (Nat.le_refl _)]
      simp only [Nat.sub_self, List.getElem_cons_zero]
      rw [hlenNat]; exact hc4cell
  · intro r hr
    obtain ⟨r', e1, e2, _⟩ := hfl3
    rw [f5 _ (by nm N), f4 _ (by nm N) (by nm N), e1] at hr
    cases hr; exact e2

end step

/-! ### the whole loop -/

/-- the ghost predicate of the assembling loop -/
def PA (i : String) (outT bT : TensorId) (cb0 vb0 : Nat) (σ0 : State F) (tr : List Int) (σ : State F) : Prop :=
  ∃ cb cc vb vc, InvA i outT bT cb0 vb0 σ0 cb cc vb vc tr σ

section
variable {i : String} {outT bT : TensorId} {m : Nat} {crdB : Nat → Int} {cb0 vb0 : Nat} {σ0 : State F}

theorem ghostStableA (N : KNames i outT bT) {c0 : Cur} (hc0 : c0.leaf = inLeaf bT) :
    GhostStable (PA i outT bT cb0 vb0 σ0) [c0] i := by
  obtain ⟨n1, n2, n3, n4⟩ := cur_names hc0
  intro tr σ σ' ⟨cb, cc, vb, vc, h⟩ hh ht hv
  have hv' : ∀ y, y ≠ i → y ≠ layerPointer bT.id 0 → y ≠ valueFromCrd bT.id 0 →
      lookupVar σ'.vars y = lookupVar σ.vars y := by
    intro y h1 h2 h3
    apply hv
    simp only [writtenNames, List.map_cons, List.map_nil, List.mem_cons, List.mem_append, List.not_mem_nil,
      or_false, n1, n4, not_or]
    exact ⟨h1, h2, h3⟩
  refine ⟨cb, cc, vb, vc, ?_⟩
  refine
    { tensors := by rw [ht]; exact h.tensors, len := by rw [hh]; exact h.len,
      old := by rw [hh]; exact h.old, vars := ?_, crd := ?_, vals := ?_,
      hcb := h.hcb, hvb := h.hvb, hne := h.hne, ptr := ?_, lec := h.lec, lev := h.lev,
      crdCells := by rw [hh]; exact h.crdCells, flag := ?_ }
  · intro y hy
    have hy' := hy
    simp only [touched, midW, List.mem_cons, List.mem_append, List.not_mem_nil, or_false, not_or] at hy'
    rw [hv' y hy'.2.1 hy'.2.2.1 hy'.2.2.2, h.vars y hy]
  · exact h.crd.congr hh (hv' _ (by nm N) (by nm N) (by nm N)) (hv' _ (by nm N) (by nm N) (by nm N))
  · exact h.vals.congr hh (hv' _ (by nm N) (by nm N) (by nm N)) (hv' _ (by nm N) (by nm N) (by nm N))
  · exact h.ptr.congr (hv' _ (by nm N) (by nm N) (by nm N))
  · rw [hv' _ (by nm N) (by nm N) (by nm N)]; exact h.flag

theorem midOKA (N : KNames i outT bT) (ho : isSp i outT = true) (hsmall : m ≤ 1073741824)
    (c0 : Cur) (hc0 : c0.leaf = inLeaf bT) (hcrd : c0.crd = crdB) (hce : c0.e = m)
    (hblk : c0.blk ≠ cb0 ∧ c0.blk ≠ vb0 ∧ c0.blk < σ0.heap.length) :
    MidOK 0 0 m (PA i outT bT cb0 vb0 σ0) [c0] i [midStmtA (F := F) i outT bT] := by
  intro fuel σ cs tr _ hreach hroom hact hinvM hval hidx ⟨cb, cc, vb, vc, hinv⟩
  obtain ⟨c, rfl, hc, hcb, hcc, hcee, _⟩ := reach_single hreach
  obtain ⟨n1, n2, n3, n4⟩ := cur_names (hc.trans hc0)
  have hcm : c ∈ [c] := List.mem_cons_self
  have hactc : c.p < c.e := hact c hcm
  have hmeas : curMeasure [c] = c.e - c.p := by simp [curMeasure]
  have htr : tr.length < m := by rw [hmeas] at hroom; omega
  have hcur := hinvM.cur c hcm
  have hhere : c.here = crdB c.p := by rw [← hcrd, ← hcc]; rfl
  obtain ⟨r0, r1⟩ := hcur.rng c.p (Nat.le_refl _) hactc
  rw [hcc, hcrd] at r0 r1
  obtain ⟨σ', cb', cc', vb', vc', ⟨o, eo, ro, so⟩, hinv', fvars, fheap⟩ := mid_stepA (crdB := crdB) N ho hsmall
    fuel σ tr cb cc vb vc c.p htr hinv
    (by rw [← n4, ← hhere]; exact hval c hcm)
    (by rw [← hhere]; exact hidx) r0 r1
  subst so
  refine ⟨o, eo, ro, ?_, ?_, ?_, ?_⟩
  · rw [execL_noLoop_iters fuel _ σ (noLoop_midStmtA i outT bT) o eo]; exact Nat.le_refl _
  · intro x hx
    apply fvars
    simp only [curNames, List.map_cons, List.map_nil, List.mem_cons, List.mem_append, List.not_mem_nil,
      or_false, n1, n2, n3, n4] at hx
    simp only [midW, List.mem_cons, List.not_mem_nil, or_false, not_or]
    rcases hx with rfl | ((rfl | rfl) | rfl) | rfl <;> (and_intros <;> nm N)
  · intro d hd
    simp only [List.mem_cons, List.not_mem_nil, or_false] at hd
    subst hd
    obtain ⟨blk, hb, _⟩ := hcur.cells
    rw [hb]
    refine fheap d.blk blk ?_ ?_ hb
    · rw [hcb]; rcases hinv.hcb with h | h
      · rw [h]; exact hblk.1
      · have := hblk.2.2; omega
    · rw [hcb]; rcases hinv.hvb with h | h
      · rw [h]; exact hblk.2.1
      · have := hblk.2.2; omega
  · show PA i outT bT cb0 vb0 σ0 (tr ++ [curMin [c]]) o.st
    rw [curMin_single, hhere]
    exact ⟨cb', cc', vb', vc', hinv'⟩

/-- **The whole loop of the assembling kernel**: exactly `m` iterations, invariant for the full history. -/
theorem loop_runsA (N : KNames i outT bT) (ho : isSp i outT = true) (hsmall : m ≤ 1073741824)
    (bcb : Nat) (hblk : bcb ≠ cb0 ∧ bcb ≠ vb0 ∧ bcb < σ0.heap.length)
    (fuel : Nat) (σ : State F) (hfuel : m + 1 ≤ fuel)
    (hM : MergeInv σ [⟨inLeaf bT, bcb, crdB, 0, m⟩] i)
    (hP : PA i outT bT cb0 vb0 σ0 [] σ) :
    ∃ o, exec fuel (mergeLoopL [inLeaf bT] i [midStmtA i outT bT]) σ = .ok o ∧ o.ret = none ∧
      o.iters = m ∧ MergeInv o.st [⟨inLeaf bT, bcb, crdB, m, m⟩] i ∧
      PA i outT bT cb0 vb0 σ0 ((List.range m).map crdB) o.st := by
  let c0 : Cur := ⟨inLeaf bT, bcb, crdB, 0, m⟩
  have hnames : NamesOK [c0] i := merge_names_generated [c0] i N.iu (by simp)
  have hmeas : curMeasure [c0] = m := by simp [curMeasure, c0]
  obtain ⟨o, eo, ro, inv, _, _, _, lo, hi, hp⟩ := merge_loop_safe_ghost (B := 0) (K := 0)
    (P := PA i outT bT cb0 vb0 σ0) [c0] i [midStmtA i outT bT] fuel σ []
    (by simp) hnames hM hP (ghostStableA N rfl)
    (by rw [hmeas]; simpa using midOKA N ho hsmall c0 rfl rfl rfl hblk)
    (by rw [hmeas]; omega)
  have hle : c0.p ≤ c0.e := Nat.zero_le _
  rw [mergeFinal_single c0 hle] at inv
  rw [mergeTrace_single_length c0 hle] at lo hi
  rw [mergeTrace_single c0 hle] at hp
  have hr : List.range' c0.p (c0.e - c0.p) = List.range m := by
    simp [c0, List.range_eq_range']
  rw [hr] at hp
  refine ⟨o, eo, ro, ?_, inv, by simpa using hp⟩
  simp only [c0, Nat.sub_zero] at lo hi
  omega

end

end TV.AsmCmp
