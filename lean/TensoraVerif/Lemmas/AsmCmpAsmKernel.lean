import TensoraVerif.Lemmas.AsmCmpAsmBody
import TensoraVerif.Lemmas.Sparse1Kernel

/-!
C04 for the sparse vector copy/scale kernels, part 3: the whole ASSEMBLING kernel on the machine — the prologue
is that of `evaluate` (`Sparse1.prologue_runs`: the "Output initialization" blocks are identical), then the
iteration block (`iterBlock_runsA`), the cleanup (`cleanup_runsA`) and `return 0` (`kernel_runsA`).
-/
namespace TV.AsmCmp
open TV.IR TV.Gen TV.Graph TV.Growth TV.Merge TV.Dense1 TV.Sparse1
set_option linter.unusedSectionVars false
variable {F : Type} [FloatOps F]

/-- **The state before the cleanup of the assembling kernel**: as `Sparse1.AfterLoop`, nothing about the
contents of `vals`. -/
structure AfterLoopA (outT : TensorId) (ta m : Nat) (crdB : Nat → Int) (σ0 σF : State F) : Prop where
  tensors : σF.tensors = σ0.tensors
  old : ∀ k, k < σ0.heap.length → σF.heap[k]? = σ0.heap[k]?
  pos : σF.heap[σ0.heap.length]? = some ⟨.int, [some (.int 0), some (.int m)], .output, true⟩
  apos : PtrVar σF (posName outT.name 0) σ0.heap.length
  avar : TensorVar σF outT.name ta
  ptr : IntVar σF (layerPointer outT.id 0) m
  arrs : ∃ cb vb cblk vblk, PtrVar σF (crdName outT.name 0) cb ∧ PtrVar σF (valsName outT.name) vb ∧
    σ0.heap.length < cb ∧ σ0.heap.length < vb ∧ cb ≠ vb ∧
    σF.heap[cb]? = some cblk ∧ cblk.live = true ∧ cblk.owner = .output ∧ cblk.ty = .int ∧
    m ≤ cblk.cells.length ∧ (∀ j, j < m → cblk.cells[j]? = some (some (.int (crdB j)))) ∧
    σF.heap[vb]? = some vblk ∧ vblk.live = true ∧ vblk.owner = .output ∧ vblk.ty = .float ∧
    m ≤ vblk.cells.length

set_option maxHeartbeats 1000000 in
/-- **the iteration block of the assembling kernel** -/
theorem iterBlock_runsA {i : String} {outT bT : TensorId}
    (N : KNames i outT bT) (ho : isSp i outT = true)
    {k : Int} (hk0 : 1 ≤ k) (hk1 : k < 2147483648)
    {ta tb : Nat} {atr btr : TensorRec F} {n : Int} {m bpb bcb bvb : Nat} {crdB : Nat → Int}
    {cellsB : Nat → F} {σ0 σC : State F}
    (init : Init outT bT ta tb atr btr n m bpb bcb bvb crdB cellsB σ0)
    (entry : Entry i outT bT k bpb bcb bvb σ0 σC)
    (hm : m ≤ 1073741824)
    (hrng : ∀ j, j < m → -2147483648 ≤ crdB j ∧ crdB j < 2147483648)
    (fuel : Nat) (hfuel : m + 1 ≤ fuel) :
    ∃ σF, RunsLI fuel (loopLinesA i outT bT) σC σF m ∧ AfterLoopA outT ta m crdB σ0 σF := by
  obtain ⟨ho1, ho2⟩ := (isSp_iff i outT).1 ho
  have hfresh : ∀ x, nameClass x ≠ 0 → x ∉ proW i outT bT → lookupVar σC.vars x = none := by
    intro x hx hw
    rw [entry.frame x hw]
    refine init.fresh x ?_ ?_
    · intro h; rw [h, N.a0] at hx; exact hx rfl
    · intro h; rw [h, N.b0] at hx; exact hx rfl
  obtain ⟨pblk, hpb, hplive, hpty, hpc0, hpc1⟩ := init.bpos
  obtain ⟨cblk0, hcb, hclive, hcty, hclen, hccells⟩ := init.bcrd
  have hbpbl : bpb < σ0.heap.length := lt_length_of_getElem? hpb
  have hbcbl : bcb < σ0.heap.length := lt_length_of_getElem? hcb
  have hCold : ∀ j, j < σ0.heap.length → σC.heap[j]? = σ0.heap[j]? := by
    intro j hj; rw [entry.heap, List.getElem?_append_left hj]
  -- D: sparse init
  let c : Cur := ⟨inLeaf bT, bcb, crdB, 0, m⟩
  have hcn := cur_names (c := c) (bT := bT) rfl
  obtain ⟨n1, n2, n3, n4⟩ := hcn
  have hWp : layerPointer bT.id 0 ∉ proW i outT bT := by
    simp only [proW, List.mem_cons, List.not_mem_nil, or_false, not_or]; and_intros <;> nm N
  have hWe : sparseEndName bT.id 0 ∉ proW i outT bT := by
    simp only [proW, List.mem_cons, List.not_mem_nil, or_false, not_or]; and_intros <;> nm N
  have hWv : valueFromCrd bT.id 0 ∉ proW i outT bT := by
    simp only [proW, List.mem_cons, List.not_mem_nil, or_false, not_or]; and_intros <;> nm N
  have hWw : writtenName outT.name 0 ∉ proW i outT bT := by
    simp only [proW, List.mem_cons, List.not_mem_nil, or_false, not_or]; and_intros <;> nm N
  have hWi : i ∉ proW i outT bT := by
    simp only [proW, List.mem_cons, List.not_mem_nil, or_false, not_or]; and_intros <;> nm N
  obtain ⟨oD, eD, rD, itD, curD, frD, hhD, htD⟩ := writeSparseInit_safe c fuel σC bpb 0
    ⟨entry.bpos, by simp [PrevIs, c, inLeaf], by omega, by omega,
      ⟨pblk, by rw [hCold _ hbpbl]; exact hpb, hplive, hpty, by simpa [c] using hpc0, by simpa [c] using hpc1⟩⟩
    (by rw [n3]; exact entry.bcrd) (Nat.zero_le _) (by show (m : Int) < 2147483648; omega)
    ⟨cblk0, by rw [hCold _ hbcbl]; exact hcb, hclive, hcty, hclen, fun j _ hj => hccells j hj⟩
    (fun j _ hj => hrng j hj)
    (by rw [n1]; intro r hr; rw [hfresh _ (by simp [nc_ptr]) hWp] at hr; cases hr)
    (by rw [n2]; intro r hr; rw [hfresh _ (by simp [nc_end]) hWe] at hr; cases hr)
  rw [n1, n2] at frD
  have runD : RunsLI fuel (writeSparseInit (inLeaf bT)).lines σC oD.st 0 := by
    refine ⟨oD, ?_, rD, rfl, itD⟩
    have : (writeSparseInit (F := F) c.leaf).finalize = .block (writeSparseInit (inLeaf bT)).lines none := rfl
    rw [this, exec.eq_5] at eD
    exact eD
  generalize oD.st = σD at *
  have hDold : ∀ j, j < σ0.heap.length → σD.heap[j]? = σ0.heap[j]? := by
    intro j hj; rw [hhD]; exact hCold j hj
  -- E: the loop
  have hlenD : σD.heap.length = σ0.heap.length + 3 := by rw [hhD, entry.heap]; simp
  have hkk : ((List.replicate k.toNat (none : Option (Val F))).length : Int) = k := by
    simp; omega
  have hcD : σD.heap[σ0.heap.length + 1]? =
      some (⟨.int, List.replicate k.toNat none, .output, true⟩ : Block F) := by
    rw [hhD, entry.heap]; simp
  have hvD : σD.heap[σ0.heap.length + 2]? =
      some (⟨.float, List.replicate k.toNat none, .output, true⟩ : Block F) := by
    rw [hhD, entry.heap]; simp
  have hP : PA i outT bT (σ0.heap.length + 1) (σ0.heap.length + 2) σD [] σD := by
    refine ⟨σ0.heap.length + 1, k, σ0.heap.length + 2, k, ?_⟩
    refine
      { tensors := rfl, len := Nat.le_refl _, old := fun _ _ _ _ h => h, vars := fun _ _ => rfl,
        crd := ⟨entry.acrd.congr (frD _ (by nm N) (by nm N)), entry.acrdCap.congr (frD _ (by nm N) (by nm N)),
          ⟨_, hcD, rfl, rfl, rfl, hkk⟩, hk0, hk1⟩,
        vals := ⟨entry.avals.congr (frD _ (by nm N) (by nm N)),
          entry.avalsCap.congr (frD _ (by nm N) (by nm N)),
          ⟨_, hvD, rfl, rfl, rfl, hkk⟩, hk0, hk1⟩,
        hcb := .inl rfl, hvb := .inl rfl, hne := by omega,
        ptr := entry.ptr.congr (frD _ (by nm N) (by nm N)),
        lec := by simp; omega, lev := by simp; omega,
        crdCells := ⟨_, hcD, fun j h => absurd h (by simp)⟩,
        flag := ?_ }
    intro r hr
    rw [frD _ (by nm N) (by nm N), hfresh _ (by simp [nc_wr]) hWw] at hr
    cases hr
  have hM : MergeInv σD [c] i := by
    refine ⟨fun d hd => ?_, fun d hd => ?_, ?_⟩
    · simp only [List.mem_cons, List.not_mem_nil, or_false] at hd; subst hd; exact curD
    · simp only [List.mem_cons, List.not_mem_nil, or_false] at hd; subst hd
      rw [n4]
      intro r hr
      rw [frD _ (by nm N) (by nm N), hfresh _ (by simp [nc_val]) hWv] at hr
      cases hr
    · intro r hr
      rw [frD _ (by nm N) (by nm N), entry.frame _ hWi, init.fresh _ N.ia N.ib] at hr
      cases hr
  obtain ⟨oE, eE, rE, itE, invE, ⟨cb, cc, vb, vc, hinv⟩⟩ := loop_runsA N ho hm bcb
    ⟨by omega, by omega, by omega⟩ fuel σD hfuel hM hP
  have runE : RunsI fuel (mergeLoopL [inLeaf bT] i [midStmtA i outT bT]) σD oE.st m :=
    ⟨oE, eE, rE, rfl, itE⟩
  generalize oE.st = σE at *
  have hlenm : ((List.map crdB (List.range m)).length : Int) = m := by simp
  -- facts in σE
  have hposE : σE.heap[σ0.heap.length]? = some ⟨.int, [some (.int 0), none], .output, true⟩ :=
    hinv.old _ _ (by omega) (by omega) (by rw [hhD, entry.heap]; simp)
  have hTa : outT.name ∉ touched i outT bT := by
    simp only [touched, midW, List.mem_cons, List.mem_append, List.not_mem_nil, or_false, not_or]
    and_intros <;> nm N
  have hTp : posName outT.name 0 ∉ touched i outT bT := by
    simp only [touched, midW, List.mem_cons, List.mem_append, List.not_mem_nil, or_false, not_or]
    and_intros <;> nm N
  have hTc : posCapName outT.name 0 ∉ touched i outT bT := by
    simp only [touched, midW, List.mem_cons, List.mem_append, List.not_mem_nil, or_false, not_or]
    and_intros <;> nm N
  have haposE : PtrVar σE (posName outT.name 0) σ0.heap.length :=
    entry.apos.congr (by rw [hinv.vars _ hTp, frD _ (by nm N) (by nm N)])
  have hacapE : IntVar σE (posCapName outT.name 0) 2 :=
    entry.aposCap.congr (by rw [hinv.vars _ hTc, frD _ (by nm N) (by nm N)])
  have hWa : outT.name ∉ proW i outT bT := by
    simp only [proW, List.mem_cons, List.not_mem_nil, or_false, not_or]; and_intros <;> nm N
  have havarE : TensorVar σE outT.name ta :=
    init.avar.congr (by rw [hinv.vars _ hTa, frD _ (by nm N) (by nm N), entry.frame _ hWa])
  have hptrE : IntVar σE (layerPointer outT.id 0) m := by
    have := hinv.ptr; rw [hlenm] at this; exact this
  -- F: pos assembly
  obtain ⟨oF, eF, rF, sF, _⟩ := writePosAssembly_safe (outLeaf outT) fuel σE σ0.heap.length 2 m 0
    ⟨.int, [some (.int 0), none], .output, true⟩
    ⟨haposE, hacapE, ⟨_, hposE, rfl, rfl, rfl, rfl⟩, by omega, by omega⟩ hposE
    (by simp [PrevIs, outLeaf]) (by omega) (by omega) hptrE (by omega) (by omega)
  have runF : RunsI fuel (writePosAssembly (outLeaf outT)).finalize σE oF.st 0 :=
    ⟨oF, eF, rF, rfl, exec_noLoop_iters fuel _ σE (noLoop_writePosAssembly _) oF eF⟩
  generalize oF.st = σF at *
  have hlE : σ0.heap.length < σE.heap.length := by have := hinv.len; omega
  refine ⟨σF, ?_, ?_⟩
  · have := RunsLI.append runD (RunsLI.cons runE (RunsLI.cons runF (RunsLI.nil _ _)))
    simpa [loopLinesA] using this
  · obtain ⟨cblk, hcblk, hclive', hcown', hcty', hclen'⟩ := hinv.crd.blk
    obtain ⟨vblk, hvblk, hvlive', hvown', hvty', hvlen'⟩ := hinv.vals.blk
    obtain ⟨cblk', hcblk', hccells'⟩ := hinv.crdCells
    rw [hcblk] at hcblk'; cases hcblk'
    have hcbH : σ0.heap.length < cb := by rcases hinv.hcb with h | h <;> omega
    have hvbH : σ0.heap.length < vb := by rcases hinv.hvb with h | h <;> omega
    have hlec := hinv.lec
    have hlev := hinv.lev
    rw [hlenm] at hlec hlev
    subst sF
    refine
      { tensors := by show σE.tensors = _; rw [hinv.tensors, htD, entry.tensors],
        old := ?_, pos := ?_, apos := haposE, avar := havarE, ptr := hptrE, arrs := ?_ }
    · intro j hj
      show (σE.heap.set _ _)[j]? = _
      rw [List.getElem?_set_ne (by omega)]
      cases hj' : σ0.heap[j]? with
      | none => rw [List.getElem?_eq_none_iff] at hj'; omega
      | some blk =>
        rw [← hj', hj']
        exact hinv.old j blk (by omega) (by omega) (by rw [hDold j hj]; exact hj')
    · show (σE.heap.set _ _)[_]? = _
      rw [List.getElem?_set_self hlE]
      rfl
    · refine ⟨cb, vb, cblk, vblk, hinv.crd.arr, hinv.vals.arr, hcbH, hvbH, hinv.hne, ?_, hclive', hcown', hcty',
        by omega, ?_, ?_, hvlive', hvown', hvty', by omega⟩
      · show (σE.heap.set _ _)[cb]? = _
        rw [List.getElem?_set_ne (by omega)]; exact hcblk
      · intro j hj
        have := hccells' j (by simpa using hj)
        simpa using this
      · show (σE.heap.set _ _)[vb]? = _
        rw [List.getElem?_set_ne (by omega)]; exact hvblk

/-- **Final state of a call of the assembling kernel** `σ → σ'` (output record `ta`, initially `atr`): the
record — still output-owned, same order and dimensions — has at level 0 the slot pair (`pos`, `crd`) = the base
addresses of two fresh live output `int` blocks holding EXACTLY `[0, m]` and the `m` coordinates
`crdB 0 … crdB (m-1)`, and `vals` = the base address of a fresh live output `float` block of exactly `m + 1`
cells (the size `evaluate` allocates; CONTENTS UNSPECIFIED: the kernel never stores into it); the three blocks
are different; every other record and every block of the initial heap (the inputs) is unchanged. -/
structure KernelPostA (ta : Nat) (atr : TensorRec F) (m : Nat) (crdB : Nat → Int) (σ σ' : State F) : Prop where
  outRec : ∃ tr' pF cF vF vblk, σ'.tensors[ta]? = some tr' ∧ tr'.owner = .output ∧ tr'.order = atr.order ∧
    tr'.dimsBlk = atr.dimsBlk ∧ tr'.slots = atr.slots.set 0 (some (.ptr pF 0, .ptr cF 0)) ∧
    tr'.vals = .ptr vF 0 ∧
    σ.heap.length ≤ pF ∧ σ.heap.length ≤ cF ∧ σ.heap.length ≤ vF ∧ pF ≠ cF ∧ pF ≠ vF ∧ cF ≠ vF ∧
    σ'.heap[pF]? = some ⟨.int, [some (.int 0), some (.int m)], .output, true⟩ ∧
    σ'.heap[cF]? = some ⟨.int, (List.range m).map (fun j => some (.int (crdB j))), .output, true⟩ ∧
    σ'.heap[vF]? = some vblk ∧ vblk.live = true ∧ vblk.owner = .output ∧ vblk.ty = .float ∧
    vblk.cells.length = m + 1
  otherRecs : ∀ k, k ≠ ta → σ'.tensors[k]? = σ.tensors[k]?
  tlen : σ'.tensors.length = σ.tensors.length
  heap : ∀ k, k < σ.heap.length → σ'.heap[k]? = σ.heap[k]?

set_option maxHeartbeats 1000000 in
/-- **the cleanup of the assembling kernel**: the final reallocs and the hand-over to the output record -/
theorem cleanup_runsA {i : String} {outT bT : TensorId}
    (N : KNames i outT bT)
    {ta tb : Nat} {atr btr : TensorRec F} {n : Int} {m bpb bcb bvb : Nat} {crdB : Nat → Int}
    {cellsB : Nat → F} {σ0 σF : State F}
    (init : Init outT bT ta tb atr btr n m bpb bcb bvb crdB cellsB σ0)
    (al : AfterLoopA outT ta m crdB σ0 σF) (hm : m ≤ 1073741824) (fuel : Nat) :
    ∃ σG, RunsLI fuel (cleanupLines outT) σF σG 0 ∧ KernelPostA ta atr m crdB σ0 σG := by
  obtain ⟨cb, vb, cblk, vblk, hcv, hvv, hcbH, hvbH, hcvne, hcblk, hclive, hcown, hcty, hclen, hccells,
    hvblk, hvlive, hvown, hvty, hvlen⟩ := al.arrs
  obtain ⟨ap, ac, hasl, _, _⟩ := init.aslot
  have hcbL : cb < σF.heap.length := lt_length_of_getElem? hcblk
  have hvbL : vb < σF.heap.length := lt_length_of_getElem? hvblk
  have hHL : σ0.heap.length < σF.heap.length := lt_length_of_getElem? al.pos
  have htaL : ta < σF.tensors.length := by rw [al.tensors]; exact lt_length_of_getElem? init.arec
  have hsl0 : 0 < atr.slots.length := lt_length_of_getElem? hasl
  have ept : evalE σF (.var (layerPointer outT.id 0)) = .ok (.int m) :=
    evalE_var_int al.ptr (by omega) (by omega)
  -- G1
  have r1 := Cleanup.runs_realloc (fuel := fuel) (ty := .int) (ety := .int) hcv ept (by omega) rfl hcblk hclive
    hcown hcty
  generalize hσ1 : Cleanup.reallocState σF (crdName outT.name 0) cb cblk .int m = σ1 at r1
  have hv1 : σ1.vars = setVar σF.vars (crdName outT.name 0) (.ptr σF.heap.length 0) := by rw [← hσ1]; rfl
  have hh1 : σ1.heap = σF.heap.set cb { cblk with live := false } ++
      [⟨.int, cblk.cells.take (m : Int).toNat ++ List.replicate ((m : Int).toNat - cblk.cells.length) none,
        .output, true⟩] := by rw [← hσ1]; rfl
  have ht1 : σ1.tensors = σF.tensors := by rw [← hσ1]; rfl
  have f1 : ∀ y, y ≠ crdName outT.name 0 → lookupVar σ1.vars y = lookupVar σF.vars y := by
    intro y hy; rw [hv1]; exact lookupVar_setVar_other _ hy
  have hcrd1 : PtrVar σ1 (crdName outT.name 0) σF.heap.length := by
    obtain ⟨r, t, e1, e2, _⟩ := hcv
    exact ⟨{ r with val := some (.ptr σF.heap.length 0) }, t,
      by rw [hv1]; exact lookupVar_setVar_same _ e1, e2, rfl⟩
  have hl1 : σ1.heap.length = σF.heap.length + 1 := by rw [hh1]; simp
  -- G2
  have r2 := Cleanup.runs_slot (fuel := fuel) (x := outT.name) (arr := posName outT.name 0) (ti := ta)
    (tr := atr) (l := 0) (s := (ap, ac)) (j := 0) (.inl rfl) (al.avar.congr (f1 _ (by nm N)))
    (by rw [ht1, al.tensors]; exact init.arec) init.aown init.aord (by omega) hasl
    (al.apos.congr (f1 _ (by nm N)))
  simp only [if_true] at r2
  generalize hσ2 : Cleanup.slotState σ1 ta atr 0 (.ptr σ0.heap.length 0, ac) = σ2 at r2
  have hv2 : σ2.vars = σ1.vars := by rw [← hσ2]; rfl
  have hh2 : σ2.heap = σ1.heap := by rw [← hσ2]; rfl
  have ht2 : σ2.tensors = σF.tensors.set ta
      { atr with slots := atr.slots.set 0 (some (.ptr σ0.heap.length 0, ac)) } := by
    rw [← hσ2, ← ht1]; rfl
  -- G3
  have r3 := Cleanup.runs_slot (fuel := fuel) (σ := σ2) (x := outT.name) (arr := crdName outT.name 0) (ti := ta)
    (tr := { atr with slots := atr.slots.set 0 (some (.ptr σ0.heap.length 0, ac)) }) (l := 0)
    (s := (.ptr σ0.heap.length 0, ac)) (j := 1) (p := σF.heap.length) (.inr rfl)
    (al.avar.congr (by rw [hv2, f1 _ (by nm N)]))
    (by rw [ht2, List.getElem?_set_self htaL]) init.aown init.aord (by omega)
    (by simp [hsl0]) (hcrd1.congr (by rw [hv2]))
  simp only [show ¬ ((1 : Int) = 0) by omega, if_false] at r3
  generalize hσ3 : Cleanup.slotState σ2 ta
    { atr with slots := atr.slots.set 0 (some (.ptr σ0.heap.length 0, ac)) } 0
    (.ptr σ0.heap.length 0, .ptr σF.heap.length 0) = σ3 at r3
  have hv3 : σ3.vars = σ1.vars := by rw [← hσ3, ← hv2]; rfl
  have hh3 : σ3.heap = σ1.heap := by rw [← hσ3, ← hh2]; rfl
  have ht3 : σ3.tensors = σF.tensors.set ta
      { atr with slots := atr.slots.set 0 (some (.ptr σ0.heap.length 0, .ptr σF.heap.length 0)) } := by
    rw [← hσ3]
    show σ2.tensors.set ta _ = _
    rw [ht2, List.set_set]
    simp
  -- G4
  have hvb3 : σ3.heap[vb]? = some vblk := by
    rw [hh3, hh1, List.getElem?_append_left (by simpa using hvbL), List.getElem?_set_ne (by omega)]
    exact hvblk
  have ept3 : evalE σ3 (plus (.var (layerPointer outT.id 0)) (.intLit 1)) = .ok (.int ((m : Int) + 1)) :=
    evalE_add (evalE_var_int (al.ptr.congr (by rw [hv3, f1 _ (by nm N)])) (by omega) (by omega))
      (evalE_intLit (by omega) (by omega)) (by omega) (by omega)
  have r4 := Cleanup.runs_realloc (fuel := fuel) (σ := σ3) (ty := .float) (ety := .float)
    (hvv.congr (by rw [hv3, f1 _ (by nm N)])) ept3 (by omega) rfl hvb3 hvlive hvown hvty
  generalize hσ4 : Cleanup.reallocState σ3 (valsName outT.name) vb vblk .float ((m : Int) + 1) = σ4 at r4
  have hv4 : σ4.vars = setVar σ3.vars (valsName outT.name) (.ptr σ3.heap.length 0) := by rw [← hσ4]; rfl
  have hh4 : σ4.heap = σ3.heap.set vb { vblk with live := false } ++
      [⟨.float, vblk.cells.take ((m : Int) + 1).toNat ++
        List.replicate (((m : Int) + 1).toNat - vblk.cells.length) none, .output, true⟩] := by
    rw [← hσ4]; rfl
  have ht4 : σ4.tensors = σ3.tensors := by rw [← hσ4]; rfl
  have hvals4 : PtrVar σ4 (valsName outT.name) (σF.heap.length + 1) := by
    obtain ⟨r, t, e1, e2, _⟩ := hvv
    refine ⟨{ r with val := some (.ptr (σF.heap.length + 1) 0) }, t, ?_, e2, rfl⟩
    rw [hv4, hh3, hl1]
    exact lookupVar_setVar_same _ (by rw [hv3, f1 _ (by nm N)]; exact e1)
  -- G5
  have r5 := Cleanup.runs_vals (fuel := fuel) (σ := σ4) (x := outT.name) (arr := valsName outT.name) (ti := ta)
    (tr := { atr with slots := atr.slots.set 0 (some (.ptr σ0.heap.length 0, .ptr σF.heap.length 0)) })
    (p := σF.heap.length + 1)
    (al.avar.congr (by rw [hv4, lookupVar_setVar_other _ (by nm N), hv3, f1 _ (by nm N)]))
    (by rw [ht4, ht3, List.getElem?_set_self htaL]) init.aown hvals4
  generalize hσ5 : Cleanup.valsState σ4 ta
    { atr with slots := atr.slots.set 0 (some (.ptr σ0.heap.length 0, .ptr σF.heap.length 0)) }
    (.ptr (σF.heap.length + 1) 0) = σ5 at r5
  have hh5 : σ5.heap = σ4.heap := by rw [← hσ5]; rfl
  have ht5 : σ5.tensors = σ4.tensors.set ta
      { atr with slots := atr.slots.set 0 (some (.ptr σ0.heap.length 0, .ptr σF.heap.length 0)),
                 vals := .ptr (σF.heap.length + 1) 0 } := by rw [← hσ5]; rfl
  refine ⟨σ5, RunsLI.cons (RunsI.of_assign r1) (RunsLI.cons (RunsI.of_assign r2) (RunsLI.cons (RunsI.of_assign r3)
    (RunsLI.cons (RunsI.of_assign r4) (RunsLI.cons (RunsI.of_assign r5) (RunsLI.nil _ _))))), ?_⟩
  -- the final heap
  have hfin : ∀ k blk, k < σF.heap.length → k ≠ cb → k ≠ vb → σF.heap[k]? = some blk →
      σ5.heap[k]? = some blk := by
    intro k blk hk h1 h2 hkb
    rw [hh5, hh4, List.getElem?_append_left (by rw [List.length_set, hh3, hl1]; omega),
      List.getElem?_set_ne (Ne.symm h2), hh3, hh1, List.getElem?_append_left (by simpa using hk),
      List.getElem?_set_ne (Ne.symm h1)]
    exact hkb
  have hm' : (m : Int).toNat = m := by omega
  have hm1 : ((m : Int) + 1).toNat = m + 1 := by omega
  have hcF : σ5.heap[σF.heap.length]? = some
      ⟨.int, (List.range m).map (fun j => some (.int (crdB j))), .output, true⟩ := by
    rw [hh5, hh4, List.getElem?_append_left (by rw [List.length_set, hh3, hl1]; omega),
      List.getElem?_set_ne (by omega), hh3, hh1]
    have : (σF.heap.set cb { cblk with live := false }).length = σF.heap.length := by simp
    rw [List.getElem?_append_right (by omega), this]
    simp only [Nat.sub_self, List.getElem?_cons_zero, Option.some.injEq, Block.mk.injEq, and_true, true_and]
    apply List.ext_getElem?
    intro j
    rw [hm', show m - cblk.cells.length = 0 by omega]
    simp only [List.replicate_zero, List.append_nil]
    by_cases hj : j < m
    · rw [List.getElem?_take_of_lt hj, hccells j hj]; simp [hj]
    · rw [List.getElem?_eq_none (by simp; omega), List.getElem?_eq_none (by simp; omega)]
  have hvF : ∃ vblk', σ5.heap[σF.heap.length + 1]? = some vblk' ∧ vblk'.live = true ∧ vblk'.owner = .output ∧
      vblk'.ty = .float ∧ vblk'.cells.length = m + 1 := by
    refine ⟨⟨.float, vblk.cells.take ((m : Int) + 1).toNat ++
        List.replicate (((m : Int) + 1).toNat - vblk.cells.length) none, .output, true⟩, ?_, rfl, rfl, rfl, ?_⟩
    · rw [hh5, hh4]
      have : (σ3.heap.set vb { vblk with live := false }).length = σF.heap.length + 1 := by
        rw [List.length_set, hh3, hl1]
      rw [List.getElem?_append_right (by omega), this]
      simp
    · simp only [List.length_append, List.length_take, List.length_replicate, hm1]
      omega
  obtain ⟨vblk', hv1', hv2', hv3', hv4', hv5'⟩ := hvF
  refine
    { outRec := ⟨{ atr with
          slots := atr.slots.set 0 (some (.ptr σ0.heap.length 0, .ptr σF.heap.length 0)),
          vals := .ptr (σF.heap.length + 1) 0 }, σ0.heap.length, σF.heap.length, σF.heap.length + 1, vblk', ?_,
        init.aown, rfl, rfl, rfl, rfl,
        Nat.le_refl _, by omega, by omega, by omega, by omega, by omega, ?_, hcF, hv1', hv2', hv3', hv4', hv5'⟩,
      otherRecs := ?_, tlen := ?_, heap := ?_ }
  · rw [ht5, List.getElem?_set_self (by rw [ht4, ht3]; simpa using htaL)]
  · exact hfin _ _ hHL (by omega) (by omega) al.pos
  · intro k hk
    rw [ht5, List.getElem?_set_ne (Ne.symm hk), ht4, ht3, List.getElem?_set_ne (Ne.symm hk), al.tensors]
  · rw [ht5, List.length_set, ht4, ht3, List.length_set, al.tensors]
  · intro k hk
    cases hk' : σ0.heap[k]? with
    | none => rw [List.getElem?_eq_none_iff] at hk'; omega
    | some blk =>
      exact hfin k blk (by omega) (by omega) (by omega) (by rw [al.old k hk]; exact hk')

/-- **the whole `assemble` function on the machine** -/
theorem kernel_runsA (cap : Option Int) (formats : Formats) (i : String) (outT bT : TensorId)
    (ho : isSp i outT = true) (ok : KernelOK formats i outT bT)
    (hk0 : 1 ≤ capVal cap) (hk1 : capVal cap < 2147483648)
    {ta tb : Nat} {atr btr : TensorRec F} {n : Int} {m bpb bcb bvb : Nat} {crdB : Nat → Int}
    {cellsB : Nat → F} {σ : State F}
    (init : Init outT bT ta tb atr btr n m bpb bcb bvb crdB cellsB σ)
    (hm : m ≤ 1073741824)
    (hrng : ∀ j, j < m → -2147483648 ≤ crdB j ∧ crdB j < 2147483648)
    (fuel : Nat) (hfuel : m + 1 ≤ fuel) :
    ∃ o, exec fuel (kernelA (F := F) cap formats i outT bT).body σ = .ok o ∧ o.ret = some (.int 0) ∧
      o.iters = m ∧ KernelPostA ta atr m crdB σ o.st := by
  have N := ok.names
  obtain ⟨σC, rC, entry⟩ := prologue_runs N cap hk0 hk1 init fuel
  obtain ⟨σF, rF, al⟩ := iterBlock_runsA N ho hk0 hk1 init entry hm hrng fuel hfuel
  obtain ⟨σG, rG, post⟩ := cleanup_runsA N init al hm fuel
  have hunp : (formats.flatMap fun f => unpackStmts (F := F) f.1) =
      unpackStmts outT.name ++ unpackStmts bT.name := by
    have : (formats.flatMap fun f => unpackStmts (F := F) f.1) =
        (formats.map (·.1)).flatMap unpackStmts := by
      rw [List.flatMap_map]
    rw [this, ok.fmt]
    simp
  have rAll : RunsLI fuel (kernelStmtsA (F := F) cap formats i outT bT) σ σG (0 + (m + (0 + 0))) := by
    unfold kernelStmtsA
    rw [hunp]
    have h3 := RunsLI.append rC (RunsLI.cons (RunsI.block
      (c := some ("*** Iteration over " ++ i ++ " ***")) rF)
      (RunsLI.cons (RunsI.block (c := some ("Assembling output tensor " ++ outT.name)) rG) (RunsLI.nil _ _)))
    simpa using h3
  obtain ⟨o, eo, hret, hst, hit⟩ := execL_ret (e := .intLit 0) (v := .int 0) rAll
    (evalE_intLit (by omega) (by omega))
  refine ⟨o, ?_, hret, by rw [hit]; omega, by rw [hst]; exact post⟩
  show exec fuel (.block (kernelStmtsA cap formats i outT bT ++ [.ret (.intLit 0)]) none) σ = _
  rw [exec.eq_5]
  exact eo

end TV.AsmCmp
