import TensoraVerif.Lemmas.AsmCmpModel
import TensoraVerif.Lemmas.Sparse1Loop

/-!
C04 for the sparse vector copy/scale kernels, part 4: the loop of the COMPUTING kernel on the machine. No
array grows: the heap keeps its length, the only block written is the output's `vals` block `vb` (cell
`|tr|` at each step), the only variables written are `written_a_0`, `p_a_0` and the skeleton's own.
-/
namespace TV.AsmCmp
open TV.IR TV.Gen TV.Graph TV.Growth TV.Merge TV.Sparse1
set_option linter.unusedSectionVars false
variable {F : Type} [FloatOps F]

/-- the names written by the statement between the `min` and the cursor increments (compute) -/
def midWC (outT : TensorId) : List String := [writtenName outT.name 0, layerPointer outT.id 0]

/-- the names written by the loop of the computing kernel -/
def touchedC (i : String) (outT bT : TensorId) : List String :=
  midWC outT ++ [i, layerPointer bT.id 0, valueFromCrd bT.id 0]

/-- **what the computing loop needs of the state `σ0` at loop entry**: `b_vals` points to the live float block
`bvb` whose first `m` cells hold `cellsB`; `a_vals` points to a DIFFERENT live, output-owned float block `vb`
with at least `m` cells; at every stored position every sub-result of `e` is finite; `bAt x` is the value `b`
stores at coordinate `x`; `m < 2^31`. -/
structure LoopPreC (ofRat : Rat → F) (outT bT : TensorId) (e : IdExpr) (m bvb : Nat) (cellsB : Nat → F)
    (crdB : Nat → Int) (bAt : Int → F) (vb : Nat) (σ0 : State F) : Prop where
  bvals : PtrVar σ0 (valsName bT.name) bvb
  bblk : ∃ blk, σ0.heap[bvb]? = some blk ∧ blk.live = true ∧ blk.ty = .float ∧
    ∀ j, j < m → blk.cells[j]? = some (some (.flt (cellsB j)))
  avals : PtrVar σ0 (valsName outT.name) vb
  ablk : ∃ blk, σ0.heap[vb]? = some blk ∧ blk.live = true ∧ blk.owner = .output ∧ blk.ty = .float ∧
    m ≤ blk.cells.length
  bne : bvb ≠ vb
  fin : ∀ q, q < m → ToIr.AllFinite ofRat (fun _ => cellsB q) e
  bAt : ∀ q, q < m → bAt (crdB q) = cellsB q
  small : m < 2147483648

/-- **The loop invariant of the computing kernel** after the coordinates `tr` have been visited (relative to
the state `σ0` at loop entry): tensor records unchanged; the heap has the SAME LENGTH (no allocation) and
every block other than `vb` is unchanged; the variables not written by the loop are unchanged; the output
cursor is `|tr|`; block `vb` has the same type, owner, liveness and length as at entry, its cells `j < |tr|`
hold `⟦e⟧(b at coordinate tr[j])` and its cells `j ≥ |tr|` are as at entry; the `written` flag is undeclared
or `bool`. -/
structure InvC (ofRat : Rat → F) (i : String) (outT bT : TensorId) (e : IdExpr) (bAt : Int → F)
    (vb : Nat) (σ0 : State F) (tr : List Int) (σ : State F) : Prop where
  tensors : σ.tensors = σ0.tensors
  len : σ.heap.length = σ0.heap.length
  old : ∀ k, k ≠ vb → σ.heap[k]? = σ0.heap[k]?
  vars : ∀ y, y ∉ touchedC i outT bT → lookupVar σ.vars y = lookupVar σ0.vars y
  ptr : IntVar σ (layerPointer outT.id 0) tr.length
  cells : ∃ blk0 blk, σ0.heap[vb]? = some blk0 ∧ σ.heap[vb]? = some blk ∧ blk.ty = blk0.ty ∧
    blk.owner = blk0.owner ∧ blk.live = blk0.live ∧ blk.cells.length = blk0.cells.length ∧
    (∀ j (h : j < tr.length),
      blk.cells[j]? = some (some (.flt (ToIr.valueF ofRat (fun _ => bAt tr[j]) e)))) ∧
    (∀ j, tr.length ≤ j → blk.cells[j]? = blk0.cells[j]?)
  flag : ∀ r, lookupVar σ.vars (writtenName outT.name 0) = some r → r.ty = .bool

theorem noLoop_midStmtC (ofRat : Rat → F) (i : String) (outT bT : TensorId) (e : IdExpr) :
    noLoopL [midStmtC ofRat i outT bT e] = true := by
  simp [noLoopL, noLoop, midStmtC, branchBodyC, termBlock, termBlockLines, declAssignE, increment]

section step
variable {ofRat : Rat → F} {i : String} {outT bT : TensorId} {e : IdExpr} {m bvb : Nat}
  {cellsB : Nat → F} {crdB : Nat → Int} {bAt : Int → F} {vb : Nat} {σ0 : State F}

/-- **The loop body step of the computing kernel.** From a state satisfying the invariant after the history
`tr` (`|tr| < m`), in which the input cursor holds `q < m` and `i_b`, `i` hold `crdB q`: the statement between
the `min` and the increments runs without error and re-establishes the invariant for `tr ++ [crdB q]`; it
writes only the variables `midWC` and, of the heap, only block `vb` (same length). -/
theorem mid_stepC (N : KNames i outT bT) (ho : isSp i outT = true) (he : isExpr i bT e = true)
    (pre : LoopPreC ofRat outT bT e m bvb cellsB crdB bAt vb σ0)
    (fuel : Nat) (σ : State F) (tr : List Int) (q : Nat)
    (hq : q < m) (htr : tr.length < m)
    (hinv : InvC ofRat i outT bT e bAt vb σ0 tr σ)
    (hpB : IntVar σ (layerPointer bT.id 0) q)
    (hvB : IntVar σ (valueFromCrd bT.id 0) (crdB q)) (hi : IntVar σ i (crdB q))
    (hr0 : -2147483648 ≤ crdB q) (hr1 : crdB q < 2147483648) :
    ∃ σ', RunsL fuel [midStmtC ofRat i outT bT e] σ σ' ∧
      InvC ofRat i outT bT e bAt vb σ0 (tr ++ [crdB q]) σ' ∧
      (∀ y, y ∉ midWC outT → lookupVar σ'.vars y = lookupVar σ.vars y) ∧
      (∀ k, k ≠ vb → σ'.heap[k]? = σ.heap[k]?) := by
  obtain ⟨ho1, ho2⟩ := (isSp_iff i outT).1 ho
  obtain ⟨hl, ⟨hb1, hb2⟩, _⟩ := (isExpr_iff i bT e).1 he
  have hsmall := pre.small
  have hne0 : e ≠ .int 0 := by
    intro h; rw [h] at hl; simp [ToIr.leaves] at hl
  have holen : outT.indexes.length = 1 := by rw [ho1]; rfl
  have hblen : bT.indexes.length = 1 := by rw [hb1]; rfl
  obtain ⟨p, hp⟩ : ∃ p : Int, p = tr.length := ⟨_, rfl⟩
  have hp0 : 0 ≤ p := by omega
  have hpm : p < m := by omega
  have hptr : IntVar σ (layerPointer outT.id 0) p := by rw [hp]; exact hinv.ptr
  have hnotT : ∀ y, y ≠ writtenName outT.name 0 → y ≠ layerPointer outT.id 0 → y ≠ i →
      y ≠ layerPointer bT.id 0 → y ≠ valueFromCrd bT.id 0 → y ∉ touchedC i outT bT := by
    intro y h1 h2 h3 h4 h5
    simp only [touchedC, midWC, List.mem_cons, List.mem_append, List.not_mem_nil, or_false, not_or]
    exact ⟨⟨h1, h2⟩, h3, h4, h5⟩
  -- 1. bool written = false
  obtain ⟨σ2, r2, hh2, ht2, ⟨rw2, hrw1, hrw2, _⟩, f2⟩ := Dense1.runsI_declAssign (fuel := fuel)
    (x := writtenName outT.name 0) (t := .bool) (e := (.boolLit false : Expr F)) (σ := σ)
    (val := .bool false) (val' := .bool false) hinv.flag (by simp [evalE]) rfl
  have run2 : Runs fuel (declAssignE (writtenName outT.name 0) .bool (.boolLit false)) σ σ2 := by
    obtain ⟨o, e, r, s, _⟩ := r2; exact ⟨o, e, r, s⟩
  -- 2. the terminal block
  have hbv2 : PtrVar σ2 (valsName bT.name) bvb := pre.bvals.congr (by
    rw [f2 _ (by nm N), hinv.vars _ (hnotT _ (by nm N) (by nm N) (by nm N) (by nm N) (by nm N))])
  have hav2 : PtrVar σ2 (valsName outT.name) vb := pre.avals.congr (by
    rw [f2 _ (by nm N), hinv.vars _ (hnotT _ (by nm N) (by nm N) (by nm N) (by nm N) (by nm N))])
  have hpB2 : IntVar σ2 (layerPointer bT.id 0) q := hpB.congr (f2 _ (by nm N))
  have hpA2 : IntVar σ2 (layerPointer outT.id 0) p := hptr.congr (f2 _ (by nm N))
  obtain ⟨bblk, hbblk, hblive, hbty, hbcells⟩ := pre.bblk
  have hbσ : σ.heap[bvb]? = some bblk := by rw [hinv.old bvb pre.bne]; exact hbblk
  have hbh2 : σ2.heap[bvb]? = some bblk := by rw [hh2]; exact hbσ
  have hleaf : ∀ t ∈ ToIr.leaves e, ToIr.LeafOK σ2 (fun _ => cellsB q) t := by
    intro t ht
    rw [hl] at ht
    simp only [List.mem_cons, List.not_mem_nil, or_false] at ht
    subst ht
    refine ToIr.LeafOK.intro (p := q) hbv2 ?_ (by omega) (by omega)
      ⟨bblk, hbh2, hblive, hbty, by omega, by simpa using hbcells q hq⟩
    simp only [ToIr.CursorIs, hblen]
    exact hpB2
  obtain ⟨ablk0, hab0, halive0, haown0, haty0, halen0⟩ := pre.ablk
  obtain ⟨blk0, vblk, hblk0, hvblk, hvty, hvown, hvlive, hvlen, hvdone, hvrest⟩ := hinv.cells
  rw [hab0] at hblk0; cases hblk0
  have hcell : ToIr.OutCell σ2 vb (0 + p) :=
    ⟨vblk, by rw [hh2]; exact hvblk, by rw [hvlive]; exact halive0, by rw [hvown]; exact haown0,
      by rw [hvty]; exact haty0, by omega, by omega⟩
  obtain ⟨tb, o3, htb, e3, r3, _, hheap3, ht3, _, hflag3, _, f3⟩ :=
    ToIr.terminal_append_sound ofRat (fun _ => cellsB q) σ2 e outT .compute rfl 0 fuel vb 0 p hleaf
      (pre.fin q hq)
      (ToIr.PtrAt.of_ptrVar hav2)
      (by
        rw [holen]
        exact evalE_var_int hpA2 (by omega) (by omega))
      hcell
      (by
        intro f hf
        rw [ToIr.activeFlags_ne _ hne0, holen, writtenFlags_eq outT ho2] at hf
        simp only [List.mem_cons, List.not_mem_nil, or_false] at hf
        subst hf
        exact ⟨rw2, hrw1, hrw2⟩)
  rw [holen, lower_terminal_eqC ofRat 0 outT e ho2 holen hne0] at htb
  cases htb
  rw [holen, writtenFlags_eq outT ho2] at hflag3 f3
  have run3 : Runs fuel (termBlock ofRat outT e) σ2 o3.st := ⟨o3, e3, r3, rfl⟩
  have hcp := ToIr.writeCell_post hcell (.flt (ToIr.valueF ofRat (fun _ => cellsB q) e))
  have hlen3 : o3.st.heap.length = σ2.heap.length := by rw [hheap3]; exact hcp.len
  have hother3 : ∀ b', b' ≠ vb → o3.st.heap[b']? = σ2.heap[b']? := by
    intro b' hb'; rw [hheap3]; exact hcp.other b' hb'
  obtain ⟨vblk2, vblk3, hvblk2, hvblk3, hv3ty, hv3own, hv3live, hv3len, hv3cell, hv3cells⟩ := hcp.blk
  rw [← hheap3] at hvblk3
  rw [hh2, hvblk] at hvblk2
  cases hvblk2
  have hfl3 : ToIr.FlagTrue o3.st (writtenName outT.name 0) := hflag3 hne0 _ (by simp)
  have f3' : ∀ y, y ≠ writtenName outT.name 0 → lookupVar o3.st.vars y = lookupVar σ2.vars y := by
    intro y hy; exact f3 y (by simpa using hy)
  -- 3. p_a++
  have hpA3 : IntVar o3.st (layerPointer outT.id 0) p := hpA2.congr (f3' _ (by nm N))
  have run5 := Runs.assign_int (fuel := fuel) hpA3
    (evalE_add (evalE_var_int hpA3 (by omega) (by omega))
      (evalE_intLit (σ := o3.st) (v := 1) (by omega) (by omega)) (by omega) (by omega))
  generalize hσ5 : ({ o3.st with vars := setVar o3.st.vars (layerPointer outT.id 0) (.int (p + 1)) } : State F)
    = σ5 at run5
  have f5 : ∀ y, y ≠ layerPointer outT.id 0 → lookupVar σ5.vars y = lookupVar o3.st.vars y := by
    intro y hy; rw [← hσ5]; exact lookupVar_setVar_other _ hy
  have hh5 : σ5.heap = o3.st.heap := by rw [← hσ5]
  have ht5 : σ5.tensors = o3.st.tensors := by rw [← hσ5]
  have hpA5 : IntVar σ5 (layerPointer outT.id 0) (p + 1) := by
    obtain ⟨r, e1, e2, _⟩ := hpA3
    rw [← hσ5]
    exact ⟨_, lookupVar_setVar_same _ e1, e2, rfl⟩
  -- the run
  have econd : evalE σ (.bin .and (.boolLit true)
      (.bin .eq (.var (valueFromCrd bT.id 0)) (.var i))) = .ok (.bool true) := by
    have := evalE_and (σ := σ) (l := .boolLit true) (a := true) (by simp [evalE])
      (evalE_eqInt (evalE_var_int hvB hr0 hr1) (evalE_var_int hi hr0 hr1))
    simpa using this
  have hrun : RunsL fuel [midStmtC ofRat i outT bT e] σ σ5 :=
    RunsL.cons (Runs.branch_true econd (Runs.block (RunsL.cons run2 (RunsL.cons run3
      (RunsL.cons (Runs.branch_true (evalE_var_flag hfl3)
        (Runs.block (RunsL.cons run5 (RunsL.nil _ _)))) (RunsL.nil _ _))))))
      (RunsL.nil _ _)
  -- frames
  have fvars : ∀ y, y ∉ midWC outT → lookupVar σ5.vars y = lookupVar σ.vars y := by
    intro y hy
    simp only [midWC, List.mem_cons, List.not_mem_nil, or_false, not_or] at hy
    obtain ⟨y1, y2⟩ := hy
    rw [f5 y y2, f3' y y1, f2 y y1]
  have fheap : ∀ k, k ≠ vb → σ5.heap[k]? = σ.heap[k]? := by
    intro k hk
    rw [hh5, hother3 k hk, hh2]
  have hv5 : σ5.heap[vb]? = some vblk3 := by rw [hh5]; exact hvblk3
  refine ⟨σ5, hrun, ?_, fvars, fheap⟩
  have hlenapp : ((tr ++ [crdB q]).length : Int) = p + 1 := by
    simp only [List.length_append, List.length_cons, List.length_nil]; omega
  have hlenNat : tr.length = p.toNat := by omega
  have hp0' : (0 + p).toNat = tr.length := by omega
  refine
    { tensors := ?_, len := ?_, old := ?_, vars := ?_, ptr := ?_, cells := ?_, flag := ?_ }
  · rw [ht5, ht3, ht2, hinv.tensors]
  · rw [hh5, hlen3, hh2, hinv.len]
  · intro k hk
    rw [fheap k hk, hinv.old k hk]
  · intro y hy
    rw [fvars y (by
      intro hm; apply hy; simp only [touchedC, List.mem_append]; exact .inl hm), hinv.vars y hy]
  · rw [hlenapp]; exact hpA5
  · refine ⟨ablk0, vblk3, hab0, hv5, by rw [hv3ty, hvty], by rw [hv3own, hvown], by rw [hv3live, hvlive],
      by rw [hv3len, hvlen], ?_, ?_⟩
    · intro j hj
      simp only [List.length_append, List.length_cons, List.length_nil] at hj
      by_cases hjp : j < tr.length
      · rw [List.getElem_append_left hjp, hv3cells j (by omega)]
        exact hvdone j hjp
      · have hje : j = tr.length := by omega
        subst hje
        rw [List.getElem_append_right (Nat.le_refl _)]
        simp only [Nat.sub_self, List.getElem_cons_zero]
        rw [pre.bAt q hq, ← hp0']
        exact hv3cell
    · intro j hj
      simp only [List.length_append, List.length_cons, List.length_nil] at hj
      rw [hv3cells j (by omega)]
      exact hvrest j (by omega)
  · intro r hr
    obtain ⟨r', e1, e2, _⟩ := hfl3
    rw [f5 _ (by nm N), e1] at hr
    cases hr; exact e2

end step

/-! ### the whole loop -/

/-- the ghost predicate of the computing loop -/
def PC (ofRat : Rat → F) (i : String) (outT bT : TensorId) (e : IdExpr) (bAt : Int → F)
    (vb : Nat) (σ0 : State F) (tr : List Int) (σ : State F) : Prop :=
  InvC ofRat i outT bT e bAt vb σ0 tr σ

section
variable {ofRat : Rat → F} {i : String} {outT bT : TensorId} {e : IdExpr} {m bvb : Nat}
  {cellsB : Nat → F} {crdB : Nat → Int} {bAt : Int → F} {vb : Nat} {σ0 : State F}

theorem ghostStableC (N : KNames i outT bT) {c0 : Cur} (hc0 : c0.leaf = inLeaf bT) :
    GhostStable (PC ofRat i outT bT e bAt vb σ0) [c0] i := by
  obtain ⟨n1, n2, n3, n4⟩ := cur_names hc0
  intro tr σ σ' h hh ht hv
  have hv' : ∀ y, y ≠ i → y ≠ layerPointer bT.id 0 → y ≠ valueFromCrd bT.id 0 →
      lookupVar σ'.vars y = lookupVar σ.vars y := by
    intro y h1 h2 h3
    apply hv
    simp only [writtenNames, List.map_cons, List.map_nil, List.mem_cons, List.mem_append, List.not_mem_nil,
      or_false, n1, n4, not_or]
    exact ⟨h1, h2, h3⟩
  refine
    { tensors := by rw [ht]; exact h.tensors, len := by rw [hh]; exact h.len,
      old := by rw [hh]; exact h.old, vars := ?_, ptr := ?_,
      cells := by rw [hh]; exact h.cells, flag := ?_ }
  · intro y hy
    have hy' := hy
    simp only [touchedC, midWC, List.mem_cons, List.mem_append, List.not_mem_nil, or_false, not_or] at hy'
    rw [hv' y hy'.2.1 hy'.2.2.1 hy'.2.2.2, h.vars y hy]
  · exact h.ptr.congr (hv' _ (by nm N) (by nm N) (by nm N))
  · rw [hv' _ (by nm N) (by nm N) (by nm N)]; exact h.flag

theorem midOKC (N : KNames i outT bT) (ho : isSp i outT = true) (he : isExpr i bT e = true)
    (pre : LoopPreC ofRat outT bT e m bvb cellsB crdB bAt vb σ0)
    (c0 : Cur) (hc0 : c0.leaf = inLeaf bT) (hcrd : c0.crd = crdB) (hce : c0.e = m)
    (hblk : c0.blk ≠ vb) :
    MidOK 0 0 m (PC ofRat i outT bT e bAt vb σ0) [c0] i [midStmtC ofRat i outT bT e] := by
  intro fuel σ cs tr _ hreach hroom hact hinvM hval hidx hinv
  obtain ⟨c, rfl, hc, hcb, hcc, hcee, _⟩ := reach_single hreach
  obtain ⟨n1, n2, n3, n4⟩ := cur_names (hc.trans hc0)
  have hcm : c ∈ [c] := List.mem_cons_self
  have hactc : c.p < c.e := hact c hcm
  have hq : c.p < m := by rw [← hce, ← hcee]; exact hactc
  have hmeas : curMeasure [c] = c.e - c.p := by simp [curMeasure]
  have htr : tr.length < m := by rw [hmeas] at hroom; omega
  have hcur := hinvM.cur c hcm
  have hhere : c.here = crdB c.p := by rw [← hcrd, ← hcc]; rfl
  obtain ⟨r0, r1⟩ := hcur.rng c.p (Nat.le_refl _) hactc
  rw [hcc, hcrd] at r0 r1
  obtain ⟨σ', ⟨o, eo, ro, so⟩, hinv', fvars, fheap⟩ := mid_stepC N ho he pre fuel σ tr
    c.p hq htr hinv (by rw [← n1]; exact hcur.ptrv)
    (by rw [← n4, ← hhere]; exact hval c hcm)
    (by rw [← hhere]; exact hidx) r0 r1
  subst so
  refine ⟨o, eo, ro, ?_, ?_, ?_, ?_⟩
  · rw [execL_noLoop_iters fuel _ σ (noLoop_midStmtC ofRat i outT bT e) o eo]; exact Nat.le_refl _
  · intro x hx
    apply fvars
    simp only [curNames, List.map_cons, List.map_nil, List.mem_cons, List.mem_append, List.not_mem_nil,
      or_false, n1, n2, n3, n4] at hx
    simp only [midWC, List.mem_cons, List.not_mem_nil, or_false, not_or]
    rcases hx with rfl | ((rfl | rfl) | rfl) | rfl <;> (and_intros <;> nm N)
  · intro d hd
    simp only [List.mem_cons, List.not_mem_nil, or_false] at hd
    subst hd
    exact fheap d.blk (by rw [hcb]; exact hblk)
  · show PC ofRat i outT bT e bAt vb σ0 (tr ++ [curMin [c]]) o.st
    rw [curMin_single, hhere]
    exact hinv'

/-- **The whole loop of the computing kernel**: exactly `m` iterations, invariant for the full history. -/
theorem loop_runsC (N : KNames i outT bT) (ho : isSp i outT = true) (he : isExpr i bT e = true)
    (pre : LoopPreC ofRat outT bT e m bvb cellsB crdB bAt vb σ0)
    (bcb : Nat) (hblk : bcb ≠ vb)
    (fuel : Nat) (σ : State F) (hfuel : m + 1 ≤ fuel)
    (hM : MergeInv σ [⟨inLeaf bT, bcb, crdB, 0, m⟩] i)
    (hP : InvC ofRat i outT bT e bAt vb σ0 [] σ) :
    ∃ o, exec fuel (mergeLoopL [inLeaf bT] i [midStmtC ofRat i outT bT e]) σ = .ok o ∧ o.ret = none ∧
      o.iters = m ∧ MergeInv o.st [⟨inLeaf bT, bcb, crdB, m, m⟩] i ∧
      InvC ofRat i outT bT e bAt vb σ0 ((List.range m).map crdB) o.st := by
  let c0 : Cur := ⟨inLeaf bT, bcb, crdB, 0, m⟩
  have hnames : NamesOK [c0] i := merge_names_generated [c0] i N.iu (by simp)
  have hmeas : curMeasure [c0] = m := by simp [curMeasure, c0]
  obtain ⟨o, eo, ro, inv, _, _, _, lo, hi, hp⟩ := merge_loop_safe_ghost (B := 0) (K := 0)
    (P := PC ofRat i outT bT e bAt vb σ0) [c0] i [midStmtC ofRat i outT bT e] fuel σ []
    (by simp) hnames hM hP (ghostStableC N rfl)
    (by rw [hmeas]; simpa using midOKC N ho he pre c0 rfl rfl rfl hblk)
    (by rw [hmeas]; omega)
  have hle : c0.p ≤ c0.e := Nat.zero_le _
  rw [mergeFinal_single c0 hle] at inv
  rw [mergeTrace_single_length c0 hle] at lo hi
  rw [mergeTrace_single c0 hle] at hp
  have hr : List.range' c0.p (c0.e - c0.p) = List.range m := by
    simp [c0, List.range_eq_range']
  rw [hr] at hp
  refine ⟨o, eo, ro, ?_, inv, by simpa [PC] using hp⟩
  simp only [c0, Nat.sub_zero] at lo hi
  omega

end

end TV.AsmCmp
