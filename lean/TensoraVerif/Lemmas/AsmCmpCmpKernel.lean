import TensoraVerif.Lemmas.AsmCmpCmpBody
import TensoraVerif.Lemmas.Sparse1Kernel

/-!
C04 for the sparse vector copy/scale kernels, part 5: the whole COMPUTING kernel on the machine, from any
state `InitC` (the state of a kernel call in which the output record already owns a `vals` block of at least
`m` cells) to `KernelPostC` (no allocation, tensor records untouched, only the first `m` cells of that block
written).
-/
namespace TV.AsmCmp
open TV.IR TV.Gen TV.Graph TV.Growth TV.Merge TV.Dense1 TV.Sparse1
set_option linter.unusedSectionVars false
variable {F : Type} [FloatOps F]

/-- **Initial machine state of a call of the computing kernel**: a kernel-call state (`Sparse1.Init`: the
variables are exactly the two tensor parameters, the output record is output-owned with a slot pair of
pointers at level 0, the input `b` has `m` stored entries `crdB`/`cellsB`) in which moreover the output
record's `vals` is the base address of a live, output-owned `float` block `vF` with AT LEAST `m` cells, which
is none of the three blocks of the input. Nothing is asked of the `pos`/`crd` blocks the output's slots point
to (the kernel never dereferences them), nor of the contents of `vF`. -/
structure InitC (outT bT : TensorId) (ta tb : Nat) (atr btr : TensorRec F) (n : Int) (m bpb bcb bvb : Nat)
    (crdB : Nat → Int) (cellsB : Nat → F) (vF : Nat) (σ : State F) : Prop where
  base : Init outT bT ta tb atr btr n m bpb bcb bvb crdB cellsB σ
  avalsPtr : atr.vals = .ptr vF 0
  vblk : ∃ blk, σ.heap[vF]? = some blk ∧ blk.live = true ∧ blk.owner = .output ∧ blk.ty = .float ∧
    m ≤ blk.cells.length
  vne : vF ≠ bpb ∧ vF ≠ bcb ∧ vF ≠ bvb

/-- **The state at the entry of the iteration block of the computing kernel**: heap and tensor records are
those of the initial state; the array variables point to the blocks of the records; the output cursor is 0. -/
structure EntryC (i : String) (outT bT : TensorId) (bpb bcb bvb vF : Nat) (σ σC : State F) : Prop where
  heap : σC.heap = σ.heap
  tensors : σC.tensors = σ.tensors
  frame : ∀ y, y ∉ proW i outT bT → lookupVar σC.vars y = lookupVar σ.vars y
  bpos : PtrVar σC (posName bT.name 0) bpb
  bcrd : PtrVar σC (crdName bT.name 0) bcb
  bvals : PtrVar σC (valsName bT.name) bvb
  avals : PtrVar σC (valsName outT.name) vF
  ptr : IntVar σC (layerPointer outT.id 0) 0

set_option maxHeartbeats 1000000 in
/-- **The prologue of the computing kernel.** -/
theorem prologue_runsC {i : String} {outT bT : TensorId} (N : KNames i outT bT)
    {ta tb : Nat} {atr btr : TensorRec F} {n : Int} {m bpb bcb bvb : Nat} {crdB : Nat → Int}
    {cellsB : Nat → F} {vF : Nat} {σ : State F}
    (initC : InitC outT bT ta tb atr btr n m bpb bcb bvb crdB cellsB vF σ) (fuel : Nat) :
    ∃ σC, RunsLI fuel
        [.block [declAssignE (dimName i) .int (.idx (.attr (.var outT.name) "dimensions") (.intLit 0))]
          (some "Extract dimensions"),
         .block (unpackStmts outT.name ++ unpackStmts bT.name) (some "Unpack tensors"),
         .block (outInitC outT) (some "Output initialization")] σ σC 0 ∧
      EntryC i outT bT bpb bcb bvb vF σ σC := by
  have init := initC.base
  have hfr : ∀ x, nameClass x ≠ 0 → lookupVar σ.vars x = none := by
    intro x hx
    refine init.fresh x ?_ ?_
    · intro h; rw [h, N.a0] at hx; exact hx rfl
    · intro h; rw [h, N.b0] at hx; exact hx rfl
  obtain ⟨dblk, hdb, hdlive, hdty, hdc⟩ := init.adim
  obtain ⟨ap, ac, hasl, hap, hac⟩ := init.aslot
  -- A
  obtain ⟨σA, rA, hhA, htA, _, oA⟩ := declFresh (fuel := fuel) (x := dimName i) (t := .int) (val' := .int n)
    (hfr _ (by simp [nc_dim])) (evalE_dim0 init.avar init.arec hdb hdlive hdty hdc init.n32.1 init.n32.2) rfl
  -- B, output
  obtain ⟨σB1, rB1, hhB1, htB1, vB1p, vB1c, vB1v, oB1⟩ := unpack1_runs (fuel := fuel) (σ := σA) N.au
    (init.avar.congr (oA _ (by nm N))) (by rw [htA]; exact init.arec) init.aord hasl hap hac init.avals
    (by rw [oA _ (by nm N)]; exact hfr _ (by simp [nc_pos]))
    (by rw [oA _ (by nm N)]; exact hfr _ (by simp [nc_crd]))
    (by rw [oA _ (by nm N)]; exact hfr _ (by simp [nc_vals]))
  -- B, input
  obtain ⟨σB, rB2, hhB2, htB2, vBp, vBc, vBv, oB2⟩ := unpack1_runs (fuel := fuel) (σ := σB1) N.bu
    (init.bvar.congr (by rw [oB1 _ (by nm N) (by nm N) (by nm N), oA _ (by nm N)]))
    (by rw [htB1, htA]; exact init.brec) init.bord init.bslot rfl rfl (by rw [init.bvals]; rfl)
    (by rw [oB1 _ (by nm N) (by nm N) (by nm N), oA _ (by nm N)]; exact hfr _ (by simp [nc_pos]))
    (by rw [oB1 _ (by nm N) (by nm N) (by nm N), oA _ (by nm N)]; exact hfr _ (by simp [nc_crd]))
    (by rw [oB1 _ (by nm N) (by nm N) (by nm N), oA _ (by nm N)]; exact hfr _ (by simp [nc_vals]))
  have hhB : σB.heap = σ.heap := by rw [hhB2, hhB1, hhA]
  have htB : σB.tensors = σ.tensors := by rw [htB2, htB1, htA]
  have oB : ∀ y, y ≠ dimName i → y ≠ posName outT.name 0 → y ≠ crdName outT.name 0 →
      y ≠ valsName outT.name → y ≠ posName bT.name 0 → y ≠ crdName bT.name 0 → y ≠ valsName bT.name →
      lookupVar σB.vars y = lookupVar σ.vars y := by
    intro y h1 h2 h3 h4 h5 h6 h7
    rw [oB2 y h5 h6 h7, oB1 y h2 h3 h4, oA y h1]
  -- C: int p_a = 0
  obtain ⟨σC, rC, hhC, htC, vC, oC⟩ := declFresh (fuel := fuel) (x := layerPointer outT.id 0)
    (t := .int) (σ := σB) (val' := .int 0)
    (by
      rw [oB _ (by nm N) (by nm N) (by nm N) (by nm N) (by nm N) (by nm N) (by nm N)]
      exact hfr _ (by simp [nc_ptr]))
    (evalE_intLit (by omega) (by omega)) rfl
  have vC' : IntVar σC (layerPointer outT.id 0) 0 := vC
  refine ⟨σC, ?_, ?_⟩
  · exact RunsLI.cons (RunsI.block (RunsLI.cons rA (RunsLI.nil _ _)))
      (RunsLI.cons (RunsI.block (RunsLI.append rB1 rB2))
        (RunsLI.cons (RunsI.block (RunsLI.cons rC (RunsLI.nil _ _))) (RunsLI.nil _ _)))
  · refine
      { heap := by rw [hhC, hhB], tensors := by rw [htC, htB], frame := ?_, bpos := ?_, bcrd := ?_,
        bvals := ?_, avals := ?_, ptr := vC' }
    · intro y hy
      simp only [proW, List.mem_cons, List.not_mem_nil, or_false, not_or] at hy
      obtain ⟨y1, y2, y3, y4, y5, y6, y7, y8, y9, y10, y11⟩ := hy
      rw [oC y y10, oB y y1 y2 y3 y4 y5 y6 y7]
    · exact (ptrVar_of vBp).congr (oC _ (by nm N))
    · exact (ptrVar_of vBc).congr (oC _ (by nm N))
    · refine (ptrVar_of (t := .float) ?_).congr (oC _ (by nm N))
      obtain ⟨r, e1, e2, e3⟩ := vBv
      exact ⟨r, e1, e2, by rw [e3, init.bvals]⟩
    · refine (ptrVar_of (t := .float) ?_).congr
        ((oC _ (by nm N)).trans (oB2 _ (by nm N) (by nm N) (by nm N)))
      obtain ⟨r, e1, e2, e3⟩ := vB1v
      exact ⟨r, e1, e2, by rw [e3, initC.avalsPtr]⟩

/-- **Final state of a call of the computing kernel** `σ → σ'`: ALL tensor records are unchanged (in particular
the output's slots and `vals` keep the same block ids); the heap has the same length (NO allocation); every
block other than `vF` is unchanged (in particular the output's `pos` and `crd` blocks and all inputs); block
`vF` keeps its type, owner, liveness and length, its cells `j < m` hold the float meaning of `e` at the `j`-th
stored entry of `b`, and its cells `j ≥ m` are unchanged. -/
structure KernelPostC (ofRat : Rat → F) (e : IdExpr) (m : Nat) (cellsB : Nat → F) (vF : Nat)
    (σ σ' : State F) : Prop where
  tensors : σ'.tensors = σ.tensors
  len : σ'.heap.length = σ.heap.length
  other : ∀ k, k ≠ vF → σ'.heap[k]? = σ.heap[k]?
  vals : ∃ blk0 blk, σ.heap[vF]? = some blk0 ∧ σ'.heap[vF]? = some blk ∧ blk.ty = blk0.ty ∧
    blk.owner = blk0.owner ∧ blk.live = blk0.live ∧ blk.cells.length = blk0.cells.length ∧
    (∀ j, j < m → blk.cells[j]? = some (some (.flt (ToIr.valueF ofRat (fun _ => cellsB j) e)))) ∧
    (∀ j, m ≤ j → blk.cells[j]? = blk0.cells[j]?)

set_option maxHeartbeats 1000000 in
/-- **the iteration block of the computing kernel** -/
theorem iterBlock_runsC {ofRat : Rat → F} {i : String} {outT bT : TensorId} {e : IdExpr}
    (N : KNames i outT bT) (ho : isSp i outT = true) (he : isExpr i bT e = true)
    {ta tb : Nat} {atr btr : TensorRec F} {n : Int} {m bpb bcb bvb : Nat} {crdB : Nat → Int}
    {cellsB : Nat → F} {vF : Nat} {σ0 σC : State F}
    (initC : InitC outT bT ta tb atr btr n m bpb bcb bvb crdB cellsB vF σ0)
    (entry : EntryC i outT bT bpb bcb bvb vF σ0 σC)
    (hm : m < 2147483648)
    (hsorted : ∀ j k, j < k → k < m → crdB j < crdB k)
    (hrng : ∀ j, j < m → -2147483648 ≤ crdB j ∧ crdB j < 2147483648)
    (hfin : ∀ q, q < m → ToIr.AllFinite ofRat (fun _ => cellsB q) e)
    (fuel : Nat) (hfuel : m + 1 ≤ fuel) :
    ∃ σF, RunsLI fuel (loopLinesC ofRat i outT bT e) σC σF m ∧
      KernelPostC ofRat e m cellsB vF σ0 σF := by
  have init := initC.base
  obtain ⟨ho1, ho2⟩ := (isSp_iff i outT).1 ho
  have hfresh : ∀ x, nameClass x ≠ 0 → x ∉ proW i outT bT → lookupVar σC.vars x = none := by
    intro x hx hw
    rw [entry.frame x hw]
    refine init.fresh x ?_ ?_
    · intro h; rw [h, N.a0] at hx; exact hx rfl
    · intro h; rw [h, N.b0] at hx; exact hx rfl
  obtain ⟨pblk, hpb, hplive, hpty, hpc0, hpc1⟩ := init.bpos
  obtain ⟨cblk0, hcb, hclive, hcty, hclen, hccells⟩ := init.bcrd
  obtain ⟨vblk0, hvb, hvlive, hvty, hvcells⟩ := init.bval
  obtain ⟨ablk, hab, halive, haown, haty, halen⟩ := initC.vblk
  -- D: sparse init
  let c : Cur := ⟨inLeaf bT, bcb, crdB, 0, m⟩
  have hcn := cur_names (c := c) (bT := bT) rfl
  obtain ⟨n1, n2, n3, n4⟩ := hcn
  have hWp : layerPointer bT.id 0 ∉ proW i outT bT := by
    simp only [proW, List.mem_cons, List.not_mem_nil, or_false, not_or]; and_intros <;> nm N
  have hWe : sparseEndName bT.id 0 ∉ proW i outT bT := by
    simp only [proW, List.mem_cons, List.not_mem_nil, or_false, not_or]; and_intros <;> nm N
  have hWv : valueFromCrd bT.id 0 ∉ proW i outT bT := by
    simp only [proW, List.mem_cons, List.not_mem_nil, or_false, not_or]; and_intros <;> nm N
  have hWw : writtenName outT.name 0 ∉ proW i outT bT := by
    simp only [proW, List.mem_cons, List.not_mem_nil, or_false, not_or]; and_intros <;> nm N
  have hWi : i ∉ proW i outT bT := by
    simp only [proW, List.mem_cons, List.not_mem_nil, or_false, not_or]; and_intros <;> nm N
  obtain ⟨oD, eD, rD, itD, curD, frD, hhD, htD⟩ := writeSparseInit_safe c fuel σC bpb 0
    ⟨entry.bpos, by simp [PrevIs, c, inLeaf], by omega, by omega,
      ⟨pblk, by rw [entry.heap]; exact hpb, hplive, hpty, by simpa [c] using hpc0, by simpa [c] using hpc1⟩⟩
    (by rw [n3]; exact entry.bcrd) (Nat.zero_le _) (by show (m : Int) < 2147483648; omega)
    ⟨cblk0, by rw [entry.heap]; exact hcb, hclive, hcty, hclen, fun j _ hj => hccells j hj⟩
    (fun j _ hj => hrng j hj)
    (by rw [n1]; intro r hr; rw [hfresh _ (by simp [nc_ptr]) hWp] at hr; cases hr)
    (by rw [n2]; intro r hr; rw [hfresh _ (by simp [nc_end]) hWe] at hr; cases hr)
  rw [n1, n2] at frD
  have runD : RunsLI fuel (writeSparseInit (inLeaf bT)).lines σC oD.st 0 := by
    refine ⟨oD, ?_, rD, rfl, itD⟩
    have : (writeSparseInit (F := F) c.leaf).finalize = .block (writeSparseInit (inLeaf bT)).lines none := rfl
    rw [this, exec.eq_5] at eD
    exact eD
  generalize oD.st = σD at *
  have hDheap : σD.heap = σ0.heap := by rw [hhD, entry.heap]
  -- E: the loop
  have pre : LoopPreC ofRat outT bT e m bvb cellsB crdB (bAtOf m crdB cellsB) vF σD :=
    { bvals := entry.bvals.congr (frD _ (by nm N) (by nm N))
      bblk := ⟨vblk0, by rw [hDheap]; exact hvb, hvlive, hvty, hvcells⟩
      avals := entry.avals.congr (frD _ (by nm N) (by nm N))
      ablk := ⟨ablk, by rw [hDheap]; exact hab, halive, haown, haty, halen⟩
      bne := Ne.symm initC.vne.2.2
      fin := hfin
      bAt := bAtOf_crd cellsB hsorted
      small := hm }
  have hP : InvC ofRat i outT bT e (bAtOf m crdB cellsB) vF σD [] σD := by
    refine
      { tensors := rfl, len := rfl, old := fun _ _ => rfl, vars := fun _ _ => rfl,
        ptr := entry.ptr.congr (frD _ (by nm N) (by nm N)),
        cells := ⟨ablk, ablk, by rw [hDheap]; exact hab, by rw [hDheap]; exact hab, rfl, rfl, rfl, rfl,
          fun j h => absurd h (by simp), fun _ _ => rfl⟩,
        flag := ?_ }
    intro r hr
    rw [frD _ (by nm N) (by nm N), hfresh _ (by simp [nc_wr]) hWw] at hr
    cases hr
  have hM : MergeInv σD [c] i := by
    refine ⟨fun d hd => ?_, fun d hd => ?_, ?_⟩
    · simp only [List.mem_cons, List.not_mem_nil, or_false] at hd; subst hd; exact curD
    · simp only [List.mem_cons, List.not_mem_nil, or_false] at hd; subst hd
      rw [n4]
      intro r hr
      rw [frD _ (by nm N) (by nm N), hfresh _ (by simp [nc_val]) hWv] at hr
      cases hr
    · intro r hr
      rw [frD _ (by nm N) (by nm N), entry.frame _ hWi, init.fresh _ N.ia N.ib] at hr
      cases hr
  obtain ⟨oE, eE, rE, itE, invE, hinv⟩ := loop_runsC N ho he pre bcb (Ne.symm initC.vne.2.1) fuel σD hfuel hM hP
  have runE : RunsI fuel (mergeLoopL [inLeaf bT] i [midStmtC ofRat i outT bT e]) σD oE.st m :=
    ⟨oE, eE, rE, rfl, itE⟩
  generalize oE.st = σE at *
  refine ⟨σE, ?_, ?_⟩
  · have := RunsLI.append runD (RunsLI.cons runE (RunsLI.nil _ _))
    simpa [loopLinesC] using this
  · obtain ⟨blk0, blk, hblk0, hblk, h1, h2, h3, h4, h5, h6⟩ := hinv.cells
    refine
      { tensors := by rw [hinv.tensors, htD, entry.tensors],
        len := by rw [hinv.len, hDheap],
        other := fun k hk => by rw [hinv.old k hk, hDheap],
        vals := ⟨blk0, blk, by rw [← hDheap]; exact hblk0, hblk, h1, h2, h3, h4, ?_, ?_⟩ }
    · intro j hj
      have := h5 j (by simpa using hj)
      simp only [List.getElem_map, List.getElem_range] at this
      rw [this, bAtOf_crd cellsB hsorted j hj]
    · intro j hj
      exact h6 j (by simpa using hj)

/-- **the whole `compute` function on the machine** -/
theorem kernel_runsC (ofRat : Rat → F) (formats : Formats) (i : String) (outT bT : TensorId)
    (e : IdExpr) (ho : isSp i outT = true) (he : isExpr i bT e = true) (ok : KernelOK formats i outT bT)
    {ta tb : Nat} {atr btr : TensorRec F} {n : Int} {m bpb bcb bvb : Nat} {crdB : Nat → Int}
    {cellsB : Nat → F} {vF : Nat} {σ : State F}
    (initC : InitC outT bT ta tb atr btr n m bpb bcb bvb crdB cellsB vF σ)
    (hm : m < 2147483648)
    (hsorted : ∀ j k, j < k → k < m → crdB j < crdB k)
    (hrng : ∀ j, j < m → -2147483648 ≤ crdB j ∧ crdB j < 2147483648)
    (hfin : ∀ q, q < m → ToIr.AllFinite ofRat (fun _ => cellsB q) e)
    (fuel : Nat) (hfuel : m + 1 ≤ fuel) :
    ∃ o, exec fuel (kernelC ofRat formats i outT bT e).body σ = .ok o ∧ o.ret = some (.int 0) ∧
      o.iters = m ∧ KernelPostC ofRat e m cellsB vF σ o.st := by
  have N := ok.names
  obtain ⟨σC, rC, entry⟩ := prologue_runsC N initC fuel
  obtain ⟨σF, rF, post⟩ := iterBlock_runsC N ho he initC entry hm hsorted hrng hfin fuel hfuel
  have hunp : (formats.flatMap fun f => unpackStmts (F := F) f.1) =
      unpackStmts outT.name ++ unpackStmts bT.name := by
    have : (formats.flatMap fun f => unpackStmts (F := F) f.1) =
        (formats.map (·.1)).flatMap unpackStmts := by
      rw [List.flatMap_map]
    rw [this, ok.fmt]
    simp
  have rAll : RunsLI fuel (kernelStmtsC ofRat formats i outT bT e) σ σF (0 + (m + (0 + 0))) := by
    unfold kernelStmtsC
    rw [hunp]
    have h3 := RunsLI.append rC (RunsLI.cons (RunsI.block
      (c := some ("*** Iteration over " ++ i ++ " ***")) rF)
      (RunsLI.cons (RunsI.block (c := some ("Assembling output tensor " ++ outT.name)) (RunsLI.nil fuel σF))
        (RunsLI.nil _ _)))
    simpa using h3
  obtain ⟨o, eo, hret, hst, hit⟩ := execL_ret (e := .intLit 0) (v := .int 0) rAll
    (evalE_intLit (by omega) (by omega))
  refine ⟨o, ?_, hret, by rw [hit]; omega, by rw [hst]; exact post⟩
  show exec fuel (.block (kernelStmtsC ofRat formats i outT bT e ++ [.ret (.intLit 0)]) none) σ = _
  rw [exec.eq_5]
  exact eo

end TV.AsmCmp
