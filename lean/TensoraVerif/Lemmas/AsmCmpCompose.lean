import TensoraVerif.Lemmas.AsmCmpAsmKernel
import TensoraVerif.Lemmas.AsmCmpCmpKernel

/-!
C04 for the sparse vector copy/scale kernels, part 6: composing kernel calls. `nextCall σ σ'` is the state in
which the NEXT kernel call starts after a call `σ → σ'`: the parameter environment of the first call, the
memory (heap, tensor records) as the first call left it. `initC_after_assemble`: the state after the assembling
kernel is a valid initial state of the computing kernel; `InitC.transport`: `InitC` only depends on the
parameter variables, the tensor records, the blocks of the input and the output's `vals` block, so it survives
a call of the computing kernel and a change of the input VALUES.
-/
namespace TV.AsmCmp
open TV.IR TV.Gen TV.Graph TV.Growth TV.Merge TV.Dense1 TV.Sparse1
set_option linter.unusedSectionVars false
variable {F : Type} [FloatOps F]

/-- the state in which the next kernel call starts: the variables are again exactly the parameters of the
call `σ`, heap and tensor records are those the previous call left in `σ'` -/
def nextCall (σ σ' : State F) : State F := ⟨σ.vars, σ'.heap, σ'.tensors⟩

/-- **After `assemble`, `compute` may be called.** If `σ` is a kernel-call state (`Init`) with different
records for output and input and the assembling kernel took it to `σ'` (`KernelPostA`), then the next call
state satisfies `InitC` for the new output record `tr'`, whose slots/`vals` are the fresh blocks `pF`, `cF`,
`vF` described by `KernelPostA`. -/
theorem initC_after_assemble {outT bT : TensorId} {ta tb : Nat} {atr btr : TensorRec F} {n : Int}
    {m bpb bcb bvb : Nat} {crdB : Nat → Int} {cellsB : Nat → F} {σ σ' : State F}
    (init : Init outT bT ta tb atr btr n m bpb bcb bvb crdB cellsB σ) (hab : ta ≠ tb)
    (post : KernelPostA ta atr m crdB σ σ') :
    ∃ tr' pF cF vF vblk, σ'.tensors[ta]? = some tr' ∧ tr'.owner = .output ∧ tr'.order = atr.order ∧
      tr'.dimsBlk = atr.dimsBlk ∧ tr'.slots = atr.slots.set 0 (some (.ptr pF 0, .ptr cF 0)) ∧
      tr'.vals = .ptr vF 0 ∧
      σ.heap.length ≤ pF ∧ σ.heap.length ≤ cF ∧ σ.heap.length ≤ vF ∧ pF ≠ cF ∧ pF ≠ vF ∧ cF ≠ vF ∧
      σ'.heap[pF]? = some ⟨.int, [some (.int 0), some (.int m)], .output, true⟩ ∧
      σ'.heap[cF]? = some ⟨.int, (List.range m).map (fun j => some (.int (crdB j))), .output, true⟩ ∧
      σ'.heap[vF]? = some vblk ∧ vblk.live = true ∧ vblk.owner = .output ∧ vblk.ty = .float ∧
      vblk.cells.length = m + 1 ∧
      InitC outT bT ta tb tr' btr n m bpb bcb bvb crdB cellsB vF (nextCall σ σ') := by
  obtain ⟨tr', pF, cF, vF, vblk, h1, h2, h3, h4, h5, h6, h7, h8, h9, h10, h11, h12, h13, h14, h15, h16, h17,
    h18, h19⟩ := post.outRec
  refine ⟨tr', pF, cF, vF, vblk, h1, h2, h3, h4, h5, h6, h7, h8, h9, h10, h11, h12, h13, h14, h15, h16, h17,
    h18, h19, ?_⟩
  obtain ⟨ap, ac, hasl, _, _⟩ := init.aslot
  have hsl0 : 0 < atr.slots.length := lt_length_of_getElem? hasl
  obtain ⟨dblk, hdb, hd⟩ := init.adim
  obtain ⟨pblk, hpb, hp⟩ := init.bpos
  obtain ⟨cblk, hcb, hc⟩ := init.bcrd
  obtain ⟨bblk, hvb, hv⟩ := init.bval
  have old : ∀ {k : Nat} {blk : Block F}, σ.heap[k]? = some blk → σ'.heap[k]? = some blk := by
    intro k blk hk
    rw [post.heap k (lt_length_of_getElem? hk)]; exact hk
  have hbpbl : bpb < σ.heap.length := lt_length_of_getElem? hpb
  have hbcbl : bcb < σ.heap.length := lt_length_of_getElem? hcb
  have hbvbl : bvb < σ.heap.length := lt_length_of_getElem? hvb
  refine
    { base :=
        { avar := init.avar, bvar := init.bvar, fresh := init.fresh, arec := h1, aown := h2,
          aord := by rw [h3]; exact init.aord,
          aslot := ⟨.ptr pF 0, .ptr cF 0, by rw [h5]; simp [hsl0], rfl, rfl⟩,
          avals := by rw [h6]; rfl,
          adim := ⟨dblk, by rw [h4]; exact old hdb, hd⟩,
          n32 := init.n32,
          brec := by
            show σ'.tensors[tb]? = _
            rw [post.otherRecs tb (Ne.symm hab)]; exact init.brec,
          bord := init.bord, bslot := init.bslot, bvals := init.bvals,
          bpos := ⟨pblk, old hpb, hp⟩, bcrd := ⟨cblk, old hcb, hc⟩, bval := ⟨bblk, old hvb, hv⟩ },
      avalsPtr := h6,
      vblk := ⟨vblk, h15, h16, h17, h18, by omega⟩,
      vne := ⟨by omega, by omega, by omega⟩ }

/-- **`InitC` is stable under every change of state that keeps** the parameter variables, the tensor records,
the output's dimensions block, the input's `pos` and `crd` blocks, and that leaves in `bvb` SOME live float
block whose first `m` cells are the (possibly new) values `cellsB'` and in `vF` some live output float block
of at least `m` cells. -/
theorem InitC.transport {outT bT : TensorId} {ta tb : Nat} {atr btr : TensorRec F} {n : Int}
    {m bpb bcb bvb : Nat} {crdB : Nat → Int} {cellsB cellsB' : Nat → F} {vF : Nat} {σ σ2 : State F}
    (h : InitC outT bT ta tb atr btr n m bpb bcb bvb crdB cellsB vF σ)
    (hvars : σ2.vars = σ.vars) (htens : σ2.tensors = σ.tensors)
    (hdims : σ2.heap[atr.dimsBlk]? = σ.heap[atr.dimsBlk]?)
    (hpos : σ2.heap[bpb]? = σ.heap[bpb]?) (hcrd : σ2.heap[bcb]? = σ.heap[bcb]?)
    (hval : ∃ blk, σ2.heap[bvb]? = some blk ∧ blk.live = true ∧ blk.ty = .float ∧
      ∀ j, j < m → blk.cells[j]? = some (some (.flt (cellsB' j))))
    (hout : ∃ blk, σ2.heap[vF]? = some blk ∧ blk.live = true ∧ blk.owner = .output ∧ blk.ty = .float ∧
      m ≤ blk.cells.length) :
    InitC outT bT ta tb atr btr n m bpb bcb bvb crdB cellsB' vF σ2 := by
  have init := h.base
  exact
    { base :=
        { avar := by unfold TensorVar; rw [hvars]; exact init.avar,
          bvar := by unfold TensorVar; rw [hvars]; exact init.bvar,
          fresh := by rw [hvars]; exact init.fresh,
          arec := by rw [htens]; exact init.arec, aown := init.aown, aord := init.aord, aslot := init.aslot,
          avals := init.avals, adim := by rw [hdims]; exact init.adim, n32 := init.n32,
          brec := by rw [htens]; exact init.brec, bord := init.bord, bslot := init.bslot,
          bvals := init.bvals, bpos := by rw [hpos]; exact init.bpos, bcrd := by rw [hcrd]; exact init.bcrd,
          bval := hval },
      avalsPtr := h.avalsPtr, vblk := hout, vne := h.vne }

/-- the output's dimensions block and the input's `pos`/`crd` blocks are `int` blocks, hence none of them is
the (float) `vals` block of the output or of the input -/
theorem InitC.int_blocks_ne {outT bT : TensorId} {ta tb : Nat} {atr btr : TensorRec F} {n : Int}
    {m bpb bcb bvb : Nat} {crdB : Nat → Int} {cellsB : Nat → F} {vF : Nat} {σ : State F}
    (h : InitC outT bT ta tb atr btr n m bpb bcb bvb crdB cellsB vF σ) :
    atr.dimsBlk ≠ vF ∧ atr.dimsBlk ≠ bvb ∧ bpb ≠ bvb ∧ bcb ≠ bvb := by
  obtain ⟨dblk, hdb, _, hdty, _⟩ := h.base.adim
  obtain ⟨pblk, hpb, _, hpty, _⟩ := h.base.bpos
  obtain ⟨cblk, hcb, _, hcty, _⟩ := h.base.bcrd
  obtain ⟨bblk, hvb, _, hvty, _⟩ := h.base.bval
  obtain ⟨ablk, hab, _, _, haty, _⟩ := h.vblk
  refine ⟨?_, ?_, ?_, ?_⟩
  · intro e; rw [e, hab] at hdb; cases hdb; rw [haty] at hdty; cases hdty
  · intro e; rw [e, hvb] at hdb; cases hdb; rw [hvty] at hdty; cases hdty
  · intro e; rw [e, hvb] at hpb; cases hpb; rw [hvty] at hpty; cases hpty
  · intro e; rw [e, hvb] at hcb; cases hcb; rw [hvty] at hcty; cases hcty

end TV.AsmCmp
