import TensoraVerif.Lemmas.DenseNGenerate

/-!
C04 for dense element-wise kernels of every order, part 1: what `lower` / `generateIr` emit for the kinds
`.assemble` and `.compute` on the class `DenseN`.

* `.assemble`: an all-dense output has no structure to assemble; `lower` returns at the first node
  (`!k.isCompute && !out.hasSparseLayer`) with an EMPTY commented block (`asmSB`), the kernel only allocates
  `vals` (`kernelA`);
* `.compute`: `lower` emits exactly the nest `DenseN.nestSB` of `evaluate` (`lowerC_eq`), "Output
  initialization" and "Assembling output tensor" are EMPTY blocks (`kernelC`).
-/
namespace TV.AsmCmpDense
open TV.IR TV.Gen TV.Graph TV.Growth TV.DenseN
open TV.Dense1 (leaves)
set_option linter.unusedSectionVars false
variable {F : Type}

/-! ### `lower … .assemble` : no loops -/

/-- the (empty) builder `lower … .assemble` returns for the graph of the class -/
def asmSB : List String → SB F
  | [] => ⟨some "*** Computation of expression ***", []⟩
  | i :: _ => ⟨some ("*** Iteration over " ++ i ++ " ***"), []⟩

theorem writtenFlags_dense (outT : TensorId) (n : Nat) (hm : outT.modes.all (· == Mode.dense) = true) :
    (Output.append outT n).writtenFlags = [] := by
  simp only [Output.writtenFlags, Output.tensor]
  rw [List.filterMap_eq_nil_iff]
  intro k _
  simp [getElem?_getD_dense hm]

theorem hasSparseLayer_dense (outT : TensorId) (n : Nat) (hm : outT.modes.all (· == Mode.dense) = true) :
    (Output.append outT n).hasSparseLayer = false := by
  simp only [Output.hasSparseLayer, Output.tensor]
  rw [Bool.eq_false_iff]
  intro h
  obtain ⟨m, hm1, hm2⟩ := List.any_eq_true.1 h
  have := List.all_eq_true.1 hm m hm1
  simp only [beq_iff_eq] at this hm2
  rw [this] at hm2
  cases hm2

/-- **`lower … .assemble` emits no loop**: for the graph of the class, any depth, the result is an empty
commented block. -/
theorem lowerA_eq (ofRat : Rat → F) (k : Nat) (is : List String) (outT : TensorId) (e : IdExpr)
    (ho : isLeaf is outT = true) :
    lower ofRat (k + 1) (graph is outT e) (.append outT 0) .assemble = .ok (asmSB is) := by
  obtain ⟨_, hom⟩ := (isLeaf_iff is outT).1 ho
  cases is with
  | nil =>
    simp only [graph, nest]
    unfold lower
    simp [Kind.isCompute, writtenFlags_dense outT 0 hom, SB.mk', asmSB, pure, Except.pure]
  | cons i rest =>
    simp only [graph, nest]
    unfold lower
    simp [Kind.isCompute, hasSparseLayer_dense outT 0 hom, SB.mk', asmSB, pure, Except.pure]

/-! ### `lower … .compute` : the nest of `evaluate` -/

theorem lowerC_terminal_eq (ofRat : Rat → F) (n : Nat) (outT : TensorId) (e : IdExpr)
    (hm : outT.modes.all (· == Mode.dense) = true) :
    lower ofRat (n + 1) (.terminal e) (.append outT outT.indexes.length) .compute =
      .ok ⟨some "*** Computation of expression ***", [storeStmt ofRat outT e]⟩ := by
  unfold lower
  simp [Kind.isCompute, writtenFlags_dense outT _ hm, Output.writeAssignment, SB.mk', SB.append, SB.add,
    SB.empty, storeStmt, bind, Except.bind, pure, Except.pure]

/-- `lower … .compute`, generalised over the level: the sub-nest is `nestSB`, as for `.evaluate`. -/
theorem lowerC_nest_eq (ofRat : Rat → F) (outT : TensorId) (e : IdExpr) (full : List String)
    (ho : isLeaf full outT = true) (he : isExpr full e = true) (hnd : full.Nodup) :
    ∀ (rest pre : List String) (k : Nat), full = pre ++ rest →
      lower ofRat (rest.length + 1 + k) (nest outT e pre.length rest) (.append outT pre.length) .compute =
        .ok (nestSB ofRat outT e pre.length rest) := by
  obtain ⟨hoi, hom⟩ := (isLeaf_iff full outT).1 ho
  intro rest
  induction rest with
  | nil =>
    intro pre k hfull
    have hl : pre.length = outT.indexes.length := by rw [hoi, hfull]; simp
    rw [hl]
    simp only [nest, nestSB, List.length_nil, Nat.zero_add]
    rw [Nat.add_comm 1 k]
    exact lowerC_terminal_eq ofRat k outT e hom
  | cons i rest ih =>
    intro pre k hfull
    have hnd0 := hnd
    rw [hfull] at hnd0
    have hipre : i ∉ pre := fun h => (List.nodup_append.1 hnd0).2.2 i h i (by simp) rfl
    have hctx := extractContext_eq pre i rest e (hfull ▸ he) hipre
    have hIH := ih (pre ++ [i]) k (by rw [hfull]; simp)
    rw [List.length_append, List.length_singleton] at hIH
    simp only [nest, nestSB]
    generalize hnx : nest outT e (pre.length + 1) rest = nx at hIH
    have hnc : nodeContext (IGraph.iter i (some { tensor := outT, layer := pre.length }) nx) =
        extractContext e i := by
      simp [nodeContext, ← hnx, nest_context]
    have hcd : compressedDims (IGraph.iter i (some { tensor := outT, layer := pre.length }) nx) = [] := by
      simp [compressedDims, hnc, hctx.1, dedupStr]
    have hsub := generateSubgraphs_eq _ hcd
    have hlater : (IGraph.iter i (some { tensor := outT, layer := pre.length }) nx).laterIndexes = i :: rest := by
      simp [IGraph.laterIndexes, ← hnx, nest_laterIndexes]
    have hmode : ({ tensor := outT, layer := pre.length } : Leaf).mode = Mode.dense := by
      simp [Leaf.mode, getElem?_getD_dense hom]
    have hso : isSparseOutput (IGraph.iter i (some { tensor := outT, layer := pre.length }) nx) = false := by
      simp [isSparseOutput, hmode]
    have hnext : ((Output.append outT pre.length).next (some pre.length) Kind.compute : Except GenErr (Output × SB F)) =
        .ok (.append outT (pre.length + 1), SB.empty) := by simp [Output.next]
    rw [show (i :: rest).length + 1 + k = (rest.length + 1 + k) + 1 by simp; omega]
    unfold lower
    simp only [Kind.isCompute, Kind.isAssemble, Bool.not_true, Bool.false_and, Bool.false_eq_true, if_false]
    simp only [hso, hmode, Option.map_some, hnext, hsub, hnc, hctx.1, hctx.2, hlater, hIH,
      Bool.and_false, Bool.or_false, Bool.false_and, Bool.false_eq_true, if_false, if_true,
      List.foldlM_cons, List.foldlM_nil, bind, Except.bind, pure, Except.pure,
      List.isEmpty_nil, Bool.not_true, Option.isNone_some, Bool.not_false, List.foldl_nil, beq_self_eq_true,
      List.map_nil, List.nil_append]
    have hall : ∀ t ∈ outT :: leaves e,
        layersToWrite ⟨t, pre.length⟩ i (i :: rest) = [⟨t, pre.length⟩] ∧ t.indexes.getD pre.length "" = i := by
      intro t ht
      have htl : isLeaf (pre ++ i :: rest) t = true := by
        rcases List.mem_cons.1 ht with rfl | ht
        · exact hfull ▸ ho
        · exact hfull ▸ isExpr_mem he t ht
      refine ⟨layersToWrite_eq pre i rest t htl hnd0, ?_⟩
      rw [((isLeaf_iff _ t).1 htl).1]
      simp
    have hfold := foldl_ptrDecls (F := F) i pre.length (i :: rest) (outT :: leaves e) hall SB.empty
    rw [List.map_cons] at hfold
    rw [List.singleton_append, hfold]
    obtain ⟨c, hc⟩ := nestSB_comment ofRat outT e (pre.length + 1) rest
    simp [SB.mk', SB.append, SB.empty, SB.add, SB.loop, SB.finalize, branchJoin, andJoin, joinWith, hc]

/-- **`lower … .compute` emits the loop nest of `evaluate`.** -/
theorem lowerC_eq (ofRat : Rat → F) (k : Nat) (is : List String) (outT : TensorId) (e : IdExpr)
    (ho : isLeaf is outT = true) (he : isExpr is e = true) (hnd : is.Nodup) :
    lower ofRat (is.length + 1 + k) (graph is outT e) (.append outT 0) .compute =
      .ok (nestSB ofRat outT e 0 is) :=
  lowerC_nest_eq ofRat outT e is ho he hnd is [] k rfl

/-! ### declarations and epilogue -/

/-- `.assemble`: `int <out>_vals_capacity = 1 * out->dimensions[0] * …; <out>_vals = malloc(…)`, as `evaluate` -/
theorem appendDeclarationsA_eq (cap : Option Int) (outT : TensorId)
    (hm : outT.modes.all (· == Mode.dense) = true) :
    (appendDeclarations cap outT .assemble : SB F) = ⟨some "Output initialization",
      [declAssignE (valsCapName outT.name) .int
         (mulJoin ((List.range outT.indexes.length).map fun (i : Nat) =>
            .idx (.attr (.var outT.name) "dimensions") (.intLit (Int.ofNat i)))),
       .assign (.var (valsName outT.name)) (.alloc .float (.var (valsCapName outT.name)))]⟩ := by
  rw [appendDeclarations_eq, declStep_dense cap outT .assemble hm]
  simp [Kind.isAssemble, SB.mk', SB.add]

/-- `.compute`: an empty "Output initialization" block -/
theorem appendDeclarationsC_eq (cap : Option Int) (outT : TensorId)
    (hm : outT.modes.all (· == Mode.dense) = true) :
    (appendDeclarations cap outT .compute : SB F) = ⟨some "Output initialization", []⟩ := by
  rw [appendDeclarations_eq, declStep_dense cap outT .compute hm]
  simp [Kind.isAssemble, SB.mk']

/-- `.assemble`: `out->vals = <out>_vals;`, as `evaluate` -/
theorem appendCleanupA_eq [FloatOps F] (outT : TensorId) (hm : outT.modes.all (· == Mode.dense) = true) :
    (appendCleanup outT .assemble : SB F) = ⟨some ("Assembling output tensor " ++ outT.name),
      [.assign (.attr (.var outT.name) "vals") (.var (valsName outT.name))]⟩ := by
  rw [Cleanup.appendCleanup_eq]
  obtain ⟨h1, h2⟩ := cleanStep_dense (F := F) outT hm (List.range outT.modes.length) (Cleanup.cleanInit outT)
  simp only [Kind.isAssemble, Bool.not_true, Bool.false_eq_true, if_false, h1, h2]
  simp [Cleanup.cleanInit, SB.mk', SB.add]

/-- `.compute`: an empty "Assembling output tensor" block -/
theorem appendCleanupC_eq [FloatOps F] (outT : TensorId) :
    (appendCleanup outT .compute : SB F) = ⟨some ("Assembling output tensor " ++ outT.name), []⟩ := by
  rw [Cleanup.appendCleanup_eq]
  simp [Kind.isAssemble, SB.mk']

/-! ### the kernels -/

/-- the statements of the `assemble` kernel of the class, before `return 0`: NO loop -/
def kernelAStmts (formats : Formats) (is : List String) (outT : TensorId) : List (Stmt F) :=
  [.block (dimDeclsN is outT.name) (some "Extract dimensions"),
   .block (formats.map fun f => declAssignE (valsName f.1) (.ptr .float) (.attr (.var f.1) "vals"))
      (some "Unpack tensors"),
   .block [declAssignE (valsCapName outT.name) .int (capExpr is.length outT.name),
      .assign (.var (valsName outT.name)) (.alloc .float (.var (valsCapName outT.name)))]
      (some "Output initialization"),
   (asmSB is).finalize,
   .block [.assign (.attr (.var outT.name) "vals") (.var (valsName outT.name))]
      (some ("Assembling output tensor " ++ outT.name))]

/-- the `assemble` kernel of the class -/
def kernelA (formats : Formats) (is : List String) (outT : TensorId) : Func F :=
  ⟨"assemble", formats.map fun f => (f.1, .ptr .tensor), .int,
    .block (kernelAStmts formats is outT ++ [.ret (.intLit 0)]) none⟩

/-- the statements of the `compute` kernel of the class, before `return 0`: no allocation, no store into the
record -/
def kernelCStmts (ofRat : Rat → F) (formats : Formats) (is : List String) (outT : TensorId) (e : IdExpr) :
    List (Stmt F) :=
  [.block (dimDeclsN is outT.name) (some "Extract dimensions"),
   .block (formats.map fun f => declAssignE (valsName f.1) (.ptr .float) (.attr (.var f.1) "vals"))
      (some "Unpack tensors"),
   .block [] (some "Output initialization"),
   (nestSB ofRat outT e 0 is).finalize,
   .block [] (some ("Assembling output tensor " ++ outT.name))]

/-- the `compute` kernel of the class -/
def kernelC (ofRat : Rat → F) (formats : Formats) (is : List String) (outT : TensorId) (e : IdExpr) : Func F :=
  ⟨"compute", formats.map fun f => (f.1, .ptr .tensor), .int,
    .block (kernelCStmts ofRat formats is outT e ++ [.ret (.intLit 0)]) none⟩

theorem nest_size (outT : TensorId) (e : IdExpr) : ∀ (js : List String) (l : Nat),
    (nest outT e l js).size = js.length + 1 := by
  intro js
  induction js with
  | nil => intro l; simp [nest, IGraph.size]
  | cons j js ih => intro l; simp [nest, IGraph.size, ih]

theorem asmSB_comment (is : List String) : ∃ c, (asmSB is : SB F).comment = some c ∧ (asmSB is : SB F).lines = [] := by
  cases is with
  | nil => exact ⟨_, rfl, rfl⟩
  | cons i is => exact ⟨_, rfl, rfl⟩

/-- **What `generateIr … .assemble` produces on the class.** -/
theorem generateIr_eqA [FloatOps F] (ofRat : Rat → F) (cap : Option Int) (a : Alg.DAssign) (formats : Formats)
    (is : List String) (outT : TensorId) (e : IdExpr)
    (hout : tensorId 0 a.tname formats a.tidx = some outT) (hname : outT.name = a.tname)
    (ho : isLeaf is outT = true)
    (hf : Dense2.denseFormats formats = true)
    (hd : indexDimensions a = dimTriples is a.tname) :
    generateIr ofRat cap a formats (graph is outT e) .assemble = .ok (kernelA formats is outT) := by
  have ho' := (isLeaf_iff is outT).1 ho
  have hsz : 4 * (graph is outT e).size + 8 = (4 * is.length + 11) + 1 := by
    rw [graph, nest_size]; omega
  have hu := Dense2.unpackDecls_eq (F := F) formats hf
  unfold unpackDecls at hu
  obtain ⟨c, hc, hl⟩ := asmSB_comment (F := F) is
  unfold generateIr
  simp only [hout, Option.getD_some, hsz, lowerA_eq ofRat _ is outT e ho, hd,
    appendDeclarationsA_eq cap outT ho'.2, appendCleanupA_eq outT ho'.2, hu]
  simp [bind, Except.bind, pure, Except.pure, kernelA, kernelAStmts, SB.add, SB.append, SB.empty,
    SB.finalize, Kind.name, hname, hc, hl, dimTriples, dimDeclsN, capExpr, ho'.1]

/-- **What `generateIr … .compute` produces on the class.** -/
theorem generateIr_eqC [FloatOps F] (ofRat : Rat → F) (cap : Option Int) (a : Alg.DAssign) (formats : Formats)
    (is : List String) (outT : TensorId) (e : IdExpr)
    (hout : tensorId 0 a.tname formats a.tidx = some outT) (hname : outT.name = a.tname)
    (ho : isLeaf is outT = true) (he : isExpr is e = true) (hnd : is.Nodup)
    (hf : Dense2.denseFormats formats = true)
    (hd : indexDimensions a = dimTriples is a.tname) :
    generateIr ofRat cap a formats (graph is outT e) .compute = .ok (kernelC ofRat formats is outT e) := by
  have ho' := (isLeaf_iff is outT).1 ho
  have hsz : 4 * (graph is outT e).size + 8 = is.length + 1 + (3 * is.length + 11) := by
    rw [graph, nest_size]; omega
  have hu := Dense2.unpackDecls_eq (F := F) formats hf
  unfold unpackDecls at hu
  obtain ⟨c, hc⟩ := nestSB_comment ofRat outT e 0 is
  unfold generateIr
  simp only [hout, Option.getD_some, hsz, lowerC_eq ofRat _ is outT e ho he hnd, hd,
    appendDeclarationsC_eq cap outT ho'.2, appendCleanupC_eq outT, hu]
  simp [bind, Except.bind, pure, Except.pure, kernelC, kernelCStmts, SB.add, SB.append, SB.empty,
    SB.finalize, Kind.name, hname, hc, dimTriples, dimDeclsN]

end TV.AsmCmpDense
