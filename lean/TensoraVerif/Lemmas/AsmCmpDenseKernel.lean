import TensoraVerif.Lemmas.AsmCmpDenseGenerate
import TensoraVerif.Lemmas.DenseNKernel

/-!
C04 for dense element-wise kernels of every order, part 2: the `assemble` and the `compute` kernel on the
machine.

* `kernelA_runs`: from a kernel-call state (`DenseN.Init`) the assembling kernel returns `0` after ZERO loop
  iterations; the output record's `vals` points to a fresh, live, output-owned float block of exactly `Π d`
  uninitialised cells (`KernelPostA`);
* `InitC`: a kernel-call state in which the output record's `vals` points to a live output-owned float block
  `ob` of at least `Π d` cells; `kernelC_runs`: the computing kernel returns `0`, allocates nothing, changes no
  record and writes `valueF e` into the first `Π d` cells of `ob` (`KernelPostC`).
-/
namespace TV.AsmCmpDense
open TV.IR TV.Gen TV.Graph TV.Growth TV.DenseN
open TV.Dense1 (leaves valueF allFinite rhoAt RunsI RunsLI TensorVar)
set_option linter.unusedSectionVars false
variable {F : Type} [FloatOps F]

/-- final state of the assembling kernel: the output record `k` points to the fresh block
`σ.heap.length`, a live output-owned float block of exactly `Π ds` UNINITIALISED cells; nothing else
changed -/
structure KernelPostA (ds : List Nat) (k : Nat) (σ σ' : State F) : Prop where
  outRec : ∃ tr, σ.tensors[k]? = some tr ∧ σ'.tensors[k]? = some { tr with vals := .ptr σ.heap.length 0 }
  otherRecs : ∀ k', k' ≠ k → σ'.tensors[k']? = σ.tensors[k']?
  tlen : σ'.tensors.length = σ.tensors.length
  blk : σ'.heap[σ.heap.length]? = some ⟨.float, List.replicate (prod ds) none, .output, true⟩
  heap : ∀ b, b < σ.heap.length → σ'.heap[b]? = σ.heap[b]?
  heapLen : σ'.heap.length = σ.heap.length + 1

theorem kernelA_runs (formats : Formats) (dims : List (String × Nat)) (outT : TensorId)
    (e : IdExpr) (ok : KernelOK formats (dims.map (·.1)) outT e)
    {tix blkOf : String → Nat} {cellsOf : String → Nat → F} {σ : State F}
    (hfit : Fits 1 (dims.map (·.2))) (hd31 : ∀ p ∈ dims, p.2 < 2147483648)
    (hn31 : dims.length < 2147483648)
    (hinit : Init formats outT e (dims.map (·.2)) tix blkOf cellsOf σ) (fuel : Nat) :
    ∃ o, exec fuel (kernelA (F := F) formats (dims.map (·.1)) outT).body σ = .ok o ∧
      o.ret = some (.int 0) ∧ o.iters = 0 ∧
      KernelPostA (dims.map (·.2)) (tix outT.name) σ o.st := by
  obtain ⟨hparams, hfresh, hrecs, ⟨otr, dblk, hotr, hown, hdb, hdlive, hdty, hdc⟩, _⟩ := hinit
  have hgen : ∀ x, '_' ∈ x.toList → x ∉ formats.map (·.1) := by
    intro x hx hm
    obtain ⟨f, hf, rfl⟩ := List.mem_map.1 hm
    exact ok.tensors f hf hx
  have hNne : ∀ f ∈ formats, ∀ x, '_' ∈ x.toList → f.1 ≠ x :=
    fun f hf x hx => ne_of_underscore (ok.tensors f hf) hx
  obtain ⟨fo, hfo, hfoe⟩ := List.mem_map.1 ok.out
  have hfoe : fo.1 = outT.name := hfoe
  have houtus : '_' ∉ outT.name.toList := by rw [← hfoe]; exact ok.tensors fo hfo
  have hTout : TensorVar σ outT.name (tix outT.name) := by rw [← hfoe]; exact hparams fo hfo
  have hlenI : (dims.map (·.1)).length = dims.length := by simp
  have hlenD : (dims.map (·.2)).length = dims.length := by simp
  have hP31 : prod (dims.map (·.2)) < 2147483648 := by simpa using hfit.prod_lt
  have hdk : ∀ k, k < dims.length → (dims.map (·.2)).getD k 0 < 2147483648 := by
    intro k hk
    have : (dims.map (·.2)).getD k 0 = (dims[k]).2 := by simp [List.getD_eq_getElem?_getD, hk]
    rw [this]; exact hd31 _ (List.getElem_mem hk)
  -- A: int i_dim = out->dimensions[k]
  obtain ⟨σA, rA, hhA, htA, hoA, hdimA⟩ := dimDecls_runs fuel (dims.map (·.1)) (dims.map (·.2)) hTout hotr hdb
    hdlive hdty (by rw [hlenI, ← hlenD]; exact hdc) (by rw [hlenI]; exact hdk) (by rw [hlenI]; exact hn31)
    houtus ok.nodup (fun k _ => hfresh _ (hgen _ (Dense1.mem_us_dimName _))) (dims.map (·.1)).length
    (Nat.le_refl _)
  have hA_of : ∀ y, (∀ i, y ≠ dimName i) → lookupVar σA.vars y = lookupVar σ.vars y :=
    fun y hy => hoA y (fun k _ => hy _)
  -- B: unpack
  obtain ⟨σB, rB, hhB, htB, hoB, hpB⟩ := Dense1.unpack_runs fuel tix formats σA
    (fun f hf => ⟨(hparams f hf).congr (hA_of _ (fun i => hNne f hf _ (Dense1.mem_us_dimName i))),
      by rw [htA]; exact hrecs f hf⟩)
    (fun f hf r hr => by
      rw [hA_of _ (fun i => (Dense1.dimName_ne_valsName i f.1).symm),
        hfresh _ (hgen _ (Dense1.mem_us_valsName f.1))] at hr; cases hr)
    (fun f hf g _ => hNne f hf _ (Dense1.mem_us_valsName g.1))
  have hB_of : ∀ y, (∀ s, y ≠ valsName s) → lookupVar σB.vars y = lookupVar σA.vars y := by
    intro y hy
    apply hoB
    intro hm
    obtain ⟨f, _, hf⟩ := List.mem_map.1 hm
    exact hy f.1 hf.symm
  -- C1: int out_vals_capacity = 1 * out->dimensions[0] * …
  have hToutB : TensorVar σB outT.name (tix outT.name) := by
    refine hTout.congr ?_
    rw [hB_of _ (fun s => by rw [← hfoe]; exact hNne fo hfo _ (Dense1.mem_us_valsName s)),
      hA_of _ (fun i => by rw [← hfoe]; exact hNne fo hfo _ (Dense1.mem_us_dimName i))]
  have eC : evalE σB (capExpr (dims.map (·.1)).length outT.name : Expr F) =
      .ok (.int (prod (dims.map (·.2)))) := by
    rw [hlenI, ← hlenD]
    exact evalE_capExpr (dims.map (·.2)) hToutB (by rw [htB, htA]; exact hotr)
      (by rw [hhB, hhA]; exact hdb) hdlive hdty hdc (by rw [hlenD]; exact hdk) (by rw [hlenD]; exact hn31) hfit
  obtain ⟨σC1, rC1, hhC1, htC1, hcapC1, hoC1⟩ := Dense1.runsI_declAssign (fuel := fuel)
    (x := valsCapName outT.name) (t := .int) (val' := .int (prod (dims.map (·.2))))
    (by
      rw [hB_of _ (fun s => (Dense1.valsName_ne_valsCapName' s outT.name).symm),
        hA_of _ (fun i => (Dense1.dimName_ne_valsCapName i outT.name).symm),
        hfresh _ (hgen _ (Dense1.mem_us_valsCapName _))]
      intro r h; cases h) eC rfl
  have hcapC1 : IntVar σC1 (valsCapName outT.name) (prod (dims.map (·.2))) := hcapC1
  -- C2: out_vals = malloc(out_vals_capacity)
  obtain ⟨ro, tro, hro1, hro2, _, _⟩ := hpB fo hfo
  rw [hfoe] at hro1
  obtain ⟨σC, rC2, htC, hhC, houtC, hoC⟩ := Dense1.runsI_alloc (fuel := fuel) (ty := .float) (ety := .float)
    (ha := (hoC1 _ (Dense1.valsName_ne_valsCapName' outT.name outT.name)).trans hro1) hro2 hcapC1
    (by omega) (by omega) rfl
  have hlenC1 : σC1.heap.length = σ.heap.length := by rw [hhC1, hhB, hhA]
  rw [hlenC1] at houtC
  have hheapC : σC.heap = σ.heap ++ [⟨.float, List.replicate (prod (dims.map (·.2))) none, .output, true⟩] := by
    rw [hhC, hhC1, hhB, hhA]
    simp
  -- E: out->vals = out_vals
  have hToutC : TensorVar σC outT.name (tix outT.name) := by
    refine hTout.congr ?_
    rw [hoC _ (by rw [← hfoe]; exact hNne fo hfo _ (Dense1.mem_us_valsName _)),
      hoC1 _ (by rw [← hfoe]; exact hNne fo hfo _ (Dense1.mem_us_valsCapName _)),
      hB_of _ (fun s => by rw [← hfoe]; exact hNne fo hfo _ (Dense1.mem_us_valsName s)),
      hA_of _ (fun i => by rw [← hfoe]; exact hNne fo hfo _ (Dense1.mem_us_dimName i))]
  have htC' : σC.tensors = σ.tensors := by rw [htC, htC1, htB, htA]
  have rE := Dense1.runsI_storeVals (fuel := fuel) hToutC houtC (by rw [htC']; exact hotr) hown
  obtain ⟨c, hc, hl⟩ := asmSB_comment (F := F) (dims.map (·.1))
  have rD : RunsI fuel (asmSB (F := F) (dims.map (·.1))).finalize σC σC 0 := by
    rw [SB.finalize, hl]
    exact Dense1.RunsI.block (Dense1.RunsLI.nil _ _)
  -- the whole body
  have rAll := Dense1.RunsLI.cons (Dense1.RunsI.block (c := some "Extract dimensions") rA)
    (Dense1.RunsLI.cons (Dense1.RunsI.block (c := some "Unpack tensors") rB)
      (Dense1.RunsLI.cons (Dense1.RunsI.block (c := some "Output initialization")
          (Dense1.RunsLI.cons rC1 (Dense1.RunsLI.cons rC2 (Dense1.RunsLI.nil _ _))))
        (Dense1.RunsLI.cons rD
          (Dense1.RunsLI.cons (Dense1.RunsI.block (c := some ("Assembling output tensor " ++ outT.name))
              (Dense1.RunsLI.cons rE (Dense1.RunsLI.nil _ _))) (Dense1.RunsLI.nil _ _)))))
  obtain ⟨o, eo, hret, hst, hit⟩ := Dense1.execL_ret (e := .intLit 0) (v := .int 0) rAll
    (evalE_intLit (by omega) (by omega))
  refine ⟨o, ?_, hret, by rw [hit], ?_⟩
  · show exec fuel (.block (kernelAStmts formats (dims.map (·.1)) outT ++ [.ret (.intLit 0)]) none) σ = _
    rw [exec.eq_5]
    exact eo
  · rw [hst]
    have hklt : tix outT.name < σ.tensors.length := lt_length_of_getElem? hotr
    refine ⟨⟨otr, hotr, ?_⟩, ?_, ?_, ?_, ?_, ?_⟩
    · show (σC.tensors.set _ _)[_]? = _
      rw [htC', List.getElem?_set_self hklt]
    · intro k' hk'
      show (σC.tensors.set _ _)[_]? = _
      rw [htC', List.getElem?_set_ne (Ne.symm hk')]
    · show (σC.tensors.set _ _).length = _
      rw [List.length_set, htC']
    · show σC.heap[_]? = _
      rw [hheapC]; simp
    · intro b hb
      show σC.heap[b]? = _
      rw [hheapC, List.getElem?_append_left hb]
    · show σC.heap.length = _
      rw [hheapC]; simp

/-! ### the computing kernel -/

/-- **Initial machine state of a `compute` call**: the variables are exactly the tensor parameters; every
record has a pointer (or `NULL`) in `vals`; the output record's `dimensions` block holds `ds` and its `vals`
is the base address of block `ob`, a live, output-owned float block of AT LEAST `Π ds` cells (contents
arbitrary); the record of every tensor `t` of the right-hand side has `vals` pointing to a live float block
`blkOf t ≠ ob` whose first `Π ds` cells are initialised with `cellsOf t`. -/
structure InitC (formats : Formats) (outT : TensorId) (e : IdExpr) (ds : List Nat)
    (tix : String → Nat) (blkOf : String → Nat) (cellsOf : String → Nat → F) (ob : Nat) (σ : State F) :
    Prop where
  params : ∀ f ∈ formats, TensorVar σ f.1 (tix f.1)
  fresh : ∀ x, x ∉ formats.map (·.1) → lookupVar σ.vars x = none
  recs : ∀ f ∈ formats, ∃ tr, σ.tensors[tix f.1]? = some tr ∧ isPtrVal tr.vals = true
  out : ∃ tr blk, σ.tensors[tix outT.name]? = some tr ∧ tr.vals = .ptr ob 0 ∧
    σ.heap[tr.dimsBlk]? = some blk ∧ blk.live = true ∧ blk.ty = .int ∧
    ∀ k, k < ds.length → blk.cells[k]? = some (some (.int (ds.getD k 0)))
  outBlk : ∃ blk, σ.heap[ob]? = some blk ∧ blk.live = true ∧ blk.owner = .output ∧ blk.ty = .float ∧
    prod ds ≤ blk.cells.length
  ins : ∀ t ∈ leaves e, blkOf t.name ≠ ob ∧
    ∃ tr blk, σ.tensors[tix t.name]? = some tr ∧ tr.vals = .ptr (blkOf t.name) 0 ∧
    σ.heap[blkOf t.name]? = some blk ∧ blk.live = true ∧ blk.ty = .float ∧
    ∀ c, c < prod ds → blk.cells[c]? = some (some (.flt (cellsOf t.name c)))

/-- final state of the computing kernel: no record changed, no allocation, only block `ob` changed, and only
in its first `n` cells, which hold the values of `e` -/
structure KernelPostC (ofRat : Rat → F) (e : IdExpr) (n ob : Nat) (cellsOf : String → Nat → F)
    (σ σ' : State F) : Prop where
  tensors : σ'.tensors = σ.tensors
  heapLen : σ'.heap.length = σ.heap.length
  other : ∀ b, b ≠ ob → σ'.heap[b]? = σ.heap[b]?
  vals : ∃ blk0 blk, σ.heap[ob]? = some blk0 ∧ σ'.heap[ob]? = some blk ∧ blk.ty = blk0.ty ∧
    blk.owner = blk0.owner ∧ blk.live = blk0.live ∧ blk.cells.length = blk0.cells.length ∧
    (∀ c, c < n → blk.cells[c]? = some (some (.flt (valueF ofRat (rhoAt cellsOf c) e)))) ∧
    (∀ c, n ≤ c → blk.cells[c]? = blk0.cells[c]?)

theorem kernelC_runs (ofRat : Rat → F) (formats : Formats) (dims : List (String × Nat)) (outT : TensorId)
    (e : IdExpr) (ho : isLeaf (dims.map (·.1)) outT = true) (he : isExpr (dims.map (·.1)) e = true)
    (ok : KernelOK formats (dims.map (·.1)) outT e)
    {tix blkOf : String → Nat} {cellsOf : String → Nat → F} {ob : Nat} {σ : State F}
    (hfit : Fits 1 (dims.map (·.2))) (hd31 : ∀ p ∈ dims, p.2 < 2147483648)
    (hn31 : dims.length < 2147483648)
    (hfin : ∀ c, c < prod (dims.map (·.2)) → allFinite ofRat (rhoAt cellsOf c) e = true)
    (hinit : InitC formats outT e (dims.map (·.2)) tix blkOf cellsOf ob σ) (fuel : Nat)
    (hfuel : fuelNeed (dims.map (·.2)) ≤ fuel) :
    ∃ o, exec fuel (kernelC ofRat formats (dims.map (·.1)) outT e).body σ = .ok o ∧
      o.ret = some (.int 0) ∧ o.iters = iterCount (dims.map (·.2)) ∧
      KernelPostC ofRat e (prod (dims.map (·.2))) ob cellsOf σ o.st := by
  obtain ⟨hparams, hfresh, hrecs, ⟨otr, dblk, hotr, hovals, hdb, hdlive, hdty, hdc⟩, houtBlk, hins⟩ := hinit
  have hgen : ∀ x, '_' ∈ x.toList → x ∉ formats.map (·.1) := by
    intro x hx hm
    obtain ⟨f, hf, rfl⟩ := List.mem_map.1 hm
    exact ok.tensors f hf hx
  have hNne : ∀ f ∈ formats, ∀ x, '_' ∈ x.toList → f.1 ≠ x :=
    fun f hf x hx => ne_of_underscore (ok.tensors f hf) hx
  obtain ⟨fo, hfo, hfoe⟩ := List.mem_map.1 ok.out
  have hfoe : fo.1 = outT.name := hfoe
  have houtus : '_' ∉ outT.name.toList := by rw [← hfoe]; exact ok.tensors fo hfo
  have hTout : TensorVar σ outT.name (tix outT.name) := by rw [← hfoe]; exact hparams fo hfo
  have hlenI : (dims.map (·.1)).length = dims.length := by simp
  have hlenD : (dims.map (·.2)).length = dims.length := by simp
  have hdk : ∀ k, k < dims.length → (dims.map (·.2)).getD k 0 < 2147483648 := by
    intro k hk
    have : (dims.map (·.2)).getD k 0 = (dims[k]).2 := by simp [List.getD_eq_getElem?_getD, hk]
    rw [this]; exact hd31 _ (List.getElem_mem hk)
  -- A: int i_dim = out->dimensions[k]
  obtain ⟨σA, rA, hhA, htA, hoA, hdimA⟩ := dimDecls_runs fuel (dims.map (·.1)) (dims.map (·.2)) hTout hotr hdb
    hdlive hdty (by rw [hlenI, ← hlenD]; exact hdc) (by rw [hlenI]; exact hdk) (by rw [hlenI]; exact hn31)
    houtus ok.nodup (fun k _ => hfresh _ (hgen _ (Dense1.mem_us_dimName _))) (dims.map (·.1)).length
    (Nat.le_refl _)
  have hA_of : ∀ y, (∀ i, y ≠ dimName i) → lookupVar σA.vars y = lookupVar σ.vars y :=
    fun y hy => hoA y (fun k _ => hy _)
  -- B: unpack
  obtain ⟨σB, rB, hhB, htB, hoB, hpB⟩ := Dense1.unpack_runs fuel tix formats σA
    (fun f hf => ⟨(hparams f hf).congr (hA_of _ (fun i => hNne f hf _ (Dense1.mem_us_dimName i))),
      by rw [htA]; exact hrecs f hf⟩)
    (fun f hf r hr => by
      rw [hA_of _ (fun i => (Dense1.dimName_ne_valsName i f.1).symm),
        hfresh _ (hgen _ (Dense1.mem_us_valsName f.1))] at hr; cases hr)
    (fun f hf g _ => hNne f hf _ (Dense1.mem_us_valsName g.1))
  have hB_of : ∀ y, (∀ s, y ≠ valsName s) → lookupVar σB.vars y = lookupVar σA.vars y := by
    intro y hy
    apply hoB
    intro hm
    obtain ⟨f, _, hf⟩ := List.mem_map.1 hm
    exact hy f.1 hf.symm
  have hB_all : ∀ y, (∀ i, y ≠ dimName i) → (∀ s, y ≠ valsName s) →
      lookupVar σB.vars y = lookupVar σ.vars y := by
    intro y h1 h2
    rw [hB_of y h2, hA_of y h1]
  have hheapB : σB.heap = σ.heap := by rw [hhB, hhA]
  -- the environment of the nest
  have henv : Env dims outT e (prod (dims.map (·.2))) ob blkOf cellsOf σB := by
    refine ⟨?_, ?_, ?_, ?_, ?_⟩
    · intro p hp
      obtain ⟨k, hk, rfl⟩ := List.getElem_of_mem hp
      have h := hdimA k (by rw [hlenI]; exact hk)
      have e1 : (dims.map (·.1)).getD k "" = (dims[k]).1 := by simp [List.getD_eq_getElem?_getD, hk]
      have e2 : (dims.map (·.2)).getD k 0 = (dims[k]).2 := by simp [List.getD_eq_getElem?_getD, hk]
      rw [e1, e2] at h
      refine h.congr ?_
      rw [hB_of _ (fun s => Dense1.dimName_ne_valsName _ s)]
    · obtain ⟨r, tr', hr1, hr2, hr3, hr4⟩ := hpB fo hfo
      rw [hfoe] at hr1 hr3
      rw [htA, hotr] at hr3; cases hr3
      exact ⟨r, .float, hr1, hr2, by rw [hr4, hovals]⟩
    · obtain ⟨blk, hb, h1, h2, h3, h4⟩ := houtBlk
      exact ⟨blk, by rw [hheapB]; exact hb, h1, h2, h3, h4⟩
    · intro t ht
      obtain ⟨hne, tr, blk, htr, hv, hb, rest⟩ := hins t ht
      obtain ⟨f, hf, hfe⟩ := List.mem_map.1 (ok.ins t ht).1
      have hfe : f.1 = t.name := hfe
      obtain ⟨r, tr', hr1, hr2, hr3, hr4⟩ := hpB f hf
      rw [hfe] at hr1 hr3
      rw [htA, htr] at hr3; cases hr3
      exact ⟨⟨r, .float, hr1, hr2, by rw [hr4, hv]⟩, hne, blk, by rw [hheapB]; exact hb, rest⟩
    · intro x hx r hr
      have hxN : x ∉ formats.map (·.1) := by
        rcases mem_scratch hx with h | ⟨t, _, k, _, rfl⟩
        · exact ok.idxTensor x h
        · exact hgen _ (mem_us_lp t.id k)
      rw [hB_all x
        (fun i h => dimName_not_mem_scratch ok.idx i 0 (h ▸ hx))
        (fun s h => valsName_not_mem_scratch ok.idx s 0 (h ▸ hx)),
        hfresh x hxN] at hr
      cases hr
  -- D: the loop nest
  have hus : ∀ p ∈ dims, '_' ∉ p.1.toList := fun p hp => ok.idx p.1 (List.mem_map_of_mem hp)
  obtain ⟨σD, rD, hpost⟩ := nest_runs ofRat outT e dims (prod (dims.map (·.2))) ob blkOf cellsOf
    ho he ok.nodup hus dims [] 0 1 σB fuel rfl henv (by simp [DenseN.PrevIs]) (by omega) hfit (by simp)
    (fun c _ hc => hfin c (by simpa using hc)) hfuel
  simp only [List.length_nil, Nat.zero_mul, Nat.zero_add, Nat.one_mul] at rD hpost
  -- the whole body
  have rAll := Dense1.RunsLI.cons (Dense1.RunsI.block (c := some "Extract dimensions") rA)
    (Dense1.RunsLI.cons (Dense1.RunsI.block (c := some "Unpack tensors") rB)
      (Dense1.RunsLI.cons (Dense1.RunsI.block (c := some "Output initialization") (Dense1.RunsLI.nil fuel σB))
        (Dense1.RunsLI.cons rD
          (Dense1.RunsLI.cons (Dense1.RunsI.block (c := some ("Assembling output tensor " ++ outT.name))
              (Dense1.RunsLI.nil fuel σD)) (Dense1.RunsLI.nil _ _)))))
  obtain ⟨o, eo, hret, hst, hit⟩ := Dense1.execL_ret (e := .intLit 0) (v := .int 0) rAll
    (evalE_intLit (by omega) (by omega))
  refine ⟨o, ?_, hret, by rw [hit]; omega, ?_⟩
  · show exec fuel (.block (kernelCStmts ofRat formats (dims.map (·.1)) outT e ++ [.ret (.intLit 0)]) none) σ = _
    rw [exec.eq_5]
    exact eo
  · rw [hst]
    obtain ⟨blk, blk', hb, hb', hlive, hown', hty, hlen, hc1, hc2⟩ := hpost.outBlk
    refine ⟨by rw [hpost.tensors, htB, htA], by rw [hpost.heapLen, hheapB], ?_, ?_⟩
    · intro b hb
      rw [hpost.heap b hb, hheapB]
    · exact ⟨blk, blk', by rw [← hheapB]; exact hb, hb', hty, hown', hlive, hlen,
        fun c hc => hc1 c (by omega) hc, fun c hc => hc2 c (Or.inr hc)⟩

/-! ### composing calls -/

/-- **After `assemble`, `compute` may be called.** If `σ` is a kernel-call state (`Init`) in which no input of
the right-hand side shares its record with the output, and the assembling kernel took it to `σ'`
(`KernelPostA`), then the next call state (`vars` of `σ`, memory of `σ'`) satisfies `InitC` with `ob` the
fresh block `σ.heap.length`. -/
theorem initC_after_assemble {formats : Formats} {outT : TensorId} {e : IdExpr} {ds : List Nat}
    {tix blkOf : String → Nat} {cellsOf : String → Nat → F} {σ σ' : State F}
    (init : Init formats outT e ds tix blkOf cellsOf σ)
    (hrec : ∀ t ∈ leaves e, tix t.name ≠ tix outT.name)
    (post : KernelPostA ds (tix outT.name) σ σ') :
    InitC formats outT e ds tix blkOf cellsOf σ.heap.length ⟨σ.vars, σ'.heap, σ'.tensors⟩ := by
  obtain ⟨hparams, hfresh, hrecs, ⟨otr, dblk, hotr, hown, hdb, hdlive, hdty, hdc⟩, hins⟩ := init
  obtain ⟨⟨otr', hotr', hrec'⟩, hother, _, hblk, hheap, hlen⟩ := post
  rw [hotr] at hotr'; cases hotr'
  refine ⟨hparams, hfresh, ?_, ?_, ?_, ?_⟩
  · intro f hf
    obtain ⟨tr, htr, hp⟩ := hrecs f hf
    by_cases hk : tix f.1 = tix outT.name
    · exact ⟨_, by show σ'.tensors[_]? = _; rw [hk]; exact hrec', rfl⟩
    · exact ⟨tr, by show σ'.tensors[_]? = _; rw [hother _ hk]; exact htr, hp⟩
  · exact ⟨_, dblk, hrec', rfl, by show σ'.heap[_]? = _; rw [hheap _ (lt_length_of_getElem? hdb)]; exact hdb,
      hdlive, hdty, hdc⟩
  · exact ⟨_, hblk, rfl, rfl, rfl, by simp⟩
  · intro t ht
    obtain ⟨tr, blk, htr, hv, hb, rest⟩ := hins t ht
    have hlt : blkOf t.name < σ.heap.length := lt_length_of_getElem? hb
    exact ⟨by omega, tr, blk, by show σ'.tensors[_]? = _; rw [hother _ (hrec t ht)]; exact htr, hv,
      by show σ'.heap[_]? = _; rw [hheap _ hlt]; exact hb, rest⟩

/-- `InitC` only depends on the parameter variables, the tensor records, the output's `dimensions` block, the
block `ob` (up to its contents) and the inputs' `vals` blocks: it survives a change of the input VALUES. -/
theorem InitC.transport {formats : Formats} {outT : TensorId} {e : IdExpr} {ds : List Nat}
    {tix blkOf : String → Nat} {cellsOf cellsOf' : String → Nat → F} {ob : Nat} {σ σ2 : State F}
    (init : InitC formats outT e ds tix blkOf cellsOf ob σ)
    (hv : σ2.vars = σ.vars) (ht : σ2.tensors = σ.tensors)
    (hheap : ∀ k, k ≠ ob → (∀ t ∈ leaves e, k ≠ blkOf t.name) → σ2.heap[k]? = σ.heap[k]?)
    (hob : ∃ blk, σ2.heap[ob]? = some blk ∧ blk.live = true ∧ blk.owner = .output ∧ blk.ty = .float ∧
      prod ds ≤ blk.cells.length)
    (hvals : ∀ t ∈ leaves e, ∃ blk, σ2.heap[blkOf t.name]? = some blk ∧ blk.live = true ∧ blk.ty = .float ∧
      ∀ c, c < prod ds → blk.cells[c]? = some (some (.flt (cellsOf' t.name c)))) :
    InitC formats outT e ds tix blkOf cellsOf' ob σ2 := by
  obtain ⟨hparams, hfresh, hrecs, ⟨otr, dblk, hotr, hovals, hdb, hdlive, hdty, hdc⟩, houtBlk, hins⟩ := init
  refine ⟨?_, ?_, ?_, ?_, hob, ?_⟩
  · intro f hf
    obtain ⟨r, h1, h2, h3⟩ := hparams f hf
    exact ⟨r, by rw [hv]; exact h1, h2, h3⟩
  · intro x hx; rw [hv]; exact hfresh x hx
  · intro f hf; rw [ht]; exact hrecs f hf
  · refine ⟨otr, dblk, by rw [ht]; exact hotr, hovals, ?_, hdlive, hdty, hdc⟩
    rw [hheap otr.dimsBlk]
    · exact hdb
    · intro h
      obtain ⟨blk, hb, _, _, hty, _⟩ := houtBlk
      rw [h, hb] at hdb; cases hdb
      rw [hty] at hdty; cases hdty
    · intro t htl h
      obtain ⟨_, _, blk, _, _, hb, _, hty, _⟩ := hins t htl
      rw [h, hb] at hdb; cases hdb
      rw [hty] at hdty; cases hdty
  · intro t htl
    obtain ⟨hne, tr, blk, htr, hv', hb, _⟩ := hins t htl
    obtain ⟨blk2, hb2, h1, h2, h3⟩ := hvals t htl
    exact ⟨hne, tr, blk2, by rw [ht]; exact htr, hv', hb2, h1, h2, h3⟩

end TV.AsmCmpDense
